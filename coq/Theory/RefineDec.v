(* Theory/RefineDec.v — the Decode statements of a recognised type behave, on every well-formed
   receiver, like its schema: the result is [spec_dec] of the bytes, which does not mention the
   receiver at all.  This is the C15 core and carries every parse-level theorem to the programs. *)
From FP.Theory Require Export RefineEnc.
From Coq Require Import ZifyBool ZifyNat ZifyN.
Local Open Scope N_scope.

Section RefineD.
  Variable tables : list (N * table).
  Variable dec_rec : N -> list value -> list byte -> res (list value * list byte).
  Variable sdec : N -> list byte -> res (list value * list byte).
  Variable zero_rec : N -> option (list value).
  Variable rrec : N -> list value -> bool.
  Hypothesis Hrec : forall t r buf, rrec t r = true -> dec_rec t r buf = sdec t buf.
  Hypothesis Hzero : forall t z, zero_rec t = Some z -> rrec t z = true.
  (* a type without a zero value is unknown to the nested decoder as well *)
  Hypothesis Hnone : forall t buf, zero_rec t = None -> sdec t buf = Fail FUnmodelled.

  Notation rund := (run_dstmt tables dec_rec zero_rec).
  Notation runds := (run_dstmts tables dec_rec zero_rec).
  Notation pkind := (parse_kind tables sdec).
  Notation pfields := (parse_fields tables sdec).

  Lemma runds_app a b fs buf : runds (a ++ b) fs buf = (do '(fs', buf') <- runds a fs buf; runds b fs' buf').
  Proof.
    revert fs buf. induction a as [|x a IH]; intros fs buf; cbn [app run_dstmts bind]; [reflexivity|].
    destruct (rund x fs buf) as [[fs1 b1]|f]; cbn [bind]; [apply IH|reflexivity].
  Qed.

  Lemma dec_objs_refines tid buf : dec_objs dec_rec zero_rec tid buf = parse_obj sdec tid buf.
  Proof.
    unfold dec_objs, parse_obj, fresh.
    destruct (zero_rec tid) as [z|] eqn:Ez; cbn [bind].
    - rewrite (Hrec tid z buf (Hzero _ _ Ez)). reflexivity.
    - rewrite Hnone by exact Ez. reflexivity.
  Qed.

  Lemma read_n_ext {A} (f g : list byte -> res (A * list byte)) : (forall b, f b = g b) ->
    forall fuel cnt buf, read_n f fuel cnt buf = read_n g fuel cnt buf.
  Proof.
    intros H fuel. induction fuel as [|fuel IH]; intros cnt buf; cbn [read_n]; [reflexivity|].
    destruct (cnt =? 0); [reflexivity|]. rewrite H. destruct (g buf) as [[a r]|]; cbn [bind]; [|reflexivity].
    rewrite IH. reflexivity.
  Qed.

  Lemma read_list_ext {A} (f g : list byte -> res (A * list byte)) le cnt buf : (forall b, f b = g b) ->
    read_list le cnt f buf = read_list le cnt g buf.
  Proof.
    intro H. unfold read_list. destruct (read_basic le cnt buf) as [[n r]|]; cbn [bind]; [|reflexivity].
    destruct (wire_count n) as [n'|]; cbn [bind]; [|reflexivity]. apply read_n_ext. exact H.
  Qed.

  (* the receiver's current value of the field being decoded *)
  Definition recv_ok_for (k : kind) (r : value) : bool :=
    match k with
    | KCall _ _ _ (DPtr t) => match r with VNil => true | VObj t' ofs => (t' =? t) && rrec t' ofs | _ => false end
    | KCall _ _ _ (DVal t) => match r with VObj t' ofs => (t' =? t) && rrec t' ofs | _ => false end
    | _ => true
    end.

  Definition dstate_after (done : list value) (r : res (value * list byte)) (todo : list value) : res (list value * list byte) :=
    match r with Ok (v, rest) => Ok (done ++ v :: todo, rest) | Fail f => Fail f end.

  Lemma dlookup_run done r todo buf tbl key f g p :
    (key < length done)%nat ->
    runds [DLookup tbl key (length done); DCall (length done)] (done ++ r :: todo) buf =
    dstate_after done (pkind done (KCall f g p (DSel tbl key)) buf) todo.
  Proof.
    intro Hk. cbn [run_dstmts run_dstmt parse_kind].
    rewrite get_field_done by exact Hk. rewrite get_field_mid.
    destruct (get_field done key) as [kv|e]; cbn [bind]; [|reflexivity].
    change (lookup_type tables tbl kv) with (slookup tables tbl kv).
    destruct (slookup tables tbl kv) as [ty|e]; cbn [bind]; [|reflexivity].
    unfold fresh, parse_obj. destruct (zero_rec ty) as [z|] eqn:Ez; cbn [bind].
    - rewrite set_nth_mid, get_field_mid. cbn [bind].
      rewrite (Hrec ty z buf (Hzero _ _ Ez)).
      destruct (sdec ty buf) as [[ofs' rest]|e]; cbn [bind dstate_after]; [|reflexivity].
      rewrite set_nth_mid. reflexivity.
    - rewrite Hnone by exact Ez. reflexivity.
  Qed.

  Lemma densure_run done r todo buf t f g p :
    recv_ok_for (KCall f g p (DPtr t)) r = true ->
    runds [DEnsure (length done) t; DCall (length done)] (done ++ r :: todo) buf =
    dstate_after done (pkind done (KCall f g p (DPtr t)) buf) todo.
  Proof.
    intro Hr. cbn [run_dstmts run_dstmt parse_kind recv_ok_for] in *.
    rewrite get_field_mid. cbn [bind].
    destruct r; try discriminate.
    - apply andb_true_iff in Hr. destruct Hr as [Ht Hr]. apply N.eqb_eq in Ht. subst t0.
      cbn [bind]. rewrite get_field_mid. cbn [bind]. rewrite (Hrec _ _ buf Hr). unfold parse_obj.
      destruct (sdec t buf) as [[ofs' rest]|e]; cbn [bind dstate_after]; [|reflexivity].
      rewrite set_nth_mid. reflexivity.
    - unfold fresh, parse_obj. destruct (zero_rec t) as [z|] eqn:Ez; cbn [bind].
      + rewrite set_nth_mid, get_field_mid. cbn [bind].
        rewrite (Hrec t z buf (Hzero _ _ Ez)).
        destruct (sdec t buf) as [[ofs' rest]|e]; cbn [bind dstate_after]; [|reflexivity].
        rewrite set_nth_mid. reflexivity.
      + rewrite Hnone by exact Ez. reflexivity.
  Qed.

  (* the canonical Decode statements of a kind at field index i *)
  Definition dec_of_kind (i : nat) (k : kind) : list dstmt :=
    match k with
    | KPrim p _ => [DRead p i]
    | KObjs le cnt t => [DRead (PObjList le cnt t) i]
    | KCall _ _ _ (DPtr t) => [DEnsure i t; DCall i]
    | KCall _ _ _ (DVal t) => [DCall i]
    | KCall _ _ _ (DSel tbl key) => [DLookup tbl key i; DCall i]
    end.
  Fixpoint dec_of_kinds (i : nat) (ks : list kind) : list dstmt :=
    match ks with [] => [] | k :: r => dec_of_kind i k ++ dec_of_kinds (S i) r end.

  (* side conditions: object lists are not disguised as KPrim; discriminator keys come earlier *)
  Definition dkind_ok (i : nat) (k : kind) : bool :=
    match k with
    | KPrim p _ => negb (is_objlist p)
    | KCall _ _ _ (DSel _ key) => Nat.ltb key i
    | _ => true
    end.
  Fixpoint dkinds_ok (i : nat) (ks : list kind) : bool :=
    match ks with [] => true | k :: r => dkind_ok i k && dkinds_ok (S i) r end.

  Lemma dkind_run done r todo buf k :
    dkind_ok (length done) k = true -> recv_ok_for k r = true ->
    runds (dec_of_kind (length done) k) (done ++ r :: todo) buf = dstate_after done (pkind done k buf) todo.
  Proof.
    intros Hk Hr. destruct k as [p prop|le cnt t|f g prop d].
    - cbn [dec_of_kind dkind_ok] in *.
      destruct p; cbn [is_objlist negb] in Hk; try discriminate;
        cbn [run_dstmts run_dstmt bind]; rewrite get_field_mid; cbn [bind parse_kind dstate_after];
        match goal with |- context [r_prim ?p ?b] => destruct (r_prim p b) as [[v rest]|e] end; cbn [bind];
        [rewrite set_nth_mid; reflexivity | reflexivity | rewrite set_nth_mid; reflexivity | reflexivity
        | rewrite set_nth_mid; reflexivity | reflexivity | rewrite set_nth_mid; reflexivity | reflexivity
        | rewrite set_nth_mid; reflexivity | reflexivity | rewrite set_nth_mid; reflexivity | reflexivity].
    - cbn [dec_of_kind run_dstmts run_dstmt bind]. rewrite get_field_mid. cbn [bind parse_kind dstate_after].
      rewrite (read_list_ext _ (parse_obj sdec t) le cnt buf (dec_objs_refines t)).
      destruct (read_list le cnt (parse_obj sdec t) buf) as [[l rest]|e]; cbn [bind]; [|reflexivity].
      rewrite set_nth_mid. reflexivity.
    - destruct d as [t|t|tbl key]; cbn [dec_of_kind].
      + apply densure_run. exact Hr.
      + cbn [run_dstmts run_dstmt bind]. rewrite get_field_mid. cbn [bind parse_kind dstate_after recv_ok_for] in *.
        destruct r; try discriminate. apply andb_true_iff in Hr. destruct Hr as [Ht Hr].
        apply N.eqb_eq in Ht. subst t0.
        rewrite (Hrec _ _ buf Hr). unfold parse_obj.
        destruct (sdec t buf) as [[ofs' rest]|e]; cbn [bind]; [|reflexivity].
        rewrite set_nth_mid. reflexivity.
      + cbn [dkind_ok] in Hk. apply dlookup_run. apply Nat.ltb_lt. exact Hk.
  Qed.

  Fixpoint recvs_ok_for (ks : list kind) (rs : list value) : bool :=
    match ks, rs with
    | [], _ => true
    | k :: ks', r :: rs' => recv_ok_for k r && recvs_ok_for ks' rs'
    | _ :: _, [] => false
    end.

  Lemma dkinds_run ks : forall done recv buf,
    dkinds_ok (length done) ks = true -> recvs_ok_for ks recv = true ->
    runds (dec_of_kinds (length done) ks) (done ++ recv) buf =
    match pfields done ks buf with
    | Ok (vs, rest) => Ok (done ++ vs ++ skipn (length ks) recv, rest)
    | Fail e => Fail e
    end.
  Proof.
    induction ks as [|k ks IH]; intros done recv buf Hk Hr; cbn [dec_of_kinds parse_fields].
    - cbn [run_dstmts length skipn app]. reflexivity.
    - destruct recv as [|r recv']; [discriminate|].
      cbn [dkinds_ok recvs_ok_for] in *. apply andb_true_iff in Hk. apply andb_true_iff in Hr.
      destruct Hk as [Hk1 Hk2]. destruct Hr as [Hr1 Hr2].
      rewrite runds_app. rewrite dkind_run by assumption.
      destruct (pkind done k buf) as [[v rest]|e]; cbn [dstate_after bind]; [|reflexivity].
      rewrite app_cons_assoc.
      replace (S (length done)) with (length (done ++ [v])) in Hk2 |- * by (rewrite app_length; cbn; lia).
      rewrite IH by assumption.
      destruct (pfields (done ++ [v]) ks rest) as [[vs rest']|e]; cbn [bind]; [|reflexivity].
      cbn [length skipn]. rewrite <- app_assoc. reflexivity.
  Qed.

  (* ---- what infer says about the Decode statements ---- *)
  Definition fits (g : gotype) (k : kind) : bool :=
    match k with
    | KCall _ _ _ (DPtr t) => match g with GPtr t0 => t0 =? t | _ => false end
    | KCall _ _ _ (DVal t) => match g with GVal t0 => t0 =? t | _ => false end
    | _ => true
    end.
  Fixpoint fits_all (gs : list gotype) (ks : list kind) : bool :=
    match ks, gs with
    | [], _ => true
    | k :: ks', g :: gs' => fits g k && fits_all gs' ks'
    | _ :: _, [] => false
    end.

  Lemma infer_field_dec gs i es ds k es' ds' :
    infer_field gs i es ds = Some (k, es', ds') ->
    ds = dec_of_kind i k ++ ds' /\ dkind_ok i k = true /\
    (exists g, nth_error gs i = Some g /\ fits g k = true) \/ ds = dec_of_kind i k ++ ds' /\ dkind_ok i k = true /\ (forall g, fits g k = true).
  Proof.
    intro Hi. unfold infer_field in Hi.
    destruct es as [|e1 es1]; [discriminate|].
    destruct e1; try discriminate.
    - destruct s as [j|]; [|destruct p; discriminate].
      destruct ds as [|d1 ds1]; [destruct p; discriminate|].
      destruct d1; try (destruct p; discriminate).
      destruct (Nat.eqb_spec j i) as [->|]; [|destruct p; discriminate].
      destruct (Nat.eqb_spec i0 i) as [->|]; [|destruct p; discriminate].
      destruct (prim_eqb_spec p p0) as [<-|]; [|destruct p; discriminate].
      cbn [andb] in Hi. right.
      destruct p; cbn [cannot_fail orb] in Hi;
        try (destruct (propagate || _) eqn:Ep in Hi; [|discriminate]);
        try (inversion Hi; subst; repeat split; fail).
      destruct propagate; [|discriminate]. inversion Hi; subst. repeat split.
    - destruct ds as [|d1 ds1]; [discriminate|].
      destruct d1; try discriminate.
      + destruct ds1 as [|d2 ds2]; [discriminate|]. destruct d2; try discriminate.
        destruct (Nat.eqb_spec i0 i) as [->|]; [|discriminate]. cbn [andb] in Hi.
        destruct (Nat.eqb_spec i1 i) as [->|]; [|discriminate]. cbn [andb] in Hi.
        destruct (Nat.eqb_spec i2 i) as [->|]; [|discriminate]. cbn [andb] in Hi.
        destruct (Nat.ltb key i) eqn:Hk; [|discriminate].
        inversion Hi; subst. right. repeat split. exact Hk.
      + destruct (Nat.eqb_spec i0 i) as [->|]; [|discriminate]. cbn [andb] in Hi.
        destruct (Nat.eqb_spec i1 i) as [->|]; [|discriminate].
        destruct (nth_error gs i) as [[]|] eqn:En; try discriminate.
        inversion Hi; subst. left. repeat split. eexists; split; [reflexivity|]. cbn [fits]. apply N.eqb_refl.
      + destruct ds1 as [|d2 ds2]; [discriminate|]. destruct d2; try discriminate.
        destruct (Nat.eqb_spec i0 i) as [->|]; [|discriminate]. cbn [andb] in Hi.
        destruct (Nat.eqb_spec i1 i) as [->|]; [|discriminate]. cbn [andb] in Hi.
        destruct (Nat.eqb_spec i2 i) as [->|]; [|discriminate]. cbn [andb] in Hi.
        unfold field_is_ptr in Hi. destruct (nth_error gs i) as [[]|] eqn:En; try discriminate.
        destruct (t0 =? t) eqn:Et; [|discriminate].
        inversion Hi; subst. left. repeat split. eexists; split; [reflexivity|]. cbn [fits]. exact Et.
    - destruct es1 as [|e2 es2]; [discriminate|]. destruct e2; try discriminate.
      destruct g; try discriminate.
      destruct ds as [|d1 ds1]; [discriminate|]. destruct d1; try discriminate.
      destruct ds1 as [|d2 ds2]; [discriminate|]. destruct d2; try discriminate.
      destruct (Nat.eqb_spec i0 i) as [->|]; [|discriminate].
      destruct (Nat.eqb_spec i1 i) as [->|]; [|discriminate]. cbn [andb] in Hi.
      destruct (Nat.eqb_spec i2 i) as [->|]; [|discriminate]. cbn [andb] in Hi.
      destruct (Nat.eqb_spec i3 i) as [->|]; [|discriminate]. cbn [andb] in Hi.
      destruct (Nat.ltb key i); [|discriminate]. cbn [andb] in Hi.
      destruct (Nat.ltb key0 i) eqn:Hk; [|discriminate].
      inversion Hi; subst. right. repeat split. exact Hk.
    - destruct es1 as [|e2 es2]; [discriminate|]. destruct e2; try discriminate.
      destruct g; try discriminate.
      destruct ds as [|d1 ds1]; [discriminate|]. destruct d1; try discriminate.
      destruct ds1 as [|d2 ds2]; [discriminate|]. destruct d2; try discriminate.
      destruct (Nat.eqb_spec i0 i) as [->|]; [|discriminate].
      destruct (Nat.eqb_spec i1 i) as [->|]; [|discriminate]. cbn [andb] in Hi.
      destruct (Nat.eqb_spec i2 i) as [->|]; [|discriminate]. cbn [andb] in Hi.
      destruct (Nat.eqb_spec i3 i) as [->|]; [|discriminate]. cbn [andb] in Hi.
      destruct (N.eqb_spec t t0) as [<-|]; [|discriminate]. cbn [andb] in Hi.
      unfold field_is_ptr in Hi. destruct (nth_error gs i) as [[]|] eqn:En; try discriminate.
      destruct (t0 =? t) eqn:Et; [|discriminate].
      inversion Hi; subst. left. repeat split. eexists; split; [reflexivity|]. cbn [fits]. exact Et.
  Qed.

  Lemma skipn_nth {A} (l : list A) i x : nth_error l i = Some x -> skipn i l = x :: skipn (S i) l.
  Proof.
    revert i. induction l as [|y l IH]; intros [|i] H; cbn in H; try discriminate.
    - inversion H; reflexivity.
    - cbn [skipn]. rewrite (IH i H). reflexivity.
  Qed.

  Lemma infer_plain_dec fuel gs : forall i es ds ks,
    infer_plain fuel gs i es ds = Some ks -> (length ks <= length gs - i)%nat ->
    ds = dec_of_kinds i ks /\ dkinds_ok i ks = true /\ fits_all (skipn i gs) ks = true.
  Proof.
    induction fuel as [|fuel IH]; intros i es ds ks Hi Hl; cbn [infer_plain] in Hi; [discriminate|].
    assert (Hstep : forall k es' ds' ks', infer_field gs i es ds = Some (k, es', ds') ->
              infer_plain fuel gs (S i) es' ds' = Some ks' -> ks = k :: ks' ->
              ds = dec_of_kinds i ks /\ dkinds_ok i ks = true /\ fits_all (skipn i gs) ks = true).
    { intros k es' ds' ks' Hf Hp ->. cbn [length] in Hl.
      destruct (IH _ _ _ _ Hp) as [Hd [Hok Hfit]]; [lia|].
      destruct (infer_field_dec _ _ _ _ _ _ _ Hf) as [[-> [Hk [g [Hn Hg]]]] | [-> [Hk Hall]]].
      - rewrite (skipn_nth _ _ _ Hn). cbn [dec_of_kinds dkinds_ok fits_all]. rewrite Hd, Hk, Hok, Hg, Hfit. repeat split.
      - cbn [dec_of_kinds dkinds_ok fits_all]. rewrite Hd, Hk, Hok. destruct (skipn i gs) as [|g gs'] eqn:Es.
        + exfalso. assert (length (skipn i gs) = 0)%nat by (rewrite Es; reflexivity). rewrite skipn_length in H. lia.
        + cbn [fits_all]. rewrite Hall. replace gs' with (skipn (S i) gs); [rewrite Hfit; repeat split|].
          assert (nth_error gs i = Some g) as Hn.
          { rewrite <- (firstn_skipn i gs) at 1. rewrite nth_error_app2 by (rewrite firstn_length; lia).
            rewrite firstn_length. replace (i - Nat.min i (length gs))%nat with O by lia. rewrite Es. reflexivity. }
          rewrite (skipn_nth _ _ _ Hn) in Es. apply (f_equal (@tl _)) in Es. exact Es. }
    destruct es as [|e es0].
    - destruct ds as [|d ds0]; [inversion Hi; subst; repeat split; try reflexivity; destruct (skipn i gs); reflexivity|cbn [infer_field] in Hi; discriminate].
    - destruct (infer_field gs i (e :: es0) ds) as [[[k es'] ds']|] eqn:Hf.
      + destruct (infer_plain fuel gs (S i) es' ds') as [ks'|] eqn:Hp.
        * destruct ds; inversion Hi; subst; eapply Hstep; eauto.
        * destruct ds; discriminate.
      + destruct ds; discriminate.
  Qed.

  Lemma recvs_of_fits gs : forall ks recv,
    fits_all gs ks = true -> recv_fields rrec gs recv = true -> recvs_ok_for ks recv = true.
  Proof.
    induction gs as [|g gs IH]; intros ks recv Hf Hr.
    - destruct ks; [reflexivity|discriminate].
    - destruct recv as [|r recv]; [discriminate|]. cbn [recv_fields] in Hr. apply andb_true_iff in Hr. destruct Hr as [Hr1 Hr2].
      destruct ks as [|k ks]; [reflexivity|]. cbn [fits_all recvs_ok_for] in *. apply andb_true_iff in Hf. destruct Hf as [Hf1 Hf2].
      rewrite (IH _ _ Hf2 Hr2), andb_true_r.
      destruct k as [| |f gd p d]; try reflexivity. destruct d; cbn [fits recv_ok_for] in *; try reflexivity.
      + destruct g; try discriminate. apply N.eqb_eq in Hf1. subst. destruct r; cbn [recv_in] in Hr1; try discriminate; try reflexivity. exact Hr1.
      + destruct g; try discriminate. apply N.eqb_eq in Hf1. subst. destruct r; cbn [recv_in] in Hr1; try discriminate. exact Hr1.
  Qed.

  Lemma recv_fields_length gs vs : recv_fields rrec gs vs = true -> length vs = length gs.
  Proof.
    revert vs. induction gs as [|g gs IH]; intros [|v vs]; cbn [recv_fields]; try discriminate; [reflexivity|].
    intro H. apply andb_true_iff in H. cbn [length]. f_equal. apply IH. tauto.
  Qed.

  Lemma hdr_dec_kinds hdr : forall i, forallb is_hdr_kind hdr = true ->
    hdr_dec i hdr = dec_of_kinds i hdr /\ dkinds_ok i hdr = true.
  Proof.
    induction hdr as [|k hdr IH]; intros i H; [split; reflexivity|].
    cbn [forallb] in H. apply andb_true_iff in H. destruct H as [Hk H].
    destruct k; try discriminate. destruct p; try discriminate.
    cbn [hdr_dec dec_of_kinds dec_of_kind dkinds_ok dkind_ok is_objlist negb app andb].
    destruct (IH (S i) H) as [-> ->]. split; reflexivity.
  Qed.

  Lemma dec_of_kinds_app a : forall i b, dec_of_kinds i (a ++ b) = dec_of_kinds i a ++ dec_of_kinds (i + length a) b.
  Proof.
    induction a as [|k a IH]; intros i b; cbn [app dec_of_kinds length].
    - rewrite Nat.add_0_r. reflexivity.
    - rewrite IH. rewrite <- app_assoc. replace (S i + length a)%nat with (i + S (length a))%nat by lia. reflexivity.
  Qed.
  Lemma dkinds_ok_app a : forall i b, dkinds_ok i (a ++ b) = dkinds_ok i a && dkinds_ok (i + length a) b.
  Proof.
    induction a as [|k a IH]; intros i b; cbn [app dkinds_ok length].
    - rewrite Nat.add_0_r. reflexivity.
    - rewrite IH. rewrite andb_assoc. replace (S i + length a)%nat with (i + S (length a))%nat by lia. reflexivity.
  Qed.

  Lemma recvs_ok_any ks recv : (forall k, In k ks -> forall r, recv_ok_for k r = true) ->
    (length ks <= length recv)%nat -> recvs_ok_for ks recv = true.
  Proof.
    revert recv. induction ks as [|k ks IH]; intros recv H Hl; [reflexivity|].
    destruct recv as [|r recv]; [cbn in Hl; lia|]. cbn [recvs_ok_for].
    rewrite (H k (or_introl eq_refl) r). cbn [andb]. apply IH; [intros; apply H; right; assumption|cbn in Hl; lia].
  Qed.

  Lemma td_dec_refines td sch recv buf :
    infer td = Some sch -> recv_fields rrec (ty_fields td) recv = true ->
    runds (ty_dec td) recv buf = spec_dec_schema tables sdec sch buf.
  Proof.
    intros Hi Hr. pose proof (recv_fields_length _ _ Hr) as Hlen.
    destruct (infer_shape_of _ _ Hi) as [ks fuel Hp Hk | hdr le_ph le tbl key ss _ Hd Hk Hlt Hn | hdr le_ph le tbl key _ Hd Hk Hlt Hn].
    - cbn [spec_dec_schema].
      destruct (infer_plain_dec fuel _ _ _ _ _ Hp) as [Hds [Hok Hfit]]; [lia|].
      rewrite Hds. pose proof (dkinds_run ks [] recv buf Hok (recvs_of_fits _ _ _ Hfit Hr)) as Hrun.
      cbn [app length] in Hrun. rewrite Hrun.
      destruct (pfields [] ks buf) as [[vs rest]|e]; [|reflexivity].
      rewrite skipn_all2 by lia. rewrite app_nil_r. reflexivity.
    - cbn [spec_dec_schema]. rewrite Hd.
      destruct (hdr_dec_kinds hdr 0 Hk) as [Hh Hok].
      assert (Hds : hdr_dec 0 hdr ++ frame_dec_tail (length hdr) le tbl key (Some ss) =
                    dec_of_kinds 0 (frame_kinds hdr le tbl key (Some ss))).
      { unfold frame_kinds. rewrite dec_of_kinds_app, Hh. cbn [Nat.add dec_of_kinds dec_of_kind frame_dec_tail app]. reflexivity. }
      rewrite Hds.
      assert (Hoks : dkinds_ok 0 (frame_kinds hdr le tbl key (Some ss)) = true).
      { unfold frame_kinds. rewrite dkinds_ok_app, Hok. cbn [Nat.add dkinds_ok dkind_ok is_objlist negb andb].
        apply andb_true_iff. split; [|reflexivity]. apply Nat.ltb_lt. lia. }
      pose proof (dkinds_run _ [] recv buf Hoks) as Hrun. cbn [app length] in Hrun. rewrite Hrun.
      + destruct (pfields [] (frame_kinds hdr le tbl key (Some ss)) buf) as [[vs rest]|e]; [|reflexivity].
        rewrite skipn_all2; [rewrite app_nil_r; reflexivity|].
        unfold frame_kinds. rewrite app_length. cbn [length]. lia.
      + apply recvs_ok_any.
        * intros k Hin r. unfold frame_kinds in Hin. apply in_app_or in Hin. destruct Hin as [Hin|Hin].
          -- rewrite forallb_forall in Hk. specialize (Hk k Hin). destruct k; try discriminate. reflexivity.
          -- cbn [In] in Hin. destruct Hin as [<-|[<-|[<-|[]]]]; reflexivity.
        * unfold frame_kinds. rewrite app_length. cbn [length]. lia.
    - cbn [spec_dec_schema]. rewrite Hd.
      destruct (hdr_dec_kinds hdr 0 Hk) as [Hh Hok].
      assert (Hds : hdr_dec 0 hdr ++ frame_dec_tail (length hdr) le tbl key None =
                    dec_of_kinds 0 (frame_kinds hdr le tbl key None)).
      { unfold frame_kinds. rewrite dec_of_kinds_app, Hh. cbn [Nat.add dec_of_kinds dec_of_kind frame_dec_tail app]. reflexivity. }
      rewrite Hds.
      assert (Hoks : dkinds_ok 0 (frame_kinds hdr le tbl key None) = true).
      { unfold frame_kinds. rewrite dkinds_ok_app, Hok. cbn [Nat.add dkinds_ok dkind_ok is_objlist negb andb].
        apply andb_true_iff. split; [|reflexivity]. apply Nat.ltb_lt. lia. }
      pose proof (dkinds_run _ [] recv buf Hoks) as Hrun. cbn [app length] in Hrun. rewrite Hrun.
      + destruct (pfields [] (frame_kinds hdr le tbl key None) buf) as [[vs rest]|e]; [|reflexivity].
        rewrite skipn_all2; [rewrite app_nil_r; reflexivity|].
        unfold frame_kinds. rewrite app_length. cbn [length]. lia.
      + apply recvs_ok_any.
        * intros k Hin r. unfold frame_kinds in Hin. apply in_app_or in Hin. destruct Hin as [Hin|Hin].
          -- rewrite forallb_forall in Hk. specialize (Hk k Hin). destruct k; try discriminate. reflexivity.
          -- cbn [In] in Hin. destruct Hin as [<-|[<-|[]]]; reflexivity.
        * unfold frame_kinds. rewrite app_length. cbn [length]. lia.
  Qed.
End RefineD.

(* ------------------------------------------------------------------------------------------ *)
(* every declared type has a zero value (all nested by-value struct types are declared later) *)
Fixpoint env_closed (sg : list (N * list gotype)) : bool :=
  match sg with
  | [] => true
  | (_, gs) :: rest => match map_opt (zero_of (zero_sig rest)) gs with Some _ => true | None => false end && env_closed rest
  end.

Lemma zero_none_unknown tables : forall env ss, infer_env env = Some ss -> env_closed (sigs_of_env env) = true ->
  forall t buf, zero_sig (sigs_of_env env) t = None -> spec_dec_env tables ss t buf = Fail FUnmodelled.
Proof.
  induction env as [|td rest IH]; intros ss Hi Hc t buf Hz; cbn [infer_env] in Hi.
  - inversion Hi; reflexivity.
  - destruct (infer td) as [s|]; [|discriminate]. destruct (infer_env rest) as [ss'|] eqn:Er; [|discriminate].
    inversion Hi; subst ss. cbn [spec_dec_env sd_id]. cbn [sigs_of_env map env_closed zero_sig] in *.
    apply andb_true_iff in Hc. destruct Hc as [Hc1 Hc2].
    destruct (ty_id td =? t).
    + rewrite Hz in Hc1. discriminate.
    + apply IH; [reflexivity|exact Hc2|exact Hz].
Qed.

Lemma zero_sig_recv sg : forall t z, zero_sig sg t = Some z -> recv_env sg t z = true.
Proof.
  induction sg as [|[id gs] rest IH]; intros t z H; cbn [zero_sig recv_env] in *; [discriminate|].
  destruct (id =? t); [|apply IH; exact H].
  revert z H. induction gs as [|g gs IHg]; intros z H; cbn [map_opt] in H.
  - inversion H; reflexivity.
  - destruct (zero_of (zero_sig rest) g) as [v|] eqn:Ev; [|discriminate].
    destruct (map_opt (zero_of (zero_sig rest)) gs) as [vs|] eqn:Evs; [|discriminate].
    inversion H; subst. cbn [recv_fields]. rewrite (IHg vs eq_refl). rewrite andb_true_r.
    destruct g; cbn [zero_of] in Ev; try (inversion Ev; subst; reflexivity).
    destruct (zero_sig rest t0) as [fs|] eqn:Ez; [|discriminate]. inversion Ev; subst.
    cbn [recv_in]. rewrite N.eqb_refl. cbn [andb]. apply IH. exact Ez.
Qed.

Theorem dec_refines tables : forall env ss, infer_env env = Some ss -> env_closed (sigs_of_env env) = true ->
  forall t recv buf, recv_env (sigs_of_env env) t recv = true ->
  run_dec_env tables env t recv buf = spec_dec_env tables ss t buf.
Proof.
  induction env as [|td rest IH]; intros ss Hi Hc t recv buf Hr; cbn [infer_env] in Hi.
  - cbn in Hr. discriminate.
  - destruct (infer td) as [s|] eqn:Es; [|discriminate].
    destruct (infer_env rest) as [ss'|] eqn:Er; [|discriminate].
    inversion Hi; subst ss. clear Hi.
    cbn [sigs_of_env map env_closed] in Hc. apply andb_true_iff in Hc. destruct Hc as [_ Hc].
    cbn [run_dec_env spec_dec_env sd_id sd_schema]. cbn [sigs_of_env map recv_env] in Hr.
    destruct (ty_id td =? t).
    + refine (td_dec_refines tables (run_dec_env tables rest) (spec_dec_env tables ss') (zero_fields rest)
                (recv_env (sigs_of_env rest)) _ _ _ td s recv buf Es Hr).
      * intros t' r' buf' H'. apply IH; [reflexivity|exact Hc|exact H'].
      * intros t' z Hz. apply zero_sig_recv. exact Hz.
      * intros t' buf' Hz. eapply zero_none_unknown; [exact Er|exact Hc|exact Hz].
    + apply IH; [reflexivity|exact Hc|exact Hr].
Qed.

(* C15 in one line: the result does not depend on the receiver *)
Corollary dec_receiver_independent tables env ss t r1 r2 buf :
  infer_env env = Some ss -> env_closed (sigs_of_env env) = true ->
  recv_env (sigs_of_env env) t r1 = true -> recv_env (sigs_of_env env) t r2 = true ->
  run_dec_env tables env t r1 buf = run_dec_env tables env t r2 buf.
Proof.
  intros Hi Hc H1 H2. rewrite (dec_refines tables env ss Hi Hc t r1 buf H1), (dec_refines tables env ss Hi Hc t r2 buf H2). reflexivity.
Qed.
