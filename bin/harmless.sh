#!/bin/bash
# harmless.sh <dir with patch.diff>: apply a behaviour-preserving change to /repo, run every registered quick check, undo it.
# Any VIOLATION line is a false alarm (or, for codec/ changes, the expected H_codec_text_reviewed report).
S=$1
git -C /repo apply $S/patch.diff || { echo APPLY-FAILED; exit 9; }
(cd /repo && GOFLAGS=-mod=mod GOPROXY=off go build ./... 2>&1 | tail -2)
for c in C01 C02 C03 C04 C05 C06 C07 C08 C09 C10 C11 C12 C13 C14 C15 C16 C17 C18 C19 C20; do
  /verif/bin/verif check $c --tier quick > /tmp/hl.out 2>&1; rc=$?
  echo "[$(basename $S)] $c exit=$rc $(grep -c VIOLATION /tmp/hl.out) $(grep VIOLATION /tmp/hl.out | head -1 | cut -c1-110) | $(tail -1 /tmp/hl.out | cut -c1-130)"
done
git -C /repo checkout -- . ; git -C /repo status --short | head -3
