(* Theory/Uniform.v — one byte order per protocol, as a checkable property of schemas (C03), and equality of
   layouts with the pinned ones (C02). *)
From FP.Theory Require Export Order DecSafe.
From FP.Spec Require Export Layout.
Local Open Scope N_scope.

Definition prim_order_ok (le : bool) (p : prim) : bool :=
  match p with
  | PBasic l t => bool_eq l le || Nat.eqb (width t) 1
  | PFixed _ _ _ => true
  | PString l _ | PBasicList l _ _ | PFixedList l _ _ _ _ | PStringList l _ _ | PObjList l _ _ => bool_eq l le
  end.
Definition kind_order_ok (le : bool) (k : kind) : bool :=
  match k with KPrim p _ => prim_order_ok le p | KObjs l _ _ => bool_eq l le | KCall _ _ _ _ => true end.
(* scalars, counts, elements, text length prefixes, the computed length and the checksum of a frame are all
   among [schema_kinds] *)
Definition schema_order_ok (le : bool) (s : schema) : bool := forallb (kind_order_ok le) (schema_kinds s).

Lemma bool_eq_true a b : bool_eq a b = true -> a = b.
Proof. destruct a, b; cbn; congruence. Qed.

Lemma int_bytes_width1 o1 o2 n : int_bytes o1 1 n = int_bytes o2 1 n.
Proof. destruct o1, o2; reflexivity. Qed.

(* a field written by an order-respecting primitive is its token stream rendered in the protocol's order *)
Theorem prim_bytes_in_protocol_order le p v bs :
  prim_order_ok le p = true -> w_prim p v = Ok bs ->
  exists ts, tokens_prim p v = Some ts /\ bs = flatten (ord le) ts.
Proof.
  intros Ho H. apply w_prim_tokens in H. destruct H as [ts [T ->]]. exists ts. split; [exact T|].
  destruct p; cbn [prim_order_ok prim_le] in *; try (apply bool_eq_true in Ho; subst; reflexivity).
  - apply orb_true_iff in Ho. destruct Ho as [Ho|Ho]; [apply bool_eq_true in Ho; subst; reflexivity|].
    apply Nat.eqb_eq in Ho. destruct v; cbn [tokens_prim] in T; try discriminate. inversion T; subst.
    unfold flatten. cbn [map concat render_token]. rewrite Ho. rewrite (int_bytes_width1 (ord le0) (ord le)). reflexivity.
  - destruct v; cbn [tokens_prim] in T; try discriminate. inversion T; subst. reflexivity.
Qed.

(* ---- equality of layouts ---- *)
Definition nilmode_eq_dec (a b : nilmode) : {a = b} + {a <> b}. Proof. decide equality. Defined.
Definition ity_eq_dec' (a b : ity) : {a = b} + {a <> b}. Proof. decide equality. Defined.
Definition lkind_eq_dec (a b : lkind) : {a = b} + {a <> b}.
Proof.
  decide equality; try apply Bool.bool_dec; try apply ity_eq_dec'; try apply N.eq_dec; try apply Nat.eq_dec;
    try apply nilmode_eq_dec; try apply String.string_dec.
Defined.
Definition layout_matches (le : bool) (s : schema) (l : list lkind) : bool :=
  match layout_of le s with Some l' => if list_eq_dec lkind_eq_dec l' l then true else false | None => false end.
