(* Model/Sem.v — meaning of the IR: total interpreters for Encode and Decode bodies on top of
   the codec model.  The buffer is the list of unread bytes (Len = its length, Bytes() = it,
   writes append, reads pop the head): the observable contract of bytes.Buffer.  Bytes already
   consumed are not represented — no primitive can reach them — which the correspondence check
   exercises with partially consumed buffers.

   Both interpreters are structurally recursive on the environment: a type may only use types
   that appear later in the list (anything else is [FUnmodelled]). *)
From FP.Model Require Export IR.
Local Open Scope N_scope.

Definition set_nth {A} (i : nat) (v : A) (l : list A) : list A :=
  firstn i l ++ match skipn i l with [] => [] | _ :: r => v :: r end.

Definition get_field (fs : list value) (i : nat) : res value :=
  match nth_error fs i with Some v => Ok v | None => Fail FUnmodelled end.

Definition key_of_value (v : value) : res tkey :=
  match v with VInt n => Ok (TKNum n) | VStr s => Ok (TKStr s) | _ => Fail FUnmodelled end.

(* ---- primitives that do not involve nested objects ---- *)
Definition w_prim (p : prim) (v : value) : res (list byte) :=
  match p, v with
  | PBasic le t, VInt n => Ok (write_basic le t n)
  | PFixed n pad lf, VStr s => Ok (write_fixed n pad lf s)
  | PString le len, VStr s => write_string le len s
  | PBasicList le cnt elt, VInts l => write_basic_list le cnt elt l
  | PFixedList le cnt n pad lf, VStrs l => write_fixed_list le cnt n pad lf l
  | PStringList le cnt len, VStrs l => write_string_list le cnt len l
  | _, _ => Fail FUnmodelled
  end.

Definition r_prim (p : prim) (buf : list byte) : res (value * list byte) :=
  match p with
  | PBasic le t => do '(n, r) <- read_basic le t buf; Ok (VInt n, r)
  | PFixed n pad lf => do '(s, r) <- read_fixed n pad lf buf; Ok (VStr s, r)
  | PString le len => do '(s, r) <- read_string le len buf; Ok (VStr s, r)
  | PBasicList le cnt elt => do '(l, r) <- read_basic_list le cnt elt buf; Ok (VInts l, r)
  | PFixedList le cnt n pad lf => do '(l, r) <- read_fixed_list le cnt n pad lf buf; Ok (VStrs l, r)
  | PStringList le cnt len => do '(l, r) <- read_string_list le cnt len buf; Ok (VStrs l, r)
  | PObjList _ _ _ => Fail FUnmodelled
  end.

Definition zero_of (zrec : N -> option (list value)) (g : gotype) : option value :=
  match g with
  | GInt _ => Some (VInt 0)
  | GStr => Some (VStr [])
  | GInts _ => Some (VInts [])
  | GStrs => Some (VStrs [])
  | GPtr _ | GIface => Some VNil
  | GPtrs _ => Some (VObjs [])
  | GVal t => match zrec t with Some fs => Some (VObj t fs) | None => None end
  end.

Fixpoint map_opt {A B} (f : A -> option B) (l : list A) : option (list B) :=
  match l with
  | [] => Some []
  | x :: r => match f x, map_opt f r with Some y, Some ys => Some (y :: ys) | _, _ => None end
  end.

(* zero values only depend on the struct declarations (signatures) *)
Fixpoint zero_sig (sg : list (N * list gotype)) (t : N) : option (list value) :=
  match sg with
  | [] => None
  | (id, gs) :: rest => if id =? t then map_opt (zero_of (zero_sig rest)) gs else zero_sig rest t
  end.
Definition sigs_of_env (env : list tydef) : list (N * list gotype) := map (fun td => (ty_id td, ty_fields td)) env.
Definition zero_fields (env : list tydef) : N -> option (list value) := zero_sig (sigs_of_env env).

(* ------------------------------------------------------------------------------------ *)
Section Stmts.
  Variable tables : list (N * table).
  Variable reg : registry.
  (* the nested-type interpreters (for the types later in the environment) *)
  Variable enc_rec : N -> list value -> list byte -> res (list value * list byte).
  Variable dec_rec : N -> list value -> list byte -> res (list value * list byte).
  Variable zero_rec : N -> option (list value).

  Definition fresh (t : N) : res value :=
    match zero_rec t with Some fs => Ok (VObj t fs) | None => Fail FUnmodelled end.

  Definition lookup_type (tbl : N) (keyv : value) : res N :=
    do k <- key_of_value keyv;
    match find_table tables tbl with
    | None => Fail FUnmodelled
    | Some t => match table_lookup t k with Some ty => Ok ty | None => Fail FErr end
    end.

  (* ---------------- Encode ---------------- *)
  Record est := { e_fs : list value; e_vars : list (nat * N); e_buf : list byte }.

  Fixpoint var_lookup (vs : list (nat * N)) (x : nat) : res N :=
    match vs with
    | [] => Fail FUnmodelled
    | (y, n) :: r => if Nat.eqb x y then Ok n else var_lookup r x
    end.

  Definition eval (s : est) (e : expr) : res N :=
    match e with XLen => Ok (lenN (e_buf s)) | XVar x => var_lookup (e_vars s) x | XConst n => Ok n end.

  (* elements of a []*T are encoded one after another into the same buffer *)
  Fixpoint enc_objs (tid : N) (l : list value) (buf : list byte) : res (list value * list byte) :=
    match l with
    | [] => Ok ([], buf)
    | VObj t fs :: r =>
        if t =? tid then
          do '(fs', buf') <- enc_rec t fs buf;
          do '(r', buf'') <- enc_objs tid r buf';
          Ok (VObj t fs' :: r', buf'')
        else Fail FUnmodelled
    | VNil :: _ => Fail FPanic                     (* nil element: s.Encode dereferences nil *)
    | _ :: _ => Fail FUnmodelled
    end.

  Definition patch (p : nat) (bs new : list byte) : list byte :=
    firstn p bs ++ new ++ skipn (p + length new) bs.

  Definition run_estmt (st : estmt) (s : est) : res est :=
    match st with
    | EWrite (PObjList le cnt tid) src propagate =>
        match src with
        | SField i =>
            do v <- get_field (e_fs s) i;
            match v with
            | VObjs l =>
                do n <- length_prefix cnt (lenN l);
                do '(l', buf') <- enc_objs tid l (e_buf s ++ int_bytes (ord le) (width cnt) n);
                if propagate then Ok {| e_fs := set_nth i (VObjs l') (e_fs s); e_vars := e_vars s; e_buf := buf' |}
                else Fail FUnmodelled
            | _ => Fail FUnmodelled
            end
        | SConst _ _ => Fail FUnmodelled
        end
    | EWrite p src propagate =>
        do v <- match src with SField i => get_field (e_fs s) i | SConst _ n => Ok (VInt n) end;
        match w_prim p v with
        | Ok bs => Ok {| e_fs := e_fs s; e_vars := e_vars s; e_buf := e_buf s ++ bs |}
        | Fail FErr => if propagate then Fail FErr else Fail FUnmodelled   (* dropped error: state not modelled *)
        | Fail f => Fail f
        end
    | ELet x e =>
        do n <- eval s e;
        Ok {| e_fs := e_fs s; e_vars := (x, n) :: e_vars s; e_buf := e_buf s |}
    | ESetLen i hi lo =>
        do h <- eval s hi; do l <- eval s lo;
        do _ <- get_field (e_fs s) i;
        let v := Z.to_N ((Z.of_N h - Z.of_N l) mod 4294967296)%Z in
        Ok {| e_fs := set_nth i (VInt v) (e_fs s); e_vars := e_vars s; e_buf := e_buf s |}
    | EPatch le pos i =>
        do p <- eval s pos;
        do v <- get_field (e_fs s) i;
        match v with
        | VInt n =>
            if p + 4 <=? lenN (e_buf s)
            then Ok {| e_fs := e_fs s; e_vars := e_vars s;
                       e_buf := patch (N.to_nat p) (e_buf s) (int_bytes (ord le) 4 n) |}
            else Fail FUnmodelled               (* would reach into spare capacity or panic *)
        | _ => Fail FUnmodelled
        end
    | ESum name rt from i =>
        do f <- eval s from;
        do _ <- get_field (e_fs s) i;
        match reg_get reg name with
        | None => Ok s                          (* no such service: the caller's value stays *)
        | Some sv =>
            if ity_eqb (sv_rt sv) rt then
              if f <=? lenN (e_buf s)
              then Ok {| e_fs := set_nth i (VInt (calc (sv_alg sv) (skipn (N.to_nat f) (e_buf s)))) (e_fs s);
                         e_vars := e_vars s; e_buf := e_buf s |}
              else Fail FPanic                  (* slice bounds out of range *)
            else Fail FPanic                    (* failed type assertion *)
        end
    | ECall i g propagate =>
        do v <- get_field (e_fs s) i;
        match v with
        | VNil => match g with GIfNotNil => Ok s | GNone => Fail FPanic end
        | VObj t fs =>
            match enc_rec t fs (e_buf s) with
            | Ok (fs', buf') => Ok {| e_fs := set_nth i (VObj t fs') (e_fs s); e_vars := e_vars s; e_buf := buf' |}
            | Fail FErr => if propagate then Fail FErr else Fail FUnmodelled
            | Fail f => Fail f
            end
        | _ => Fail FUnmodelled
        end
    | EFill i tbl key =>
        do v <- get_field (e_fs s) i;
        match v with
        | VNil =>
            do kv <- get_field (e_fs s) key;
            do ty <- lookup_type tbl kv;
            do o <- fresh ty;
            Ok {| e_fs := set_nth i o (e_fs s); e_vars := e_vars s; e_buf := e_buf s |}
        | _ => Ok s
        end
    | EFillNew i t =>
        do v <- get_field (e_fs s) i;
        match v with
        | VNil => do o <- fresh t; Ok {| e_fs := set_nth i o (e_fs s); e_vars := e_vars s; e_buf := e_buf s |}
        | _ => Ok s
        end
    end.

  Fixpoint run_estmts (sts : list estmt) (s : est) : res est :=
    match sts with
    | [] => Ok s
    | st :: r => do s' <- run_estmt st s; run_estmts r s'
    end.

  (* ---------------- Decode ---------------- *)
  Definition dec_objs (tid : N) (buf : list byte) : res (value * list byte) :=
    do o <- fresh tid;
    match o with
    | VObj t fs => do '(fs', r) <- dec_rec t fs buf; Ok (VObj t fs', r)
    | _ => Fail FUnmodelled
    end.

  Definition run_dstmt (st : dstmt) (fs : list value) (buf : list byte) : res (list value * list byte) :=
    match st with
    | DRead (PObjList le cnt tid) i =>
        do _ <- get_field fs i;
        do '(l, r) <- read_list le cnt (dec_objs tid) buf;
        Ok (set_nth i (VObjs l) fs, r)
    | DRead p i =>
        do _ <- get_field fs i;
        do '(v, r) <- r_prim p buf;
        Ok (set_nth i v fs, r)
    | DLookup tbl key i =>
        do kv <- get_field fs key;
        do _ <- get_field fs i;
        do ty <- lookup_type tbl kv;
        do o <- fresh ty;
        Ok (set_nth i o fs, buf)
    | DCall i =>
        do v <- get_field fs i;
        match v with
        | VNil => Fail FPanic
        | VObj t ofs => do '(ofs', r) <- dec_rec t ofs buf; Ok (set_nth i (VObj t ofs') fs, r)
        | _ => Fail FUnmodelled
        end
    | DEnsure i t =>
        do v <- get_field fs i;
        match v with
        | VNil => do o <- fresh t; Ok (set_nth i o fs, buf)
        | _ => Ok (fs, buf)
        end
    end.

  Fixpoint run_dstmts (sts : list dstmt) (fs : list value) (buf : list byte) : res (list value * list byte) :=
    match sts with
    | [] => Ok (fs, buf)
    | st :: r => do '(fs', buf') <- run_dstmt st fs buf; run_dstmts r fs' buf'
    end.
End Stmts.


(* ------------------------------------------------------------------------------------ *)
Definition no_rec : N -> list value -> list byte -> res (list value * list byte) :=
  fun _ _ _ => Fail FUnmodelled.

Fixpoint run_dec_env (tables : list (N * table)) (env : list tydef) (t : N) (fs : list value) (buf : list byte)
  : res (list value * list byte) :=
  match env with
  | [] => Fail FUnmodelled
  | td :: rest =>
      if ty_id td =? t
      then run_dstmts tables (run_dec_env tables rest) (zero_fields rest) (ty_dec td) fs buf
      else run_dec_env tables rest t fs buf
  end.

Fixpoint run_enc_env (tables : list (N * table)) (reg : registry) (env : list tydef) (t : N) (fs : list value) (buf : list byte)
  : res (list value * list byte) :=
  match env with
  | [] => Fail FUnmodelled
  | td :: rest =>
      if ty_id td =? t
      then do s <- run_estmts tables reg (run_enc_env tables reg rest) (zero_fields rest) (ty_enc td)
                     {| e_fs := fs; e_vars := []; e_buf := buf |};
           Ok (e_fs s, e_buf s)
      else run_enc_env tables reg rest t fs buf
  end.

Definition run_enc (w : world) := run_enc_env (w_tables w) (w_reg w) (w_env w).
Definition run_dec (w : world) := run_dec_env (w_tables w) (w_env w).
Definition zero (w : world) := zero_fields (w_env w).
