(* Spec/Schema.v — the declarative wire schema, the pure (buffer-free, receiver-free) semantics of a
   schema, and typing of message values.

   A schema says, field by field in declaration order, what goes on the wire.  Its semantics
   [spec_enc] maps a message to (the message after Encode, the bytes appended); [spec_dec] maps
   bytes to (the message, the bytes left).  Neither mentions a buffer history or a receiver: that
   the programs found in /repo behave like their schema for every buffer and every receiver is
   the content of the refinement theorems (Theory/RefineEnc.v, Theory/RefineDec.v). *)
From FP.Model Require Export Sem.
Local Open Scope N_scope.

Inductive fill := FNone | FNew (t : N) | FTable (tbl : N) (key : nat).
Inductive dform := DPtr (t : N) | DVal (t : N) | DSel (tbl : N) (key : nat).

Inductive kind :=
 | KPrim (p : prim) (propagate : bool)                  (* scalar, text, list of scalars / text *)
 | KObjs (le : bool) (cnt : ity) (t : N)                (* counted repeating group of objects *)
 | KCall (f : fill) (g : guard) (propagate : bool) (d : dform).   (* nested object / body / extension *)

(* checksum trailer of a frame: service name, result type, byte order it is written in *)
Record sumspec := { ss_name : String.string; ss_rt : ity; ss_le : bool }.

Inductive schema :=
 | SPlain (ks : list kind)
 | SFrame (hdr : list kind) (le_len : bool) (tbl : N) (key : nat) (sum : option sumspec).
   (* fields: |hdr| header scalars, a uint32 body length computed by the frame, the body selected by
      table [tbl] on field [key], and (optionally) a checksum computed by the frame *)

Record sdef := { sd_id : N; sd_fields : list gotype; sd_schema : schema }.

Definition is_objlist (p : prim) : bool := match p with PObjList _ _ _ => true | _ => false end.

(* ------------------------------------------------------------------------------------------ *)
Section SpecSem.
  Variable tables : list (N * table).
  Variable reg : registry.
  Variable enc_rec : N -> list value -> res (list value * list byte).
  Variable dec_rec : N -> list byte -> res (list value * list byte).
  Variable zero_rec : N -> option (list value).

  Definition sfresh (t : N) : res value :=
    match zero_rec t with Some fs => Ok (VObj t fs) | None => Fail FUnmodelled end.
  Definition slookup (tbl : N) (keyv : value) : res N :=
    do k <- key_of_value keyv;
    match find_table tables tbl with
    | None => Fail FUnmodelled
    | Some t => match table_lookup t k with Some ty => Ok ty | None => Fail FErr end
    end.

  (* ---------------- encode ---------------- *)
  Fixpoint render_objs (tid : N) (l : list value) : res (list value * list byte) :=
    match l with
    | [] => Ok ([], [])
    | VObj t fs :: r =>
        if t =? tid then
          do '(fs', bs) <- enc_rec t fs;
          do '(r', bs') <- render_objs tid r;
          Ok (VObj t fs' :: r', bs ++ bs')
        else Fail FUnmodelled
    | VNil :: _ => Fail FPanic
    | _ :: _ => Fail FUnmodelled
    end.

  Definition render_call (g : guard) (propagate : bool) (v : value) : res (value * list byte) :=
    match v with
    | VNil => match g with GIfNotNil => Ok (VNil, []) | GNone => Fail FPanic end
    | VObj t fs =>
        match enc_rec t fs with
        | Ok (fs', bs) => Ok (VObj t fs', bs)
        | Fail FErr => if propagate then Fail FErr else Fail FUnmodelled
        | Fail f => Fail f
        end
    | _ => Fail FUnmodelled
    end.

  Definition apply_fill (done : list value) (f : fill) (v : value) : res value :=
    match f with
    | FNone => Ok v
    | FNew t => match v with VNil => sfresh t | _ => Ok v end
    | FTable tbl key =>
        match v with
        | VNil => do kv <- get_field done key; do ty <- slookup tbl kv; sfresh ty
        | _ => Ok v
        end
    end.

  Definition render_kind (done : list value) (k : kind) (v : value) : res (value * list byte) :=
    match k with
    | KPrim p propagate =>
        match w_prim p v with
        | Ok bs => Ok (v, bs)
        | Fail FErr => if propagate then Fail FErr else Fail FUnmodelled
        | Fail f => Fail f
        end
    | KObjs le cnt tid =>
        match v with
        | VObjs l =>
            do n <- length_prefix cnt (lenN l);
            do '(l', bs) <- render_objs tid l;
            Ok (VObjs l', int_bytes (ord le) (width cnt) n ++ bs)
        | _ => Fail FUnmodelled
        end
    | KCall f g propagate _ =>
        do v1 <- apply_fill done f v;
        render_call g propagate v1
    end.

  Fixpoint render_fields (done : list value) (ks : list kind) (todo : list value) : res (list value * list byte) :=
    match ks, todo with
    | [], _ => Ok (todo, [])
    | k :: ks', v :: todo' =>
        do '(v', bs) <- render_kind done k v;
        do '(rest, bs') <- render_fields (done ++ [v']) ks' todo';
        Ok (v' :: rest, bs ++ bs')
    | _ :: _, [] => Fail FUnmodelled
    end.

  Definition u32_of_len (n : N) : N := n mod 4294967296.

  Definition render_frame (hdr : list kind) (le_len : bool) (sum : option sumspec) (fs : list value)
    : res (list value * list byte) :=
    let h := length hdr in
    do '(hv, hb) <- render_fields [] hdr (firstn h fs);
    match skipn h fs with
    | _ :: body :: tl =>
        do '(body', bb) <- render_call GIfNotNil true body;
        let L := u32_of_len (lenN bb) in
        let fr := hb ++ int_bytes (ord le_len) 4 L ++ bb in
        match sum with
        | None => Ok (hv ++ VInt L :: body' :: tl, fr)
        | Some ss =>
            match tl with
            | oldv :: tl' =>
                do c <- match reg_get reg (ss_name ss) with
                        | None => Ok oldv                       (* no such service: the caller's value stays *)
                        | Some sv => if ity_eqb (sv_rt sv) (ss_rt ss) then Ok (VInt (calc (sv_alg sv) fr)) else Fail FPanic
                        end;
                match w_prim (PBasic (ss_le ss) (ss_rt ss)) c with
                | Ok bs => Ok (hv ++ VInt L :: body' :: c :: tl', fr ++ bs)
                | Fail f => Fail f
                end
            | [] => Fail FUnmodelled
            end
        end
    | _ => Fail FUnmodelled
    end.

  Definition spec_enc_schema (s : schema) (fs : list value) : res (list value * list byte) :=
    match s with
    | SPlain ks => render_fields [] ks fs
    | SFrame hdr le_len _ _ sum => render_frame hdr le_len sum fs
    end.

  (* ---------------- decode ---------------- *)
  Definition parse_obj (t : N) (buf : list byte) : res (value * list byte) :=
    do '(fs, r) <- dec_rec t buf; Ok (VObj t fs, r).

  Definition parse_kind (done : list value) (k : kind) (buf : list byte) : res (value * list byte) :=
    match k with
    | KPrim p _ => r_prim p buf
    | KObjs le cnt tid => do '(l, r) <- read_list le cnt (parse_obj tid) buf; Ok (VObjs l, r)
    | KCall _ _ _ (DPtr t) => parse_obj t buf
    | KCall _ _ _ (DVal t) => parse_obj t buf
    | KCall _ _ _ (DSel tbl key) =>
        do kv <- get_field done key;
        do ty <- slookup tbl kv;
        parse_obj ty buf
    end.

  Fixpoint parse_fields (done : list value) (ks : list kind) (buf : list byte) : res (list value * list byte) :=
    match ks with
    | [] => Ok ([], buf)
    | k :: ks' =>
        do '(v, r) <- parse_kind done k buf;
        do '(vs, r') <- parse_fields (done ++ [v]) ks' r;
        Ok (v :: vs, r')
    end.

  Definition frame_kinds (hdr : list kind) (le_len : bool) (tbl : N) (key : nat) (sum : option sumspec) : list kind :=
    hdr ++ KPrim (PBasic le_len U32) true :: KCall FNone GIfNotNil true (DSel tbl key)
        :: match sum with None => [] | Some ss => [KPrim (PBasic (ss_le ss) (ss_rt ss)) true] end.

  Definition spec_dec_schema (s : schema) (buf : list byte) : res (list value * list byte) :=
    match s with
    | SPlain ks => parse_fields [] ks buf
    | SFrame hdr le_len tbl key sum => parse_fields [] (frame_kinds hdr le_len tbl key sum) buf
    end.
End SpecSem.

(* ------------------------------------------------------------------------------------------ *)
Definition sigs_of_sdefs (ss : list sdef) : list (N * list gotype) := map (fun sd => (sd_id sd, sd_fields sd)) ss.
Definition szero_fields (ss : list sdef) : N -> option (list value) := zero_sig (sigs_of_sdefs ss).

Fixpoint spec_enc_env (tables : list (N * table)) (reg : registry) (ss : list sdef) (t : N) (fs : list value)
  : res (list value * list byte) :=
  match ss with
  | [] => Fail FUnmodelled
  | sd :: rest =>
      if sd_id sd =? t
      then spec_enc_schema tables reg (spec_enc_env tables reg rest) (szero_fields rest) (sd_schema sd) fs
      else spec_enc_env tables reg rest t fs
  end.

Fixpoint spec_dec_env (tables : list (N * table)) (ss : list sdef) (t : N) (buf : list byte)
  : res (list value * list byte) :=
  match ss with
  | [] => Fail FUnmodelled
  | sd :: rest =>
      if sd_id sd =? t
      then spec_dec_schema tables (spec_dec_env tables rest) (sd_schema sd) buf
      else spec_dec_env tables rest t buf
  end.

(* ------------------------------------------------------------------------------------------ *)
(* Typing of message values: what a Go value of the struct type can be.  [typed_in rec g v]:
   v inhabits field type g, nested objects being checked by [rec] in the rest of the environment. *)
Section Typing.
  Variable rec : N -> list value -> bool.
  Definition all_objs (t : N) (l : list value) : bool :=
    forallb (fun v => match v with VObj t' fs => (t' =? t) && rec t' fs | _ => false end) l.
  Definition typed_in (g : gotype) (v : value) : bool :=
    match g, v with
    | GInt t, VInt n => n <? bound t
    | GStr, VStr _ => true
    | GInts t, VInts l => forallb (fun n => n <? bound t) l
    | GStrs, VStrs _ => true
    | GPtr t, VNil => true
    | GPtr t, VObj t' fs => (t' =? t) && rec t' fs
    | GVal t, VObj t' fs => (t' =? t) && rec t' fs
    | GIface, VNil => true
    | GIface, VObj t' fs => rec t' fs
    | GPtrs t, VObjs l => all_objs t l           (* nil elements are outside every guarantee *)
    | _, _ => false
    end.
  Fixpoint typed_fields (gs : list gotype) (vs : list value) : bool :=
    match gs, vs with
    | [], [] => true
    | g :: gs', v :: vs' => typed_in g v && typed_fields gs' vs'
    | _, _ => false
    end.
End Typing.

Fixpoint typed_env (env : list (N * list gotype)) (t : N) (fs : list value) : bool :=
  match env with
  | [] => false
  | (id, gs) :: rest => if id =? t then typed_fields (typed_env rest) gs fs else typed_env rest t fs
  end.

(* receivers: the right number of fields, and nested pointer / struct parts of the right type *)
Section Recv.
  Variable rec : N -> list value -> bool.
  Definition recv_in (g : gotype) (v : value) : bool :=
    match g, v with
    | GPtr t, VNil => true
    | GPtr t, VObj t' fs => (t' =? t) && rec t' fs
    | GPtr _, _ => false
    | GVal t, VObj t' fs => (t' =? t) && rec t' fs
    | GVal _, _ => false
    | _, _ => true
    end.
  Fixpoint recv_fields (gs : list gotype) (vs : list value) : bool :=
    match gs, vs with
    | [], [] => true
    | g :: gs', v :: vs' => recv_in g v && recv_fields gs' vs'
    | _, _ => false
    end.
End Recv.

Fixpoint recv_env (env : list (N * list gotype)) (t : N) (fs : list value) : bool :=
  match env with
  | [] => false
  | (id, gs) :: rest => if id =? t then recv_fields (recv_env rest) gs fs else recv_env rest t fs
  end.

