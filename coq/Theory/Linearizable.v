(* Theory/Linearizable.v — every interleaving of well-locked lock skeletons is a trace of the atomic map
   (forward simulation, linearization point = the lock acquisition): C19. *)
From Coq Require Import List NArith Bool Arith Lia.
Import ListNotations.
From FP.Model Require Export Locks.
Local Open Scope N_scope.

Lemma meq_refl m : meq m m. Proof. intro; reflexivity. Qed.
Lemma meq_sym a b : meq a b -> meq b a. Proof. intros H k; symmetry; apply H. Qed.
Lemma meq_trans a b c : meq a b -> meq b c -> meq a c. Proof. intros H1 H2 k; rewrite H1; apply H2. Qed.
Lemma upd_meq a b k v : meq a b -> meq (upd a k v) (upd b k v).
Proof. intros H k'. unfold upd. destruct (k' =? k); [reflexivity|apply H]. Qed.
Lemma del_meq a b k : meq a b -> meq (del a k) (del b k).
Proof. intros H k'. unfold del. destruct (k' =? k); [reflexivity|apply H]. Qed.

Lemma seq_meq c a b : meq a b -> meq (fst (seq c a)) (fst (seq c b)) /\ snd (seq c a) = snd (seq c b).
Proof.
  intro H. destruct c; cbn [seq fst snd].
  - rewrite <- (H k). destruct (a k); cbn [fst snd]; split; try reflexivity; [exact H|apply upd_meq; exact H].
  - split; [exact H|reflexivity].
  - rewrite (H k). split; [exact H|reflexivity].
  - split; [apply del_meq; exact H|reflexivity].
  - split; [apply meq_refl|reflexivity].
Qed.

Lemma fin_meq p : forall c l a b, meq a b -> meq (fst (fin p c l a)) (fst (fin p c l b)) /\ snd (fin p c l a) = snd (fin p c l b).
Proof.
  induction p; intros c l a b H; cbn [fin]; try (apply IHp; exact H).
  - rewrite (H (key_of c)). apply IHp. exact H.
  - apply IHp. apply upd_meq. exact H.
  - apply IHp. apply del_meq. exact H.
  - apply IHp. apply meq_refl.
  - destruct l; [apply IHp1|apply IHp2]; exact H.
  - split; [exact H|reflexivity].
Qed.

Lemma ro_fin p : forall c l mp, ro p = true -> fst (fin p c l mp) = mp.
Proof.
  induction p; intros c l mp H; cbn [ro fin] in *; try discriminate; try (apply IHp; exact H).
  - apply andb_true_iff in H. destruct l; [apply IHp1|apply IHp2]; tauto.
  - reflexivity.
Qed.

Section Sim.
  Variable code : call -> prog.
  Hypothesis Hwl : forall c, well_locked (code c) = true.
  Hypothesis Hsem : forall c m, meq (fst (fin (code c) c None m)) (fst (seq c m)) /\ snd (fin (code c) c None m) = snd (seq c m).

  Definition free (w : option tid) (r : tid -> bool) (t : tid) : Prop := w <> Some t /\ r t = false.
  Definition holds (w : option tid) (r : tid -> bool) (t : tid) (m : mode) : Prop :=
    match m with Excl => w = Some t | Shared => r t = true end.

  Inductive phase (w : option tid) (r : tid -> bool) (mp : kvmap) (t : tid) : tstate -> astate_t -> Prop :=
  | ph_idle : free w r t -> phase w r mp t TIdle AIdle
  | ph_start c : free w r t -> phase w r mp t (TRun c (code c) [] None) (APend c)
  | ph_predefer c m b : code c = PLock m (PDefer m b) -> holds w r t m ->
      phase w r mp t (TRun c (PDefer m b) [] None) (ADone c (snd (fin b c None mp)))
  | ph_body c m p l : lockfree p = true -> (m = Shared -> ro p = true) -> holds w r t m ->
      phase w r mp t (TRun c p [m] l) (ADone c (snd (fin p c l mp)))
  | ph_ret_locked c x m : holds w r t m -> phase w r mp t (TRet c x [m]) (ADone c x)
  | ph_ret_free c x : free w r t -> phase w r mp t (TRet c x []) (ADone c x).

  Definition pending (s : cstate) : kvmap :=
    match cw s with
    | Some t => match cth s t with TRun c p _ l => fst (fin p c l (cm s)) | _ => cm s end
    | None => cm s
    end.

  Record R (s : cstate) (a : astate) : Prop := {
    R_phase : forall t, phase (cw s) (cr s) (cm s) t (cth s t) (ath a t);
    R_excl : forall t, cw s = Some t -> forall t', cr s t' = false;
    R_map : meq (am a) (pending s) }.

  Lemma R_init : R cinit ainit.
  Proof.
    constructor.
    - intro t. apply ph_idle. split; [discriminate|reflexivity].
    - intros t H. discriminate.
    - apply meq_refl.
  Qed.

  (* phases that do not hold a lock are insensitive to the map; phases of other threads survive a step of t
     as long as their own lock status is unchanged *)
  Lemma phase_other w r mp w' r' mp' t ts as_ :
    phase w r mp t ts as_ ->
    (free w r t -> free w' r' t) ->
    (forall m, holds w r t m -> holds w' r' t m /\ (forall p c l, snd (fin p c l mp) = snd (fin p c l mp'))) ->
    phase w' r' mp' t ts as_.
  Proof.
    intros H Hf Hh. inversion H; subst.
    - apply ph_idle. auto.
    - apply ph_start. auto.
    - destruct (Hh m H1) as [A B]. rewrite (B b c None). apply ph_predefer; assumption.
    - destruct (Hh m H2) as [A B]. rewrite (B p c l). apply ph_body; assumption.
    - destruct (Hh m H0) as [A B]. apply ph_ret_locked; assumption.
    - apply ph_ret_free. auto.
  Qed.

  Lemma set_th_same th t x : set_th th t x t = x.
  Proof. unfold set_th. rewrite Nat.eqb_refl. reflexivity. Qed.
  Lemma set_th_other th t x t' : t' <> t -> set_th th t x t' = th t'.
  Proof. intro H. unfold set_th. destruct (Nat.eqb_spec t' t); [contradiction|reflexivity]. Qed.
  Lemma set_a_same th t x : set_a th t x t = x.
  Proof. unfold set_a. rewrite Nat.eqb_refl. reflexivity. Qed.
  Lemma set_a_other th t x t' : t' <> t -> set_a th t x t' = th t'.
  Proof. intro H. unfold set_a. destruct (Nat.eqb_spec t' t); [contradiction|reflexivity]. Qed.
  Lemma set_r_same r t b : set_r r t b t = b.
  Proof. unfold set_r. rewrite Nat.eqb_refl. reflexivity. Qed.
  Lemma set_r_other r t b t' : t' <> t -> set_r r t b t' = r t'.
  Proof. intro H. unfold set_r. destruct (Nat.eqb_spec t' t); [contradiction|reflexivity]. Qed.

  (* abstract moves matching one concrete step: the same visible event, preceded by at most one linearization *)
  Inductive amatch : astate -> event -> astate -> Prop :=
  | am_stutter a : amatch a ETau a
  | am_one a e a' : astep a e a' -> amatch a e a'.

  Ltac name_hyps :=
    try match goal with H : free _ _ _ |- _ => rename H into Hfree end;
    try match goal with H : holds _ _ _ _ |- _ => rename H into Hholds end;
    try match goal with H : code _ = _ |- _ => rename H into Hcode end;
    try match goal with H : _ = code _ |- _ => symmetry in H; rename H into Hcode end;
    try match goal with H : _ = ath _ _ |- _ => symmetry in H; rename H into Hath end;
    try match goal with H : lockfree _ = true |- _ => rename H into Hlf end;
    try match goal with H : _ = Shared -> _ |- _ => rename H into Hrom end;
    try match goal with H : cw _ = None |- _ => rename H into Hcw end;
    try match goal with H : cw _ = Some _ |- _ => rename H into Hcw end;
    try match goal with H : cr _ _ = true |- _ => rename H into Hcr end;
    try match goal with H : forall t' : tid, cr _ t' = false |- _ => rename H into Hnr end.

  (* the map component of R for a step of t that leaves cw, cm alone and does not change what the lock
     holder (if any) will still do *)
  Lemma pending_other s t x w' (Hw : w' = cw s) :
    cw s <> Some t ->
    pending {| cw := w'; cr := cr s; cm := cm s; cth := set_th (cth s) t x |} = pending s.
  Proof.
    intros Hne. subst w'. unfold pending. cbn [cw cr cm cth]. destruct (cw s) as [tw|]; [|reflexivity].
    rewrite set_th_other; [reflexivity|]. intro E. apply Hne. congruence.
  Qed.

  Theorem sim s a e s' : R s a -> cstep code s e s' -> exists a', amatch a e a' /\ R s' a'.
  Proof.
    intros [Hph Hex Hmap] Hstep.
    inversion Hstep; subst;
      match goal with H : cth s ?t = _ |- _ => rename H into Hth; pose proof (Hph t) as Ht; rewrite Hth in Ht end;
      inversion Ht; subst; name_hyps.
    - (* invoke *)
      exists {| am := am a; ath := set_a (ath a) t (APend c) |}. split.
      + apply am_one. apply a_inv. exact Hath.
      + constructor; cbn [cw cr cm cth am ath].
        * intro t'. destruct (Nat.eq_dec t' t) as [->|Hne].
          -- rewrite set_th_same, set_a_same. apply ph_start. assumption.
          -- rewrite set_th_other, set_a_other by exact Hne. apply Hph.
        * exact Hex.
        * rewrite pending_other; [exact Hmap|reflexivity|apply Hfree].
    - (* lock Excl at the start of a call: linearization point *)
      pose proof (Hwl c) as Hw. rewrite Hcode in Hw. cbn [well_locked] in Hw.
      destruct k as [| |m' b| | | | | |]; try discriminate.
      apply andb_true_iff in Hw. destruct Hw as [Hw _]. apply andb_true_iff in Hw. destruct Hw as [Hm Hlf].
      destruct m'; try discriminate.
      assert (Hpend : meq (am a) (cm s)) by (unfold pending in Hmap; rewrite Hcw in Hmap; exact Hmap).
      destruct (Hsem c (cm s)) as [Hs1 Hs2]. rewrite Hcode in Hs1, Hs2. cbn [fin] in Hs1, Hs2.
      destruct (seq_meq c _ _ Hpend) as [Hq1 Hq2].
      exists {| am := fst (seq c (am a)); ath := set_a (ath a) t (ADone c (snd (seq c (am a)))) |}. split.
      + apply am_one. apply a_lin. exact Hath.
      + constructor; cbn [cw cr cm cth am ath].
        * intro t'. destruct (Nat.eq_dec t' t) as [->|Hne].
          -- rewrite set_th_same, set_a_same. rewrite Hq2, <- Hs2. apply ph_predefer; [exact Hcode|reflexivity].
          -- rewrite set_th_other, set_a_other by exact Hne. eapply phase_other; [apply Hph| |].
             ++ intros [A B]. split; [congruence|exact B].
             ++ intros m Hm'. exfalso. destruct m; cbn [holds] in Hm'; [congruence|rewrite Hnr in Hm'; discriminate].
        * intros t0 _ t'. apply Hnr.
        * unfold pending. cbn [cw cr cm cth]. rewrite set_th_same. cbn [fin].
          eapply meq_trans; [exact Hq1|]. apply meq_sym. exact Hs1.
    - (* lock Excl elsewhere: impossible for a lock-free body *)
      cbn [lockfree] in Hlf. discriminate.
    - (* lock Shared at the start *)
      pose proof (Hwl c) as Hw. rewrite Hcode in Hw. cbn [well_locked] in Hw.
      destruct k as [| |m' b| | | | | |]; try discriminate.
      apply andb_true_iff in Hw. destruct Hw as [Hw Hro]. apply andb_true_iff in Hw. destruct Hw as [Hm Hlf].
      destruct m'; try discriminate.
      assert (Hpend : meq (am a) (cm s)) by (unfold pending in Hmap; rewrite Hcw in Hmap; exact Hmap).
      destruct (Hsem c (cm s)) as [Hs1 Hs2]. rewrite Hcode in Hs1, Hs2. cbn [fin] in Hs1, Hs2.
      rewrite (ro_fin b c None (cm s) Hro) in Hs1.
      destruct (seq_meq c _ _ Hpend) as [Hq1 Hq2].
      exists {| am := fst (seq c (am a)); ath := set_a (ath a) t (ADone c (snd (seq c (am a)))) |}. split.
      + apply am_one. apply a_lin. exact Hath.
      + constructor; cbn [cw cr cm cth am ath].
        * intro t'. destruct (Nat.eq_dec t' t) as [->|Hne].
          -- rewrite set_th_same, set_a_same. rewrite Hq2, <- Hs2. apply ph_predefer; [exact Hcode|]. cbn [holds]. apply set_r_same.
          -- rewrite set_th_other, set_a_other by exact Hne. eapply phase_other; [apply Hph| |].
             ++ intros [A B]. split; [exact A|rewrite set_r_other by exact Hne; exact B].
             ++ intros m Hm'. split; [|reflexivity]. destruct m; cbn [holds] in *; [exact Hm'|rewrite set_r_other by exact Hne; exact Hm'].
        * intros t0 Hc. congruence.
        * unfold pending. cbn [cw cr cm cth]. rewrite Hcw.
          eapply meq_trans; [exact Hq1|]. apply meq_sym. exact Hs1.
    - cbn [lockfree] in Hlf. discriminate.
    - (* explicit unlocks do not occur in well-locked code *)
      pose proof (Hwl c) as Hw. rewrite Hcode in Hw. discriminate.
    - cbn [lockfree] in Hlf. discriminate.
    - pose proof (Hwl c) as Hw. rewrite Hcode in Hw. discriminate.
    - cbn [lockfree] in Hlf. discriminate.
    - (* defer at the start of a call: not well-locked *)
      pose proof (Hwl c) as Hw. rewrite Hcode in Hw. discriminate.
    - (* the defer right after the lock *)
      pose proof (Hwl c) as Hw. rewrite Hcode in Hw. cbn [well_locked] in Hw.
      apply andb_true_iff in Hw. destruct Hw as [Hw Hro]. apply andb_true_iff in Hw. destruct Hw as [_ Hlf].
      exists a. split; [apply am_stutter|].
      constructor; cbn [cw cr cm cth].
      + intro t'. destruct (Nat.eq_dec t' t) as [->|Hne].
        * rewrite set_th_same, Hath. apply ph_body; [exact Hlf| |exact Hholds]. intros ->. exact Hro.
        * rewrite set_th_other by exact Hne. apply Hph.
      + exact Hex.
      + unfold pending in *. cbn [cw cr cm cth]. destruct (cw s) as [tw|] eqn:Ew; [|exact Hmap].
        destruct (Nat.eq_dec tw t) as [->|Hne]; [rewrite set_th_same; rewrite Hth in Hmap; exact Hmap|].
        rewrite set_th_other by exact Hne. exact Hmap.
    - cbn [lockfree] in Hlf. discriminate.
    - (* lookup: at the start impossible; inside the section *)
      pose proof (Hwl c) as Hw. rewrite Hcode in Hw. discriminate.
    - cbn [lockfree] in Hlf.
      exists a. split; [apply am_stutter|].
      constructor; cbn [cw cr cm cth].
      + intro t'. destruct (Nat.eq_dec t' t) as [->|Hne].
        * rewrite set_th_same, Hath. cbn [fin]. apply ph_body; [exact Hlf| |exact Hholds]. intros E. exact (Hrom E).
        * rewrite set_th_other by exact Hne. apply Hph.
      + exact Hex.
      + unfold pending in *. cbn [cw cr cm cth]. destruct (cw s) as [tw|] eqn:Ew; [|exact Hmap].
        destruct (Nat.eq_dec tw t) as [->|Hne]; [rewrite set_th_same; rewrite Hth in Hmap; exact Hmap|].
        rewrite set_th_other by exact Hne. exact Hmap.
    - pose proof (Hwl c) as Hw. rewrite Hcode in Hw. discriminate.
    - (* store: only under the exclusive lock *)
      cbn [lockfree] in Hlf. destruct m; [|specialize (Hrom eq_refl); discriminate]. cbn [holds] in Hholds.
      exists a. split; [apply am_stutter|].
      constructor; cbn [cw cr cm cth].
      + intro t'. destruct (Nat.eq_dec t' t) as [->|Hne].
        * rewrite set_th_same, Hath. cbn [fin]. apply ph_body; [exact Hlf|intro; discriminate|exact Hholds].
        * rewrite set_th_other by exact Hne. eapply phase_other; [apply Hph|auto|].
          intros m Hm'. exfalso. destruct m; cbn [holds] in Hm'; [congruence|rewrite (Hex t Hholds t') in Hm'; discriminate].
      + exact Hex.
      + unfold pending in *. cbn [cw cr cm cth]. rewrite Hholds in *. rewrite set_th_same. rewrite Hth in Hmap. exact Hmap.
    - pose proof (Hwl c) as Hw. rewrite Hcode in Hw. discriminate.
    - cbn [lockfree] in Hlf. destruct m; [|specialize (Hrom eq_refl); discriminate]. cbn [holds] in Hholds.
      exists a. split; [apply am_stutter|].
      constructor; cbn [cw cr cm cth].
      + intro t'. destruct (Nat.eq_dec t' t) as [->|Hne].
        * rewrite set_th_same, Hath. cbn [fin]. apply ph_body; [exact Hlf|intro; discriminate|exact Hholds].
        * rewrite set_th_other by exact Hne. eapply phase_other; [apply Hph|auto|].
          intros m Hm'. exfalso. destruct m; cbn [holds] in Hm'; [congruence|rewrite (Hex t Hholds t') in Hm'; discriminate].
      + exact Hex.
      + unfold pending in *. cbn [cw cr cm cth]. rewrite Hholds in *. rewrite set_th_same. rewrite Hth in Hmap. exact Hmap.
    - pose proof (Hwl c) as Hw. rewrite Hcode in Hw. discriminate.
    - cbn [lockfree] in Hlf. destruct m; [|specialize (Hrom eq_refl); discriminate]. cbn [holds] in Hholds.
      exists a. split; [apply am_stutter|].
      constructor; cbn [cw cr cm cth].
      + intro t'. destruct (Nat.eq_dec t' t) as [->|Hne].
        * rewrite set_th_same, Hath. cbn [fin]. apply ph_body; [exact Hlf|intro; discriminate|exact Hholds].
        * rewrite set_th_other by exact Hne. eapply phase_other; [apply Hph|auto|].
          intros m Hm'. exfalso. destruct m; cbn [holds] in Hm'; [congruence|rewrite (Hex t Hholds t') in Hm'; discriminate].
      + exact Hex.
      + unfold pending in *. cbn [cw cr cm cth]. rewrite Hholds in *. rewrite set_th_same. rewrite Hth in Hmap. exact Hmap.
    - pose proof (Hwl c) as Hw. rewrite Hcode in Hw. discriminate.
    - (* branch on the looked-up value *)
      cbn [lockfree] in Hlf. apply andb_true_iff in Hlf. destruct Hlf as [La Lb].
      exists a. split; [apply am_stutter|].
      constructor; cbn [cw cr cm cth].
      + intro t'. destruct (Nat.eq_dec t' t) as [->|Hne].
        * rewrite set_th_same, Hath. cbn [fin]. destruct l.
          -- apply ph_body; [exact La| |exact Hholds]. intros E. specialize (Hrom E). cbn [ro] in Hrom. apply andb_true_iff in Hrom. tauto.
          -- apply ph_body; [exact Lb| |exact Hholds]. intros E. specialize (Hrom E). cbn [ro] in Hrom. apply andb_true_iff in Hrom. tauto.
        * rewrite set_th_other by exact Hne. apply Hph.
      + exact Hex.
      + unfold pending in *. cbn [cw cr cm cth]. destruct (cw s) as [tw|] eqn:Ew; [|exact Hmap].
        destruct (Nat.eq_dec tw t) as [->|Hne]; [|rewrite set_th_other by exact Hne; exact Hmap].
        rewrite set_th_same. rewrite Hth in Hmap. cbn [fin] in Hmap. destruct l; exact Hmap.
    - (* return without a critical section: the call takes effect now *)
      destruct (Hsem c (am a)) as [Hs1 Hs2]. rewrite Hcode in Hs1, Hs2. cbn [fin fst snd] in Hs1, Hs2.
      exists {| am := fst (seq c (am a)); ath := set_a (ath a) t (ADone c (snd (seq c (am a)))) |}. split.
      + apply am_one. apply a_lin. exact Hath.
      + constructor; cbn [cw cr cm cth am ath].
        * intro t'. destruct (Nat.eq_dec t' t) as [->|Hne].
          -- rewrite set_th_same, set_a_same. rewrite <- Hs2. apply ph_ret_free. exact Hfree.
          -- rewrite set_th_other, set_a_other by exact Hne. apply Hph.
        * exact Hex.
        * rewrite pending_other; [|reflexivity|apply Hfree].
          eapply meq_trans; [apply meq_sym; exact Hs1|exact Hmap].
    - (* return inside the section *)
      exists a. split; [apply am_stutter|].
      constructor; cbn [cw cr cm cth].
      + intro t'. destruct (Nat.eq_dec t' t) as [->|Hne].
        * rewrite set_th_same, Hath. cbn [fin snd]. apply ph_ret_locked. exact Hholds.
        * rewrite set_th_other by exact Hne. apply Hph.
      + exact Hex.
      + unfold pending in *. cbn [cw cr cm cth]. destruct (cw s) as [tw|] eqn:Ew; [|exact Hmap].
        destruct (Nat.eq_dec tw t) as [->|Hne]; [|rewrite set_th_other by exact Hne; exact Hmap].
        rewrite set_th_same. rewrite Hth in Hmap. cbn [fin fst] in Hmap. exact Hmap.
    - (* deferred exclusive unlock *)
      exists a. split; [apply am_stutter|].
      constructor; cbn [cw cr cm cth].
      + intro t'. destruct (Nat.eq_dec t' t) as [->|Hne].
        * rewrite set_th_same, Hath. apply ph_ret_free. split; [discriminate|apply (Hex t Hcw)].
        * rewrite set_th_other by exact Hne. eapply phase_other; [apply Hph| |].
          -- intros [A B]. split; [discriminate|exact B].
          -- intros m Hm'. exfalso. destruct m; cbn [holds] in Hm'; [congruence|rewrite (Hex t Hcw t') in Hm'; discriminate].
      + intros t0 Hc. discriminate.
      + unfold pending in *. cbn [cw cr cm cth]. rewrite Hcw, Hth in Hmap. exact Hmap.
    - (* deferred shared unlock *)
      assert (Hnw : cw s = None).
      { destruct (cw s) as [tw|] eqn:Ew; [|reflexivity]. rewrite (Hex tw eq_refl t) in Hcr. discriminate. }
      exists a. split; [apply am_stutter|].
      constructor; cbn [cw cr cm cth].
      + intro t'. destruct (Nat.eq_dec t' t) as [->|Hne].
        * rewrite set_th_same, Hath. apply ph_ret_free. split; [rewrite Hnw; discriminate|apply set_r_same].
        * rewrite set_th_other by exact Hne. eapply phase_other; [apply Hph| |].
          -- intros [A B]. split; [exact A|rewrite set_r_other by exact Hne; exact B].
          -- intros m Hm'. split; [|reflexivity]. destruct m; cbn [holds] in *; [exact Hm'|rewrite set_r_other by exact Hne; exact Hm'].
      + intros t0 Hc. congruence.
      + unfold pending in *. cbn [cw cr cm cth]. rewrite Hnw in *. exact Hmap.
    - (* response *)
      exists {| am := am a; ath := set_a (ath a) t AIdle |}. split.
      + apply am_one. apply a_res. exact Hath.
      + constructor; cbn [cw cr cm cth am ath].
        * intro t'. destruct (Nat.eq_dec t' t) as [->|Hne].
          -- rewrite set_th_same, set_a_same. apply ph_idle. assumption.
          -- rewrite set_th_other, set_a_other by exact Hne. apply Hph.
        * exact Hex.
        * rewrite pending_other; [exact Hmap|reflexivity|apply Hfree].
  Qed.

  (* ---- every concurrent history is a history of the atomic map ---- *)
  Lemma sim_exec s h s' : cexec code s h s' -> forall a, R s a -> exists a', aexec a h a' /\ R s' a'.
  Proof.
    induction 1 as [s|s e s1 h s2 Hstep Hexec IH]; intros a HR.
    - exists a. split; [constructor|exact HR].
    - destruct (sim s a e s1 HR Hstep) as [a1 [Hm HR1]].
      destruct (IH a1 HR1) as [a2 [He HR2]].
      exists a2. split; [|exact HR2].
      inversion Hm; subst; [exact He|]. eapply ae_step; eassumption.
  Qed.

  Theorem linearizable h s : cexec code cinit h s -> exists a, aexec ainit h a.
  Proof. intro H. destruct (sim_exec _ _ _ H ainit R_init) as [a [He _]]. exists a. exact He. Qed.

  Lemma reachable_R h s : cexec code cinit h s -> exists a, R s a.
  Proof. intro H. destruct (sim_exec _ _ _ H ainit R_init) as [a [_ HR]]. exists a. exact HR. Qed.

  (* ---- data-race freedom: no two threads are ever both about to touch the map unless both only read ---- *)
  Definition at_read (ts : tstate) : Prop := exists c k ds l, ts = TRun c (PLookup k) ds l.
  Definition at_write (ts : tstate) : Prop :=
    exists c k ds l, ts = TRun c (PStore k) ds l \/ ts = TRun c (PDelete k) ds l \/ ts = TRun c (PClear k) ds l.
  Definition racy (s : cstate) : Prop :=
    exists t1 t2, t1 <> t2 /\ at_write (cth s t1) /\ (at_write (cth s t2) \/ at_read (cth s t2)).

  Lemma access_holds s a t : R s a ->
    at_write (cth s t) -> cw s = Some t.
  Proof.
    intros HR [c [k [ds [l Hw]]]]. pose proof (R_phase _ _ HR t) as Ht.
    destruct Hw as [Hw|[Hw|Hw]]; rewrite Hw in Ht; inversion Ht; subst;
      try (match goal with H : code ?c = _ |- _ => pose proof (Hwl c) as W; rewrite H in W; discriminate
                         | H : _ = code ?c |- _ => pose proof (Hwl c) as W; rewrite <- H in W; discriminate end);
      (destruct m; [assumption|]; match goal with H : Shared = Shared -> _ |- _ => specialize (H eq_refl); discriminate end).
  Qed.

  Lemma read_holds s a t : R s a -> at_read (cth s t) -> cw s = Some t \/ cr s t = true.
  Proof.
    intros HR [c [k [ds [l Hw]]]]. pose proof (R_phase _ _ HR t) as Ht.
    rewrite Hw in Ht; inversion Ht; subst;
      try (match goal with H : code ?c = _ |- _ => pose proof (Hwl c) as W; rewrite H in W; discriminate
                         | H : _ = code ?c |- _ => pose proof (Hwl c) as W; rewrite <- H in W; discriminate end).
    destruct m; [left|right]; assumption.
  Qed.

  Theorem race_free h s : cexec code cinit h s -> ~ racy s.
  Proof.
    intros Hexec [t1 [t2 [Hne [Hw1 H2]]]]. destruct (reachable_R _ _ Hexec) as [a HR].
    pose proof (access_holds _ _ _ HR Hw1) as H1.
    destruct H2 as [Hw2|Hr2].
    - pose proof (access_holds _ _ _ HR Hw2) as H2. congruence.
    - destruct (read_holds _ _ _ HR Hr2) as [H2|H2]; [congruence|].
      rewrite (R_excl _ _ HR t1 H1 t2) in H2. discriminate.
  Qed.
End Sim.
