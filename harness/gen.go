package main

// gen.go — one PRNG (SplitMix64) and the structured generators for message values, receivers,
// buffers and hostile byte strings.

import (
	"bytes"
	"strings"
	"reflect"
)

type rng struct{ s uint64 }

func (r *rng) next() uint64 {
	r.s += 0x9E3779B97F4A7C15
	z := r.s
	z = (z ^ (z >> 30)) * 0xBF58476D1CE4E5B9
	z = (z ^ (z >> 27)) * 0x94D049BB133111EB
	return z ^ (z >> 31)
}
func (r *rng) intn(n int) int {
	if n <= 0 {
		return 0
	}
	return int(r.next() % uint64(n))
}
func (r *rng) chance(num, den int) bool { return r.intn(den) < num }
func (r *rng) fork() *rng              { return &rng{s: r.next()} }
func (r *rng) bytes(n int) []byte {
	b := make([]byte, n)
	for i := range b {
		b[i] = byte(r.next())
	}
	return b
}

type genOpts struct {
	canonical bool // values fit their wire fields (the C01 domain)
	nilBody   int  // 0: body present and matching; 1: nil body (registered key); 2: nil body, unregistered key; 3: mismatching body type
	bigLists  bool // allow a few long lists
	midLists  bool // every list has 12..41 entries (set for one value in six by genMessage itself)
	depth     int
}

var intBoundaries = []uint64{0, 1, 2, 0x7f, 0x80, 0xff, 0x100, 0x7fff, 0x8000, 0xffff, 0x10000, 0x7fffffff, 0x80000000, 0xffffffff,
	0x100000000, 0x7fffffffffffffff, 0x8000000000000000, 0xffffffffffffffff, 0x0102030405060708, 0x01020304, 0x0102, 0xdeadbeef,
	0x7fc00001, 0x7fa00001, 0xffc00000, 0x7ff8000000000001, 0x7ff4000000000001, 0x8000000000000001, 0x00000001, 0x0010000000000000}

// bit patterns a float conversion or comparison may not preserve: signed zeros, infinities, quiet and SIGNALLING NaNs
// with payloads, subnormals
var f32Boundaries = []uint64{0, 0x80000000, 0x7f800000, 0xff800000, 0x7fc00000, 0x7fc00001, 0x7fa00000, 0x7fa00001, 0x7f800001,
	0xffa00000, 0xff800001, 0x00000001, 0x007fffff, 0x00800000, 0x3f800000, 0x7f7fffff}
var f64Boundaries = []uint64{0, 0x8000000000000000, 0x7ff0000000000000, 0xfff0000000000000, 0x7ff8000000000000, 0x7ff8000000000001,
	0x7ff4000000000000, 0x7ff4000000000001, 0x7ff0000000000001, 0xfff4000000000000, 0x0000000000000001, 0x000fffffffffffff,
	0x0010000000000000, 0x3ff0000000000000, 0x7fefffffffffffff}

func (r *rng) scalarBits(ity string) uint64 {
	var v uint64
	if ity == "F32" && r.chance(1, 2) {
		return f32Boundaries[r.intn(len(f32Boundaries))]
	}
	if ity == "F64" && r.chance(1, 2) {
		return f64Boundaries[r.intn(len(f64Boundaries))]
	}
	if r.chance(1, 2) {
		v = intBoundaries[r.intn(len(intBoundaries))]
	} else {
		v = r.next()
	}
	w := widthOf[ity]
	if w < 8 {
		v &= (uint64(1) << (8 * uint(w))) - 1
	}
	return v
}

// text alphabets: printable, the pad, NUL, high bytes, UTF-8 fragments
func (r *rng) textByte(pad byte) byte {
	switch r.intn(10) {
	case 0:
		return pad
	case 1:
		return 0
	case 2:
		return byte(0x80 + r.intn(0x80))
	case 3:
		return ' '
	case 4:
		return '0'
	default:
		return byte(0x21 + r.intn(0x5e))
	}
}

func (r *rng) fixedText(f *genField, canonical bool) string {
	pad := byte(f.Pad)
	var n int
	switch r.intn(8) {
	case 0:
		n = 0
	case 1:
		n = f.N
	case 2:
		n = f.N - 1
	case 3:
		if canonical {
			n = r.intn(f.N + 1)
		} else {
			n = f.N + 1 + r.intn(4)
		}
	default:
		n = r.intn(f.N + 1)
	}
	if n < 0 {
		n = 0
	}
	b := make([]byte, n)
	for i := range b {
		b[i] = r.textByte(pad)
	}
	// blank-like runs at the trimmed end that are NOT the pad: 8+ spaces / NULs / zeros in a field padded with something
	// else, wide and no-break spaces, a '!' after a blank (pad xor 1), tabs - what a "smarter" trim may take for padding
	if n >= 2 && r.chance(1, 2) {
		tails := [][]byte{bytes.Repeat([]byte{' '}, 8), bytes.Repeat([]byte{' '}, 16), bytes.Repeat([]byte{0}, 8), bytes.Repeat([]byte{'0'}, 8),
			{0xe3, 0x80, 0x80}, {0xe3, 0x80, 0x80, 0xe3, 0x80, 0x80}, {0xa1, 0xa1}, {0xc2, 0xa0}, {'\t'}, {' ', '!'}, {' ', '!', '!'}, {pad ^ 1}, {' ', pad ^ 1},
			{pad ^ 0x80}, {'\r', '\n'}}
		t := tails[r.intn(len(tails))]
		if len(t) <= n {
			if f.Left {
				rev := append([]byte{}, t...)
				for i, j := 0, len(rev)-1; i < j; i, j = i+1, j-1 {
					rev[i], rev[j] = rev[j], rev[i]
				}
				copy(b, rev)
			} else {
				copy(b[n-len(t):], t)
			}
		}
	}
	if canonical && n > 0 {
		if f.Left {
			for b[0] == pad {
				b[0] = byte(0x21 + r.intn(0x5e))
			}
		} else {
			for b[n-1] == pad {
				b[n-1] = byte(0x21 + r.intn(0x5e))
			}
		}
	}
	return string(b)
}

func prefixMax(ity string) int {
	switch ity {
	case "U8":
		return 255
	case "U16":
		return 65535
	}
	return 1 << 30
}

// set while a top-level variable-length text field is generated
var stretchText bool

func (r *rng) varText(lenIty string, big bool) string {
	n := 0
	switch r.intn(8) {
	case 0:
		n = 0
	case 1:
		n = 1
	case 2:
		if big && prefixMax(lenIty) <= 65535 {
			n = prefixMax(lenIty)
		} else {
			n = r.intn(40)
		}
	default:
		n = r.intn(24)
	}
	if forceListLen > 0 && forceListLen <= 1200 && stretchText {
		// "large" values: a variable-length text field grows with the lists (not the elements of a text list, and not
		// when the lists are made very long to push byte offsets past 2^16)
		n = forceListLen*10 + r.intn(8)
		if n > prefixMax(lenIty) {
			n = prefixMax(lenIty)
		}
	}
	b := make([]byte, n)
	for i := range b {
		b[i] = r.textByte(' ')
	}
	return string(b)
}

// mid-size variable-length text (60..300 bytes, or the prefix maximum)
func (r *rng) midText(lenIty string) string {
	n := 60 + r.intn(240)
	if n > prefixMax(lenIty) {
		n = prefixMax(lenIty)
	}
	b := make([]byte, n)
	for i := range b {
		b[i] = r.textByte(' ')
	}
	return string(b)
}

// when non-zero, every generated list has about this many elements (used to build inputs whose count prefixes are
// then inflated: a reader must see many well-formed elements first)
var forceListLen int

func (r *rng) listLen(cnt string, big bool) int {
	if forceListLen > 0 {
		n := forceListLen + r.intn(8)
		if n > prefixMax(cnt) {
			n = prefixMax(cnt)
		}
		return n
	}
	switch r.intn(10) {
	case 0:
		return 0
	case 1:
		return 1
	case 2:
		if big {
			switch r.intn(5) {
			case 0:
				return 255
			case 1:
				return 256
			case 2:
				if prefixMax(cnt) >= 65535 {
					return 300 + r.intn(200)
				}
				return 255
			case 3:
				// beyond one 4 KiB block of 8-byte elements
				if prefixMax(cnt) >= 65535 {
					return 513 + r.intn(40)
				}
				return 200 + r.intn(50)
			default:
				// beyond one 4 KiB block of 2-byte elements
				if prefixMax(cnt) >= 65535 {
					return 2049 + r.intn(60)
				}
				return 254
			}
		}
		return 2
	case 3:
		// mid-size: a body of a few hundred bytes (several buffer growth steps, more than any fixed-size message)
		n := 4 + r.intn(28)
		if n > prefixMax(cnt) {
			n = prefixMax(cnt)
		}
		return n
	default:
		return r.intn(4)
	}
}

func (r *rng) listLenOpt(cnt string, o genOpts, big bool) int {
	if o.midLists {
		n := 12 + r.intn(30)
		if n > prefixMax(cnt) {
			n = prefixMax(cnt)
		}
		return n
	}
	return r.listLen(cnt, big)
}

// genMessage builds a value of type t
func (r *rng) genMessage(t *genType, o genOpts) any {
	if o.depth == 0 && !o.bigLists && forceListLen == 0 && r.chance(1, 6) {
		// bodies of a few hundred bytes to a few KiB: several buffer growth steps, larger than any fixed-size message
		o.midLists = true
	}
	o.depth++
	m := t.New()
	e := reflect.ValueOf(m).Elem()
	for i := range t.Fields {
		f := &t.Fields[i]
		fv := e.Field(i)
		switch f.Kind {
		case "int":
			ity := f.Ity
			if ity == "" {
				ity = ityOfKind(fv.Kind())
			}
			setBits(fv, r.scalarBits(ity))
		case "str":
			switch f.Wire {
			case "fixed":
				fv.SetString(r.fixedText(f, o.canonical))
			default:
				if o.midLists && forceListLen == 0 {
					fv.SetString(r.midText(f.Len))
				} else {
					stretchText = true
					fv.SetString(r.varText(f.Len, o.bigLists))
					stretchText = false
				}
			}
		case "ints":
			n := r.listLenOpt(f.Cnt, o, o.bigLists)
			if n > prefixMax(f.Cnt) {
				n = prefixMax(f.Cnt)
			}
			sl := reflect.MakeSlice(fv.Type(), n, n)
			for j := 0; j < n; j++ {
				setBits(sl.Index(j), r.scalarBits(f.Ity))
			}
			if n == 0 && r.chance(1, 2) {
				sl = reflect.Zero(fv.Type())
			}
			fv.Set(sl)
		case "strs":
			n := r.listLenOpt(f.Cnt, o, o.bigLists)
			if n > prefixMax(f.Cnt) {
				n = prefixMax(f.Cnt)
			}
			sl := reflect.MakeSlice(fv.Type(), n, n)
			for j := 0; j < n; j++ {
				if f.Wire == "fixedlist" {
					sl.Index(j).SetString(r.fixedText(f, o.canonical))
				} else {
					sl.Index(j).SetString(r.varText(f.Len, false))
				}
			}
			if n == 0 && r.chance(1, 2) {
				sl = reflect.Zero(fv.Type())
			}
			fv.Set(sl)
		case "ptr":
			if o.canonical || r.chance(3, 4) {
				fv.Set(reflect.ValueOf(r.genMessage(typeById[f.Ref], o)))
			}
		case "val":
			fv.Set(reflect.ValueOf(r.genMessage(typeById[f.Ref], o)).Elem())
		case "ptrs":
			n := r.listLenOpt(f.Cnt, o, false)
			oe := o
			oe.midLists = false
			sl := reflect.MakeSlice(fv.Type(), n, n)
			for j := 0; j < n; j++ {
				sl.Index(j).Set(reflect.ValueOf(r.genMessage(typeById[f.Ref], oe)))
			}
			if n == 0 && r.chance(1, 2) {
				sl = reflect.Zero(fv.Type())
			}
			fv.Set(sl)
		case "iface":
			if f.Tbl < 0 {
				continue
			}
			tb := tableById[f.Tbl]
			if len(tb.Entries) == 0 {
				continue
			}
			ent := tb.Entries[r.intn(len(tb.Entries))]
			kv := e.Field(f.Key)
			setKey := func(en genEntry) {
				if tb.KeyKind == "num" {
					setBits(kv, en.KeyNum)
				} else {
					kv.SetString(en.KeyStr)
				}
			}
			switch o.nilBody {
			case 0:
				setKey(ent)
				fv.Set(reflect.ValueOf(r.genMessage(typeById[ent.Target], o)))
			case 1:
				setKey(ent)
			case 2:
				// unregistered key
				if tb.KeyKind == "num" {
					setBits(kv, r.unregisteredNum(tb))
				} else {
					kv.SetString(r.unregisteredStr(tb))
				}
			case 3:
				setKey(ent)
				other := tb.Entries[r.intn(len(tb.Entries))]
				fv.Set(reflect.ValueOf(r.genMessage(typeById[other.Target], o)))
			}
		}
	}
	return m
}

func ityOfKind(k reflect.Kind) string {
	switch k {
	case reflect.Int8:
		return "I8"
	case reflect.Int16:
		return "I16"
	case reflect.Int32:
		return "I32"
	case reflect.Int64:
		return "I64"
	case reflect.Uint8:
		return "U8"
	case reflect.Uint16:
		return "U16"
	case reflect.Uint32:
		return "U32"
	case reflect.Uint64:
		return "U64"
	case reflect.Float32:
		return "F32"
	case reflect.Float64:
		return "F64"
	}
	panic("ityOfKind")
}

func (r *rng) unregisteredNum(tb *genTable) uint64 {
	for {
		var v uint64
		switch r.intn(7) {
		case 0:
			v = 0
		case 1:
			v = tb.Entries[r.intn(len(tb.Entries))].KeyNum + 1
		case 2:
			v = tb.Entries[r.intn(len(tb.Entries))].KeyNum - 1
		case 3:
			// equal to a registered key after a narrowing conversion
			v = tb.Entries[r.intn(len(tb.Entries))].KeyNum + 1<<16
		case 4:
			v = tb.Entries[r.intn(len(tb.Entries))].KeyNum + 1<<8
		case 5:
			v = tb.Entries[r.intn(len(tb.Entries))].KeyNum | 1<<31
		default:
			v = r.next() & 0xffff
		}
		ok := true
		for _, e := range tb.Entries {
			if e.KeyNum == v {
				ok = false
			}
		}
		if ok {
			return v
		}
	}
}

func (r *rng) unregisteredStr(tb *genTable) string {
	for {
		var v string
		base := tb.Entries[r.intn(len(tb.Entries))].KeyStr
		switch r.intn(12) {
		case 0:
			v = ""
		case 1:
			v = base[:len(base)-1]
		case 9, 10, 11:
			// an unregistered spelling that digit arithmetic without a digit check maps onto a registered number:
			// borrow one from a digit and give ten to its right neighbour ("010" -> "00:"), a hundred to the next
			// but one ("100" -> "00" + byte('0'+100)), or the reverse ("00:" style carries into the left digit)
			c := []byte(base)
			if len(c) < 2 {
				continue
			}
			i := r.intn(len(c) - 1)
			switch r.intn(3) {
			case 0:
				if c[i] > '0' && c[i] <= '9' {
					c[i]--
					c[i+1] += 10
				}
			case 1:
				if c[i] >= '0' && c[i] < '9' {
					c[i]++
					c[i+1] -= 10
				}
			default:
				if i+2 < len(c) && c[i] > '0' && c[i] <= '9' {
					c[i]--
					c[i+2] += 100
				}
			}
			v = string(c)
		case 5:
			// the same number written differently: an id table keyed by text must not parse it
			v = strings.TrimLeft(base, "0")
		case 6:
			v = "+" + strings.TrimLeft(base, "0")
		case 7:
			v = " " + strings.TrimLeft(base, "0")
		case 8:
			v = strings.ToLower(base)
			if v == base {
				v = strings.ToUpper(base)
			}
		case 2:
			b := []byte(base)
			b[len(b)-1]++
			v = string(b)
		case 3:
			v = "0" + base[:len(base)-1]
		default:
			v = string([]byte{byte('0' + r.intn(10)), byte('0' + r.intn(10)), byte('0' + r.intn(10))})
		}
		ok := true
		for _, e := range tb.Entries {
			if e.KeyStr == v {
				ok = false
			}
		}
		if ok {
			return v
		}
	}
}

// a random type weighted toward frames and list-bearing types now and then
func (r *rng) pickType() *genType {
	switch r.intn(6) {
	case 0, 1:
		// a frame: receivers of frames carry the most history (body type, computed fields)
		var frames []*genType
		for i := range genTypes {
			if isFrame(&genTypes[i]) {
				frames = append(frames, &genTypes[i])
			}
		}
		if len(frames) > 0 {
			return frames[r.intn(len(frames))]
		}
	case 2:
		var lists []*genType
		for i := range genTypes {
			for _, f := range genTypes[i].Fields {
				if f.Kind == "ints" || f.Kind == "strs" || f.Kind == "ptrs" {
					lists = append(lists, &genTypes[i])
					break
				}
			}
		}
		if len(lists) > 0 {
			return lists[r.intn(len(lists))]
		}
	}
	return &genTypes[r.intn(len(genTypes))]
}

func isFrame(t *genType) bool {
	for _, f := range t.Fields {
		if f.Kind == "iface" && f.Name != "ApplExtend" {
			return true
		}
	}
	return false
}

func hasIface(t *genType) bool {
	for _, f := range t.Fields {
		if f.Kind == "iface" {
			return true
		}
	}
	return false
}
