#!/bin/bash
# fullsweep.sh [pattern]: for each seeded change apply it to /repo, run the REGISTERED quick check of its property, record
# what was reported (verdict line, broken obligations, correspondence mismatches, first failing input), undo it.
# Writes seeded/RESULTS.jsonl (one line per change).  Developer tool, not part of any registered command.
out=/verif/seeded/RESULTS.jsonl
[ -z "$1" ] && : > $out
for S in /verif/seeded/${1:-*}; do
  [ -d "$S" ] || continue
  n=$(basename $S); p=$(python3 -c "import json;print(json.load(open('$S/meta.json'))['property'])")
  git -C /repo apply $S/patch.diff || { echo "$n APPLY-FAILED"; continue; }
  t0=$(date +%s)
  /verif/bin/verif check $p --tier quick > /tmp/fs.out 2>&1; rc=$?
  t1=$(date +%s)
  git -C /repo checkout -- .
  python3 - "$n" "$p" "$rc" "$((t1-t0))" >> $out <<'PY'
import json,sys,re
n,p,rc,dt=sys.argv[1:5]
o=open('/tmp/fs.out').read()
vl=[l for l in o.splitlines() if l.startswith('VIOLATION')]
summ=[l for l in o.splitlines() if re.match(r'C\d\d (quick|thorough):',l)]
rec={"change":n,"property":p,"exit":int(rc),"seconds":int(dt),"violation_line":vl[0] if vl else "","summary":summ[-1] if summ else o[-300:]}
try:
    r=json.load(open('/verif/replay/%s-1.json'%p))
    rec["kind"]=r.get("kind"); rec["broken_obligations"]=r.get("broken_obligations",[])[:8]
    rec["corr_mismatches"]=len(r.get("correspondence_mismatches",[]))
    f=r.get("failures") or []
    if f: rec["first_failure"]=(f[0].get("oracle","")+": "+f[0].get("what",""))[:200]
except Exception as e:
    rec["replay_error"]=str(e)
print(json.dumps(rec))
PY
  tail -1 $out | cut -c1-260
done
git -C /repo status --short | head -3
