package main

// oracles.go — direct property oracles on the real code: independent of the Coq model, written
// against the property text.  They are the failing-input search of DESIGN.md §5.4.

import (
	"encoding/json"
	"flag"
	"fmt"
	"os"
	"sort"
	"strings"
	"sync"
	"time"
)

type failure struct {
	Oracle string         `json:"oracle"`
	Type   string         `json:"type,omitempty"`
	What   string         `json:"what"`
	Input  map[string]any `json:"input"`
}

type known struct {
	Property string            `json:"property"`
	Status   string            `json:"status"` // open | fixed
	Commit   string            `json:"commit,omitempty"`
	What     string            `json:"what"`
	Match    map[string]string `json:"match"` // oracle, type, contains
}

type report struct {
	Property    string         `json:"property"`
	Evaluations int            `json:"evaluations"`
	Distinct    int            `json:"distinct"`
	Rule        string         `json:"rule"`
	Failures    []failure      `json:"failures"`
	Known       []string       `json:"known"`
	Samples     []string       `json:"samples"`
	Stats       map[string]int `json:"stats"`

	mu       sync.Mutex
	seen     map[string]bool
	knowns   []known
	thorough bool
}

func (r *report) eval(class string, key string) {
	r.mu.Lock()
	defer r.mu.Unlock()
	r.Evaluations++
	r.Stats[class]++
	if len(key) > 200 {
		key = key[:200]
	}
	if !r.seen[key] {
		r.seen[key] = true
		r.Distinct++
	}
}

func (r *report) sample(s string) {
	r.mu.Lock()
	defer r.mu.Unlock()
	if len(r.Samples) < 8 {
		if len(s) > 400 {
			s = s[:400] + "..."
		}
		r.Samples = append(r.Samples, s)
	}
}

// fail records a violation unless it matches an open known finding
func (r *report) fail(f failure) {
	r.mu.Lock()
	defer r.mu.Unlock()
	for _, k := range r.knowns {
		if k.Property != r.Property || k.Status != "open" {
			continue
		}
		if k.Match["oracle"] != "" && k.Match["oracle"] != f.Oracle {
			continue
		}
		if k.Match["type"] != "" && k.Match["type"] != f.Type {
			continue
		}
		if c := k.Match["contains"]; c != "" && !strings.Contains(f.What, c) {
			continue
		}
		line := k.What
		for _, x := range r.Known {
			if x == line {
				return
			}
		}
		r.Known = append(r.Known, line)
		return
	}
	if len(r.Failures) < 40 {
		if f.Input != nil && lastBufShape != "" {
			f.Input["last_encode_buffer_shape"] = lastBufShape
		}
		for k, v := range f.Input {
			if s, ok := v.(string); ok && len(s) > 20000 {
				f.Input[k] = s[:20000] + fmt.Sprintf("...(%d chars)", len(s))
			}
		}
		r.Failures = append(r.Failures, f)
	}
}

func (r *report) failed() bool {
	r.mu.Lock()
	defer r.mu.Unlock()
	return len(r.Failures) >= 12
}

// watchdog: a single call that does not return within the limit is itself a violation (C09)
var wdMu sync.Mutex
var wdWhat string
var wdInput map[string]any
var wdStart time.Time

// when set, the call about to be made is also written to this file, so that a process killed by the runtime
// (out of memory under the address-space limit, fatal error) can be attributed to its input
var inflightPath = os.Getenv("VERIF_INFLIGHT")

func watch(what string, input map[string]any) {
	wdMu.Lock()
	wdWhat, wdInput, wdStart = what, input, time.Now()
	wdMu.Unlock()
	if inflightPath != "" {
		b, _ := json.Marshal(map[string]any{"what": what, "input": input})
		os.WriteFile(inflightPath, b, 0o644)
	}
}
func unwatch() {
	wdMu.Lock()
	wdWhat = ""
	wdMu.Unlock()
}

func runOracles(args []string) {
	fs := flag.NewFlagSet("oracle", flag.ExitOnError)
	prop := fs.String("prop", "", "property id")
	seed := fs.Uint64("seed", 1, "seed")
	tier := fs.String("tier", "quick", "quick|thorough")
	out := fs.String("out", "oracle.json", "report file")
	knownPath := fs.String("known", "", "known findings file")
	fs.Parse(args)
	rep := &report{Property: *prop, Stats: map[string]int{}, seen: map[string]bool{}, thorough: *tier == "thorough", Failures: []failure{}, Known: []string{}, Samples: []string{}}
	if *knownPath != "" {
		if b, err := os.ReadFile(*knownPath); err == nil {
			json.Unmarshal(b, &rep.knowns)
		}
	}
	write := func() {
		rep.mu.Lock()
		b, _ := json.MarshalIndent(rep, "", " ")
		rep.mu.Unlock()
		os.WriteFile(*out, b, 0o644)
	}
	// watchdog goroutine
	go func() {
		for {
			time.Sleep(500 * time.Millisecond)
			wdMu.Lock()
			w, in, st := wdWhat, wdInput, wdStart
			wdMu.Unlock()
			if w != "" && time.Since(st) > 20*time.Second {
				rep.fail(failure{Oracle: "deadline", What: "call did not return within 20s: " + w, Input: in})
				write()
				os.Exit(3)
			}
		}
	}()
	r := &rng{s: *seed*0x9E3779B97F4A7C15 + 12345}
	fn, ok := oracleTable[*prop]
	if !ok {
		fmt.Fprintln(os.Stderr, "no oracle for", *prop)
		os.Exit(2)
	}
	fn(rep, r)
	sort.Slice(rep.Failures, func(i, j int) bool { return false })
	write()
}

var oracleTable = map[string]func(*report, *rng){}
