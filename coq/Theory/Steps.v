(* Theory/Steps.v — how much work a decoder does, counted in reader calls, loop iterations and nested decodes, is
   bounded by a constant plus a multiple of the input bytes present (C09: no input makes a decoder run long).
   The count is defined like the allocation model (Model/Cost.v) with unit charges and shown to lie below it,
   so the bound of Theory/CostBound.v applies. *)
From FP.Theory Require Export CostBound.
From Coq Require Import ZifyBool ZifyNat ZifyN.
Local Open Scope N_scope.

Definition read_list_steps {A} (le : bool) (cnt : ity) (rd : list byte -> res (A * list byte)) (rds : list byte -> N) (buf : list byte) : N :=
  1 + match read_basic le cnt buf with
      | Ok (n, r) => match wire_count n with
                     | Ok n => read_n_cost rd (fun b => 1 + rds b) (list_fuel n r) n r     (* one per iteration, plus the element *)
                     | Fail _ => 0
                     end
      | Fail _ => 0
      end.

Definition steps_prim (p : prim) (buf : list byte) : N :=
  match p with
  | PBasic _ _ | PFixed _ _ _ | PString _ _ => 1
  | PBasicList le cnt elt => read_list_steps le cnt (read_basic le elt) (fun _ => 1) buf
  | PFixedList le cnt n pad lf => read_list_steps le cnt (read_fixed n pad lf) (fun _ => 1) buf
  | PStringList le cnt len => read_list_steps le cnt (read_string le len) (fun _ => 1) buf
  | PObjList _ _ _ => 0
  end.

Section StepsSem.
  Variable tables : list (N * table).
  Variable dec_rec : N -> list byte -> res (list value * list byte).
  Variable steps_rec : N -> list byte -> N.
  Variable size : N -> N.                (* struct sizes: zero exactly for undeclared types, which never decode *)

  Definition obj_steps (t : N) (buf : list byte) : N := N.min 1 (size t) + steps_rec t buf.

  Definition steps_kind (done : list value) (k : kind) (buf : list byte) : N :=
    match k with
    | KPrim p _ => steps_prim p buf
    | KObjs le cnt tid => read_list_steps le cnt (parse_obj dec_rec tid) (obj_steps tid) buf
    | KCall _ _ _ (DPtr t) => obj_steps t buf
    | KCall _ _ _ (DVal t) => obj_steps t buf
    | KCall _ _ _ (DSel tbl key) =>
        match (do kv <- get_field done key; slookup tables tbl kv) with
        | Ok ty => obj_steps ty buf
        | Fail _ => 1
        end
    end.

  Fixpoint steps_fields (done : list value) (ks : list kind) (buf : list byte) : N :=
    match ks with
    | [] => 0
    | k :: ks' =>
        steps_kind done k buf +
        match parse_kind tables dec_rec done k buf with
        | Ok (v, r) => steps_fields (done ++ [v]) ks' r
        | Fail _ => 1
        end
    end.
End StepsSem.

Fixpoint steps_env (tables : list (N * table)) (ss : list sdef) (t : N) (buf : list byte) : N :=
  match ss with
  | [] => 0
  | sd :: rest =>
      if sd_id sd =? t
      then steps_fields tables (spec_dec_env tables rest) (steps_env tables rest) (ssize rest) [] (schema_kinds (sd_schema sd)) buf
      else steps_env tables rest t buf
  end.

(* ---- steps lie below the allocation count ---- *)
Lemma read_n_cost_mono {A} (rd : list byte -> res (A * list byte)) f1 f2 :
  (forall b, f1 b <= f2 b) -> forall fuel cnt buf, read_n_cost rd f1 fuel cnt buf <= read_n_cost rd f2 fuel cnt buf.
Proof.
  intros H fuel. induction fuel as [|fuel IH]; intros cnt buf; cbn [read_n_cost]; destruct (cnt =? 0); try lia.
  pose proof (H buf). destruct (rd buf) as [[a r]|]; [specialize (IH (N.pred cnt) r)|]; lia.
Qed.

Lemma list_steps_le {A} le cnt slot (rd : list byte -> res (A * list byte)) rds rdc buf :
  1 <= slot -> (forall b, rds b <= rdc b) -> read_list_steps le cnt rd rds buf <= read_list_cost le cnt slot rd rdc buf.
Proof.
  intros Hs H. unfold read_list_steps, read_list_cost, c_scalar, c_hdr.
  destruct (read_basic le cnt buf) as [[n r]|]; [|lia]. destruct (wire_count n) as [n'|]; [|lia].
  assert (Hp : forall b, 1 + rds b <= 2 * slot + rdc b) by (intro b; pose proof (H b); lia).
  pose proof (read_n_cost_mono rd (fun b => 1 + rds b) (fun b => 2 * slot + rdc b) Hp (list_fuel n' r) n' r).
  pose proof (N.le_0_l (slot * N.min n' (lenN r))). lia.
Qed.

Lemma width_pos t : 1 <= N.of_nat (width t).
Proof. destruct t; cbn; lia. Qed.

Lemma steps_prim_le p buf : steps_prim p buf <= cost_prim p buf.
Proof.
  destruct p as [le t|n pad lf|le len|le cnt elt|le cnt n pad lf|le cnt len|le cnt t]; cbn [steps_prim cost_prim]; unfold c_scalar, fixed_cost, c_hdr; try lia.
  - unfold string_cost, c_scalar. lia.
  - apply list_steps_le; [apply width_pos|intro; unfold c_scalar; lia].
  - apply list_steps_le; [lia|intro; unfold fixed_cost, c_hdr; lia].
  - apply list_steps_le; [lia|intro; unfold string_cost, c_scalar; lia].
Qed.

Section Le.
  Variable tables : list (N * table).
  Variable sdec : N -> list byte -> res (list value * list byte).
  Variable srec crec : N -> (list byte -> N).
  Variable sz : N -> N.
  Hypothesis Hrec : forall t buf, srec t buf <= crec t buf.

  Lemma obj_steps_le t buf : obj_steps srec sz t buf <= obj_cost crec sz t buf.
  Proof. unfold obj_steps, obj_cost. pose proof (Hrec t buf). lia. Qed.

  Lemma steps_kind_le done k buf : steps_kind tables sdec srec sz done k buf <= cost_kind tables sdec crec sz done k buf.
  Proof.
    destruct k as [p prop|le cnt t|f g prop d]; cbn [steps_kind cost_kind].
    - apply steps_prim_le.
    - apply list_steps_le; [lia|intro; apply obj_steps_le].
    - destruct d as [t|t|tbl key]; try apply obj_steps_le.
      destruct (do kv <- get_field done key; slookup tables tbl kv) as [ty|]; [apply obj_steps_le|unfold c_hdr; lia].
  Qed.

  Lemma steps_fields_le ks : forall done buf, steps_fields tables sdec srec sz done ks buf <= cost_fields tables sdec crec sz done ks buf.
  Proof.
    induction ks as [|k ks IH]; intros done buf; cbn [steps_fields cost_fields]; [lia|].
    pose proof (steps_kind_le done k buf). destruct (parse_kind tables sdec done k buf) as [[v r]|]; [specialize (IH (done ++ [v]) r)|unfold c_hdr]; lia.
  Qed.
End Le.

Theorem steps_le_cost tables : forall ss t buf, steps_env tables ss t buf <= cost_env tables ss t buf.
Proof.
  induction ss as [|sd rest IH]; intros t buf; cbn [steps_env cost_env]; [lia|].
  destruct (sd_id sd =? t); [|apply IH]. rewrite cost_schema_kinds. apply steps_fields_le. exact IH.
Qed.

Corollary steps_bound tables ss t buf B : decode_cost tables ss t buf <= B -> steps_env tables ss t buf <= B.
Proof. intro H. eapply N.le_trans; [apply steps_le_cost|exact H]. Qed.
