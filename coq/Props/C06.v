(* Props/C06.v — encoding depends only on the message: append-only, context-free, sequences
   concatenate.  Statements only; proofs are [exact]. *)
From FP.Props Require Import Common.
From FP.Theory Require Import Append.
Local Open Scope N_scope.

(* For every recognised type (all of them: H_infer), every well-typed message and every buffer content:
   Encode leaves the bytes already there untouched and appends exactly what it appends to an empty
   buffer -- and to any other buffer.  (Bytes already consumed are not part of the modelled buffer:
   no primitive can reach them; the correspondence check exercises partly consumed buffers.) *)
Theorem C06_append_only_context_free : forall t fs buf fs' buf',
  typed t fs = true -> encode t fs buf = Ok (fs', buf') ->
  exists bs, buf' = buf ++ bs /\ encode t fs [] = Ok (fs', bs) /\ forall b2, encode t fs b2 = Ok (fs', b2 ++ bs).
Proof. exact (append_only encode senc typed encode_spec). Qed.

(* whether Encode fails, and how, does not depend on the buffer either *)
Theorem C06_failure_context_free : forall t fs b1 b2 f,
  typed t fs = true -> encode t fs b1 = Fail f -> encode t fs b2 = Fail f.
Proof. exact (failure_context_free encode senc typed encode_spec). Qed.

(* any sequence of messages encoded into one buffer is the concatenation of their individual encodings *)
Theorem C06_sequences_concatenate : forall ms buf rs out,
  forallb (fun m => typed (fst m) (snd m)) ms = true ->
  enc_all encode ms buf = Ok (rs, out) ->
  exists bss, alone_all encode ms = Ok (rs, bss) /\ out = buf ++ concat bss.
Proof. exact (sequence_concat encode senc typed encode_spec). Qed.

(* non-vacuity: a concrete SSE frame with a Logon body is well typed and encodes *)
Definition ex_frame : list value :=
  [VInt 40; VInt 7; VInt 999; VObj id_sse_bin_Logon (zero_value id_sse_bin_Logon); VInt 5].
Example C06_nonvacuous :
  typed id_sse_bin_SseBinary ex_frame = true /\
  match encode id_sse_bin_SseBinary ex_frame [x01; x02] with Ok (_, b) => (8 <? lenN b) | Fail _ => false end = true.
Proof. vm_compute. split; reflexivity. Qed.

Print Assumptions C06_append_only_context_free.
Print Assumptions C06_failure_context_free.
Print Assumptions C06_sequences_concatenate.
