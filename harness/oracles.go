package main

func runOracles(args []string) {}
