(* driver/main.ml — evaluates the extracted model on case lines and prints canonical results.
   Hand-written glue (trusted): text <-> extracted datatypes.  One case per input line:
     id \t OP \t args...        ->      id \t status [\t payload...]
   OP:  WP prim value | RP prim hex | CK alg hex | E tid value hex | D tid value hex | Z tid | RG calls | BF arrayhex k bufferops *)
module M = Model

(* ---------- numbers ---------- *)
let rec pos_of_bits (bits : bool list) (acc : M.positive) : M.positive =
  match bits with [] -> acc | b :: r -> pos_of_bits r (if b then M.XI acc else M.XO acc)

(* hex string (no prefix) -> N *)
let n_of_hex (s : string) : M.n =
  let bits = ref [] in
  String.iter (fun c ->
    let d = match c with
      | '0'..'9' -> Char.code c - 48 | 'a'..'f' -> Char.code c - 87 | 'A'..'F' -> Char.code c - 55
      | _ -> failwith ("bad hex digit in " ^ s) in
    bits := (d land 1 <> 0) :: (d land 2 <> 0) :: (d land 4 <> 0) :: (d land 8 <> 0) :: !bits) s;
  (* !bits is LSB first; we need MSB first, skipping leading zeros *)
  let msb = List.rev !bits in
  let rec skip = function false :: r -> skip r | l -> l in
  match skip msb with
  | [] -> M.N0
  | _ :: r -> M.Npos (pos_of_bits r M.XH)

let n_of_int (i : int) : M.n = n_of_hex (Printf.sprintf "%x" i)

let hex_of_n (n : M.n) : string =
  match n with
  | M.N0 -> "0"
  | M.Npos p ->
    (* collect bits LSB first *)
    let rec bits p acc = match p with
      | M.XH -> true :: acc | M.XO q -> bits q (false :: acc) | M.XI q -> bits q (true :: acc) in
    (* bits p [] gives MSB first *)
    let msb = bits p [] in
    let len = List.length msb in
    let pad = (4 - len mod 4) mod 4 in
    let all = List.init pad (fun _ -> false) @ msb in
    let buf = Buffer.create 16 in
    let rec go = function
      | a :: b :: c :: d :: r ->
        let v = (if a then 8 else 0) + (if b then 4 else 0) + (if c then 2 else 0) + (if d then 1 else 0) in
        Buffer.add_char buf "0123456789abcdef".[v]; go r
      | [] -> ()
      | _ -> assert false in
    go all; Buffer.contents buf

let rec int_of_pos = function M.XH -> 1 | M.XO p -> 2 * int_of_pos p | M.XI p -> 2 * int_of_pos p + 1
let int_of_n = function M.N0 -> 0 | M.Npos p -> int_of_pos p

let rec nat_of_int (i : int) : M.nat = if i <= 0 then M.O else M.S (nat_of_int (i - 1))
let rec int_of_nat = function M.O -> 0 | M.S n -> 1 + int_of_nat n

(* ---------- bytes ---------- *)
let byte_tab : M.byte array = Array.init 256 (fun i -> M.n2b (n_of_int i))
let int_of_byte (b : M.byte) : int = int_of_n (M.b2n b)
(* reverse table through a hashtable on the physical constructor *)
let byte_rev : (M.byte, int) Hashtbl.t =
  let h = Hashtbl.create 512 in Array.iteri (fun i b -> Hashtbl.replace h b i) byte_tab; h
let () = Array.iteri (fun i b -> assert (int_of_byte b = i)) byte_tab

let bytes_of_hex (s : string) : M.byte list =
  let n = String.length s in
  if n mod 2 <> 0 then failwith "odd hex length";
  let rec go i acc =
    if i < 0 then acc
    else go (i - 2) (byte_tab.(int_of_string ("0x" ^ String.sub s i 2)) :: acc) in
  go (n - 2) []

let hex_of_bytes (l : M.byte list) : string =
  let buf = Buffer.create 64 in
  List.iter (fun b -> Buffer.add_string buf (Printf.sprintf "%02x" (Hashtbl.find byte_rev b))) l;
  Buffer.contents buf

(* ---------- enums ---------- *)
let ity_of_string = function
  | "I8" -> M.I8 | "I16" -> M.I16 | "I32" -> M.I32 | "I64" -> M.I64
  | "U8" -> M.U8 | "U16" -> M.U16 | "U32" -> M.U32 | "U64" -> M.U64
  | "F32" -> M.F32 | "F64" -> M.F64 | s -> failwith ("bad ity " ^ s)
let bool_of_string01 = function "0" -> false | "1" -> true | s -> failwith ("bad bool " ^ s)
let alg_of_string = function
  | "CRC16" -> M.ACrc16 | "CRC32" -> M.ACrc32 | "SSE_BIN" -> M.ASse | "SZSE_BIN" -> M.ASzse
  | s -> failwith ("bad alg " ^ s)

(* prim text: PB:le:ity | PF:n:pad:left | PS:le:len | PBL:le:cnt:elt | PFL:le:cnt:n:pad:left | PSL:le:cnt:len | POL:le:cnt:tid *)
let prim_of_string (s : string) : M.prim =
  match String.split_on_char ':' s with
  | ["PB"; le; t] -> M.PBasic (bool_of_string01 le, ity_of_string t)
  | ["PF"; n; pad; left] -> M.PFixed (nat_of_int (int_of_string n), n_of_int (int_of_string pad), bool_of_string01 left)
  | ["PS"; le; t] -> M.PString (bool_of_string01 le, ity_of_string t)
  | ["PBL"; le; c; e] -> M.PBasicList (bool_of_string01 le, ity_of_string c, ity_of_string e)
  | ["PFL"; le; c; n; pad; left] ->
    M.PFixedList (bool_of_string01 le, ity_of_string c, nat_of_int (int_of_string n), n_of_int (int_of_string pad), bool_of_string01 left)
  | ["PSL"; le; c; l] -> M.PStringList (bool_of_string01 le, ity_of_string c, ity_of_string l)
  | ["POL"; le; c; t] -> M.PObjList (bool_of_string01 le, ity_of_string c, n_of_int (int_of_string t))
  | _ -> failwith ("bad prim " ^ s)

(* ---------- values ----------
   v ::= i HEX | s HEX | I( HEX; HEX; ) | S( HEX; HEX; ) | o DEC ( v v .. ) | O( v v .. ) | n     (space separated inside parens) *)
let parse_value (s : string) : M.value =
  let n = String.length s in
  let pos = ref 0 in
  let peek () = if !pos < n then s.[!pos] else '\000' in
  let skip_ws () = while !pos < n && s.[!pos] = ' ' do incr pos done in
  let is_hex c = (c >= '0' && c <= '9') || (c >= 'a' && c <= 'f') in
  let hex () = let st = !pos in while !pos < n && is_hex s.[!pos] do incr pos done; String.sub s st (!pos - st) in
  let expect c = if peek () <> c then failwith (Printf.sprintf "expected %c at %d in %s" c !pos s); incr pos in
  let semis : 'a. (string -> 'a) -> 'a list = fun f ->
    (* after "(", items each terminated by ';', closed by ")" *)
    let acc = ref [] in
    while peek () <> ')' do
      let h = hex () in expect ';'; acc := f h :: !acc
    done; expect ')'; List.rev !acc in
  let rec value () : M.value =
    skip_ws ();
    match peek () with
    | 'i' -> incr pos; M.VInt (n_of_hex (hex ()))
    | 's' -> incr pos; M.VStr (bytes_of_hex (hex ()))
    | 'I' -> incr pos; expect '('; M.VInts (semis n_of_hex)
    | 'S' -> incr pos; expect '('; M.VStrs (semis bytes_of_hex)
    | 'n' -> incr pos; M.VNil
    | 'o' -> incr pos;
      let st = !pos in while !pos < n && s.[!pos] >= '0' && s.[!pos] <= '9' do incr pos done;
      let tid = int_of_string (String.sub s st (!pos - st)) in
      expect '('; let fs = values () in M.VObj (n_of_int tid, fs)
    | 'O' -> incr pos; expect '('; M.VObjs (values ())
    | c -> failwith (Printf.sprintf "bad value char %c at %d in %s" c !pos s)
  and values () : M.value list =
    skip_ws ();
    if peek () = ')' then (incr pos; []) else let v = value () in v :: values () in
  let v = value () in
  skip_ws ();
  if !pos <> n then failwith ("trailing text in value " ^ s);
  v

let rec print_value (b : Buffer.t) (v : M.value) : unit =
  match v with
  | M.VInt n -> Buffer.add_char b 'i'; Buffer.add_string b (hex_of_n n)
  | M.VStr s -> Buffer.add_char b 's'; Buffer.add_string b (hex_of_bytes s)
  | M.VInts l -> Buffer.add_string b "I("; List.iter (fun n -> Buffer.add_string b (hex_of_n n); Buffer.add_char b ';') l; Buffer.add_char b ')'
  | M.VStrs l -> Buffer.add_string b "S("; List.iter (fun s -> Buffer.add_string b (hex_of_bytes s); Buffer.add_char b ';') l; Buffer.add_char b ')'
  | M.VNil -> Buffer.add_char b 'n'
  | M.VObj (t, fs) -> Buffer.add_char b 'o'; Buffer.add_string b (string_of_int (int_of_n t)); Buffer.add_char b '('; print_values b fs; Buffer.add_char b ')'
  | M.VObjs l -> Buffer.add_string b "O("; print_values b l; Buffer.add_char b ')'
and print_values b l =
  List.iteri (fun i v -> if i > 0 then Buffer.add_char b ' '; print_value b v) l

let string_of_value v = let b = Buffer.create 256 in print_value b v; Buffer.contents b

let fail_string = function
  | M.FErr -> "err" | M.FPanic -> "panic" | M.FFuel -> "fuel" | M.FUnmodelled -> "unmodelled"

let fields_of = function M.VObj (_, fs) -> fs | _ -> failwith "expected an object value"

let parse_op (line : string) (opname : string) (args : string list) : M.op =
  match opname, args with
  | "WP", [p; v] -> M.OWritePrim (prim_of_string p, parse_value v)
  | "RP", [p; h] -> M.OReadPrim (prim_of_string p, bytes_of_hex h)
  | "CK", [a; h] -> M.OCalc (alg_of_string a, bytes_of_hex h)
  | "E", [t; v; h] -> M.OEnc (n_of_int (int_of_string t), fields_of (parse_value v), bytes_of_hex h)
  | "D", [t; v; h] -> M.ODec (n_of_int (int_of_string t), fields_of (parse_value v), bytes_of_hex h)
  | "Z", [t] -> M.OZero (n_of_int (int_of_string t))
  | "RG", [cs] ->
    let num s = n_of_int (int_of_string s) in
    let call tok =
      let rest = String.sub tok 1 (String.length tok - 1) in
      match tok.[0] with
      | 'r' -> (match String.split_on_char ':' rest with
                | [k; v] -> M.CRegistry (num k, num v) | _ -> failwith ("bad registry call " ^ tok))
      | 'b' -> M.CRegistryBad
      | 'g' -> M.CGet (num rest)
      | 'x' -> M.CRemove (num rest)
      | 'c' -> M.CClear
      | _ -> failwith ("bad registry call " ^ tok) in
    M.OReg (List.map call (List.filter (fun t -> t <> "") (String.split_on_char ' ' cs)))
  | "BF", [a; k; ops] ->
    let nat s = nat_of_int (int_of_string s) in
    let bop tok =
      let rest = String.sub tok 1 (String.length tok - 1) in
      match tok.[0], String.split_on_char ':' rest with
      | 'w', [nc; h] -> M.BWrite (nat nc, bytes_of_hex h)
      | 'g', [nc; n] -> M.BGrow (nat nc, nat n)
      | 'n', [k] -> M.BNext (nat k)
      | 'r', [k] -> M.BRead (nat k)
      | 'f', [k] -> M.BReadFull (nat k)
      | 'z', _ -> M.BReset
      | 'b', _ -> M.BBytes
      | 'p', [i; p; h] -> M.BPoke (nat i, nat p, bytes_of_hex h)
      | _ -> failwith ("bad buffer op " ^ tok) in
    M.OBuf (bytes_of_hex a, nat k, List.map bop (List.filter (fun t -> t <> "") (String.split_on_char ' ' ops)))
  | _ -> failwith ("bad case line: " ^ line)


(* ---------- Coq syntax of operations and results (for the in-Coq cross-check of the extraction) ---------- *)
let coq_n (n : M.n) : string = "0x" ^ hex_of_n n ^ "%N"      (* 64-bit values do not fit an OCaml int *)
let coq_nat (n : M.nat) : string = Printf.sprintf "%d%%nat" (int_of_nat n)
let coq_bool b = if b then "true" else "false"
let coq_list (f : 'a -> string) (l : 'a list) : string = "[" ^ String.concat "; " (List.map f l) ^ "]"
let coq_byte (b : M.byte) : string = Printf.sprintf "x%02x" (Hashtbl.find byte_rev b)
let coq_bytes l = coq_list coq_byte l
let coq_ity = function
  | M.I8 -> "I8" | M.I16 -> "I16" | M.I32 -> "I32" | M.I64 -> "I64" | M.U8 -> "U8" | M.U16 -> "U16"
  | M.U32 -> "U32" | M.U64 -> "U64" | M.F32 -> "F32" | M.F64 -> "F64"
let coq_alg = function M.ACrc16 -> "ACrc16" | M.ACrc32 -> "ACrc32" | M.ASse -> "ASse" | M.ASzse -> "ASzse"
let coq_prim = function
  | M.PBasic (le, t) -> Printf.sprintf "(PBasic %s %s)" (coq_bool le) (coq_ity t)
  | M.PFixed (n, pad, left) -> Printf.sprintf "(PFixed %s %s %s)" (coq_nat n) (coq_n pad) (coq_bool left)
  | M.PString (le, t) -> Printf.sprintf "(PString %s %s)" (coq_bool le) (coq_ity t)
  | M.PBasicList (le, c, e) -> Printf.sprintf "(PBasicList %s %s %s)" (coq_bool le) (coq_ity c) (coq_ity e)
  | M.PFixedList (le, c, n, pad, left) ->
    Printf.sprintf "(PFixedList %s %s %s %s %s)" (coq_bool le) (coq_ity c) (coq_nat n) (coq_n pad) (coq_bool left)
  | M.PStringList (le, c, l) -> Printf.sprintf "(PStringList %s %s %s)" (coq_bool le) (coq_ity c) (coq_ity l)
  | M.PObjList (le, c, t) -> Printf.sprintf "(PObjList %s %s %s)" (coq_bool le) (coq_ity c) (coq_n t)
let rec coq_value = function
  | M.VInt n -> "(VInt " ^ coq_n n ^ ")"
  | M.VStr s -> "(VStr " ^ coq_bytes s ^ ")"
  | M.VInts l -> "(VInts " ^ coq_list coq_n l ^ ")"
  | M.VStrs l -> "(VStrs " ^ coq_list coq_bytes l ^ ")"
  | M.VObj (t, fs) -> "(VObj " ^ coq_n t ^ " " ^ coq_list coq_value fs ^ ")"
  | M.VObjs l -> "(VObjs " ^ coq_list coq_value l ^ ")"
  | M.VNil -> "VNil"
let coq_fail = function M.FErr -> "FErr" | M.FPanic -> "FPanic" | M.FFuel -> "FFuel" | M.FUnmodelled -> "FUnmodelled"
let coq_res (f : 'a -> string) = function M.Ok x -> "(Ok " ^ f x ^ ")" | M.Fail e -> "(Fail " ^ coq_fail e ^ ")"
let coq_call = function
  | M.CRegistry (k, v) -> Printf.sprintf "(Locks.CRegistry %s %s)" (coq_n k) (coq_n v)
  | M.CRegistryBad -> "Locks.CRegistryBad"
  | M.CGet k -> "(Locks.CGet " ^ coq_n k ^ ")"
  | M.CRemove k -> "(Locks.CRemove " ^ coq_n k ^ ")"
  | M.CClear -> "Locks.CClear"
let coq_ret = function
  | M.RBool b -> "(Locks.RBool " ^ coq_bool b ^ ")"
  | M.RVal (Some v) -> "(Locks.RVal (Some " ^ coq_n v ^ "))"
  | M.RVal None -> "(Locks.RVal None)"
  | M.RUnit -> "Locks.RUnit"
let coq_bop = function
  | M.BWrite (nc, bs) -> Printf.sprintf "(Buffer.BWrite %s %s)" (coq_nat nc) (coq_bytes bs)
  | M.BGrow (nc, n) -> Printf.sprintf "(Buffer.BGrow %s %s)" (coq_nat nc) (coq_nat n)
  | M.BNext k -> "(Buffer.BNext " ^ coq_nat k ^ ")"
  | M.BRead k -> "(Buffer.BRead " ^ coq_nat k ^ ")"
  | M.BReadFull k -> "(Buffer.BReadFull " ^ coq_nat k ^ ")"
  | M.BReset -> "Buffer.BReset"
  | M.BBytes -> "Buffer.BBytes"
  | M.BPoke (i, p, bs) -> Printf.sprintf "(Buffer.BPoke %s %s %s)" (coq_nat i) (coq_nat p) (coq_bytes bs)
let coq_op = function
  | M.OWritePrim (p, v) -> Printf.sprintf "(OWritePrim %s %s)" (coq_prim p) (coq_value v)
  | M.OReadPrim (p, b) -> Printf.sprintf "(OReadPrim %s %s)" (coq_prim p) (coq_bytes b)
  | M.OCalc (a, b) -> Printf.sprintf "(OCalc %s %s)" (coq_alg a) (coq_bytes b)
  | M.OEnc (t, fs, b) -> Printf.sprintf "(OEnc %s %s %s)" (coq_n t) (coq_list coq_value fs) (coq_bytes b)
  | M.ODec (t, fs, b) -> Printf.sprintf "(ODec %s %s %s)" (coq_n t) (coq_list coq_value fs) (coq_bytes b)
  | M.OZero t -> "(OZero " ^ coq_n t ^ ")"
  | M.OReg cs -> "(OReg " ^ coq_list coq_call cs ^ ")"
  | M.OBuf (a, k, os) -> Printf.sprintf "(OBuf %s %s %s)" (coq_bytes a) (coq_nat k) (coq_list coq_bop os)
let coq_pair f g (a, b) = "(" ^ f a ^ ", " ^ g b ^ ")"
let coq_out = function
  | M.RBytes r -> "(RBytes " ^ coq_res coq_bytes r ^ ")"
  | M.RValue r -> "(RValue " ^ coq_res (coq_pair coq_value coq_bytes) r ^ ")"
  | M.RNum n -> "(RNum " ^ coq_n n ^ ")"
  | M.RMsg r -> "(RMsg " ^ coq_res (coq_pair (coq_list coq_value) coq_bytes) r ^ ")"
  | M.RZero None -> "(RZero None)"
  | M.RZero (Some fs) -> "(RZero (Some " ^ coq_list coq_value fs ^ "))"
  | M.RRets l -> "(RRets " ^ coq_list coq_ret l ^ ")"
  | M.RBuf l ->
    "(RBuf " ^ coq_list (function
      | None -> "None"
      | Some ((c, cp), sls) -> "(Some (" ^ coq_bytes c ^ ", " ^ coq_nat cp ^ ", " ^ coq_list coq_bytes sls ^ "))") l ^ ")"

let run_line (line : string) : string =
  match String.split_on_char '\t' line with
  | [id; "DC"; t; h] -> id ^ "\tok\t" ^ hex_of_n (M.gen_decode_cost (n_of_int (int_of_string t)) (bytes_of_hex h))
  | id :: opname :: args ->
    let o = parse_op line opname args in
    let tid = match o with M.OEnc (t, _, _) | M.ODec (t, _, _) | M.OZero t -> t | _ -> M.N0 in
    let payload = match M.run_op M.gen_world o with
      | M.RBytes (M.Ok bs) -> "ok\t" ^ hex_of_bytes bs
      | M.RBytes (M.Fail f) -> fail_string f
      | M.RValue (M.Ok (v, rest)) -> "ok\t" ^ string_of_value v ^ "\t" ^ hex_of_bytes rest
      | M.RValue (M.Fail f) -> fail_string f
      | M.RNum n -> "ok\t" ^ hex_of_n n ^ "\tkept"      (* a checksum service only reads its buffer *)
      | M.RMsg (M.Ok (fs, buf)) -> "ok\t" ^ string_of_value (M.VObj (tid, fs)) ^ "\t" ^ hex_of_bytes buf
      | M.RMsg (M.Fail f) -> fail_string f
      | M.RZero (Some fs) -> "ok\t" ^ string_of_value (M.VObj (tid, fs))
      | M.RZero None -> "unmodelled"
      | M.RRets l ->
        "ok\t" ^ String.concat " " (List.map (function
          | M.RBool true -> "t" | M.RBool false -> "f"
          | M.RVal (Some v) -> "v" ^ string_of_int (int_of_n v) | M.RVal None -> "n"
          | M.RUnit -> "u") l)
      | M.RBuf l ->
        "ok\t" ^ String.concat " " (List.map (function
          | None -> "capacity-too-small"
          | Some ((c, cp), sls) ->
            hex_of_bytes c ^ "," ^ string_of_int (int_of_nat cp) ^ "," ^ String.concat "|" (List.map hex_of_bytes sls)) l) in
    id ^ "\t" ^ payload
  | _ -> failwith ("bad case line: " ^ line)

(* run -coq <cases> <out.v> <max> <header file>: the first <max> cases (short lines only) as Coq terms together with the
   results THIS program computed for them, and a lemma that the kernel's evaluation of run_op gives the same *)
let emit_coq cases outv maxn header =
  let total = ref 0 in
  (let ic = open_in cases in (try while true do ignore (input_line ic); incr total done with End_of_file -> ()); close_in ic);
  let stride = max 1 (!total / (max 1 maxn)) in
  let ic = open_in cases in
  let oc = open_out outv in
  let hd = open_in header in
  (try while true do output_string oc (input_line hd); output_char oc '\n' done with End_of_file -> ());
  close_in hd;
  let n = ref 0 and k = ref 0 in
  let items = ref [] in
  (try
     while !n < maxn do
       let line = input_line ic in
       incr k;
       (* every stride-th case, and only short ones (a long byte list costs the Coq parser more than the evaluation) *)
       if (!k mod stride = 0 || String.length line < 1) && line <> "" && String.length line < 1500 then begin
         match String.split_on_char '\t' line with
         | _ :: "DC" :: _ -> ()
         | _ :: opname :: args ->
           (try
              let o = parse_op line opname args in
              let r = M.run_op M.gen_world o in
              items := ("  (" ^ coq_op o ^ ",\n   " ^ coq_out r ^ ")") :: !items; incr n
            with Stack_overflow | Failure _ -> ())
         | _ -> ()
       end
     done
   with End_of_file -> ());
  close_in ic;
  output_string oc "Definition cases : list (op * out) := [\n";
  output_string oc (String.concat ";\n" (List.rev !items));
  output_string oc "\n].\n";
  output_string oc "Lemma extraction_agrees : map (fun c => run_op gen_world (fst c)) cases = map snd cases.\nProof. vm_compute. reflexivity. Qed.\n";
  output_string oc (Printf.sprintf "(* %d cases *)\n" !n);
  close_out oc;
  Printf.printf "%d\n" !n

let () =
  if Array.length Sys.argv > 5 && Sys.argv.(1) = "-coq" then begin
    emit_coq Sys.argv.(2) Sys.argv.(3) (int_of_string Sys.argv.(4)) Sys.argv.(5); exit 0
  end;
  let ic = if Array.length Sys.argv > 1 then open_in Sys.argv.(1) else stdin in
  let oc = if Array.length Sys.argv > 2 then open_out Sys.argv.(2) else stdout in
  (try
     while true do
       let line = input_line ic in
       if line <> "" then begin
         let r = try run_line line with
           | Stack_overflow -> (List.hd (String.split_on_char '\t' line)) ^ "\tdriver-stack-overflow"
           | Failure m -> (List.hd (String.split_on_char '\t' line)) ^ "\tdriver-error " ^ m in
         output_string oc r; output_char oc '\n'
       end
     done
   with End_of_file -> ());
  close_out oc
