(* Extract/Driver.v — the operations the correspondence driver evaluates on the model.
   Only dispatch: every operation is a direct call of a model function. *)
From FP.Model Require Import Sem.
From FP.Model Require Locks.
From FP.Model Require Buffer.
Local Open Scope N_scope.

Inductive op :=
 | OWritePrim (p : prim) (v : value)
 | OReadPrim (p : prim) (buf : list byte)
 | OCalc (a : alg) (buf : list byte)
 | OEnc (t : N) (fs : list value) (buf : list byte)
 | ODec (t : N) (fs : list value) (buf : list byte)
 | OZero (t : N)
 | OReg (cs : list Locks.call)
 | OBuf (a : list byte) (k : nat) (os : list Buffer.bop).

Inductive out :=
 | RBytes (r : res (list byte))
 | RValue (r : res (value * list byte))
 | RNum (n : N)
 | RMsg (r : res (list value * list byte))
 | RZero (o : option (list value))
 | RRets (l : list Locks.ret)
 | RBuf (l : list (option (list byte * nat * list (list byte)))).

(* a sequence of registry calls against the atomic map, from the empty registry *)
Fixpoint run_seq (cs : list Locks.call) (m : Locks.kvmap) : list Locks.ret :=
  match cs with
  | [] => []
  | c :: r => let (m', x) := Locks.seq c m in x :: run_seq r m'
  end.

Definition run_op (w : world) (o : op) : out :=
  match o with
  | OWritePrim p v => RBytes (w_prim p v)
  | OReadPrim p buf => RValue (r_prim p buf)
  | OCalc a buf => RNum (calc a buf)
  | OEnc t fs buf => RMsg (run_enc w t fs buf)
  | ODec t fs buf => RMsg (run_dec w t fs buf)
  | OZero t => RZero (zero w t)
  | OReg cs => RRets (run_seq cs Locks.empty)
  | OBuf a k os => RBuf (Buffer.brun (Buffer.new_buffer a k) os)
  end.
