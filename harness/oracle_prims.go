package main

// oracle_prims.go — direct oracles for the codec-level properties C13, C14 (and the primitive
// halves of C03, C18).

import (
	"bytes"
	"encoding/hex"
	"fmt"

	"github.com/xinchentechnote/fin-proto-go/codec"
)

// ---------- independent reference checksums ----------
var crc32Tab = func() (t [256]uint32) {
	for i := 0; i < 256; i++ {
		c := uint32(i)
		for k := 0; k < 8; k++ {
			if c&1 != 0 {
				c = (c >> 1) ^ 0xEDB88320
			} else {
				c >>= 1
			}
		}
		t[i] = c
	}
	return
}()
var crc16Tab = func() (t [256]uint16) {
	for i := 0; i < 256; i++ {
		c := uint16(i)
		for k := 0; k < 8; k++ {
			if c&1 != 0 {
				c = (c >> 1) ^ 0xA001
			} else {
				c >>= 1
			}
		}
		t[i] = c
	}
	return
}()

func refCRC32(b []byte) uint64 {
	c := uint32(0xFFFFFFFF)
	for _, x := range b {
		c = crc32Tab[byte(c)^x] ^ (c >> 8)
	}
	return uint64(c ^ 0xFFFFFFFF)
}
func refCRC16(b []byte) uint64 {
	c := uint16(0xFFFF)
	for _, x := range b {
		c = crc16Tab[byte(c)^x] ^ (c >> 8)
	}
	return uint64(c)
}
func refSum(b []byte) uint64 {
	var s uint64
	for _, x := range b {
		s += uint64(x)
	}
	return s % 256
}
func refAlg(name string, b []byte) uint64 {
	switch name {
	case "CRC16":
		return refCRC16(b)
	case "CRC32":
		return refCRC32(b)
	case "SSE_BIN", "SZSE_BIN":
		return refSum(b)
	}
	panic("refAlg " + name)
}

func short(b []byte) string {
	if len(b) <= 64 {
		return hex.EncodeToString(b)
	}
	return fmt.Sprintf("%s...(%d bytes; first 64 shown)", hex.EncodeToString(b[:64]), len(b))
}

func describeInput(kind string, n int, fill string) string { return fmt.Sprintf("%s len=%d fill=%s", kind, n, fill) }

func init() { oracleTable["C14"] = oracleC14 }

func oracleC14(rep *report, r *rng) {
	rep.Rule = "four services x (all strings of <=1 byte, sampled/all 2-byte strings, lengths 3..64KiB random / 0xFF / high-bit, periodic inputs > 1 KiB (all 0x00/0xFF arrangements of periods 2,4,8; random periods), buffers with five histories, 8.5MiB and 32MiB in thorough); checks: result equals independent reference, buffer untouched, repeatable, unread-part only; distinct = distinct (alg,input) pairs"
	check := func(name string, data []byte, desc string) {
		if rep.failed() {
			return
		}
		rep.eval("calc/"+name, name+desc+short(data))
		svc, ok := codec.Get(name)
		if !ok {
			rep.fail(failure{Oracle: "calc", Type: name, What: "service not registered", Input: map[string]any{"alg": name}})
			return
		}
		_ = svc
		want := refAlg(name, data)
		// call through a buffer with consumed prefix: only the unread part counts
		junk := []byte{0xAA, 0x55, 0xFF}
		buf := mkBuffer(junk, data, 8)
		before := append([]byte{}, buf.Bytes()...)
		var got uint64
		var okc bool
		watch("Calc "+name, map[string]any{"alg": name, "input": desc})
		func() {
			defer func() {
				if e := recover(); e != nil {
					okc = false
					rep.fail(failure{Oracle: "calc", Type: name, What: fmt.Sprintf("Calc panicked: %v", e), Input: map[string]any{"alg": name, "input_desc": desc, "input_hex": short(data)}})
				}
			}()
			got, okc = calcOn(name, buf)
		}()
		unwatch()
		if !okc {
			return
		}
		in := map[string]any{"alg": name, "input_desc": desc, "input_hex": short(data), "len": len(data)}
		if name == "SZSE_BIN" {
			// int32 result: must be in 0..255 as a signed number
			if int32(uint32(got)) < 0 || int32(uint32(got)) > 255 {
				rep.fail(failure{Oracle: "calc-range", Type: name, What: fmt.Sprintf("result %d outside 0..255", int32(uint32(got))), Input: in})
				return
			}
		}
		if got != want {
			rep.fail(failure{Oracle: "calc-value", Type: name, What: fmt.Sprintf("got %#x want %#x", got, want), Input: in})
			return
		}
		if buf.Len() != len(data) || !bytes.Equal(buf.Bytes(), before) {
			rep.fail(failure{Oracle: "calc-consumes", Type: name, What: fmt.Sprintf("buffer changed by Calc: len %d -> %d", len(data), buf.Len()), Input: in})
			return
		}
		got2, _ := calcOn(name, buf)
		if got2 != got {
			rep.fail(failure{Oracle: "calc-repeat", Type: name, What: fmt.Sprintf("second call on the same buffer gave %#x, first %#x", got2, got), Input: in})
			return
		}
		// the same bytes in buffers with other histories (stale bytes beyond the end, reset and rewritten, truncated)
		hs := calcHistories[1:]
		if len(data) > 64 {
			hs = hs[rep.Evaluations%len(hs) : rep.Evaluations%len(hs)+1]
		}
		for _, h := range hs {
			hb := calcBuffer(data, h)
			if got3, ok3 := calcOn(name, hb); ok3 && got3 != want {
				in["buffer_history"] = h
				rep.fail(failure{Oracle: "calc-history", Type: name, What: fmt.Sprintf("the same bytes in a buffer that is %s give %#x, reference %#x", h, got3, want), Input: in})
				return
			}
		}
	}
	for _, a := range algNames {
		check(a, nil, "empty")
		check(a, []byte("123456789"), "check")
		for b := 0; b < 256; b++ {
			check(a, []byte{byte(b)}, "1byte")
		}
		step := 7
		if rep.thorough {
			step = 1
		}
		for x := 0; x < 65536; x += step {
			check(a, []byte{byte(x >> 8), byte(x)}, "2byte")
		}
		if rep.thorough {
			for x := 0; x < 1<<24; x += 5 {
				check(a, []byte{byte(x >> 16), byte(x >> 8), byte(x)}, "3byte")
			}
		}
		lens := []int{3, 4, 7, 8, 9, 15, 16, 17, 63, 64, 65, 127, 128, 129, 255, 256, 257, 511, 512, 1000, 1024, 1031, 1032, 1033, 2047, 2048, 2049, 4096, 8191, 8192, 16384, 32768, 65535, 65536}
		for _, n := range lens {
			check(a, r.bytes(n), describeInput("random", n, "rand"))
			check(a, bytes.Repeat([]byte{0xff}, n), describeInput("fill", n, "ff"))
			check(a, bytes.Repeat([]byte{0x80}, n), describeInput("fill", n, "80"))
			hi := r.bytes(n)
			for i := range hi {
				hi[i] |= 0x80
			}
			check(a, hi, describeInput("random-high", n, "rand|80"))
			lo := r.bytes(n)
			for i := range lo {
				lo[i] &= 0x7f
			}
			check(a, lo, describeInput("random-ascii", n, "rand&7f"))
		}
		// periodic inputs: every all-ones/zero arrangement of a period of up to 8 bytes, and random 2/4/8/16-byte periods,
		// longer than 1 KiB (what word-at-a-time summing with packed lanes gets wrong needs uneven lanes and length)
		for _, period := range []int{2, 4, 8} {
			for mask := 0; mask < 1<<uint(period); mask++ {
				pat := make([]byte, period)
				for i := range pat {
					if mask>>uint(i)&1 == 1 {
						pat[i] = 0xff
					}
				}
				for _, n := range []int{1040, 4099} {
					check(a, bytes.Repeat(pat, n/period+1)[:n], fmt.Sprintf("periodic-%d-mask-%x-len-%d", period, mask, n))
				}
			}
		}
		for k := 0; k < 40; k++ {
			period := []int{2, 4, 8, 16}[r.intn(4)]
			pat := make([]byte, period)
			for i := range pat {
				switch r.intn(3) {
				case 0:
					pat[i] = byte(0x80 + r.intn(0x80))
				case 1:
					pat[i] = byte(r.intn(0x20))
				default:
					pat[i] = byte(r.intn(256))
				}
			}
			n := 1032 + r.intn(8000)
			check(a, bytes.Repeat(pat, n/period+1)[:n], fmt.Sprintf("periodic-%d-%x-len-%d", period, pat, n))
		}
		big := []int{1 << 20}
		if rep.thorough {
			big = append(big, 8421505, 8421504+4096, 32<<20)
		} else {
			big = append(big, 8421505)
		}
		for _, n := range big {
			check(a, bytes.Repeat([]byte{0xff}, n), describeInput("fill", n, "ff"))
		}
	}
	rep.sample("CRC32(\"123456789\") ref=" + fmt.Sprintf("%#x", refCRC32([]byte("123456789"))))
	rep.sample("SZSE_BIN(0xff x 8421505) ref=" + fmt.Sprint(refSum(bytes.Repeat([]byte{0xff}, 8421505))))
}

func calcOn(name string, buf *bytes.Buffer) (uint64, bool) {
	svc, ok := codec.Get(name)
	if !ok {
		return 0, false
	}
	switch s := svc.(type) {
	case codec.ChecksumService[*bytes.Buffer, uint16]:
		return uint64(s.Calc(buf)), true
	case codec.ChecksumService[*bytes.Buffer, uint32]:
		return uint64(s.Calc(buf)), true
	case codec.ChecksumService[*bytes.Buffer, int32]:
		return uint64(uint32(s.Calc(buf))), true
	}
	return 0, false
}

// ---------- C13: fixed-width text ----------
func specWriteFixed(s []byte, n int, pad byte, left bool) []byte {
	if len(s) >= n {
		return append([]byte{}, s[:n]...)
	}
	p := bytes.Repeat([]byte{pad}, n-len(s))
	if left {
		return append(p, s...)
	}
	return append(append([]byte{}, s...), p...)
}
func specReadFixed(x []byte, pad byte, left bool) []byte {
	x = append([]byte{}, x...)
	if left {
		for len(x) > 0 && x[0] == pad {
			x = x[1:]
		}
		return x
	}
	for len(x) > 0 && x[len(x)-1] == pad {
		x = x[:len(x)-1]
	}
	return x
}

func init() { oracleTable["C13"] = oracleC13 }

func oracleC13(rep *report, r *rng) {
	rep.Rule = "WriteFixedString[WithPadding] / ReadFixedString[TrimPadding] and their list forms x widths 0..40 and 64..1025 (around multiples of 256) x all 256 pad bytes (and runes above 255) x both sides x texts (empty, short, exact, over-long, all-pad, pad inside / other side, NUL, >=0x80, split UTF-8); compared with an independent 10-line specification; distinct = distinct (width,pad,side,text)"
	widths := []int{0, 1, 2, 3, 4, 5, 6, 7, 8, 10, 12, 16, 20, 32, 40, 64, 200, 255, 256, 257, 300, 512, 513, 1000, 1025}
	oneW := func(n int, pad int, left bool, s []byte, def bool) {
		if rep.failed() {
			return
		}
		p := primSpec{Kind: "fixed", N: n, Pad: pad, Left: left, Default: def}
		key := fmt.Sprintf("w%d/%d/%v/%x", n, pad, left, s)
		rep.eval("write", key)
		buf := bytes.NewBuffer([]byte{0x7e})
		var err error
		in := map[string]any{"helper": "WriteFixedStringWithPadding", "width": n, "pad": pad, "left": left, "text_hex": hex.EncodeToString(s)}
		pan := false
		func() {
			defer func() {
				if e := recover(); e != nil {
					pan = true
					rep.fail(failure{Oracle: "fixed-write", What: fmt.Sprintf("panic: %v", e), Input: in})
				}
			}()
			err = wFixed(p, string(s), buf)
		}()
		if pan {
			return
		}
		if err != nil {
			rep.fail(failure{Oracle: "fixed-write", What: "returned error " + err.Error(), Input: in})
			return
		}
		got := buf.Bytes()[1:]
		want := specWriteFixed(s, n, byte(pad), left)
		if buf.Bytes()[0] != 0x7e || !bytes.Equal(got, want) {
			rep.fail(failure{Oracle: "fixed-write", What: fmt.Sprintf("emitted %x want %x", got, want), Input: in})
		}
	}
	oneR := func(n int, pad int, left bool, x []byte, def bool) {
		if rep.failed() {
			return
		}
		p := primSpec{Kind: "fixed", N: n, Pad: pad, Left: left, Default: def}
		key := fmt.Sprintf("r%d/%d/%v/%x", n, pad, left, x)
		rep.eval("read", key)
		tail := []byte{byte(pad), 0x41}
		buf := bytes.NewBuffer(append(append([]byte{}, x...), tail...))
		in := map[string]any{"helper": "ReadFixedStringTrimPadding", "width": n, "pad": pad, "left": left, "field_hex": hex.EncodeToString(x)}
		var got string
		var err error
		pan := false
		func() {
			defer func() {
				if e := recover(); e != nil {
					pan = true
					rep.fail(failure{Oracle: "fixed-read", What: fmt.Sprintf("panic: %v", e), Input: in})
				}
			}()
			got, err = rFixed(p, buf)
		}()
		if pan {
			return
		}
		if err != nil {
			rep.fail(failure{Oracle: "fixed-read", What: "returned error " + err.Error(), Input: in})
			return
		}
		want := specReadFixed(x, byte(pad), left)
		if got != string(want) {
			rep.fail(failure{Oracle: "fixed-read", What: fmt.Sprintf("returned %x want %x", got, want), Input: in})
			return
		}
		if !bytes.Equal(buf.Bytes(), tail) {
			rep.fail(failure{Oracle: "fixed-read", What: fmt.Sprintf("consumed other than %d bytes: rest %x", n, buf.Bytes()), Input: in})
		}
	}
	texts := func(n int, pad byte) [][]byte {
		out := [][]byte{{}, bytes.Repeat([]byte{pad}, n), bytes.Repeat([]byte{pad}, n+2)}
		for k := 0; k < 6; k++ {
			out = append(out, []byte(r.textWithPad(r.intn(n+5), pad)))
		}
		// multi-byte runes straddling the cut, GBK-like high bytes, NUL inside
		if n >= 1 {
			s := append(bytes.Repeat([]byte{'a'}, n-1), 0xe4, 0xb8, 0xad)
			out = append(out, s)
			out = append(out, append(bytes.Repeat([]byte{0xa1}, n+1), 0xa1))
			out = append(out, append([]byte{'A', 0, 'B'}, bytes.Repeat([]byte{0}, n)...))
		}
		if n >= 3 {
			mid := append([]byte{'x', pad, pad}, bytes.Repeat([]byte{'y'}, n-3)...)
			out = append(out, mid)
		}
		return out
	}
	fields := func(n int, pad byte) [][]byte {
		out := [][]byte{bytes.Repeat([]byte{pad}, n)}
		for k := 0; k < 6; k++ {
			x := []byte(r.textWithPad(n, pad))
			for i := range x {
				if r.chance(1, 3) {
					x[i] = pad
				}
			}
			out = append(out, x)
		}
		if n >= 3 {
			x := bytes.Repeat([]byte{pad}, n)
			x[n/2] = 'q'
			out = append(out, x)
			y := bytes.Repeat([]byte{'z'}, n)
			y[0], y[n-1] = pad, pad
			out = append(out, y)
			z := bytes.Repeat([]byte{'z'}, n)
			z[n/2] = pad
			out = append(out, z)
			u := append([]byte{0x61, 0xc3, 0xa9}, bytes.Repeat([]byte{pad}, n-3)...)
			out = append(out, u)
			v := append([]byte{0xbc, 0xdb, 0xb8}, bytes.Repeat([]byte{pad}, n-3)...)
			out = append(out, v)
			nul := append([]byte{'A', 'B', 0}, bytes.Repeat([]byte{'C'}, n-3)...)
			out = append(out, nul)
		}
		return out
	}
	for pad := 0; pad < 256; pad++ {
		for _, left := range []bool{false, true} {
			ws := widths
			if !rep.thorough {
				ws = []int{0, 1, widths[2+r.intn(len(widths)-2)], widths[2+r.intn(len(widths)-2)]}
				if pad == 32 || pad == 48 || pad == 0 {
					ws = widths
				}
			}
			for _, n := range ws {
				for _, s := range texts(n, byte(pad)) {
					oneW(n, pad, left, s, pad == 32 && !left && r.chance(1, 2))
				}
				for _, x := range fields(n, byte(pad)) {
					oneR(n, pad, left, x, pad == 32 && !left && r.chance(1, 2))
				}
			}
		}
	}
	for _, pad := range []int{0x100 + 'x', 0x4e2d, 0x10ffff, 0x1f600} {
		for _, left := range []bool{false, true} {
			for _, n := range []int{3, 6} {
				for _, s := range texts(n, byte(pad)) {
					oneW(n, pad, left, s, false)
				}
				for _, x := range fields(n, byte(pad)) {
					oneR(n, pad, left, x, false)
				}
			}
		}
	}
	// list forms: every element obeys the same rule
	for k := 0; k < 200 && !rep.failed(); k++ {
		n := widths[r.intn(len(widths))]
		pad := []int{32, 48, 0, r.intn(256)}[r.intn(4)]
		left := r.chance(1, 2)
		p := primSpec{Kind: "fixedlist", Le: r.chance(1, 2), Cnt: []string{"U8", "U16", "U32"}[r.intn(3)], N: n, Pad: pad, Left: left}
		cnt := r.intn(4)
		l := make([]string, cnt)
		var want []byte
		for i := range l {
			l[i] = r.textWithPad(r.intn(n+4), byte(pad))
			want = append(want, specWriteFixed([]byte(l[i]), n, byte(pad), left)...)
		}
		rep.eval("list", fmt.Sprintf("%v/%v", p, l))
		buf := &bytes.Buffer{}
		if err := wFixedList(p, l, buf); err != nil {
			rep.fail(failure{Oracle: "fixed-list", What: "write error " + err.Error(), Input: map[string]any{"prim": p.text()}})
			continue
		}
		got := buf.Bytes()[widthOf[p.Cnt]:]
		if !bytes.Equal(got, want) {
			rep.fail(failure{Oracle: "fixed-list", What: fmt.Sprintf("elements emitted %x want %x", got, want), Input: map[string]any{"prim": p.text(), "values": fmt.Sprintf("%x", l)}})
			continue
		}
		back, err := rFixedList(p, buf)
		if err != nil || len(back) != cnt {
			rep.fail(failure{Oracle: "fixed-list", What: "read back failed", Input: map[string]any{"prim": p.text(), "values": fmt.Sprintf("%x", l)}})
			continue
		}
		for i := range back {
			w := specReadFixed(specWriteFixed([]byte(l[i]), n, byte(pad), left), byte(pad), left)
			if back[i] != string(w) {
				rep.fail(failure{Oracle: "fixed-list", What: fmt.Sprintf("element %d read %x want %x", i, back[i], w), Input: map[string]any{"prim": p.text(), "values": fmt.Sprintf("%x", l)}})
			}
		}
	}
	// a field inside a frame: other bytes before and after it in one buffer, and between the write and the read the
	// library's read-only services run over windows of that buffer (as the frame encoders do): the field must read
	// back as written
	for k := 0; k < 400 && !rep.failed(); k++ {
		n := []int{1, 3, 8, 10, 16, 32}[r.intn(6)]
		pad := []int{32, 48, 0}[r.intn(3)]
		left := r.chance(1, 2)
		p := primSpec{Kind: "fixed", N: n, Pad: pad, Left: left}
		pre := r.bytes(16 + r.intn(64))
		s := []byte(r.textWithPad(r.intn(n+2), byte(pad)))
		post := r.bytes(r.intn(20))
		arr := make([]byte, 0, len(pre)+n+len(post)+r.intn(40))
		buf := bytes.NewBuffer(arr)
		buf.Write(pre)
		if err := wFixed(p, string(s), buf); err != nil {
			continue
		}
		buf.Write(post)
		all := buf.Bytes()
		snapshot := append([]byte{}, all...)
		alg := []string{"SSE_BIN", "SZSE_BIN", "CRC16", "CRC32"}[r.intn(4)]
		lo := r.intn(8)
		for _, hi := range []int{len(pre), len(pre) - r.intn(8), len(pre) + n, len(all)} {
			if hi >= lo {
				calcOn(alg, bytes.NewBuffer(all[lo:hi]))
			}
		}
		rep.eval("field-in-frame", fmt.Sprintf("%d/%d/%v/%x/%d/%s", n, pad, left, s, len(pre), alg))
		in := map[string]any{"width": n, "pad": pad, "left": left, "text_hex": hex.EncodeToString(s), "bytes_before_field": len(pre), "bytes_after_field": len(post),
			"between_write_and_read": alg + " Calc over windows of the buffer ending before / at / after the field", "buffer_hex_after_write": hex.EncodeToString(snapshot)}
		buf.Next(len(pre))
		got, err := rFixed(p, buf)
		want := specReadFixed(specWriteFixed(s, n, byte(pad), left), byte(pad), left)
		if err != nil || got != string(want) {
			in["buffer_hex_at_read"] = hex.EncodeToString(all)
			rep.fail(failure{Oracle: "fixed-read", What: fmt.Sprintf("a field written into a frame read back as %x want %x (err %v)", got, want, err), Input: in})
		}
	}
	rep.sample("write n=6 pad='0' left text=abc -> " + hex.EncodeToString(specWriteFixed([]byte("abc"), 6, '0', true)))
	rep.sample("read field=61c3a9e9e9e9 pad=0xe9 right -> " + hex.EncodeToString(specReadFixed([]byte{0x61, 0xc3, 0xa9, 0xe9, 0xe9, 0xe9}, 0xe9, false)))
}
