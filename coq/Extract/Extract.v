(* Extract/Extract.v — extraction of the executable model for the correspondence driver.
   ExtrOcamlBasic only (bool, option, list, prod, unit, sumbool mapped to OCaml's);
   no Extract Constant, no further Extract Inductive: N, positive, Z, nat, byte, string stay as
   the extracted inductives. *)
From Coq Require Extraction ExtrOcamlBasic.
From FP.Model Require Import Sem.
From FP.Gen Require Import Programs.
From FP.Extract Require Import Driver.
From FP.Model Require Import Cost.
From FP.Theory Require Import Infer.
(* the schemas recognised in the translated programs, computed once; the allocation model runs on them *)
Definition gen_schemas : list sdef := match infer_env env with Some ss => ss | None => nil end.
Definition gen_decode_cost (t : N) (buf : list byte) : N := decode_cost tables gen_schemas t buf.
Extraction Language OCaml.
Extraction "model.ml" run_op gen_world n2b b2n gen_decode_cost.
