(* Model/Alias.v — may-share graphs of the library helpers and what they mean.
   A node is a variable, parameter or function result of codec/*.go; an edge  (d, srcs)  says that the memory
   reachable from d's value may, after some statement, include memory reachable from the values of srcs;
   SBuf is the memory of the buffer being decoded.  The translator (helpers.go) extracts the edges; a statement
   that produces a fresh copy (make, new, string<->[]byte conversion, literals) or a scalar contributes none. *)
From Coq Require Import List NArith Bool Arith.
Import ListNotations.

Definition node := N.          (* nodes are numbered by the translator; Gen/Helpers.v keeps the names *)
Inductive src := SVar (x : node) | SBuf.
Definition edge : Type := node * list src.

(* ---- concrete meaning: which regions a variable's value can reach ---- *)
(* memory is divided into regions; region 0 is the backing array of the buffer being decoded *)
Definition region := nat.
Definition store := node -> list region.

Definition eval (st : store) (s : src) : list region :=
  match s with SVar x => st x | SBuf => [0] end.

(* some regions are marked ("bad"): for decoding, the buffer's backing array; for encoding, the message's memory.
   One statement described by edge (d, srcs): afterwards d reaches only regions it reached before, regions its
   sources reached, or memory allocated since (never marked); every other variable is unchanged.  Strong and weak
   updates, stores into part of d, and dropping references are all instances. *)
Section Meaning.
  Variable bad : region -> Prop.

  Definition step_ok (e : edge) (st st' : store) : Prop :=
    (forall r, In r (st' (fst e)) -> ~ bad r \/ In r (st (fst e)) \/ exists s, In s (snd e) /\ In r (eval st s)) /\
    (forall x, x <> fst e -> st' x = st x).

  (* any control flow whatsoever through the statements of the graph: loops, branches, calls, in any order *)
  Inductive run (g : list edge) : store -> store -> Prop :=
  | run_nil st : run g st st
  | run_step st e st' st'' : In e g -> step_ok e st st' -> run g st' st'' -> run g st st''.
End Meaning.

(* ---- the analysis: a set of nodes closed under the edges ---- *)
Definition mem (x : node) (t : list node) : bool := existsb (N.eqb x) t.
(* [bufhot]: is the buffer's memory marked? *)
Definition src_in (bufhot : bool) (t : list node) (s : src) : bool := match s with SVar x => mem x t | SBuf => bufhot end.
(* t contains every node that has a source in t (or the marked buffer) *)
Definition closedb (bufhot : bool) (g : list edge) (t : list node) : bool :=
  forallb (fun e => negb (existsb (src_in bufhot t) (snd e)) || mem (fst e) t) g.

(* least such set above the seeds, by iteration (used to compute t; the result is CHECKED by closedb, not trusted) *)
Definition grow (bufhot : bool) (g : list edge) (t : list node) : list node :=
  fold_left (fun acc e => if existsb (src_in bufhot acc) (snd e) && negb (mem (fst e) acc) then fst e :: acc else acc) g t.
Fixpoint iter (n : nat) (bufhot : bool) (g : list edge) (t : list node) : list node :=
  match n with
  | O => t
  | S k => let t' := grow bufhot g t in if Nat.eqb (List.length t') (List.length t) then t else iter k bufhot g t'
  end.
Definition taint (bufhot : bool) (seeds : list node) (g : list edge) : list node := iter (S (List.length g)) bufhot g seeds.
