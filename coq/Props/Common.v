(* Props/Common.v — the obligations shared by the property files: the programs found in /repo are
   recognised ([H_infer]), the environment is closed and its ids unique; and the two refinement
   theorems instantiated on them.  Re-checked on every run against the regenerated Gen/Programs.v. *)
From FP.Theory Require Export FrameFacts.
From FP.Gen Require Export Programs.
Local Open Scope N_scope.

Definition schemas : list sdef := match infer_env env with Some ss => ss | None => [] end.

(* fails (and says which types) when some Encode/Decode pair is not recognised *)
Lemma H_uninferable : uninferable env = [].
Proof. vm_compute. reflexivity. Qed.
Lemma H_infer : infer_env env = Some schemas.
Proof. vm_compute. reflexivity. Qed.
Lemma H_closed : env_closed (sigs_of_env env) = true.
Proof. vm_compute. reflexivity. Qed.
Lemma H_unique : ids_unique schemas = true.
Proof. vm_compute. reflexivity. Qed.

Definition registry0 : registry := reg_init services.
(* notations rather than definitions: nothing to unfold, every statement is syntactically about the
   model functions applied to the generated constants *)
Notation typed := (typed_env (sigs_of_env env)).
Notation receiver_ok := (recv_env (sigs_of_env env)).
Notation encode := (run_enc_env tables registry0 env).
Notation decode := (run_dec_env tables env).
Notation senc := (spec_enc_env tables registry0 schemas).
Notation sdec := (spec_dec_env tables schemas).
Definition zero_value (t : N) : list value := match zero_sig (sigs_of_env env) t with Some z => z | None => [] end.

(* the world record of the generated file is the same thing *)
Lemma world_encode t fs buf : run_enc gen_world t fs buf = encode t fs buf.
Proof. reflexivity. Qed.
Lemma world_decode t r buf : run_dec gen_world t r buf = decode t r buf.
Proof. reflexivity. Qed.

Theorem encode_spec t fs buf : typed t fs = true -> encode t fs buf = lift (senc t fs) buf.
Proof. exact (enc_refines tables registry0 env schemas H_infer t fs buf). Qed.

Theorem decode_spec t r buf : receiver_ok t r = true -> decode t r buf = sdec t buf.
Proof. exact (dec_refines tables env schemas H_infer H_closed t r buf). Qed.
