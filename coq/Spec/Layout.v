(* Spec/Layout.v — the pinned wire layout vocabulary (what Pinned/Pinned.v is written in) and an
   independent renderer for it.  A layout has NO byte-order slot: the order is a property of the
   protocol, given once.  [layout_of] erases a recognised schema to a layout, failing if any of its
   order slots differs from the protocol's order (that failure is the C03 obligation). *)
From FP.Spec Require Export Schema.
Local Open Scope N_scope.

Inductive nilmode := NilPanic | NilSkip | NilFillNew | NilFillTable.

Inductive lkind :=
 | LInt (t : ity)
 | LFixed (n : nat) (pad : N) (left : bool)
 | LText (len : ity)
 | LInts (cnt elt : ity)
 | LFixeds (cnt : ity) (n : nat) (pad : N) (left : bool)
 | LTexts (cnt len : ity)
 | LObjs (cnt : ity) (t : N)
 | LObj (t : N) (byvalue : bool) (nm : nilmode)
 | LSel (tbl : N) (key : nat) (nm : nilmode)
 | LLen                                   (* uint32 body length computed by the frame *)
 | LSum (alg : String.string) (rt : ity). (* checksum computed by the frame *)

Record ltype := { lt_id : N; lt_proto : N; lt_fields : list lkind }.

Definition nilmode_of (f : fill) (g : guard) : nilmode :=
  match f, g with
  | FNew _, _ => NilFillNew
  | FTable _ _, _ => NilFillTable
  | FNone, GIfNotNil => NilSkip
  | FNone, GNone => NilPanic
  end.

Definition bool_eq (a b : bool) : bool := if a then b else negb b.

(* erase one kind; [le] is the protocol's order *)
Definition lkind_of (le : bool) (k : kind) : option lkind :=
  match k with
  | KPrim (PBasic l t) _ => if bool_eq l le || Nat.eqb (width t) 1 then Some (LInt t) else None
  | KPrim (PFixed n pad lf) _ => Some (LFixed n pad lf)
  | KPrim (PString l len) _ => if bool_eq l le then Some (LText len) else None
  | KPrim (PBasicList l cnt elt) _ => if bool_eq l le then Some (LInts cnt elt) else None
  | KPrim (PFixedList l cnt n pad lf) _ => if bool_eq l le then Some (LFixeds cnt n pad lf) else None
  | KPrim (PStringList l cnt len) _ => if bool_eq l le then Some (LTexts cnt len) else None
  | KPrim (PObjList _ _ _) _ => None
  | KObjs l cnt t => if bool_eq l le then Some (LObjs cnt t) else None
  | KCall f g _ (DPtr t) => Some (LObj t false (nilmode_of f g))
  | KCall f g _ (DVal t) => Some (LObj t true (nilmode_of f g))
  | KCall f g _ (DSel tbl key) =>
      match f with
      | FTable tbl' key' => if (tbl' =? tbl) && Nat.eqb key' key then Some (LSel tbl key NilFillTable) else None
      | FNew _ => None
      | FNone => Some (LSel tbl key (nilmode_of FNone g))
      end
  end.

Fixpoint lkinds_of (le : bool) (ks : list kind) : option (list lkind) :=
  match ks with
  | [] => Some []
  | k :: r => match lkind_of le k, lkinds_of le r with Some a, Some b => Some (a :: b) | _, _ => None end
  end.

Definition layout_of (le : bool) (s : schema) : option (list lkind) :=
  match s with
  | SPlain ks => lkinds_of le ks
  | SFrame hdr le_len tbl key sum =>
      if bool_eq le_len le then
        match lkinds_of le hdr with
        | Some h =>
            match sum with
            | None => Some (h ++ [LLen; LSel tbl key NilSkip])
            | Some s => if bool_eq (ss_le s) le then Some (h ++ [LLen; LSel tbl key NilSkip; LSum (ss_name s) (ss_rt s)]) else None
            end
        | None => None
        end
      else None
  end.
