(* Props/C17.v — encoding any constructible message returns bytes or an error: it never panics. *)
From FP.Props Require Import Common.
From FP.Theory Require Import EncSafe.
Local Open Scope N_scope.

(* static side conditions, evaluated on the programs found in /repo: every nested pointer part is
   materialised before it is encoded (or guarded by a nil check), every body / extension left out is
   filled in from its table or skipped under a guard, every primitive is applied to a field of the
   matching Go type, an error is dropped only where none can occur, and every frame's checksum service is
   registered with the result type its assertion expects *)
Lemma H_enc_safe : enc_safe_env tables registry0 schemas = true.
Proof. vm_compute. reflexivity. Qed.

Lemma H_sigs : sigs_of_sdefs schemas = sigs_of_env env.
Proof. exact (infer_env_sigs env schemas H_infer). Qed.

(* C17.  For every message type, every well-typed value - zero value, constructor result, arbitrary numbers,
   text of any length, lists of any size, nested parts nil or present, body/extension nil (with registered or
   unregistered discriminator) or of any message type - and every buffer content: Encode returns bytes or an
   error.  (Nil elements inside lists and typed-nil interface values are not well-typed values: they are
   outside the guarantee, as the property says.) *)
Theorem C17_encode_returns_bytes_or_error : forall t fs buf,
  typed t fs = true ->
  (exists fs' buf', encode t fs buf = Ok (fs', buf')) \/ encode t fs buf = Fail FErr.
Proof.
  intros t fs buf Ht. rewrite encode_spec by exact Ht.
  assert (Ht' : typed_env (sigs_of_sdefs schemas) t fs = true) by (rewrite H_sigs; exact Ht).
  destruct (proj1 (enc_safe tables registry0 schemas H_enc_safe t fs Ht')) as [[[fs' bs] E]|E]; rewrite E; cbn [lift].
  - left. eexists; eexists; reflexivity.
  - right. reflexivity.
Qed.

(* non-vacuity: zero values of every type are well typed; the defect found on the pinned tree (NestedPacket with
   nil parts) now encodes; nil body with an unregistered discriminator is an error, not a panic *)
Example C17_zero_values_typed : forallb (fun td => typed (ty_id td) (zero_value (ty_id td))) env = true.
Proof. vm_compute. reflexivity. Qed.
Example C17_nonvacuous :
  (match encode id_sample_bin_NestedPacket (zero_value id_sample_bin_NestedPacket) [] with Ok _ => true | Fail _ => false end) = true /\
  typed id_bjse_trade_bin_BjseBinary [VInt 424242; VInt 0; VNil; VInt 0] = true /\
  encode id_bjse_trade_bin_BjseBinary [VInt 424242; VInt 0; VNil; VInt 0] [x01] = Fail FErr /\
  (match encode id_sse_bin_SseBinary [VInt 999; VInt 0; VInt 0; VNil; VInt 0] [] with Ok _ => true | Fail _ => false end) = true.
Proof. vm_compute. repeat split; reflexivity. Qed.

Print Assumptions C17_encode_returns_bytes_or_error.
