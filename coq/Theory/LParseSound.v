(* Theory/LParseSound.v — a type whose layout is [lks] decodes exactly as the independent layout parser does (C02,
   decode side): equality of the two functions on every byte string. *)
From FP.Spec Require Export LParse.
From FP.Theory Require Export FrameFacts Uniform LRenderSound.
Local Open Scope N_scope.

Lemma read_basic_width1 l1 l2 t buf : width t = 1%nat -> read_basic l1 t buf = read_basic l2 t buf.
Proof.
  intro Hw. unfold read_basic. rewrite Hw. destruct buf as [|x r]; cbn [take]; [reflexivity|].
  destruct l1, l2; reflexivity.
Qed.

Section Sound.
  Variable tables : list (N * table).
  Variable sdec : N -> list byte -> res (list value * list byte).
  Variable le : bool.
  Variable lprec : N -> list byte -> res (list value * list byte).
  Hypothesis Hrec : forall t buf, sdec t buf = lprec t buf.

  Lemma obj_eq t buf : parse_obj sdec t buf = lp_obj lprec t buf.
  Proof. unfold parse_obj, lp_obj. rewrite Hrec. reflexivity. Qed.

  (* a layout kind parses like a schema kind: the erasure of the kind, or a frame's computed integer *)
  Definition parses_like (k : kind) (lk : lkind) : Prop :=
    lkind_of le k = Some lk \/
    (exists prop, k = KPrim (PBasic le U32) prop /\ lk = LLen) \/
    (exists prop name rt, k = KPrim (PBasic le rt) prop /\ lk = LSum name rt).

  Lemma kind_eq done k lk buf : parses_like k lk -> parse_kind tables sdec done k buf = lp_kind tables le lprec done lk buf.
  Proof.
    intros [H|[[prop [-> ->]]|[prop [name [rt [-> ->]]]]]]; [|reflexivity|reflexivity].
    destruct k as [p prop|l cnt t|f g prop d]; cbn [lkind_of parse_kind] in *.
    - destruct p as [l t|n pad lf|l len|l cnt elt|l cnt n pad lf|l cnt len|l cnt t].
      + destruct (bool_eq l le || Nat.eqb (width t) 1) eqn:Eo; [|discriminate]. inversion H; subst. cbn [lp_kind r_prim].
        apply orb_true_iff in Eo. destruct Eo as [Eo|Eo]; [apply bool_eq_true in Eo; subst; reflexivity|].
        apply Nat.eqb_eq in Eo. rewrite (read_basic_width1 l le t buf Eo). reflexivity.
      + inversion H; subst. reflexivity.
      + destruct (bool_eq l le) eqn:Eo; [|discriminate]. apply bool_eq_true in Eo. subst. inversion H; subst. reflexivity.
      + destruct (bool_eq l le) eqn:Eo; [|discriminate]. apply bool_eq_true in Eo. subst. inversion H; subst. reflexivity.
      + destruct (bool_eq l le) eqn:Eo; [|discriminate]. apply bool_eq_true in Eo. subst. inversion H; subst. reflexivity.
      + destruct (bool_eq l le) eqn:Eo; [|discriminate]. apply bool_eq_true in Eo. subst. inversion H; subst. reflexivity.
      + discriminate.
    - destruct (bool_eq l le) eqn:Eo; [|discriminate]. apply bool_eq_true in Eo. subst. inversion H; subst. cbn [lp_kind].
      assert (E : read_list le cnt (parse_obj sdec t) buf = read_list le cnt (lp_obj lprec t) buf).
      { unfold read_list. destruct (read_basic le cnt buf) as [[n r]|]; cbn [bind]; [|reflexivity].
        destruct (wire_count n) as [n'|]; cbn [bind]; [|reflexivity].
        generalize (list_fuel n' r). intro fuel. revert n' r. induction fuel as [|fuel IH]; intros n' r; cbn [read_n]; [reflexivity|].
        destruct (n' =? 0); [reflexivity|]. rewrite obj_eq. destruct (lp_obj lprec t r) as [[a r1]|]; cbn [bind]; [|reflexivity].
        rewrite IH. reflexivity. }
      rewrite E. reflexivity.
    - destruct d as [t|t|tbl key].
      + inversion H; subst. cbn [lp_kind]. apply obj_eq.
      + inversion H; subst. cbn [lp_kind]. apply obj_eq.
      + assert (Hl : exists nm, lk = LSel tbl key nm).
        { destruct f as [|t0|tbl' key']; [inversion H; eexists; reflexivity|discriminate|].
          destruct ((tbl' =? tbl) && Nat.eqb key' key); [inversion H; eexists; reflexivity|discriminate]. }
        destruct Hl as [nm ->]. cbn [lp_kind].
        destruct (get_field done key) as [kv|]; cbn [bind]; [|reflexivity].
        destruct (slookup tables tbl kv) as [ty|]; cbn [bind]; [|reflexivity]. apply obj_eq.
  Qed.

  Lemma fields_eq ks lks : Forall2 parses_like ks lks -> forall done buf,
    parse_fields tables sdec done ks buf = lp_fields tables le lprec done lks buf.
  Proof.
    induction 1 as [|k lk ks lks Hk Hrest IH]; intros done buf; cbn [parse_fields lp_fields]; [reflexivity|].
    rewrite (kind_eq done k lk buf Hk). destruct (lp_kind tables le lprec done lk buf) as [[v r]|]; cbn [bind]; [|reflexivity].
    rewrite IH. reflexivity.
  Qed.

  Lemma lkinds_parse_like ks lks : lkinds_of le ks = Some lks -> Forall2 parses_like ks lks.
  Proof.
    revert lks. induction ks as [|k ks IH]; intros lks H; cbn [lkinds_of] in H.
    - inversion H. constructor.
    - destruct (lkind_of le k) as [lk|] eqn:Ek; [|discriminate]. destruct (lkinds_of le ks) as [l'|]; [|discriminate].
      inversion H; subst. constructor; [left; exact Ek|apply IH; reflexivity].
  Qed.

  Theorem schema_parse_eq s lks buf : layout_of le s = Some lks ->
    spec_dec_schema tables sdec s buf = lp_fields tables le lprec [] lks buf.
  Proof.
    destruct s as [ks|hdr le_len tbl key sum]; cbn [layout_of spec_dec_schema].
    - intro H. apply fields_eq. apply lkinds_parse_like. exact H.
    - destruct (bool_eq le_len le) eqn:El; [|discriminate]. apply bool_eq_true in El. subst le_len.
      destruct (lkinds_of le hdr) as [h|] eqn:Eh; [|discriminate]. intro H. unfold frame_kinds.
      apply fields_eq. destruct sum as [ss|].
      + destruct (bool_eq (ss_le ss) le) eqn:Es; [|discriminate]. apply bool_eq_true in Es. inversion H; subst lks.
        apply Forall2_app; [apply lkinds_parse_like; exact Eh|].
        constructor; [right; left; eexists; split; reflexivity|].
        constructor; [left; reflexivity|].
        constructor; [right; right; rewrite Es; do 3 eexists; split; reflexivity|constructor].
      + inversion H; subst lks. apply Forall2_app; [apply lkinds_parse_like; exact Eh|].
        constructor; [right; left; eexists; split; reflexivity|]. constructor; [left; reflexivity|constructor].
  Qed.
End Sound.

Theorem lparse_sound tables order_of : forall ss lts, Forall2 (lays_out order_of) ss lts ->
  forall t buf, spec_dec_env tables ss t buf = lparse tables order_of lts t buf.
Proof.
  induction 1 as [|sd lt ss lts [Hid Hlay] Hrest IH]; intros t buf; [reflexivity|].
  cbn [spec_dec_env lparse]. rewrite <- Hid. destruct (sd_id sd =? t); [|apply IH].
  apply schema_parse_eq; [exact IH|exact Hlay].
Qed.
