(* Extract/Extract.v — extraction of the executable model for the correspondence driver.
   ExtrOcamlBasic only (bool, option, list, prod, unit, sumbool mapped to OCaml's);
   no Extract Constant, no further Extract Inductive: N, positive, Z, nat, byte, string stay as
   the extracted inductives. *)
From Coq Require Extraction ExtrOcamlBasic.
From FP.Model Require Import Sem.
From FP.Gen Require Import Programs.
From FP.Extract Require Import Driver.
Extraction Language OCaml.
Extraction "model.ml" run_op gen_world n2b b2n.
