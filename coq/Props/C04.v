(* Props/C04.v — a frame's body-length field always equals the number of body bytes emitted. *)
From FP.Props Require Import Common.
Local Open Scope N_scope.

Lemma H_frames : frames_ok schemas = true.
Proof. vm_compute. reflexivity. Qed.

(* the frame types with a self-computed length that exist in /repo right now (non-vacuity of the quantifier) *)
Definition frame_ids : list N :=
  map sd_id (filter (fun sd => match sd_schema sd with SFrame _ _ _ _ _ => true | _ => false end) schemas).
Example C04_frames_exist :
  frame_ids = [id_szse_bin_SzseBinary; id_sse_bin_SseBinary; id_sample_bin_RootPacket; id_risk_bin_RcBinary].
Proof. vm_compute. reflexivity. Qed.

Lemma encode_frame_bytes sd hdr le tbl key sum fs buf fs' buf' :
  In sd schemas -> sd_schema sd = SFrame hdr le tbl key sum ->
  typed (sd_id sd) fs = true -> encode (sd_id sd) fs buf = Ok (fs', buf') ->
  exists hb bb body,
    nth_error fs (S (length hdr)) = Some body /\
    body_bytes senc body bb /\
    length hb = hdr_width hdr /\
    let L := u32_of_len (lenN bb) in
    let fr := hb ++ int_bytes (ord le) 4 L ++ bb in
    nth_error fs' (length hdr) = Some (VInt L) /\
    match sum with
    | None => buf' = buf ++ fr
    | Some s => exists oldv c tb,
        nth_error fs (S (S (length hdr))) = Some oldv /\
        frame_checksum registry0 fr s oldv = Ok c /\
        nth_error fs' (S (S (length hdr))) = Some c /\
        w_prim (PBasic (ss_le s) (ss_rt s)) c = Ok tb /\ buf' = buf ++ fr ++ tb
    end.
Proof.
  intros Hin Hs Ht H. rewrite encode_spec in H by exact Ht.
  destruct (senc (sd_id sd) fs) as [[a bs]|] eqn:E; cbn [lift] in H; [|discriminate]. inversion H; subst.
  destruct (frame_bytes tables registry0 schemas sd hdr le tbl key sum fs fs' bs Hin H_unique H_frames Hs E)
    as [hb [bb [body [H1 [H2 [H3 H4]]]]]].
  exists hb, bb, body. split; [exact H1|]. split; [exact H2|]. split; [exact H3|].
  cbn zeta in *. destruct H4 as [H4 H5]. split; [exact H4|].
  destruct sum as [s|].
  - destruct H5 as [oldv [c [tb [A [B [C [D ->]]]]]]]. exists oldv, c, tb. repeat split; assumption.
  - subst. reflexivity.
Qed.

(* C04.  For every frame type with a computed length, every well-typed frame object (any stale length
   value, any body incl. none, any body type) and every buffer content: after the header (whose width is
   fixed by the schema) come 4 bytes holding, in the frame's byte order, the number of bytes [bb] that
   the body's own Encode produces (nothing for an absent body), then exactly those bytes, then the
   trailer; and the object's length field holds the same number.  (A body of 4 GiB or more is outside
   the claim: the number is reduced modulo 2^32 as uint32 does.) *)
Theorem C04_frame_body_length : forall sd hdr le tbl key sum fs buf fs' buf',
  In sd schemas -> sd_schema sd = SFrame hdr le tbl key sum ->
  typed (sd_id sd) fs = true -> encode (sd_id sd) fs buf = Ok (fs', buf') ->
  exists hb bb body trailer,
    nth_error fs (S (length hdr)) = Some body /\ body_bytes senc body bb /\
    length hb = hdr_width hdr /\
    buf' = buf ++ hb ++ int_bytes (ord le) 4 (u32_of_len (lenN bb)) ++ bb ++ trailer /\
    nth_error fs' (length hdr) = Some (VInt (u32_of_len (lenN bb))) /\
    (lenN bb < 4294967296 -> u32_of_len (lenN bb) = lenN bb).
Proof.
  intros sd hdr le tbl key sum fs buf fs' buf' Hin Hs Ht H.
  destruct (encode_frame_bytes sd hdr le tbl key sum fs buf fs' buf' Hin Hs Ht H) as [hb [bb [body [H1 [H2 [H3 H4]]]]]].
  cbn zeta in H4. destruct H4 as [H4 H5].
  assert (Hu : lenN bb < 4294967296 -> u32_of_len (lenN bb) = lenN bb) by (intro Hl; unfold u32_of_len; apply N.mod_small; exact Hl).
  destruct sum as [s|].
  - destruct H5 as [oldv [c [tb [_ [_ [_ [_ ->]]]]]]].
    exists hb, bb, body, tb. repeat split; try assumption. rewrite <- !app_assoc. reflexivity.
  - subst. exists hb, bb, body, []. repeat split; try assumption. rewrite app_nil_r. reflexivity.
Qed.

(* non-vacuity: an SSE frame with a stale length 999 around a zero Logon body, into a non-empty buffer *)
Definition ex_frame : list value :=
  [VInt 40; VInt 7; VInt 999; VObj id_sse_bin_Logon (zero_value id_sse_bin_Logon); VInt 5].
Example C04_nonvacuous :
  typed id_sse_bin_SseBinary ex_frame = true /\
  match encode id_sse_bin_SseBinary ex_frame [x01; x02] with
  | Ok (fs', b) => match nth_error fs' 2 with Some (VInt L) => (L =? lenN b - 2 - 12 - 4 - 4) && negb (L =? 999) | _ => false end
  | Fail _ => false end = true.
Proof. vm_compute. split; reflexivity. Qed.

(* "wherever in the output buffer the frame starts": how the length gets into its field.  The frame encoders write a
   placeholder, the body, and then  binary.PutUint32(buf.Bytes()[pos:pos+4], n)  with Bytes() taken AFTER the body was
   written.  On the buffer model (Model/Buffer.v, tied to bytes.Buffer by the "buf" correspondence slice) that is an
   update of the unread bytes in place, for every buffer state - which is how Sem.v models it.  A slot kept from
   BEFORE the body is the buffer's own memory only if the body needed no growth (second theorem; the failing
   histories are Mutants/RetainedSlice.v) - the translator accepts only the first form. *)
From FP.Model Require Buffer.
From FP.Theory Require BufferRefine.
Theorem C04_backfill_through_fresh_slice_is_update : forall h b p bs,
  BufferRefine.WF h b -> (p + List.length bs <= Buffer.unread b)%nat ->
  let h' := Buffer.swrite h (Buffer.sub (Buffer.bytes_of b) p (p + List.length bs)%nat) bs in
  BufferRefine.WF h' b /\ Buffer.contents h' b = Buffer.blit (Buffer.contents h b) p bs.
Proof. exact BufferRefine.fresh_backfill. Qed.

Theorem C04_kept_slot_is_the_buffer_when_nothing_grew : forall nc h b bs h' b' s,
  BufferRefine.WF h b -> (List.length bs <= Buffer.cap h b - Buffer.fin b)%nat ->
  Buffer.s_arr s = Buffer.arr b -> (Buffer.s_lo s + Buffer.s_len s <= Buffer.fin b)%nat ->
  Buffer.write nc h b bs = Some (h', b') ->
  Buffer.arr b' = Buffer.arr b /\ Buffer.off b' = Buffer.off b /\ Buffer.sread h' s = Buffer.sread h s.
Proof. exact BufferRefine.retained_slice_if_room. Qed.

(* ... and the encoders' pattern as a whole: remember Len(), write a placeholder, write the body in any number of pieces
   (the buffer may slide or move at any of them), then patch through buf.Bytes()[pos:pos+k]: whatever state the buffer
   was in, it then holds what it held, the length bytes, and the body *)
Theorem C04_frame_pattern_on_any_buffer : forall nc0 placeholder lenbytes ws s s1,
  BufferRefine.WF (Buffer.st_h s) (Buffer.st_b s) -> List.length placeholder = List.length lenbytes ->
  Buffer.bsteps s (Buffer.BWrite nc0 placeholder :: map (fun w => Buffer.BWrite (fst w) (snd w)) ws) = Some s1 ->
  let pos := Buffer.unread (Buffer.st_b s) in
  let h' := Buffer.swrite (Buffer.st_h s1) (Buffer.sub (Buffer.bytes_of (Buffer.st_b s1)) pos (pos + List.length lenbytes)%nat) lenbytes in
  BufferRefine.WF h' (Buffer.st_b s1) /\
  Buffer.contents h' (Buffer.st_b s1) = Buffer.contents (Buffer.st_h s) (Buffer.st_b s) ++ lenbytes ++ concat (map snd ws).
Proof. exact BufferRefine.frame_pattern. Qed.

Print Assumptions C04_frame_pattern_on_any_buffer.
Print Assumptions C04_backfill_through_fresh_slice_is_update.
Print Assumptions C04_kept_slot_is_the_buffer_when_nothing_grew.
Print Assumptions C04_frame_body_length.
