(* Theory/Isolation.v — threads that own their local state and only read a shared, never-written global
   state compute, under every interleaving, exactly what they compute alone (C20).  The theorem is generic
   and shallow by construction; its content for fin-proto-go is the premise: that Encode/Decode and the codec
   helpers write no shared state - the footprint obligation, re-extracted from /repo on every run. *)
From Coq Require Import List Arith Lia.
Import ListNotations.

Section Iso.
  Variable G : Type.                 (* shared state: read by every step, written by none *)
  Variable L : Type.                 (* a thread's own state: its message, its buffer, its program counter *)
  Variable step : G -> L -> L.       (* one step of a thread (identity once the thread has finished) *)

  Definition upd (ls : nat -> L) (i : nat) (l : L) : nat -> L := fun j => if Nat.eqb j i then l else ls j.

  (* run a schedule: at each point the scheduler picks which thread takes its next step *)
  Fixpoint exec (g : G) (sched : list nat) (ls : nat -> L) : nat -> L :=
    match sched with
    | [] => ls
    | i :: rest => exec g rest (upd ls i (step g (ls i)))
    end.

  Fixpoint iter (n : nat) (f : L -> L) (l : L) : L := match n with O => l | S k => iter k f (f l) end.

  Theorem interleaving_is_irrelevant g sched : forall ls i,
    exec g sched ls i = iter (count_occ Nat.eq_dec sched i) (step g) (ls i).
  Proof.
    induction sched as [|j sched IH]; intros ls i; cbn [exec count_occ]; [reflexivity|].
    rewrite IH. unfold upd. destruct (Nat.eq_dec j i) as [->|Hne].
    - rewrite Nat.eqb_refl. reflexivity.
    - destruct (Nat.eqb_spec i j); [congruence|reflexivity].
  Qed.

  (* two schedules that give thread i the same number of steps leave it in the same state, whatever the
     other threads did in between *)
  Corollary same_steps_same_result g s1 s2 ls i :
    count_occ Nat.eq_dec s1 i = count_occ Nat.eq_dec s2 i -> exec g s1 ls i = exec g s2 ls i.
  Proof. intro H. rewrite !interleaving_is_irrelevant, H. reflexivity. Qed.

  (* in particular: the same as running alone *)
  Corollary same_as_alone g sched ls i :
    exec g sched ls i = exec g (repeat i (count_occ Nat.eq_dec sched i)) ls i.
  Proof.
    apply same_steps_same_result. generalize (count_occ Nat.eq_dec sched i) as n. intro n.
    induction n as [|n IH]; cbn [repeat count_occ]; [reflexivity|]. destruct (Nat.eq_dec i i); [|congruence]. rewrite <- IH. reflexivity.
  Qed.

  (* other threads' initial states are irrelevant too *)
  Corollary independent_of_others g sched ls ls' i : ls i = ls' i -> exec g sched ls i = exec g sched ls' i.
  Proof. intro H. rewrite !interleaving_is_irrelevant, H. reflexivity. Qed.
End Iso.
