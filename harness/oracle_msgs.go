package main

// oracle_msgs.go — direct oracles for the message-level properties.

import (
	"sort"
	"bytes"
	"fmt"
	"reflect"
	"runtime"
	"runtime/debug"
)

func init() {
	oracleTable["C01"] = oracleC01
	oracleTable["C04"] = func(rep *report, r *rng) { oracleFrames(rep, r, true, false) }
	oracleTable["C05"] = func(rep *report, r *rng) { oracleFrames(rep, r, false, true) }
	oracleTable["C06"] = oracleC06
	oracleTable["C07"] = oracleC07
	oracleTable["C08"] = oracleC08
	oracleTable["C09"] = oracleC09
	oracleTable["C10"] = oracleC10
	oracleTable["C11"] = oracleC11
	oracleTable["C15"] = oracleC15
	oracleTable["C16"] = oracleC16
	oracleTable["C17"] = oracleC17
	oracleTable["C18"] = oracleC18
}

// every (type, table entry) combination plus plain types
func forTypesAndEntries(r *rng, f func(t *genType, mk func(o genOpts) any, tag string)) {
	for ti := range genTypes {
		t := &genTypes[ti]
		fi := ifaceField(t)
		if fi == nil {
			f(t, func(o genOpts) any { return r.genMessage(t, o) }, "")
			continue
		}
		tb := tableById[fi.Tbl]
		for _, e := range tb.Entries {
			e := e
			f(t, func(o genOpts) any { return r.genWithEntry(t, e, o) }, fmt.Sprintf("key=%d/%q", e.KeyNum, e.KeyStr))
		}
	}
}

// ---------- C01 ----------
func oracleC01(rep *report, r *rng) {
	rep.Rule = "every type x every registered key x canonical values (boundary ints, NaN payloads, text with pad inside / on the other side, empty and nil lists, lists up to 500): Encode into a fresh buffer, Decode into a fresh and into a used receiver, compare with the object after Encode; distinct = distinct (type, value) pairs"
	n := rounds(rep, 12, 100)
	forTypesAndEntries(r, func(t *genType, mk func(genOpts) any, tag string) {
		for k := 0; k < n && !rep.failed(); k++ {
			m := mk(genOpts{canonical: true, bigLists: k == 1})
			before := dumpMsg(m)
			rep.eval("roundtrip/"+t.Pkg, before)
			st, enc := encodeFresh(m)
			if st != "ok" {
				rep.fail(failure{Oracle: "roundtrip", Type: t.QName(), What: "Encode of a canonical value returned " + st, Input: inputOf(t, "value", before, "tag", tag)})
				continue
			}
			post := dumpMsg(m)
			recvs := []struct {
				m   any
				how string
			}{{t.New(), "fresh"}}
			if k%2 == 0 {
				d, how := r.dirtyReceiver(t)
				recvs = append(recvs, struct {
					m   any
					how string
				}{d, how})
			}
			for _, rc := range recvs {
				st, rest := decodeInto(rc.m, enc)
				in := inputOf(t, "value", before, "encoded_hex", hx(enc), "receiver", rc.how, "tag", tag)
				if st != "ok" {
					rep.fail(failure{Oracle: "roundtrip", Type: t.QName(), What: "Decode of the encoding returned " + st, Input: in})
					continue
				}
				got := dumpMsg(rc.m)
				if got != post {
					in["decoded"] = got
					in["expected"] = post
					rep.fail(failure{Oracle: "roundtrip", Type: t.QName(), What: "decoded message differs from the encoded one", Input: in})
					continue
				}
				if len(rest) != 0 {
					rep.fail(failure{Oracle: "roundtrip", Type: t.QName(), What: fmt.Sprintf("%d bytes of the encoding left unread", len(rest)), Input: in})
				}
			}
			if k == 0 {
				rep.sample(t.QName() + " " + tag + " " + before + " -> " + hx(enc))
			}
		}
	})
}

// ---------- C04 / C05 ----------
func oracleFrames(rep *report, r *rng, checkLen, checkSum bool) {
	rep.Rule = "every frame type with a computed length x every registered body type (and nil body) x stale caller length/checksum x buffer histories (empty, random prior bytes, earlier frames, partly consumed, spare capacity); the body length is recounted from the body's own encoding and the checksum recomputed by an independent reference over exactly the frame's bytes"
	var last [][]byte
	n := rounds(rep, 12, 80)
	for _, t := range frameTypes {
		if checkSum && t.Frame.Sum < 0 {
			continue
		}
		tb := tableById[t.Fields[t.Frame.Body].Tbl]
		entries := append([]genEntry{}, tb.Entries...)
		entries = append(entries, genEntry{Target: -1}) // nil body
		for _, e := range entries {
			for k := 0; k < n && !rep.failed(); k++ {
				var m any
				if e.Target >= 0 {
					m = r.genWithEntry(t, e, genOpts{canonical: r.chance(1, 2), bigLists: k == 2})
				} else {
					m = r.genMessage(t, genOpts{nilBody: 1})
				}
				ev := reflect.ValueOf(m).Elem()
				// sometimes reuse an object that was already encoded with another body
				if k%3 == 2 && e.Target < 0 {
					prev := r.genWithEntry(t, tb.Entries[r.intn(len(tb.Entries))], genOpts{canonical: true})
					encodeFresh(prev)
					pv := reflect.ValueOf(prev).Elem()
					pv.Field(t.Frame.Body).Set(reflect.Zero(pv.Field(t.Frame.Body).Type()))
					m = prev
					ev = pv
				}
				var bodyBytes []byte
				bodyV := ev.Field(t.Frame.Body)
				if !bodyV.IsNil() {
					st, bb := encodeFresh(cloneMsg(bodyV.Interface()))
					if st != "ok" {
						continue
					}
					bodyBytes = bb
				}
				before := dumpMsg(m)
				pre, consumed, hdesc, spare := r.history(last)
				st, out, _ := encodeInto(m, pre, consumed, spare)
				rep.eval("frame/"+t.Name+"/"+hdesc, before+hx(pre))
				in := inputOf(t, "value", before, "prior_unread_hex", hx(pre), "consumed_bytes", len(consumed), "history", hdesc)
				if st != "ok" {
					if st == "panic" {
						rep.fail(failure{Oracle: "frame", Type: t.QName(), What: "Encode panicked", Input: in})
					}
					continue
				}
				if len(out) < len(pre) || !bytes.Equal(out[:len(pre)], pre) {
					// C06's business; the frame cannot be delimited
					continue
				}
				fr := out[len(pre):]
				in["frame_hex"] = hx(fr)
				h := frameHdrWidth(t)
				sumW := 0
				if t.Frame.Sum >= 0 {
					sumW = 4
				}
				le := frameLE(t)
				if len(fr) < h+4+sumW {
					rep.fail(failure{Oracle: "frame", Type: t.QName(), What: "frame shorter than its header", Input: in})
					continue
				}
				if len(fr) < 4096 {
					last = append(last, fr)
					if len(last) > 6 {
						last = last[1:]
					}
				}
				if checkLen {
					wire := getUint(fr[h:h+4], le)
					actual := uint64(len(fr) - h - 4 - sumW)
					if wire != actual {
						rep.fail(failure{Oracle: "frame-length", Type: t.QName(), What: fmt.Sprintf("length on the wire %d, body bytes that follow %d", wire, actual), Input: in})
						continue
					}
					if int(actual) != len(bodyBytes) || !bytes.Equal(fr[h+4:h+4+int(actual)], bodyBytes) {
						rep.fail(failure{Oracle: "frame-length", Type: t.QName(), What: fmt.Sprintf("body bytes in the frame (%d) differ from the body's own encoding (%d)", actual, len(bodyBytes)), Input: in})
						continue
					}
					obj := bitsOfField(ev.Field(t.Frame.Len))
					if obj != actual {
						rep.fail(failure{Oracle: "frame-length", Type: t.QName(), What: fmt.Sprintf("object reports length %d after Encode, body bytes %d", obj, actual), Input: in})
						continue
					}
				}
				if checkSum {
					want := refAlg(t.Frame.Alg, fr[:len(fr)-4])
					wire := getUint(fr[len(fr)-4:], le)
					if wire != want {
						rep.fail(failure{Oracle: "frame-checksum", Type: t.QName(), What: fmt.Sprintf("checksum on the wire %#x, %s over this frame's bytes %#x", wire, t.Frame.Alg, want), Input: in})
						continue
					}
					obj := bitsOfField(ev.Field(t.Frame.Sum))
					if obj != want {
						rep.fail(failure{Oracle: "frame-checksum", Type: t.QName(), What: fmt.Sprintf("object reports checksum %#x after Encode, correct %#x", obj, want), Input: in})
						continue
					}
				}
				if k == 0 && e.Target >= 0 {
					rep.sample(t.QName() + " " + hdesc + " frame=" + hx(fr))
				}
			}
		}
	}
	// large frames (checksum accumulators, length arithmetic)
	if checkSum || checkLen {
		for _, t := range frameTypes {
			if checkSum && t.Frame.Sum < 0 {
				continue
			}
			for _, big := range []int{400, 2000, 20000, 65535} {
				m := bigFrame(r, t, big)
				if m == nil || rep.failed() {
					continue
				}
				before := "big-list " + fmt.Sprint(big)
				st, fr := encodeFresh(m)
				rep.eval("frame-big/"+t.Name, fmt.Sprint(t.Id, big))
				if st != "ok" {
					continue
				}
				h := frameHdrWidth(t)
				le := frameLE(t)
				in := inputOf(t, "value", before, "frame_len", len(fr), "frame_hex", short(fr))
				sumW := 0
				if t.Frame.Sum >= 0 {
					sumW = 4
				}
				if checkLen && getUint(fr[h:h+4], le) != uint64(len(fr)-h-4-sumW) {
					rep.fail(failure{Oracle: "frame-length", Type: t.QName(), What: "length field wrong on a large frame", Input: in})
				}
				if checkSum {
					want := refAlg(t.Frame.Alg, fr[:len(fr)-4])
					if getUint(fr[len(fr)-4:], le) != want {
						in["value_dump"] = short([]byte(dumpMsg(m)))
						rep.fail(failure{Oracle: "frame-checksum", Type: t.QName(), What: fmt.Sprintf("checksum on the wire %#x, %s over this frame's bytes %#x (large frame, %d list entries)", getUint(fr[len(fr)-4:], le), t.Frame.Alg, want, big), Input: in})
					}
				}
			}
		}
	}
}

// a frame whose body has a long list (objects or scalars) of about n entries, if the protocol has one
func bigFrame(r *rng, t *genType, n int) any {
	tb := tableById[t.Fields[t.Frame.Body].Tbl]
	for _, e := range tb.Entries {
		bt := typeById[e.Target]
		for i := range bt.Fields {
			f := &bt.Fields[i]
			if (f.Kind == "ptrs" || f.Kind == "ints" || f.Kind == "strs") && prefixMax(f.Cnt) >= n {
				m := r.genWithEntry(t, e, genOpts{canonical: true})
				body := reflect.ValueOf(m).Elem().Field(t.Frame.Body).Elem().Elem()
				fv := body.Field(i)
				sl := reflect.MakeSlice(fv.Type(), n, n)
				for j := 0; j < n; j++ {
					switch f.Kind {
					case "ptrs":
						sl.Index(j).Set(reflect.ValueOf(r.genMessage(typeById[f.Ref], genOpts{canonical: true})))
					case "ints":
						setBits(sl.Index(j), r.scalarBits(f.Ity)|0x80)
					case "strs":
						sl.Index(j).SetString(string(bytes.Repeat([]byte{0xfe}, f.N)))
					}
				}
				fv.Set(sl)
				return m
			}
		}
	}
	return nil
}

// ---------- C06 ----------
func oracleC06(rep *report, r *rng) {
	rep.Rule = "every type x values (canonical and not, nil bodies) x buffer histories: bytes appended equal the encoding into an empty buffer, prior bytes untouched, consumed prefix irrelevant, re-encoding the same object gives the same bytes, sequences concatenate; also after an earlier failed Encode"
	n := rounds(rep, 10, 80)
	var last [][]byte
	forTypesAndEntries(r, func(t *genType, mk func(genOpts) any, tag string) {
		for k := 0; k < n && !rep.failed(); k++ {
			m := mk(genOpts{canonical: r.chance(1, 2), bigLists: k == 1})
			before := dumpMsg(m)
			ref := cloneMsg(m)
			st0, alone := encodeFresh(ref)
			if st0 != "ok" {
				continue
			}
			// an earlier encode that fails part-way must leave no trace
			if k%3 == 1 {
				if fm := r.failingMessage(t); fm != nil {
					encodeFresh(fm)
				}
			}
			pre, consumed, hdesc, spare := r.history(last)
			st, out, _ := encodeInto(m, pre, consumed, spare)
			rep.eval("append/"+t.Pkg+"/"+hdesc, before+hx(pre))
			in := inputOf(t, "value", before, "prior_unread_hex", hx(pre), "consumed_bytes", len(consumed), "history", hdesc, "tag", tag)
			if st != "ok" {
				rep.fail(failure{Oracle: "append", Type: t.QName(), What: "Encode into a used buffer returned " + st + " while Encode into an empty buffer succeeded", Input: in})
				continue
			}
			if len(out) < len(pre) || !bytes.Equal(out[:len(pre)], pre) {
				in["buffer_after_hex"] = hx(out)
				rep.fail(failure{Oracle: "append", Type: t.QName(), What: "bytes already in the buffer were altered", Input: in})
				continue
			}
			if !bytes.Equal(out[len(pre):], alone) {
				in["appended_hex"] = hx(out[len(pre):])
				in["alone_hex"] = hx(alone)
				rep.fail(failure{Oracle: "append", Type: t.QName(), What: "bytes appended differ from the encoding into an empty buffer", Input: in})
				continue
			}
			// encode the same object again (computed fields now filled in)
			st2, again := encodeFresh(m)
			if st2 != "ok" || !bytes.Equal(again, alone) {
				in["second_hex"] = hx(again)
				in["first_hex"] = hx(alone)
				rep.fail(failure{Oracle: "repeat", Type: t.QName(), What: "encoding the same object a second time gives different bytes (" + st2 + ")", Input: in})
				continue
			}
			// a decoded copy re-encoded (relay)
			if k%2 == 0 {
				recv := t.New()
				if st, _ := decodeInto(recv, alone); st == "ok" {
					st3, relay := encodeFresh(recv)
					recvDump := dumpMsg(recv)
					if st3 == "ok" && recvDump == dumpMsg(m) && !bytes.Equal(relay, alone) {
						in["relay_hex"] = hx(relay)
						rep.fail(failure{Oracle: "repeat", Type: t.QName(), What: "an equal message obtained by Decode encodes to different bytes", Input: in})
					}
				}
			}
			if len(alone) < 2048 {
				last = append(last, alone)
				if len(last) > 6 {
					last = last[1:]
				}
			}
		}
	})
	// sequences: n messages into one buffer = concatenation
	for k := 0; k < rounds(rep, 60, 600) && !rep.failed(); k++ {
		buf := &bytes.Buffer{}
		var want []byte
		var desc []string
		cnt := 2 + r.intn(4)
		for j := 0; j < cnt; j++ {
			t := r.pickType()
			m := r.genMessage(t, genOpts{canonical: true})
			st, alone := encodeFresh(cloneMsg(m))
			if st != "ok" {
				continue
			}
			if callEncode(m, buf) != "ok" {
				continue
			}
			want = append(want, alone...)
			desc = append(desc, t.QName())
		}
		rep.eval("sequence", fmt.Sprint(desc, len(want)))
		if !bytes.Equal(buf.Bytes(), want) {
			rep.fail(failure{Oracle: "sequence", What: "messages encoded into one buffer are not the concatenation of their encodings", Input: map[string]any{"types": desc, "got_hex": hx(buf.Bytes()), "want_hex": hx(want)}})
		}
	}
}

// ---------- C07 ----------
func oracleC07(rep *report, r *rng) {
	rep.Rule = "every type x canonical values x trailing bytes: Decode leaves exactly the trailing bytes; streams of 2..6 mixed messages in one buffer decode back in order with one receiver per type or a shared receiver per type, leaving the buffer empty"
	n := rounds(rep, 3, 20)
	forTypesAndEntries(r, func(t *genType, mk func(genOpts) any, tag string) {
		for k := 0; k < n && !rep.failed(); k++ {
			if k == 2 {
				forceListLen = 25 + r.intn(40) // mid-size lists: block-wise readers have their thresholds here
			}
			m := mk(genOpts{canonical: true, bigLists: k == 1})
			forceListLen = 0
			before := dumpMsg(m)
			st, enc := encodeFresh(m)
			if st != "ok" {
				continue
			}
			tail := r.bytes(1 + r.intn(12))
			if k%3 == 0 {
				tail = append([]byte{}, enc...) // the same message again
			}
			rep.eval("tail/"+t.Pkg, before+hx(tail))
			recv := t.New()
			in := inputOf(t, "value", before, "encoded_hex", hx(enc), "tail_hex", hx(tail), "tag", tag)
			st, rest := decodeInto(recv, append(append([]byte{}, enc...), tail...))
			if st != "ok" {
				rep.fail(failure{Oracle: "exact-consumption", Type: t.QName(), What: "Decode of an encoding followed by more bytes returned " + st, Input: in})
				continue
			}
			if !bytes.Equal(rest, tail) {
				in["left_hex"] = hx(rest)
				rep.fail(failure{Oracle: "exact-consumption", Type: t.QName(), What: fmt.Sprintf("Decode consumed %d bytes, the message is %d bytes", len(enc)+len(tail)-len(rest), len(enc)), Input: in})
			}
		}
	})
	// lists whose byte size passes 2^16 behind a 16-bit count
	for ti := range genTypes {
		t := &genTypes[ti]
		ms, descs := wrapSizeMessages(r, t)
		for mi, m := range ms {
			if rep.failed() {
				break
			}
			st, enc := encodeFresh(m)
			if st != "ok" {
				continue
			}
			tail := r.bytes(1 + r.intn(12))
			rep.eval("tail-wrap/"+t.Pkg, fmt.Sprint(t.Id, descs[mi]))
			recv := t.New()
			in := inputOf(t, "value", descs[mi]+" (other fields canonical random)", "encoded_len", len(enc), "tail_hex", hx(tail))
			st, rest := decodeInto(recv, append(append([]byte{}, enc...), tail...))
			if st != "ok" {
				rep.fail(failure{Oracle: "exact-consumption", Type: t.QName(), What: "Decode of an encoding followed by more bytes returned " + st, Input: in})
				continue
			}
			if !bytes.Equal(rest, tail) {
				in["left_len"] = len(rest)
				rep.fail(failure{Oracle: "exact-consumption", Type: t.QName(), What: fmt.Sprintf("Decode consumed %d bytes, the message is %d bytes", len(enc)+len(tail)-len(rest), len(enc)), Input: in})
				continue
			}
			if dumpMsg(recv) != dumpMsg(m) {
				rep.fail(failure{Oracle: "exact-consumption", Type: t.QName(), What: "the decoded message differs from the encoded one", Input: in})
			}
		}
	}
	// streams with reused receivers
	for k := 0; k < rounds(rep, 150, 2000) && !rep.failed(); k++ {
		buf := &bytes.Buffer{}
		var types []*genType
		var posts []string
		cnt := 2 + r.intn(5)
		sameOwner := r.chance(1, 2)
		owner := r.pickType()
		for j := 0; j < cnt; j++ {
			t := owner
			if !sameOwner {
				t = r.pickType()
			}
			m := r.genMessage(t, genOpts{canonical: true})
			if callEncode(m, buf) != "ok" {
				buf.Reset()
				types, posts = nil, nil
				break
			}
			types = append(types, t)
			posts = append(posts, dumpMsg(m))
		}
		if len(types) == 0 {
			continue
		}
		all := append([]byte{}, buf.Bytes()...)
		shared := map[int]any{}
		rep.eval("stream", fmt.Sprint(len(all), posts[0]))
		for j, t := range types {
			var recv any
			if r.chance(1, 2) {
				recv = t.New()
			} else {
				if shared[t.Id] == nil {
					shared[t.Id] = t.New()
				}
				recv = shared[t.Id]
			}
			st := callDecode(recv, buf)
			if st != "ok" || dumpMsg(recv) != posts[j] {
				var names []string
				for _, x := range types {
					names = append(names, x.QName())
				}
				rep.fail(failure{Oracle: "stream", Type: t.QName(), What: fmt.Sprintf("message %d of a stream of %d decoded with status %s and/or a different value", j, len(types), st),
					Input: map[string]any{"types": names, "stream_hex": hx(all), "index": j, "expected": posts[j], "decoded": dumpMsg(recv)}})
				break
			}
			if j == len(types)-1 && buf.Len() != 0 {
				rep.fail(failure{Oracle: "stream", Type: t.QName(), What: fmt.Sprintf("%d bytes left after decoding every message of the stream", buf.Len()), Input: map[string]any{"stream_hex": hx(all)}})
			}
		}
	}
}

// ---------- C08 ----------
func expectedReencode(t *genType, consumed []byte) []byte {
	exp := append([]byte{}, consumed...)
	if t.Frame.Len < 0 {
		return exp
	}
	h := frameHdrWidth(t)
	sumW := 0
	if t.Frame.Sum >= 0 {
		sumW = 4
	}
	if len(exp) < h+4+sumW {
		return exp
	}
	le := frameLE(t)
	putUint(exp[h:h+4], le, uint64(len(exp)-h-4-sumW))
	if t.Frame.Sum >= 0 {
		putUint(exp[len(exp)-4:], le, refAlg(t.Frame.Alg, exp[:len(exp)-4]))
	}
	return exp
}

func oracleC08(rep *report, r *rng) {
	rep.Rule = "every type x byte strings its decoder accepts (valid encodings; mutated with pad/NUL/space/high bytes, flipped bits, altered length/checksum fields, inflated frame lengths with inserted bytes; random): Encode(Decode(bytes)) must equal the consumed bytes, computed length/checksum slots replaced by their correct values"
	n := rounds(rep, 18, 150)
	forTypesAndEntries(r, func(t *genType, mk func(genOpts) any, tag string) {
		for k := 0; k < n && !rep.failed(); k++ {
			m := mk(genOpts{canonical: r.chance(2, 3)})
			st, enc := encodeFresh(m)
			if st != "ok" {
				continue
			}
			var in []byte
			var how string
			switch k % 6 {
			case 0:
				in, how = append(enc, r.bytes(r.intn(5))...), "valid+tail"
			case 1, 2:
				in, how = r.mutateBytes(enc), "mutated"
				if r.chance(1, 2) {
					in = r.mutateBytes(in)
				}
			case 3:
				// non-UTF-8 / GBK text and pad placement everywhere a printable byte stands
				in = append([]byte{}, enc...)
				for i := range in {
					if in[i] >= 0x21 && in[i] < 0x7f && r.chance(1, 6) {
						in[i] = []byte{0xbc, 0xdb, 0xb8, 0xf1, ' ', 0, 0xff, '0'}[r.intn(8)]
					}
				}
				how = "text-bytes"
			case 4:
				if t.Frame.Len >= 0 {
					// claim a longer body and insert bytes before the trailer
					h := frameHdrWidth(t)
					sumW := 0
					if t.Frame.Sum >= 0 {
						sumW = 4
					}
					extra := 1 + r.intn(6)
					in = append([]byte{}, enc[:len(enc)-sumW]...)
					in = append(in, r.bytes(extra)...)
					in = append(in, enc[len(enc)-sumW:]...)
					putUint(in[h:h+4], frameLE(t), uint64(len(enc)-h-4-sumW+extra))
					in = append(in, r.bytes(8)...)
					how = "inflated-length"
				} else {
					in, how = r.mutateBytes(enc), "mutated"
				}
			case 5:
				in, how = r.bytes(r.intn(64)), "random"
			}
			recv := t.New()
			st, rest := decodeInto(recv, in)
			rep.eval("reencode/"+how+"/"+st, hx(in))
			if st != "ok" {
				continue
			}
			consumed := in[:len(in)-len(rest)]
			dec := dumpMsg(recv)
			inp := inputOf(t, "input_hex", hx(in), "consumed_hex", hx(consumed), "decoded", dec, "mutation", how, "tag", tag)
			st2, out := encodeFresh(recv)
			if st2 != "ok" {
				rep.fail(failure{Oracle: "reencode", Type: t.QName(), What: "Encode of a decoded message returned " + st2, Input: inp})
				continue
			}
			want := expectedReencode(t, consumed)
			if !bytes.Equal(out, want) {
				inp["reencoded_hex"] = hx(out)
				inp["expected_hex"] = hx(want)
				rep.fail(failure{Oracle: "reencode", Type: t.QName(), What: "re-encoding the decoded message does not reproduce the bytes consumed", Input: inp})
			}
		}
	})
}

// ---------- C09 ----------
func hostileInputs(r *rng, t *genType, enc []byte, n int) [][]byte {
	var out [][]byte
	out = append(out, nil, []byte{0}, bytes.Repeat([]byte{0}, 64), bytes.Repeat([]byte{0xff}, 64), r.bytes(r.intn(64)))
	if len(enc) > 0 {
		for k := 0; k < n; k++ {
			out = append(out, enc[:r.intn(len(enc))])
			out = append(out, r.mutateBytes(enc))
			// 1..8 bytes of 0xff / near-maximal values at a position
			c := append([]byte{}, enc...)
			i := r.intn(len(c))
			w := []int{1, 2, 4, 8}[r.intn(4)]
			for j := i; j < len(c) && j < i+w; j++ {
				c[j] = 0xff
			}
			if r.chance(1, 2) && i+w <= len(c) {
				c[i+w-1] = byte(0xff - r.intn(5))
				if r.chance(1, 2) {
					c[i], c[i+w-1] = c[i+w-1], c[i]
				}
			}
			if end := i + w; r.chance(1, 2) && end < len(c) {
				c = c[:end+r.intn(len(c)-end+1)]
			}
			out = append(out, c)
		}
	}
	return out
}

// lengths of every list and text anywhere inside a message (by reflection)
func collectLens(v reflect.Value, out map[int]bool, depth int) {
	if depth > 6 {
		return
	}
	switch v.Kind() {
	case reflect.Ptr, reflect.Interface:
		if !v.IsNil() {
			collectLens(v.Elem(), out, depth+1)
		}
	case reflect.Struct:
		for i := 0; i < v.NumField(); i++ {
			collectLens(v.Field(i), out, depth+1)
		}
	case reflect.Slice:
		out[v.Len()] = true
		for i := 0; i < v.Len() && i < 3; i++ {
			collectLens(v.Index(i), out, depth+1)
		}
	case reflect.String:
		out[v.Len()] = true
	}
}

// inflated counts and lengths: wherever the encoding holds the length of one of the message's lists or texts as a
// 1/2/4-byte integer (either order), claim far more - keeping every element that follows intact, so that a reader
// sees many well-formed elements before the data runs out
func inflatedInputs(r *rng, m any, enc []byte, max int) [][]byte {
	lens := map[int]bool{}
	collectLens(reflect.ValueOf(m), lens, 0)
	var out [][]byte
	// a frame's own length field (its value after Encode): boundary values around 2^32 and 2^31, and off-by-one
	if t := typeOfMsg(m); t != nil && t.Frame.Len >= 0 {
		lv := bitsOf(reflect.ValueOf(m).Elem().Field(t.Frame.Len))
		for _, le := range []bool{false, true} {
			pat := countBytes(le, 4, lv)
			for off := 0; off+4 <= len(enc) && off < 64; off++ {
				if !bytes.Equal(enc[off:off+4], pat) {
					continue
				}
				for _, claim := range []uint64{0xffffffff, 0xfffffffe, 0xfffffffd, 0xfffffffc, 0xfffffffb, 0x80000000, 0x7fffffff, 0x80000001, lv + 1, lv - 1, lv + 4, 0} {
					c := append([]byte{}, enc...)
					copy(c[off:off+4], countBytes(le, 4, claim&0xffffffff))
					out = append(out, c)
				}
				break
			}
		}
	}
	for n := range lens {
		if n < 2 {
			continue
		}
		for _, w := range []int{4, 2, 1} {
			if w < 4 && n >= 1<<(8*uint(w)) {
				continue
			}
			for _, le := range []bool{false, true} {
				pat := countBytes(le, w, uint64(n))
				for off := 0; off+w <= len(enc); off++ {
					if !bytes.Equal(enc[off:off+w], pat) {
						continue
					}
					for _, claim := range []uint64{0xffffffff, 0x02000000, 0x7fffffff, uint64(n) * 1000} {
						c := append([]byte{}, enc...)
						copy(c[off:off+w], countBytes(le, w, claim&(1<<(8*uint(w))-1)))
						out = append(out, c)
					}
					if len(out) >= max {
						return out
					}
				}
				if w == 1 {
					break
				}
			}
		}
	}
	return out
}

func oracleC09(rep *report, r *rng) {
	rep.Rule = "every type x hostile byte strings (empty, zeros, 0xff runs, random, every kind of truncation, bit flips, maximal / near-maximal counts and lengths at random positions, unknown discriminators) x fresh and used receivers: Decode must return normally (recover + 20 s watchdog per call)"
	n := rounds(rep, 20, 200)
	forTypesAndEntries(r, func(t *genType, mk func(genOpts) any, tag string) {
		m := mk(genOpts{canonical: true, bigLists: r.chance(1, 6)})
		_, enc := encodeFresh(m)
		ins := append(hostileInputs(r, t, enc, n), inflatedInputs(r, m, enc, 16)...)
		if tag == "" && hasListField(t) {
			// a valid message whose lists are long enough for byte offsets to pass 65,536 (16-bit index arithmetic)
			forceListLen = 7000
			big := mk(genOpts{canonical: true})
			forceListLen = 0
			if stb, encb := encodeFresh(big); stb == "ok" && len(encb) < 4<<20 {
				ins = append(ins, encb, append(append([]byte{}, encb...), 1, 2, 3))
			}
		}
		for _, in := range ins {
			if rep.failed() {
				return
			}
			var recv any = t.New()
			how := "fresh"
			if r.chance(1, 4) {
				recv, how = r.dirtyReceiver(t)
			} else if r.chance(1, 6) {
				// a frame object that was encoded with a nil body and is reused for decoding
				recv = r.genMessage(t, genOpts{nilBody: 1})
				encodeFresh(recv)
				how = "encoded-with-nil-body"
			}
			inp := inputOf(t, "input_hex", hx(in), "receiver", how)
			watch("Decode "+t.QName(), inp)
			st, _ := decodeInto(recv, in)
			unwatch()
			rep.eval("hostile/"+st, t.Name+hx(in))
			if st == "panic" {
				rep.fail(failure{Oracle: "no-panic", Type: t.QName(), What: "Decode panicked", Input: inp})
			}
		}
	})
}

// ---------- C10 ----------
type decoder interface{ Decode(*bytes.Buffer) error }

func measureDecode(recv any, buf *bytes.Buffer) (delta uint64, status string) {
	var a, b runtime.MemStats
	d := recv.(decoder)
	runtime.ReadMemStats(&a)
	func() {
		defer func() {
			if e := recover(); e != nil {
				status = "panic"
			}
		}()
		if err := d.Decode(buf); err != nil {
			status = "err"
		} else {
			status = "ok"
		}
	}()
	runtime.ReadMemStats(&b)
	return b.TotalAlloc - a.TotalAlloc, status
}

const allocC0 = 8192
const allocC1 = 64

func oracleC10(rep *report, r *rng) {
	rep.Rule = fmt.Sprintf("every type x hostile and honest byte strings x buffers with and without spare capacity: bytes allocated by one Decode (runtime.MemStats.TotalAlloc delta, GC off, single goroutine) must stay below %d + %d x input length", allocC0, allocC1)
	old := debug.SetGCPercent(-1)
	defer debug.SetGCPercent(old)
	n := rounds(rep, 8, 60)
	big := make([]byte, 0, 8<<20) // a receive buffer with a lot of spare capacity
	worst := 0.0
	forTypesAndEntries(r, func(t *genType, mk func(genOpts) any, tag string) {
		m := mk(genOpts{canonical: true, bigLists: r.chance(1, 4)})
		_, enc := encodeFresh(m)
		ins := hostileInputs(r, t, enc, n)
		ins = append(ins, enc)
		forceListLen = 20
		mb := mk(genOpts{canonical: true})
		forceListLen = 0
		_, encb := encodeFresh(mb)
		ins = append(ins, inflatedInputs(r, mb, encb, 48)...)
		for _, in := range ins {
			if rep.failed() {
				return
			}
			var buf *bytes.Buffer
			how := "exact"
			if r.chance(1, 3) {
				b := append(big[:0], in...)
				buf = bytes.NewBuffer(b)
				how = "spare-capacity"
			} else {
				buf = bytes.NewBuffer(append([]byte{}, in...))
			}
			recv := t.New()
			inp := inputOf(t, "input_hex", hx(in), "buffer", how, "input_len", len(in))
			watch("Decode "+t.QName(), inp)
			delta, st := measureDecode(recv, buf)
			unwatch()
			rep.eval("alloc/"+st+"/"+how, t.Name+hx(in))
			limit := uint64(allocC0 + allocC1*len(in))
			if ratio := float64(delta) / float64(limit); ratio > worst {
				worst = ratio
			}
			if delta > limit {
				inp["allocated_bytes"] = delta
				inp["limit_bytes"] = limit
				rep.fail(failure{Oracle: "alloc-bound", Type: t.QName(), What: fmt.Sprintf("Decode of %d input bytes allocated %d bytes (limit %d)", len(in), delta, limit), Input: inp})
			}
		}
	})
	rep.Stats["worst_ratio_permille"] = int(worst * 1000)
	rep.sample(fmt.Sprintf("worst allocated/limit ratio on this run: %.3f", worst))
	runtime.GC()
}

// ---------- C11 ----------
// cut positions at list start + k*block*elemSize, for every place the encoding holds one of the message's list lengths
func blockCuts(m any, enc []byte) []int {
	lens := map[int]bool{}
	collectLens(reflect.ValueOf(m), lens, 0)
	var out []int
	for n := range lens {
		if n < 64 {
			continue
		}
		for _, w := range []int{2, 4} {
			for _, le := range []bool{false, true} {
				pat := countBytes(le, w, uint64(n))
				for off := 0; off+w <= len(enc); off++ {
					if !bytes.Equal(enc[off:off+w], pat) {
						continue
					}
					start := off + w
					for _, esz := range []int{1, 2, 4, 8, 10, 16} {
						for _, blk := range []int{64, 100, 128, 256, 500, 512, 1000, 1024, 2048, 4096} {
							for k := 1; k*blk < n && start+k*blk*esz < len(enc); k++ {
								out = append(out, start+k*blk*esz)
							}
						}
					}
				}
			}
		}
	}
	return out
}

func hasListField(t *genType) bool {
	for _, f := range t.Fields {
		if f.Kind == "ints" || f.Kind == "strs" || f.Kind == "ptrs" {
			return true
		}
	}
	return false
}

func oracleC11(rep *report, r *rng) {
	rep.Rule = "every type x every registered key x canonical values (incl. one with 1,100-element lists per plain list-bearing type) x every cut position up to 8 KiB, beyond that every 8th, the last 4 KiB and all whole-block cuts inside lists: Decode of the strict prefix must return an error"
	n := rounds(rep, 2, 12)
	forTypesAndEntries(r, func(t *genType, mk func(genOpts) any, tag string) {
		for k := 0; k < n && !rep.failed(); k++ {
			if k == 1 && tag == "" && hasListField(t) {
				forceListLen = 1100 // long lists: readers that work block-wise have boundaries inside them
			}
			m := mk(genOpts{canonical: true, bigLists: k == 1})
			forceListLen = 0
			before := dumpMsg(m)
			st, enc := encodeFresh(m)
			if st != "ok" {
				continue
			}
			if len(enc) > 1<<18 {
				continue
			}
			hk := uint64(14695981039346656037)
			for i := 0; i < len(before); i++ {
				hk = (hk ^ uint64(before[i])) * 1099511628211
			}
			beforeKey := fmt.Sprintf("%x", hk)
			if len(before) > 4000 {
				before = before[:4000] + "...(long value: regenerate from the seed)"
			}
			// every cut position up to 16 KiB; beyond that every 8th and, after each place where the encoding holds one
			// of the message's list lengths (a list starts there), the cuts at whole numbers of elements that are
			// multiples of common block sizes - where a block-wise reader may stop early
			cuts := map[int]bool{}
			if len(enc) <= 8192 {
				for c := 0; c < len(enc); c++ {
					cuts[c] = true
				}
			} else {
				for c := 0; c < len(enc); c += 8 {
					cuts[c] = true
				}
				for c := len(enc) - 4096; c < len(enc); c++ {
					if c >= 0 {
						cuts[c] = true
					}
				}
			}
			for _, c := range blockCuts(m, enc) {
				cuts[c] = true
			}
			var order []int
			for c := range cuts {
				order = append(order, c)
			}
			sort.Ints(order)
			for _, cut := range order {
				recv := t.New()
				if k%2 == 1 && cut%3 == 0 {
					recv, _ = r.dirtyReceiver(t)
				}
				st, _ := decodeInto(recv, enc[:cut])
				rep.eval("cut/"+st, fmt.Sprint(t.Id, cut, beforeKey))
				if st != "err" {
					rep.fail(failure{Oracle: "prefix-rejected", Type: t.QName(), What: fmt.Sprintf("Decode of the first %d of %d bytes returned %s", cut, len(enc), st),
						Input: inputOf(t, "value", before, "encoded_hex", hx(enc), "cut", cut, "tag", tag)})
					break
				}
			}
		}
	})
	// lists whose byte size passes 2^16 behind a 16-bit count: a presence check computed in the prefix type wraps
	for ti := range genTypes {
		t := &genTypes[ti]
		ms, descs := wrapSizeMessages(r, t)
		for mi, m := range ms {
			st, enc := encodeFresh(m)
			if st != "ok" || rep.failed() {
				continue
			}
			cuts := []int{0, 1, 2, 3, 4, 6, 8, 16, len(enc) / 2, len(enc) - 1, len(enc) - 2, len(enc) - 7, len(enc) - 64, len(enc) - 4097}
			for j := 0; j < 24; j++ {
				cuts = append(cuts, r.intn(len(enc)))
			}
			for _, cut := range cuts {
				if cut < 0 || cut >= len(enc) {
					continue
				}
				recv := t.New()
				st, _ := decodeInto(recv, enc[:cut])
				rep.eval("cut-wrap/"+st, fmt.Sprint(t.Id, mi, cut))
				if st != "err" {
					rep.fail(failure{Oracle: "prefix-rejected", Type: t.QName(), What: fmt.Sprintf("Decode of the first %d of %d bytes returned %s", cut, len(enc), st),
						Input: inputOf(t, "value", descs[mi]+" (other fields canonical random)", "encoded_len", len(enc), "cut", cut)})
					break
				}
			}
		}
	}
}

// ---------- C15 ----------
func oracleC15(rep *report, r *rng) {
	rep.Rule = "every type x byte strings (valid encodings of every key, mutated, truncated) x receivers with a history (earlier successful decodes of other values/keys, failed decodes, random fills, mismatched bodies): status, message and bytes left must equal those of a fresh receiver"
	n := rounds(rep, 12, 100)
	forTypesAndEntries(r, func(t *genType, mk func(genOpts) any, tag string) {
		for k := 0; k < n && !rep.failed(); k++ {
			m := mk(genOpts{canonical: r.chance(3, 4), bigLists: k == 1})
			st, enc := encodeFresh(m)
			if st != "ok" {
				continue
			}
			in := enc
			how := "valid"
			switch k % 5 {
			case 3:
				in, how = r.mutateBytes(enc), "mutated"
			case 4:
				m2 := mk(genOpts{canonical: true, nilBody: 2})
				if st2, e2 := encodeFresh(m2); st2 == "ok" {
					in, how = e2, "unknown-key"
				}
			}
			fresh := t.New()
			stF, restF := decodeInto(fresh, in)
			for j := 0; j < 3; j++ {
				dirty, hist := r.dirtyReceiver(t)
				dirtyBefore := dumpMsg(dirty)
				stD, restD := decodeInto(dirty, in)
				rep.eval("receiver/"+how+"/"+stF, hx(in)+dirtyBefore)
				inp := inputOf(t, "input_hex", hx(in), "receiver_before", dirtyBefore, "receiver_history", hist, "input_kind", how, "tag", tag)
				if stD != stF {
					rep.fail(failure{Oracle: "receiver-independence", Type: t.QName(), What: fmt.Sprintf("fresh receiver: %s, used receiver: %s", stF, stD), Input: inp})
					break
				}
				if stF != "ok" {
					continue
				}
				if dumpMsg(dirty) != dumpMsg(fresh) || !bytes.Equal(restD, restF) {
					inp["fresh_result"] = dumpMsg(fresh)
					inp["used_result"] = dumpMsg(dirty)
					rep.fail(failure{Oracle: "receiver-independence", Type: t.QName(), What: "decoding into a used receiver gives a different message", Input: inp})
					break
				}
			}
		}
	})
}

// ---------- C16 ----------
func oracleC16(rep *report, r *rng) {
	rep.Rule = "every type x values: after Decode the source backing array is overwritten (scribble, Reset + refill with another frame) and the message must not change; after Encode the message's lists, nested parts and text are mutated and the bytes written must not change"
	n := rounds(rep, 4, 20)
	forTypesAndEntries(r, func(t *genType, mk func(genOpts) any, tag string) {
		for k := 0; k < n && !rep.failed(); k++ {
			if k == 2 {
				forceListLen = 64 + r.intn(40) // bulk paths (one read for a whole list) start at thresholds like these
			}
			if k == 3 {
				forceListLen = 300 + r.intn(300)
			}
			m := mk(genOpts{canonical: true, bigLists: k == 1})
			forceListLen = 0
			st, enc := encodeFresh(m)
			if st != "ok" {
				continue
			}
			// decode direction
			backing := make([]byte, len(enc), len(enc)+64)
			copy(backing, enc)
			buf := bytes.NewBuffer(backing)
			recv := t.New()
			if callDecode(recv, buf) == "ok" {
				snap := dumpMsg(recv)
				how := "scribble"
				if k%2 == 0 {
					for i := range backing {
						backing[i] ^= 0x20 | byte(i)
					}
				} else {
					how = "reset+refill"
					buf.Reset()
					m2 := mk(genOpts{canonical: true})
					callEncode(m2, buf)
					full := backing[:cap(backing)]
					for i := buf.Len(); i < len(full); i++ {
						full[i] = 0xEE
					}
				}
				rep.eval("decode-alias/"+how, snap)
				if after := dumpMsg(recv); after != snap {
					rep.fail(failure{Oracle: "decode-alias", Type: t.QName(), What: "a decoded message changed when its source buffer was overwritten (" + how + ")",
						Input: inputOf(t, "encoded_hex", hx(enc), "message_before", snap, "message_after", after, "tag", tag)})
				}
			}
			// encode direction
			m3 := mk(genOpts{canonical: true})
			buf3 := &bytes.Buffer{}
			if callEncode(m3, buf3) == "ok" {
				snap := append([]byte{}, buf3.Bytes()...)
				mutateInPlace(reflect.ValueOf(m3).Elem(), typeOfMsg(m3))
				rep.eval("encode-alias", dumpMsg(m3))
				if !bytes.Equal(buf3.Bytes(), snap) {
					rep.fail(failure{Oracle: "encode-alias", Type: t.QName(), What: "bytes already written changed when the message was mutated",
						Input: inputOf(t, "written_hex", hx(snap), "now_hex", hx(buf3.Bytes()), "tag", tag)})
				}
			}
		}
	})
}

func mutateInPlace(ev reflect.Value, t *genType) {
	for i := range t.Fields {
		f := &t.Fields[i]
		fv := ev.Field(i)
		switch f.Kind {
		case "int":
			setBits(fv, ^bitsOfField(fv))
		case "str":
			fv.SetString("~~mutated~~")
		case "ints":
			for j := 0; j < fv.Len(); j++ {
				setBits(fv.Index(j), ^bitsOfField(fv.Index(j)))
			}
		case "strs":
			for j := 0; j < fv.Len(); j++ {
				fv.Index(j).SetString("~~")
			}
		case "ptr", "iface":
			if !fv.IsNil() {
				e := fv
				if e.Kind() == reflect.Interface {
					e = e.Elem()
				}
				mutateInPlace(e.Elem(), typeByRT[e.Elem().Type()])
			}
		case "val":
			mutateInPlace(fv, typeById[f.Ref])
		case "ptrs":
			for j := 0; j < fv.Len(); j++ {
				if !fv.Index(j).IsNil() {
					mutateInPlace(fv.Index(j).Elem(), typeById[f.Ref])
				}
			}
		}
	}
}

// ---------- C17 ----------
func oracleC17(rep *report, r *rng) {
	rep.Rule = "every type x {zero value, constructor result, arbitrary field contents incl. over-long and non-UTF-8 text, long lists, nil nested parts, nil body/extension with registered and unregistered key, mismatching body} x buffer histories: Encode must return normally"
	n := rounds(rep, 40, 400)
	var last [][]byte
	for ti := range genTypes {
		t := &genTypes[ti]
		for k := 0; k < n+2 && !rep.failed(); k++ {
			var m any
			how := ""
			switch {
			case k == 0:
				m, how = t.New(), "zero"
			case k == 1:
				m, how = t.New(), "zero-into-used-buffer"
			default:
				o := genOpts{canonical: false, bigLists: k%5 == 0, nilBody: []int{0, 1, 2, 3, 0, 1}[k%6]}
				m, how = r.genMessage(t, o), fmt.Sprintf("random nilBody=%d", o.nilBody)
				if k%4 == 3 {
					overlongNonUTF8(r, reflect.ValueOf(m).Elem(), t)
					how += " overlong-high-bytes"
				}
			}
			before := dumpMsg(m)
			var pre, consumed []byte
			hdesc := "empty"
			if k != 0 {
				pre, consumed, hdesc, _ = r.history(last)
			}
			inp := inputOf(t, "value", before, "kind", how, "prior_unread_hex", hx(pre), "consumed_bytes", len(consumed), "history", hdesc)
			watch("Encode "+t.QName(), inp)
			st, out, _ := encodeInto(m, pre, consumed, 0)
			unwatch()
			rep.eval("encode/"+st+"/"+hdesc, before+hdesc)
			if st == "panic" {
				rep.fail(failure{Oracle: "no-panic", Type: t.QName(), What: "Encode panicked", Input: inp})
			}
			if st == "ok" && len(out)-len(pre) < 2048 && len(out) >= len(pre) {
				last = append(last, out[len(pre):])
				if len(last) > 6 {
					last = last[1:]
				}
			}
		}
	}
}

func overlongNonUTF8(r *rng, ev reflect.Value, t *genType) {
	for i := range t.Fields {
		f := &t.Fields[i]
		fv := ev.Field(i)
		switch {
		case f.Kind == "str" && f.Wire == "fixed":
			b := bytes.Repeat([]byte{byte(0x80 + r.intn(0x40))}, f.N+1+r.intn(3))
			fv.SetString(string(b))
		case f.Kind == "ptr" || f.Kind == "iface":
			if !fv.IsNil() {
				e := fv
				if e.Kind() == reflect.Interface {
					e = e.Elem()
				}
				overlongNonUTF8(r, e.Elem(), typeByRT[e.Elem().Type()])
			}
		}
	}
}

// ---------- C18 ----------
func oracleC18(rep *report, r *rng) {
	rep.Rule = "every prefixed writer x prefix widths 8/16 bit (32-bit limits need 4 GiB and are covered by the theorem only) x lengths max-1, max, max+1, max+2, 70000; every message type with a prefixed text or list field x the same lengths: above the maximum Encode must return an error, at and below it the value must round-trip"
	// primitive level
	for _, le := range []bool{false, true} {
		for _, c := range []string{"U8", "U16"} {
			mx := prefixMax(c)
			for _, n := range []int{mx - 1, mx, mx + 1, mx + 2, 70000} {
				for _, kind := range []string{"string", "basiclist", "fixedlist", "stringlist", "stringlist-elem"} {
					if rep.failed() {
						return
					}
					var p primSpec
					var val any
					elt := []string{"U8", "I8", "U16", "U32"}[r.intn(4)]
					switch kind {
					case "string":
						p, val = primSpec{Kind: "string", Le: le, Len: c}, string(make([]byte, n))
					case "basiclist":
						p, val = primSpec{Kind: "basiclist", Le: le, Cnt: c, Ity: elt}, make([]uint64, n)
					case "fixedlist":
						p, val = primSpec{Kind: "fixedlist", Le: le, Cnt: c, N: 1, Pad: 32}, make([]string, n)
					case "stringlist":
						p, val = primSpec{Kind: "stringlist", Le: le, Cnt: c, Len: "U8"}, make([]string, n)
					case "stringlist-elem":
						p, val = primSpec{Kind: "stringlist", Le: le, Cnt: "U16", Len: c}, []string{"a", string(make([]byte, n)), "b"}
					}
					buf := &bytes.Buffer{}
					err := writePrim(p, val, buf)
					rep.eval("prim/"+kind, fmt.Sprint(p.text(), n))
					inp := map[string]any{"helper": p.text(), "length": n, "prefix_max": mx}
					if n > mx && err != nil {
						// the same call on a buffer that already has room for everything
						buf = &bytes.Buffer{}
						buf.Grow(1 << 20)
						err = writePrim(p, val, buf)
						inp["buffer"] = "pre-grown 1 MiB"
					}
					if n > mx {
						if err == nil {
							inp["prefix_written_hex"] = hx(buf.Bytes()[:widthOf[c]])
							rep.fail(failure{Oracle: "overflow-refused", Type: kind, What: fmt.Sprintf("length %d behind a prefix whose maximum is %d was encoded without error", n, mx), Input: inp})
						}
						continue
					}
					if err != nil {
						rep.fail(failure{Oracle: "limit-accepted", Type: kind, What: fmt.Sprintf("length %d within the prefix maximum %d was refused", n, mx), Input: inp})
						continue
					}
					back, err := readPrim(p, buf)
					if err != nil || primValText(back) != primValText(val) || buf.Len() != 0 {
						rep.fail(failure{Oracle: "limit-accepted", Type: kind, What: fmt.Sprintf("length %d within the prefix maximum does not round-trip", n), Input: inp})
					}
				}
			}
		}
	}
	// message level
	for ti := range genTypes {
		t := &genTypes[ti]
		for i := range t.Fields {
			f := &t.Fields[i]
			var pfx string
			switch f.Wire {
			case "string":
				pfx = f.Len
			case "basiclist", "fixedlist", "stringlist", "objlist":
				pfx = f.Cnt
			default:
				continue
			}
			mx := prefixMax(pfx)
			if mx > 65535 {
				continue
			}
			var atLimit any
			for _, n := range []int{mx, mx + 1, 70000} {
				if rep.failed() {
					return
				}
				m := r.genMessage(t, genOpts{canonical: true})
				fv := reflect.ValueOf(m).Elem().Field(i)
				switch f.Kind {
				case "str":
					fv.SetString(string(bytes.Repeat([]byte{'x'}, n)))
				case "ptrs":
					sl := reflect.MakeSlice(fv.Type(), n, n)
					one := r.genMessage(typeById[f.Ref], genOpts{canonical: true})
					for j := 0; j < n; j++ {
						sl.Index(j).Set(reflect.ValueOf(one))
					}
					fv.Set(sl)
				default:
					fv.Set(reflect.MakeSlice(fv.Type(), n, n))
				}
				st, enc := encodeFresh(m)
				rep.eval("msg/"+f.Wire, fmt.Sprint(t.Id, i, n))
				inp := inputOf(t, "field", f.Name, "length", n, "prefix_max", mx)
				if n == mx {
					atLimit = m
				}
				if n == mx+1 && st != "ok" {
					// the refusal must not depend on how much room the caller's buffer happens to have
					for _, shape := range []string{"pre-grown-4MiB", "reset-after-a-large-legal-message"} {
						if st != "ok" {
							st, enc = encodeShaped(m, shape, atLimit)
							rep.eval("msg/"+f.Wire+"/"+shape, fmt.Sprint(t.Id, i, n))
						}
					}
				}
				if n > mx {
					if st == "ok" {
						rep.fail(failure{Oracle: "overflow-refused", Type: t.QName(), What: fmt.Sprintf("field %s with %d entries/bytes (prefix maximum %d) encoded without error", f.Name, n, mx), Input: inp})
					}
					continue
				}
				if st != "ok" {
					rep.fail(failure{Oracle: "limit-accepted", Type: t.QName(), What: fmt.Sprintf("field %s at its prefix maximum %d was refused (%s)", f.Name, mx, st), Input: inp})
					continue
				}
				recv := t.New()
				st2, rest := decodeInto(recv, enc)
				if st2 != "ok" || len(rest) != 0 || dumpMsg(recv) != dumpMsg(m) {
					rep.fail(failure{Oracle: "limit-accepted", Type: t.QName(), What: fmt.Sprintf("field %s at its prefix maximum %d does not round-trip", f.Name, mx), Input: inp})
				}
			}
		}
	}
}
