(* Theory/ReadFacts.v — facts about the readers of the codec model used by the decode-side theorems:
   outcome classes (never panic / never out of fuel under stated side conditions) and consumption
   (a successful read consumes a prefix of its input and leaves the rest untouched). *)
From FP.Model Require Import Sem.
From Coq Require Import ZifyBool ZifyNat ZifyN.
Local Open Scope N_scope.

Definition ok_or_err {A} (r : res A) : Prop := (exists a, r = Ok a) \/ r = Fail FErr.

Definition small (t : ity) : bool := Nat.leb (width t) 4.
Definition tiny (t : ity) : bool := Nat.leb (width t) 2.

Lemma bound_small t : small t = true -> bound t <= 4294967296.
Proof. destruct t; cbn; intro H; try discriminate; unfold bound, pow256; cbn; lia. Qed.
Lemma bound_tiny t : tiny t = true -> bound t <= 65536.
Proof. destruct t; cbn; intro H; try discriminate; unfold bound, pow256; cbn; lia. Qed.

(* ---- scalars ---- *)
Lemma read_basic_cases le t buf :
  (exists a rest, length a = width t /\ buf = a ++ rest /\ read_basic le t buf = Ok (int_val (ord le) a, rest))
  \/ ((length buf < width t)%nat /\ read_basic le t buf = Fail FErr).
Proof.
  unfold read_basic. destruct (take (width t) buf) as [[a r]|] eqn:E.
  - left. apply take_spec in E. destruct E as [E1 E2]. exists a, r. repeat split; assumption.
  - right. apply take_none in E. split; [exact E|reflexivity].
Qed.

Lemma read_basic_lt le t buf n rest : read_basic le t buf = Ok (n, rest) -> n < bound t.
Proof.
  destruct (read_basic_cases le t buf) as [[a [r [Hl [_ H]]]]|[_ H]]; rewrite H; intro E; inversion E; subst.
  unfold bound. rewrite <- Hl. apply int_val_lt.
Qed.

Lemma wire_count_small t n : small t = true -> n < bound t -> wire_count n = Ok n.
Proof.
  intros Hs Hn. pose proof (bound_small t Hs). unfold wire_count.
  destruct (N.leb_spec 9223372036854775808 n); [lia|reflexivity].
Qed.

(* ---- counted loops ---- *)
Section ReadN.
  Context {A : Type}.
  Variable rd : list byte -> res (A * list byte).
  Hypothesis rd_safe : forall b, ok_or_err (rd b).
  Hypothesis rd_consume : forall b a r, rd b = Ok (a, r) -> exists pre, b = pre ++ r.

  Lemma read_n_consume fuel : forall cnt buf l rest, read_n rd fuel cnt buf = Ok (l, rest) -> exists pre, buf = pre ++ rest.
  Proof.
    induction fuel as [|fuel IH]; intros cnt buf l rest H; cbn [read_n] in H.
    - destruct (cnt =? 0); [|discriminate]. inversion H; subst. exists []. reflexivity.
    - destruct (cnt =? 0); [inversion H; subst; exists []; reflexivity|].
      destruct (rd buf) as [[a r]|] eqn:E; cbn [bind] in H; [|discriminate].
      destruct (read_n rd fuel (N.pred cnt) r) as [[l' r']|] eqn:E2; cbn [bind] in H; [|discriminate].
      inversion H; subst. destruct (rd_consume _ _ _ E) as [p1 ->]. destruct (IH _ _ _ _ E2) as [p2 ->].
      exists (p1 ++ p2). rewrite app_assoc. reflexivity.
  Qed.

  (* fuel suffices when it covers the count, or when every element consumes at least one byte and the
     fuel exceeds the number of bytes available *)
  Lemma read_n_safe (nonzero : bool) :
    (nonzero = true -> forall b a r, rd b = Ok (a, r) -> lenN r < lenN b) ->
    forall fuel cnt buf,
    (cnt <= N.of_nat fuel \/ (nonzero = true /\ lenN buf < N.of_nat fuel)) ->
    ok_or_err (read_n rd fuel cnt buf).
  Proof.
    intros Hnz fuel. induction fuel as [|fuel IH]; intros cnt buf Hf; cbn [read_n].
    - destruct (N.eqb_spec cnt 0); [left; eexists; reflexivity|]. exfalso. cbn in Hf. lia.
    - destruct (N.eqb_spec cnt 0); [left; eexists; reflexivity|].
      destruct (rd_safe buf) as [[[a r] E]|E]; rewrite E; cbn [bind]; [|right; reflexivity].
      assert (Hf' : N.pred cnt <= N.of_nat fuel \/ (nonzero = true /\ lenN r < N.of_nat fuel)).
      { destruct Hf as [Hf|[Hz Hf]]; [left; lia|right]. split; [exact Hz|]. pose proof (Hnz Hz _ _ _ E). lia. }
      destruct (IH (N.pred cnt) r Hf') as [[[l r'] E2]|E2]; rewrite E2; cbn [bind]; [left; eexists; reflexivity|right; reflexivity].
  Qed.

  Lemma list_fuel_enough (nonzero : bool) n r :
    (n <= 65536 \/ nonzero = true) ->
    n <= N.of_nat (list_fuel n r) \/ (nonzero = true /\ lenN r < N.of_nat (list_fuel n r)).
  Proof.
    intro H. unfold list_fuel. rewrite N2Nat.id.
    destruct (N.le_gt_cases n (N.max 65536 (N.succ (lenN r)))) as [Hle|Hgt].
    - left. rewrite N.min_l by exact Hle. lia.
    - rewrite N.min_r by lia. destruct H as [H|H]; [lia|]. right. split; [exact H|]. lia.
  Qed.

  Lemma read_list_safe (nonzero : bool) le cnt buf :
    small cnt = true -> (tiny cnt = true \/ nonzero = true) ->
    (nonzero = true -> forall b a r, rd b = Ok (a, r) -> lenN r < lenN b) ->
    ok_or_err (read_list le cnt rd buf).
  Proof.
    intros Hs Ht Hnz. unfold read_list.
    destruct (read_basic_cases le cnt buf) as [[a [r [Hl [_ H]]]]|[_ H]]; rewrite H; cbn [bind]; [|right; reflexivity].
    assert (Hn : int_val (ord le) a < bound cnt) by (unfold bound; rewrite <- Hl; apply int_val_lt).
    rewrite (wire_count_small cnt _ Hs Hn). cbn [bind].
    apply (read_n_safe nonzero Hnz). apply list_fuel_enough.
    destruct Ht as [Ht|Ht]; [left|right; exact Ht]. pose proof (bound_tiny cnt Ht). lia.
  Qed.

  Lemma read_list_consume le cnt buf l rest : read_list le cnt rd buf = Ok (l, rest) -> exists pre, buf = pre ++ rest.
  Proof.
    unfold read_list.
    destruct (read_basic_cases le cnt buf) as [[a [r [Hl [Hb H]]]]|[_ H]]; rewrite H; cbn [bind]; [|discriminate].
    destruct (wire_count (int_val (ord le) a)) as [n|]; cbn [bind]; [|discriminate].
    intro E. destruct (read_n_consume _ _ _ _ _ E) as [p ->]. exists (a ++ p). rewrite Hb, app_assoc. reflexivity.
  Qed.

  (* a list read consumes at least its count prefix *)
  Lemma read_list_nonzero le cnt buf l rest : read_list le cnt rd buf = Ok (l, rest) -> lenN rest < lenN buf.
  Proof.
    unfold read_list.
    destruct (read_basic_cases le cnt buf) as [[a [r [Hl [Hb H]]]]|[_ H]]; rewrite H; cbn [bind]; [|discriminate].
    destruct (wire_count (int_val (ord le) a)) as [n|]; cbn [bind]; [|discriminate].
    intro E. destruct (read_n_consume _ _ _ _ _ E) as [p ->]. subst buf. rewrite !lenN_app.
    assert (0 < lenN a) by (rewrite lenN_length, Hl; destruct cnt; cbn; lia). lia.
  Qed.
End ReadN.

(* ---- the non-object primitives ---- *)
Definition prim_dec_ok (p : prim) : bool :=
  match p with
  | PBasic _ _ | PFixed _ _ _ => true
  | PString _ l => small l
  | PBasicList _ c _ => small c
  | PFixedList _ c n _ _ => small c && (tiny c || Nat.ltb 0 n)
  | PStringList _ c l => small c && small l
  | PObjList _ _ _ => false
  end.

Lemma read_basic_safe le t b : ok_or_err (read_basic le t b).
Proof. destruct (read_basic_cases le t b) as [[a [r [_ [_ H]]]]|[_ H]]; rewrite H; [left; eexists; reflexivity|right; reflexivity]. Qed.
Lemma read_basic_consume le t b n r : read_basic le t b = Ok (n, r) -> exists pre, b = pre ++ r.
Proof. destruct (read_basic_cases le t b) as [[a [r' [_ [Hb H]]]]|[_ H]]; rewrite H; intro E; inversion E; subst. exists a. reflexivity. Qed.
Lemma read_basic_nonzero le t b n r : read_basic le t b = Ok (n, r) -> lenN r < lenN b.
Proof.
  destruct (read_basic_cases le t b) as [[a [r' [Hl [Hb H]]]]|[_ H]]; rewrite H; intro E; inversion E; subst.
  rewrite lenN_app. assert (0 < lenN a) by (rewrite lenN_length, Hl; destruct t; cbn; lia). lia.
Qed.

Lemma read_fixed_safe n pad lf b : ok_or_err (read_fixed n pad lf b).
Proof. unfold read_fixed. destruct (take n b) as [[x r]|]; [left; eexists; reflexivity|right; reflexivity]. Qed.
Lemma read_fixed_consume n pad lf b s r : read_fixed n pad lf b = Ok (s, r) -> exists pre, b = pre ++ r /\ length pre = n.
Proof.
  unfold read_fixed. destruct (take n b) as [[x r']|] eqn:E; [|discriminate]. intro H. inversion H; subst.
  apply take_spec in E. destruct E as [E1 E2]. exists x. split; assumption.
Qed.

Lemma read_string_safe le t b : small t = true -> ok_or_err (read_string le t b).
Proof.
  intro Hs. unfold read_string.
  destruct (read_basic_cases le t b) as [[a [r [Hl [_ H]]]]|[_ H]]; rewrite H; cbn [bind]; [|right; reflexivity].
  assert (Hn : int_val (ord le) a < bound t) by (unfold bound; rewrite <- Hl; apply int_val_lt).
  rewrite (wire_count_small t _ Hs Hn). cbn [bind].
  destruct (takeN (int_val (ord le) a) r) as [[s r']|]; [left; eexists; reflexivity|right; reflexivity].
Qed.
Lemma read_string_consume le t b s r : read_string le t b = Ok (s, r) -> exists pre, b = pre ++ r /\ lenN r < lenN b.
Proof.
  unfold read_string.
  destruct (read_basic_cases le t b) as [[a [r0 [Hl [Hb H]]]]|[_ H]]; rewrite H; cbn [bind]; [|discriminate].
  destruct (wire_count (int_val (ord le) a)) as [n|]; cbn [bind]; [|discriminate].
  destruct (takeN n r0) as [[s' r']|] eqn:E; [|discriminate]. intro X. inversion X; subst s' r'.
  apply takeN_spec in E. destruct E as [E1 E2]. exists (a ++ s). subst b r0. split; [rewrite app_assoc; reflexivity|].
  rewrite !lenN_app. assert (0 < lenN a) by (rewrite lenN_length, Hl; destruct t; cbn; lia). lia.
Qed.

Theorem r_prim_safe p buf : prim_dec_ok p = true -> ok_or_err (r_prim p buf).
Proof.
  intro Hp. destruct p; cbn [prim_dec_ok r_prim] in *; try discriminate.
  - destruct (read_basic_safe le t buf) as [[[n r] E]|E]; rewrite E; cbn [bind]; [left; eexists; reflexivity|right; reflexivity].
  - destruct (read_fixed_safe n pad left buf) as [[[s r] E]|E]; rewrite E; cbn [bind]; [left; eexists; reflexivity|right; reflexivity].
  - destruct (read_string_safe le len buf Hp) as [[[s r] E]|E]; rewrite E; cbn [bind]; [left; eexists; reflexivity|right; reflexivity].
  - unfold read_basic_list.
    destruct (read_list_safe (read_basic le elt) (read_basic_safe le elt) (read_basic_consume le elt) true le cnt buf Hp (or_intror eq_refl)
                (fun _ b a r => read_basic_nonzero le elt b a r)) as [[[l r] E]|E];
      rewrite E; cbn [bind]; [left; eexists; reflexivity|right; reflexivity].
  - apply andb_true_iff in Hp. destruct Hp as [Hs Hn]. unfold read_fixed_list.
    assert (Hnz : Nat.ltb 0 n = true -> forall b a r, read_fixed n pad left b = Ok (a, r) -> lenN r < lenN b).
    { intros Hz b a r E. destruct (read_fixed_consume _ _ _ _ _ _ E) as [pre [-> Hl]]. rewrite lenN_app.
      apply Nat.ltb_lt in Hz. rewrite (lenN_length pre). lia. }
    destruct (read_list_safe (read_fixed n pad left) (read_fixed_safe n pad left)
                (fun b a r E => let (pre, H) := read_fixed_consume n pad left b a r E in ex_intro _ pre (proj1 H)) (Nat.ltb 0 n) le cnt buf Hs
                (proj1 (orb_true_iff _ _) Hn) Hnz) as [[[l r] E]|E];
      rewrite E; cbn [bind]; [left; eexists; reflexivity|right; reflexivity].
  - apply andb_true_iff in Hp. destruct Hp as [Hs Hl]. unfold read_string_list.
    destruct (read_list_safe (read_string le len) (fun b => read_string_safe le len b Hl)
                (fun b a r E => let (pre, H) := read_string_consume le len b a r E in ex_intro _ pre (proj1 H)) true le cnt buf Hs (or_intror eq_refl)
                (fun _ b a r E => let (pre, H) := read_string_consume le len b a r E in proj2 H)) as [[[l r] E]|E];
      rewrite E; cbn [bind]; [left; eexists; reflexivity|right; reflexivity].
Qed.

Lemma read_fixed_list_consume le cnt n pad lf buf l rest :
  read_fixed_list le cnt n pad lf buf = Ok (l, rest) -> exists pre, buf = pre ++ rest.
Proof.
  apply read_list_consume. intros b a r E. destruct (read_fixed_consume _ _ _ _ _ _ E) as [pre [H _]]. exists pre. exact H.
Qed.

Theorem r_prim_consume p buf v rest : r_prim p buf = Ok (v, rest) -> exists pre, buf = pre ++ rest.
Proof.
  destruct p; cbn [r_prim].
  - destruct (read_basic le t buf) as [[n r]|] eqn:E; cbn [bind]; [|discriminate]. intro H; inversion H; subst.
    eapply read_basic_consume; exact E.
  - destruct (read_fixed n pad left buf) as [[s r]|] eqn:E; cbn [bind]; [|discriminate]. intro H; inversion H; subst.
    destruct (read_fixed_consume _ _ _ _ _ _ E) as [pre [Hp _]]. exists pre; exact Hp.
  - destruct (read_string le len buf) as [[s r]|] eqn:E; cbn [bind]; [|discriminate]. intro H; inversion H; subst.
    destruct (read_string_consume _ _ _ _ _ E) as [pre [Hp _]]. exists pre; exact Hp.
  - destruct (read_basic_list le cnt elt buf) as [[l r]|] eqn:E; cbn [bind]; [|discriminate]. intro H; inversion H; subst.
    eapply (read_list_consume (read_basic le elt) (read_basic_consume le elt)); exact E.
  - destruct (read_fixed_list le cnt n pad left buf) as [[l r]|] eqn:E; cbn [bind]; [|discriminate]. intro H; inversion H; subst.
    eapply read_fixed_list_consume; exact E.
  - destruct (read_string_list le cnt len buf) as [[l r]|] eqn:E; cbn [bind]; [|discriminate]. intro H; inversion H; subst.
    eapply (read_list_consume (read_string le len)); [|exact E].
    intros b a r' E'. destruct (read_string_consume _ _ _ _ _ E') as [pre [Hp _]]. exists pre; exact Hp.
  - discriminate.
Qed.

(* lower bound on what a successful primitive read consumes *)
Definition prim_msize (p : prim) : N :=
  match p with
  | PBasic _ t => N.of_nat (width t)
  | PFixed n _ _ => N.of_nat n
  | PString _ l => N.of_nat (width l)
  | PBasicList _ c _ | PFixedList _ c _ _ _ | PStringList _ c _ | PObjList _ c _ => N.of_nat (width c)
  end.

Lemma read_list_msize {A} (rd : list byte -> res (A * list byte)) le cnt buf l rest :
  (forall b a r, rd b = Ok (a, r) -> exists pre, b = pre ++ r) ->
  read_list le cnt rd buf = Ok (l, rest) -> lenN rest + N.of_nat (width cnt) <= lenN buf.
Proof.
  intros Hc. unfold read_list.
  destruct (read_basic_cases le cnt buf) as [[a [r [Hl [Hb H]]]]|[_ H]]; rewrite H; cbn [bind]; [|discriminate].
  destruct (wire_count (int_val (ord le) a)) as [n|]; cbn [bind]; [|discriminate].
  intro E. destruct (read_n_consume rd Hc _ _ _ _ _ E) as [p ->]. subst buf. rewrite !lenN_app, (lenN_length a), Hl. lia.
Qed.

Theorem r_prim_msize p buf v rest : r_prim p buf = Ok (v, rest) -> lenN rest + prim_msize p <= lenN buf.
Proof.
  destruct p; cbn [r_prim prim_msize].
  - destruct (read_basic_cases le t buf) as [[a [r [Hl [Hb H]]]]|[_ H]]; rewrite H; cbn [bind]; [|discriminate].
    intro E; inversion E; subst. rewrite lenN_app, (lenN_length a), Hl. lia.
  - destruct (read_fixed n pad left buf) as [[s r]|] eqn:E; cbn [bind]; [|discriminate]. intro H; inversion H; subst.
    destruct (read_fixed_consume _ _ _ _ _ _ E) as [pre [-> Hl]]. rewrite lenN_app, (lenN_length pre), Hl. lia.
  - unfold read_string.
    destruct (read_basic_cases le len buf) as [[a [r0 [Hl [Hb H]]]]|[_ H]]; rewrite H; cbn [bind]; [|discriminate].
    destruct (wire_count (int_val (ord le) a)) as [n|]; cbn [bind]; [|discriminate].
    destruct (takeN n r0) as [[s' r']|] eqn:E; cbn [bind]; [|discriminate]. intro X. inversion X; subst.
    apply takeN_spec in E. destruct E as [-> _]. rewrite !lenN_app, (lenN_length a), Hl. lia.
  - destruct (read_basic_list le cnt elt buf) as [[l r]|] eqn:E; cbn [bind]; [|discriminate]. intro H; inversion H; subst.
    eapply (read_list_msize (read_basic le elt)); [apply read_basic_consume|exact E].
  - destruct (read_fixed_list le cnt n pad left buf) as [[l r]|] eqn:E; cbn [bind]; [|discriminate]. intro H; inversion H; subst.
    eapply (read_list_msize (read_fixed n pad left)); [|exact E].
    intros b a r' E'. destruct (read_fixed_consume _ _ _ _ _ _ E') as [pre [Hp _]]. exists pre; exact Hp.
  - destruct (read_string_list le cnt len buf) as [[l r]|] eqn:E; cbn [bind]; [|discriminate]. intro H; inversion H; subst.
    eapply (read_list_msize (read_string le len)); [|exact E].
    intros b a r' E'. destruct (read_string_consume _ _ _ _ _ E') as [pre [Hp _]]. exists pre; exact Hp.
  - discriminate.
Qed.

(* the shape of what a primitive read returns (used for discriminator keys) *)
Definition is_key_value (v : value) : bool := match v with VInt _ | VStr _ => true | _ => false end.
Definition keyable (p : prim) : bool := match p with PBasic _ _ | PFixed _ _ _ | PString _ _ => true | _ => false end.
Lemma r_prim_keyable p buf v rest : keyable p = true -> r_prim p buf = Ok (v, rest) -> is_key_value v = true.
Proof.
  destruct p; cbn [keyable r_prim]; try discriminate; intros _.
  - destruct (read_basic le t buf) as [[n r]|]; cbn [bind]; [|discriminate]. intro H; inversion H; reflexivity.
  - destruct (read_fixed n pad left buf) as [[s r]|]; cbn [bind]; [|discriminate]. intro H; inversion H; reflexivity.
  - destruct (read_string le len buf) as [[s r]|]; cbn [bind]; [|discriminate]. intro H; inversion H; reflexivity.
Qed.
