(* Theory/Tight.v — readers are "tight": a successful read depends only on the prefix it consumed
   (locality) and fails with an error on every strict prefix of that prefix (shortfall).  This gives
   C11: a truncated message is always rejected. *)
From FP.Theory Require Export RoundTrip.
From Coq Require Import ZifyBool ZifyNat ZifyN.
Local Open Scope N_scope.

Definition strict_prefix (q pre : list byte) : Prop := exists s, s <> [] /\ pre = q ++ s.

Definition tight {A} (rd : list byte -> res (A * list byte)) : Prop :=
  forall buf a rest, rd buf = Ok (a, rest) ->
    exists pre, buf = pre ++ rest /\
                (forall r2, rd (pre ++ r2) = Ok (a, r2)) /\
                (forall q, strict_prefix q pre -> rd q = Fail FErr).

Lemma strict_prefix_length q pre : strict_prefix q pre -> (length q < length pre)%nat.
Proof. intros [s [Hs ->]]. rewrite app_length. destruct s; [congruence|cbn; lia]. Qed.

Lemma app_inv_length {A} (a b c d : list A) : a ++ b = c ++ d -> length a = length c -> a = c /\ b = d.
Proof.
  revert c. induction a as [|x a IH]; intros [|y c] H Hl; cbn in *; try discriminate; [split; [reflexivity|exact H]|].
  inversion H; subst. destruct (IH c H2) as [-> ->]; [lia|]. split; reflexivity.
Qed.

(* a strict prefix of a ++ b is a strict prefix of a, or a followed by a strict prefix of b *)
Lemma strict_prefix_app q a b : strict_prefix q (a ++ b) ->
  strict_prefix q a \/ exists q2, q = a ++ q2 /\ strict_prefix q2 b.
Proof.
  intros [s [Hs H]]. apply app_eq_app in H. destruct H as [l [[Ha Hb]|[Hq Hb]]].
  - destruct l as [|x l].
    + right. exists []. rewrite app_nil_r in Ha. subst a. split; [rewrite app_nil_r; reflexivity|].
      exists s. split; [exact Hs|]. cbn in Hb. symmetry. exact Hb.
    + left. exists (x :: l). split; [discriminate|exact Ha].
  - right. exists l. split; [exact Hq|]. exists s. split; [exact Hs|exact Hb].
Qed.

(* ---- scalars and fixed text: fixed-size reads ---- *)
Lemma take_tight_like {A} n (f : list byte -> A) :
  tight (fun buf => match take n buf with Some (x, r) => Ok (f x, r) | None => Fail FErr end).
Proof.
  intros buf a rest H. destruct (take n buf) as [[x r]|] eqn:E; [|discriminate]. inversion H; subst.
  apply take_spec in E. destruct E as [-> Hl]. exists x. split; [reflexivity|]. split.
  - intro r2. rewrite <- Hl, take_app. reflexivity.
  - intros q Hq. apply strict_prefix_length in Hq. rewrite (proj2 (take_none n q)) by lia. reflexivity.
Qed.

Lemma read_basic_tight le t : tight (read_basic le t).
Proof. exact (take_tight_like (width t) (int_val (ord le))). Qed.
Lemma read_fixed_tight n pad lf : tight (read_fixed n pad lf).
Proof. exact (take_tight_like n (fun x => if lf then trim_left (pad_byte pad) x else trim_right (pad_byte pad) x)). Qed.

Lemma takeN_short {A} n (q pre : list A) : lenN pre = n -> (length q < length pre)%nat -> takeN n q = None.
Proof. intros H Hl. apply takeN_none. rewrite <- H, !lenN_length. lia. Qed.

Lemma read_string_tight le t : small t = true -> tight (read_string le t).
Proof.
  intros Hs buf s rest H. unfold read_string in H.
  destruct (read_basic_cases le t buf) as [[a [r0 [Hl [Hb Hr]]]]|[_ Hr]]; rewrite Hr in H; cbn [bind] in H; [|discriminate].
  assert (Hn : int_val (ord le) a < bound t) by (unfold bound; rewrite <- Hl; apply int_val_lt).
  rewrite (wire_count_small t _ Hs Hn) in H. cbn [bind] in H.
  destruct (takeN (int_val (ord le) a) r0) as [[s' r']|] eqn:E; [|discriminate]. inversion H; subst s' r'.
  apply takeN_spec in E. destruct E as [-> Hsl].
  exists (a ++ s). split; [rewrite Hb, app_assoc; reflexivity|].
  assert (Hpre : forall x, read_basic le t (a ++ x) = Ok (int_val (ord le) a, x)).
  { intro x. unfold read_basic. rewrite <- Hl, take_app. reflexivity. }
  split.
  - intro r2. unfold read_string. rewrite <- app_assoc, Hpre. cbn [bind]. rewrite (wire_count_small t _ Hs Hn). cbn [bind].
    rewrite <- Hsl, takeN_app. reflexivity.
  - intros q Hq. unfold read_string. destruct (strict_prefix_app _ _ _ Hq) as [Hq1|[q2 [-> Hq2]]].
    + apply strict_prefix_length in Hq1. unfold read_basic. rewrite (proj2 (take_none (width t) q)) by lia. reflexivity.
    + rewrite Hpre. cbn [bind]. rewrite (wire_count_small t _ Hs Hn). cbn [bind].
      apply strict_prefix_length in Hq2. rewrite (takeN_short _ q2 s Hsl Hq2). reflexivity.
Qed.

Lemma list_fuel_enough' (nonzero : bool) n r :
  (n <= 65536 \/ nonzero = true) ->
  n <= N.of_nat (list_fuel n r) \/ (nonzero = true /\ lenN r < N.of_nat (list_fuel n r)).
Proof.
  intro H. unfold list_fuel. rewrite N2Nat.id.
  destruct (N.le_gt_cases n (N.max 65536 (N.succ (lenN r)))) as [Hle|Hgt].
  - left. rewrite N.min_l by exact Hle. lia.
  - rewrite N.min_r by lia. destruct H as [H|H]; [lia|]. right. split; [exact H|]. lia.
Qed.

(* ---- counted loops ---- *)
Section TightList.
  Context {A : Type}.
  Variable rd : list byte -> res (A * list byte).
  Hypothesis rd_tight : tight rd.
  Hypothesis rd_safe : forall b, ok_or_err (rd b).
  Variable nonzero : bool.
  Hypothesis rd_nz : nonzero = true -> forall b a r, rd b = Ok (a, r) -> lenN r < lenN b.

  (* running the loop on exactly [cnt] elements *)
  Lemma read_n_tight fuel : forall cnt buf l rest,
    read_n rd fuel cnt buf = Ok (l, rest) ->
    exists pre, buf = pre ++ rest /\ lenN l = cnt /\
      (forall r2 fuel2, cnt <= N.of_nat fuel2 -> read_n rd fuel2 cnt (pre ++ r2) = Ok (l, r2)) /\
      (forall q fuel2, strict_prefix q pre -> (cnt <= N.of_nat fuel2 \/ (nonzero = true /\ lenN q < N.of_nat fuel2)) ->
                       read_n rd fuel2 cnt q = Fail FErr).
  Proof.
    induction fuel as [|fuel IH]; intros cnt buf l rest H; cbn [read_n] in H.
    - destruct (N.eqb_spec cnt 0) as [->|]; [|discriminate]. inversion H; subst. exists []. split; [reflexivity|]. split; [reflexivity|]. split.
      + intros r2 [|f2] _; reflexivity.
      + intros q f2 Hq. apply strict_prefix_length in Hq. cbn in Hq. lia.
    - destruct (N.eqb_spec cnt 0) as [->|Hne].
      + inversion H; subst. exists []. split; [reflexivity|]. split; [reflexivity|]. split.
        * intros r2 [|f2] _; reflexivity.
        * intros q f2 Hq. apply strict_prefix_length in Hq. cbn in Hq. lia.
      + destruct (rd buf) as [[a r]|] eqn:Ea; cbn [bind] in H; [|discriminate].
        destruct (read_n rd fuel (N.pred cnt) r) as [[l' r']|] eqn:El; cbn [bind] in H; [|discriminate].
        inversion H; subst l rest.
        destruct (rd_tight _ _ _ Ea) as [p1 [-> [Hloc1 Hsh1]]].
        destruct (IH _ _ _ _ El) as [p2 [-> [Hlen [Hloc2 Hsh2]]]].
        exists (p1 ++ p2). split; [rewrite app_assoc; reflexivity|]. split; [rewrite lenN_cons; lia|]. split.
        * intros r2 f2 Hf. destruct f2 as [|f2]; [cbn in Hf; lia|]. cbn [read_n].
          destruct (N.eqb_spec cnt 0); [contradiction|]. rewrite <- app_assoc, Hloc1. cbn [bind].
          rewrite Hloc2 by lia. reflexivity.
        * intros q f2 Hq Hf. destruct f2 as [|f2]; [cbn in Hf; lia|]. cbn [read_n].
          destruct (N.eqb_spec cnt 0); [contradiction|].
          destruct (strict_prefix_app _ _ _ Hq) as [Hq1|[q2 [-> Hq2]]].
          -- rewrite (Hsh1 _ Hq1). reflexivity.
          -- rewrite Hloc1. cbn [bind]. rewrite Hsh2; [reflexivity|exact Hq2|].
             destruct Hf as [Hf|[Hz Hf]]; [left; lia|right]. split; [exact Hz|].
             pose proof (rd_nz Hz _ _ _ (Hloc1 q2)). lia.
  Qed.

  Lemma read_n_size fuel : forall cnt buf l rest, nonzero = true ->
    read_n rd fuel cnt buf = Ok (l, rest) -> cnt + lenN rest <= lenN buf.
  Proof.
    induction fuel as [|fuel IH]; intros cnt buf l rest Hz H; cbn [read_n] in H.
    - destruct (N.eqb_spec cnt 0) as [->|]; [|discriminate]. inversion H; subst l rest. lia.
    - destruct (N.eqb_spec cnt 0) as [->|Hne]; [inversion H; subst l rest; lia|].
      destruct (rd buf) as [[a r]|] eqn:Ea; cbn [bind] in H; [|discriminate].
      destruct (read_n rd fuel (N.pred cnt) r) as [[l' r']|] eqn:El; cbn [bind] in H; [|discriminate].
      inversion H; subst l rest. pose proof (rd_nz Hz _ _ _ Ea). pose proof (IH _ _ _ _ Hz El). lia.
  Qed.

  Lemma read_list_tight le cnt : small cnt = true -> (tiny cnt = true \/ nonzero = true) -> tight (read_list le cnt rd).
  Proof.
    intros Hs Ht buf l rest H. unfold read_list in H.
    destruct (read_basic_cases le cnt buf) as [[a [r0 [Hl [Hb Hr]]]]|[_ Hr]]; rewrite Hr in H; cbn [bind] in H; [|discriminate].
    assert (Hn : int_val (ord le) a < bound cnt) by (unfold bound; rewrite <- Hl; apply int_val_lt).
    rewrite (wire_count_small cnt _ Hs Hn) in H. cbn [bind] in H.
    destruct (read_n_tight _ _ _ _ _ H) as [p [-> [Hlen [Hloc Hsh]]]].
    exists (a ++ p). split; [rewrite Hb, app_assoc; reflexivity|].
    assert (Hpre : forall x, read_basic le cnt (a ++ x) = Ok (int_val (ord le) a, x)).
    { intro x. unfold read_basic. rewrite <- Hl, take_app. reflexivity. }
    assert (Hfuel : forall x, (int_val (ord le) a <= N.of_nat (list_fuel (int_val (ord le) a) x) \/
                               (nonzero = true /\ lenN x < N.of_nat (list_fuel (int_val (ord le) a) x)))).
    { intro x. apply list_fuel_enough'. destruct Ht as [Ht|Ht]; [left; pose proof (bound_tiny cnt Ht); lia|right; exact Ht]. }
    split.
    - intro r2. unfold read_list. rewrite <- app_assoc, Hpre. cbn [bind]. rewrite (wire_count_small cnt _ Hs Hn). cbn [bind].
      apply Hloc. destruct (Hfuel (p ++ r2)) as [Hf|[Hz Hf]]; [exact Hf|].
      (* all [cnt] elements are present, each at least one byte: the fuel covers them *)
      pose proof (read_n_size _ _ _ _ _ Hz H) as Hsz. rewrite lenN_app in Hsz.
      unfold list_fuel. rewrite N2Nat.id. rewrite lenN_app. lia.
    - intros q Hq. unfold read_list. destruct (strict_prefix_app _ _ _ Hq) as [Hq1|[q2 [-> Hq2]]].
      + apply strict_prefix_length in Hq1. unfold read_basic. rewrite (proj2 (take_none (width cnt) q)) by lia. reflexivity.
      + rewrite Hpre. cbn [bind]. rewrite (wire_count_small cnt _ Hs Hn). cbn [bind].
        apply Hsh; [exact Hq2|apply Hfuel].
  Qed.
End TightList.

Lemma tight_map {A B} (rd : list byte -> res (A * list byte)) (f : A -> B) :
  tight rd -> tight (fun b => do '(a, r) <- rd b; Ok (f a, r)).
Proof.
  intros Ht buf y rest H. destruct (rd buf) as [[a r]|] eqn:E; cbn [bind] in H; [|discriminate]. inversion H; subst.
  destruct (Ht _ _ _ E) as [pre [-> [Hl Hs]]]. exists pre. split; [reflexivity|]. split.
  - intro r2. rewrite Hl. reflexivity.
  - intros q Hq. rewrite (Hs q Hq). reflexivity.
Qed.

Theorem r_prim_tight p : prim_dec_ok p = true -> tight (r_prim p).
Proof.
  intro Hp. destruct p; cbn [prim_dec_ok] in Hp; try discriminate.
  - exact (tight_map _ VInt (read_basic_tight le t)).
  - exact (tight_map _ VStr (read_fixed_tight n pad left)).
  - exact (tight_map _ VStr (read_string_tight le len Hp)).
  - apply (tight_map (read_basic_list le cnt elt) VInts). unfold read_basic_list.
    apply (read_list_tight (read_basic le elt) (read_basic_tight le elt) (read_basic_safe le elt) true (fun _ b a r => read_basic_nonzero le elt b a r) le cnt Hp).
    right; reflexivity.
  - apply andb_true_iff in Hp. destruct Hp as [Hs Hn].
    apply (tight_map (read_fixed_list le cnt n pad left) VStrs). unfold read_fixed_list.
    apply (read_list_tight (read_fixed n pad left) (read_fixed_tight n pad left) (read_fixed_safe n pad left) (Nat.ltb 0 n)).
    + intros Hz b a r E. destruct (read_fixed_consume _ _ _ _ _ _ E) as [pre [-> Hl]]. rewrite lenN_app.
      apply Nat.ltb_lt in Hz. rewrite (lenN_length pre). lia.
    + exact Hs.
    + apply orb_true_iff in Hn. exact Hn.
  - apply andb_true_iff in Hp. destruct Hp as [Hs Hl].
    apply (tight_map (read_string_list le cnt len) VStrs). unfold read_string_list.
    apply (read_list_tight (read_string le len) (read_string_tight le len Hl) (fun b => read_string_safe le len b Hl) true
             (fun _ b a r E => let (pre, H) := read_string_consume le len b a r E in proj2 H) le cnt Hs).
    right; reflexivity.
Qed.

Section TightMsg.
  Variable tables : list (N * table).
  Variable sdec : N -> list byte -> res (list value * list byte).
  Variable good : N -> bool.
  Variable ms : N -> N.
  Hypothesis Hcons : forall t buf fs r, sdec t buf = Ok (fs, r) -> exists pre, buf = pre ++ r /\ ms t <= lenN pre.
  Hypothesis Htight : forall t, tight (sdec t).
  Hypothesis Hsafe : forall t buf, good t = true -> ok_or_err (sdec t buf).

  Lemma parse_obj_tight t : tight (parse_obj sdec t).
  Proof. unfold parse_obj. exact (tight_map (sdec t) (VObj t) (Htight t)). Qed.

  Lemma const_fail_tight {A} f : tight (fun _ : list byte => @Fail (A * list byte) f).
  Proof. intros buf a rest H. discriminate. Qed.

  Lemma parse_kind_tight before done k : dkind_safe tables good ms before k = true -> tight (parse_kind tables sdec done k).
  Proof.
    intro Hk. destruct k as [p prop|le cnt t|f g prop d]; cbn [dkind_safe parse_kind] in *.
    - apply r_prim_tight. exact Hk.
    - apply andb_true_iff in Hk. destruct Hk as [Hk Hnz]. apply andb_true_iff in Hk. destruct Hk as [Hsm Hg].
      apply (tight_map (read_list le cnt (parse_obj sdec t)) VObjs).
      apply (read_list_tight (parse_obj sdec t) (parse_obj_tight t) (fun b => parse_obj_safe sdec good Hsafe t b Hg) (0 <? ms t)).
      + intros Hz b a r E. unfold parse_obj in E. destruct (sdec t b) as [[fs r']|] eqn:Es; cbn [bind] in E; [|discriminate].
        inversion E; subst. destruct (Hcons _ _ _ _ Es) as [pre [-> Hm]]. apply N.ltb_lt in Hz. rewrite lenN_app. lia.
      + exact Hsm.
      + apply orb_true_iff in Hnz. exact Hnz.
    - destruct d as [t|t|tbl key]; try apply parse_obj_tight.
      intros buf a rest H. cbn [parse_kind] in *.
      destruct (get_field done key) as [kv|ff]; cbn [bind] in *; [|discriminate].
      destruct (slookup tables tbl kv) as [ty|ff]; cbn [bind] in *; [|discriminate].
      exact (parse_obj_tight ty buf a rest H).
  Qed.

  Lemma parse_fields_tight ks : forall before done, dkinds_safe tables good ms before ks = true -> tight (parse_fields tables sdec done ks).
  Proof.
    induction ks as [|k ks IH]; intros before done Hk buf vs rest H; cbn [parse_fields] in H.
    - inversion H; subst. exists []. split; [reflexivity|]. split; [reflexivity|].
      intros q Hq. apply strict_prefix_length in Hq. cbn in Hq. lia.
    - cbn [dkinds_safe] in Hk. apply andb_true_iff in Hk. destruct Hk as [Hk1 Hk2].
      destruct (parse_kind tables sdec done k buf) as [[v r1]|] eqn:E1; cbn [bind] in H; [|discriminate].
      destruct (parse_fields tables sdec (done ++ [v]) ks r1) as [[vs' r2]|] eqn:E2; cbn [bind] in H; [|discriminate].
      inversion H; subst.
      destruct (parse_kind_tight before done k Hk1 _ _ _ E1) as [p1 [-> [Hl1 Hs1]]].
      destruct (IH _ _ Hk2 _ _ _ E2) as [p2 [-> [Hl2 Hs2]]].
      exists (p1 ++ p2). split; [rewrite app_assoc; reflexivity|]. split.
      + intro r3. cbn [parse_fields]. rewrite <- app_assoc, Hl1. cbn [bind]. rewrite Hl2. reflexivity.
      + intros q Hq. cbn [parse_fields]. destruct (strict_prefix_app _ _ _ Hq) as [Hq1|[q2 [-> Hq2]]].
        * rewrite (Hs1 _ Hq1). reflexivity.
        * rewrite Hl1. cbn [bind]. rewrite (Hs2 _ Hq2). reflexivity.
  Qed.
End TightMsg.

Theorem spec_dec_tight tables : forall ss, dec_safe_env tables ss = true -> forall t, tight (spec_dec_env tables ss t).
Proof.
  induction ss as [|sd rest IH]; intros Hs t buf fs r H; [discriminate|].
  cbn [dec_safe_env] in Hs. apply andb_true_iff in Hs. destruct Hs as [Hk Hrest].
  cbn [spec_dec_env] in *. destruct (sd_id sd =? t).
  - rewrite spec_dec_schema_kinds in H.
    destruct (parse_fields_tight tables (spec_dec_env tables rest) (has_id rest) (msize_env rest)
                (fun t0 b f0 r0 E => dec_consume tables rest t0 b f0 r0 Hrest E) (IH Hrest)
                (fun t0 b Hg => proj1 (dec_safe tables rest Hrest t0 b Hg))
                (schema_kinds (sd_schema sd)) [] [] Hk _ _ _ H) as [pre [Hp [Hl Hsh]]].
    exists pre. split; [exact Hp|]. split.
    + intro r2. rewrite spec_dec_schema_kinds. apply Hl.
    + intros q Hq. rewrite spec_dec_schema_kinds. apply Hsh. exact Hq.
  - destruct (IH Hrest t _ _ _ H) as [pre [Hp [Hl Hsh]]]. exists pre. repeat split; assumption.
Qed.

(* C11 at the schema level: every strict prefix of what a successful decode consumed is rejected with an error;
   in particular every strict prefix of a valid encoding *)
Corollary truncation_rejected tables ss t bs fs :
  dec_safe_env tables ss = true -> spec_dec_env tables ss t bs = Ok (fs, []) ->
  forall q, strict_prefix q bs -> spec_dec_env tables ss t q = Fail FErr.
Proof.
  intros Hs H q Hq. destruct (spec_dec_tight tables ss Hs t _ _ _ H) as [pre [Hp [_ Hsh]]].
  rewrite app_nil_r in Hp. subst pre. apply Hsh. exact Hq.
Qed.
