(* Props/C01.v — Encode then Decode returns the same message, for every message type. *)
From FP.Props Require Import Common.
From FP.Theory Require Import RoundTrip CrcBound.
Local Open Scope N_scope.

(* static side conditions on the programs found in /repo (evaluated by the kernel) *)
Lemma H_rt : rt_env_ok registry0 schemas = true.
Proof. vm_compute. reflexivity. Qed.
Lemma H_dec_safe : dec_safe_env tables schemas = true.
Proof. vm_compute. reflexivity. Qed.
Lemma H_result_types : forallb (fun sv => match sv_alg sv with ACrc16 => 65536 | _ => 4294967296 end <=? bound (sv_rt sv)) registry0 = true.
Proof. vm_compute. reflexivity. Qed.

Lemma H_calc : forall name sv bs, reg_get registry0 name = Some sv -> calc (sv_alg sv) bs < bound (sv_rt sv).
Proof.
  intros name sv bs H. unfold reg_get in H. apply find_some in H. destruct H as [Hin _].
  pose proof H_result_types as Hr. rewrite forallb_forall in Hr. specialize (Hr sv Hin). apply N.leb_le in Hr.
  pose proof (calc_fits (sv_alg sv) bs). lia.
Qed.

(* the canonical domain: text no longer than its field that does not begin (left-padded) / end (right-padded) with
   the pad byte, scalars within their type, every nested part, list element, body and extension present and itself
   canonical, body/extension type = the table's type for the discriminator value; lengths and counts need no
   condition: an unrepresentable one makes Encode fail (C18) *)
Notation canonical := (canon_env tables registry0 schemas).

(* C01.  For all 170 types: encoding a canonical value and decoding the bytes (followed by anything) into any
   receiver yields the message as it is after Encode - the caller's values bit for bit, the frame's computed
   length and checksum with their correct values - and leaves what followed untouched. *)
Theorem C01_encode_then_decode : forall t fs fs' bs r rest,
  typed t fs = true -> canonical t fs -> receiver_ok t r = true ->
  encode t fs [] = Ok (fs', bs) -> decode t r (bs ++ rest) = Ok (fs', rest).
Proof.
  intros t fs fs' bs r rest Ht Hc Hr He.
  rewrite encode_spec in He by exact Ht. destruct (senc t fs) as [[a b]|] eqn:E; cbn [lift app] in He; [|discriminate].
  inversion He; subst a b. rewrite decode_spec by exact Hr.
  exact (spec_round_trip tables registry0 H_calc schemas H_rt H_dec_safe t fs fs' bs Hc E rest).
Qed.

(* into a buffer that already holds bytes: what Encode appended decodes back *)
Corollary C01_with_prior_buffer_content : forall t fs fs' buf buf' r rest,
  typed t fs = true -> canonical t fs -> receiver_ok t r = true ->
  encode t fs buf = Ok (fs', buf') -> exists bs, buf' = buf ++ bs /\ decode t r (bs ++ rest) = Ok (fs', rest).
Proof.
  intros t fs fs' buf buf' r rest Ht Hc Hr He.
  rewrite encode_spec in He by exact Ht. destruct (senc t fs) as [[a b]|] eqn:E; cbn [lift] in He; [|discriminate].
  inversion He; subst. exists b. split; [reflexivity|]. rewrite decode_spec by exact Hr.
  exact (spec_round_trip tables registry0 H_calc schemas H_rt H_dec_safe t fs fs' b Hc E rest).
Qed.

(* the canonical domain has a computable checker, sound for it *)
Notation canonicalb := (canon_envb tables registry0 schemas).
Theorem C01_checker_sound : forall t fs, canonicalb t fs = true -> canonical t fs.
Proof. exact (canon_envb_sound tables registry0 schemas). Qed.

(* non-vacuity: an SSE frame around a Logon (text shorter than its field, stale length/checksum);
   a sample StringPacket-like value with the pad byte inside; and a round trip evaluated on one of them *)
Definition ex_logon : list value :=
  match zero_value id_sse_bin_Logon with
  | _ :: rest => VStr [x41; x20; x42] :: rest        (* "A B": a space inside a space-padded field *)
  | [] => []
  end.
Definition ex_frame : list value := [VInt 40; VInt 7; VInt 999; VObj id_sse_bin_Logon ex_logon; VInt 5].
Example C01_nonvacuous :
  canonicalb id_sse_bin_SseBinary ex_frame = true /\ typed id_sse_bin_SseBinary ex_frame = true /\
  canonicalb id_sse_bin_SseBinary [VInt 40; VInt 7; VInt 0; VNil; VInt 0] = false /\
  match encode id_sse_bin_SseBinary ex_frame [] with
  | Ok (fs', bs) => match decode id_sse_bin_SseBinary (zero_value id_sse_bin_SseBinary) (bs ++ [xaa]) with
                    | Ok (fs2, [xaa]) => true | _ => false end
  | Fail _ => false end = true.
Proof. vm_compute. repeat split; reflexivity. Qed.

Print Assumptions C01_encode_then_decode.
Print Assumptions C01_with_prior_buffer_content.
Print Assumptions C01_checker_sound.
