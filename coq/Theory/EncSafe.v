(* Theory/EncSafe.v — encoding any well-typed (constructible) message returns bytes or an error:
   never a panic, never an undescribed case (C17). *)
From FP.Theory Require Export DecSafe.
From Coq Require Import ZifyBool ZifyNat ZifyN.
Local Open Scope N_scope.

Definition prim_fits_type (p : prim) (g : gotype) : bool :=
  match p, g with
  | PBasic _ t, GInt t' => ity_eqb t t'
  | PFixed _ _ _, GStr | PString _ _, GStr => true
  | PBasicList _ _ e, GInts e' => ity_eqb e e'
  | PFixedList _ _ _ _ _, GStrs | PStringList _ _ _, GStrs => true
  | _, _ => false
  end.

Lemma length_prefix_cases t n : length_prefix t n = Ok n \/ length_prefix t n = Fail FErr.
Proof. unfold length_prefix. destruct (n <? bound t); [left|right]; reflexivity. Qed.

Lemma w_prim_typed_safe rec p g v : prim_fits_type p g = true -> typed_in rec g v = true -> ok_or_err (w_prim p v).
Proof.
  destruct p, g; cbn [prim_fits_type]; try discriminate; intros _; destruct v; cbn [typed_in w_prim]; try discriminate; intros _.
  - left; eexists; reflexivity.
  - left; eexists; reflexivity.
  - unfold write_string. destruct (length_prefix_cases len (lenN s)) as [E|E]; rewrite E; cbn [bind]; [left; eexists; reflexivity|right; reflexivity].
  - unfold write_basic_list, write_list. destruct (length_prefix cnt (lenN l)) eqn:E; cbn [bind].
    + assert (exists b, write_each (fun v => Ok (write_basic le elt v)) l = Ok b) as [b Hb].
      { clear. induction l as [|x l [b IH]]; [exists []; reflexivity|]. cbn [write_each bind]. rewrite IH. cbn [bind]. eexists; reflexivity. }
      rewrite Hb. cbn [bind]. left; eexists; reflexivity.
    + right. unfold length_prefix in E. destruct (lenN l <? bound cnt); inversion E; reflexivity.
  - unfold write_fixed_list, write_list. destruct (length_prefix cnt (lenN l)) eqn:E; cbn [bind].
    + assert (exists b, write_each (fun s => Ok (write_fixed n pad left s)) l = Ok b) as [b Hb].
      { clear. induction l as [|x l [b IH]]; [exists []; reflexivity|]. cbn [write_each bind]. rewrite IH. cbn [bind]. eexists; reflexivity. }
      rewrite Hb. cbn [bind]. left; eexists; reflexivity.
    + right. unfold length_prefix in E. destruct (lenN l <? bound cnt); inversion E; reflexivity.
  - unfold write_string_list, write_list. destruct (length_prefix cnt (lenN l)) eqn:E; cbn [bind].
    + assert (ok_or_err (write_each (write_string le len) l)) as [[b Hb]|Hb].
      { clear. induction l as [|x l IH]; [left; exists []; reflexivity|]. cbn [write_each].
        unfold write_string at 1. destruct (length_prefix len (lenN x)) eqn:E; cbn [bind].
        - destruct IH as [[b Hb]|Hb]; rewrite Hb; cbn [bind]; [left; eexists; reflexivity|right; reflexivity].
        - right. unfold length_prefix in E. destruct (lenN x <? bound len); inversion E; reflexivity. }
      * rewrite Hb. cbn [bind]. left; eexists; reflexivity.
      * rewrite Hb. cbn [bind]. right; reflexivity.
    + right. unfold length_prefix in E. destruct (lenN l <? bound cnt); inversion E; reflexivity.
Qed.

Lemma w_prim_cannot_fail p v : cannot_fail p = true -> w_prim p v <> Fail FErr.
Proof. destruct p; cbn [cannot_fail]; try discriminate; intros _; destruct v; cbn [w_prim]; congruence. Qed.

Lemma w_prim_ok_key p v bs : keyable p = true -> w_prim p v = Ok bs -> is_key_value v = true.
Proof. destruct p; cbn [keyable]; try discriminate; intros _; destruct v; cbn [w_prim]; try discriminate; reflexivity. Qed.

Lemma shapes_nil : shapes_ok [] [].
Proof. split; [reflexivity|]. intros i k v Hb. destruct i; discriminate. Qed.

Section ES.
  Variable tables : list (N * table).
  Variable senc : N -> list value -> res (list value * list byte).
  Variable zero_rec : N -> option (list value).
  Variable rec : N -> list value -> bool.
  Hypothesis Hsafe : forall t fs, rec t fs = true -> ok_or_err (senc t fs).
  Hypothesis Hzero : forall t z, zero_rec t = Some z -> rec t z = true.
  (* by-value parts whose Encode has no error result *)
  Variable infallible : N -> bool.
  Hypothesis Hinf : forall t fs, infallible t = true -> rec t fs = true -> exists r, senc t fs = Ok r.

  Definition table_filled (tbl : N) : bool :=
    match find_table tables tbl with
    | Some t => forallb (fun e => match zero_rec (snd e) with Some _ => true | None => false end) t
    | None => false
    end.

  Definition ekind_safe (before : list kind) (g : gotype) (k : kind) : bool :=
    match k with
    | KPrim p prop => prim_fits_type p g && (prop || cannot_fail p)
    | KObjs _ cnt t => match g with GPtrs t' => t' =? t | _ => false end
    | KCall f gd prop d =>
        match g with
        | GPtr t =>
            prop && match f, gd with
                    | FNew t', GNone => (t' =? t) && match zero_rec t with Some _ => true | None => false end
                    | FNone, GIfNotNil => true
                    | _, _ => false
                    end
        | GVal t => match f with FNone => prop || infallible t | _ => false end
        | GIface =>
            prop && match f, gd with
                    | FTable tbl key, GNone =>
                        table_filled tbl && match nth_error before key with Some k' => key_kind k' | None => false end
                    | FNone, GIfNotNil => true
                    | _, _ => false
                    end
        | _ => false
        end
    end.

  Fixpoint ekinds_safe (before : list kind) (gs : list gotype) (ks : list kind) : bool :=
    match ks, gs with
    | [], _ => true
    | k :: ks', g :: gs' => ekind_safe before g k && ekinds_safe (before ++ [k]) gs' ks'
    | _ :: _, [] => false
    end.

  Lemma render_call_safe gd prop v :
    (v = VNil -> gd = GIfNotNil) -> (forall t fs, v = VObj t fs -> rec t fs = true) ->
    (forall t fs, v = VObj t fs -> prop = true \/ infallible t = true) ->
    (match v with VNil | VObj _ _ => True | _ => False end) ->
    ok_or_err (render_call senc gd prop v).
  Proof.
    intros Hnil Hobj Hprop Hshape. destruct v; cbn [render_call] in *; try tauto.
    - pose proof (Hobj t fs eq_refl) as Hr.
      destruct (Hprop t fs eq_refl) as [Hp|Hi].
      + destruct (Hsafe t fs Hr) as [[[fs' bs] E]|E]; rewrite E; [left; eexists; reflexivity|]. subst prop. right; reflexivity.
      + destruct (Hinf t fs Hi Hr) as [[fs' bs] E]. rewrite E. left; eexists; reflexivity.
    - rewrite (Hnil eq_refl). left; eexists; reflexivity.
  Qed.

  Lemma sfresh_rec t o : sfresh zero_rec t = Ok o -> exists z, o = VObj t z /\ rec t z = true.
  Proof.
    unfold sfresh. destruct (zero_rec t) as [z|] eqn:E; [|discriminate]. intro H. inversion H. exists z. split; [reflexivity|apply Hzero; exact E].
  Qed.

  Lemma render_objs_safe tid l : all_objs rec tid l = true -> ok_or_err (render_objs senc tid l).
  Proof.
    induction l as [|x l IH]; intro H; cbn [render_objs]; [left; eexists; reflexivity|].
    cbn [all_objs forallb] in H. apply andb_true_iff in H. destruct H as [Hx Hl].
    destruct x; try discriminate. apply andb_true_iff in Hx. destruct Hx as [Ht Hr]. rewrite Ht.
    destruct (Hsafe t fs Hr) as [[[fs' bs] E]|E]; rewrite E; cbn [bind]; [|right; reflexivity].
    destruct (IH Hl) as [[[r' bs'] E2]|E2]; rewrite E2; cbn [bind]; [left; eexists; reflexivity|right; reflexivity].
  Qed.

  Lemma fill_table_safe before done tbl key k' :
    shapes_ok before done -> table_filled tbl = true -> nth_error before key = Some k' -> key_kind k' = true ->
    ok_or_err (do v1 <- apply_fill tables zero_rec done (FTable tbl key) VNil; render_call senc GNone true v1).
  Proof.
    intros [Hl Hs] Htb Eb Hkey. cbn [apply_fill].
    assert (Hlt : (key < length done)%nat) by (rewrite <- Hl; apply nth_error_Some; congruence).
    unfold get_field. destruct (nth_error done key) as [kv|] eqn:Ed; [|apply nth_error_None in Ed; lia].
    cbn [bind]. pose proof (Hs key k' kv Eb Ed Hkey) as Hkv.
    unfold table_filled in Htb. destruct (find_table tables tbl) as [tt|] eqn:Eft; [|discriminate].
    assert (Hlk : forall k, ok_or_err (do v1 <- (do ty <- match table_lookup tt k with Some ty => Ok ty | None => Fail FErr end; sfresh zero_rec ty);
                                       render_call senc GNone true v1)).
    { intro k. destruct (table_lookup tt k) as [ty|] eqn:El; cbn [bind]; [|right; reflexivity].
      apply table_lookup_in in El. rewrite forallb_forall in Htb. apply in_map_iff in El. destruct El as [e [He Hin]].
      specialize (Htb e Hin). rewrite He in Htb. unfold sfresh. destruct (zero_rec ty) as [z|] eqn:Ez; [|discriminate].
      cbn [bind]. apply render_call_safe; try (intros; discriminate); try exact I.
      - intros t' fs' E. inversion E; subst. apply Hzero. exact Ez.
      - intros; left; reflexivity. }
    unfold slookup. rewrite Eft. destruct kv; try discriminate; cbn [key_of_value bind]; apply Hlk.
  Qed.

  Lemma render_kind_safe before done g k v :
    shapes_ok before done -> ekind_safe before g k = true -> typed_in rec g v = true ->
    ok_or_err (render_kind tables senc zero_rec done k v).
  Proof.
    intros [Hl Hs] Hk Ht. destruct k as [p prop|le cnt t|f gd prop d]; cbn [ekind_safe render_kind] in *.
    - apply andb_true_iff in Hk. destruct Hk as [Hf Hp].
      destruct (w_prim_typed_safe rec p g v Hf Ht) as [[bs E]|E]; rewrite E; [left; eexists; reflexivity|].
      apply orb_true_iff in Hp. destruct Hp as [->|Hc]; [right; reflexivity|].
      exfalso. eapply w_prim_cannot_fail; eassumption.
    - destruct g; try discriminate. apply N.eqb_eq in Hk. subst t0.
      destruct v; cbn [typed_in] in Ht; try discriminate.
      destruct (length_prefix cnt (lenN l)) as [n|] eqn:E; cbn [bind].
      + destruct (render_objs_safe t l Ht) as [[[l' bs] E2]|E2]; rewrite E2; cbn [bind]; [left; eexists; reflexivity|right; reflexivity].
      + right. unfold length_prefix in E. destruct (lenN l <? bound cnt); inversion E; reflexivity.
    - destruct g; try discriminate.
      + (* pointer *)
        apply andb_true_iff in Hk. destruct Hk as [-> Hk].
        destruct v; cbn [typed_in] in Ht; try discriminate.
        * apply andb_true_iff in Ht. destruct Ht as [_ Hr].
          assert (Hf : apply_fill tables zero_rec done f (VObj t0 fs) = Ok (VObj t0 fs)) by (destruct f; reflexivity).
          rewrite Hf. cbn [bind]. apply render_call_safe; try (intros; discriminate); try exact I.
          -- intros t' fs' E. inversion E; subst. exact Hr.
          -- intros; left; reflexivity.
        * destruct f as [|t'|]; destruct gd; try discriminate.
          -- cbn [apply_fill bind]. left; eexists; reflexivity.
          -- apply andb_true_iff in Hk. destruct Hk as [Hte Hz]. apply N.eqb_eq in Hte. subst t'.
             cbn [apply_fill]. unfold sfresh. destruct (zero_rec t) as [z|] eqn:Ez; [|discriminate]. cbn [bind].
             apply render_call_safe; try (intros; discriminate); try exact I.
             ++ intros t' fs' E. inversion E; subst. apply Hzero. exact Ez.
             ++ intros; left; reflexivity.
      + (* by-value struct *)
        destruct f; try discriminate. cbn [apply_fill bind].
        destruct v; cbn [typed_in] in Ht; try discriminate. apply andb_true_iff in Ht. destruct Ht as [Hte Hr].
        apply N.eqb_eq in Hte. subst t0.
        apply render_call_safe; try (intros; discriminate); try exact I.
        * intros t' fs' E. inversion E; subst. exact Hr.
        * intros t' fs' E. inversion E; subst. apply orb_true_iff in Hk. tauto.
      + (* interface *)
        apply andb_true_iff in Hk. destruct Hk as [-> Hk].
        destruct v; cbn [typed_in] in Ht; try discriminate.
        * assert (Hf : apply_fill tables zero_rec done f (VObj t fs) = Ok (VObj t fs)) by (destruct f; reflexivity).
          rewrite Hf. cbn [bind]. apply render_call_safe; try (intros; discriminate); try exact I.
          -- intros t' fs' E. inversion E; subst. exact Ht.
          -- intros; left; reflexivity.
        * destruct f as [| |tbl key]; destruct gd; try discriminate.
          -- cbn [apply_fill bind]. left; eexists; reflexivity.
          -- apply andb_true_iff in Hk. destruct Hk as [Htb Hkey].
             destruct (nth_error before key) as [k'|] eqn:Eb; [|discriminate].
             apply (fill_table_safe before done tbl key k'); [split; assumption|exact Htb|exact Eb|exact Hkey].
  Qed.

  Lemma render_kind_shape done k v v' bs :
    render_kind tables senc zero_rec done k v = Ok (v', bs) -> key_kind k = true -> is_key_value v' = true.
  Proof.
    destruct k as [p prop| |]; cbn [key_kind render_kind]; try discriminate.
    destruct (w_prim p v) as [b|f] eqn:E; [|destruct f; try discriminate; destruct prop; discriminate].
    intros H Hk. inversion H; subst. eapply w_prim_ok_key; eassumption.
  Qed.

  Lemma render_fields_safe ks : forall before done gs vs,
    shapes_ok before done -> ekinds_safe before gs ks = true -> typed_fields rec gs vs = true ->
    ok_or_err (render_fields tables senc zero_rec done ks vs).
  Proof.
    induction ks as [|k ks IH]; intros before done gs vs Hsh Hk Ht; cbn [render_fields].
    - left; eexists; reflexivity.
    - destruct gs as [|g gs]; [discriminate|]. destruct vs as [|v vs]; [discriminate|].
      cbn [ekinds_safe typed_fields] in *. apply andb_true_iff in Hk. apply andb_true_iff in Ht.
      destruct Hk as [Hk1 Hk2]. destruct Ht as [Ht1 Ht2].
      destruct (render_kind_safe before done g k v Hsh Hk1 Ht1) as [[[v' bs] E]|E]; rewrite E; cbn [bind]; [|right; reflexivity].
      assert (Hsh' : shapes_ok (before ++ [k]) (done ++ [v'])) by (apply shapes_snoc; [exact Hsh|eapply render_kind_shape; exact E]).
      destruct (IH _ _ _ _ Hsh' Hk2 Ht2) as [[[r bs'] E2]|E2]; rewrite E2; cbn [bind]; [left; eexists; reflexivity|right; reflexivity].
  Qed.
End ES.

(* ---------------- frames and the whole environment ---------------- *)
Definition infallible_schema (s : schema) : bool :=
  match s with
  | SPlain ks => forallb (fun k => match k with KPrim p _ => cannot_fail p | _ => false end) ks
  | SFrame _ _ _ _ _ => false
  end.
Fixpoint infallible_env (ss : list sdef) (t : N) : bool :=
  match ss with
  | [] => false
  | sd :: rest => if sd_id sd =? t then infallible_schema (sd_schema sd) else infallible_env rest t
  end.

Definition sum_safe (reg : registry) (sum : option sumspec) (g : option gotype) : bool :=
  match sum, g with
  | None, _ => true
  | Some s, Some (GInt t) =>
      ity_eqb t (ss_rt s) && match reg_get reg (ss_name s) with Some sv => ity_eqb (sv_rt sv) (ss_rt s) | None => true end
  | Some _, _ => false
  end.

Definition eschema_safe (tables : list (N * table)) (reg : registry) (zero_rec : N -> option (list value))
           (infallible : N -> bool) (gs : list gotype) (s : schema) : bool :=
  match s with
  | SPlain ks => ekinds_safe tables zero_rec infallible [] gs ks
  | SFrame hdr _ _ _ sum =>
      ekinds_safe tables zero_rec infallible [] (firstn (length hdr) gs) hdr &&
      match skipn (length hdr) gs with
      | GInt _ :: GIface :: tl => sum_safe reg sum (hd_error tl)
      | _ => false
      end
  end.

Fixpoint enc_safe_env (tables : list (N * table)) (reg : registry) (ss : list sdef) : bool :=
  match ss with
  | [] => true
  | sd :: rest =>
      eschema_safe tables reg (szero_fields rest) (infallible_env rest) (sd_fields sd) (sd_schema sd) && enc_safe_env tables reg rest
  end.

Lemma typed_fields_split rec gs vs n : typed_fields rec gs vs = true ->
  typed_fields rec (firstn n gs) (firstn n vs) = true /\ typed_fields rec (skipn n gs) (skipn n vs) = true.
Proof.
  revert gs vs. induction n as [|n IH]; intros gs vs H; cbn [firstn skipn].
  - split; [reflexivity|exact H].
  - destruct gs as [|g gs], vs as [|v vs]; cbn [typed_fields] in *; try discriminate; [split; reflexivity|].
    apply andb_true_iff in H. destruct H as [H1 H2]. destruct (IH _ _ H2) as [A B]. rewrite H1, A. split; [reflexivity|exact B].
Qed.

Section Frames.
  Variable tables : list (N * table).
  Variable reg : registry.
  Variable senc : N -> list value -> res (list value * list byte).
  Variable zero_rec : N -> option (list value).
  Variable rec : N -> list value -> bool.
  Hypothesis Hsafe : forall t fs, rec t fs = true -> ok_or_err (senc t fs).
  Hypothesis Hzero : forall t z, zero_rec t = Some z -> rec t z = true.
  Variable infallible : N -> bool.
  Hypothesis Hinf : forall t fs, infallible t = true -> rec t fs = true -> exists r, senc t fs = Ok r.

  Lemma schema_safe gs s fs :
    eschema_safe tables reg zero_rec infallible gs s = true -> typed_fields rec gs fs = true ->
    ok_or_err (spec_enc_schema tables reg senc zero_rec s fs).
  Proof.
    intros Hs Ht. destruct s as [ks|hdr le tbl key sum]; cbn [eschema_safe spec_enc_schema] in *.
    - eapply render_fields_safe with (before := []); try eassumption. apply shapes_nil.
    - apply andb_true_iff in Hs. destruct Hs as [Hh Hs].
      destruct (typed_fields_split rec gs fs (length hdr) Ht) as [Ht1 Ht2].
      unfold render_frame.
      destruct (render_fields_safe tables senc zero_rec rec Hsafe Hzero infallible Hinf hdr [] [] _ _ shapes_nil Hh Ht1)
        as [[[hv hb] E]|E]; rewrite E; cbn [bind]; [|right; reflexivity].
      destruct (skipn (length hdr) gs) as [|g1 [|g2 gtl]]; try discriminate; destruct g1; try discriminate; destruct g2; try discriminate.
      destruct (skipn (length hdr) fs) as [|lenv [|body tl]]; cbn [typed_fields] in Ht2; try discriminate.
      { rewrite andb_false_r in Ht2. discriminate. }
      apply andb_true_iff in Ht2. destruct Ht2 as [_ Ht2]. apply andb_true_iff in Ht2. destruct Ht2 as [Hb Htl].
      assert (Hc : ok_or_err (render_call senc GIfNotNil true body)).
      { destruct body; cbn [typed_in] in Hb; try discriminate.
        - apply (render_call_safe senc rec Hsafe infallible Hinf).
          + intro X; discriminate.
          + intros t' fs' X. inversion X; subst. exact Hb.
          + intros; left; reflexivity.
          + exact I.
        - cbn [render_call]. left; eexists; reflexivity. }
      destruct Hc as [[[body' bb] Ec]|Ec]; rewrite Ec; cbn [bind]; [|right; reflexivity].
      destruct sum as [s|]; [|left; eexists; reflexivity].
      destruct gtl as [|g3 gtl]; cbn [hd_error sum_safe] in Hs; [discriminate|]. destruct g3; try discriminate.
      apply andb_true_iff in Hs. destruct Hs as [Hty Hreg].
      destruct tl as [|oldv tl']; cbn [typed_fields] in Htl; [discriminate|].
      apply andb_true_iff in Htl. destruct Htl as [Ho _]. destruct oldv; cbn [typed_in] in Ho; try discriminate.
      destruct (reg_get reg (ss_name s)) as [sv|].
      + rewrite Hreg. cbn [bind w_prim]. left; eexists; reflexivity.
      + cbn [bind w_prim]. left; eexists; reflexivity.
  Qed.
End Frames.

Lemma infallible_ok tables reg senc zero_rec rec infallible gs s fs :
  infallible_schema s = true -> eschema_safe tables reg zero_rec infallible gs s = true -> typed_fields rec gs fs = true ->
  exists r, spec_enc_schema tables reg senc zero_rec s fs = Ok r.
Proof.
  destruct s as [ks|]; [|discriminate]. cbn [infallible_schema eschema_safe spec_enc_schema].
  generalize (@nil kind) as before. generalize (@nil value) as done. revert gs fs.
  induction ks as [|k ks IH]; intros gs fs done before Hi Hs Ht; cbn [render_fields].
  - eexists; reflexivity.
  - cbn [forallb] in Hi. apply andb_true_iff in Hi. destruct Hi as [Hi1 Hi2].
    destruct k as [p prop| |]; try discriminate.
    destruct gs as [|g gs]; [discriminate|]. destruct fs as [|v fs]; [discriminate|].
    cbn [ekinds_safe typed_fields ekind_safe] in *.
    apply andb_true_iff in Hs. destruct Hs as [Hs1 Hs2]. apply andb_true_iff in Hs1. destruct Hs1 as [Hf _].
    apply andb_true_iff in Ht. destruct Ht as [Ht1 Ht2].
    cbn [render_kind]. destruct (w_prim_typed_safe rec p g v Hf Ht1) as [[bs E]|E].
    + rewrite E. cbn [bind]. destruct (IH gs fs (done ++ [v]) (before ++ [KPrim p prop]) Hi2 Hs2 Ht2) as [[r b2] E2].
      rewrite E2. cbn [bind]. eexists; reflexivity.
    + exfalso. eapply w_prim_cannot_fail; eassumption.
Qed.

Lemma typed_env_has_id sg t fs : typed_env sg t fs = true -> exists gs, In (t, gs) sg.
Proof.
  induction sg as [|[id gs] rest IH]; cbn [typed_env]; [discriminate|].
  destruct (N.eqb_spec id t) as [->|]; intro H; [exists gs; left; reflexivity|].
  destruct (IH H) as [gs' Hin]. exists gs'. right. exact Hin.
Qed.

Theorem enc_safe tables reg : forall ss, enc_safe_env tables reg ss = true ->
  forall t fs, typed_env (sigs_of_sdefs ss) t fs = true ->
    ok_or_err (spec_enc_env tables reg ss t fs) /\
    (infallible_env ss t = true -> exists r, spec_enc_env tables reg ss t fs = Ok r).
Proof.
  induction ss as [|sd rest IH]; intros Hs t fs Ht; [discriminate|].
  cbn [enc_safe_env] in Hs. apply andb_true_iff in Hs. destruct Hs as [Hk Hrest].
  cbn [sigs_of_sdefs map typed_env] in Ht. cbn [spec_enc_env infallible_env].
  destruct (sd_id sd =? t).
  - split.
    + eapply schema_safe with (rec := typed_env (sigs_of_sdefs rest)) (infallible := infallible_env rest); try eassumption.
      * intros t' fs' H'. exact (proj1 (IH Hrest t' fs' H')).
      * intros t' z Hz. apply zero_sig_typed. exact Hz.
      * intros t' fs' Hi H'. exact (proj2 (IH Hrest t' fs' H') Hi).
    + intro Hi. eapply infallible_ok; eassumption.
  - apply IH; assumption.
Qed.
