package main

// oracle_conc.go — C19 (registry under concurrency) and C20 (independent messages in parallel).
// Meant to be run from the -race build of the harness: a reported data race makes the process
// exit with status 66, which the orchestrator turns into a violation.

import (
	"bytes"
	"fmt"
	"runtime"
	"sort"
	"sync"
	"sync/atomic"

	"github.com/xinchentechnote/fin-proto-go/codec"
)

func init() {
	oracleTable["C19"] = oracleC19
	oracleTable["C20"] = oracleC20
}

type dummySvc struct {
	name string
	id   int
	slow int
}

func (d *dummySvc) Algorithm() string {
	for i := 0; i < d.slow; i++ {
		runtime.Gosched()
	}
	return d.name
}
func (d *dummySvc) Calc(b *bytes.Buffer) uint32 { return uint32(d.id) }

type histOp struct {
	g        int
	kind     string // reg get rem clr
	name     string
	svc      *dummySvc
	inv, res int64
	okRes    bool
	gotSvc   *dummySvc
}

func (o histOp) String() string {
	switch o.kind {
	case "reg":
		return fmt.Sprintf("g%d [%d,%d] Registry(%s#%d)=%v", o.g, o.inv, o.res, o.name, o.svc.id, o.okRes)
	case "get":
		id := -1
		if o.gotSvc != nil {
			id = o.gotSvc.id
		}
		return fmt.Sprintf("g%d [%d,%d] Get(%s)=(#%d,%v)", o.g, o.inv, o.res, o.name, id, o.okRes)
	case "rem":
		return fmt.Sprintf("g%d [%d,%d] Remove(%s)", o.g, o.inv, o.res, o.name)
	}
	return fmt.Sprintf("g%d [%d,%d] Clear()", o.g, o.inv, o.res)
}

// Wing-Gong search: is there a total order consistent with real time that the sequential map explains?
func linearizable(ops []histOp) bool {
	n := len(ops)
	done := make([]bool, n)
	state := map[string]*dummySvc{}
	var rec func(k int) bool
	rec = func(k int) bool {
		if k == n {
			return true
		}
		// minimal response time among pending ops: an op can go next only if it was invoked before that
		minRes := int64(1 << 62)
		for i := 0; i < n; i++ {
			if !done[i] && ops[i].res < minRes {
				minRes = ops[i].res
			}
		}
		for i := 0; i < n; i++ {
			if done[i] || ops[i].inv > minRes {
				continue
			}
			o := ops[i]
			// apply
			var undo func()
			ok := true
			switch o.kind {
			case "reg":
				_, exists := state[o.name]
				if exists {
					ok = !o.okRes
					undo = func() {}
				} else {
					ok = o.okRes
					state[o.name] = o.svc
					undo = func() { delete(state, o.name) }
				}
			case "get":
				s, exists := state[o.name]
				ok = exists == o.okRes && (!exists || s == o.gotSvc)
				undo = func() {}
			case "rem":
				s, exists := state[o.name]
				delete(state, o.name)
				undo = func() {
					if exists {
						state[o.name] = s
					}
				}
			case "clr":
				saved := state
				state = map[string]*dummySvc{}
				undo = func() { state = saved }
			}
			if ok {
				done[i] = true
				if rec(k + 1) {
					return true
				}
				done[i] = false
			}
			undo()
		}
		return false
	}
	return rec(0)
}

func restoreDefaults() {
	codec.Clear()
	codec.Registry(&codec.Crc16ChecksumService{})
	codec.Registry(&codec.Crc32ChecksumService{})
	codec.Registry(&codec.SseBinChecksumService{})
	codec.Registry(&codec.SzseBinChecksumService{})
}

func oracleC19(rep *report, r *rng) {
	rep.Rule = "Registry/Get/Remove/Clear from 2..4 goroutines over 1..2 names (services whose Algorithm() yields the processor, to widen every window): (A) recorded invocation/response histories checked for linearizability against the sequential map by exhaustive Wing-Gong search; (B) simultaneous registrations of one name: exactly one true, later look-ups return the winner; (C) one Clear against scanning readers over 64 names with no concurrent registration: a reader that saw any name absent must see every later look-up absent; (D) a look-up never returns a service registered under another name. Run under the race detector."
	defer restoreDefaults()
	var clock int64
	tick := func() int64 { return atomic.AddInt64(&clock, 1) }
	id := 0
	newSvc := func(name string, slow int) *dummySvc { id++; return &dummySvc{name: name, id: id, slow: slow} }
	names := []string{"A", "B"}
	// (A) small histories
	nA := rounds(rep, 3000, 40000)
	for round := 0; round < nA && !rep.failed(); round++ {
		codec.Clear()
		if round%3 == 0 {
			codec.Registry(newSvc("A", 0))
		}
		G := 2 + r.intn(3)
		per := 2 + r.intn(2)
		plans := make([][]histOp, G)
		for g := 0; g < G; g++ {
			for k := 0; k < per; k++ {
				o := histOp{g: g, name: names[r.intn(1+round%2)]}
				switch r.intn(10) {
				case 0, 1, 2, 3:
					o.kind, o.svc = "reg", newSvc(o.name, r.intn(3))
				case 4, 5, 6, 7:
					o.kind = "get"
				case 8:
					o.kind = "rem"
				default:
					o.kind = "clr"
				}
				plans[g] = append(plans[g], o)
			}
		}
		// the pre-registered service, if any, is part of the initial state: model it as an op before everything
		var initial []histOp
		if s, ok := codec.Get("A"); ok {
			initial = append(initial, histOp{g: -1, kind: "reg", name: "A", svc: s.(*dummySvc), inv: 0, res: 0, okRes: true})
		}
		var wg sync.WaitGroup
		start := make(chan struct{})
		for g := 0; g < G; g++ {
			wg.Add(1)
			go func(g int) {
				defer wg.Done()
				<-start
				for k := range plans[g] {
					o := &plans[g][k]
					o.inv = tick()
					switch o.kind {
					case "reg":
						o.okRes = codec.Registry(o.svc)
					case "get":
						s, ok := codec.Get(o.name)
						o.okRes = ok
						if ok {
							o.gotSvc, _ = s.(*dummySvc)
						}
					case "rem":
						codec.Remove(o.name)
					case "clr":
						codec.Clear()
					}
					o.res = tick()
				}
			}(g)
		}
		close(start)
		wg.Wait()
		all := append([]histOp{}, initial...)
		for g := range plans {
			all = append(all, plans[g]...)
		}
		sort.Slice(all, func(i, j int) bool { return all[i].inv < all[j].inv })
		var desc []string
		for _, o := range all {
			desc = append(desc, o.String())
		}
		rep.eval("history", fmt.Sprint(desc))
		for _, o := range all {
			if o.kind == "get" && o.okRes && (o.gotSvc == nil || o.gotSvc.name != o.name) {
				rep.fail(failure{Oracle: "wrong-name", What: "a look-up returned a service registered under another name", Input: map[string]any{"history": desc}})
			}
		}
		if !linearizable(all) {
			rep.fail(failure{Oracle: "linearizability", What: "no sequential order of the calls consistent with real time explains the results", Input: map[string]any{"history": desc}})
		}
		if round == 1 {
			rep.sample(fmt.Sprint(desc))
		}
	}
	// (B) one winner
	nB := rounds(rep, 1500, 20000)
	for round := 0; round < nB && !rep.failed(); round++ {
		codec.Clear()
		K := 2 + r.intn(3)
		svcs := make([]*dummySvc, K)
		res := make([]bool, K)
		for i := range svcs {
			svcs[i] = newSvc("W", 1+r.intn(4))
		}
		var wg sync.WaitGroup
		start := make(chan struct{})
		for i := 0; i < K; i++ {
			wg.Add(1)
			go func(i int) {
				defer wg.Done()
				<-start
				res[i] = codec.Registry(svcs[i])
			}(i)
		}
		close(start)
		wg.Wait()
		wins := 0
		var winner *dummySvc
		for i := range res {
			if res[i] {
				wins++
				winner = svcs[i]
			}
		}
		got, ok := codec.Get("W")
		rep.eval("one-winner", fmt.Sprint(round, K))
		if wins != 1 || !ok || got != any(winner) {
			gid := -1
			if g, isD := got.(*dummySvc); isD {
				gid = g.id
			}
			rep.fail(failure{Oracle: "one-winner", What: fmt.Sprintf("%d concurrent registrations of one name: %d returned true; a later look-up returned service #%d", K, wins, gid),
				Input: map[string]any{"results": fmt.Sprint(res), "services": K}})
		}
	}
	// (C) Clear is atomic for readers
	nC := rounds(rep, 150, 1500)
	for round := 0; round < nC && !rep.failed(); round++ {
		codec.Clear()
		M := 64
		nm := make([]string, M)
		for i := range nm {
			nm[i] = fmt.Sprintf("N%02d", i)
			codec.Registry(newSvc(nm[i], 0))
		}
		var cleared int32
		var wg sync.WaitGroup
		start := make(chan struct{})
		bad := make([]string, 4)
		for g := 0; g < 4; g++ {
			wg.Add(1)
			go func(g int) {
				defer wg.Done()
				<-start
				sawAbsent := ""
				for pass := 0; pass < 40; pass++ {
					for i := 0; i < M; i++ {
						j := (i*7 + g*13 + pass) % M
						after := atomic.LoadInt32(&cleared) == 1
						_, ok := codec.Get(nm[j])
						if ok && sawAbsent != "" {
							bad[g] = fmt.Sprintf("reader %d saw %s absent and later %s present while only a Clear was running", g, sawAbsent, nm[j])
							return
						}
						if ok && after {
							bad[g] = fmt.Sprintf("reader %d saw %s present after Clear had returned", g, nm[j])
							return
						}
						if !ok && sawAbsent == "" {
							sawAbsent = nm[j]
						}
					}
				}
			}(g)
		}
		wg.Add(1)
		go func() {
			defer wg.Done()
			<-start
			for i := 0; i < 50; i++ {
				runtime.Gosched()
			}
			codec.Clear()
			atomic.StoreInt32(&cleared, 1)
		}()
		close(start)
		wg.Wait()
		rep.eval("clear-atomic", fmt.Sprint(round))
		for _, b := range bad {
			if b != "" {
				rep.fail(failure{Oracle: "clear-atomic", What: b, Input: map[string]any{"names": M, "readers": 4}})
				break
			}
		}
	}
}

// ---------- C20 ----------
type parItem struct {
	t     *genType
	dump  string
	bytes []byte
	post  string
	// a malformed input (the encoding cut short) and what decoding it gives alone
	cut     []byte
	cutSt   string
	cutPost string
}

func oracleC20(rep *report, r *rng) {
	rep.Rule = "8..16 goroutines, each with its own messages and truncated copies of their encodings (every protocol, frames with checksum services, left/zero/NUL padded and short text, lists) and its own buffers, encode and decode in parallel; every result is compared with the result computed sequentially beforehand. Run under the race detector."
	G := 8
	if rep.thorough {
		G = 16
	}
	nR := rounds(rep, 6, 40)
	for round := 0; round < nR && !rep.failed(); round++ {
		items := make([][]parItem, G)
		for g := 0; g < G; g++ {
			for k := 0; k < 60; k++ {
				var t *genType
				switch k % 4 {
				case 0:
					t = frameTypes[r.intn(len(frameTypes))]
				case 1:
					t = typeByNameOrPick(r, []string{"sample-bin.StringPacket", "sample-bin.BasicPacket"}[(k/4)%2])
				default:
					t = r.pickType()
				}
				m := r.genMessage(t, genOpts{canonical: true})
				d := dumpMsg(m)
				st, enc := encodeFresh(m)
				if st != "ok" {
					continue
				}
				it := parItem{t: t, dump: d, bytes: enc, post: dumpMsg(m)}
				if len(enc) > 0 {
					// malformed packets arrive among the good ones: cut anywhere, now and then just inside the last element
					c := r.intn(len(enc))
					if r.chance(1, 3) && len(enc) > 3 {
						c = len(enc) - 1 - r.intn(3)
					}
					it.cut = append([]byte{}, enc[:c]...)
					recv := t.New()
					it.cutSt = callDecode(recv, bytes.NewBuffer(append([]byte{}, it.cut...)))
					if it.cutSt == "ok" {
						it.cutPost = dumpMsg(recv)
					}
				}
				items[g] = append(items[g], it)
			}
		}
		var wg sync.WaitGroup
		start := make(chan struct{})
		fails := make([]*failure, G)
		for g := 0; g < G; g++ {
			wg.Add(1)
			go func(g int) {
				defer wg.Done()
				<-start
				buf := &bytes.Buffer{}
				for pass := 0; pass < 4; pass++ {
					for _, it := range items[g] {
						m := parseMsg(it.dump)
						buf.Reset()
						st := callEncode(m, buf)
						if st != "ok" || !bytes.Equal(buf.Bytes(), it.bytes) {
							fails[g] = &failure{Oracle: "parallel-encode", Type: it.t.QName(), What: "Encode in parallel (" + st + ") produced other bytes than alone",
								Input: inputOf(it.t, "value", it.dump, "alone_hex", hx(it.bytes), "parallel_hex", hx(buf.Bytes()), "goroutines", G)}
							return
						}
						recv := it.t.New()
						st2 := callDecode(recv, bytes.NewBuffer(it.bytes))
						if st2 != "ok" || dumpMsg(recv) != it.post {
							fails[g] = &failure{Oracle: "parallel-decode", Type: it.t.QName(), What: "Decode in parallel (" + st2 + ") produced another message than alone",
								Input: inputOf(it.t, "bytes_hex", hx(it.bytes), "alone", it.post, "parallel", dumpMsg(recv), "goroutines", G)}
							return
						}
						if it.cut != nil {
							recv := it.t.New()
							st3 := callDecode(recv, bytes.NewBuffer(append([]byte{}, it.cut...)))
							if st3 != it.cutSt || (st3 == "ok" && dumpMsg(recv) != it.cutPost) {
								fails[g] = &failure{Oracle: "parallel-decode-malformed", Type: it.t.QName(), What: "Decode of a truncated input in parallel (" + st3 + ") differs from the same call alone (" + it.cutSt + ")",
									Input: inputOf(it.t, "bytes_hex", hx(it.cut), "alone", it.cutPost, "parallel", dumpMsg(recv), "goroutines", G)}
								return
							}
						}
					}
				}
			}(g)
		}
		close(start)
		wg.Wait()
		for g := range items {
			rep.eval("parallel", fmt.Sprint(round, g, len(items[g])))
			for _, it := range items[g] {
				rep.eval("parallel-item/"+it.t.Pkg, it.dump)
			}
		}
		for _, f := range fails {
			if f != nil {
				rep.fail(*f)
			}
		}
	}
}

func typeByNameOrPick(r *rng, qn string) *genType {
	for i := range genTypes {
		if genTypes[i].QName() == qn {
			return &genTypes[i]
		}
	}
	return r.pickType()
}
