(* Props/C07.v — decoding consumes exactly one message's bytes; back-to-back messages stream. *)
From FP.Props Require Import Common C01.
From FP.Theory Require Import RoundTrip DecSafe.
Local Open Scope N_scope.

(* C07, exact consumption.  An encoded canonical message followed by arbitrary further bytes: Decode (into any
   receiver) consumes exactly the message's bytes and leaves the rest untouched and unread. *)
Theorem C07_exact_consumption : forall t fs fs' bs r tail,
  typed t fs = true -> canonical t fs -> receiver_ok t r = true ->
  encode t fs [] = Ok (fs', bs) -> decode t r (bs ++ tail) = Ok (fs', tail).
Proof. exact C01_encode_then_decode. Qed.

(* for arbitrary (not necessarily valid) input too: whatever Decode accepts, it consumed a prefix and the rest is
   exactly the remaining input *)
Theorem C07_rest_is_a_suffix : forall t r buf fs rest,
  receiver_ok t r = true -> decode t r buf = Ok (fs, rest) -> exists pre, buf = pre ++ rest.
Proof.
  intros t r buf fs rest Hr H. rewrite decode_spec in H by exact Hr.
  destruct (dec_consume tables schemas t buf fs rest H_dec_safe H) as [pre [Hp _]]. exists pre. exact Hp.
Qed.

(* C07, streams.  n messages of any mix of types encoded one after another (each appended to the same buffer, C06)
   are recovered, in order and equal to the messages as encoded, by n successive decodes - each into any receiver of
   its type - leaving exactly the trailing bytes (nothing, if nothing followed). *)
Notation encode_alone := (fun t fs => encode t fs []).
Notation encode_stream := (enc_stream encode_alone).
Notation decode_stream := (dec_stream_r decode).

Theorem C07_streams_decode_back : forall ms receivers outs bs tail,
  Forall (fun m => typed (fst m) (snd m) = true /\ canonical (fst m) (snd m)) ms ->
  map fst receivers = map fst ms -> Forall (fun tr => receiver_ok (fst tr) (snd tr) = true) receivers ->
  encode_stream ms = Ok (outs, bs) ->
  decode_stream receivers (bs ++ tail) = Ok (outs, tail).
Proof.
  exact (stream_round_trip_r encode_alone decode (fun t fs => typed t fs = true /\ canonical t fs) (fun t r => receiver_ok t r = true)
           (fun t fs fs' bs r rest Hc Hr He => C01_encode_then_decode t fs fs' bs r rest (proj1 Hc) (proj2 Hc) Hr He)).
Qed.

(* non-vacuity: two different SSE frames streamed and decoded through ONE reused receiver object each *)
Definition f1 : list value := C01.ex_frame.
Definition f2 : list value := [VInt 33; VInt 8; VInt 0; VObj id_sse_bin_Heartbeat []; VInt 0].
Example C07_nonvacuous :
  match encode_stream [(id_sse_bin_SseBinary, f1); (id_sse_bin_SseBinary, f2)] with
  | Ok (outs, bs) =>
      match decode_stream [(id_sse_bin_SseBinary, zero_value id_sse_bin_SseBinary); (id_sse_bin_SseBinary, f1)] bs with
      | Ok (outs', []) => Nat.eqb (length outs') 2
      | _ => false end
  | Fail _ => false end = true.
Proof. vm_compute. reflexivity. Qed.

(* How a reader takes its bytes: io.ReadFull (binary.Read is ReadFull of the value's size) on the structural model of
   bytes.Buffer (Model/Buffer.v, tied to the real type by the "buf" correspondence slice): when k bytes are there it
   returns exactly the first k and leaves the rest; otherwise it returns an error - never fewer bytes with success. *)
From FP.Model Require Buffer.
From FP.Theory Require BufferRefine.
Theorem C07_read_full_takes_exactly_k_or_fails : forall h b k, BufferRefine.WF h b ->
  let '(b', out, err) := Buffer.read_full h b k in
  BufferRefine.WF h b' /\ Buffer.contents h b' = skipn k (Buffer.contents h b) /\
  ((k <= Buffer.unread b)%nat -> out = firstn k (Buffer.contents h b) /\ err = false) /\
  ((Buffer.unread b < k)%nat -> out = Buffer.contents h b /\ err = true).
Proof. exact BufferRefine.read_full_refines. Qed.

Print Assumptions C07_read_full_takes_exactly_k_or_fails.
Print Assumptions C07_exact_consumption.
Print Assumptions C07_rest_is_a_suffix.
Print Assumptions C07_streams_decode_back.
