package main

// normalize.go — behaviour-preserving rewrites applied to the message packages' syntax trees before the grammar of
// main.go is matched, so that code written in another (equivalent) style translates to the same IR:
//
//   expressions   (e) -> e;  nil == x -> x == nil;  nil != x -> x != nil;  !(a == b) -> a != b;  !(a != b) -> a == b;
//                 new(T) -> &T{};  a constant declared as  const c [T] = <literal>  is replaced by its value
//   statements    if [init;] x == nil { A } else { B }  ->  if [init;] x != nil { B } else { A };   if [init;] !c { A } else { B }  ->  if [init;] c { B } else { A }
//                 if c { ...; return } else { B }        ->  if c { ...; return }; B
//                 v, ok := m[k]; if !ok { R1 }; R2       ->  if v, ok := m[k]; ok { R2 }; R1        (R1, R2 end in return)
//                 var p T; return &p                     ->  return &T{}
//                 return f(...)   (last statement, the function returns one error)  ->  if err := f(...); err != nil { return err }; return nil
//                 F  where F names a constructor-shaped function `func F() *T { return &T{} }`, passed as a factory  ->  func() *T { return &T{} }
//
// Each rewrite preserves the behaviour of the function for every input (Go spec: evaluation order of the operands
// involved is unchanged; the constants are untyped or typed basic literals).  The rewritten trees are never printed
// back; they only feed the statement matcher.

import (
	"go/ast"
	"go/token"
)

type normCtx struct {
	consts map[string]ast.Expr // package-level constants with literal values
	ctors  map[string]string   // function name -> T, for functions of the shape func F() *T { return &T{} }
}

func literalValue(e ast.Expr) bool {
	switch x := e.(type) {
	case *ast.BasicLit:
		return true
	case *ast.ParenExpr:
		return literalValue(x.X)
	case *ast.UnaryExpr:
		return (x.Op == token.SUB || x.Op == token.ADD) && literalValue(x.X)
	case *ast.CallExpr:
		// uint32(0)
		if id, ok := x.Fun.(*ast.Ident); ok && len(x.Args) == 1 {
			if _, isTy := ityOf[id.Name]; isTy {
				return literalValue(x.Args[0])
			}
		}
	}
	return false
}

func constValue(vs *ast.ValueSpec, i int) (ast.Expr, bool) {
	if i >= len(vs.Values) || !literalValue(vs.Values[i]) {
		return nil, false
	}
	v := vs.Values[i]
	if vs.Type != nil {
		id, ok := vs.Type.(*ast.Ident)
		if !ok {
			return nil, false
		}
		if _, isTy := ityOf[id.Name]; !isTy {
			return nil, false
		}
		return &ast.CallExpr{Fun: ast.NewIdent(id.Name), Args: []ast.Expr{v}}, true
	}
	return v, true
}

func (n *normCtx) expr(e ast.Expr, local map[string]ast.Expr) ast.Expr {
	if e == nil {
		return nil
	}
	switch x := e.(type) {
	case *ast.ParenExpr:
		return n.expr(x.X, local)
	case *ast.Ident:
		if v, ok := local[x.Name]; ok {
			return v
		}
		if v, ok := n.consts[x.Name]; ok {
			return v
		}
		return x
	case *ast.BinaryExpr:
		x.X, x.Y = n.expr(x.X, local), n.expr(x.Y, local)
		if (x.Op == token.EQL || x.Op == token.NEQ) && exprStr(x.X) == "nil" && exprStr(x.Y) != "nil" {
			x.X, x.Y = x.Y, x.X
		}
		return x
	case *ast.UnaryExpr:
		x.X = n.expr(x.X, local)
		if x.Op == token.NOT {
			if b, ok := x.X.(*ast.BinaryExpr); ok && (b.Op == token.EQL || b.Op == token.NEQ) {
				op := token.NEQ
				if b.Op == token.NEQ {
					op = token.EQL
				}
				return &ast.BinaryExpr{X: b.X, OpPos: b.OpPos, Op: op, Y: b.Y}
			}
		}
		return x
	case *ast.CallExpr:
		x.Fun = n.expr(x.Fun, local)
		for i := range x.Args {
			x.Args[i] = n.expr(x.Args[i], local)
		}
		if id, ok := x.Fun.(*ast.Ident); ok && id.Name == "new" && len(x.Args) == 1 {
			if t, ok := x.Args[0].(*ast.Ident); ok {
				return &ast.UnaryExpr{OpPos: x.Pos(), Op: token.AND, X: &ast.CompositeLit{Type: t, Lbrace: x.Pos(), Rbrace: x.End()}}
			}
		}
		// a named constructor passed where a factory closure is expected
		for i, a := range x.Args {
			if id, ok := a.(*ast.Ident); ok {
				if t, ok := n.ctors[id.Name]; ok {
					x.Args[i] = &ast.FuncLit{
						Type: &ast.FuncType{Func: a.Pos(), Params: &ast.FieldList{}, Results: &ast.FieldList{List: []*ast.Field{{Type: &ast.StarExpr{X: ast.NewIdent(t)}}}}},
						Body: &ast.BlockStmt{List: []ast.Stmt{&ast.ReturnStmt{Results: []ast.Expr{
							&ast.UnaryExpr{Op: token.AND, X: &ast.CompositeLit{Type: ast.NewIdent(t)}}}}}}}
				}
			}
		}
		return x
	case *ast.SelectorExpr:
		x.X = n.expr(x.X, local)
		return x
	case *ast.IndexExpr:
		x.X, x.Index = n.expr(x.X, local), n.expr(x.Index, local)
		return x
	case *ast.IndexListExpr:
		x.X = n.expr(x.X, local)
		return x
	case *ast.SliceExpr:
		x.X, x.Low, x.High = n.expr(x.X, local), n.expr(x.Low, local), n.expr(x.High, local)
		return x
	case *ast.StarExpr:
		x.X = n.expr(x.X, local)
		return x
	case *ast.TypeAssertExpr:
		x.X = n.expr(x.X, local)
		return x
	case *ast.CompositeLit:
		for i := range x.Elts {
			x.Elts[i] = n.expr(x.Elts[i], local)
		}
		return x
	case *ast.KeyValueExpr:
		x.Value = n.expr(x.Value, local)
		return x
	case *ast.FuncLit:
		x.Body = n.block(x.Body, local, false)
		return x
	}
	return e
}

func endsInReturn2(b *ast.BlockStmt) bool {
	if b == nil || len(b.List) == 0 {
		return false
	}
	_, ok := b.List[len(b.List)-1].(*ast.ReturnStmt)
	return ok
}

func (n *normCtx) stmt(s ast.Stmt, local map[string]ast.Expr) ast.Stmt {
	switch x := s.(type) {
	case *ast.ExprStmt:
		x.X = n.expr(x.X, local)
	case *ast.AssignStmt:
		for i := range x.Rhs {
			x.Rhs[i] = n.expr(x.Rhs[i], local)
		}
		for i := range x.Lhs {
			if _, isId := x.Lhs[i].(*ast.Ident); !isId {
				x.Lhs[i] = n.expr(x.Lhs[i], local)
			}
		}
	case *ast.ReturnStmt:
		for i := range x.Results {
			x.Results[i] = n.expr(x.Results[i], local)
		}
	case *ast.IfStmt:
		if x.Init != nil {
			x.Init = n.stmt(x.Init, local)
		}
		x.Cond = n.expr(x.Cond, local)
		x.Body = n.block(x.Body, local, false)
		switch e := x.Else.(type) {
		case *ast.BlockStmt:
			x.Else = n.block(e, local, false)
		case *ast.IfStmt:
			x.Else = n.stmt(e, local)
		}
		// !c with an else branch: test c and swap the branches
		if u, ok := x.Cond.(*ast.UnaryExpr); ok && u.Op == token.NOT {
			if eb, ok := x.Else.(*ast.BlockStmt); ok {
				x.Cond = u.X
				x.Body, x.Else = eb, x.Body
			}
		}
		// x == nil with an else branch: test x != nil instead
		if b, ok := x.Cond.(*ast.BinaryExpr); ok && b.Op == token.EQL && exprStr(b.Y) == "nil" {
			if eb, ok := x.Else.(*ast.BlockStmt); ok {
				x.Cond = &ast.BinaryExpr{X: b.X, OpPos: b.OpPos, Op: token.NEQ, Y: b.Y}
				x.Body, x.Else = eb, x.Body
			}
		}
	case *ast.ForStmt:
		x.Body = n.block(x.Body, local, false)
	case *ast.RangeStmt:
		x.X = n.expr(x.X, local)
		x.Body = n.block(x.Body, local, false)
	case *ast.BlockStmt:
		return n.block(x, local, false)
	case *ast.DeferStmt:
		n.expr(x.Call, local)
	}
	return s
}

// normalise a statement list; [fnBody] with errOnly: the list is the body of a function returning exactly one error
func (n *normCtx) block(b *ast.BlockStmt, outer map[string]ast.Expr, errOnlyFnBody bool) *ast.BlockStmt {
	if b == nil {
		return nil
	}
	local := map[string]ast.Expr{}
	for k, v := range outer {
		local[k] = v
	}
	var out []ast.Stmt
	// variables declared without a value (`var v T`) whose first use is as the target of a plain assignment: the
	// declaration is dropped and that assignment becomes a definition
	pendingVars := map[string]ast.Stmt{}
	dropped := map[ast.Stmt]bool{}
	for _, s := range b.List {
		if ds, ok := s.(*ast.DeclStmt); ok {
			if gd, ok := ds.Decl.(*ast.GenDecl); ok && gd.Tok == token.VAR && len(gd.Specs) == 1 {
				vs := gd.Specs[0].(*ast.ValueSpec)
				if len(vs.Values) == 0 && len(vs.Names) == 1 {
					pendingVars[vs.Names[0].Name] = s
				}
			}
		}
		if as, ok := s.(*ast.AssignStmt); ok && as.Tok == token.ASSIGN && len(pendingVars) > 0 {
			all := len(as.Lhs) > 0
			for _, l := range as.Lhs {
				id, isId := l.(*ast.Ident)
				if !isId || pendingVars[id.Name] == nil {
					all = false
				}
			}
			if all {
				as.Tok = token.DEFINE
				for _, l := range as.Lhs {
					dropped[pendingVars[l.(*ast.Ident).Name]] = true
					delete(pendingVars, l.(*ast.Ident).Name)
				}
			}
		}
		// function-local constants
		if ds, ok := s.(*ast.DeclStmt); ok {
			if gd, ok := ds.Decl.(*ast.GenDecl); ok && gd.Tok == token.CONST {
				all := true
				for _, sp := range gd.Specs {
					vs := sp.(*ast.ValueSpec)
					for i, nm := range vs.Names {
						if v, ok := constValue(vs, i); ok {
							local[nm.Name] = v
						} else {
							all = false
						}
					}
				}
				if all {
					continue
				}
			}
		}
		out = append(out, n.stmt(s, local))
	}
	// if c { ...; return } else { B }   ->   if c { ...; return }; B
	for i := 0; i < len(out); i++ {
		if ifs, ok := out[i].(*ast.IfStmt); ok && i == len(out)-1 && endsInReturn2(ifs.Body) {
			if eb, ok := ifs.Else.(*ast.BlockStmt); ok && endsInReturn2(eb) && ifs.Init == nil {
				ifs.Else = nil
				out = append(out[:i+1], eb.List...)
			} else if ok && endsInReturn2(eb) && ifs.Init != nil {
				// with an initialiser the variables it declares must not be used in B
				used := false
				if as, isAs := ifs.Init.(*ast.AssignStmt); isAs {
					for _, l := range as.Lhs {
						nm := exprStr(l)
						ast.Inspect(eb, func(x ast.Node) bool {
							if id, ok := x.(*ast.Ident); ok && id.Name == nm {
								used = true
							}
							return true
						})
					}
				}
				if !used {
					ifs.Else = nil
					out = append(out[:i+1], eb.List...)
				}
			}
		}
	}
	// v, ok := m[k]; if !ok { R1 }; R2...   ->   if v, ok := m[k]; ok { R2... }; R1...
	if len(out) >= 3 {
		if as, ok := out[0].(*ast.AssignStmt); ok && as.Tok == token.DEFINE && len(as.Lhs) == 2 && len(as.Rhs) == 1 {
			if _, isIx := as.Rhs[0].(*ast.IndexExpr); isIx {
				if ifs, ok := out[1].(*ast.IfStmt); ok && ifs.Init == nil && ifs.Else == nil && endsInReturn2(ifs.Body) {
					// positive form:  v, ok := m[k]; if ok { R2 }; R1...   ->   if v, ok := m[k]; ok { R2 }; R1...
					if id, ok := ifs.Cond.(*ast.Ident); ok && id.Name == exprStr(as.Lhs[1]) {
						ifs.Init = as
						out = out[1:]
					} else if u, ok := ifs.Cond.(*ast.UnaryExpr); ok && u.Op == token.NOT && exprStr(u.X) == exprStr(as.Lhs[1]) {
						rest := &ast.BlockStmt{List: out[2:]}
						if endsInReturn2(rest) {
							nif := &ast.IfStmt{If: as.Pos(), Init: as, Cond: as.Lhs[1], Body: rest}
							out = append([]ast.Stmt{nif}, ifs.Body.List...)
						}
					}
				}
			}
		}
	}
	// var p T; return &p   ->   return &T{}
	if len(out) >= 2 {
		if ds, ok := out[len(out)-2].(*ast.DeclStmt); ok {
			if gd, ok := ds.Decl.(*ast.GenDecl); ok && gd.Tok == token.VAR && len(gd.Specs) == 1 {
				vs := gd.Specs[0].(*ast.ValueSpec)
				if ret, ok := out[len(out)-1].(*ast.ReturnStmt); ok && len(vs.Names) == 1 && len(vs.Values) == 0 && vs.Type != nil && len(ret.Results) == 1 {
					if u, ok := ret.Results[0].(*ast.UnaryExpr); ok && u.Op == token.AND && exprStr(u.X) == vs.Names[0].Name {
						if t, ok := vs.Type.(*ast.Ident); ok {
							ret.Results[0] = &ast.UnaryExpr{OpPos: u.OpPos, Op: token.AND, X: &ast.CompositeLit{Type: t}}
							out = append(out[:len(out)-2], ret)
						}
					}
				}
			}
		}
	}
	// return f(...)  as the last statement of a function returning one error
	if errOnlyFnBody && len(out) > 0 {
		if ret, ok := out[len(out)-1].(*ast.ReturnStmt); ok && len(ret.Results) == 1 {
			if call, ok := ret.Results[0].(*ast.CallExpr); ok {
				errId := ast.NewIdent("err")
				guard := &ast.IfStmt{If: ret.Pos(),
					Init: &ast.AssignStmt{Lhs: []ast.Expr{errId}, TokPos: ret.Pos(), Tok: token.DEFINE, Rhs: []ast.Expr{call}},
					Cond: &ast.BinaryExpr{X: ast.NewIdent("err"), OpPos: ret.Pos(), Op: token.NEQ, Y: ast.NewIdent("nil")},
					Body: &ast.BlockStmt{Lbrace: ret.Pos(), List: []ast.Stmt{&ast.ReturnStmt{Return: ret.Pos(), Results: []ast.Expr{ast.NewIdent("err")}}}}}
				out = append(out[:len(out)-1], guard, &ast.ReturnStmt{Return: ret.Pos(), Results: []ast.Expr{ast.NewIdent("nil")}})
			}
		}
	}
	var kept []ast.Stmt
	for _, s := range out {
		if !dropped[s] {
			kept = append(kept, s)
		}
	}
	b.List = normalizeBody(kept)
	return b
}

// normalise all files of a package (constants and constructor-shaped functions are per package)
func normalizePkg(files []*ast.File) {
	n := &normCtx{consts: map[string]ast.Expr{}, ctors: map[string]string{}}
	for _, f := range files {
		var decls []ast.Decl
		for _, d := range f.Decls {
			if gd, ok := d.(*ast.GenDecl); ok && gd.Tok == token.CONST {
				all := true
				for _, sp := range gd.Specs {
					vs := sp.(*ast.ValueSpec)
					for i, nm := range vs.Names {
						if v, ok := constValue(vs, i); ok {
							n.consts[nm.Name] = v
						} else {
							all = false
						}
					}
				}
				if all {
					continue
				}
			}
			decls = append(decls, d)
		}
		f.Decls = decls
	}
	// first pass over function bodies (so that new(T) / var p T forms are already &T{} when constructors are recognised)
	norm := func() {
		for _, f := range files {
			for _, d := range f.Decls {
				fd, ok := d.(*ast.FuncDecl)
				if !ok || fd.Body == nil {
					continue
				}
				errOnly := fd.Type.Results != nil && fd.Type.Results.NumFields() == 1 && exprStr(fd.Type.Results.List[0].Type) == "error" && fd.Recv != nil
				fd.Body = n.block(fd.Body, nil, errOnly)
			}
		}
	}
	norm()
	for _, f := range files {
		for _, d := range f.Decls {
			fd, ok := d.(*ast.FuncDecl)
			if !ok || fd.Recv != nil || fd.Body == nil || fd.Type.Params.NumFields() != 0 || len(fd.Body.List) != 1 {
				continue
			}
			if ret, ok := fd.Body.List[0].(*ast.ReturnStmt); ok && len(ret.Results) == 1 {
				if t := newLit(ret.Results[0]); t != "" && fd.Type.Results.NumFields() == 1 && exprStr(fd.Type.Results.List[0].Type) == "*"+t {
					n.ctors[fd.Name.Name] = t
				}
			}
		}
	}
	norm()
}
