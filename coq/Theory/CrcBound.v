(* Theory/CrcBound.v — every checksum service returns a value that fits its result type. *)
From FP.Model Require Import Checksum.
From FP.Theory Require Import SumFacts.
From Coq Require Import ZifyBool ZifyNat ZifyN.
Local Open Scope N_scope.

Lemma lxor_lt a b n : a < 2 ^ n -> b < 2 ^ n -> N.lxor a b < 2 ^ n.
Proof.
  intros Ha Hb. destruct (N.eq_dec (N.lxor a b) 0) as [E|E]; [rewrite E; apply N.neq_0_lt_0; apply N.pow_nonzero; lia|].
  apply N.log2_lt_pow2; [lia|].
  eapply N.le_lt_trans; [apply N.log2_lxor|].
  assert (Hn : 0 < n).
  { destruct (N.eq_dec n 0) as [->|]; [|lia]. cbn in Ha, Hb. assert (a = 0) by lia. assert (b = 0) by lia. subst. cbn in E. congruence. }
  apply N.max_lub_lt.
  - destruct (N.eq_dec a 0) as [->|]; [cbn; exact Hn|]. apply N.log2_lt_pow2; [lia|exact Ha].
  - destruct (N.eq_dec b 0) as [->|]; [cbn; exact Hn|]. apply N.log2_lt_pow2; [lia|exact Hb].
Qed.

Lemma shiftr1_lt a n : a < 2 ^ n -> N.shiftr a 1 < 2 ^ n.
Proof.
  intro H. rewrite N.shiftr_div_pow2. change (2 ^ 1) with 2.
  eapply N.le_lt_trans; [|exact H]. apply N.div_le_upper_bound; lia.
Qed.

Lemma shift_step_lt poly crc n : poly < 2 ^ n -> crc < 2 ^ n -> shift_step poly crc < 2 ^ n.
Proof.
  intros Hp Hc. unfold shift_step. destruct (N.testbit crc 0); [apply lxor_lt; [apply shiftr1_lt; exact Hc|exact Hp]|apply shiftr1_lt; exact Hc].
Qed.

Lemma crc_step_lt poly crc b n : 8 <= n -> poly < 2 ^ n -> crc < 2 ^ n -> crc_step poly crc b < 2 ^ n.
Proof.
  intros Hn Hp Hc. unfold crc_step, shift8.
  assert (Hb : b2n b < 2 ^ n).
  { pose proof (b2n_lt b). eapply N.lt_le_trans; [exact H|]. change 256 with (2 ^ 8). apply N.pow_le_mono_r; lia. }
  repeat apply shift_step_lt; try exact Hp. apply lxor_lt; assumption.
Qed.

Lemma crc_fold_lt poly n bs : 8 <= n -> poly < 2 ^ n -> forall init, init < 2 ^ n -> fold_left (crc_step poly) bs init < 2 ^ n.
Proof.
  intros Hn Hp. induction bs as [|b bs IH]; intros init Hi; cbn [fold_left]; [exact Hi|].
  apply IH. apply crc_step_lt; assumption.
Qed.

Theorem crc16_calc_lt bs : crc16_calc bs < 65536.
Proof. unfold crc16_calc. change 65536 with (2 ^ 16). apply crc_fold_lt; [lia|cbn; lia|cbn; lia]. Qed.

Theorem crc32_calc_lt bs : crc32_calc bs < 4294967296.
Proof.
  unfold crc32_calc. change 4294967296 with (2 ^ 32). apply lxor_lt; [|cbn; lia].
  apply crc_fold_lt; [lia|cbn; lia|cbn; lia].
Qed.

Theorem calc_fits a bs :
  calc a bs < match a with ACrc16 => 65536 | _ => 4294967296 end.
Proof.
  destruct a; cbn [calc].
  - apply crc16_calc_lt.
  - apply crc32_calc_lt.
  - pose proof (sse_calc_range bs). lia.
  - pose proof (szse_calc_range bs). lia.
Qed.
