(* Props/C13.v — fixed-width text: exactly N bytes; pad or cut on write, strip only pad on read. *)
From FP.Model Require Import Codec.
From FP.Theory Require Import FixedFacts.
Local Open Scope nat_scope.

(* writing always emits exactly N bytes (any width, pad rune, side, text) *)
Theorem C13_exactly_n_bytes : forall n pad left s, length (write_fixed n pad left s) = n.
Proof. exact write_fixed_length. Qed.
(* a longer (or N-byte) value is cut to its first N bytes / emitted verbatim *)
Theorem C13_long_value_cut : forall n pad left s, n <= length s -> write_fixed n pad left s = firstn n s.
Proof. exact write_fixed_long. Qed.
(* a shorter value is padded with the pad byte on the pad side *)
Theorem C13_short_value_padded : forall n pad left s, length s <= n ->
  write_fixed n pad left s = if left then repeat (pad_byte pad) (n - length s) ++ s else s ++ repeat (pad_byte pad) (n - length s).
Proof. exact write_fixed_short. Qed.
(* reading consumes exactly N bytes and returns them stripped on the pad side *)
Theorem C13_read_consumes_n : forall n pad left x rest, length x = n ->
  read_fixed n pad left (x ++ rest) = Ok (if left then trim_left (pad_byte pad) x else trim_right (pad_byte pad) x, rest).
Proof. exact read_fixed_ok. Qed.
(* only the pad byte is stripped and only from the pad side: the field is the result plus a run of pad
   bytes on that side, and the result does not begin (end) with the pad byte; everything else -
   interior and other-side pads, spaces, zeros, NULs, bytes >= 0x80 - is preserved *)
Theorem C13_strip_left_only_pad : forall b x,
  exists k, x = repeat b k ++ trim_left b x /\ (forall y r, trim_left b x = y :: r -> y <> b).
Proof. exact trim_left_spec. Qed.
Theorem C13_strip_right_only_pad : forall b x,
  exists k, x = trim_right b x ++ repeat b k /\ (forall y r, trim_right b x = r ++ [y] -> y <> b).
Proof. exact trim_right_spec. Qed.
(* hence canonical values round-trip, and every N-byte field re-encodes to itself *)
Theorem C13_round_trip : forall n pad (left : bool) s rest,
  length s <= n -> (if left then no_head (pad_byte pad) s else no_last (pad_byte pad) s) ->
  read_fixed n pad left (write_fixed n pad left s ++ rest) = Ok (s, rest).
Proof. exact fixed_round_trip. Qed.
Theorem C13_reencode : forall n pad (left : bool) x, length x = n ->
  write_fixed n pad left (if left then trim_left (pad_byte pad) x else trim_right (pad_byte pad) x) = x.
Proof. exact fixed_reencode. Qed.

(* the default wrappers are the ' ' right-padded instance (default_pad = 32) *)
Example C13_default_pad : default_pad = 32%N. Proof. reflexivity. Qed.
(* non-vacuity / sanity on the defect found on the pinned tree: pad 0xE9, "abc" in 6 bytes *)
Example C13_high_pad :
  read_fixed 6 233 false (write_fixed 6 233 false [x61; x62; x63]) = Ok ([x61; x62; x63], []) /\
  read_fixed 3 233 false [x61; xc3; xa9] = Ok ([x61; xc3; xa9], []) /\
  write_fixed 6 48 true [x61; x62; x63] = [x30; x30; x30; x61; x62; x63].
Proof. vm_compute. repeat split; reflexivity. Qed.

Print Assumptions C13_exactly_n_bytes.
Print Assumptions C13_long_value_cut.
Print Assumptions C13_short_value_padded.
Print Assumptions C13_read_consumes_n.
Print Assumptions C13_strip_left_only_pad.
Print Assumptions C13_strip_right_only_pad.
Print Assumptions C13_round_trip.
Print Assumptions C13_reencode.
