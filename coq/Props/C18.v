(* Props/C18.v — values too long for their length prefix are refused, never silently wrapped. *)
From FP.Props Require Import Common.
From FP.Theory Require Import Overflow.
Local Open Scope N_scope.

(* ---- every prefixed-text and list primitive, every prefix width, every length ---- *)
Theorem C18_prim_overflow_refused : forall p v, prim_overflows p v -> w_prim p v = Fail FErr.
Proof. exact w_prim_overflow_refused. Qed.
Theorem C18_prim_success_fits : forall p v bs, w_prim p v = Ok bs -> prim_fits p v.
Proof. exact w_prim_ok_fits. Qed.
Theorem C18_text_list_element_refused : forall le cnt len l s,
  In s l -> bound len <= lenN s -> lenN l < bound cnt -> write_string_list le cnt len l = Fail FErr.
Proof. exact string_list_element_refused. Qed.
(* at and below the limit the prefix on the wire is the true length *)
Theorem C18_text_at_limit : forall le t s, lenN s < bound t ->
  write_string le t s = Ok (int_bytes (ord le) (width t) (lenN s) ++ s).
Proof. exact write_string_ok. Qed.

(* ---- every message type ---- *)
(* no call site drops the error of a writer that can fail: [infer] only accepts an unpropagated write for
   scalars and fixed-width text; visible here as a check on the recognised schemas *)
Definition propagates (k : kind) : bool :=
  match k with KPrim p propagate => propagate || cannot_fail p | _ => true end.
Definition all_propagate (ss : list sdef) : bool :=
  forallb (fun sd => match sd_schema sd with SPlain ks => forallb propagates ks | SFrame hdr _ _ _ _ => forallb propagates hdr end) ss.
Lemma H_propagate : all_propagate schemas = true.
Proof. vm_compute. reflexivity. Qed.

Lemma plain_encode_fits sd ks fs buf r :
  In sd schemas -> sd_schema sd = SPlain ks -> typed (sd_id sd) fs = true ->
  encode (sd_id sd) fs buf = Ok r -> fields_fit ks fs.
Proof.
  intros Hin Hs Ht H. rewrite encode_spec in H by exact Ht.
  destruct (senc (sd_id sd) fs) as [[a bs]|] eqn:E; cbn [lift] in H; [|discriminate].
  destruct (in_split _ _ Hin) as [pre [rest Hsplit]]. rewrite Hsplit in E.
  rewrite spec_enc_at in E by (apply ids_unique_pre with (rest := rest); rewrite <- Hsplit; exact H_unique).
  rewrite Hs in E. cbn [spec_enc_schema] in E. eapply render_fields_ok_fit. exact E.
Qed.

(* C18, success direction: whenever Encode of a message succeeds, every prefixed text and every list in it
   had a length its prefix can represent (so the prefix written is the true length, never a wrapped one) *)
Theorem C18_success_means_every_length_fits : forall sd ks fs buf r,
  In sd schemas -> sd_schema sd = SPlain ks -> typed (sd_id sd) fs = true ->
  encode (sd_id sd) fs buf = Ok r -> fields_fit ks fs.
Proof. exact plain_encode_fits. Qed.

(* C18, refusal direction: a message with an over-long field never encodes successfully *)
Theorem C18_overlong_field_never_succeeds : forall sd ks1 p pr ks2 vs1 v vs2 buf r,
  In sd schemas -> sd_schema sd = SPlain (ks1 ++ KPrim p pr :: ks2) -> length vs1 = length ks1 ->
  typed (sd_id sd) (vs1 ++ v :: vs2) = true -> prim_overflows p v ->
  encode (sd_id sd) (vs1 ++ v :: vs2) buf <> Ok r.
Proof.
  intros sd ks1 p pr ks2 vs1 v vs2 buf r Hin Hs Hl Ht Hov H.
  pose proof (plain_encode_fits sd _ _ buf r Hin Hs Ht H) as Hf.
  assert (Hk : prim_fits p v).
  { clear - Hf Hl. revert vs1 Hl Hf. induction ks1 as [|k ks1 IH]; intros [|w vs1] Hl Hf; try discriminate.
    - cbn in Hf. tauto.
    - cbn [app fields_fit] in Hf. apply (IH vs1); [cbn in Hl; lia|tauto]. }
  destruct p, v; cbn [prim_fits prim_overflows] in *; try tauto; lia.
Qed.

(* ... and inside a frame: the frame encodes only if its body does *)
Theorem C18_frame_needs_body : forall sd hdr le tbl key sum fs buf r bt bfs,
  In sd schemas -> sd_schema sd = SFrame hdr le tbl key sum -> typed (sd_id sd) fs = true ->
  nth_error fs (S (length hdr)) = Some (VObj bt bfs) ->
  encode (sd_id sd) fs buf = Ok r -> exists r', senc bt bfs = Ok r'.
Proof.
  intros sd hdr le tbl key sum fs buf [fs' buf'] bt bfs Hin Hs Ht Hb H.
  rewrite encode_spec in H by exact Ht.
  destruct (senc (sd_id sd) fs) as [[a bs]|] eqn:E; cbn [lift] in H; [|discriminate].
  assert (Hfr : frames_ok schemas = true) by (vm_compute; reflexivity).
  destruct (frame_bytes tables registry0 schemas sd hdr le tbl key sum fs a bs Hin H_unique Hfr Hs E) as [hb [bb [body [H1 [H2 _]]]]].
  rewrite Hb in H1. inversion H1; subst body. cbn [body_bytes] in H2. destruct H2 as [bfs' H2]. eexists; exact H2.
Qed.

(* non-vacuity: the defect found on the pinned tree - 65,536 entries behind a 16-bit count - is refused,
   65,535 entries encode with count ff ff *)
Definition zeros (n : N) : list N := N.iter n (cons 0) [].
Example C18_nonvacuous :
  encode id_sse_bin_ExecRptInfo [VInt 1; VStrs []; VInts (zeros 65536)] [] = Fail FErr /\
  match encode id_sse_bin_ExecRptInfo [VInt 1; VStrs []; VInts (zeros 65535)] [] with
  | Ok (_, b) => (lenN b =? 2 + 2 + 2 + 4 * 65535) && list_byte_eqb (firstn 2 (skipn 4 b)) [xff; xff]
  | Fail _ => false end = true.
Proof. vm_compute. split; reflexivity. Qed.

Print Assumptions C18_prim_overflow_refused.
Print Assumptions C18_prim_success_fits.
Print Assumptions C18_text_list_element_refused.
Print Assumptions C18_success_means_every_length_fits.
Print Assumptions C18_overlong_field_never_succeeds.
Print Assumptions C18_frame_needs_body.
