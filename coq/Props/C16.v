(* Props/C16.v — decoded messages and encoded bytes never alias each other's memory. *)
From Coq Require Import List NArith Strings.String Bool.
Import ListNotations.
From FP.Model Require Import Alias.
From FP.Theory Require Import AliasSound.
From FP.Gen Require Import Helpers.
Local Open Scope N_scope.

(* ---- obligations on the may-share graph the translator extracted from codec/*.go ---- *)
(* every expression and statement of the library was inside the extraction grammar *)
Lemma H_no_unknown : unknown_facts = [].
Proof. reflexivity. Qed.

(* decoding: nodes that may reach the buffer's memory *)
Definition T_dec : list node := taint true [] flow.
Lemma H_closed_dec : closedb true flow T_dec = true.
Proof. vm_compute. reflexivity. Qed.
(* no reader's result, no receiver of any of the 170 Decode methods (what a decoded message holds), is among them *)
Definition results : list node := id_MSG :: reader_rets ++ decode_receivers.
Lemma H_readers_clean : forallb (fun x => negb (mem x T_dec)) results = true.
Proof. vm_compute. reflexivity. Qed.

(* encoding: nodes that may reach the memory of a value handed to a writer *)
Definition T_enc : list node := taint false writer_params flow.
Lemma H_closed_enc : closedb false flow T_enc = true.
Proof. vm_compute. reflexivity. Qed.
Lemma H_seeded_enc : forallb (fun p => mem p T_enc) writer_params = true.
Proof. vm_compute. reflexivity. Qed.
(* the buffer's own memory is not among them: no writer makes the buffer adopt caller memory *)
Lemma H_buffer_clean : mem id_BUFMEM T_enc = false.
Proof. vm_compute. reflexivity. Qed.

(* ---- the property ---- *)
(* Whatever path control takes through the library (any order, any number of times, any interleaving of the
   statements of all functions), starting with no variable holding a reference into the buffer's backing array
   (region 0), the result of every reader - and so everything a message Decode stores - never reaches it. *)
Theorem C16_decoded_values_do_not_reach_the_buffer : forall st st' : store,
  (forall x r, In r (st x) -> r <> 0%nat) -> run is_buffer flow st st' ->
  forall f, In f results -> forall r, In r (st' f) -> r <> 0%nat.
Proof. exact (results_avoid_buffer flow T_dec results H_closed_dec H_readers_clean). Qed.

(* Hence overwriting, resetting or reusing the buffer's memory changes nothing one can see from a decoded value,
   to any depth of its lists and nested parts. *)
Theorem C16_buffer_mutation_invisible : forall (st st' : store) (h h' : heap),
  (forall x r, In r (st x) -> r <> 0%nat) -> run is_buffer flow st st' ->
  forall f, In f results -> ptr_closed h (st' f) -> (forall r, r <> 0%nat -> h' r = h r) ->
  forall n r, In r (st' f) -> look n h' r = look n h r.
Proof. exact (buffer_mutation_invisible flow T_dec results H_closed_dec H_readers_clean). Qed.

(* Encoding: mark any memory other than the buffer's (the message's lists, text, nested parts).  If at the start
   only the writers' value parameters (and what is derived from them) may reach it, the buffer's backing array
   never does: the bytes written are copies, and changing the message afterwards cannot change them. *)
Theorem C16_buffer_does_not_reach_the_message : forall (msg : region -> Prop) (st st' : store),
  ~ msg 0%nat -> (forall x, mem x T_enc = false -> forall r, In r (st x) -> ~ msg r) -> run msg flow st st' ->
  forall r, In r (st' id_BUFMEM) -> ~ msg r.
Proof. exact (sink_avoids_marked flow T_enc id_BUFMEM H_closed_enc H_buffer_clean). Qed.

(* non-vacuity: the graph is not empty, readers exist, and a run that copies a reader's result around exists *)
Example C16_graph_nontrivial :
  Nat.leb 1500 (List.length flow) = true /\ Nat.leb 10 (List.length reader_rets) = true /\ Nat.leb 170 (List.length decode_receivers) = true /\
  Nat.leb 170 (List.length writer_params) = true /\ T_dec = [].
Proof. vm_compute. repeat split; reflexivity. Qed.

(* The memory side of "does not reach the buffer", on the buffer model (Model/Buffer.v, tied to bytes.Buffer by the
   "buf" correspondence slice): whatever a buffer does - write in place, slide its contents down, move to a new array -
   it writes only to its own current array and frees nothing, so a value held in any OTHER array (a string conversion, a
   make+copy, a binary.Read result: the non-sharing edges of the graph above) reads the same afterwards.  A window of
   the buffer's own array (the result of Next or Bytes) does not have that guarantee: Mutants/RetainedSlice.v. *)
From FP.Model Require Buffer.
From FP.Theory Require BufferRefine.
Theorem C16_buffer_writes_only_its_own_array : forall nc h b bs h' b' a,
  BufferRefine.WF h b -> Buffer.write nc h b bs = Some (h', b') ->
  (a < List.length h)%nat -> a <> Buffer.arr b -> Buffer.get h' a = Buffer.get h a.
Proof. exact BufferRefine.write_frame. Qed.

Print Assumptions C16_buffer_writes_only_its_own_array.
Print Assumptions C16_decoded_values_do_not_reach_the_buffer.
Print Assumptions C16_buffer_mutation_invisible.
Print Assumptions C16_buffer_does_not_reach_the_message.
