(* Props/C19.v — the checksum-service registry behaves as one atomic map under any concurrency. *)
From Coq Require Import List NArith Bool Strings.String.
Import ListNotations.
From FP.Model Require Import Locks.
From FP.Theory Require Import Linearizable.
From FP.Gen Require Import Locks Footprint.
Local Open Scope N_scope.

(* the code each call runs: the lock skeletons the translator extracted from codec/checksum.go *)
Definition code (c : call) : prog :=
  match c with
  | CRegistry _ _ => code_registry
  | CRegistryBad => code_registry_bad
  | CGet _ => code_get
  | CRemove _ => code_remove
  | CClear => code_clear
  end.

(* ---- obligations on the extracted skeletons ---- *)
(* one critical section per call, entered first and released by a deferred unlock, every map access inside it,
   writes only under the exclusive lock *)
Lemma H_well_locked : forall c, well_locked (code c) = true.
Proof. intros []; vm_compute; reflexivity. Qed.

(* run without interruption, each skeleton is the corresponding operation of the sequential map *)
Lemma H_sem : forall c m, meq (fst (fin (code c) c None m)) (fst (seq c m)) /\ snd (fin (code c) c None m) = snd (seq c m).
Proof.
  intros [k v| |k|k|] m; cbn; try (split; [intro; reflexivity|reflexivity]).
  destruct (m k); cbn; split; try reflexivity; intro; reflexivity.
Qed.

(* nothing else in codec/ touches the registry *)
Definition touches_registry (f : foot) : bool :=
  existsb (String.eqb registry_var) (f_reads f ++ f_writes f).
Definition registry_functions : list string := ["Registry"; "Get"; "Remove"; "Clear"]%string.
Lemma H_registry_private :
  forallb (fun f => negb (touches_registry f) || (String.eqb (f_pkg f) "codec" && existsb (String.eqb (f_name f)) registry_functions)) footprint = true.
Proof. vm_compute. reflexivity. Qed.

(* ---- the property ---- *)
(* Every finite interleaving, at the granularity of single lock operations, map accesses and returns, of any
   number of threads running any calls, produces a history (invocations and responses with their results, in real
   time order) that the atomic map also produces: each call takes effect at one instant between its invocation and
   its response. *)
Theorem C19_linearizable : forall h s, cexec code cinit h s -> exists a, aexec ainit h a.
Proof. exact (linearizable code H_well_locked H_sem). Qed.

(* No reachable state has two threads about to access the map, one of them writing. *)
Theorem C19_race_free : forall h s, cexec code cinit h s -> ~ racy s.
Proof. exact (race_free code H_well_locked H_sem). Qed.

Print Assumptions C19_linearizable.
Print Assumptions C19_race_free.

(* ---- what a user relies on, on real (concurrent) histories ---- *)
From FP.Theory Require Import AtomicMap LockExec.

(* among any overlapping registrations of one name at most one reports success, as long as nobody removes it *)
Theorem C19_one_winner : forall h s k, cexec code cinit h s -> quiet k h -> (wins k h <= 1)%nat.
Proof. intros h s k He Hq. destruct (C19_linearizable h s He) as [a Ha]. exact (one_winner k h a Ha Hq). Qed.

(* a look-up never returns a service under the wrong name *)
Theorem C19_right_name : forall h s pre t k v post, cexec code cinit h s ->
  h = pre ++ ERes t (CGet k) (RVal (Some v)) :: post -> exists t', In (EInv t' (CRegistry k v)) pre.
Proof. intros h s pre t k v post He Heq. destruct (C19_linearizable h s He) as [a Ha]. exact (right_name h a pre t k v post Ha Heq). Qed.

(* every look-up invoked after a registration reported success returns that winner, until a remove or clear *)
Theorem C19_winner_visible : forall k v t h1 p t' q c r rest s,
  cexec code cinit (h1 ++ ERes t (CRegistry k v) (RBool true) :: p ++ EInv t' (CGet k) :: q ++ ERes t' c r :: rest) s ->
  quiet k (h1 ++ ERes t (CRegistry k v) (RBool true) :: p ++ EInv t' (CGet k) :: q ++ ERes t' c r :: rest) ->
  (forall e, In e q -> ~ of_thread t' e) ->
  c = CGet k /\ r = RVal (Some v).
Proof.
  intros k v t h1 p t' q c r rest s He Hq Hnq. destruct (C19_linearizable _ s He) as [a Ha].
  exact (winner_visible k v t h1 p t' q c r rest a Ha Hq Hnq).
Qed.

(* ---- non-vacuity: a contended execution of the extracted code ---- *)
(* threads 0 and 1 register services 1 and 2 under name 7 at the same time; thread 1 gets the lock first *)
Example C19_contended_execution : exists s,
  cexec code cinit [EInv 0%nat (CRegistry 7 1); EInv 1%nat (CRegistry 7 2);
                    ERes 1%nat (CRegistry 7 2) (RBool true); ERes 0%nat (CRegistry 7 1) (RBool false)] s.
Proof.
  eexists.
  inv_ 0%nat. inv_ 1%nat.
  tau s_lock_excl 1%nat. tau s_defer 1%nat. tau s_lookup 1%nat. tau s_if 1%nat. tau s_store 1%nat. tau s_ret 1%nat.
  tau s_defer_excl 1%nat. res_ 1%nat.
  tau s_lock_excl 0%nat. tau s_defer 0%nat. tau s_lookup 0%nat. tau s_if 0%nat. tau s_ret 0%nat.
  tau s_defer_excl 0%nat. res_ 0%nat.
  apply ce_nil.
Qed.

Print Assumptions C19_one_winner.
Print Assumptions C19_right_name.
Print Assumptions C19_winner_visible.
