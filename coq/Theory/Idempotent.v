(* Theory/Idempotent.v — encoding is repeatable: encoding the object as Encode left it (absent parts filled in, the
   frame's length and checksum set) produces the same bytes again and leaves it unchanged (C06), for every value on
   which the first Encode succeeds. *)
From FP.Theory Require Export FrameFacts.
Local Open Scope N_scope.

Section Idem.
  Variable tables : list (N * table).
  Variable reg : registry.
  Variable senc : N -> list value -> res (list value * list byte).
  Variable zero_rec : N -> option (list value).
  Hypothesis Hrec : forall t fs fs' bs, senc t fs = Ok (fs', bs) -> senc t fs' = Ok (fs', bs).

  Notation rkind := (render_kind tables senc zero_rec).
  Notation rfields := (render_fields tables senc zero_rec).

  Lemma objs_idem tid : forall l l' bs, render_objs senc tid l = Ok (l', bs) ->
    render_objs senc tid l' = Ok (l', bs) /\ lenN l' = lenN l.
  Proof.
    induction l as [|v l IH]; intros l' bs H; cbn [render_objs] in H.
    - inversion H; subst. split; reflexivity.
    - destruct v; try discriminate. destruct (t =? tid) eqn:Et; [|discriminate].
      destruct (senc t fs) as [[fs' b1]|] eqn:E; cbn [bind] in H; [|discriminate].
      destruct (render_objs senc tid l) as [[r' b2]|] eqn:E2; cbn [bind] in H; [|discriminate].
      inversion H; subst. destruct (IH _ _ eq_refl) as [I1 I2]. cbn [render_objs]. rewrite Et, (Hrec _ _ _ _ E). cbn [bind].
      rewrite I1. cbn [bind]. split; [reflexivity|]. rewrite !lenN_length in *. cbn [length]. apply Nat2N.inj in I2. rewrite I2. reflexivity.
  Qed.

  Lemma call_idem g prop v v' bs : render_call senc g prop v = Ok (v', bs) -> render_call senc g prop v' = Ok (v', bs).
  Proof.
    destruct v; cbn [render_call]; try discriminate.
    - destruct (senc t fs) as [[fs' b]|f] eqn:E; [|destruct f; try discriminate; destruct prop; discriminate].
      intro H. inversion H; subst. cbn [render_call]. rewrite (Hrec _ _ _ _ E). reflexivity.
    - destruct g; [discriminate|]. intro H. inversion H; subst. reflexivity.
  Qed.

  Lemma sfresh_obj t v : sfresh zero_rec t = Ok v -> exists t' fs, v = VObj t' fs.
  Proof. unfold sfresh. destruct (zero_rec t); [|discriminate]. intro H. inversion H. eexists; eexists; reflexivity. Qed.

  (* a present part is not filled in *)
  Lemma fill_present done f t fs : apply_fill tables zero_rec done f (VObj t fs) = Ok (VObj t fs).
  Proof. destruct f; reflexivity. Qed.

  Lemma kind_idem done k v v' bs : rkind done k v = Ok (v', bs) -> forall done2, rkind done2 k v' = Ok (v', bs).
  Proof.
    destruct k as [p prop|l cnt t|f g prop d]; cbn [render_kind].
    - intros H done2.
      destruct (w_prim p v) as [b|ff] eqn:Ew; [inversion H; subst; rewrite Ew; reflexivity|destruct ff; try discriminate; destruct prop; discriminate].
    - destruct v; try discriminate.
      destruct (length_prefix cnt (lenN l0)) as [n|] eqn:En; cbn [bind]; [|discriminate].
      destruct (render_objs senc t l0) as [[l' b]|] eqn:E; cbn [bind]; [|discriminate].
      intros H done2. inversion H; subst. destruct (objs_idem _ _ _ _ E) as [I1 I2]. rewrite I2, En. cbn [bind]. rewrite I1. reflexivity.
    - destruct (apply_fill tables zero_rec done f v) as [v1|] eqn:Ef; cbn [bind]; [|discriminate].
      intros H done2. pose proof (call_idem _ _ _ _ _ H) as H2.
      destruct v1 as [? | ? | ? | ? | t1 fs1 | ? | ]; cbn [render_call] in H; try discriminate.
      + (* a present part: encoded by its own type; nothing is filled in the second time *)
        destruct (senc t1 fs1) as [[fs1' b]|ff] eqn:E; [|destruct ff; try discriminate; destruct prop; discriminate].
        inversion H; subst. rewrite fill_present. cbn [bind]. exact H2.
      + (* an absent part under a guard: no fill happened (a fill never leaves nil), none happens now *)
        destruct g; [discriminate|]. inversion H; subst.
        destruct f as [|t0|tbl key]; cbn [apply_fill] in *.
        * exact H2.
        * exfalso. destruct v; try (inversion Ef; fail). destruct (sfresh_obj _ _ Ef) as [? [? ?]]. discriminate.
        * exfalso. destruct v; try (inversion Ef; fail).
          destruct (get_field done key) as [kv|]; cbn [bind] in Ef; [|discriminate].
          destruct (slookup tables tbl kv) as [ty|]; cbn [bind] in Ef; [|discriminate].
          destruct (sfresh_obj _ _ Ef) as [? [? ?]]. discriminate.
  Qed.

  Lemma fields_idem ks : forall done vs vs' bs, rfields done ks vs = Ok (vs', bs) -> forall done2, rfields done2 ks vs' = Ok (vs', bs).
  Proof.
    induction ks as [|k ks IH]; intros done vs vs' bs H done2; cbn [render_fields] in *.
    - inversion H; subst. reflexivity.
    - destruct vs as [|v vs0]; [discriminate|].
      destruct (rkind done k v) as [[v' b1]|] eqn:E1; cbn [bind] in H; [|discriminate].
      destruct (rfields (done ++ [v']) ks vs0) as [[rest b2]|] eqn:E2; cbn [bind] in H; [|discriminate].
      inversion H; subst. rewrite (kind_idem _ _ _ _ _ E1 done2). cbn [bind]. rewrite (IH _ _ _ _ E2 (done2 ++ [v'])). reflexivity.
  Qed.

  Theorem schema_idem s fs fs' bs :
    spec_enc_schema tables reg senc zero_rec s fs = Ok (fs', bs) -> spec_enc_schema tables reg senc zero_rec s fs' = Ok (fs', bs).
  Proof.
    destruct s as [ks|hdr le tbl key sum]; cbn [spec_enc_schema].
    - intro H. exact (fields_idem _ _ _ _ _ H []).
    - unfold render_frame.
      destruct (rfields [] hdr (firstn (length hdr) fs)) as [[hv hb]|] eqn:Ehdr; cbn [bind]; [|discriminate].
      destruct (skipn (length hdr) fs) as [|lenv [|body tl]] eqn:Esk; try discriminate.
      destruct (render_call senc GIfNotNil true body) as [[body' bb]|] eqn:Eb; cbn [bind]; [|discriminate].
      assert (Hhv : length hv = length hdr).
      { pose proof (render_fields_length _ _ _ _ _ _ _ _ Ehdr) as X. rewrite X. apply firstn_length_le.
        assert (length (skipn (length hdr) fs) >= 2)%nat by (rewrite Esk; cbn; lia). rewrite skipn_length in H. lia. }
      pose proof (fields_idem _ _ _ _ _ Ehdr []) as Hh2. pose proof (call_idem _ _ _ _ _ Eb) as Hb2.
      destruct sum as [ss|].
      + destruct tl as [|oldv tl']; [discriminate|].
        set (fr := hb ++ int_bytes (ord le) 4 (u32_of_len (lenN bb)) ++ bb).
        destruct (match reg_get reg (ss_name ss) with
                  | Some sv => if ity_eqb (sv_rt sv) (ss_rt ss) then Ok (VInt (calc (sv_alg sv) fr)) else Fail FPanic
                  | None => Ok oldv end) as [c|] eqn:Ec; cbn [bind]; [|discriminate].
        destruct (w_prim (PBasic (ss_le ss) (ss_rt ss)) c) as [tb|] eqn:Ew; [|discriminate].
        intro H. inversion H; subst fs' bs.
        rewrite <- Hhv. rewrite firstn_app_exact, skipn_app_exact. rewrite Hh2. cbn [bind]. rewrite Hb2. cbn [bind]. fold fr.
        assert (Ec2 : match reg_get reg (ss_name ss) with
                      | Some sv => if ity_eqb (sv_rt sv) (ss_rt ss) then Ok (VInt (calc (sv_alg sv) fr)) else Fail FPanic
                      | None => Ok c end = Ok c).
        { destruct (reg_get reg (ss_name ss)) as [sv|]; [exact Ec|reflexivity]. }
        rewrite Ec2. cbn [bind]. rewrite Ew. reflexivity.
      + intro H. inversion H; subst fs' bs.
        rewrite <- Hhv. rewrite firstn_app_exact, skipn_app_exact. rewrite Hh2. cbn [bind]. rewrite Hb2. cbn [bind]. reflexivity.
  Qed.
End Idem.

Theorem spec_enc_idempotent tables reg : forall ss t fs fs' bs,
  spec_enc_env tables reg ss t fs = Ok (fs', bs) -> spec_enc_env tables reg ss t fs' = Ok (fs', bs).
Proof.
  induction ss as [|sd rest IH]; intros t fs fs' bs H; [discriminate|].
  cbn [spec_enc_env] in *. destruct (sd_id sd =? t); [|exact (IH _ _ _ _ H)].
  eapply schema_idem; [|exact H]. exact IH.
Qed.
