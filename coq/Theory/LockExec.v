(* Theory/LockExec.v — helpers to build concrete executions of the interleaving semantics step by step. *)
From Coq Require Import List NArith Bool Arith.
Import ListNotations.
From FP.Model Require Import Locks.

Section Exec.
  Variable code : call -> prog.
  Lemma ce_tau s s' h s'' : cstep code s ETau s' -> cexec code s' h s'' -> cexec code s h s''.
  Proof. intros H1 H2. apply (ce_step code s ETau s' h s'' H1 H2). Qed.
  Lemma ce_inv s t c s' h s'' : cstep code s (EInv t c) s' -> cexec code s' h s'' -> cexec code s (EInv t c :: h) s''.
  Proof. intros H1 H2. apply (ce_step code s (EInv t c) s' h s'' H1 H2). Qed.
  Lemma ce_res s t c r s' h s'' : cstep code s (ERes t c r) s' -> cexec code s' h s'' -> cexec code s (ERes t c r :: h) s''.
  Proof. intros H1 H2. apply (ce_step code s (ERes t c r) s' h s'' H1 H2). Qed.
End Exec.

(* run thread t's next instruction (rule given) *)
Ltac tau rule th := eapply ce_tau; [eapply rule with (t := th); try reflexivity; try (intro; reflexivity)|]; cbn [cw cr cm cth].
Ltac inv_ th := eapply ce_inv; [eapply s_inv with (t := th); reflexivity|]; cbn [cw cr cm cth].
Ltac res_ th := eapply ce_res; [eapply s_res with (t := th); reflexivity|]; cbn [cw cr cm cth].
