(* Props/C20.v — independent messages encode/decode in parallel with the sequential results. *)
From FP.Props Require Import Common.
From FP.Theory Require Import Isolation.
From FP.Gen Require Import Footprint.
From Coq Require Import Strings.String Strings.Ascii.
Import Coq.Strings.String.StringSyntax.
Local Open Scope string_scope.

(* ---- the obligation: no hidden shared mutable state ---- *)
(* part of a call name after its last '.' ("codec.Get" -> "Get", "p.Body.Encode" -> "Encode") *)
Fixpoint after_dot_aux (s acc : string) : string :=
  match s with
  | EmptyString => acc
  | String c r => if Ascii.eqb c "."%char then after_dot_aux r r else after_dot_aux r acc
  end.
Definition after_dot (s : string) : string := after_dot_aux s s.

Definition direct_writer (f : foot) : bool := match f_writes f with [] => false | _ => true end.
Definition writer_names : list string := map f_name (filter direct_writer footprint).
Definition calls_writer (f : foot) : bool :=
  existsb (fun c => existsb (String.eqb (after_dot c)) writer_names) (f_calls f).
Definition may_write (f : foot) : bool := direct_writer f || calls_writer f.

(* who is allowed to: start-up registration (init and the exported Registry...Factory functions of the messages
   packages) and the checksum registry's own mutators, which are the subject of C19 *)
Definition allowed_writer (f : foot) : bool :=
  String.eqb (f_name f) "init" || String.prefix "Registry" (f_name f)
  || (String.eqb (f_pkg f) "codec" && (String.eqb (f_name f) "Remove" || String.eqb (f_name f) "Clear")).

Definition footprint_ok : bool := forallb (fun f => negb (may_write f) || allowed_writer f) footprint.

(* Every function of the six packages other than the start-up/registry mutators - in particular every Encode, every
   Decode, every codec helper, every New...By... look-up and codec.Get - writes no package-level variable (no
   assignment, ++, delete, address-taking or non-lock method call on one) and calls no function that does. *)
Lemma H_footprint : footprint_ok = true.
Proof. vm_compute. reflexivity. Qed.

Definition is_codec_method (f : foot) : bool :=
  let n := after_dot (f_name f) in String.eqb n "Encode" || String.eqb n "Decode".
Example C20_encode_decode_write_nothing :
  forallb (fun f => negb (is_codec_method f) || negb (may_write f)) footprint = true /\
  Nat.leb 340 (List.length (filter is_codec_method footprint)) = true /\
  forallb (fun f => negb (String.eqb (f_pkg f) "codec") || allowed_writer f || negb (may_write f)) footprint = true.
Proof. vm_compute. repeat split; reflexivity. Qed.

(* ---- the theorem: with a read-only shared state, interleaving is irrelevant ---- *)
(* a thread: a message object, a buffer and the remaining statements of an Encode body; a step runs one statement
   (nested Encode calls run inside the statement).  The shared state is the world: declarations, tables, registry. *)
Definition local : Type := list estmt * res est.
Definition enc_step (w : world) (l : local) : local :=
  match l with
  | (st :: rest, Ok s) =>
      (rest, run_estmt (w_tables w) (w_reg w) (run_enc_env (w_tables w) (w_reg w) (w_env w)) (zero_fields (w_env w)) st s)
  | _ => l
  end.

Theorem C20_interleaving_is_irrelevant : forall (w : world) (sched : list nat) (ls : nat -> local) (i : nat),
  exec world local enc_step w sched ls i = exec world local enc_step w (repeat i (count_occ Nat.eq_dec sched i)) ls i.
Proof. exact (same_as_alone world local enc_step). Qed.

Theorem C20_independent_of_other_threads : forall (w : world) sched (ls ls' : nat -> local) i,
  ls i = ls' i -> exec world local enc_step w sched ls i = exec world local enc_step w sched ls' i.
Proof. exact (independent_of_others world local enc_step). Qed.

(* the same for any step function of the shape G -> L -> L, e.g. Decode statements *)
Definition dlocal : Type := list dstmt * res (list value * list byte).
Definition dec_step (w : world) (l : dlocal) : dlocal :=
  match l with
  | (st :: rest, Ok (fs, buf)) => (rest, run_dstmt (w_tables w) (run_dec_env (w_tables w) (w_env w)) (zero_fields (w_env w)) st fs buf)
  | _ => l
  end.
Theorem C20_decode_interleaving_is_irrelevant : forall (w : world) (sched : list nat) (ls : nat -> dlocal) (i : nat),
  exec world dlocal dec_step w sched ls i = exec world dlocal dec_step w (repeat i (count_occ Nat.eq_dec sched i)) ls i.
Proof. exact (same_as_alone world dlocal dec_step). Qed.

Print Assumptions C20_interleaving_is_irrelevant.
Print Assumptions C20_independent_of_other_threads.
Print Assumptions C20_decode_interleaving_is_irrelevant.
