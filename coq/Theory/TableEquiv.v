(* Theory/TableEquiv.v — two lists of discriminator tables denote the same maps (the order in which init() registers
   the entries is immaterial when no key is registered twice; with duplicates the last registration wins on both sides). *)
From FP.Theory Require Export Select.
Local Open Scope N_scope.

Definition opt_eqb (a b : option N) : bool :=
  match a, b with Some x, Some y => x =? y | None, None => true | _, _ => false end.
Lemma opt_eqb_eq a b : opt_eqb a b = true -> a = b.
Proof. destruct a, b; cbn; try discriminate; [intro H; apply N.eqb_eq in H; subst; reflexivity|reflexivity]. Qed.

Definition table_equivb (t1 t2 : table) : bool :=
  forallb (fun k => opt_eqb (table_lookup t1 k) (table_lookup t2 k)) (map fst t1 ++ map fst t2).

Lemma table_lookup_absent t k : (forall k', In k' (map fst t) -> tkey_eqb k' k = false) -> table_lookup t k = None.
Proof.
  induction t as [|[k0 ty] r IH]; intro H; cbn [table_lookup]; [reflexivity|].
  rewrite IH by (intros k' Hin; apply H; right; exact Hin).
  rewrite (H k0) by (left; reflexivity). reflexivity.
Qed.

Lemma table_equivb_sound t1 t2 : table_equivb t1 t2 = true -> forall k, table_lookup t1 k = table_lookup t2 k.
Proof.
  intros H k. unfold table_equivb in H. rewrite forallb_forall in H.
  destruct (existsb (fun k' => tkey_eqb k' k) (map fst t1 ++ map fst t2)) eqn:E.
  - apply existsb_exists in E. destruct E as [k' [Hin Heq]]. destruct (tkey_eqb_spec k' k); [subst|discriminate].
    apply opt_eqb_eq. apply H. exact Hin.
  - assert (Hno : forall k', In k' (map fst t1 ++ map fst t2) -> tkey_eqb k' k = false).
    { intros k' Hin. destruct (tkey_eqb k' k) eqn:E'; [|reflexivity].
      assert (existsb (fun k'0 => tkey_eqb k'0 k) (map fst t1 ++ map fst t2) = true) by (apply existsb_exists; exists k'; split; assumption). congruence. }
    rewrite !table_lookup_absent; [reflexivity| |]; intros k' Hin; apply Hno; apply in_or_app; [right|left]; exact Hin.
Qed.

(* all tables: the same table ids, and pairwise the same maps *)
Definition tables_equivb (a b : list (N * table)) : bool :=
  forallb (fun id => match find_table a id, find_table b id with
                     | Some t1, Some t2 => table_equivb t1 t2
                     | None, None => true
                     | _, _ => false
                     end) (map fst a ++ map fst b).

Lemma find_table_absent (l : list (N * table)) id : (forall id', In id' (map fst l) -> (id' =? id) = false) -> find_table l id = None.
Proof.
  induction l as [|[i t] r IH]; intro H; cbn [find_table]; [reflexivity|].
  rewrite (H i) by (left; reflexivity). apply IH. intros id' Hin. apply H. right. exact Hin.
Qed.

Theorem tables_equivb_sound a b : tables_equivb a b = true -> forall tbl kv, selected a tbl kv = selected b tbl kv.
Proof.
  intros H tbl kv. unfold tables_equivb in H. rewrite forallb_forall in H. unfold selected.
  destruct (existsb (fun i => i =? tbl) (map fst a ++ map fst b)) eqn:E.
  - apply existsb_exists in E. destruct E as [i [Hin Heq]]. apply N.eqb_eq in Heq. subst i. specialize (H tbl Hin).
    destruct (find_table a tbl) as [t1|], (find_table b tbl) as [t2|]; try discriminate; [|destruct kv; reflexivity].
    destruct kv; try reflexivity; apply table_equivb_sound; exact H.
  - assert (Hno : forall i, In i (map fst a ++ map fst b) -> (i =? tbl) = false).
    { intros i Hin. destruct (i =? tbl) eqn:E'; [|reflexivity].
      assert (existsb (fun i0 => i0 =? tbl) (map fst a ++ map fst b) = true) by (apply existsb_exists; exists i; split; assumption). congruence. }
    rewrite !find_table_absent; [destruct kv; reflexivity| |]; intros i Hin; apply Hno; apply in_or_app; [right|left]; exact Hin.
Qed.
