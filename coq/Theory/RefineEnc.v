(* Theory/RefineEnc.v — the Encode statements of a recognised type behave, on every buffer, like
   its schema: they append exactly the bytes [spec_enc] produces (which do not depend on the buffer)
   and leave the message as [spec_enc] says.  This is the C06 core, and carries C04/C05 for frames. *)
From FP.Theory Require Export Infer.
From Coq Require Import ZifyBool ZifyNat ZifyN.
Local Open Scope N_scope.

Definition lift (r : res (list value * list byte)) (buf : list byte) : res (list value * list byte) :=
  match r with Ok (fs, bs) => Ok (fs, buf ++ bs) | Fail f => Fail f end.

(* nested objects inside a field value are well-typed (in the rest of the environment) *)
Definition deep_ok (rec : N -> list value -> bool) (v : value) : bool :=
  match v with
  | VObj t fs => rec t fs
  | VObjs l => forallb (fun x => match x with VObj t fs => rec t fs | _ => true end) l
  | _ => true
  end.

Lemma typed_in_deep rec g v : typed_in rec g v = true -> deep_ok rec v = true.
Proof.
  destruct g, v; cbn [typed_in deep_ok]; intro H; try reflexivity; try discriminate;
    try (apply andb_true_iff in H; tauto); try exact H.
  unfold all_objs in H. rewrite forallb_forall in *. intros x Hx. specialize (H x Hx).
  destruct x; try reflexivity. apply andb_true_iff in H. tauto.
Qed.

Lemma typed_fields_deep rec gs vs : typed_fields rec gs vs = true -> forallb (deep_ok rec) vs = true.
Proof.
  revert vs. induction gs as [|g gs IH]; intros [|v vs]; cbn [typed_fields forallb]; try congruence.
  intro H. apply andb_true_iff in H. destruct H as [H1 H2].
  rewrite (typed_in_deep _ _ _ H1), (IH _ H2). reflexivity.
Qed.

(* ---------- list plumbing ---------- *)
Lemma nth_error_mid {A} (done : list A) v todo : nth_error (done ++ v :: todo) (length done) = Some v.
Proof. induction done as [|x d IH]; cbn; [reflexivity|exact IH]. Qed.

Lemma nth_error_done {A} (done todo : list A) k : (k < length done)%nat -> nth_error (done ++ todo) k = nth_error done k.
Proof. intro H. apply nth_error_app1. exact H. Qed.

Lemma set_nth_mid {A} (done : list A) v v' todo : set_nth (length done) v' (done ++ v :: todo) = done ++ v' :: todo.
Proof.
  unfold set_nth. rewrite firstn_app, Nat.sub_diag, firstn_all. cbn [firstn]. rewrite app_nil_r.
  rewrite skipn_app, Nat.sub_diag, skipn_all. cbn [skipn app]. reflexivity.
Qed.

Lemma get_field_mid done v todo : get_field (done ++ v :: todo) (length done) = Ok v.
Proof. unfold get_field. rewrite nth_error_mid. reflexivity. Qed.

Lemma get_field_done done todo k : (k < length done)%nat -> get_field (done ++ todo) k = get_field done k.
Proof. intro H. unfold get_field. rewrite nth_error_done by exact H. reflexivity. Qed.

Lemma app_cons_assoc {A} (a : list A) x b : a ++ x :: b = (a ++ [x]) ++ b.
Proof. rewrite <- app_assoc. reflexivity. Qed.

Section Refine.
  Variable tables : list (N * table).
  Variable reg : registry.
  Variable enc_rec : N -> list value -> list byte -> res (list value * list byte).
  Variable senc : N -> list value -> res (list value * list byte).
  Variable zero_rec : N -> option (list value).
  Variable rec : N -> list value -> bool.
  Hypothesis Hrec : forall t fs buf, rec t fs = true -> enc_rec t fs buf = lift (senc t fs) buf.
  Hypothesis Hzero : forall t z, zero_rec t = Some z -> rec t z = true.

  Notation run1 := (run_estmt tables reg enc_rec zero_rec).
  Notation runs := (run_estmts tables reg enc_rec zero_rec).
  Notation rkind := (render_kind tables senc zero_rec).
  Notation rfields := (render_fields tables senc zero_rec).

  Lemma fresh_sfresh t : fresh zero_rec t = sfresh zero_rec t.
  Proof. reflexivity. Qed.
  Lemma lookup_slookup tbl kv : lookup_type tables tbl kv = slookup tables tbl kv.
  Proof. reflexivity. Qed.

  Lemma sfresh_deep t o : sfresh zero_rec t = Ok o -> deep_ok rec o = true.
  Proof.
    unfold sfresh. destruct (zero_rec t) as [z|] eqn:E; [|discriminate].
    intro H. inversion H. subst. cbn [deep_ok]. apply Hzero. exact E.
  Qed.

  (* ---- object lists ---- *)
  Lemma enc_objs_refines tid l buf :
    forallb (fun x => match x with VObj t fs => rec t fs | _ => true end) l = true ->
    enc_objs enc_rec tid l buf = lift (render_objs senc tid l) buf.
  Proof.
    revert buf. induction l as [|x l IH]; intros buf Hl; cbn [enc_objs render_objs lift].
    - rewrite app_nil_r. reflexivity.
    - cbn [forallb] in Hl. apply andb_true_iff in Hl. destruct Hl as [Hx Hl].
      destruct x; try reflexivity.
      destruct (t =? tid); [|reflexivity].
      rewrite Hrec by exact Hx. destruct (senc t fs) as [[fs' bs]|f]; cbn [lift bind]; [|reflexivity].
      rewrite IH by exact Hl. destruct (render_objs senc tid l) as [[r' bs']|f]; cbn [lift bind]; [|reflexivity].
      rewrite app_assoc. reflexivity.
  Qed.

  (* ---- the ECall statement on field |done| ---- *)
  Lemma ecall_refines done v todo vars buf g prop :
    deep_ok rec v = true ->
    run1 (ECall (length done) g prop) {| e_fs := done ++ v :: todo; e_vars := vars; e_buf := buf |} =
    match render_call senc g prop v with
    | Ok (v', bs) => Ok {| e_fs := done ++ v' :: todo; e_vars := vars; e_buf := buf ++ bs |}
    | Fail f => Fail f
    end.
  Proof.
    intro Hv. cbn [run_estmt e_fs e_vars e_buf]. rewrite get_field_mid. cbn [bind].
    destruct v; cbn [render_call]; try reflexivity.
    - cbn [deep_ok] in Hv. rewrite Hrec by exact Hv.
      destruct (senc t fs) as [[fs' bs]|f]; cbn [lift].
      + rewrite set_nth_mid. reflexivity.
      + destruct f; try reflexivity. destruct prop; reflexivity.
    - destruct g; [reflexivity|]. rewrite app_nil_r. reflexivity.
  Qed.

  Lemma apply_fill_deep done f v v1 :
    deep_ok rec v = true -> apply_fill tables zero_rec done f v = Ok v1 -> deep_ok rec v1 = true.
  Proof.
    intros Hv H. destruct f; cbn [apply_fill] in H.
    - inversion H; subst; exact Hv.
    - destruct v; try (inversion H; subst; exact Hv). eapply sfresh_deep; exact H.
    - destruct v; try (inversion H; subst; exact Hv).
      destruct (get_field done key) as [kv|]; cbn [bind] in H; [|discriminate].
      destruct (slookup tables tbl kv) as [ty|]; cbn [bind] in H; [|discriminate].
      eapply sfresh_deep; exact H.
  Qed.

  Lemma efill_refines done v todo vars buf tbl key :
    (key < length done)%nat ->
    run1 (EFill (length done) tbl key) {| e_fs := done ++ v :: todo; e_vars := vars; e_buf := buf |} =
    match apply_fill tables zero_rec done (FTable tbl key) v with
    | Ok v1 => Ok {| e_fs := done ++ v1 :: todo; e_vars := vars; e_buf := buf |}
    | Fail f => Fail f
    end.
  Proof.
    intro Hk. cbn [run_estmt e_fs e_vars e_buf apply_fill]. rewrite get_field_mid. cbn [bind].
    destruct v; try reflexivity.
    rewrite get_field_done by exact Hk.
    destruct (get_field done key) as [kv|f]; cbn [bind]; [|reflexivity].
    rewrite lookup_slookup. destruct (slookup tables tbl kv) as [ty|f]; cbn [bind]; [|reflexivity].
    rewrite fresh_sfresh. destruct (sfresh zero_rec ty) as [o|f]; cbn [bind]; [|reflexivity].
    rewrite set_nth_mid. reflexivity.
  Qed.

  Lemma efillnew_refines done v todo vars buf t :
    run1 (EFillNew (length done) t) {| e_fs := done ++ v :: todo; e_vars := vars; e_buf := buf |} =
    match apply_fill tables zero_rec done (FNew t) v with
    | Ok v1 => Ok {| e_fs := done ++ v1 :: todo; e_vars := vars; e_buf := buf |}
    | Fail f => Fail f
    end.
  Proof.
    cbn [run_estmt e_fs e_vars e_buf apply_fill]. rewrite get_field_mid. cbn [bind].
    destruct v; try reflexivity.
    rewrite fresh_sfresh. destruct (sfresh zero_rec t) as [o|f]; cbn [bind]; [|reflexivity].
    rewrite set_nth_mid. reflexivity.
  Qed.

  Definition state_after (done : list value) (r : res (value * list byte)) todo vars buf : res est :=
    match r with
    | Ok (v', bs) => Ok {| e_fs := done ++ v' :: todo; e_vars := vars; e_buf := buf ++ bs |}
    | Fail f => Fail f
    end.

  (* one field: the statements [infer_field] consumed, run from the state where the fields before it are done *)
  Lemma field_refines gs done v todo vars buf es ds k es' ds' :
    infer_field gs (length done) es ds = Some (k, es', ds') ->
    deep_ok rec v = true ->
    exists pre, es = pre ++ es' /\
        runs pre {| e_fs := done ++ v :: todo; e_vars := vars; e_buf := buf |} =
        state_after done (rkind done k v) todo vars buf.
  Proof.
    intros Hi Hv. unfold infer_field in Hi.
    destruct es as [|e1 es1]; [discriminate|].
    destruct e1; try discriminate.
    - (* EWrite *)
      destruct s as [j|]; [|destruct p; discriminate].
      destruct ds as [|d1 ds1]; [destruct p; discriminate|].
      destruct d1; try (destruct p; discriminate).
      destruct (Nat.eqb_spec j (length done)) as [->|]; [|destruct p; discriminate].
      destruct (Nat.eqb_spec i (length done)) as [->|]; [|destruct p; discriminate].
      destruct (prim_eqb_spec p p0) as [<-|]; [|destruct p; discriminate].
      cbn [andb] in Hi.
      exists [EWrite p (SField (length done)) propagate].
      destruct p; cbn [cannot_fail orb] in Hi;
        try (destruct (propagate || _) eqn:Ep in Hi; [|discriminate]);
        try (inversion Hi; subst; split; [reflexivity|];
             cbn [run_estmts run_estmt e_fs e_vars e_buf bind]; rewrite get_field_mid; cbn [bind render_kind state_after];
             match goal with |- context [w_prim ?p ?v] => destruct (w_prim p v) as [bs|f] end;
             [reflexivity | destruct f; try reflexivity; destruct propagate; reflexivity]).
      (* PObjList *)
      destruct propagate; [|discriminate]. inversion Hi; subst. split; [reflexivity|].
      cbn [run_estmts run_estmt e_fs e_vars e_buf bind]. rewrite get_field_mid. cbn [bind render_kind state_after].
      destruct v; try reflexivity.
      destruct (length_prefix cnt (lenN l)) as [n|f]; cbn [bind]; [|reflexivity].
      cbn [deep_ok] in Hv. rewrite enc_objs_refines by exact Hv.
      destruct (render_objs senc tid l) as [[l' bs]|f]; cbn [lift bind]; [|reflexivity].
      rewrite set_nth_mid. rewrite <- app_assoc. reflexivity.
    - (* ECall first *)
      destruct ds as [|d1 ds1]; [discriminate|].
      destruct d1; try discriminate.
      + (* DLookup; DCall *)
        destruct ds1 as [|d2 ds2]; [discriminate|]. destruct d2; try discriminate.
        destruct (Nat.eqb_spec i (length done)) as [->|]; [|discriminate]. cbn [andb] in Hi.
        destruct (Nat.eqb i0 (length done) && Nat.eqb i1 (length done) && Nat.ltb key (length done)); [|discriminate].
        inversion Hi; subst. exists [ECall (length done) g propagate]. split; [reflexivity|].
        cbn [run_estmts bind]. rewrite ecall_refines by exact Hv. cbn [render_kind apply_fill bind state_after].
        destruct (render_call senc g propagate v) as [[v' bs]|f]; reflexivity.
      + (* DCall: by-value struct *)
        destruct (Nat.eqb_spec i (length done)) as [->|]; [|discriminate]. cbn [andb] in Hi.
        destruct (Nat.eqb i0 (length done)); [|discriminate].
        destruct (nth_error gs (length done)) as [[]|]; try discriminate.
        inversion Hi; subst. exists [ECall (length done) g propagate]. split; [reflexivity|].
        cbn [run_estmts bind]. rewrite ecall_refines by exact Hv. cbn [render_kind apply_fill bind state_after].
        destruct (render_call senc g propagate v) as [[v' bs]|f]; reflexivity.
      + (* DEnsure; DCall *)
        destruct ds1 as [|d2 ds2]; [discriminate|]. destruct d2; try discriminate.
        destruct (Nat.eqb_spec i (length done)) as [->|]; [|discriminate]. cbn [andb] in Hi.
        destruct (Nat.eqb i0 (length done) && Nat.eqb i1 (length done) && field_is_ptr gs (length done) t); [|discriminate].
        inversion Hi; subst. exists [ECall (length done) g propagate]. split; [reflexivity|].
        cbn [run_estmts bind]. rewrite ecall_refines by exact Hv. cbn [render_kind apply_fill bind state_after].
        destruct (render_call senc g propagate v) as [[v' bs]|f]; reflexivity.
    - (* EFill; ECall *)
      destruct es1 as [|e2 es2]; [discriminate|]. destruct e2; try discriminate.
      destruct g; try discriminate.
      destruct ds as [|d1 ds1]; [discriminate|]. destruct d1; try discriminate.
      destruct ds1 as [|d2 ds2]; [discriminate|]. destruct d2; try discriminate.
      destruct (Nat.eqb_spec i (length done)) as [->|]; [|discriminate].
      destruct (Nat.eqb_spec i0 (length done)) as [->|]; [|discriminate]. cbn [andb] in Hi.
      destruct (Nat.eqb i1 (length done) && Nat.eqb i2 (length done)); [|discriminate]. cbn [andb] in Hi.
      destruct (Nat.ltb_spec key (length done)) as [Hk|]; [|discriminate]. cbn [andb] in Hi.
      destruct (Nat.ltb key0 (length done)); [|discriminate].
      inversion Hi; subst.
      exists [EFill (length done) tbl key; ECall (length done) GNone propagate]. split; [reflexivity|].
      cbn [run_estmts]. rewrite efill_refines by exact Hk. cbn [render_kind].
      destruct (apply_fill tables zero_rec done (FTable tbl key) v) as [v1|f] eqn:Ef; cbn [bind]; [|reflexivity].
      rewrite ecall_refines by (eapply apply_fill_deep; [exact Hv|exact Ef]). cbn [state_after].
      destruct (render_call senc GNone propagate v1) as [[v' bs]|f]; reflexivity.
    - (* EFillNew; ECall *)
      destruct es1 as [|e2 es2]; [discriminate|]. destruct e2; try discriminate.
      destruct g; try discriminate.
      destruct ds as [|d1 ds1]; [discriminate|]. destruct d1; try discriminate.
      destruct ds1 as [|d2 ds2]; [discriminate|]. destruct d2; try discriminate.
      destruct (Nat.eqb_spec i (length done)) as [->|]; [|discriminate].
      destruct (Nat.eqb_spec i0 (length done)) as [->|]; [|discriminate]. cbn [andb] in Hi.
      destruct (Nat.eqb i1 (length done) && Nat.eqb i2 (length done)); [|discriminate]. cbn [andb] in Hi.
      destruct (N.eqb_spec t t0) as [<-|]; [|discriminate]. cbn [andb] in Hi.
      destruct (field_is_ptr gs (length done) t); [|discriminate].
      inversion Hi; subst.
      exists [EFillNew (length done) t; ECall (length done) GNone propagate]. split; [reflexivity|].
      cbn [run_estmts]. rewrite efillnew_refines. cbn [render_kind].
      destruct (apply_fill tables zero_rec done (FNew t) v) as [v1|f] eqn:Ef; cbn [bind]; [|reflexivity].
      rewrite ecall_refines by (eapply apply_fill_deep; [exact Hv|exact Ef]). cbn [state_after].
      destruct (render_call senc GNone propagate v1) as [[v' bs]|f]; reflexivity.
  Qed.

  Lemma runs_app a b s : runs (a ++ b) s = (do s' <- runs a s; runs b s').
  Proof.
    revert s. induction a as [|x a IH]; intro s; cbn [app run_estmts bind]; [reflexivity|].
    destruct (run1 x s) as [s1|f]; cbn [bind]; [apply IH|reflexivity].
  Qed.

  Definition state_fields (done : list value) (r : res (list value * list byte)) vars buf : res est :=
    match r with
    | Ok (todo', bs) => Ok {| e_fs := done ++ todo'; e_vars := vars; e_buf := buf ++ bs |}
    | Fail f => Fail f
    end.

  Lemma plain_refines fuel gs : forall es ds ks done todo vars buf,
    infer_plain fuel gs (length done) es ds = Some ks ->
    forallb (deep_ok rec) todo = true ->
    (length ks <= length todo)%nat ->
    runs es {| e_fs := done ++ todo; e_vars := vars; e_buf := buf |} =
    state_fields done (rfields done ks todo) vars buf.
  Proof.
    induction fuel as [|fuel IH]; intros es ds ks done todo vars buf Hi Ht Hl; cbn [infer_plain] in Hi; [discriminate|].
    assert (Hstep : forall k es' ds' ks',
      infer_field gs (length done) es ds = Some (k, es', ds') ->
      infer_plain fuel gs (S (length done)) es' ds' = Some ks' -> ks = k :: ks' ->
      runs es {| e_fs := done ++ todo; e_vars := vars; e_buf := buf |} = state_fields done (rfields done ks todo) vars buf).
    { intros k es' ds' ks' Hf Hp ->.
      destruct todo as [|v todo']; [cbn in Hl; lia|].
      cbn [forallb] in Ht. apply andb_true_iff in Ht. destruct Ht as [Hv Ht'].
      destruct (field_refines gs done v todo' vars buf es ds k es' ds' Hf Hv) as [pre [-> Hrun]].
      rewrite runs_app, Hrun. cbn [render_fields].
      destruct (rkind done k v) as [[v' bs]|f]; cbn [state_after bind state_fields]; [|reflexivity].
      rewrite app_cons_assoc.
      replace (S (length done)) with (length (done ++ [v'])) in Hp by (rewrite app_length; cbn; lia).
      rewrite (IH es' ds' ks' (done ++ [v']) todo' vars (buf ++ bs) Hp Ht') by (cbn in Hl; lia).
      destruct (rfields (done ++ [v']) ks' todo') as [[rest bs']|f]; cbn [state_fields bind]; [|reflexivity].
      rewrite <- app_assoc. cbn [app]. rewrite <- app_assoc. reflexivity. }
    destruct es as [|e es0].
    - destruct ds as [|d ds0].
      + inversion Hi; subst. cbn [run_estmts render_fields state_fields]. rewrite !app_nil_r. reflexivity.
      + cbn [infer_field] in Hi. discriminate.
    - destruct (infer_field gs (length done) (e :: es0) ds) as [[[k es'] ds']|] eqn:Hf.
      + destruct (infer_plain fuel gs (S (length done)) es' ds') as [ks'|] eqn:Hp.
        * destruct ds; inversion Hi; subst; eapply Hstep; eauto.
        * destruct ds; discriminate.
      + destruct ds; discriminate.
  Qed.

  (* ---------------- frames ---------------- *)
  Fixpoint hdr_enc (i : nat) (hdr : list kind) : list estmt :=
    match hdr with
    | [] => []
    | KPrim p _ :: r => EWrite p (SField i) true :: hdr_enc (S i) r
    | _ :: r => hdr_enc (S i) r
    end.
  Fixpoint hdr_dec (i : nat) (hdr : list kind) : list dstmt :=
    match hdr with
    | [] => []
    | KPrim p _ :: r => DRead p i :: hdr_dec (S i) r
    | _ :: r => hdr_dec (S i) r
    end.
  Definition is_hdr_kind (k : kind) : bool :=
    match k with KPrim (PBasic _ _) true => true | _ => false end.

  Lemma infer_hdr_spec fuel : forall i es ds hdr es1 ds1,
    infer_hdr fuel i es ds = (hdr, es1, ds1) ->
    es = hdr_enc i hdr ++ es1 /\ ds = hdr_dec i hdr ++ ds1 /\ forallb is_hdr_kind hdr = true.
  Proof.
    induction fuel as [|fuel IH]; intros i es ds hdr es1 ds1 H; cbn [infer_hdr] in H.
    - inversion H; subst. repeat split.
    - destruct es as [|e es0]; [inversion H; subst; repeat split|].
      destruct e; try (inversion H; subst; repeat split; fail).
      destruct p; try (inversion H; subst; repeat split; fail).
      destruct s as [j|]; [|inversion H; subst; repeat split].
      destruct propagate; [|inversion H; subst; repeat split].
      destruct ds as [|d ds0]; [inversion H; subst; repeat split|].
      destruct d; try (inversion H; subst; repeat split; fail).
      destruct p; try (inversion H; subst; repeat split; fail).
      destruct (Nat.eqb_spec j i) as [->|]; [|inversion H; subst; repeat split].
      destruct (Nat.eqb_spec i0 i) as [->|]; [|inversion H; subst; repeat split].
      destruct (bool_eqb_spec le le0) as [<-|]; [|inversion H; subst; repeat split].
      destruct (ity_eqb_spec t t0) as [<-|]; [|inversion H; subst; repeat split].
      cbn [andb] in H.
      destruct (infer_hdr fuel (S i) es0 ds0) as [[ks es''] ds''] eqn:E.
      inversion H; subst. destruct (IH _ _ _ _ _ _ E) as [-> [-> Hk]].
      cbn [hdr_enc hdr_dec app forallb is_hdr_kind]. rewrite Hk. repeat split.
  Qed.

  Lemma hdr_infer_plain gs hdr : forall i fuel, forallb is_hdr_kind hdr = true -> (length hdr < fuel)%nat ->
    infer_plain fuel gs i (hdr_enc i hdr) (hdr_dec i hdr) = Some hdr.
  Proof.
    induction hdr as [|k hdr IH]; intros i fuel H Hf.
    - destruct fuel; [cbn in Hf; lia|]. reflexivity.
    - cbn [forallb] in H. apply andb_true_iff in H. destruct H as [Hk H].
      destruct k; try discriminate. destruct p; try discriminate. destruct propagate; try discriminate.
      destruct fuel; [cbn in Hf; lia|].
      cbn [hdr_enc hdr_dec length]. cbn [infer_plain infer_field].
      rewrite Nat.eqb_refl. cbn [andb prim_eqb].
      destruct (bool_eqb_spec le le); [|congruence]. destruct (ity_eqb_spec t t); [|congruence]. cbn [andb orb].
      rewrite (IH (S i) fuel H) by (cbn [length] in Hf; lia). reflexivity.
  Qed.

  Lemma lenN_to_nat {A} (l : list A) : N.to_nat (lenN l) = length l.
  Proof. rewrite lenN_length. lia. Qed.

  Lemma skipn_app_exact {A} (a b : list A) : skipn (length a) (a ++ b) = b.
  Proof. rewrite skipn_app, Nat.sub_diag, skipn_all. reflexivity. Qed.
  Lemma firstn_app_exact {A} (a b : list A) : firstn (length a) (a ++ b) = a.
  Proof. rewrite firstn_app, Nat.sub_diag, firstn_all. cbn [firstn]. apply app_nil_r. Qed.

  Lemma patch_mid a ph b new : length ph = length new -> patch (length a) (a ++ ph ++ b) new = a ++ new ++ b.
  Proof.
    intro H. unfold patch. rewrite firstn_app_exact.
    replace (a ++ ph ++ b) with ((a ++ ph) ++ b) by (rewrite <- app_assoc; reflexivity).
    replace (length a + length new)%nat with (length (a ++ ph)) by (rewrite app_length; lia).
    rewrite skipn_app_exact. reflexivity.
  Qed.

  Lemma render_fields_length done ks todo todo' bs :
    rfields done ks todo = Ok (todo', bs) -> length todo' = length todo.
  Proof.
    revert done todo todo' bs. induction ks as [|k ks IH]; intros done todo todo' bs H; cbn [render_fields] in H.
    - inversion H; subst. reflexivity.
    - destruct todo as [|v todo0]; [discriminate|].
      destruct (rkind done k v) as [[v' b1]|]; cbn [bind] in H; [|discriminate].
      destruct (rfields (done ++ [v']) ks todo0) as [[rest b2]|] eqn:E; cbn [bind] in H; [|discriminate].
      inversion H; subst. cbn [length]. rewrite (IH _ _ _ _ E). reflexivity.
  Qed.

  Lemma render_fields_app done ks : forall a b, length a = length ks ->
    rfields done ks (a ++ b) =
    match rfields done ks a with Ok (a', bs) => Ok (a' ++ b, bs) | Fail f => Fail f end.
  Proof.
    revert done. induction ks as [|k ks IH]; intros done a b H; cbn [render_fields].
    - destruct a; [|discriminate]. reflexivity.
    - destruct a as [|v a]; [discriminate|]. cbn [app].
      destruct (rkind done k v) as [[v' b1]|]; cbn [bind]; [|reflexivity].
      rewrite IH by (cbn in H; lia).
      destruct (rfields (done ++ [v']) ks a) as [[rest b2]|]; cbn [bind]; reflexivity.
  Qed.

  Definition sum_value (fr : list byte) (ss : sumspec) (oldv : value) : res value :=
    match reg_get reg (ss_name ss) with
    | None => Ok oldv
    | Some sv => if ity_eqb (sv_rt sv) (ss_rt ss) then Ok (VInt (calc (sv_alg sv) fr)) else Fail FPanic
    end.

  (* ---- single statements of the frame idiom ---- *)
  Lemma elet_run x fs vars buf :
    run1 (ELet x XLen) {| e_fs := fs; e_vars := vars; e_buf := buf |} =
    Ok {| e_fs := fs; e_vars := (x, lenN buf) :: vars; e_buf := buf |}.
  Proof. reflexivity. Qed.

  Lemma ewrite_const_run le t t' n fs vars buf :
    run1 (EWrite (PBasic le t) (SConst t' n) true) {| e_fs := fs; e_vars := vars; e_buf := buf |} =
    Ok {| e_fs := fs; e_vars := vars; e_buf := buf ++ write_basic le t n |}.
  Proof. reflexivity. Qed.

  Lemma esetlen_run i a b fs vars buf ha lb x :
    var_lookup vars a = Ok ha -> var_lookup vars b = Ok lb -> get_field fs i = Ok x ->
    run1 (ESetLen i (XVar a) (XVar b)) {| e_fs := fs; e_vars := vars; e_buf := buf |} =
    Ok {| e_fs := set_nth i (VInt (Z.to_N ((Z.of_N ha - Z.of_N lb) mod 4294967296)%Z)) fs; e_vars := vars; e_buf := buf |}.
  Proof. intros H1 H2 H3. cbn [run_estmt eval e_fs e_vars e_buf]. rewrite H1, H2, H3. reflexivity. Qed.

  Lemma epatch_run le a i fs vars buf p n :
    var_lookup vars a = Ok p -> get_field fs i = Ok (VInt n) -> p + 4 <= lenN buf ->
    run1 (EPatch le (XVar a) i) {| e_fs := fs; e_vars := vars; e_buf := buf |} =
    Ok {| e_fs := fs; e_vars := vars; e_buf := patch (N.to_nat p) buf (int_bytes (ord le) 4 n) |}.
  Proof.
    intros H1 H2 H3. cbn [run_estmt eval e_fs e_vars e_buf]. rewrite H1, H2. cbn [bind].
    destruct (N.leb_spec (p + 4) (lenN buf)); [reflexivity|lia].
  Qed.

  Lemma set_nth_same {A} (l : list A) i x : nth_error l i = Some x -> set_nth i x l = l.
  Proof.
    revert i. induction l as [|y l IH]; intros [|i] H; cbn in H; try discriminate.
    - inversion H; subst. reflexivity.
    - unfold set_nth in *. cbn [firstn skipn app]. f_equal. apply IH. exact H.
  Qed.

  Lemma esum_run name rt a i fs vars buf f x :
    var_lookup vars a = Ok f -> get_field fs i = Ok x -> f <= lenN buf ->
    run1 (ESum name rt (XVar a) i) {| e_fs := fs; e_vars := vars; e_buf := buf |} =
    match sum_value (skipn (N.to_nat f) buf) {| ss_name := name; ss_rt := rt; ss_le := false |} x with
    | Ok c => Ok {| e_fs := set_nth i c fs; e_vars := vars; e_buf := buf |}
    | Fail e => Fail e
    end.
  Proof.
    intros H1 H2 H3. cbn [run_estmt eval e_fs e_vars e_buf]. rewrite H1, H2. cbn [bind].
    unfold sum_value. cbn [ss_name ss_rt].
    destruct (reg_get reg name) as [sv|].
    - destruct (ity_eqb (sv_rt sv) rt); [|reflexivity].
      destruct (N.leb_spec f (lenN buf)); [reflexivity|lia].
    - rewrite set_nth_same; [reflexivity|]. unfold get_field in H2. destruct (nth_error fs i); inversion H2; reflexivity.
  Qed.

  Lemma ewrite_basic_field_run le t i fs vars buf v :
    get_field fs i = Ok v ->
    run1 (EWrite (PBasic le t) (SField i) true) {| e_fs := fs; e_vars := vars; e_buf := buf |} =
    match w_prim (PBasic le t) v with
    | Ok bs => Ok {| e_fs := fs; e_vars := vars; e_buf := buf ++ bs |}
    | Fail e => Fail e
    end.
  Proof.
    intro H. cbn [run_estmt e_fs e_vars e_buf]. rewrite H. cbn [bind].
    destruct (w_prim (PBasic le t) v) as [bs|e]; [reflexivity|]. destruct e; reflexivity.
  Qed.

  Lemma w_prim_basic_no_err le t v : w_prim (PBasic le t) v <> Fail FErr.
  Proof. destruct v; cbn [w_prim]; congruence. Qed.

  Lemma lenN_write_basic le t n : lenN (write_basic le t n) = N.of_nat (width t).
  Proof. unfold write_basic. rewrite lenN_length, int_bytes_length. reflexivity. Qed.

  (* the frame idiom, with checksum *)
  Lemma frame_sum_refines hdr le_ph le ss hv0 rest buf :
    forallb is_hdr_kind hdr = true ->
    length hv0 = length hdr ->
    forallb (deep_ok rec) (hv0 ++ rest) = true ->
    (do s <- runs (ELet 0 XLen :: hdr_enc 0 hdr ++ frame_enc_tail (length hdr) le_ph le (Some ss))
               {| e_fs := hv0 ++ rest; e_vars := []; e_buf := buf |}; Ok (e_fs s, e_buf s)) =
    lift (render_frame tables reg senc zero_rec hdr le (Some ss) (hv0 ++ rest)) buf.
  Proof.
    intros Hh Hl Hfs.
    unfold render_frame. rewrite <- Hl, firstn_app_exact, skipn_app_exact. rewrite Hl.
    cbn [run_estmts]. rewrite elet_run. cbn [bind].
    rewrite runs_app.
    rewrite (plain_refines (S (length hdr)) [] (hdr_enc 0 hdr) (hdr_dec 0 hdr) hdr [] (hv0 ++ rest) _ buf
               (hdr_infer_plain [] hdr 0%nat _ Hh (Nat.lt_succ_diag_r _)) Hfs)
      by (rewrite app_length; lia).
    rewrite render_fields_app by exact Hl.
    destruct (rfields [] hdr hv0) as [[hv hb]|f] eqn:Ehdr; cbn [state_fields bind app lift]; [|reflexivity].
    pose proof (render_fields_length _ _ _ _ _ Ehdr) as Hhv. rewrite Hl in Hhv. rewrite <- Hhv. clear Ehdr.
    rewrite forallb_app in Hfs. apply andb_true_iff in Hfs. destruct Hfs as [_ Hrest].
    cbn [frame_enc_tail run_estmts].
    rewrite elet_run. cbn [bind]. rewrite ewrite_const_run. cbn [bind]. rewrite elet_run. cbn [bind].
    destruct rest as [|lenv rest1]; [ | destruct rest1 as [|body tl] ].
    - cbn [run_estmt e_fs e_vars e_buf]. rewrite app_nil_r.
      unfold get_field. rewrite (proj2 (nth_error_None hv (S (length hv)))) by lia. reflexivity.
    - cbn [run_estmt e_fs e_vars e_buf].
      unfold get_field. rewrite (proj2 (nth_error_None (hv ++ [lenv]) (S (length hv)))) by (rewrite app_length; cbn; lia).
      reflexivity.
    - cbn [forallb] in Hrest. apply andb_true_iff in Hrest. destruct Hrest as [_ Hrest].
      apply andb_true_iff in Hrest. destruct Hrest as [Hbody Htl].
      replace (hv ++ lenv :: body :: tl) with ((hv ++ [lenv]) ++ body :: tl) by (rewrite <- app_assoc; reflexivity).
      replace (S (length hv)) with (length (hv ++ [lenv])) at 1 by (rewrite app_length; cbn; lia).
      rewrite ecall_refines by exact Hbody.
      destruct (render_call senc GIfNotNil true body) as [[body' bb]|f]; cbn [bind]; [|reflexivity].
      rewrite elet_run. cbn [bind].
      rewrite <- (app_assoc hv [lenv]). cbn [app].
      (* ESetLen *)
      erewrite esetlen_run; [| reflexivity | reflexivity | apply get_field_mid ]. cbn [bind].
      rewrite set_nth_mid.
      set (L := Z.to_N ((Z.of_N (lenN (((buf ++ hb) ++ write_basic le_ph U32 0) ++ bb)) -
                         Z.of_N (lenN ((buf ++ hb) ++ write_basic le_ph U32 0))) mod 4294967296)%Z).
      assert (HL : L = u32_of_len (lenN bb)).
      { unfold L, u32_of_len. rewrite (lenN_app _ bb). lia. }
      rewrite HL. clear HL L.
      (* EPatch *)
      erewrite epatch_run; [| reflexivity | apply get_field_mid | ].
      2:{ rewrite !lenN_app, lenN_write_basic. cbn [width]. lia. }
      cbn [bind].
      rewrite lenN_to_nat.
      rewrite <- (app_assoc (buf ++ hb)).
      rewrite patch_mid by (unfold write_basic; rewrite !int_bytes_length; reflexivity).
      (* ESum *)
      destruct tl as [|oldv tl'].
      + cbn [run_estmt eval e_fs e_vars e_buf var_lookup Nat.eqb bind].
        unfold get_field. rewrite (proj2 (nth_error_None (hv ++ [VInt (u32_of_len (lenN bb)); body']) (S (S (length hv)))))
          by (rewrite app_length; cbn; lia). reflexivity.
      + replace (hv ++ VInt (u32_of_len (lenN bb)) :: body' :: oldv :: tl')
          with ((hv ++ [VInt (u32_of_len (lenN bb)); body']) ++ oldv :: tl') by (rewrite <- app_assoc; reflexivity).
        replace (S (S (length hv))) with (length (hv ++ [VInt (u32_of_len (lenN bb)); body'])) by (rewrite app_length; cbn; lia).
        erewrite esum_run; [| reflexivity | apply get_field_mid | rewrite !lenN_app; lia ].
        rewrite lenN_to_nat. rewrite <- (app_assoc buf hb). rewrite skipn_app_exact.
        unfold sum_value. cbn [ss_name ss_rt].
        set (fr := hb ++ int_bytes (ord le) 4 (u32_of_len (lenN bb)) ++ bb).
        destruct (match reg_get reg (ss_name ss) with
                  | Some sv => if ity_eqb (sv_rt sv) (ss_rt ss) then Ok (VInt (calc (sv_alg sv) fr)) else Fail FPanic
                  | None => Ok oldv end) as [c|e]; cbn [bind]; [|reflexivity].
        rewrite set_nth_mid.
        erewrite ewrite_basic_field_run by apply get_field_mid.
        destruct (w_prim (PBasic (ss_le ss) (ss_rt ss)) c) as [bs|e]; cbn [bind e_fs e_buf lift]; [|reflexivity].
        rewrite <- !app_assoc. cbn [app]. reflexivity.
  Qed.

  (* the frame idiom, without checksum *)
  Lemma frame_nosum_refines hdr le_ph le hv0 rest buf :
    forallb is_hdr_kind hdr = true ->
    length hv0 = length hdr ->
    forallb (deep_ok rec) (hv0 ++ rest) = true ->
    (do s <- runs (hdr_enc 0 hdr ++ frame_enc_tail (length hdr) le_ph le None)
               {| e_fs := hv0 ++ rest; e_vars := []; e_buf := buf |}; Ok (e_fs s, e_buf s)) =
    lift (render_frame tables reg senc zero_rec hdr le None (hv0 ++ rest)) buf.
  Proof.
    intros Hh Hl Hfs.
    unfold render_frame. rewrite <- Hl, firstn_app_exact, skipn_app_exact. rewrite Hl.
    rewrite runs_app.
    rewrite (plain_refines (S (length hdr)) [] (hdr_enc 0 hdr) (hdr_dec 0 hdr) hdr [] (hv0 ++ rest) _ buf
               (hdr_infer_plain [] hdr 0%nat _ Hh (Nat.lt_succ_diag_r _)) Hfs)
      by (rewrite app_length; lia).
    rewrite render_fields_app by exact Hl.
    destruct (rfields [] hdr hv0) as [[hv hb]|f] eqn:Ehdr; cbn [state_fields bind app lift]; [|reflexivity].
    pose proof (render_fields_length _ _ _ _ _ Ehdr) as Hhv. rewrite Hl in Hhv. rewrite <- Hhv. clear Ehdr.
    rewrite forallb_app in Hfs. apply andb_true_iff in Hfs. destruct Hfs as [_ Hrest].
    cbn [frame_enc_tail run_estmts].
    rewrite elet_run. cbn [bind]. rewrite ewrite_const_run. cbn [bind]. rewrite elet_run. cbn [bind].
    destruct rest as [|lenv rest1]; [ | destruct rest1 as [|body tl] ].
    - cbn [run_estmt e_fs e_vars e_buf]. rewrite app_nil_r.
      unfold get_field. rewrite (proj2 (nth_error_None hv (S (length hv)))) by lia. reflexivity.
    - cbn [run_estmt e_fs e_vars e_buf].
      unfold get_field. rewrite (proj2 (nth_error_None (hv ++ [lenv]) (S (length hv)))) by (rewrite app_length; cbn; lia).
      reflexivity.
    - cbn [forallb] in Hrest. apply andb_true_iff in Hrest. destruct Hrest as [_ Hrest].
      apply andb_true_iff in Hrest. destruct Hrest as [Hbody Htl].
      replace (hv ++ lenv :: body :: tl) with ((hv ++ [lenv]) ++ body :: tl) by (rewrite <- app_assoc; reflexivity).
      replace (S (length hv)) with (length (hv ++ [lenv])) at 1 by (rewrite app_length; cbn; lia).
      rewrite ecall_refines by exact Hbody.
      destruct (render_call senc GIfNotNil true body) as [[body' bb]|f]; cbn [bind]; [|reflexivity].
      rewrite elet_run. cbn [bind].
      rewrite <- (app_assoc hv [lenv]). cbn [app].
      erewrite esetlen_run; [| reflexivity | reflexivity | apply get_field_mid ]. cbn [bind].
      rewrite set_nth_mid.
      set (L := Z.to_N ((Z.of_N (lenN (((buf ++ hb) ++ write_basic le_ph U32 0) ++ bb)) -
                         Z.of_N (lenN ((buf ++ hb) ++ write_basic le_ph U32 0))) mod 4294967296)%Z).
      assert (HL : L = u32_of_len (lenN bb)).
      { unfold L, u32_of_len. rewrite (lenN_app _ bb). lia. }
      rewrite HL. clear HL L.
      erewrite epatch_run; [| reflexivity | apply get_field_mid | ].
      2:{ rewrite !lenN_app, lenN_write_basic. cbn [width]. lia. }
      cbn [bind e_fs e_buf lift].
      rewrite lenN_to_nat.
      rewrite <- (app_assoc (buf ++ hb)).
      rewrite patch_mid by (unfold write_basic; rewrite !int_bytes_length; reflexivity).
      rewrite <- !app_assoc. reflexivity.
  Qed.

  Lemma typed_fields_length gs vs : typed_fields rec gs vs = true -> length vs = length gs.
  Proof.
    revert vs. induction gs as [|g gs IH]; intros [|v vs]; cbn [typed_fields]; try discriminate; [reflexivity|].
    intro H. apply andb_true_iff in H. cbn [length]. f_equal. apply IH. tauto.
  Qed.

  Lemma infer_frame_inv es ds sch : infer_frame es ds = Some sch ->
    exists hdr le_ph le tbl key ss,
      sch = SFrame hdr le tbl key (Some ss) /\
      es = ELet 0 XLen :: hdr_enc 0 hdr ++ frame_enc_tail (length hdr) le_ph le (Some ss) /\
      ds = hdr_dec 0 hdr ++ frame_dec_tail (length hdr) le tbl key (Some ss) /\
      forallb is_hdr_kind hdr = true /\ (key < length hdr)%nat.
  Proof.
    unfold infer_frame. destruct es as [|e es0]; [discriminate|].
    destruct e; try discriminate. destruct x; try discriminate. destruct e; try discriminate.
    destruct (infer_hdr (length es0) 0 es0 ds) as [[hdr es1] ds1] eqn:Eh.
    destruct (nth_sumspec es1) as [ss|]; [|discriminate].
    destruct (nth_lookup ds1) as [tbl key].
    destruct (list_eq_dec estmt_eq_dec es1 _) as [E1|]; [|discriminate].
    destruct (list_eq_dec dstmt_eq_dec ds1 _) as [E2|]; [|discriminate].
    destruct (Nat.ltb_spec key (length hdr)); [|discriminate].
    intro Hs. inversion Hs; subst sch. clear Hs.
    destruct (infer_hdr_spec _ _ _ _ _ _ _ Eh) as [-> [-> Hk]].
    exists hdr, (nth_le_ph es1), (nth_patch_le es1 6), tbl, key, ss.
    rewrite <- E1, <- E2. repeat split; assumption.
  Qed.

  Lemma infer_frame_nosum_inv es ds sch : infer_frame_nosum es ds = Some sch ->
    exists hdr le_ph le tbl key,
      sch = SFrame hdr le tbl key None /\
      es = hdr_enc 0 hdr ++ frame_enc_tail (length hdr) le_ph le None /\
      ds = hdr_dec 0 hdr ++ frame_dec_tail (length hdr) le tbl key None /\
      forallb is_hdr_kind hdr = true /\ (key < length hdr)%nat.
  Proof.
    unfold infer_frame_nosum.
    destruct (infer_hdr (length es) 0 es ds) as [[hdr es1] ds1] eqn:Eh.
    destruct (nth_lookup ds1) as [tbl key].
    destruct (list_eq_dec estmt_eq_dec es1 _) as [E1|]; [|discriminate].
    destruct (list_eq_dec dstmt_eq_dec ds1 _) as [E2|]; [|discriminate].
    destruct (Nat.ltb_spec key (length hdr)); [|discriminate].
    intro Hs. inversion Hs; subst sch. clear Hs.
    destruct (infer_hdr_spec _ _ _ _ _ _ _ Eh) as [-> [-> Hk]].
    exists hdr, (nth_le_ph es1), (nth_patch_le es1 6), tbl, key.
    rewrite <- E1, <- E2. repeat split; assumption.
  Qed.

  (* what [infer] returning a schema means for the statement lists *)
  Inductive infer_shape (td : tydef) : schema -> Prop :=
  | shape_plain ks fuel :
      infer_plain fuel (ty_fields td) 0 (ty_enc td) (ty_dec td) = Some ks ->
      length ks = length (ty_fields td) ->
      infer_shape td (SPlain ks)
  | shape_frame_sum hdr le_ph le tbl key ss :
      ty_enc td = ELet 0 XLen :: hdr_enc 0 hdr ++ frame_enc_tail (length hdr) le_ph le (Some ss) ->
      ty_dec td = hdr_dec 0 hdr ++ frame_dec_tail (length hdr) le tbl key (Some ss) ->
      forallb is_hdr_kind hdr = true -> (key < length hdr)%nat ->
      length (ty_fields td) = (length hdr + 3)%nat ->
      infer_shape td (SFrame hdr le tbl key (Some ss))
  | shape_frame_nosum hdr le_ph le tbl key :
      ty_enc td = hdr_enc 0 hdr ++ frame_enc_tail (length hdr) le_ph le None ->
      ty_dec td = hdr_dec 0 hdr ++ frame_dec_tail (length hdr) le tbl key None ->
      forallb is_hdr_kind hdr = true -> (key < length hdr)%nat ->
      length (ty_fields td) = (length hdr + 2)%nat ->
      infer_shape td (SFrame hdr le tbl key None).

  Lemma infer_shape_of td sch : infer td = Some sch -> infer_shape td sch.
  Proof.
    unfold infer. destruct (has_setlen (ty_enc td)).
    - destruct (infer_frame (ty_enc td) (ty_dec td)) as [s1|] eqn:E1.
      + destruct (infer_frame_inv _ _ _ E1) as [hdr [le_ph [le [tbl [key [ss [-> [He [Hd [Hk Hlt]]]]]]]]]].
        destruct (Nat.eqb_spec (length (ty_fields td)) (length hdr + 3)); [|discriminate].
        intro H. inversion H; subst. eapply shape_frame_sum; eauto.
      + destruct (infer_frame_nosum (ty_enc td) (ty_dec td)) as [s2|] eqn:E2; [|discriminate].
        destruct (infer_frame_nosum_inv _ _ _ E2) as [hdr [le_ph [le [tbl [key [-> [He [Hd [Hk Hlt]]]]]]]]].
        destruct (Nat.eqb_spec (length (ty_fields td)) (length hdr + 2)); [|discriminate].
        intro H. inversion H; subst. eapply shape_frame_nosum; eauto.
    - destruct (infer_plain _ _ _ _ _) as [ks|] eqn:E; [|discriminate].
      destruct (Nat.eqb_spec (length ks) (length (ty_fields td))); [|discriminate].
      intro H. inversion H; subst. eapply shape_plain; eauto.
  Qed.

  Lemma td_enc_refines td sch fs buf :
    infer td = Some sch -> typed_fields rec (ty_fields td) fs = true ->
    (do s <- runs (ty_enc td) {| e_fs := fs; e_vars := []; e_buf := buf |}; Ok (e_fs s, e_buf s)) =
    lift (spec_enc_schema tables reg senc zero_rec sch fs) buf.
  Proof.
    intros Hi Ht. pose proof (typed_fields_length _ _ Ht) as Hlen. pose proof (typed_fields_deep _ _ _ Ht) as Hd.
    destruct (infer_shape_of _ _ Hi) as [ks fuel Hp Hk | hdr le_ph le tbl key ss He _ Hk _ Hn | hdr le_ph le tbl key He _ Hk _ Hn].
    - cbn [spec_enc_schema].
      pose proof (plain_refines fuel (ty_fields td) (ty_enc td) (ty_dec td) ks [] fs [] buf Hp Hd) as Hr.
      cbn [app] in Hr. rewrite Hr by lia.
      destruct (rfields [] ks fs) as [[todo' bs]|f]; reflexivity.
    - cbn [spec_enc_schema]. rewrite He.
      assert (Hf : length (firstn (length hdr) fs) = length hdr) by (apply firstn_length_le; lia).
      rewrite <- (firstn_skipn (length hdr) fs) in Hd |- *.
      apply frame_sum_refines; [exact Hk|exact Hf|exact Hd].
    - cbn [spec_enc_schema]. rewrite He.
      assert (Hf : length (firstn (length hdr) fs) = length hdr) by (apply firstn_length_le; lia).
      rewrite <- (firstn_skipn (length hdr) fs) in Hd |- *.
      apply frame_nosum_refines; [exact Hk|exact Hf|exact Hd].
  Qed.
End Refine.

(* ------------------------------------------------------------------------------------------ *)
Lemma infer_env_sigs env ss : infer_env env = Some ss -> sigs_of_sdefs ss = sigs_of_env env.
Proof.
  revert ss. induction env as [|td rest IH]; intros ss H; cbn [infer_env] in H.
  - inversion H; reflexivity.
  - destruct (infer td) as [s|]; [|discriminate]. destruct (infer_env rest) as [ss'|]; [|discriminate].
    inversion H; subst. cbn [sigs_of_sdefs sigs_of_env map sd_id sd_fields]. f_equal. apply IH. reflexivity.
Qed.

(* zero values are well-typed *)
Lemma zero_sig_typed sg : forall t z, zero_sig sg t = Some z -> typed_env sg t z = true.
Proof.
  induction sg as [|[id gs] rest IH]; intros t z H; cbn [zero_sig typed_env] in *; [discriminate|].
  destruct (id =? t); [|apply IH; exact H].
  revert z H. induction gs as [|g gs IHg]; intros z H; cbn [map_opt] in H.
  - inversion H; reflexivity.
  - destruct (zero_of (zero_sig rest) g) as [v|] eqn:Ev; [|discriminate].
    destruct (map_opt (zero_of (zero_sig rest)) gs) as [vs|] eqn:Evs; [|discriminate].
    inversion H; subst. cbn [typed_fields]. rewrite (IHg vs eq_refl). rewrite andb_true_r.
    destruct g; cbn [zero_of] in Ev; try (inversion Ev; subst; reflexivity).
    + inversion Ev; subst. cbn [typed_in]. apply N.ltb_lt. apply bound_pos.
    + destruct (zero_sig rest t0) as [fs|] eqn:Ez; [|discriminate]. inversion Ev; subst.
      cbn [typed_in]. rewrite N.eqb_refl. cbn [andb]. apply IH. exact Ez.
Qed.

Theorem enc_refines tables reg : forall env ss, infer_env env = Some ss ->
  forall t fs buf, typed_env (sigs_of_env env) t fs = true ->
  run_enc_env tables reg env t fs buf = lift (spec_enc_env tables reg ss t fs) buf.
Proof.
  induction env as [|td rest IH]; intros ss Hi t fs buf Ht; cbn [infer_env] in Hi.
  - cbn in Ht. discriminate.
  - destruct (infer td) as [s|] eqn:Es; [|discriminate].
    destruct (infer_env rest) as [ss'|] eqn:Er; [|discriminate].
    inversion Hi; subst ss. clear Hi.
    cbn [run_enc_env spec_enc_env sd_id sd_schema]. cbn [sigs_of_env map typed_env] in Ht.
    destruct (ty_id td =? t).
    + unfold szero_fields. rewrite (infer_env_sigs _ _ Er). fold (zero_fields rest).
      refine (td_enc_refines tables reg (run_enc_env tables reg rest) (spec_enc_env tables reg ss') (zero_fields rest)
                (typed_env (sigs_of_env rest)) _ _ td s fs buf Es Ht).
      * intros t' fs' buf' H'. apply IH; [reflexivity|exact H'].
      * intros t' z Hz. apply zero_sig_typed. exact Hz.
    + apply IH; [reflexivity|exact Ht].
Qed.

(* Corollary: typed values are never [FUnmodelled] for want of an environment entry... and the
   bytes appended by Encode do not depend on the buffer. *)
Corollary enc_appends tables reg env ss t fs buf fs' buf' :
  infer_env env = Some ss -> typed_env (sigs_of_env env) t fs = true ->
  run_enc_env tables reg env t fs buf = Ok (fs', buf') ->
  exists bs, spec_enc_env tables reg ss t fs = Ok (fs', bs) /\ buf' = buf ++ bs.
Proof.
  intros Hi Ht H. rewrite (enc_refines tables reg env ss Hi t fs buf Ht) in H.
  destruct (spec_enc_env tables reg ss t fs) as [[a b]|]; cbn [lift] in H; [|discriminate].
  inversion H; subst. eexists; split; reflexivity.
Qed.
