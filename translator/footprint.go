package main

// footprint.go — for every function of codec/ and of the five messages packages: which package-level
// variables it reads and writes (syntactically, with local shadowing taken into account), and which
// functions it calls.  Emitted as coq/Gen/Footprint.v for the C20 obligation.

import (
	"bytes"
	"crypto/sha256"
	"encoding/json"
	"fmt"
	"go/ast"
	"go/parser"
	"go/printer"
	"go/token"
	"os"
	"path/filepath"
	"sort"
	"strings"
)

type fnFoot struct {
	Pkg, Name     string
	Reads, Writes []string
	Calls         []string
}

func rootIdent(e ast.Expr) *ast.Ident {
	for {
		switch x := e.(type) {
		case *ast.Ident:
			return x
		case *ast.SelectorExpr:
			e = x.X
		case *ast.IndexExpr:
			e = x.X
		case *ast.StarExpr:
			e = x.X
		case *ast.ParenExpr:
			e = x.X
		case *ast.SliceExpr:
			e = x.X
		default:
			return nil
		}
	}
}

func footprintOfDir(root, dir, pkgShort string) []fnFoot {
	full := filepath.Join(root, dir)
	ents, err := os.ReadDir(full)
	if err != nil {
		panic(err)
	}
	var files []*ast.File
	for _, e := range ents {
		n := e.Name()
		if strings.HasSuffix(n, ".go") && !strings.HasSuffix(n, "_test.go") {
			f, err := parser.ParseFile(fset, filepath.Join(full, n), nil, 0)
			if err != nil {
				panic(terr{token.NoPos, err.Error()})
			}
			files = append(files, f)
		}
	}
	pkgVars := map[string]bool{}
	for _, f := range files {
		for _, d := range f.Decls {
			if gd, ok := d.(*ast.GenDecl); ok && gd.Tok == token.VAR {
				for _, sp := range gd.Specs {
					for _, n := range sp.(*ast.ValueSpec).Names {
						pkgVars[n.Name] = true
					}
				}
			}
		}
	}
	var out []fnFoot
	for _, f := range files {
		for _, d := range f.Decls {
			fd, ok := d.(*ast.FuncDecl)
			if !ok || fd.Body == nil {
				continue
			}
			name := fd.Name.Name
			if fd.Recv != nil {
				_, rt, _ := recvOf(fd)
				name = rt + "." + name
			}
			locals := map[string]bool{}
			addFields := func(fl *ast.FieldList) {
				if fl == nil {
					return
				}
				for _, f := range fl.List {
					for _, n := range f.Names {
						locals[n.Name] = true
					}
				}
			}
			addFields(fd.Recv)
			addFields(fd.Type.Params)
			addFields(fd.Type.Results)
			// every identifier defined anywhere in the body shadows from there on; we conservatively treat a
			// name as local only if it is defined in this function (a := b, var a, range, func literal params)
			ast.Inspect(fd.Body, func(n ast.Node) bool {
				switch x := n.(type) {
				case *ast.AssignStmt:
					if x.Tok == token.DEFINE {
						for _, l := range x.Lhs {
							if id, ok := l.(*ast.Ident); ok {
								locals[id.Name] = true
							}
						}
					}
				case *ast.ValueSpec:
					for _, n := range x.Names {
						locals[n.Name] = true
					}
				case *ast.RangeStmt:
					if x.Tok == token.DEFINE {
						if id, ok := x.Key.(*ast.Ident); ok {
							locals[id.Name] = true
						}
						if id, ok := x.Value.(*ast.Ident); ok && id != nil {
							locals[id.Name] = true
						}
					}
				case *ast.FuncLit:
					addFields(x.Type.Params)
					addFields(x.Type.Results)
				}
				return true
			})
			reads, writes, calls := map[string]bool{}, map[string]bool{}, map[string]bool{}
			global := func(id *ast.Ident) bool { return id != nil && pkgVars[id.Name] && !locals[id.Name] }
			// local names bound to (something reached from) a package-level variable: writing THROUGH them writes it
			alias := map[string]string{}
			ast.Inspect(fd.Body, func(n ast.Node) bool {
				if x, ok := n.(*ast.AssignStmt); ok && x.Tok == token.DEFINE {
					for i, l := range x.Lhs {
						id, ok := l.(*ast.Ident)
						if !ok {
							continue
						}
						var rhs ast.Expr
						if len(x.Rhs) == len(x.Lhs) {
							rhs = x.Rhs[i]
						} else if len(x.Rhs) == 1 {
							rhs = x.Rhs[0]
						}
						if u, ok := rhs.(*ast.UnaryExpr); ok && u.Op == token.AND {
							rhs = u.X
						}
						if r := rootIdent(rhs); r != nil {
							if global(r) {
								alias[id.Name] = r.Name
							} else if a, ok := alias[r.Name]; ok {
								alias[id.Name] = a
							}
						}
					}
				}
				return true
			})
			// the variable written when assigning to / calling a method on expression e (nil: a plain local)
			target := func(e ast.Expr) string {
				id := rootIdent(e)
				if id == nil {
					return ""
				}
				if global(id) {
					return id.Name
				}
				if _, bare := e.(*ast.Ident); !bare {
					if a, ok := alias[id.Name]; ok {
						return a
					}
				}
				return ""
			}
			ast.Inspect(fd.Body, func(n ast.Node) bool {
				switch x := n.(type) {
				case *ast.AssignStmt:
					if x.Tok != token.DEFINE {
						for _, l := range x.Lhs {
							if t := target(l); t != "" {
								writes[t] = true
							}
						}
					}
				case *ast.IncDecStmt:
					if t := target(x.X); t != "" {
						writes[t] = true
					}
				case *ast.UnaryExpr:
					// taking the address of a global lets it be written elsewhere
					if x.Op == token.AND {
						if id := rootIdent(x.X); global(id) {
							writes[id.Name] = true
						}
					}
				case *ast.CallExpr:
					fn := exprStr(x.Fun)
					if i := strings.Index(fn, "["); i >= 0 {
						fn = fn[:i]
					}
					calls[fn] = true
					if fn == "delete" && len(x.Args) > 0 {
						if id := rootIdent(x.Args[0]); id != nil {
							if global(id) {
								writes[id.Name] = true
							} else if a, ok := alias[id.Name]; ok {
								writes[a] = true
							}
						}
					}
					// method calls on (an alias of) a global other than the registry's lock methods count as writes of it
					if sel, ok := x.Fun.(*ast.SelectorExpr); ok {
						if id := rootIdent(sel.X); id != nil {
							t := ""
							if global(id) {
								t = id.Name
							} else if a, ok := alias[id.Name]; ok {
								t = a
							}
							if t != "" {
								switch sel.Sel.Name {
								case "Lock", "Unlock", "RLock", "RUnlock":
								default:
									writes[t] = true
								}
							}
						}
					}
				case *ast.Ident:
					if global(x) {
						reads[x.Name] = true
					}
				}
				return true
			})
			ff := fnFoot{Pkg: pkgShort, Name: name}
			for k := range reads {
				ff.Reads = append(ff.Reads, k)
			}
			for k := range writes {
				ff.Writes = append(ff.Writes, k)
			}
			for k := range calls {
				ff.Calls = append(ff.Calls, k)
			}
			sort.Strings(ff.Reads)
			sort.Strings(ff.Writes)
			sort.Strings(ff.Calls)
			out = append(out, ff)
		}
	}
	sort.Slice(out, func(i, j int) bool { return out[i].Name < out[j].Name })
	return out
}

func coqStrList(l []string) string {
	var p []string
	for _, s := range l {
		ok := true
		for _, r := range s {
			if r < 32 || r > 126 || r == '"' {
				ok = false
			}
		}
		if !ok {
			s = "?"
		}
		p = append(p, coqString(s))
	}
	return "[" + strings.Join(p, "; ") + "]"
}

func writeFootprint(root, path string) {
	var sb strings.Builder
	sb.WriteString("(* GENERATED by /verif/translator (footprint.go) from /repo on every run — do not edit, not committed.\n   For every function: package-level variables read, written (assignment, ++, delete, &, non-lock method call), functions called. *)\n")
	sb.WriteString("From Coq Require Import List Strings.String.\nImport ListNotations.\nImport Coq.Strings.String.StringSyntax.\nDelimit Scope string_scope with string.\n\n")
	sb.WriteString("Record foot := { f_pkg : string; f_name : string; f_reads : list string; f_writes : list string; f_calls : list string }.\n\n")
	dirs := [][2]string{{"codec", "codec"}, {"sse-bin/messages", "sse-bin"}, {"szse-bin/messages", "szse-bin"},
		{"bjse-trade-bin/messages", "bjse-trade-bin"}, {"risk-bin/messages", "risk-bin"}, {"sample-bin/messages", "sample-bin"}}
	var all []string
	n := 0
	for _, d := range dirs {
		for _, f := range footprintOfDir(root, d[0], d[1]) {
			all = append(all, fmt.Sprintf("  {| f_pkg := %s; f_name := %s; f_reads := %s; f_writes := %s; f_calls := %s |}",
				coqString(f.Pkg), coqString(f.Name), coqStrList(f.Reads), coqStrList(f.Writes), coqStrList(f.Calls)))
			n++
		}
	}
	sb.WriteString("Definition footprint : list foot := [\n" + strings.Join(all, ";\n") + "].\n")
	if err := os.WriteFile(path, []byte(sb.String()), 0o644); err != nil {
		panic(err)
	}
}

// digests of the text of every function of codec/ (comments and formatting excluded): lets the orchestrator notice
// that hand-modelled code changed since the model was reviewed and search deeper (it is NOT an obligation)
func writeDigests(root, path string) {
	dir := filepath.Join(root, "codec")
	ents, err := os.ReadDir(dir)
	if err != nil {
		panic(err)
	}
	out := map[string]string{}
	for _, e := range ents {
		n := e.Name()
		if !strings.HasSuffix(n, ".go") || strings.HasSuffix(n, "_test.go") {
			continue
		}
		f, err := parser.ParseFile(fset, filepath.Join(dir, n), nil, 0)
		if err != nil {
			panic(terr{token.NoPos, err.Error()})
		}
		for _, d := range f.Decls {
			fd, ok := d.(*ast.FuncDecl)
			if !ok {
				continue
			}
			name := fd.Name.Name
			if fd.Recv != nil {
				_, rt, _ := recvOf(fd)
				name = rt + "." + name
			}
			// local variables, parameters and receivers are renamed v1, v2, ... in order of first appearance, so that a
			// mere renaming does not change the digest
			names := map[*ast.Object]string{}
			ast.Inspect(fd, func(x ast.Node) bool {
				if id, ok := x.(*ast.Ident); ok && id.Obj != nil && id.Obj.Kind == ast.Var && id.Obj.Pos() >= fd.Pos() && id.Obj.Pos() <= fd.End() {
					if _, seen := names[id.Obj]; !seen {
						names[id.Obj] = fmt.Sprintf("v%d", len(names)+1)
					}
					id.Name = names[id.Obj]
				}
				return true
			})
			var b bytes.Buffer
			printer.Fprint(&b, token.NewFileSet(), fd)
			out[n+":"+name] = fmt.Sprintf("%x", sha256.Sum256(b.Bytes()))
		}
	}
	js, _ := json.MarshalIndent(out, "", " ")
	if err := os.WriteFile(path, js, 0o644); err != nil {
		panic(err)
	}
}
