(* Props/C14.v — each named checksum algorithm computes its published definition on every input.
   Only statements, [exact], and Print Assumptions. *)
From FP.Model Require Import Checksum.
From FP.Theory Require Import SumFacts.
Local Open Scope N_scope.

(* SSE_BIN and SZSE_BIN: the sum of all bytes modulo 256, for every byte string, always in 0..255 *)
Theorem C14_sse_is_byte_sum_mod_256 : forall bs : list byte, sse_calc bs = byte_sum bs mod 256.
Proof. exact sse_calc_spec. Qed.
Theorem C14_szse_is_byte_sum_mod_256 : forall bs : list byte, szse_calc bs = byte_sum bs mod 256.
Proof. exact szse_calc_spec. Qed.
Theorem C14_sse_in_range : forall bs : list byte, sse_calc bs < 256.
Proof. exact sse_calc_range. Qed.
Theorem C14_szse_in_range : forall bs : list byte, szse_calc bs < 256.
Proof. exact szse_calc_range. Qed.
(* the signed 32-bit value the SZSE service returns is never negative *)
Theorem C14_szse_int32_in_range : forall bs : list byte, (0 <= szse_calc_z bs < 256)%Z.
Proof. exact szse_calc_z_range. Qed.

(* catalogue check values on "123456789" *)
Definition check_input : list byte := [x31; x32; x33; x34; x35; x36; x37; x38; x39].
Example C14_crc16_check_value : crc16_calc check_input = 19255 (* 0x4B37 *).
Proof. vm_compute. reflexivity. Qed.
Example C14_crc32_check_value : crc32_calc check_input = 3421780262 (* 0xCBF43926 *).
Proof. vm_compute. reflexivity. Qed.
(* non-vacuity: a concrete input with bytes >= 0x80 whose plain sum exceeds 255 *)
Example C14_sum_nonvacuous : sse_calc [xff; xff; x80; x01] = 127 /\ szse_calc [xff; xff; x80; x01] = 127.
Proof. vm_compute. split; reflexivity. Qed.

Print Assumptions C14_sse_is_byte_sum_mod_256.
Print Assumptions C14_szse_is_byte_sum_mod_256.
Print Assumptions C14_sse_in_range.
Print Assumptions C14_szse_in_range.
Print Assumptions C14_szse_int32_in_range.
