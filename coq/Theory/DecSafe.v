(* Theory/DecSafe.v — decoding arbitrary bytes returns a message or an error: never a panic, never
   an exhausted loop, never an undescribed case (C09); and a successful decode consumes a prefix of
   its input, at least the type's minimal size, leaving the rest untouched (used by C07, C10). *)
From FP.Theory Require Export FrameFacts ReadFacts.
From Coq Require Import ZifyBool ZifyNat ZifyN.
Local Open Scope N_scope.

Definition kind_msize (ms : N -> N) (k : kind) : N :=
  match k with
  | KPrim p _ => prim_msize p
  | KObjs _ cnt _ => N.of_nat (width cnt)
  | KCall _ _ _ (DPtr t) | KCall _ _ _ (DVal t) => ms t
  | KCall _ _ _ (DSel _ _) => 0
  end.
Definition kinds_msize (ms : N -> N) (ks : list kind) : N := fold_right (fun k a => kind_msize ms k + a) 0 ks.

Definition schema_kinds (s : schema) : list kind :=
  match s with SPlain ks => ks | SFrame hdr le tbl key sum => frame_kinds hdr le tbl key sum end.

Fixpoint msize_env (ss : list sdef) (t : N) : N :=
  match ss with
  | [] => 0
  | sd :: rest => if sd_id sd =? t then kinds_msize (msize_env rest) (schema_kinds (sd_schema sd)) else msize_env rest t
  end.

Definition key_kind (k : kind) : bool := match k with KPrim p _ => keyable p | _ => false end.

Section DS.
  Variable tables : list (N * table).
  Variable sdec : N -> list byte -> res (list value * list byte).
  Variable good : N -> bool.
  Variable ms : N -> N.
  Hypothesis Hsafe : forall t buf, good t = true -> ok_or_err (sdec t buf).
  Hypothesis Hcons : forall t buf fs r, sdec t buf = Ok (fs, r) -> exists pre, buf = pre ++ r /\ ms t <= lenN pre.

  Definition table_good (tbl : N) : bool :=
    match find_table tables tbl with Some t => forallb (fun e => good (snd e)) t | None => false end.

  (* [before]: the kinds of the fields already decoded *)
  Definition dkind_safe (before : list kind) (k : kind) : bool :=
    match k with
    | KPrim p _ => prim_dec_ok p
    | KObjs _ cnt t => small cnt && good t && (tiny cnt || (0 <? ms t))
    | KCall _ _ _ (DPtr t) | KCall _ _ _ (DVal t) => good t
    | KCall _ _ _ (DSel tbl key) =>
        table_good tbl && match nth_error before key with Some k' => key_kind k' | None => false end
    end.
  Fixpoint dkinds_safe (before : list kind) (ks : list kind) : bool :=
    match ks with [] => true | k :: r => dkind_safe before k && dkinds_safe (before ++ [k]) r end.

  Lemma table_lookup_in t k ty : table_lookup t k = Some ty -> In ty (map snd t).
  Proof.
    induction t as [|[k' ty'] r IH]; cbn [table_lookup map snd]; [discriminate|].
    destruct (table_lookup r k) as [ty''|] eqn:E.
    - intro H. inversion H; subst. right. apply IH. reflexivity.
    - destruct (tkey_eqb k' k); [|discriminate]. intro H. inversion H. left. reflexivity.
  Qed.

  Lemma slookup_good tbl kv ty : table_good tbl = true -> slookup tables tbl kv = Ok ty -> good ty = true.
  Proof.
    unfold table_good, slookup. destruct (key_of_value kv) as [k|]; cbn [bind]; [|discriminate].
    destruct (find_table tables tbl) as [t|]; [|discriminate].
    intros Hg H. destruct (table_lookup t k) as [ty'|] eqn:E; [|discriminate]. inversion H; subst.
    apply table_lookup_in in E. rewrite forallb_forall in Hg. apply in_map_iff in E. destruct E as [e [He Hin]].
    subst. apply Hg. exact Hin.
  Qed.

  Lemma parse_obj_safe t buf : good t = true -> ok_or_err (parse_obj sdec t buf).
  Proof.
    intro Hg. unfold parse_obj. destruct (Hsafe t buf Hg) as [[[fs r] E]|E]; rewrite E; cbn [bind];
      [left; eexists; reflexivity|right; reflexivity].
  Qed.
  Lemma parse_obj_consume t buf v r : parse_obj sdec t buf = Ok (v, r) -> exists pre, buf = pre ++ r /\ ms t <= lenN pre.
  Proof.
    unfold parse_obj. destruct (sdec t buf) as [[fs r']|] eqn:E; cbn [bind]; [|discriminate].
    intro H. inversion H; subst. eapply Hcons. exact E.
  Qed.

  (* values of key kinds are usable as table keys *)
  Definition shapes_ok (before : list kind) (done : list value) : Prop :=
    length before = length done /\
    forall i k v, nth_error before i = Some k -> nth_error done i = Some v -> key_kind k = true -> is_key_value v = true.

  Lemma shapes_snoc before done k v :
    shapes_ok before done -> (key_kind k = true -> is_key_value v = true) -> shapes_ok (before ++ [k]) (done ++ [v]).
  Proof.
    intros [Hl Hs] Hk. split; [rewrite !app_length; cbn; lia|].
    intros i k' v' Hb Hd Hkk. destruct (Nat.lt_ge_cases i (length before)) as [Hlt|Hge].
    - rewrite nth_error_app1 in Hb by exact Hlt. rewrite nth_error_app1 in Hd by lia. eapply Hs; eassumption.
    - rewrite nth_error_app2 in Hb by exact Hge. rewrite nth_error_app2 in Hd by lia. rewrite Hl in Hb.
      destruct (i - length done)%nat as [|j]; cbn in Hb, Hd; [|destruct j; discriminate].
      inversion Hb; inversion Hd; subst. apply Hk. exact Hkk.
  Qed.

  Lemma parse_kind_safe before done k buf :
    shapes_ok before done -> dkind_safe before k = true -> ok_or_err (parse_kind tables sdec done k buf).
  Proof.
    intros [Hl Hs] Hk. destruct k as [p prop|le cnt t|f g prop d]; cbn [dkind_safe parse_kind] in *.
    - apply r_prim_safe. exact Hk.
    - apply andb_true_iff in Hk. destruct Hk as [Hk Hnz]. apply andb_true_iff in Hk. destruct Hk as [Hsm Hg].
      assert (Hx : ok_or_err (read_list le cnt (parse_obj sdec t) buf)).
      { apply (read_list_safe (parse_obj sdec t) (fun b => parse_obj_safe t b Hg)
                 (fun b a r E => let (pre, H) := parse_obj_consume t b a r E in ex_intro _ pre (proj1 H)) (0 <? ms t) le cnt buf Hsm).
        - apply orb_true_iff in Hnz. exact Hnz.
        - intros Hz b a r E. destruct (parse_obj_consume t b a r E) as [pre [-> Hm]]. apply N.ltb_lt in Hz. rewrite lenN_app. lia. }
      destruct Hx as [[[l r] E]|E]; rewrite E; cbn [bind]; [left; eexists; reflexivity|right; reflexivity].
    - destruct d as [t|t|tbl key].
      + apply parse_obj_safe. exact Hk.
      + apply parse_obj_safe. exact Hk.
      + apply andb_true_iff in Hk. destruct Hk as [Htb Hkey].
        destruct (nth_error before key) as [k'|] eqn:Eb; [|discriminate].
        assert (Hlt : (key < length done)%nat) by (rewrite <- Hl; apply nth_error_Some; congruence).
        unfold get_field. destruct (nth_error done key) as [kv|] eqn:Ed; [|apply nth_error_None in Ed; lia].
        cbn [bind]. pose proof (Hs key k' kv Eb Ed Hkey) as Hkv.
        destruct (slookup tables tbl kv) as [ty|ff] eqn:El; cbn [bind].
        * apply parse_obj_safe. eapply slookup_good; eassumption.
        * right. unfold slookup in El. destruct kv; try discriminate; cbn [key_of_value bind] in El;
            unfold table_good in Htb; destruct (find_table tables tbl) as [tt|]; try discriminate;
            destruct (table_lookup tt _); inversion El; reflexivity.
  Qed.

  Lemma parse_kind_consume done k buf v r :
    parse_kind tables sdec done k buf = Ok (v, r) -> exists pre, buf = pre ++ r /\ kind_msize ms k <= lenN pre.
  Proof.
    destruct k as [p prop|le cnt t|f g prop d]; cbn [parse_kind kind_msize].
    - intro H. destruct (r_prim_consume _ _ _ _ H) as [pre ->]. exists pre. split; [reflexivity|].
      pose proof (r_prim_msize _ _ _ _ H) as Hm. rewrite lenN_app in Hm. lia.
    - destruct (read_list le cnt (parse_obj sdec t) buf) as [[l r']|] eqn:E; cbn [bind]; [|discriminate].
      intro H. inversion H; subst.
      assert (Hc : forall b a r0, parse_obj sdec t b = Ok (a, r0) -> exists pre, b = pre ++ r0).
      { intros b a r0 E0. destruct (parse_obj_consume _ _ _ _ E0) as [pre [Hp _]]. exists pre; exact Hp. }
      destruct (read_list_consume _ Hc _ _ _ _ _ E) as [pre ->]. exists pre. split; [reflexivity|].
      pose proof (read_list_msize _ _ _ _ _ _ Hc E) as Hm. rewrite lenN_app in Hm. lia.
    - destruct d as [t|t|tbl key].
      + apply parse_obj_consume.
      + apply parse_obj_consume.
      + destruct (get_field done key) as [kv|]; cbn [bind]; [|discriminate].
        destruct (slookup tables tbl kv) as [ty|]; cbn [bind]; [|discriminate].
        intro H. destruct (parse_obj_consume _ _ _ _ H) as [pre [Hp _]]. exists pre. split; [exact Hp|lia].
  Qed.

  Lemma parse_kind_shape done k buf v r :
    parse_kind tables sdec done k buf = Ok (v, r) -> key_kind k = true -> is_key_value v = true.
  Proof.
    destruct k as [p prop| |]; cbn [key_kind parse_kind]; try discriminate.
    intros H Hk. eapply r_prim_keyable; eassumption.
  Qed.

  Lemma parse_fields_safe ks : forall before done buf,
    shapes_ok before done -> dkinds_safe before ks = true -> ok_or_err (parse_fields tables sdec done ks buf).
  Proof.
    induction ks as [|k ks IH]; intros before done buf Hsh Hk; cbn [parse_fields].
    - left. eexists; reflexivity.
    - cbn [dkinds_safe] in Hk. apply andb_true_iff in Hk. destruct Hk as [Hk1 Hk2].
      destruct (parse_kind_safe before done k buf Hsh Hk1) as [[[v r] E]|E]; rewrite E; cbn [bind]; [|right; reflexivity].
      assert (Hsh' : shapes_ok (before ++ [k]) (done ++ [v])) by (apply shapes_snoc; [exact Hsh|eapply parse_kind_shape; exact E]).
      destruct (IH _ _ r Hsh' Hk2) as [[[vs r'] E2]|E2]; rewrite E2; cbn [bind]; [left; eexists; reflexivity|right; reflexivity].
  Qed.

  Lemma parse_fields_consume ks : forall done buf vs r,
    parse_fields tables sdec done ks buf = Ok (vs, r) -> exists pre, buf = pre ++ r /\ kinds_msize ms ks <= lenN pre.
  Proof.
    induction ks as [|k ks IH]; intros done buf vs r H; cbn [parse_fields] in H.
    - inversion H; subst. exists []. split; [reflexivity|cbn; lia].
    - destruct (parse_kind tables sdec done k buf) as [[v r1]|] eqn:E; cbn [bind] in H; [|discriminate].
      destruct (parse_fields tables sdec (done ++ [v]) ks r1) as [[vs' r2]|] eqn:E2; cbn [bind] in H; [|discriminate].
      inversion H; subst. destruct (parse_kind_consume _ _ _ _ _ E) as [p1 [-> H1]]. destruct (IH _ _ _ _ E2) as [p2 [-> H2]].
      exists (p1 ++ p2). split; [rewrite app_assoc; reflexivity|]. cbn [kinds_msize fold_right]. rewrite lenN_app.
      unfold kinds_msize in H2. lia.
  Qed.
End DS.

(* ---------------- the whole environment ---------------- *)
Fixpoint dec_safe_env (tables : list (N * table)) (ss : list sdef) : bool :=
  match ss with
  | [] => true
  | sd :: rest =>
      dkinds_safe tables (has_id rest) (msize_env rest) [] (schema_kinds (sd_schema sd)) && dec_safe_env tables rest
  end.

Lemma spec_dec_schema_kinds tables sdec s buf :
  spec_dec_schema tables sdec s buf = parse_fields tables sdec [] (schema_kinds s) buf.
Proof. destruct s; reflexivity. Qed.

Theorem dec_safe tables : forall ss, dec_safe_env tables ss = true ->
  forall t buf, has_id ss t = true ->
    ok_or_err (spec_dec_env tables ss t buf) /\
    (forall fs r, spec_dec_env tables ss t buf = Ok (fs, r) -> exists pre, buf = pre ++ r /\ msize_env ss t <= lenN pre).
Proof.
  induction ss as [|sd rest IH]; intros Hs t buf Ht; [discriminate|].
  cbn [dec_safe_env] in Hs. apply andb_true_iff in Hs. destruct Hs as [Hk Hrest].
  cbn [has_id] in Ht. cbn [spec_dec_env msize_env].
  assert (Hcons : forall t' b fs r, spec_dec_env tables rest t' b = Ok (fs, r) -> exists pre, b = pre ++ r /\ msize_env rest t' <= lenN pre).
  { intros t' b fs r E. destruct (has_id rest t') eqn:Eh.
    - exact (proj2 (IH Hrest t' b Eh) fs r E).
    - exfalso. clear - E Eh. induction rest as [|x rest IHr]; cbn [spec_dec_env has_id] in *; [discriminate|].
      apply orb_false_iff in Eh. destruct Eh as [E1 E2]. rewrite E1 in E. apply IHr; assumption. }
  destruct (sd_id sd =? t).
  - rewrite spec_dec_schema_kinds. split.
    + eapply parse_fields_safe with (before := []) (ms := msize_env rest) (good := has_id rest).
      * intros t' b Hg. exact (proj1 (IH Hrest t' b Hg)).
      * exact Hcons.
      * split; [reflexivity|]. intros i k v Hb. destruct i; discriminate.
      * exact Hk.
    + intros fs r E. exact (parse_fields_consume tables (spec_dec_env tables rest) (has_id rest) (msize_env rest)
               (fun t' b Hg => proj1 (IH Hrest t' b Hg)) Hcons _ _ _ _ _ E).
  - cbn [orb] in Ht. apply IH; assumption.
Qed.

(* consumption, without the known-type hypothesis: an unknown type never decodes successfully *)
Corollary dec_consume tables ss t buf fs r :
  dec_safe_env tables ss = true -> spec_dec_env tables ss t buf = Ok (fs, r) ->
  exists pre, buf = pre ++ r /\ msize_env ss t <= lenN pre.
Proof.
  intros Hs E. destruct (has_id ss t) eqn:Eh.
  - exact (proj2 (dec_safe tables ss Hs t buf Eh) fs r E).
  - exfalso. clear Hs. induction ss as [|x rest IH]; cbn [spec_dec_env has_id] in *; [discriminate|].
    apply orb_false_iff in Eh. destruct Eh as [E1 E2]. rewrite E1 in E. apply IH; assumption.
Qed.
