(* Props/C14.v — each named checksum algorithm computes its published definition on every input.
   Only statements, [exact], and Print Assumptions. *)
From FP.Model Require Import Checksum.
From FP.Theory Require Import SumFacts.
Local Open Scope N_scope.

(* SSE_BIN and SZSE_BIN: the sum of all bytes modulo 256, for every byte string, always in 0..255 *)
Theorem C14_sse_is_byte_sum_mod_256 : forall bs : list byte, sse_calc bs = byte_sum bs mod 256.
Proof. exact sse_calc_spec. Qed.
Theorem C14_szse_is_byte_sum_mod_256 : forall bs : list byte, szse_calc bs = byte_sum bs mod 256.
Proof. exact szse_calc_spec. Qed.
Theorem C14_sse_in_range : forall bs : list byte, sse_calc bs < 256.
Proof. exact sse_calc_range. Qed.
Theorem C14_szse_in_range : forall bs : list byte, szse_calc bs < 256.
Proof. exact szse_calc_range. Qed.
(* the signed 32-bit value the SZSE service returns is never negative *)
Theorem C14_szse_int32_in_range : forall bs : list byte, (0 <= szse_calc_z bs < 256)%Z.
Proof. exact szse_calc_z_range. Qed.

(* the two CRC services compute the catalogue algorithms: the Rocksoft-model CRC (Spec/Rocksoft.v: a register shifted
   towards its top bit, input bytes reflected, polynomial subtracted when a one leaves, result reflected and xor-ed)
   with the parameters of CRC-16/MODBUS (width 16, poly 0x8005, init 0xFFFF, refin, refout, xorout 0) and of
   CRC-32 "IEEE" (width 32, poly 0x04C11DB7, init 0xFFFFFFFF, refin, refout, xorout 0xFFFFFFFF), bit for bit, for
   every byte string *)
From FP.Spec Require Import Rocksoft.
From FP.Theory Require Import CrcReflect.
Theorem C14_crc16_is_crc16_modbus : forall bs : list byte, bits 16 (crc16_calc bs) = rocksoft crc16_modbus (map byte_bits bs).
Proof. exact crc16_is_modbus. Qed.
Theorem C14_crc32_is_crc32_ieee : forall bs : list byte, bits 32 (crc32_calc bs) = rocksoft crc32_ieee (map byte_bits bs).
Proof. exact crc32_is_ieee. Qed.
(* the bit list determines the number: results are below 2^16 / 2^32 (CrcBound) and bits is injective there *)
Lemma nth_bits w x i : (i < w)%nat -> nth i (bits w x) false = N.testbit x (N.of_nat i).
Proof.
  induction w as [|w IH]; intro H; [lia|]. rewrite bits_snoc. destruct (Nat.eq_dec i w) as [->|Hne].
  - rewrite app_nth2 by (rewrite bits_length; lia). rewrite bits_length, Nat.sub_diag. reflexivity.
  - rewrite app_nth1 by (rewrite bits_length; lia). apply IH. lia.
Qed.
Lemma bits_inj w x y : x < 2 ^ N.of_nat w -> y < 2 ^ N.of_nat w -> bits w x = bits w y -> x = y.
Proof.
  intros Hx Hy H. apply N.bits_inj. intro i. destruct (N.lt_ge_cases i (N.of_nat w)) as [Hi|Hi].
  - assert (Hn : (N.to_nat i < w)%nat) by lia.
    pose proof (nth_bits w x _ Hn) as Ex. pose proof (nth_bits w y _ Hn) as Ey. rewrite N2Nat.id in Ex, Ey.
    rewrite <- Ex, <- Ey, H. reflexivity.
  - rewrite (testbit_above x (N.of_nat w) i Hx Hi), (testbit_above y (N.of_nat w) i Hy Hi). reflexivity.
Qed.
(* the specification on its own reproduces the catalogue's check values for "123456789" *)
Example C14_rocksoft_check_values :
  rocksoft crc16_modbus (map byte_bits [x31; x32; x33; x34; x35; x36; x37; x38; x39]) = bits 16 19255 (* 0x4B37 *) /\
  rocksoft crc32_ieee (map byte_bits [x31; x32; x33; x34; x35; x36; x37; x38; x39]) = bits 32 3421780262 (* 0xCBF43926 *).
Proof. vm_compute. split; reflexivity. Qed.

(* catalogue check values on "123456789" *)
Definition check_input : list byte := [x31; x32; x33; x34; x35; x36; x37; x38; x39].
Example C14_crc16_check_value : crc16_calc check_input = 19255 (* 0x4B37 *).
Proof. vm_compute. reflexivity. Qed.
Example C14_crc32_check_value : crc32_calc check_input = 3421780262 (* 0xCBF43926 *).
Proof. vm_compute. reflexivity. Qed.
(* non-vacuity: a concrete input with bytes >= 0x80 whose plain sum exceeds 255 *)
Example C14_sum_nonvacuous : sse_calc [xff; xff; x80; x01] = 127 /\ szse_calc [xff; xff; x80; x01] = 127.
Proof. vm_compute. split; reflexivity. Qed.

Print Assumptions C14_sse_is_byte_sum_mod_256.
Print Assumptions C14_szse_is_byte_sum_mod_256.
Print Assumptions C14_sse_in_range.
Print Assumptions C14_szse_in_range.
Print Assumptions C14_szse_int32_in_range.
Print Assumptions C14_crc16_is_crc16_modbus.
Print Assumptions C14_crc32_is_crc32_ieee.
