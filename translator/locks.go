package main

// locks.go — the lock skeleton of codec.Registry / Get / Remove / Clear, statement by statement, as a
// Model/Locks.v `prog` (coq/Gen/Locks.v).  Nothing here recognises "a critical section": every lock call, every
// deferred unlock, every access to the registry map and every return becomes one instruction, in program
// order; whether that program is well locked is decided in Coq.  Anything outside the grammar is an error
// (the C19 obligation is then reported broken).

import (
	"bytes"
	"fmt"
	"go/ast"
	"go/parser"
	"go/printer"
	"go/token"
	"os"
	"path/filepath"
	"strings"
)

// the registry: the package-level variable holding (a pointer to) a struct with one sync mutex field and one map field;
// found by shape, so that renaming it or its fields changes nothing
var regVar, regMu, regCache = "checksumServiceContext", "mu", "cache"

func findRegistry(f *ast.File) {
	structs := map[string][2]string{} // type name -> (mutex field, map field)
	for _, d := range f.Decls {
		gd, ok := d.(*ast.GenDecl)
		if !ok || gd.Tok != token.TYPE {
			continue
		}
		for _, sp := range gd.Specs {
			ts := sp.(*ast.TypeSpec)
			st, ok := ts.Type.(*ast.StructType)
			if !ok {
				continue
			}
			mu, mp, n := "", "", 0
			for _, fl := range st.Fields.List {
				for _, nm := range fl.Names {
					n++
					switch t := fl.Type.(type) {
					case *ast.SelectorExpr:
						if exprStr(t) == "sync.RWMutex" || exprStr(t) == "sync.Mutex" {
							mu = nm.Name
						}
					case *ast.MapType:
						mp = nm.Name
					}
				}
			}
			if mu != "" && mp != "" && n == 2 {
				structs[ts.Name.Name] = [2]string{mu, mp}
			}
		}
	}
	for _, d := range f.Decls {
		gd, ok := d.(*ast.GenDecl)
		if !ok || gd.Tok != token.VAR {
			continue
		}
		for _, sp := range gd.Specs {
			vs := sp.(*ast.ValueSpec)
			if len(vs.Names) != 1 || len(vs.Values) != 1 {
				continue
			}
			v := vs.Values[0]
			if u, ok := v.(*ast.UnaryExpr); ok && u.Op == token.AND {
				v = u.X
			}
			if cl, ok := v.(*ast.CompositeLit); ok {
				if id, ok := cl.Type.(*ast.Ident); ok {
					if fs, ok := structs[id.Name]; ok {
						regVar, regMu, regCache = vs.Names[0].Name, fs[0], fs[1]
					}
				}
			}
		}
	}
}

type lockFn struct {
	name    string
	keyExpr string // the expression that names the call's key
	valExpr string // the expression stored by a registration
	lookVal string // local bound to the looked-up value ("" or "_")
	lookOk  string // local bound to the found flag
	void    bool
}

// source text of an expression (exprStr abbreviates call arguments)
func srcStr(e ast.Expr) string {
	var b bytes.Buffer
	if err := printer.Fprint(&b, fset, e); err != nil {
		return "?"
	}
	return b.String()
}

func lerr(n ast.Node, f string, a ...any) {
	panic(terr{n.Pos(), "locks: " + fmt.Sprintf(f, a...)})
}

func isRegSel(e ast.Expr, field string) bool {
	s, ok := e.(*ast.SelectorExpr)
	if !ok || s.Sel.Name != field {
		return false
	}
	id, ok := s.X.(*ast.Ident)
	return ok && id.Name == regVar
}

// X.mu.<m>()
func lockCall(e ast.Expr) (string, bool) {
	c, ok := e.(*ast.CallExpr)
	if !ok || len(c.Args) != 0 {
		return "", false
	}
	s, ok := c.Fun.(*ast.SelectorExpr)
	if !ok || !isRegSel(s.X, regMu) {
		return "", false
	}
	return s.Sel.Name, true
}

func mentionsReg(n ast.Node) bool {
	found := false
	ast.Inspect(n, func(x ast.Node) bool {
		if id, ok := x.(*ast.Ident); ok && id.Name == regVar {
			found = true
		}
		return true
	})
	return found
}

func (f *lockFn) lookup(x *ast.AssignStmt) bool {
	if x.Tok != token.DEFINE || len(x.Lhs) != 2 || len(x.Rhs) != 1 {
		return false
	}
	ix, ok := x.Rhs[0].(*ast.IndexExpr)
	if !ok || !isRegSel(ix.X, regCache) {
		return false
	}
	if srcStr(ix.Index) != f.keyExpr {
		lerr(x, "%s looks up key %s, not the call's key %s", f.name, srcStr(ix.Index), f.keyExpr)
	}
	f.lookVal = x.Lhs[0].(*ast.Ident).Name
	f.lookOk = x.Lhs[1].(*ast.Ident).Name
	return true
}

func (f *lockFn) ret(x *ast.ReturnStmt) string {
	var rs []string
	for _, r := range x.Results {
		rs = append(rs, exprStr(r))
	}
	switch f.name {
	case "Registry":
		if len(rs) == 1 && (rs[0] == "true" || rs[0] == "false") {
			return "PRet (XBool " + rs[0] + ")"
		}
	case "Get":
		if len(rs) == 2 && rs[0] == "nil" && rs[1] == "false" {
			return "PRet XNone"
		}
		if len(rs) == 2 && f.lookVal != "" && f.lookVal != "_" && rs[0] == f.lookVal && rs[1] == f.lookOk {
			return "PRet XLocal"
		}
	default:
		if len(rs) == 0 {
			return "PRet XUnit"
		}
	}
	lerr(x, "%s: return %s outside the grammar", f.name, strings.Join(rs, ", "))
	return ""
}

// translate stmts; rest is the program run when control falls off their end ("" = impossible)
func (f *lockFn) block(stmts []ast.Stmt, rest string) string {
	if len(stmts) == 0 {
		if rest == "" {
			panic(terr{token.NoPos, "locks: " + f.name + ": control reaches the end of a value-returning function"})
		}
		return rest
	}
	s := stmts[0]
	tail := func() string { return f.block(stmts[1:], rest) }
	switch x := s.(type) {
	case *ast.ExprStmt:
		if m, ok := lockCall(x.X); ok {
			switch m {
			case "Lock":
				return "PLock Excl (" + tail() + ")"
			case "RLock":
				return "PLock Shared (" + tail() + ")"
			case "Unlock":
				return "PUnlock Excl (" + tail() + ")"
			case "RUnlock":
				return "PUnlock Shared (" + tail() + ")"
			}
			lerr(x, "mutex method %s", m)
		}
		if c, ok := x.X.(*ast.CallExpr); ok && exprStr(c.Fun) == "delete" && len(c.Args) == 2 && isRegSel(c.Args[0], regCache) {
			if srcStr(c.Args[1]) != f.keyExpr {
				lerr(x, "%s deletes key %s, not the call's key %s", f.name, srcStr(c.Args[1]), f.keyExpr)
			}
			return "PDelete (" + tail() + ")"
		}
	case *ast.DeferStmt:
		if m, ok := lockCall(x.Call); ok {
			switch m {
			case "Unlock":
				return "PDefer Excl (" + tail() + ")"
			case "RUnlock":
				return "PDefer Shared (" + tail() + ")"
			}
		}
	case *ast.AssignStmt:
		if f.lookup(x) {
			return "PLookup (" + tail() + ")"
		}
		if x.Tok == token.ASSIGN && len(x.Lhs) == 1 && len(x.Rhs) == 1 {
			if ix, ok := x.Lhs[0].(*ast.IndexExpr); ok && isRegSel(ix.X, regCache) {
				if srcStr(ix.Index) != f.keyExpr {
					lerr(x, "%s stores under key %s, not the call's key %s", f.name, srcStr(ix.Index), f.keyExpr)
				}
				if f.valExpr == "" || srcStr(x.Rhs[0]) != f.valExpr {
					lerr(x, "%s stores %s, not the registered service", f.name, exprStr(x.Rhs[0]))
				}
				return "PStore (" + tail() + ")"
			}
			if isRegSel(x.Lhs[0], regCache) {
				if c, ok := x.Rhs[0].(*ast.CallExpr); ok && exprStr(c.Fun) == "make" && len(c.Args) == 1 {
					return "PClear (" + tail() + ")"
				}
			}
		}
	case *ast.IfStmt:
		if x.Else != nil {
			lerr(x, "if/else")
		}
		pre := ""
		if x.Init != nil {
			as, ok := x.Init.(*ast.AssignStmt)
			if !ok || !f.lookup(as) {
				lerr(x, "if-initialiser outside the grammar")
			}
			pre = "PLookup ("
		}
		neg := false
		cond := x.Cond
		if u, ok := cond.(*ast.UnaryExpr); ok && u.Op == token.NOT {
			neg, cond = true, u.X
		}
		id, ok := cond.(*ast.Ident)
		if !ok || f.lookOk == "" || id.Name != f.lookOk {
			lerr(x, "condition %s is not the found flag of the preceding look-up", exprStr(x.Cond))
		}
		t := tail()
		body := f.block(x.Body.List, t)
		r := "PIfFound (" + body + ") (" + t + ")"
		if neg {
			r = "PIfFound (" + t + ") (" + body + ")"
		}
		if pre != "" {
			r = pre + r + ")"
		}
		return r
	case *ast.ReturnStmt:
		return f.ret(x)
	}
	if mentionsReg(s) {
		lerr(s, "%s: statement touching the registry outside the grammar", f.name)
	}
	lerr(s, "%s: statement outside the grammar", f.name)
	return ""
}

func writeLocks(root, path string) {
	f, err := parser.ParseFile(fset, filepath.Join(root, "codec", "checksum.go"), nil, 0)
	if err != nil {
		panic(terr{token.NoPos, err.Error()})
	}
	findRegistry(f)
	progs := map[string]string{}
	for _, d := range f.Decls {
		fd, ok := d.(*ast.FuncDecl)
		if !ok || fd.Recv != nil || fd.Body == nil {
			continue
		}
		param := ""
		if fd.Type.Params != nil && len(fd.Type.Params.List) == 1 && len(fd.Type.Params.List[0].Names) == 1 {
			param = fd.Type.Params.List[0].Names[0].Name
		}
		switch fd.Name.Name {
		case "Registry":
			// if cs, ok := service.(interface{ Algorithm() string }); ok { BODY }; REST
			if len(fd.Body.List) < 1 || param == "" {
				lerr(fd, "Registry: shape")
			}
			ifs, ok := fd.Body.List[0].(*ast.IfStmt)
			if !ok || ifs.Init == nil || ifs.Else != nil {
				lerr(fd, "Registry: does not start with the Algorithm() type assertion")
			}
			as, ok := ifs.Init.(*ast.AssignStmt)
			if !ok || as.Tok != token.DEFINE || len(as.Lhs) != 2 || len(as.Rhs) != 1 {
				lerr(ifs, "Registry: type assertion shape")
			}
			ta, ok := as.Rhs[0].(*ast.TypeAssertExpr)
			if !ok || exprStr(ta.X) != param || exprStr(ifs.Cond) != exprStr(as.Lhs[1]) {
				lerr(ifs, "Registry: type assertion shape")
			}
			cs := exprStr(as.Lhs[0])
			lf := &lockFn{name: "Registry", keyExpr: cs + ".Algorithm()", valExpr: param}
			bad := lf.block(fd.Body.List[1:], "")
			lf2 := &lockFn{name: "Registry", keyExpr: cs + ".Algorithm()", valExpr: param}
			progs["code_registry"] = lf2.block(ifs.Body.List, bad)
			progs["code_registry_bad"] = bad
		case "Get":
			if param == "" {
				lerr(fd, "Get: shape")
			}
			lf := &lockFn{name: "Get", keyExpr: param}
			progs["code_get"] = lf.block(fd.Body.List, "")
		case "Remove":
			if param == "" {
				lerr(fd, "Remove: shape")
			}
			lf := &lockFn{name: "Remove", keyExpr: param, void: true}
			progs["code_remove"] = lf.block(fd.Body.List, "PRet XUnit")
		case "Clear":
			lf := &lockFn{name: "Clear", keyExpr: "\x00", void: true}
			progs["code_clear"] = lf.block(fd.Body.List, "PRet XUnit")
		}
	}
	var sb strings.Builder
	sb.WriteString("(* GENERATED by /verif/translator (locks.go) from /repo/codec/checksum.go on every run — do not edit, not committed. *)\n")
	sb.WriteString("From Coq Require Import Strings.String.\nFrom FP.Model Require Import Locks.\n\n")
	fmt.Fprintf(&sb, "(* the package-level variable that holds the registry (found by its shape: a mutex and a map) *)\nDefinition registry_var : string := %s.\n\n", coqString(regVar))
	for _, n := range []string{"code_registry", "code_registry_bad", "code_get", "code_remove", "code_clear"} {
		p, ok := progs[n]
		if !ok {
			panic(terr{token.NoPos, "locks: function for " + n + " not found in codec/checksum.go"})
		}
		fmt.Fprintf(&sb, "Definition %s : prog :=\n  %s.\n", n, p)
	}
	if err := os.WriteFile(path, []byte(sb.String()), 0o644); err != nil {
		panic(err)
	}
}
