(* Theory/Select.v — discriminators pick the table's body type both ways; unknown ones are errors (C12). *)
From FP.Theory Require Export DecSafe.
From Coq Require Import ZifyBool ZifyNat ZifyN.
Local Open Scope N_scope.

Lemma nth_error_firstn_lt {A} (l : list A) : forall n i, (i < n)%nat -> nth_error (firstn n l) i = nth_error l i.
Proof.
  induction l as [|x l IH]; intros n i H; [rewrite firstn_nil; reflexivity|].
  destruct n; [lia|]. destruct i; [reflexivity|]. cbn [firstn nth_error]. apply IH. lia.
Qed.

Section Sel.
  Variable tables : list (N * table).
  Variable senc : N -> list value -> res (list value * list byte).
  Variable sdec : N -> list byte -> res (list value * list byte).
  Variable zero_rec : N -> option (list value).

  (* the type a table gives for the discriminator value [kv]; None when unregistered *)
  Definition selected (tbl : N) (kv : value) : option N :=
    match kv, find_table tables tbl with
    | VInt n, Some t => table_lookup t (TKNum n)
    | VStr s, Some t => table_lookup t (TKStr s)
    | _, _ => None
    end.

  Lemma slookup_selected tbl kv ty : slookup tables tbl kv = Ok ty -> selected tbl kv = Some ty.
  Proof.
    unfold slookup, selected. destruct kv; cbn [key_of_value bind]; try discriminate;
      destruct (find_table tables tbl) as [t|]; try discriminate;
      destruct (table_lookup t _) as [ty'|]; try discriminate; intro H; inversion H; reflexivity.
  Qed.
  Lemma slookup_unregistered tbl kv : selected tbl kv = None -> forall ty, slookup tables tbl kv <> Ok ty.
  Proof. intros H ty E. apply slookup_selected in E. congruence. Qed.

  (* ---- decode ---- *)
  Lemma parse_sel done f g p tbl key buf v r :
    parse_kind tables sdec done (KCall f g p (DSel tbl key)) buf = Ok (v, r) ->
    exists kv ty bfs, nth_error done key = Some kv /\ selected tbl kv = Some ty /\ v = VObj ty bfs /\ sdec ty buf = Ok (bfs, r).
  Proof.
    cbn [parse_kind]. unfold get_field. destruct (nth_error done key) as [kv|]; cbn [bind]; [|discriminate].
    destruct (slookup tables tbl kv) as [ty|] eqn:E; cbn [bind]; [|discriminate].
    unfold parse_obj. destruct (sdec ty buf) as [[bfs r']|] eqn:E2; cbn [bind]; [|discriminate].
    intro H. inversion H; subst. exists kv, ty, bfs. repeat split; try reflexivity. apply slookup_selected. exact E. exact E2.
  Qed.

  Lemma parse_sel_unregistered done f g p tbl key buf kv :
    nth_error done key = Some kv -> selected tbl kv = None ->
    forall r, parse_kind tables sdec done (KCall f g p (DSel tbl key)) buf <> Ok r.
  Proof.
    intros Hk Hs [v r] H. destruct (parse_sel _ _ _ _ _ _ _ _ _ H) as [kv' [ty [bfs [H1 [H2 _]]]]]. congruence.
  Qed.

  (* field i of a parse result was produced by the i-th kind, with the earlier fields as context *)
  Lemma parse_fields_nth ks : forall done buf vs r i k,
    parse_fields tables sdec done ks buf = Ok (vs, r) -> nth_error ks i = Some k ->
    exists v b r', nth_error vs i = Some v /\ parse_kind tables sdec (done ++ firstn i vs) k b = Ok (v, r').
  Proof.
    induction ks as [|k0 ks IH]; intros done buf vs r i k H Hi; [destruct i; discriminate|].
    cbn [parse_fields] in H.
    destruct (parse_kind tables sdec done k0 buf) as [[v0 r0]|] eqn:E; cbn [bind] in H; [|discriminate].
    destruct (parse_fields tables sdec (done ++ [v0]) ks r0) as [[vs' r1]|] eqn:E2; cbn [bind] in H; [|discriminate].
    inversion H; subst. destruct i as [|i]; cbn [nth_error] in Hi.
    - inversion Hi; subst. exists v0, buf, r0. cbn [firstn nth_error]. rewrite app_nil_r. split; [reflexivity|exact E].
    - destruct (IH _ _ _ _ _ _ E2 Hi) as [v [b [r' [Hn Hp]]]]. exists v, b, r'. cbn [nth_error firstn]. split; [exact Hn|].
      rewrite <- app_assoc in Hp. exact Hp.
  Qed.

  Lemma parse_fields_length ks : forall done buf vs r, parse_fields tables sdec done ks buf = Ok (vs, r) -> length vs = length ks.
  Proof.
    induction ks as [|k ks IH]; intros done buf vs r H; cbn [parse_fields] in H; [inversion H; reflexivity|].
    destruct (parse_kind tables sdec done k buf) as [[v0 r0]|]; cbn [bind] in H; [|discriminate].
    destruct (parse_fields tables sdec (done ++ [v0]) ks r0) as [[vs' r1]|] eqn:E2; cbn [bind] in H; [|discriminate].
    inversion H; subst. cbn [length]. rewrite (IH _ _ _ _ E2). reflexivity.
  Qed.

  Theorem parse_fields_selects ks buf vs r i f g p tbl key :
    parse_fields tables sdec [] ks buf = Ok (vs, r) ->
    nth_error ks i = Some (KCall f g p (DSel tbl key)) -> (key < i)%nat ->
    exists kv ty bfs, nth_error vs key = Some kv /\ selected tbl kv = Some ty /\ nth_error vs i = Some (VObj ty bfs).
  Proof.
    intros H Hi Hk. destruct (parse_fields_nth _ _ _ _ _ _ _ H Hi) as [v [b [r' [Hn Hp]]]]. cbn [app] in Hp.
    destruct (parse_sel _ _ _ _ _ _ _ _ _ Hp) as [kv [ty [bfs [H1 [H2 [-> _]]]]]].
    exists kv, ty, bfs. split; [|split; [exact H2|exact Hn]].
    rewrite nth_error_firstn_lt in H1 by exact Hk. exact H1.
  Qed.

  Theorem parse_fields_rejects_unregistered ks buf i f g p tbl key :
    nth_error ks i = Some (KCall f g p (DSel tbl key)) -> (key < i)%nat ->
    forall vs r, parse_fields tables sdec [] ks buf = Ok (vs, r) ->
    exists kv, nth_error vs key = Some kv /\ selected tbl kv <> None.
  Proof.
    intros Hi Hk vs r H. destruct (parse_fields_selects _ _ _ _ _ _ _ _ _ _ H Hi Hk) as [kv [ty [bfs [H1 [H2 _]]]]].
    exists kv. split; [exact H1|congruence].
  Qed.

  (* ---- encode: a body left out is filled in with the table's type ---- *)
  Lemma fill_selects done tbl key v1 :
    apply_fill tables zero_rec done (FTable tbl key) VNil = Ok v1 ->
    exists kv ty z, nth_error done key = Some kv /\ selected tbl kv = Some ty /\ v1 = VObj ty z.
  Proof.
    cbn [apply_fill]. unfold get_field. destruct (nth_error done key) as [kv|]; cbn [bind]; [|discriminate].
    destruct (slookup tables tbl kv) as [ty|] eqn:E; cbn [bind]; [|discriminate].
    unfold sfresh. destruct (zero_rec ty) as [z|]; [|discriminate]. intro H. inversion H.
    exists kv, ty, z. repeat split. apply slookup_selected. exact E.
  Qed.

  Lemma render_call_keeps_type g p t fs v' bs : render_call senc g p (VObj t fs) = Ok (v', bs) -> exists fs', v' = VObj t fs'.
  Proof.
    cbn [render_call]. destruct (senc t fs) as [[fs' b]|f]; [|destruct f; try discriminate; destruct p; discriminate].
    intro H. inversion H. eexists; reflexivity.
  Qed.

  Lemma render_sel_nil done g p d tbl key v' bs :
    render_kind tables senc zero_rec done (KCall (FTable tbl key) g p d) VNil = Ok (v', bs) ->
    exists kv ty bfs, nth_error done key = Some kv /\ selected tbl kv = Some ty /\ v' = VObj ty bfs.
  Proof.
    cbn [render_kind]. destruct (apply_fill tables zero_rec done (FTable tbl key) VNil) as [v1|] eqn:E; cbn [bind]; [|discriminate].
    destruct (fill_selects _ _ _ _ E) as [kv [ty [z [H1 [H2 ->]]]]]. intro H.
    destruct (render_call_keeps_type _ _ _ _ _ _ H) as [fs' ->]. exists kv, ty, fs'. repeat split; assumption.
  Qed.

  Lemma render_sel_unregistered done g p d tbl key kv :
    nth_error done key = Some kv -> selected tbl kv = None ->
    forall r, render_kind tables senc zero_rec done (KCall (FTable tbl key) g p d) VNil <> Ok r.
  Proof.
    intros Hk Hs [v' bs] H. destruct (render_sel_nil _ _ _ _ _ _ _ _ H) as [kv' [ty [bfs [H1 [H2 _]]]]]. congruence.
  Qed.

  Lemma render_fields_nth ks : forall done vs vs' bs i k,
    render_fields tables senc zero_rec done ks vs = Ok (vs', bs) -> nth_error ks i = Some k ->
    exists v v' b, nth_error vs i = Some v /\ nth_error vs' i = Some v' /\
                   render_kind tables senc zero_rec (done ++ firstn i vs') k v = Ok (v', b).
  Proof.
    induction ks as [|k0 ks IH]; intros done vs vs' bs i k H Hi; [destruct i; discriminate|].
    cbn [render_fields] in H. destruct vs as [|v0 vs]; [discriminate|].
    destruct (render_kind tables senc zero_rec done k0 v0) as [[v0' b0]|] eqn:E; cbn [bind] in H; [|discriminate].
    destruct (render_fields tables senc zero_rec (done ++ [v0']) ks vs) as [[rest b1]|] eqn:E2; cbn [bind] in H; [|discriminate].
    inversion H; subst. destruct i as [|i]; cbn [nth_error] in Hi.
    - inversion Hi; subst. exists v0, v0', b0. cbn [firstn nth_error]. rewrite app_nil_r. repeat split. exact E.
    - destruct (IH _ _ _ _ _ _ E2 Hi) as [v [v' [b [H1 [H2 H3]]]]]. exists v, v', b. cbn [nth_error firstn]. split; [exact H1|]. split; [exact H2|].
      rewrite <- app_assoc in H3. exact H3.
  Qed.

  Theorem render_fields_fills ks vs vs' bs i g p d tbl key :
    render_fields tables senc zero_rec [] ks vs = Ok (vs', bs) ->
    nth_error ks i = Some (KCall (FTable tbl key) g p d) -> (key < i)%nat -> nth_error vs i = Some VNil ->
    exists kv ty bfs, nth_error vs' key = Some kv /\ selected tbl kv = Some ty /\ nth_error vs' i = Some (VObj ty bfs).
  Proof.
    intros H Hi Hk Hv. destruct (render_fields_nth _ _ _ _ _ _ _ H Hi) as [v [v' [b [H1 [H2 H3]]]]]. cbn [app] in H3.
    rewrite Hv in H1. inversion H1; subst v.
    destruct (render_sel_nil _ _ _ _ _ _ _ _ H3) as [kv [ty [bfs [A [B ->]]]]].
    exists kv, ty, bfs. split; [|split; [exact B|exact H2]].
    rewrite nth_error_firstn_lt in A by exact Hk. exact A.
  Qed.
End Sel.

(* ---------- environment plumbing for the decode side ---------- *)
Lemma spec_dec_skip tables pre : forall rest t buf, has_id pre t = false ->
  spec_dec_env tables (pre ++ rest) t buf = spec_dec_env tables rest t buf.
Proof.
  induction pre as [|sd pre IH]; intros rest t buf H; cbn [app has_id spec_dec_env] in *; [reflexivity|].
  apply orb_false_iff in H. destruct H as [H1 H2]. rewrite H1. apply IH. exact H2.
Qed.

Lemma spec_dec_at tables pre sd rest buf :
  has_id pre (sd_id sd) = false ->
  spec_dec_env tables (pre ++ sd :: rest) (sd_id sd) buf =
  parse_fields tables (spec_dec_env tables rest) [] (schema_kinds (sd_schema sd)) buf.
Proof.
  intro H. rewrite spec_dec_skip by exact H. cbn [spec_dec_env]. rewrite N.eqb_refl. apply spec_dec_schema_kinds.
Qed.

(* every discriminator key is decoded before the body it selects; an encoder that fills a body in uses the
   same table and key as the decoder *)
Definition sel_kind_ok (i : nat) (k : kind) : bool :=
  match k with
  | KCall f _ _ d =>
      match d with
      | DSel tbl key =>
          Nat.ltb key i && match f with FTable tbl' key' => (tbl' =? tbl) && Nat.eqb key' key | FNew _ => false | FNone => true end
      | _ => match f with FTable _ _ => false | _ => true end
      end
  | _ => true
  end.
Fixpoint sel_ok_from (i : nat) (ks : list kind) : bool :=
  match ks with [] => true | k :: r => sel_kind_ok i k && sel_ok_from (S i) r end.
Definition sels_ok (ss : list sdef) : bool := forallb (fun sd => sel_ok_from 0 (schema_kinds (sd_schema sd))) ss.

Lemma sel_ok_nth_kind ks : forall i0 i k, sel_ok_from i0 ks = true -> nth_error ks i = Some k -> sel_kind_ok (i0 + i) k = true.
Proof.
  induction ks as [|k0 ks IH]; intros i0 i k H Hi; [destruct i; discriminate|].
  cbn [sel_ok_from] in H. apply andb_true_iff in H. destruct H as [H1 H2].
  destruct i as [|i]; cbn [nth_error] in Hi.
  - inversion Hi; subst. rewrite Nat.add_0_r. exact H1.
  - replace (i0 + S i)%nat with (S i0 + i)%nat by lia. apply IH; assumption.
Qed.

Lemma sel_ok_nth ks i f g p tbl key : sel_ok_from 0 ks = true -> nth_error ks i = Some (KCall f g p (DSel tbl key)) -> (key < i)%nat.
Proof.
  intros H Hi. pose proof (sel_ok_nth_kind ks 0 i _ H Hi) as Hk. cbn [sel_kind_ok Nat.add] in Hk.
  apply andb_true_iff in Hk. destruct Hk as [Hk _]. apply Nat.ltb_lt in Hk. exact Hk.
Qed.

Lemma fill_ok_nth ks i g p d tbl key : sel_ok_from 0 ks = true -> nth_error ks i = Some (KCall (FTable tbl key) g p d) ->
  d = DSel tbl key /\ (key < i)%nat.
Proof.
  intros H Hi. pose proof (sel_ok_nth_kind ks 0 i _ H Hi) as Hk. cbn [sel_kind_ok Nat.add] in Hk.
  destruct d as [t|t|tbl' key']; try discriminate.
  apply andb_true_iff in Hk. destruct Hk as [Hk Hf]. apply andb_true_iff in Hf. destruct Hf as [A B].
  apply N.eqb_eq in A. apply Nat.eqb_eq in B. apply Nat.ltb_lt in Hk. subst. split; [reflexivity|exact Hk].
Qed.
