(* Theory/EncTyped.v — Encode leaves a well-typed message well-typed (parts it fills in, the computed length and
   checksum included), so the result can be encoded again (C06 repeatability). *)
From FP.Theory Require Export DecTyped Idempotent.
From Coq Require Import ZifyBool ZifyNat ZifyN.
Local Open Scope N_scope.

Definition fill_fits (k : kind) : bool :=
  match k with
  | KCall (FNew t0) _ _ (DPtr t) | KCall (FNew t0) _ _ (DVal t) => t0 =? t
  | KCall (FTable _ _) _ _ (DPtr _) | KCall (FTable _ _) _ _ (DVal _) => false     (* a table fills interfaces only *)
  | _ => true
  end.

Section ET.
  Variable tables : list (N * table).
  Variable reg : registry.
  Variable senc : N -> list value -> res (list value * list byte).
  Variable zero_rec : N -> option (list value).
  Variable rec : N -> list value -> bool.
  Hypothesis Hty : forall t fs fs' bs, rec t fs = true -> senc t fs = Ok (fs', bs) -> rec t fs' = true.
  Hypothesis Hzero : forall t z, zero_rec t = Some z -> rec t z = true.
  Hypothesis Hcalc : forall name sv bs, reg_get reg name = Some sv -> calc (sv_alg sv) bs < bound (sv_rt sv).

  Notation rkind := (render_kind tables senc zero_rec).
  Notation rfields := (render_fields tables senc zero_rec).

  Lemma objs_typed tid : forall l l' bs, all_objs rec tid l = true -> render_objs senc tid l = Ok (l', bs) -> all_objs rec tid l' = true.
  Proof.
    induction l as [|v l IH]; intros l' bs Ht H; cbn [render_objs] in H.
    - inversion H; subst. reflexivity.
    - destruct v; try discriminate. destruct (t =? tid) eqn:Et; [|discriminate].
      destruct (senc t fs) as [[fs' b1]|] eqn:E; cbn [bind] in H; [|discriminate].
      destruct (render_objs senc tid l) as [[r' b2]|] eqn:E2; cbn [bind] in H; [|discriminate].
      inversion H; subst. unfold all_objs in *. cbn [forallb] in *. apply andb_true_iff in Ht. destruct Ht as [H1 H2].
      apply andb_true_iff in H1. destruct H1 as [_ Hr]. rewrite Et, (Hty _ _ _ _ Hr E), (IH _ _ H2 eq_refl). reflexivity.
  Qed.

  Lemma call_typed g0 prop v v' bs : render_call senc g0 prop v = Ok (v', bs) ->
    (match v with VObj t fs => rec t fs = true | _ => True end) ->
    match v, v' with VObj t _, VObj t' fs' => t' = t /\ rec t' fs' = true | VNil, VNil => True | _, _ => False end.
  Proof.
    destruct v; cbn [render_call]; try discriminate.
    - destruct (senc t fs) as [[fs' b]|f] eqn:E; [|destruct f; try discriminate; destruct prop; discriminate].
      intros H Hr. inversion H; subst. split; [reflexivity|exact (Hty _ _ _ _ Hr E)].
    - destruct g0; [discriminate|]. intros H _. inversion H; subst. exact I.
  Qed.

  Lemma kind_typed done g k v v' bs :
    kind_fits_type g k = true -> fill_fits k = true -> typed_in rec g v = true -> rkind done k v = Ok (v', bs) -> typed_in rec g v' = true.
  Proof.
    intros Hf Hfill Ht. destruct k as [p prop|l cnt t|f g0 prop d]; cbn [render_kind].
    - intro H. destruct (w_prim p v) as [b|ff]; [inversion H; subst; exact Ht|destruct ff; try discriminate; destruct prop; discriminate].
    - cbn [kind_fits_type] in Hf. destruct g; try discriminate. apply N.eqb_eq in Hf. subst t0.
      destruct v; try discriminate. cbn [typed_in] in Ht.
      destruct (length_prefix cnt (lenN l0)) as [n|]; cbn [bind]; [|discriminate].
      destruct (render_objs senc t l0) as [[l' b]|] eqn:E; cbn [bind]; [|discriminate].
      intro H. inversion H; subst. cbn [typed_in]. eapply objs_typed; eassumption.
    - destruct (apply_fill tables zero_rec done f v) as [v1|] eqn:Ef; cbn [bind]; [|discriminate].
      intro H.
      (* what the fill produced is typed at g *)
      assert (Ht1 : typed_in rec g v1 = true).
      { destruct f as [|t0|tbl key]; cbn [apply_fill] in Ef.
        - inversion Ef; subst. exact Ht.
        - destruct v; try (inversion Ef; subst; exact Ht).
          unfold sfresh in Ef. destruct (zero_rec t0) as [z|] eqn:Ez; [|discriminate]. inversion Ef; subst.
          cbn [kind_fits_type fill_fits] in *. destruct d as [t|t|tbl key]; destruct g; try discriminate; cbn [typed_in].
          + apply N.eqb_eq in Hf. apply N.eqb_eq in Hfill. subst. rewrite N.eqb_refl, (Hzero _ _ Ez). reflexivity.
          + exact (Hzero _ _ Ez).
        - destruct v; try (inversion Ef; subst; exact Ht).
          destruct (get_field done key) as [kv|]; cbn [bind] in Ef; [|discriminate].
          destruct (slookup tables tbl kv) as [ty|]; cbn [bind] in Ef; [|discriminate].
          unfold sfresh in Ef. destruct (zero_rec ty) as [z|] eqn:Ez; [|discriminate]. inversion Ef; subst.
          cbn [kind_fits_type fill_fits] in *. destruct d as [t|t|tbl' key']; destruct g; try discriminate; cbn [typed_in].
          exact (Hzero _ _ Ez). }
      pose proof (call_typed _ _ _ _ _ H) as Hc.
      destruct v1 as [? | ? | ? | ? | t1 fs1 | ? | ]; cbn [render_call] in H; try discriminate.
      + assert (Hr : rec t1 fs1 = true).
        { destruct g; cbn [typed_in] in Ht1; try discriminate; try (apply andb_true_iff in Ht1; destruct Ht1 as [_ X]; exact X); exact Ht1. }
        specialize (Hc Hr). destruct v' as [? | ? | ? | ? | t' fs' | ? | ]; try contradiction. destruct Hc as [-> Hr'].
        destruct g; cbn [typed_in] in *; try discriminate; try (apply andb_true_iff in Ht1; destruct Ht1 as [X _]; rewrite X, Hr'; reflexivity); exact Hr'.
      + specialize (Hc I). destruct v'; try contradiction. exact Ht1.
  Qed.

  Lemma fields_typed ks : forall done gs vs vs' bs,
    kinds_fit_types gs ks = true -> forallb fill_fits ks = true -> typed_fields rec gs vs = true ->
    rfields done ks vs = Ok (vs', bs) -> typed_fields rec gs vs' = true.
  Proof.
    induction ks as [|k ks IH]; intros done gs vs vs' bs Hf Hfill Ht H; cbn [render_fields] in H.
    - inversion H; subst. exact Ht.
    - destruct gs as [|g gs]; [discriminate|]. destruct vs as [|v vs0]; [discriminate|].
      cbn [kinds_fit_types forallb typed_fields] in *.
      apply andb_true_iff in Hf. destruct Hf as [Hf1 Hf2]. apply andb_true_iff in Hfill. destruct Hfill as [Hl1 Hl2].
      apply andb_true_iff in Ht. destruct Ht as [Ht1 Ht2].
      destruct (rkind done k v) as [[v' b1]|] eqn:E1; cbn [bind] in H; [|discriminate].
      destruct (rfields (done ++ [v']) ks vs0) as [[rest b2]|] eqn:E2; cbn [bind] in H; [|discriminate].
      inversion H; subst. cbn [typed_fields]. rewrite (kind_typed _ _ _ _ _ _ Hf1 Hl1 Ht1 E1), (IH _ _ _ _ _ Hf2 Hl2 Ht2 E2). reflexivity.
  Qed.

  Lemma fits_app : forall k1 gs k2, kinds_fit_types gs (k1 ++ k2) = true ->
    kinds_fit_types (firstn (length k1) gs) k1 = true /\ kinds_fit_types (skipn (length k1) gs) k2 = true.
  Proof.
    induction k1 as [|k k1 IH]; intros gs k2 H; cbn [app length firstn skipn] in *.
    - split; [reflexivity|exact H].
    - destruct gs as [|g gs]; [discriminate|]. cbn [kinds_fit_types firstn skipn] in *.
      apply andb_true_iff in H. destruct H as [H1 H2]. destruct (IH _ _ H2) as [A B]. rewrite H1, A. split; [reflexivity|exact B].
  Qed.

  Lemma typed_fields_app g1 g2 v1 v2 : typed_fields rec g1 v1 = true -> typed_fields rec g2 v2 = true -> typed_fields rec (g1 ++ g2) (v1 ++ v2) = true.
  Proof.
    revert v1. induction g1 as [|g g1 IH]; intros [|v v1]; cbn [typed_fields app]; try discriminate; [auto|].
    intros H1 H2. apply andb_true_iff in H1. destruct H1 as [A B]. rewrite A, (IH _ B H2). reflexivity.
  Qed.

  Theorem schema_typed s gs fs fs' bs :
    kinds_fit_types gs (schema_kinds s) = true -> forallb fill_fits (schema_kinds s) = true ->
    typed_fields rec gs fs = true ->
    spec_enc_schema tables reg senc zero_rec s fs = Ok (fs', bs) -> typed_fields rec gs fs' = true.
  Proof.
    destruct s as [ks|hdr le tbl key sum]; cbn [schema_kinds spec_enc_schema].
    - intros Hf Hfill Ht H. eapply fields_typed; eassumption.
    - intros Hf Hfill Ht. unfold frame_kinds in Hf, Hfill.
      destruct (fits_app _ _ _ Hf) as [Fh Frest]. rewrite forallb_app in Hfill. apply andb_true_iff in Hfill. destruct Hfill as [Lh _].
      destruct (typed_fields_split rec gs fs (length hdr) Ht) as [Th Trest].
      unfold render_frame.
      destruct (rfields [] hdr (firstn (length hdr) fs)) as [[hv hb]|] eqn:Ehdr; cbn [bind]; [|discriminate].
      destruct (skipn (length hdr) fs) as [|lenv [|body tl]] eqn:Esk; try discriminate.
      destruct (render_call senc GIfNotNil true body) as [[body' bb]|] eqn:Eb; cbn [bind]; [|discriminate].
      pose proof (fields_typed _ _ _ _ _ _ Fh Lh Th Ehdr) as Thv.
      rewrite <- (firstn_skipn (length hdr) gs).
      destruct (skipn (length hdr) gs) as [|gL [|gB gtl]] eqn:Eg; cbn [kinds_fit_types] in Frest; rewrite ?andb_false_r in Frest; try discriminate.
      cbn [typed_fields] in Trest. apply andb_true_iff in Trest. destruct Trest as [_ Trest]. apply andb_true_iff in Trest. destruct Trest as [TB Ttl].
      apply andb_true_iff in Frest. destruct Frest as [FL Frest]. apply andb_true_iff in Frest. destruct Frest as [FB Fsum].
      (* the length slot is a uint32; the body stays typed *)
      assert (TL : typed_in rec gL (VInt (u32_of_len (lenN bb))) = true).
      { cbn [kind_fits_type prim_fits_type] in FL. destruct gL; try discriminate. destruct t; try discriminate. cbn [typed_in].
        apply N.ltb_lt. unfold u32_of_len. cbn [bound width]. apply N.mod_lt. discriminate. }
      assert (TB' : typed_in rec gB body' = true).
      { cbn [kind_fits_type] in FB. destruct gB; try discriminate. pose proof (call_typed _ _ _ _ _ Eb) as Hc.
        destruct body as [? | ? | ? | ? | t1 fs1 | ? | ]; cbn [render_call] in Eb; try discriminate.
        - cbn [typed_in] in TB. specialize (Hc TB). destruct body'; try contradiction. cbn [typed_in]. tauto.
        - specialize (Hc I). destruct body'; try contradiction. reflexivity. }
      destruct sum as [ss|].
      + destruct tl as [|oldv tl']; [discriminate|].
        destruct gtl as [|gS gtl']; cbn [kinds_fit_types] in Fsum; [discriminate|].
        apply andb_true_iff in Fsum. destruct Fsum as [FS Fnil]. destruct gtl'; [|discriminate].
        cbn [typed_fields] in Ttl. apply andb_true_iff in Ttl. destruct Ttl as [TS Ttl'].
        set (fr := hb ++ int_bytes (ord le) 4 (u32_of_len (lenN bb)) ++ bb).
        destruct (match reg_get reg (ss_name ss) with
                  | Some sv => if ity_eqb (sv_rt sv) (ss_rt ss) then Ok (VInt (calc (sv_alg sv) fr)) else Fail FPanic
                  | None => Ok oldv end) as [c|] eqn:Ec; cbn [bind]; [|discriminate].
        destruct (w_prim (PBasic (ss_le ss) (ss_rt ss)) c) as [tb|] eqn:Ew; [|discriminate].
        intro H. inversion H; subst fs' bs.
        apply typed_fields_app; [exact Thv|]. cbn [typed_fields]. rewrite TL, TB'. cbn [andb].
        assert (TC : typed_in rec gS c = true).
        { destruct (reg_get reg (ss_name ss)) as [sv|] eqn:Er; [|inversion Ec; subst; exact TS].
          destruct (ity_eqb_spec (sv_rt sv) (ss_rt ss)) as [Eq|]; [|discriminate]. inversion Ec; subst c.
          cbn [kind_fits_type prim_fits_type] in FS. destruct gS; try discriminate.
          destruct (ity_eqb_spec (ss_rt ss) t) as [<-|]; [|discriminate]. cbn [typed_in]. apply N.ltb_lt. rewrite <- Eq. eapply Hcalc. exact Er. }
        rewrite TC. exact Ttl'.
      + destruct gtl; [|discriminate]. intro H. inversion H; subst fs' bs.
        apply typed_fields_app; [exact Thv|]. cbn [typed_fields]. rewrite TL, TB'. exact Ttl.
  Qed.
End ET.

Fixpoint fills_ok_env (ss : list sdef) : bool :=
  match ss with [] => true | sd :: rest => forallb fill_fits (schema_kinds (sd_schema sd)) && fills_ok_env rest end.

Theorem enc_typed tables reg :
  (forall name sv bs, reg_get reg name = Some sv -> calc (sv_alg sv) bs < bound (sv_rt sv)) ->
  forall ss, types_ok_env ss = true -> fills_ok_env ss = true ->
  forall t fs fs' bs, typed_env (sigs_of_sdefs ss) t fs = true -> spec_enc_env tables reg ss t fs = Ok (fs', bs) ->
  typed_env (sigs_of_sdefs ss) t fs' = true.
Proof.
  intros Hcalc. induction ss as [|sd rest IH]; intros Hty Hfl t fs fs' bs Ht H; [discriminate|].
  cbn [types_ok_env] in Hty. apply andb_true_iff in Hty. destruct Hty as [Hk Hty].
  cbn [fills_ok_env] in Hfl. apply andb_true_iff in Hfl. destruct Hfl as [Hf Hfl].
  cbn [sigs_of_sdefs map typed_env spec_enc_env] in *. destruct (sd_id sd =? t); [|exact (IH Hty Hfl _ _ _ _ Ht H)].
  eapply schema_typed; [| | |exact Hk|exact Hf|exact Ht|exact H].
  - intros t0 f0 f0' b0 Hr E. exact (IH Hty Hfl _ _ _ _ Hr E).
  - intros t0 z Hz. apply zero_sig_typed. exact Hz.
  - exact Hcalc.
Qed.
