(* Props/C03.v — one byte order per protocol: every multi-byte integer of a message uses it. *)
From FP.Props Require Import Common.
From FP.Theory Require Import Uniform.
From FP.Pinned Require Import Pinned.
Local Open Scope N_scope.

(* ---- every codec primitive with a big/little-endian pair, every prefix and element type, every value ---- *)
(* a writer's output is an order-free token stream (integers of a width, raw bytes) rendered in its order *)
Theorem C03_writer_is_token_stream : forall p v bs,
  w_prim p v = Ok bs <-> exists ts, tokens_prim p v = Some ts /\ bs = flatten (ord (prim_le p)) ts.
Proof. exact w_prim_tokens. Qed.
(* the little-endian variant emits exactly the big-endian variant's bytes with each integer's bytes reversed
   and nothing else changed ... *)
Theorem C03_le_is_be_with_each_integer_reversed : forall p v b_be b_le,
  w_prim (set_le false p) v = Ok b_be -> w_prim (set_le true p) v = Ok b_le ->
  exists ts, b_be = flatten BE ts /\ b_le = reverse_ints ts.
Proof. exact le_variant_is_be_with_ints_reversed. Qed.
(* ... and both variants accept the same values *)
Theorem C03_variants_accept_same_values : forall p v,
  (exists b, w_prim (set_le false p) v = Ok b) <-> (exists b, w_prim (set_le true p) v = Ok b).
Proof. exact variants_accept_the_same_values. Qed.

(* ---- every message type ---- *)
Definition order_of (proto : N) : bool :=
  match find (fun x => fst (fst (fst x)) =? proto) pinned_protocols with Some (_, _, le, _) => le | None => false end.

(* every order slot of every type - scalar fields, list counts, list elements, text length prefixes, the frame's
   computed length and checksum - equals the pinned order of the type's protocol (BSE, sample: little-endian;
   SSE, SZSE, risk and the hand-written sample types: big-endian).  Single bytes and fixed text have no order. *)
Definition uniform_all : bool :=
  (length schemas =? length pinned_layouts)%nat &&
  forallb (fun '(sd, lt) => (sd_id sd =? lt_id lt) && schema_order_ok (order_of (lt_proto lt)) (sd_schema sd)) (combine schemas pinned_layouts).
Lemma H_uniform : uniform_all = true.
Proof. vm_compute. reflexivity. Qed.

(* so every primitive field of every message is its token stream rendered in the protocol's order *)
Theorem C03_field_bytes_in_protocol_order : forall sd lt p pr v bs,
  In (sd, lt) (combine schemas pinned_layouts) -> In (KPrim p pr) (schema_kinds (sd_schema sd)) ->
  w_prim p v = Ok bs ->
  exists ts, tokens_prim p v = Some ts /\ bs = flatten (ord (order_of (lt_proto lt))) ts.
Proof.
  intros sd lt p pr v bs Hin Hk Hw.
  pose proof H_uniform as Hu. unfold uniform_all in Hu. apply andb_true_iff in Hu. destruct Hu as [_ Hu].
  rewrite forallb_forall in Hu. specialize (Hu (sd, lt) Hin). cbn beta iota in Hu.
  apply andb_true_iff in Hu. destruct Hu as [_ Hu]. unfold schema_order_ok in Hu. rewrite forallb_forall in Hu.
  specialize (Hu _ Hk). cbn [kind_order_ok] in Hu. eapply prim_bytes_in_protocol_order; eassumption.
Qed.

(* non-vacuity: the defects found on the pinned tree, as values: a little-endian u16-counted list of u32 *)
Example C03_nonvacuous :
  w_prim (PBasicList true U16 U32) (VInts [16909060; 5]) = Ok [x02; x00; x04; x03; x02; x01; x05; x00; x00; x00] /\
  w_prim (PBasicList false U16 U32) (VInts [16909060; 5]) = Ok [x00; x02; x01; x02; x03; x04; x00; x00; x00; x05] /\
  order_of 3 = true /\ order_of 0 = false.
Proof. vm_compute. repeat split; reflexivity. Qed.

Print Assumptions C03_writer_is_token_stream.
Print Assumptions C03_le_is_be_with_each_integer_reversed.
Print Assumptions C03_variants_accept_same_values.
Print Assumptions C03_field_bytes_in_protocol_order.
