(* Theory/CostBound.v — what a decoder allocates is bounded by a constant of the type plus a constant multiple
   of the number of input bytes present; and when it succeeds, of the number of bytes it consumed (C10). *)
From FP.Model Require Export Cost.
From FP.Theory Require Export DecSafe.
From Coq Require Import ZifyBool ZifyNat ZifyN.
Local Open Scope N_scope.

(* ---- counted loops ---- *)
Section LoopCost.
  Context {A : Type}.
  Variable rd : list byte -> res (A * list byte).
  Variable rdc : list byte -> N.
  Variables Se Ke ms slot : N.
  Hypothesis HA : forall b, rdc b <= Se + Ke * lenN b.
  Hypothesis HB : forall b a r, rd b = Ok (a, r) -> exists pre, b = pre ++ r /\ ms <= lenN pre /\ rdc b <= Se + Ke * lenN pre.

  Let E := 2 * slot + Se.
  Let it := fun b => 2 * slot + rdc b.

  Lemma loop_cost_count fuel : forall cnt buf, read_n_cost rd it fuel cnt buf <= E * cnt + Ke * lenN buf.
  Proof.
    induction fuel as [|fuel IH]; intros cnt buf; cbn [read_n_cost]; destruct (N.eqb_spec cnt 0); try lia.
    unfold it at 1. destruct (rd buf) as [[a r]|] eqn:Er.
    - destruct (HB _ _ _ Er) as [pre [-> [_ Hc]]]. specialize (IH (N.pred cnt) r). rewrite lenN_app. unfold E in *. nia.
    - pose proof (HA buf). unfold E. nia.
  Qed.

  (* static cost of one iteration, spread over the bytes an element occupies at least *)
  Let R := (E + ms - 1) / ms.
  Lemma R_covers : 1 <= ms -> E <= R * ms.
  Proof.
    intro Hm. unfold R. pose proof (N.div_mod' (E + ms - 1) ms). pose proof (N.mod_upper_bound (E + ms - 1) ms ltac:(lia)). nia.
  Qed.

  Lemma loop_cost_bytes fuel : 1 <= ms -> forall cnt buf, read_n_cost rd it fuel cnt buf <= E + (R + Ke) * lenN buf.
  Proof.
    intro Hms. pose proof (R_covers Hms) as HR.
    induction fuel as [|fuel IH]; intros cnt buf; cbn [read_n_cost]; destruct (N.eqb_spec cnt 0); try lia.
    unfold it at 1. destruct (rd buf) as [[a r]|] eqn:Er.
    - destruct (HB _ _ _ Er) as [pre [-> [Hm Hc]]]. specialize (IH (N.pred cnt) r). rewrite lenN_app.
      pose proof (N.mul_le_mono_l _ _ R Hm). rewrite ?N.mul_add_distr_r, ?N.mul_add_distr_l in *. lia.
    - pose proof (HA buf). rewrite ?N.mul_add_distr_r. lia.
  Qed.

  Lemma loop_cost_ok fuel : forall cnt buf l rest, read_n rd fuel cnt buf = Ok (l, rest) ->
    exists pre, buf = pre ++ rest /\ cnt * ms <= lenN pre /\ read_n_cost rd it fuel cnt buf <= E * cnt + Ke * lenN pre.
  Proof.
    induction fuel as [|fuel IH]; intros cnt buf l rest H; cbn [read_n read_n_cost] in *.
    - destruct (N.eqb_spec cnt 0); [|discriminate]. inversion H; subst. exists []. cbn. repeat split; lia.
    - destruct (N.eqb_spec cnt 0); [inversion H; subst; exists []; cbn; repeat split; lia|].
      unfold it at 1. destruct (rd buf) as [[a r]|] eqn:Er; cbn [bind] in H; [|discriminate].
      destruct (read_n rd fuel (N.pred cnt) r) as [[l' r']|] eqn:E2; cbn [bind] in H; [|discriminate].
      inversion H; subst. destruct (HB _ _ _ Er) as [p1 [-> [Hm Hc]]]. destruct (IH _ _ _ _ E2) as [p2 [-> [Hm2 Hc2]]].
      exists (p1 ++ p2). split; [rewrite app_assoc; reflexivity|]. rewrite lenN_app. unfold E in *. split; nia.
  Qed.

  (* the whole list reader *)
  Definition list_S (B : N) : N := c_scalar + c_hdr + (if 0 <? ms then E else (slot + E) * B).
  Definition list_K : N := if 0 <? ms then slot + R + Ke else Ke.

  Lemma list_cost_any le cnt buf : read_list_cost le cnt slot rd rdc buf <= list_S (bound cnt) + list_K * lenN buf.
  Proof.
    unfold read_list_cost, list_S, list_K. fold it.
    destruct (read_basic_cases le cnt buf) as [[a [r [Hl [Hb H]]]]|[_ H]]; rewrite H; [|destruct (0 <? ms); lia].
    assert (Hn : int_val (ord le) a < bound cnt) by (unfold bound; rewrite <- Hl; apply int_val_lt).
    destruct (wire_count (int_val (ord le) a)) as [n|] eqn:Ew; [|destruct (0 <? ms); lia].
    assert (n = int_val (ord le) a) by (unfold wire_count in Ew; destruct (_ <=? _); inversion Ew; reflexivity). subst n.
    subst buf. rewrite lenN_app. destruct (N.ltb_spec 0 ms).
    - pose proof (loop_cost_bytes (list_fuel (int_val (ord le) a) r) ltac:(lia) (int_val (ord le) a) r). nia.
    - pose proof (loop_cost_count (list_fuel (int_val (ord le) a) r) (int_val (ord le) a) r). nia.
  Qed.

  Lemma list_cost_ok le cnt buf l rest : read_list le cnt rd buf = Ok (l, rest) ->
    exists pre, buf = pre ++ rest /\ read_list_cost le cnt slot rd rdc buf <= list_S (bound cnt) + list_K * lenN pre.
  Proof.
    unfold read_list, read_list_cost, list_S, list_K. fold it.
    destruct (read_basic_cases le cnt buf) as [[a [r [Hl [Hb H]]]]|[_ H]]; rewrite H; cbn [bind]; [|discriminate].
    assert (Hn : int_val (ord le) a < bound cnt) by (unfold bound; rewrite <- Hl; apply int_val_lt).
    destruct (wire_count (int_val (ord le) a)) as [n|] eqn:Ew; cbn [bind]; [|discriminate].
    assert (n = int_val (ord le) a) by (unfold wire_count in Ew; destruct (_ <=? _); inversion Ew; reflexivity). subst n.
    intro Hr. destruct (loop_cost_ok _ _ _ _ _ Hr) as [p [-> [Hm Hc]]].
    exists (a ++ p). split; [rewrite Hb, app_assoc; reflexivity|]. rewrite (lenN_app a p).
    set (n := int_val (ord le) a) in *. set (c := read_n_cost rd it (list_fuel n (p ++ rest)) n (p ++ rest)) in *.
    assert (Hmin : N.min n (lenN (p ++ rest)) <= n) by lia.
    pose proof (N.mul_le_mono_l _ _ slot Hmin) as Hs.
    destruct (N.ltb_spec 0 ms) as [Hz|Hz].
    - assert (Hnp : n <= lenN p) by nia.
      pose proof (N.mul_le_mono_l _ _ slot Hnp).
      assert (HEn : E * n <= R * lenN p).
      { pose proof (R_covers ltac:(lia)) as HR. pose proof (N.mul_le_mono_r _ _ n HR). pose proof (N.mul_le_mono_l _ _ R Hm). nia. }
      rewrite ?N.mul_add_distr_r, ?N.mul_add_distr_l. lia.
    - pose proof (N.mul_le_mono_l _ _ slot (N.lt_le_incl _ _ Hn)). pose proof (N.mul_le_mono_l _ _ E (N.lt_le_incl _ _ Hn)).
      rewrite ?N.mul_add_distr_r, ?N.mul_add_distr_l. lia.
  Qed.
End LoopCost.

(* ---- primitives ---- *)
Definition prim_S (p : prim) : N :=
  match p with
  | PBasic _ _ => c_scalar
  | PFixed n _ _ => fixed_cost n
  | PString _ _ => c_scalar + c_hdr
  | PBasicList _ cnt elt => list_S c_scalar (N.of_nat (width elt)) (N.of_nat (width elt)) (bound cnt)
  | PFixedList _ cnt n _ _ => list_S (fixed_cost n) (N.of_nat n) 16 (bound cnt)
  | PStringList _ cnt len => list_S (c_scalar + c_hdr) (N.of_nat (width len)) 16 (bound cnt)
  | PObjList _ _ _ => 0
  end.
Definition prim_K (p : prim) : N :=
  match p with
  | PBasic _ _ | PFixed _ _ _ | PObjList _ _ _ => 0
  | PString _ _ => 2
  | PBasicList _ _ elt => list_K c_scalar 0 (N.of_nat (width elt)) (N.of_nat (width elt))
  | PFixedList _ _ n _ _ => list_K (fixed_cost n) 0 (N.of_nat n) 16
  | PStringList _ _ len => list_K (c_scalar + c_hdr) 2 (N.of_nat (width len)) 16
  end.

Lemma string_cost_any le t b : string_cost le t b <= (c_scalar + c_hdr) + 2 * lenN b.
Proof.
  unfold string_cost. destruct (read_basic_cases le t b) as [[a [r [Hl [Hb H]]]]|[_ H]]; rewrite H; [|lia].
  destruct (wire_count _) as [n|]; [|lia]. subst b. rewrite lenN_app. destruct (N.leb_spec n (lenN r)); lia.
Qed.

Lemma string_cost_ok le t b s r : read_string le t b = Ok (s, r) ->
  exists pre, b = pre ++ r /\ N.of_nat (width t) <= lenN pre /\ string_cost le t b <= (c_scalar + c_hdr) + 2 * lenN pre.
Proof.
  unfold read_string, string_cost. destruct (read_basic_cases le t b) as [[a [r0 [Hl [Hb H]]]]|[_ H]]; rewrite H; cbn [bind]; [|discriminate].
  destruct (wire_count _) as [n|]; cbn [bind]; [|discriminate].
  destruct (takeN n r0) as [[s' r']|] eqn:Et; [|discriminate]. intro E. inversion E; subst s' r'.
  apply takeN_spec in Et. destruct Et as [-> Hn].
  exists (a ++ s). split; [rewrite Hb, app_assoc; reflexivity|]. rewrite !lenN_app, (lenN_length a), Hl.
  split; [lia|]. destruct (n <=? lenN s + lenN r); lia.
Qed.

Lemma read_basic_ok_pre le t b n r : read_basic le t b = Ok (n, r) -> exists pre, b = pre ++ r /\ lenN pre = N.of_nat (width t).
Proof.
  intro H. destruct (read_basic_cases le t b) as [[a [r0 [Hl [Hb H']]]]|[_ H']]; rewrite H' in H; [|discriminate].
  inversion H; subst. exists a. split; [reflexivity|]. rewrite lenN_length, Hl. reflexivity.
Qed.

Theorem cost_prim_any p buf : cost_prim p buf <= prim_S p + prim_K p * lenN buf.
Proof.
  destruct p as [le t|n pad lf|le len|le cnt elt|le cnt n pad lf|le cnt len|le cnt t]; cbn [cost_prim prim_S prim_K]; try lia.
  - apply string_cost_any.
  - apply list_cost_any.
    + intros b. lia.
    + intros b a r H. destruct (read_basic_ok_pre _ _ _ _ _ H) as [pre [-> Hp]]. exists pre. repeat split; lia.
  - apply list_cost_any.
    + intros b. lia.
    + intros b a r H. destruct (read_fixed_consume _ _ _ _ _ _ H) as [pre [-> Hp]]. exists pre. rewrite lenN_length, Hp. repeat split; lia.
  - apply list_cost_any.
    + intros b. apply string_cost_any.
    + intros b a r H. destruct (string_cost_ok _ _ _ _ _ H) as [pre [-> [Hm Hc]]]. exists pre. repeat split; assumption.
Qed.

Theorem cost_prim_ok p buf v rest : r_prim p buf = Ok (v, rest) ->
  exists pre, buf = pre ++ rest /\ cost_prim p buf <= prim_S p + prim_K p * lenN pre.
Proof.
  destruct p as [le t|n pad lf|le len|le cnt elt|le cnt n pad lf|le cnt len|le cnt t]; cbn [r_prim cost_prim prim_S prim_K].
  - destruct (read_basic le t buf) as [[x r]|] eqn:E; cbn [bind]; [|discriminate]. intro H. inversion H; subst.
    destruct (read_basic_ok_pre _ _ _ _ _ E) as [pre [-> _]]. exists pre. split; [reflexivity|lia].
  - destruct (read_fixed n pad lf buf) as [[x r]|] eqn:E; cbn [bind]; [|discriminate]. intro H. inversion H; subst.
    destruct (read_fixed_consume _ _ _ _ _ _ E) as [pre [-> _]]. exists pre. split; [reflexivity|lia].
  - destruct (read_string le len buf) as [[x r]|] eqn:E; cbn [bind]; [|discriminate]. intro H. inversion H; subst.
    destruct (string_cost_ok _ _ _ _ _ E) as [pre [-> [_ Hc]]]. exists pre. split; [reflexivity|exact Hc].
  - destruct (read_basic_list le cnt elt buf) as [[x r]|] eqn:E; cbn [bind]; [|discriminate]. intro H. inversion H; subst.
    unfold read_basic_list in E. eapply list_cost_ok; [| |exact E].
    + intros b. lia.
    + intros b a r H'. destruct (read_basic_ok_pre _ _ _ _ _ H') as [pre [-> Hp]]. exists pre. repeat split; lia.
  - destruct (read_fixed_list le cnt n pad lf buf) as [[x r]|] eqn:E; cbn [bind]; [|discriminate]. intro H. inversion H; subst.
    unfold read_fixed_list in E. eapply list_cost_ok; [| |exact E].
    + intros b. lia.
    + intros b a r H'. destruct (read_fixed_consume _ _ _ _ _ _ H') as [pre [-> Hp]]. exists pre. rewrite lenN_length, Hp. repeat split; lia.
  - destruct (read_string_list le cnt len buf) as [[x r]|] eqn:E; cbn [bind]; [|discriminate]. intro H. inversion H; subst.
    unfold read_string_list in E. eapply list_cost_ok; [| |exact E].
    + intros b. apply string_cost_any.
    + intros b a r H'. destruct (string_cost_ok _ _ _ _ _ H') as [pre [-> [Hm Hc]]]. exists pre. repeat split; assumption.
  - discriminate.
Qed.

Lemma bound_join a b Sa Sb Ka Kb x y : a <= Sa + Ka * x -> b <= Sb + Kb * y -> a + b <= (Sa + Sb) + N.max Ka Kb * (x + y).
Proof.
  intros Ha Hb. pose proof (N.mul_le_mono_r Ka (N.max Ka Kb) x ltac:(lia)). pose proof (N.mul_le_mono_r Kb (N.max Ka Kb) y ltac:(lia)).
  rewrite N.mul_add_distr_l. lia.
Qed.
Lemma bound_weaken a Sa Ka Kb x : a <= Sa + Ka * x -> a <= Sa + N.max Ka Kb * x.
Proof. intros Ha. pose proof (N.mul_le_mono_r Ka (N.max Ka Kb) x ltac:(lia)). lia. Qed.

(* ---- kinds, field sequences ---- *)
Section KindCost.
  Variable tables : list (N * table).
  Variable size : N -> N.
  Variables ms Srec Krec : N -> N.

  Definition objS (t : N) : N := size t + Srec t.
  Definition tbl_max (f : N -> N) (tbl : N) : N :=
    match find_table tables tbl with Some t => fold_right (fun e a => N.max (f (snd e)) a) 0 t | None => 0 end.

  Definition kind_S (k : kind) : N :=
    match k with
    | KPrim p _ => prim_S p
    | KObjs _ cnt t => list_S (objS t) (ms t) 8 (bound cnt)
    | KCall _ _ _ (DPtr t) | KCall _ _ _ (DVal t) => objS t
    | KCall _ _ _ (DSel tbl _) => N.max c_hdr (tbl_max objS tbl)
    end.
  Definition kind_K (k : kind) : N :=
    match k with
    | KPrim p _ => prim_K p
    | KObjs _ _ t => list_K (objS t) (Krec t) (ms t) 8
    | KCall _ _ _ (DPtr t) | KCall _ _ _ (DVal t) => Krec t
    | KCall _ _ _ (DSel tbl _) => tbl_max Krec tbl
    end.
  Definition fields_S (ks : list kind) : N := c_hdr + fold_right (fun k a => kind_S k + a) 0 ks.
  Definition fields_K (ks : list kind) : N := fold_right (fun k a => N.max (kind_K k) a) 0 ks.

  Variable sdec : N -> list byte -> res (list value * list byte).
  Variable crec : N -> list byte -> N.
  Variable good : N -> bool.
  Hypothesis Hany : forall t buf, good t = true -> crec t buf <= Srec t + Krec t * lenN buf.
  Hypothesis Hok : forall t buf fs r, good t = true -> sdec t buf = Ok (fs, r) ->
    exists pre, buf = pre ++ r /\ ms t <= lenN pre /\ crec t buf <= Srec t + Krec t * lenN pre.

  Definition ckind_ok (k : kind) : bool :=
    match k with
    | KPrim _ _ => true
    | KObjs _ _ t => good t
    | KCall _ _ _ (DPtr t) | KCall _ _ _ (DVal t) => good t
    | KCall _ _ _ (DSel tbl _) => match find_table tables tbl with Some t => forallb (fun e => good (snd e)) t | None => false end
    end.

  Lemma obj_any t buf : good t = true -> obj_cost crec size t buf <= objS t + Krec t * lenN buf.
  Proof. intro Hg. unfold obj_cost, objS. pose proof (Hany t buf Hg). lia. Qed.

  Lemma obj_ok t buf v r : good t = true -> parse_obj sdec t buf = Ok (v, r) ->
    exists pre, buf = pre ++ r /\ ms t <= lenN pre /\ obj_cost crec size t buf <= objS t + Krec t * lenN pre.
  Proof.
    intros Hg H. unfold parse_obj in H. destruct (sdec t buf) as [[fs r']|] eqn:E; cbn [bind] in H; [|discriminate].
    inversion H; subst. destruct (Hok t buf fs r Hg E) as [pre [-> [Hm Hc]]]. exists pre. unfold obj_cost, objS. repeat split; lia.
  Qed.

  Lemma tbl_max_ge f tbl kv ty : slookup tables tbl kv = Ok ty -> f ty <= tbl_max f tbl.
  Proof.
    unfold slookup, tbl_max. destruct (key_of_value kv) as [k|]; cbn [bind]; [|discriminate].
    destruct (find_table tables tbl) as [t|]; [|discriminate].
    destruct (table_lookup t k) as [ty'|] eqn:E; [|discriminate]. intro H. inversion H; subst.
    apply table_lookup_in in E. induction t as [|e t IH]; cbn [map fold_right] in *; [contradiction|].
    destruct E as [E|E]; [subst; lia|]. specialize (IH E). lia.
  Qed.

  Lemma tbl_good tbl kv ty : ckind_ok (KCall FNone GIfNotNil true (DSel tbl 0)) = true -> slookup tables tbl kv = Ok ty -> good ty = true.
  Proof.
    cbn [ckind_ok]. unfold slookup. destruct (key_of_value kv) as [k|]; cbn [bind]; [|discriminate].
    destruct (find_table tables tbl) as [t|]; [|discriminate].
    intros Hg H. destruct (table_lookup t k) as [ty'|] eqn:E; [|discriminate]. inversion H; subst.
    apply table_lookup_in in E. rewrite forallb_forall in Hg. apply in_map_iff in E. destruct E as [e [He Hin]].
    subst. apply Hg. exact Hin.
  Qed.

  Lemma cost_kind_any done k buf : ckind_ok k = true ->
    cost_kind tables sdec crec size done k buf <= kind_S k + kind_K k * lenN buf.
  Proof.
    intro Hk. destruct k as [p prop|le cnt t|f g prop d]; cbn [cost_kind kind_S kind_K ckind_ok] in *.
    - apply cost_prim_any.
    - apply list_cost_any.
      + intro b. apply obj_any. exact Hk.
      + intros b a r H. exact (obj_ok t b a r Hk H).
    - destruct d as [t|t|tbl key].
      + apply obj_any. exact Hk.
      + apply obj_any. exact Hk.
      + destruct (get_field done key) as [kv|]; cbn [bind]; [|lia].
        destruct (slookup tables tbl kv) as [ty|] eqn:El; [|lia].
        pose proof (tbl_max_ge objS _ _ _ El). pose proof (tbl_max_ge Krec _ _ _ El).
        pose proof (obj_any ty buf (tbl_good tbl kv ty Hk El)). nia.
  Qed.

  Lemma cost_kind_ok done k buf v r : ckind_ok k = true -> parse_kind tables sdec done k buf = Ok (v, r) ->
    exists pre, buf = pre ++ r /\ cost_kind tables sdec crec size done k buf <= kind_S k + kind_K k * lenN pre.
  Proof.
    intros Hk. destruct k as [p prop|le cnt t|f g prop d]; cbn [parse_kind cost_kind kind_S kind_K ckind_ok] in *.
    - apply cost_prim_ok.
    - destruct (read_list le cnt (parse_obj sdec t) buf) as [[l r']|] eqn:E; cbn [bind]; [|discriminate].
      intro H. inversion H; subst. eapply list_cost_ok; [| |exact E].
      + intro b. apply obj_any. exact Hk.
      + intros b a r0 H0. exact (obj_ok t b a r0 Hk H0).
    - destruct d as [t|t|tbl key].
      + intro H. destruct (obj_ok _ _ _ _ Hk H) as [pre [-> [_ Hc]]]. exists pre. split; [reflexivity|exact Hc].
      + intro H. destruct (obj_ok _ _ _ _ Hk H) as [pre [-> [_ Hc]]]. exists pre. split; [reflexivity|exact Hc].
      + destruct (get_field done key) as [kv|]; cbn [bind]; [|discriminate].
        destruct (slookup tables tbl kv) as [ty|] eqn:El; cbn [bind]; [|discriminate].
        intro H. destruct (obj_ok _ _ _ _ (tbl_good tbl kv ty Hk El) H) as [pre [-> [_ Hc]]]. exists pre. split; [reflexivity|].
        pose proof (tbl_max_ge objS _ _ _ El). pose proof (tbl_max_ge Krec _ _ _ El). nia.
  Qed.

  Lemma cost_fields_bounds ks : forallb ckind_ok ks = true -> forall done buf,
    cost_fields tables sdec crec size done ks buf <= fields_S ks + fields_K ks * lenN buf /\
    (forall vs r, parse_fields tables sdec done ks buf = Ok (vs, r) ->
       exists pre, buf = pre ++ r /\ cost_fields tables sdec crec size done ks buf <= fields_S ks + fields_K ks * lenN pre).
  Proof.
    unfold fields_S, fields_K.
    induction ks as [|k ks IH]; intros Hks done buf; cbn [cost_fields parse_fields fold_right].
    - split; [lia|]. intros vs r H. inversion H; subst. exists []. split; [reflexivity|cbn; lia].
    - cbn [forallb] in Hks. apply andb_true_iff in Hks. destruct Hks as [Hk Hks].
      destruct (parse_kind tables sdec done k buf) as [[v r1]|] eqn:E; cbn [bind].
      + destruct (cost_kind_ok _ _ _ _ _ Hk E) as [p1 [-> Hc1]].
        destruct (IH Hks (done ++ [v]) r1) as [Ha Ho]. split.
        * rewrite lenN_app. pose proof (bound_join _ _ _ _ _ _ _ _ Hc1 Ha). lia.
        * intros vs r H. destruct (parse_fields tables sdec (done ++ [v]) ks r1) as [[vs' r2]|] eqn:E2; cbn [bind] in H; [|discriminate].
          inversion H; subst. destruct (Ho _ _ eq_refl) as [p2 [-> Hc2]].
          exists (p1 ++ p2). split; [rewrite app_assoc; reflexivity|]. rewrite lenN_app. pose proof (bound_join _ _ _ _ _ _ _ _ Hc1 Hc2). lia.
      + split; [|discriminate]. pose proof (cost_kind_any done k buf Hk) as Hc.
        pose proof (bound_weaken _ _ _ (fold_right (fun k0 a => N.max (kind_K k0) a) 0 ks) _ Hc). lia.
  Qed.
End KindCost.

(* ---- the whole environment ---- *)
Fixpoint S_env (tables : list (N * table)) (ss : list sdef) (t : N) : N :=
  match ss with
  | [] => 0
  | sd :: rest => if sd_id sd =? t
                  then fields_S tables (ssize rest) (msize_env rest) (S_env tables rest) (schema_kinds (sd_schema sd))
                  else S_env tables rest t
  end.
Fixpoint K_env (tables : list (N * table)) (ss : list sdef) (t : N) : N :=
  match ss with
  | [] => 0
  | sd :: rest => if sd_id sd =? t
                  then fields_K tables (ssize rest) (msize_env rest) (S_env tables rest) (K_env tables rest) (schema_kinds (sd_schema sd))
                  else K_env tables rest t
  end.
Fixpoint cost_ok_env (tables : list (N * table)) (ss : list sdef) : bool :=
  match ss with
  | [] => true
  | sd :: rest => forallb (ckind_ok tables (has_id rest)) (schema_kinds (sd_schema sd)) && cost_ok_env tables rest
  end.

Lemma cost_schema_kinds tables sdec crec size s buf :
  cost_schema tables sdec crec size s buf = cost_fields tables sdec crec size [] (schema_kinds s) buf.
Proof. destruct s; reflexivity. Qed.

Theorem cost_env_bound tables : forall ss, dec_safe_env tables ss = true -> cost_ok_env tables ss = true ->
  forall t, has_id ss t = true -> forall buf,
    cost_env tables ss t buf <= S_env tables ss t + K_env tables ss t * lenN buf /\
    (forall fs r, spec_dec_env tables ss t buf = Ok (fs, r) ->
       exists pre, buf = pre ++ r /\ msize_env ss t <= lenN pre /\
                   cost_env tables ss t buf <= S_env tables ss t + K_env tables ss t * lenN pre).
Proof.
  induction ss as [|sd rest IH]; intros Hds Hco t Ht buf; [discriminate|].
  pose proof Hds as Hds0.
  cbn [dec_safe_env] in Hds. apply andb_true_iff in Hds. destruct Hds as [_ Hds].
  cbn [cost_ok_env] in Hco. apply andb_true_iff in Hco. destruct Hco as [Hk Hco].
  assert (Hcons0 : forall fs r, spec_dec_env tables (sd :: rest) t buf = Ok (fs, r) -> exists pre, buf = pre ++ r /\ msize_env (sd :: rest) t <= lenN pre)
    by (intros fs r E; exact (dec_consume tables (sd :: rest) t buf fs r Hds0 E)).
  cbn [has_id] in Ht. cbn [cost_env S_env K_env spec_dec_env msize_env] in *.
  destruct (sd_id sd =? t).
  - rewrite cost_schema_kinds, spec_dec_schema_kinds in *.
    destruct (cost_fields_bounds tables (ssize rest) (msize_env rest) (S_env tables rest) (K_env tables rest)
                (spec_dec_env tables rest) (cost_env tables rest) (has_id rest)
                (fun t' b Hg => proj1 (IH Hds Hco t' Hg b))
                (fun t' b fs r Hg E => proj2 (IH Hds Hco t' Hg b) fs r E)
                (schema_kinds (sd_schema sd)) Hk [] buf) as [Ha Ho].
    split; [exact Ha|]. intros fs r E. destruct (Ho fs r E) as [pre [-> Hc]].
    destruct (Hcons0 fs r E) as [pre' [Hp Hm]]. apply app_inv_tail in Hp. subst pre'.
    exists pre. repeat split; assumption.
  - cbn [orb] in Ht. destruct (IH Hds Hco t Ht buf) as [Ha Ho]. split; [exact Ha|]. intros fs r E. exact (Ho fs r E).
Qed.
