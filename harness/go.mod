module verif/harness

go 1.24.2

require (
	github.com/xinchentechnote/fin-proto-go v0.0.0
	golang.org/x/exp v0.0.0-20250620022241-b7579e27df2b
)

replace github.com/xinchentechnote/fin-proto-go => /repo
