(* Props/C15.v — a decode result depends only on the bytes, not on what the receiver held before. *)
From FP.Props Require Import Common.
Local Open Scope N_scope.

(* For every recognised type (all of them), every byte string and any two receivers of the right shape
   (arbitrary scalars, text, lists, bodies and extensions; nested pointer parts nil or non-nil):
   the outcome - success with message and remaining bytes, or failure - is the same. *)
Theorem C15_receiver_independent : forall t r1 r2 buf,
  receiver_ok t r1 = true -> receiver_ok t r2 = true -> decode t r1 buf = decode t r2 buf.
Proof. exact (fun t r1 r2 buf => dec_receiver_independent tables env schemas t r1 r2 buf H_infer H_closed). Qed.

(* in particular a used receiver behaves like a freshly created one *)
Theorem C15_same_as_fresh : forall t r buf,
  receiver_ok t r = true -> receiver_ok t (zero_value t) = true -> decode t r buf = decode t (zero_value t) buf.
Proof. exact (fun t r buf H1 H2 => dec_receiver_independent tables env schemas t r (zero_value t) buf H_infer H_closed H1 H2). Qed.

(* non-vacuity: a fresh receiver and a dirty one (other body type, stale scalars) for the SSE frame *)
Definition dirty_frame : list value :=
  [VInt 61; VInt 99; VInt 12345; VObj id_sse_bin_Heartbeat (zero_value id_sse_bin_Heartbeat); VInt 77].
Example C15_nonvacuous :
  receiver_ok id_sse_bin_SseBinary (zero_value id_sse_bin_SseBinary) = true /\
  receiver_ok id_sse_bin_SseBinary dirty_frame = true /\
  receiver_ok id_sample_bin_NestedPacket (zero_value id_sample_bin_NestedPacket) = true.
Proof. vm_compute. repeat split; reflexivity. Qed.

Print Assumptions C15_receiver_independent.
Print Assumptions C15_same_as_fresh.
