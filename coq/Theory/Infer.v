(* Theory/Infer.v — recognising the schema of a translated type from its Encode and Decode
   statement lists.  [infer] is a plain function evaluated by the kernel on the programs found in
   /repo; what it recognises is justified by the refinement lemmas, not trusted. *)
From FP.Spec Require Export Schema.
Local Open Scope N_scope.

Definition bool_eqb (a b : bool) : bool := if a then b else negb b.
Lemma bool_eqb_spec a b : reflect (a = b) (bool_eqb a b).
Proof. destruct a, b; constructor; congruence. Qed.

Definition prim_eqb (p q : prim) : bool :=
  match p, q with
  | PBasic a t, PBasic b u => bool_eqb a b && ity_eqb t u
  | PFixed n pad l, PFixed m pad' l' => Nat.eqb n m && (pad =? pad') && bool_eqb l l'
  | PString a t, PString b u => bool_eqb a b && ity_eqb t u
  | PBasicList a c e, PBasicList b c' e' => bool_eqb a b && ity_eqb c c' && ity_eqb e e'
  | PFixedList a c n pad l, PFixedList b c' m pad' l' => bool_eqb a b && ity_eqb c c' && Nat.eqb n m && (pad =? pad') && bool_eqb l l'
  | PStringList a c t, PStringList b c' u => bool_eqb a b && ity_eqb c c' && ity_eqb t u
  | PObjList a c t, PObjList b c' u => bool_eqb a b && ity_eqb c c' && (t =? u)
  | _, _ => false
  end.
Lemma prim_eqb_spec p q : reflect (p = q) (prim_eqb p q).
Proof.
  destruct p, q; cbn [prim_eqb]; try (constructor; congruence);
  repeat match goal with
  | |- context [bool_eqb ?a ?b] => destruct (bool_eqb_spec a b); cbn [andb]; try (constructor; congruence)
  | |- context [ity_eqb ?a ?b] => destruct (ity_eqb_spec a b); cbn [andb]; try (constructor; congruence)
  | |- context [Nat.eqb ?a ?b] => destruct (Nat.eqb_spec a b); cbn [andb]; try (constructor; congruence)
  | |- context [N.eqb ?a ?b] => destruct (N.eqb_spec a b); cbn [andb]; try (constructor; congruence)
  end.
Qed.

Definition cannot_fail (p : prim) : bool :=
  match p with PBasic _ _ | PFixed _ _ _ => true | _ => false end.

Definition field_is_ptr (gs : list gotype) (i : nat) (t : N) : bool :=
  match nth_error gs i with Some (GPtr t0) => t0 =? t | _ => false end.

(* the statements of one field, Encode and Decode side by side *)
Definition infer_field (gs : list gotype) (i : nat) (es : list estmt) (ds : list dstmt)
  : option (kind * list estmt * list dstmt) :=
  match es, ds with
  | EWrite p (SField j) prop :: es', DRead q k :: ds' =>
      if Nat.eqb j i && Nat.eqb k i && prim_eqb p q then
        match p with
        | PObjList le cnt t => if prop then Some (KObjs le cnt t, es', ds') else None
        | _ => if prop || cannot_fail p then Some (KPrim p prop, es', ds') else None
        end
      else None
  | EFillNew j t :: ECall j' GNone prop :: es', DEnsure k t' :: DCall k' :: ds' =>
      if Nat.eqb j i && Nat.eqb j' i && Nat.eqb k i && Nat.eqb k' i && (t =? t') && field_is_ptr gs i t'
      then Some (KCall (FNew t) GNone prop (DPtr t'), es', ds') else None
  | EFill j tbl key :: ECall j' GNone prop :: es', DLookup tbl' key' k :: DCall k' :: ds' =>
      if Nat.eqb j i && Nat.eqb j' i && Nat.eqb k i && Nat.eqb k' i && Nat.ltb key i && Nat.ltb key' i
      then Some (KCall (FTable tbl key) GNone prop (DSel tbl' key'), es', ds') else None
  | ECall j g prop :: es', DEnsure k t :: DCall k' :: ds' =>
      if Nat.eqb j i && Nat.eqb k i && Nat.eqb k' i && field_is_ptr gs i t
      then Some (KCall FNone g prop (DPtr t), es', ds') else None
  | ECall j g prop :: es', DLookup tbl key k :: DCall k' :: ds' =>
      if Nat.eqb j i && Nat.eqb k i && Nat.eqb k' i && Nat.ltb key i
      then Some (KCall FNone g prop (DSel tbl key), es', ds') else None
  | ECall j g prop :: es', DCall k :: ds' =>
      if Nat.eqb j i && Nat.eqb k i
      then match nth_error gs i with
           | Some (GVal t) => Some (KCall FNone g prop (DVal t), es', ds')
           | _ => None
           end
      else None
  | _, _ => None
  end.

Fixpoint infer_plain (fuel : nat) (gs : list gotype) (i : nat) (es : list estmt) (ds : list dstmt) : option (list kind) :=
  match fuel with
  | O => None
  | S f =>
      match es, ds with
      | [], [] => Some []
      | _, _ =>
          match infer_field gs i es ds with
          | Some (k, es', ds') =>
              match infer_plain f gs (S i) es' ds' with
              | Some ks => Some (k :: ks)
              | None => None
              end
          | None => None
          end
      end
  end.

(* header scalars of a frame: EWrite (PBasic ..) (SField i) true / DRead (PBasic ..) i, as long as they match *)
Fixpoint infer_hdr (fuel : nat) (i : nat) (es : list estmt) (ds : list dstmt) : list kind * list estmt * list dstmt :=
  match fuel with
  | O => ([], es, ds)
  | S f =>
      match es, ds with
      | EWrite (PBasic le t) (SField j) true :: es', DRead (PBasic le' t') k :: ds' =>
          if Nat.eqb j i && Nat.eqb k i && bool_eqb le le' && ity_eqb t t'
          then let '(ks, es'', ds'') := infer_hdr f (S i) es' ds' in (KPrim (PBasic le t) true :: ks, es'', ds'')
          else ([], es, ds)
      | _, _ => ([], es, ds)
      end
  end.

(* decidable equality of statements (by [decide equality]; transparent so that it computes) *)
Definition ity_eq_dec (a b : ity) : {a = b} + {a <> b}. Proof. decide equality. Defined.
Definition prim_eq_dec (a b : prim) : {a = b} + {a <> b}.
Proof. decide equality; try apply Bool.bool_dec; try apply ity_eq_dec; try apply N.eq_dec; try apply Nat.eq_dec. Defined.
Definition src_eq_dec (a b : src) : {a = b} + {a <> b}.
Proof. decide equality; try apply ity_eq_dec; try apply N.eq_dec; try apply Nat.eq_dec. Defined.
Definition expr_eq_dec (a b : expr) : {a = b} + {a <> b}.
Proof. decide equality; try apply N.eq_dec; try apply Nat.eq_dec. Defined.
Definition guard_eq_dec (a b : guard) : {a = b} + {a <> b}. Proof. decide equality. Defined.
Definition estmt_eq_dec (a b : estmt) : {a = b} + {a <> b}.
Proof.
  decide equality; try apply Bool.bool_dec; try apply ity_eq_dec; try apply N.eq_dec; try apply Nat.eq_dec;
    try apply prim_eq_dec; try apply src_eq_dec; try apply expr_eq_dec; try apply guard_eq_dec; try apply String.string_dec.
Defined.
Definition dstmt_eq_dec (a b : dstmt) : {a = b} + {a <> b}.
Proof. decide equality; try apply N.eq_dec; try apply Nat.eq_dec; try apply prim_eq_dec. Defined.

(* the literal statement sequences of the frame idiom, after the header scalars (h of them) *)
Definition frame_enc_tail (h : nat) (le_ph le : bool) (sum : option sumspec) : list estmt :=
  match sum with
  | Some ss =>
      (* variables: 0 = frame start, 1 = length slot, 2 = body start, 3 = body end *)
      [ELet 1 XLen; EWrite (PBasic le_ph U32) (SConst U32 0) true; ELet 2 XLen;
       ECall (S h) GIfNotNil true; ELet 3 XLen; ESetLen h (XVar 3) (XVar 2); EPatch le (XVar 1) h;
       ESum (ss_name ss) (ss_rt ss) (XVar 0) (S (S h)); EWrite (PBasic (ss_le ss) (ss_rt ss)) (SField (S (S h))) true]
  | None =>
      (* variables: 0 = length slot, 1 = body start, 2 = body end *)
      [ELet 0 XLen; EWrite (PBasic le_ph U32) (SConst U32 0) true; ELet 1 XLen;
       ECall (S h) GIfNotNil true; ELet 2 XLen; ESetLen h (XVar 2) (XVar 1); EPatch le (XVar 0) h]
  end.

Definition frame_dec_tail (h : nat) (le : bool) (tbl : N) (key : nat) (sum : option sumspec) : list dstmt :=
  [DRead (PBasic le U32) h; DLookup tbl key (S h); DCall (S h)]
  ++ match sum with Some ss => [DRead (PBasic (ss_le ss) (ss_rt ss)) (S (S h))] | None => [] end.

Definition nth_le_ph (es1 : list estmt) : bool :=
  match nth_error es1 1 with Some (EWrite (PBasic b _) _ _) => b | _ => false end.
Definition nth_patch_le (es1 : list estmt) (i : nat) : bool :=
  match nth_error es1 i with Some (EPatch b _ _) => b | _ => false end.
Definition nth_sumspec (es1 : list estmt) : option sumspec :=
  match nth_error es1 7, nth_error es1 8 with
  | Some (ESum name rt _ _), Some (EWrite (PBasic b _) _ _) => Some {| ss_name := name; ss_rt := rt; ss_le := b |}
  | _, _ => None
  end.
Definition nth_lookup (ds1 : list dstmt) : N * nat :=
  match nth_error ds1 1 with Some (DLookup tbl key _) => (tbl, key) | _ => (0, O) end.

Definition infer_frame (es : list estmt) (ds : list dstmt) : option schema :=
  match es with
  | ELet 0 XLen :: es0 =>
      let '(hdr, es1, ds1) := infer_hdr (length es0) 0 es0 ds in
      let h := length hdr in
      match nth_sumspec es1 with
      | Some ss =>
          let le := nth_patch_le es1 6 in
          let '(tbl, key) := nth_lookup ds1 in
          if list_eq_dec estmt_eq_dec es1 (frame_enc_tail h (nth_le_ph es1) le (Some ss)) then
            if list_eq_dec dstmt_eq_dec ds1 (frame_dec_tail h le tbl key (Some ss)) then
              if Nat.ltb key h then Some (SFrame hdr le tbl key (Some ss)) else None
            else None
          else None
      | None => None
      end
  | _ => None
  end.

Definition infer_frame_nosum (es : list estmt) (ds : list dstmt) : option schema :=
  let '(hdr, es1, ds1) := infer_hdr (length es) 0 es ds in
  let h := length hdr in
  let le := nth_patch_le es1 6 in
  let '(tbl, key) := nth_lookup ds1 in
  if list_eq_dec estmt_eq_dec es1 (frame_enc_tail h (nth_le_ph es1) le None) then
    if list_eq_dec dstmt_eq_dec ds1 (frame_dec_tail h le tbl key None) then
      if Nat.ltb key h then Some (SFrame hdr le tbl key None) else None
    else None
  else None.

Definition has_setlen (es : list estmt) : bool :=
  existsb (fun e => match e with ESetLen _ _ _ | EPatch _ _ _ | ESum _ _ _ _ | ELet _ _ => true | _ => false end) es.

Fixpoint kinds_arity_ok (ks : list kind) (gs : list gotype) : bool :=
  match ks, gs with [], [] => true | _ :: k, _ :: g => kinds_arity_ok k g | _, _ => false end.

Definition infer (td : tydef) : option schema :=
  let es := ty_enc td in
  let ds := ty_dec td in
  let gs := ty_fields td in
  if has_setlen es then
    match infer_frame es ds with
    | Some (SFrame hdr le tbl key (Some ss)) =>
        if Nat.eqb (length gs) (length hdr + 3) then Some (SFrame hdr le tbl key (Some ss)) else None
    | _ =>
        match infer_frame_nosum es ds with
        | Some (SFrame hdr le tbl key None) =>
            if Nat.eqb (length gs) (length hdr + 2) then Some (SFrame hdr le tbl key None) else None
        | _ => None
        end
    end
  else
    match infer_plain (S (length es)) gs 0 es ds with
    | Some ks => if Nat.eqb (length ks) (length gs) then Some (SPlain ks) else None
    | None => None
    end.

Fixpoint infer_env (env : list tydef) : option (list sdef) :=
  match env with
  | [] => Some []
  | td :: rest =>
      match infer td, infer_env rest with
      | Some s, Some ss => Some ({| sd_id := ty_id td; sd_fields := ty_fields td; sd_schema := s |} :: ss)
      | _, _ => None
      end
  end.

(* which types fail to be recognised (for the replay file when an obligation breaks) *)
Definition uninferable (env : list tydef) : list N :=
  map ty_id (filter (fun td => match infer td with Some _ => false | None => true end) env).
