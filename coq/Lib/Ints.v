(* Lib/Ints.v — fixed-width integers on the wire, both byte orders, and their inverses. *)
From FP.Lib Require Export Bytes.
From Coq Require Import ZifyBool ZifyNat ZifyN.
Ltac Zify.zify_post_hook ::= Z.div_mod_to_equations.
Local Open Scope N_scope.

Inductive order := BE | LE.
Definition order_eqb (a b : order) : bool :=
  match a, b with BE, BE => true | LE, LE => true | _, _ => false end.
Lemma order_eqb_spec a b : reflect (a = b) (order_eqb a b).
Proof. destruct a, b; constructor; congruence. Qed.

(* The ten scalar types of codec.BasicType.  On the wire a scalar is its bit pattern:
   signedness and float-ness never reach the bytes, so values are N below 2^(8*width). *)
Inductive ity := I8 | I16 | I32 | I64 | U8 | U16 | U32 | U64 | F32 | F64.
Definition width (t : ity) : nat :=
  match t with I8 | U8 => 1 | I16 | U16 => 2 | I32 | U32 | F32 => 4 | I64 | U64 | F64 => 8 end%nat.
Definition ity_eqb (a b : ity) : bool :=
  match a, b with
  | I8, I8 | I16, I16 | I32, I32 | I64, I64 | U8, U8 | U16, U16 | U32, U32 | U64, U64 | F32, F32 | F64, F64 => true
  | _, _ => false
  end.
Lemma ity_eqb_spec a b : reflect (a = b) (ity_eqb a b).
Proof. destruct a, b; constructor; congruence. Qed.
Definition all_ity : list ity := [I8; I16; I32; I64; U8; U16; U32; U64; F32; F64].
Lemma all_ity_complete t : In t all_ity.
Proof. destruct t; cbn; tauto. Qed.
Definition is_unsigned (t : ity) : bool := match t with U8 | U16 | U32 | U64 => true | _ => false end.

Definition pow256 (w : nat) : N := 2 ^ (8 * N.of_nat w).
Definition bound (t : ity) : N := pow256 (width t).
Lemma pow256_S w : pow256 (S w) = 256 * pow256 w.
Proof.
  unfold pow256. replace (8 * N.of_nat (S w)) with (8 + 8 * N.of_nat w) by lia.
  rewrite N.pow_add_r. reflexivity.
Qed.
Lemma pow256_pos w : 0 < pow256 w.
Proof. unfold pow256. apply N.neq_0_lt_0. apply N.pow_nonzero. lia. Qed.

Fixpoint le_bytes (w : nat) (n : N) : list byte :=
  match w with O => [] | S w' => n2b n :: le_bytes w' (n / 256) end.
Definition be_bytes (w : nat) (n : N) : list byte := rev (le_bytes w n).

Fixpoint le_val (bs : list byte) : N :=
  match bs with [] => 0 | b :: r => b2n b + 256 * le_val r end.
Definition be_val (bs : list byte) : N := le_val (rev bs).

Definition int_bytes (o : order) (w : nat) (n : N) : list byte :=
  match o with LE => le_bytes w n | BE => be_bytes w n end.
Definition int_val (o : order) (bs : list byte) : N :=
  match o with LE => le_val bs | BE => be_val bs end.

Lemma le_bytes_length w n : length (le_bytes w n) = w.
Proof. revert n. induction w as [|w IH]; intro n; cbn [le_bytes length]; [reflexivity|]. rewrite IH. reflexivity. Qed.
Lemma int_bytes_length o w n : length (int_bytes o w n) = w.
Proof. destruct o; cbn [int_bytes]; unfold be_bytes; rewrite ?rev_length; apply le_bytes_length. Qed.

Lemma le_val_lt bs : le_val bs < pow256 (length bs).
Proof.
  induction bs as [|b r IH]; cbn [le_val length].
  - unfold pow256. cbn. lia.
  - rewrite pow256_S. pose proof (b2n_lt b). lia.
Qed.
Lemma int_val_lt o bs : int_val o bs < pow256 (length bs).
Proof.
  destruct o; cbn [int_val]; [|apply le_val_lt].
  unfold be_val. rewrite <- (rev_length bs). apply le_val_lt.
Qed.

Lemma le_val_bytes w n : le_val (le_bytes w n) = n mod pow256 w.
Proof.
  revert n. induction w as [|w IH]; intro n; cbn [le_bytes le_val].
  - unfold pow256. cbn. rewrite N.mod_1_r. reflexivity.
  - rewrite IH, b2n_n2b, pow256_S. pose proof (pow256_pos w).
    set (p := pow256 w) in *.
    (* n mod 256 + 256 * ((n/256) mod p) = n mod (256*p) *)
    rewrite (N.mod_mul_r n 256 p) by lia. reflexivity.
Qed.
Lemma le_bytes_val bs : le_bytes (length bs) (le_val bs) = bs.
Proof.
  induction bs as [|b r IH]; cbn [length le_bytes le_val]; [reflexivity|].
  pose proof (b2n_lt b). f_equal.
  - apply b2n_inj. rewrite b2n_n2b. lia.
  - replace ((b2n b + 256 * le_val r) / 256) with (le_val r) by lia. exact IH.
Qed.

Lemma int_val_bytes o w n : int_val o (int_bytes o w n) = n mod pow256 w.
Proof.
  destruct o; cbn [int_val int_bytes]; [|apply le_val_bytes].
  unfold be_val, be_bytes. rewrite rev_involutive. apply le_val_bytes.
Qed.
Lemma int_val_bytes_small o w n : n < pow256 w -> int_val o (int_bytes o w n) = n.
Proof. intro H. rewrite int_val_bytes. apply N.mod_small. exact H. Qed.
Lemma int_bytes_val o bs : int_bytes o (length bs) (int_val o bs) = bs.
Proof.
  destruct o; cbn [int_val int_bytes]; [|apply le_bytes_val].
  unfold be_val, be_bytes. rewrite <- (rev_length bs). rewrite le_bytes_val. apply rev_involutive.
Qed.

(* C03's "same bytes with each integer's bytes reversed" is definitional here *)
Lemma int_bytes_rev w n : int_bytes LE w n = rev (int_bytes BE w n).
Proof. cbn [int_bytes]. unfold be_bytes. rewrite rev_involutive. reflexivity. Qed.

Lemma int_bytes_mod o w n : int_bytes o w (n mod pow256 w) = int_bytes o w n.
Proof.
  rewrite <- (int_val_bytes o w n).
  pose proof (int_bytes_val o (int_bytes o w n)) as H. rewrite int_bytes_length in H. exact H.
Qed.

Lemma bound_pos t : 0 < bound t.
Proof. apply pow256_pos. Qed.
