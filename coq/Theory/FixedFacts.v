(* Theory/FixedFacts.v — fixed-width text (C13): exactly N bytes; pad or cut on write; strip only the
   pad byte and only from the pad side on read.  All widths, all pad runes, both sides, all texts. *)
From FP.Model Require Import Codec.
From Coq Require Import ZifyBool ZifyNat ZifyN.
Local Open Scope nat_scope.

Lemma write_fixed_length n pad left s : length (write_fixed n pad left s) = n.
Proof.
  unfold write_fixed. destruct (Nat.ltb_spec n (length s)).
  - apply firstn_length_le. lia.
  - destruct left; rewrite app_length, repeat_length; lia.
Qed.

(* a longer value is cut to its first N bytes; an N-byte value is emitted verbatim *)
Lemma write_fixed_long n pad left s : n <= length s -> write_fixed n pad left s = firstn n s.
Proof.
  intro H. unfold write_fixed. destruct (Nat.ltb_spec n (length s)); [reflexivity|].
  assert (length s = n) by lia. subst n. rewrite Nat.sub_diag. cbn [repeat].
  rewrite firstn_all. destruct left; [reflexivity|apply app_nil_r].
Qed.

(* a shorter value is padded with byte(pad) on the pad side *)
Lemma write_fixed_short n pad left s : length s <= n ->
  write_fixed n pad left s = if left then repeat (pad_byte pad) (n - length s) ++ s else s ++ repeat (pad_byte pad) (n - length s).
Proof.
  intro H. unfold write_fixed. destruct (Nat.ltb_spec n (length s)); [lia|reflexivity].
Qed.

(* reading: exactly N bytes are consumed *)
Lemma read_fixed_ok n pad left x rest : length x = n ->
  read_fixed n pad left (x ++ rest) = Ok (if left then trim_left (pad_byte pad) x else trim_right (pad_byte pad) x, rest).
Proof. intro H. unfold read_fixed. rewrite <- H, take_app. reflexivity. Qed.

Lemma read_fixed_short n pad left buf : length buf < n -> read_fixed n pad left buf = Fail FErr.
Proof. intro H. unfold read_fixed. rewrite (proj2 (take_none n buf) H). reflexivity. Qed.

(* only the pad byte is stripped, only from the pad side: the field is the stripped text plus a run of
   pad bytes on that side, and the stripped text does not begin (end) with the pad *)
Lemma trim_left_spec b x : exists k, x = repeat b k ++ trim_left b x /\ (forall y r, trim_left b x = y :: r -> y <> b).
Proof. exact (drop_run_decomp b x). Qed.

Lemma last_rev_head {A} (l : list A) y r : rev l = y :: r -> l = rev r ++ [y].
Proof. intro H. rewrite <- (rev_involutive l), H. reflexivity. Qed.

Lemma trim_right_spec b x : exists k, x = trim_right b x ++ repeat b k /\ (forall y r, trim_right b x = r ++ [y] -> y <> b).
Proof.
  unfold trim_right. destruct (drop_run_decomp b (rev x)) as [k [H1 H2]].
  exists k. split.
  - rewrite <- (rev_involutive x) at 1. rewrite H1 at 1. rewrite rev_app_distr.
    f_equal. clear. induction k as [|k IH]; [reflexivity|]. cbn [repeat rev]. rewrite IH.
    clear. induction k as [|k IH]; [reflexivity|]. cbn [repeat app]. rewrite IH. reflexivity.
  - intros y r Hr. apply (H2 y (rev r)).
    rewrite <- (rev_involutive (drop_run b (rev x))), Hr, rev_app_distr. reflexivity.
Qed.

(* the interior and the other side are preserved: stripping is a prefix (suffix) removal *)
Lemma trim_left_suffix b x : exists pre, x = pre ++ trim_left b x /\ Forall (fun c => c = b) pre.
Proof.
  destruct (trim_left_spec b x) as [k [H _]]. exists (repeat b k). split; [exact H|].
  clear. induction k; cbn; constructor; auto.
Qed.
Lemma trim_right_prefix b x : exists suf, x = trim_right b x ++ suf /\ Forall (fun c => c = b) suf.
Proof.
  destruct (trim_right_spec b x) as [k [H _]]. exists (repeat b k). split; [exact H|].
  clear. induction k; cbn; constructor; auto.
Qed.

(* canonical texts round-trip *)
Definition no_head (b : byte) (s : list byte) : Prop := forall y r, s = y :: r -> y <> b.
Definition no_last (b : byte) (s : list byte) : Prop := forall y r, s = r ++ [y] -> y <> b.

Lemma trim_left_pad b k s : no_head b s -> trim_left b (repeat b k ++ s) = s.
Proof. intro H. unfold trim_left. rewrite drop_run_repeat. apply drop_run_head. exact H. Qed.

Lemma rev_repeat {A} (b : A) k : rev (repeat b k) = repeat b k.
Proof.
  induction k as [|k IH]; [reflexivity|]. cbn [repeat rev]. rewrite IH.
  clear. induction k as [|k IH]; [reflexivity|]. cbn [repeat app]. rewrite IH. reflexivity.
Qed.

Lemma trim_right_pad b k s : no_last b s -> trim_right b (s ++ repeat b k) = s.
Proof.
  intro H. unfold trim_right. rewrite rev_app_distr, rev_repeat, drop_run_repeat.
  rewrite drop_run_head; [apply rev_involutive|].
  intros y r Hr. apply (H y (rev r)). rewrite <- (rev_involutive s), Hr. reflexivity.
Qed.

Theorem fixed_round_trip n pad (left : bool) s rest :
  length s <= n -> (if left then no_head (pad_byte pad) s else no_last (pad_byte pad) s) ->
  read_fixed n pad left (write_fixed n pad left s ++ rest) = Ok (s, rest).
Proof.
  intros Hl Hc. rewrite read_fixed_ok by apply write_fixed_length.
  rewrite write_fixed_short by exact Hl. destruct left.
  - rewrite trim_left_pad by exact Hc. reflexivity.
  - rewrite trim_right_pad by exact Hc. reflexivity.
Qed.

(* the other direction: whatever N bytes are read, writing the result back reproduces them *)
Theorem fixed_reencode n pad (left : bool) x : length x = n ->
  write_fixed n pad left (if left then trim_left (pad_byte pad) x else trim_right (pad_byte pad) x) = x.
Proof.
  intro H. destruct left.
  - destruct (trim_left_spec (pad_byte pad) x) as [k [Hx _]].
    assert (Hk : length (trim_left (pad_byte pad) x) = n - k).
    { rewrite Hx in H at 1. rewrite app_length, repeat_length in H. lia. }
    assert (k <= n) by (rewrite Hx in H at 1; rewrite app_length, repeat_length in H; lia).
    rewrite write_fixed_short by lia. rewrite Hk. replace (n - (n - k)) with k by lia. symmetry. exact Hx.
  - destruct (trim_right_spec (pad_byte pad) x) as [k [Hx _]].
    assert (k <= n) by (rewrite Hx in H at 1; rewrite app_length, repeat_length in H; lia).
    assert (Hk : length (trim_right (pad_byte pad) x) = n - k).
    { rewrite Hx in H at 1. rewrite app_length, repeat_length in H. lia. }
    rewrite write_fixed_short by lia. rewrite Hk. replace (n - (n - k)) with k by lia. symmetry. exact Hx.
Qed.
