(* Theory/SumFacts.v — the SSE_BIN and SZSE_BIN services compute the byte sum modulo 256. *)
From FP.Model Require Import Checksum.
From Coq Require Import ZifyBool ZifyNat ZifyN.
Ltac Zify.zify_post_hook ::= Z.div_mod_to_equations.
Local Open Scope N_scope.

Definition byte_sum (bs : list byte) : N := fold_left (fun a b => a + b2n b) bs 0.

Lemma byte_sum_aux bs k : fold_left (fun a b => a + b2n b) bs k = k + byte_sum bs.
Proof.
  unfold byte_sum. revert k. induction bs as [|b bs IH]; intro k; cbn [fold_left].
  - lia.
  - rewrite IH. rewrite (IH (0 + b2n b)). lia.
Qed.
Lemma byte_sum_cons b bs : byte_sum (b :: bs) = b2n b + byte_sum bs.
Proof. unfold byte_sum at 1. cbn [fold_left]. rewrite byte_sum_aux. lia. Qed.
Lemma byte_sum_app a b : byte_sum (a ++ b) = byte_sum a + byte_sum b.
Proof. unfold byte_sum at 1. rewrite fold_left_app. rewrite byte_sum_aux. fold (byte_sum a). lia. Qed.

Lemma land_255 x : N.land x 255 = x mod 256.
Proof. change 255 with (N.ones 8). rewrite N.land_ones. reflexivity. Qed.

(* ---- SSE ---- *)
Lemma sse_fold bs acc : acc < 256 ->
  fold_left sse_step bs acc = (acc + byte_sum bs) mod 256.
Proof.
  revert acc. induction bs as [|b bs IH]; intros acc Hacc; cbn [fold_left].
  - unfold byte_sum. cbn [fold_left]. rewrite N.add_0_r. symmetry. apply N.mod_small. exact Hacc.
  - pose proof (b2n_lt b) as Hb.
    assert (Hs : sse_step acc b = (acc + b2n b) mod 256).
    { unfold sse_step. rewrite land_255. rewrite (N.mod_small (acc + b2n b) 4294967296) by lia. reflexivity. }
    rewrite Hs. rewrite IH by (apply N.mod_lt; lia).
    rewrite byte_sum_cons. rewrite N.add_mod_idemp_l by lia. f_equal. lia.
Qed.

Theorem sse_calc_spec bs : sse_calc bs = byte_sum bs mod 256.
Proof. unfold sse_calc. rewrite sse_fold by lia. reflexivity. Qed.

Corollary sse_calc_range bs : sse_calc bs < 256.
Proof. rewrite sse_calc_spec. apply N.mod_lt. lia. Qed.

(* ---- SZSE ---- *)
Lemma szse_step_small acc b : (0 <= acc < 256)%Z ->
  szse_step acc b = ((acc + Z.of_N (b2n b)) mod 256)%Z.
Proof.
  intro Hacc. pose proof (b2n_lt b) as Hb. unfold szse_step, wrap_i32.
  assert (H : (((acc + Z.of_N (b2n b) + 2147483648) mod 4294967296 - 2147483648) = acc + Z.of_N (b2n b))%Z) by lia.
  rewrite H. apply Z.rem_mod_nonneg; lia.
Qed.

Lemma szse_fold bs acc : (0 <= acc < 256)%Z ->
  fold_left szse_step bs acc = ((acc + Z.of_N (byte_sum bs)) mod 256)%Z.
Proof.
  revert acc. induction bs as [|b bs IH]; intros acc Hacc; cbn [fold_left].
  - unfold byte_sum. cbn [fold_left]. rewrite Z.add_0_r. symmetry. apply Z.mod_small. exact Hacc.
  - rewrite szse_step_small by exact Hacc.
    rewrite IH by (apply Z.mod_pos_bound; lia).
    rewrite byte_sum_cons. rewrite Zplus_mod_idemp_l. f_equal. lia.
Qed.

Theorem szse_calc_z_spec bs : szse_calc_z bs = Z.of_N (byte_sum bs mod 256).
Proof.
  unfold szse_calc_z. rewrite szse_fold by lia. rewrite Z.add_0_l.
  rewrite N2Z.inj_mod. reflexivity.
Qed.

Theorem szse_calc_spec bs : szse_calc bs = byte_sum bs mod 256.
Proof.
  unfold szse_calc, bits_i32. rewrite szse_calc_z_spec.
  assert (H : byte_sum bs mod 256 < 256) by (apply N.mod_lt; lia).
  rewrite Z.mod_small by lia. apply N2Z.id.
Qed.

Corollary szse_calc_range bs : szse_calc bs < 256.
Proof. rewrite szse_calc_spec. apply N.mod_lt. lia. Qed.

(* the int32 the Go function returns is itself in 0..255 (never negative) *)
Corollary szse_calc_z_range bs : (0 <= szse_calc_z bs < 256)%Z.
Proof. rewrite szse_calc_z_spec. assert (byte_sum bs mod 256 < 256) by (apply N.mod_lt; lia). lia. Qed.
