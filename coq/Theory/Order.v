(* Theory/Order.v — byte order of the codec primitives (C03): every writer's output is an order-free
   token stream (integers of a given width, raw bytes) rendered in the helper's order; the LE variant
   emits the BE variant's bytes with each integer's bytes reversed and nothing else changed. *)
From FP.Model Require Import Sem.
From Coq Require Import ZifyBool ZifyNat ZifyN.
Local Open Scope N_scope.

Inductive token := TInt (w : nat) (n : N) | TRaw (bs : list byte).

Definition render_token (o : order) (t : token) : list byte :=
  match t with TInt w n => int_bytes o w n | TRaw bs => bs end.
Definition flatten (o : order) (ts : list token) : list byte := concat (map (render_token o) ts).

(* "each integer's bytes reversed and nothing else changed" *)
Definition reverse_ints (ts : list token) : list byte :=
  concat (map (fun t => match t with TInt w n => rev (int_bytes BE w n) | TRaw bs => bs end) ts).
Lemma flatten_le_is_be_reversed ts : flatten LE ts = reverse_ints ts.
Proof.
  unfold flatten, reverse_ints. f_equal. apply map_ext. intros [w n|bs]; cbn [render_token]; [apply int_bytes_rev|reflexivity].
Qed.

(* the helper's variant flag *)
Definition prim_le (p : prim) : bool :=
  match p with
  | PBasic le _ | PString le _ | PBasicList le _ _ | PFixedList le _ _ _ _ | PStringList le _ _ | PObjList le _ _ => le
  | PFixed _ _ _ => false
  end.
Definition set_le (b : bool) (p : prim) : prim :=
  match p with
  | PBasic _ t => PBasic b t
  | PFixed n pad lf => PFixed n pad lf
  | PString _ l => PString b l
  | PBasicList _ c e => PBasicList b c e
  | PFixedList _ c n pad lf => PFixedList b c n pad lf
  | PStringList _ c l => PStringList b c l
  | PObjList _ c t => PObjList b c t
  end.

(* order-free token stream of a value under a primitive (None: the writer refuses the value) *)
Definition text_tokens (len : ity) (s : list byte) : option (list token) :=
  if lenN s <? bound len then Some [TInt (width len) (lenN s); TRaw s] else None.
Fixpoint texts_tokens (len : ity) (l : list (list byte)) : option (list token) :=
  match l with
  | [] => Some []
  | s :: r => match text_tokens len s, texts_tokens len r with Some a, Some b => Some (a ++ b) | _, _ => None end
  end.
Definition tokens_prim (p : prim) (v : value) : option (list token) :=
  match p, v with
  | PBasic _ t, VInt n => Some [TInt (width t) n]
  | PFixed n pad lf, VStr s => Some [TRaw (write_fixed n pad lf s)]
  | PString _ len, VStr s => text_tokens len s
  | PBasicList _ cnt elt, VInts l =>
      if lenN l <? bound cnt then Some (TInt (width cnt) (lenN l) :: map (TInt (width elt)) l) else None
  | PFixedList _ cnt n pad lf, VStrs l =>
      if lenN l <? bound cnt then Some (TInt (width cnt) (lenN l) :: map (fun s => TRaw (write_fixed n pad lf s)) l) else None
  | PStringList _ cnt len, VStrs l =>
      if lenN l <? bound cnt then match texts_tokens len l with Some ts => Some (TInt (width cnt) (lenN l) :: ts) | None => None end else None
  | _, _ => None
  end.

Lemma tokens_prim_order_free b p v : tokens_prim (set_le b p) v = tokens_prim p v.
Proof. destruct p; reflexivity. Qed.

Lemma flatten_app o a b : flatten o (a ++ b) = flatten o a ++ flatten o b.
Proof. unfold flatten. rewrite map_app, concat_app. reflexivity. Qed.

Lemma write_each_basic le elt l :
  write_each (fun v => Ok (write_basic le elt v)) l = Ok (flatten (ord le) (map (TInt (width elt)) l)).
Proof.
  induction l as [|x l IH]; [reflexivity|]. cbn [write_each bind map]. rewrite IH. cbn [bind].
  unfold flatten. cbn [map concat render_token]. reflexivity.
Qed.
Lemma write_each_fixed o n pad lf l :
  write_each (fun s => Ok (write_fixed n pad lf s)) l = Ok (flatten o (map (fun s => TRaw (write_fixed n pad lf s)) l)).
Proof.
  induction l as [|x l IH]; [reflexivity|]. cbn [write_each bind map]. rewrite IH. cbn [bind].
  unfold flatten. cbn [map concat render_token]. reflexivity.
Qed.
Lemma write_each_text le len l :
  write_each (write_string le len) l = match texts_tokens len l with Some ts => Ok (flatten (ord le) ts) | None => Fail FErr end.
Proof.
  induction l as [|s l IH]; [reflexivity|]. cbn [write_each texts_tokens].
  unfold write_string at 1, text_tokens, length_prefix. destruct (lenN s <? bound len); cbn [bind]; [|reflexivity].
  rewrite IH. destruct (texts_tokens len l) as [ts|]; cbn [bind]; [|reflexivity].
  rewrite flatten_app. unfold flatten at 2. cbn [map concat render_token]. rewrite app_nil_r. reflexivity.
Qed.

(* C03, primitives: a writer succeeds exactly when the value has a token stream, and then its bytes are
   that stream rendered in the helper's order *)
Theorem w_prim_tokens p v bs :
  w_prim p v = Ok bs <-> exists ts, tokens_prim p v = Some ts /\ bs = flatten (ord (prim_le p)) ts.
Proof.
  destruct p, v; cbn [w_prim tokens_prim prim_le];
    try (split; [discriminate|intros [ts [H _]]; discriminate]).
  - (* PBasic *)
    split.
    + intro H. inversion H. eexists. split; [reflexivity|]. unfold flatten. cbn. rewrite app_nil_r. reflexivity.
    + intros [ts [H ->]]. inversion H. unfold flatten. cbn. rewrite app_nil_r. reflexivity.
  - (* PFixed *)
    split.
    + intro H. inversion H. eexists. split; [reflexivity|]. unfold flatten. cbn. rewrite app_nil_r. reflexivity.
    + intros [ts [H ->]]. inversion H. unfold flatten. cbn. rewrite app_nil_r. reflexivity.
  - (* PString *)
    unfold write_string, text_tokens, length_prefix. destruct (lenN s <? bound len); cbn [bind].
    + split.
      * intro H. inversion H. eexists. split; [reflexivity|]. unfold flatten. cbn. rewrite app_nil_r. reflexivity.
      * intros [ts [H ->]]. inversion H. unfold flatten. cbn. rewrite app_nil_r. reflexivity.
    + split; [discriminate|intros [ts [H _]]; discriminate].
  - (* PBasicList *)
    unfold write_basic_list, write_list, length_prefix. destruct (lenN l <? bound cnt); cbn [bind].
    + rewrite write_each_basic. cbn [bind]. split.
      * intro H. inversion H. eexists. split; [reflexivity|]. unfold flatten. cbn [map concat render_token]. reflexivity.
      * intros [ts [H ->]]. inversion H. unfold flatten. cbn [map concat render_token]. reflexivity.
    + split; [discriminate|intros [ts [H _]]; discriminate].
  - (* PFixedList *)
    unfold write_fixed_list, write_list, length_prefix. destruct (lenN l <? bound cnt); cbn [bind].
    + rewrite (write_each_fixed (ord le)). cbn [bind]. split.
      * intro H. inversion H. eexists. split; [reflexivity|]. unfold flatten. cbn [map concat render_token]. reflexivity.
      * intros [ts [H ->]]. inversion H. unfold flatten. cbn [map concat render_token]. reflexivity.
    + split; [discriminate|intros [ts [H _]]; discriminate].
  - (* PStringList *)
    unfold write_string_list, write_list, length_prefix. destruct (lenN l <? bound cnt); cbn [bind].
    + rewrite write_each_text. destruct (texts_tokens len l) as [ts0|]; cbn [bind].
      * split.
        -- intro H. inversion H. eexists. split; [reflexivity|]. unfold flatten. cbn [map concat render_token]. reflexivity.
        -- intros [ts [H ->]]. inversion H. unfold flatten. cbn [map concat render_token]. reflexivity.
      * split; [discriminate|intros [ts [H _]]; discriminate].
    + split; [discriminate|intros [ts [H _]]; discriminate].
Qed.

(* the pair statement of the property *)
Theorem le_variant_is_be_with_ints_reversed p v b_be b_le :
  w_prim (set_le false p) v = Ok b_be -> w_prim (set_le true p) v = Ok b_le ->
  exists ts, b_be = flatten BE ts /\ b_le = reverse_ints ts.
Proof.
  intros H1 H2. apply w_prim_tokens in H1. apply w_prim_tokens in H2.
  destruct H1 as [ts1 [T1 ->]]. destruct H2 as [ts2 [T2 ->]].
  rewrite tokens_prim_order_free in T1, T2. rewrite T1 in T2. inversion T2; subst ts2.
  exists ts1. split.
  - destruct p; reflexivity.
  - rewrite <- flatten_le_is_be_reversed. destruct p; try reflexivity.
    (* PFixed has no integer token and no variant *)
    cbn [set_le prim_le ord]. unfold flatten. destruct v; cbn [tokens_prim] in T1; try discriminate. inversion T1. reflexivity.
Qed.

Theorem variants_accept_the_same_values p v :
  (exists b, w_prim (set_le false p) v = Ok b) <-> (exists b, w_prim (set_le true p) v = Ok b).
Proof.
  split; intros [b H]; apply w_prim_tokens in H; destruct H as [ts [T _]]; rewrite tokens_prim_order_free in T;
    eexists; apply w_prim_tokens; exists ts; (split; [rewrite tokens_prim_order_free; exact T|reflexivity]).
Qed.
