#!/bin/bash
# validate_seeded.sh <seeded-dir>: confirm a seeded change builds, passes the existing suite, and that its
# demonstration fails with the change and passes without it.  Uses a scratch worktree under /var/tmp.
set -u
S=$1
export GOFLAGS=-mod=mod GOPROXY=off
W=/var/tmp/seedval-$(basename $S)-$$
git -C /repo worktree add -q --detach $W HEAD || exit 9
cleanup() { git -C /repo worktree remove --force $W >/dev/null 2>&1; rm -rf $W; }
trap cleanup EXIT
dir=$(grep -m1 -oE '^// dir: *[^ ]+' $S/demo_test.go | sed -E 's#// dir: *##')
[ -z "$dir" ] && dir=$(python3 -c "import json;print(json.load(open('$S/meta.json')).get('demo_dir',''))")
dir=${dir%/}
cd $W
cp $S/demo_test.go $dir/zz_seeded_demo_test.go
clean=$(go test -vet=off -count=1 -run 'TestC[0-9]' ./$dir/ 2>&1 | tail -1)
git apply $S/patch.diff || { echo "$(basename $S) APPLY-FAILED"; exit 1; }
build=$(go build ./... 2>&1 | tail -1)
with=$(go test -vet=off -count=1 -run 'TestC[0-9]' ./$dir/ 2>&1 | tail -1)
rm $dir/zz_seeded_demo_test.go
suite=$(go test -vet=off -count=1 ./... 2>&1 | grep -v '^ok' | grep -v 'no test files' | head -3 | tr '\n' ' ')
echo "$(basename $S) | clean: $clean | build: [$build] | with-patch: $with | suite-failures: [$suite]"
