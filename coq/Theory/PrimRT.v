(* Theory/PrimRT.v — write-then-read round trips of the codec primitives, with arbitrary trailing bytes. *)
From FP.Model Require Export Sem.
From FP.Theory Require Export ReadFacts FixedFacts.
From Coq Require Import ZifyBool ZifyNat ZifyN.
Local Open Scope N_scope.

Lemma read_basic_rt le t n rest : n < bound t -> read_basic le t (write_basic le t n ++ rest) = Ok (n, rest).
Proof.
  intro H. unfold read_basic, write_basic.
  rewrite <- (int_bytes_length (ord le) (width t) n) at 1. rewrite take_app.
  rewrite int_val_bytes_small by exact H. reflexivity.
Qed.

Lemma read_prefix_rt le t n rest : n < bound t -> read_basic le t (int_bytes (ord le) (width t) n ++ rest) = Ok (n, rest).
Proof. exact (read_basic_rt le t n rest). Qed.

Lemma read_string_rt le t s rest : small t = true -> lenN s < bound t ->
  read_string le t ((int_bytes (ord le) (width t) (lenN s) ++ s) ++ rest) = Ok (s, rest).
Proof.
  intros Hs Hl. unfold read_string. rewrite <- app_assoc. rewrite read_prefix_rt by exact Hl. cbn [bind].
  rewrite (wire_count_small t _ Hs Hl). cbn [bind]. rewrite takeN_app. reflexivity.
Qed.

(* ---- counted loops ---- *)
Lemma list_fuel_ge n buf : (n <= 65536 \/ n <= N.succ (lenN buf)) -> n <= N.of_nat (list_fuel n buf).
Proof.
  intro H. unfold list_fuel. rewrite N2Nat.id. apply N.min_glb; [lia|].
  destruct H as [H|H]; [|].
  - etransitivity; [exact H|apply N.le_max_l].
  - etransitivity; [exact H|apply N.le_max_r].
Qed.

Section ListRT.
  Context {A B : Type}.
  Variable wr : A -> res (B * list byte).       (* the writer may normalise the element (nested objects) *)
  Variable rd : list byte -> res (B * list byte).

  Fixpoint wr_each (l : list A) : res (list B * list byte) :=
    match l with
    | [] => Ok ([], [])
    | x :: r => do '(x', a) <- wr x; do '(r', b) <- wr_each r; Ok (x' :: r', a ++ b)
    end.

  Lemma read_n_rt l : forall l' body fuel rest,
    (forall x x' b, In x l -> wr x = Ok (x', b) -> forall rest, rd (b ++ rest) = Ok (x', rest)) ->
    wr_each l = Ok (l', body) -> lenN l <= N.of_nat fuel ->
    read_n rd fuel (lenN l) (body ++ rest) = Ok (l', rest).
  Proof.
    induction l as [|x l IH]; intros l' body fuel rest Hrt Hw Hf.
    - cbn [wr_each] in Hw. inversion Hw; subst. destruct fuel; reflexivity.
    - cbn [wr_each] in Hw.
      destruct (wr x) as [[x' a]|] eqn:Ex; cbn [bind] in Hw; [|discriminate].
      destruct (wr_each l) as [[r' b]|] eqn:Er; cbn [bind] in Hw; [|discriminate].
      inversion Hw; subst. rewrite lenN_cons in *.
      destruct fuel as [|fuel]; [cbn in Hf; lia|]. cbn [read_n].
      destruct (N.eqb_spec (N.succ (lenN l)) 0); [lia|].
      rewrite <- app_assoc. rewrite (Hrt x x' a (or_introl eq_refl) Ex). cbn [bind].
      rewrite N.pred_succ. rewrite (IH r' b fuel rest); [reflexivity| |reflexivity|lia].
      intros y y' c Hin. apply Hrt. right. exact Hin.
  Qed.

  Lemma wr_each_size l : forall l' body,
    (forall x x' b, In x l -> wr x = Ok (x', b) -> 0 < lenN b) -> wr_each l = Ok (l', body) -> lenN l <= lenN body.
  Proof.
    induction l as [|x l IH]; intros l' body Hnz Hw; [rewrite lenN_nil; lia|].
    cbn [wr_each] in Hw.
    destruct (wr x) as [[x' a]|] eqn:Ex; cbn [bind] in Hw; [|discriminate].
    destruct (wr_each l) as [[r' b]|] eqn:Er; cbn [bind] in Hw; [|discriminate].
    inversion Hw; subst. rewrite lenN_cons, lenN_app.
    pose proof (Hnz x x' a (or_introl eq_refl) Ex).
    pose proof (IH r' b (fun y y' c Hin => Hnz y y' c (or_intror Hin)) eq_refl). lia.
  Qed.

  Lemma wr_each_length l : forall l' body, wr_each l = Ok (l', body) -> lenN l' = lenN l.
  Proof.
    induction l as [|x l IH]; intros l' body Hw; cbn [wr_each] in Hw; [inversion Hw; reflexivity|].
    destruct (wr x) as [[x' a]|]; cbn [bind] in Hw; [|discriminate].
    destruct (wr_each l) as [[r' b]|] eqn:Er; cbn [bind] in Hw; [|discriminate].
    inversion Hw; subst. rewrite !lenN_cons. rewrite (IH _ _ eq_refl). reflexivity.
  Qed.

  (* count prefix ++ elements, read back *)
  Lemma read_list_rt le cnt l l' body rest :
    small cnt = true -> lenN l < bound cnt ->
    (tiny cnt = true \/ forall x x' b, In x l -> wr x = Ok (x', b) -> 0 < lenN b) ->
    (forall x x' b, In x l -> wr x = Ok (x', b) -> forall rest, rd (b ++ rest) = Ok (x', rest)) ->
    wr_each l = Ok (l', body) ->
    read_list le cnt rd ((int_bytes (ord le) (width cnt) (lenN l) ++ body) ++ rest) = Ok (l', rest).
  Proof.
    intros Hs Hl Hnz Hrt Hw. unfold read_list. rewrite <- app_assoc. rewrite read_prefix_rt by exact Hl. cbn [bind].
    rewrite (wire_count_small cnt _ Hs Hl). cbn [bind].
    apply read_n_rt with (body := body); [exact Hrt|exact Hw|].
    apply list_fuel_ge. destruct Hnz as [Ht|Hnz].
    - left. pose proof (bound_tiny cnt Ht). lia.
    - right. pose proof (wr_each_size l l' body Hnz Hw). rewrite lenN_app. lia.
  Qed.
End ListRT.

(* plain writers (no normalisation) as a special case *)
Lemma write_each_as_wr {A} (wr : A -> res (list byte)) l :
  wr_each (fun x => match wr x with Ok b => Ok (x, b) | Fail f => Fail f end) l =
  match write_each wr l with Ok b => Ok (l, b) | Fail f => Fail f end.
Proof.
  induction l as [|x l IH]; [reflexivity|]. cbn [wr_each write_each].
  destruct (wr x) as [a|]; cbn [bind]; [|reflexivity]. rewrite IH.
  destruct (write_each wr l) as [b|]; cbn [bind]; reflexivity.
Qed.

Lemma plain_list_rt {A} (wr : A -> res (list byte)) (rd : list byte -> res (A * list byte)) le cnt l bs rest :
  small cnt = true ->
  (tiny cnt = true \/ forall x b, In x l -> wr x = Ok b -> 0 < lenN b) ->
  (forall x b, In x l -> wr x = Ok b -> forall rest, rd (b ++ rest) = Ok (x, rest)) ->
  write_list le cnt wr l = Ok bs -> read_list le cnt rd (bs ++ rest) = Ok (l, rest).
Proof.
  intros Hs Hnz Hrt Hw. unfold write_list in Hw.
  destruct (length_prefix cnt (lenN l)) as [n|] eqn:El; cbn [bind] in Hw; [|discriminate].
  unfold length_prefix in El. destruct (N.ltb_spec (lenN l) (bound cnt)) as [Hl|]; [|discriminate]. inversion El; subst n.
  destruct (write_each wr l) as [body|] eqn:Eb; cbn [bind] in Hw; [|discriminate]. inversion Hw; subst bs.
  apply (read_list_rt (fun x => match wr x with Ok b => Ok (x, b) | Fail f => Fail f end) rd le cnt l l body rest Hs Hl).
  - destruct Hnz as [Ht|Hnz]; [left; exact Ht|right]. intros x x' b Hin E. destruct (wr x) as [b0|] eqn:Ew; [|discriminate].
    inversion E; subst. eapply Hnz; eassumption.
  - intros x x' b Hin E. destruct (wr x) as [b0|] eqn:Ew; [|discriminate]. inversion E; subst. apply Hrt; assumption.
  - rewrite write_each_as_wr, Eb. reflexivity.
Qed.

(* ---- the canonical domain of a primitive ---- *)
Definition fixed_canon (n : nat) (pad : N) (lf : bool) (s : list byte) : Prop :=
  (length s <= n)%nat /\ (if lf then no_head (pad_byte pad) s else no_last (pad_byte pad) s).

Definition canon_prim (p : prim) (v : value) : Prop :=
  match p, v with
  | PBasic _ t, VInt n => n < bound t
  | PFixed n pad lf, VStr s => fixed_canon n pad lf s
  | PString _ _, VStr _ => True
  | PBasicList _ _ elt, VInts l => Forall (fun n => n < bound elt) l
  | PFixedList _ _ n pad lf, VStrs l => Forall (fixed_canon n pad lf) l
  | PStringList _ _ _, VStrs _ => True
  | _, _ => False
  end.

Lemma lenN_pos_of_length {A} (l : list A) : (0 < length l)%nat -> 0 < lenN l.
Proof. rewrite lenN_length. lia. Qed.

Theorem prim_rt p v bs rest :
  prim_dec_ok p = true -> canon_prim p v -> w_prim p v = Ok bs -> r_prim p (bs ++ rest) = Ok (v, rest).
Proof.
  intros Hp Hc Hw. destruct p, v; cbn [canon_prim] in Hc; try tauto; cbn [w_prim r_prim prim_dec_ok] in *.
  - inversion Hw; subst. rewrite read_basic_rt by exact Hc. reflexivity.
  - inversion Hw; subst. destruct Hc as [Hl Hcan]. rewrite fixed_round_trip by assumption. reflexivity.
  - unfold write_string in Hw. destruct (length_prefix len (lenN s)) as [n|] eqn:E; cbn [bind] in Hw; [|discriminate].
    unfold length_prefix in E. destruct (N.ltb_spec (lenN s) (bound len)) as [Hl|]; [|discriminate]. inversion E; subst n.
    inversion Hw; subst. rewrite read_string_rt by assumption. reflexivity.
  - unfold write_basic_list in Hw. unfold read_basic_list.
    rewrite (plain_list_rt (fun v => Ok (write_basic le elt v)) (read_basic le elt) le cnt l bs rest Hp); [reflexivity| | |exact Hw].
    + right. intros x b _ E. inversion E. unfold write_basic. apply lenN_pos_of_length. rewrite int_bytes_length. destruct elt; cbn; lia.
    + intros x b Hin E rest'. inversion E. apply read_basic_rt. rewrite Forall_forall in Hc. apply Hc. exact Hin.
  - apply andb_true_iff in Hp. destruct Hp as [Hs Hn]. unfold write_fixed_list in Hw. unfold read_fixed_list.
    rewrite (plain_list_rt (fun s => Ok (write_fixed n pad left s)) (read_fixed n pad left) le cnt l bs rest Hs); [reflexivity| | |exact Hw].
    + apply orb_true_iff in Hn. destruct Hn as [Ht|Hz]; [left; exact Ht|right].
      intros x b _ E. inversion E. apply lenN_pos_of_length. rewrite write_fixed_length. apply Nat.ltb_lt in Hz. exact Hz.
    + intros x b Hin E rest'. inversion E. rewrite Forall_forall in Hc. destruct (Hc x Hin) as [Hl Hcan].
      apply fixed_round_trip; assumption.
  - apply andb_true_iff in Hp. destruct Hp as [Hs Hl]. unfold write_string_list in Hw. unfold read_string_list.
    rewrite (plain_list_rt (write_string le len) (read_string le len) le cnt l bs rest Hs); [reflexivity| | |exact Hw].
    + right. intros x b _ E. unfold write_string in E. destruct (length_prefix len (lenN x)) as [n0|]; cbn [bind] in E; [|discriminate].
      inversion E. rewrite lenN_app. assert (0 < lenN (int_bytes (ord le) (width len) n0)).
      { apply lenN_pos_of_length. rewrite int_bytes_length. destruct len; cbn; lia. } lia.
    + intros x b Hin E rest'. unfold write_string in E. destruct (length_prefix len (lenN x)) as [n|] eqn:En; cbn [bind] in E; [|discriminate].
      unfold length_prefix in En. destruct (N.ltb_spec (lenN x) (bound len)) as [Hx|]; [|discriminate]. inversion En; subst n.
      inversion E; subst. apply read_string_rt; assumption.
Qed.
