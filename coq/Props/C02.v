(* Props/C02.v — every message is laid out on the wire exactly as the pinned protocol schema says. *)
From FP.Props Require Import Common C03.
From FP.Theory Require Import Uniform LRenderSound LParseSound TableEquiv.
From FP.Pinned Require Import Pinned.
Import Coq.Strings.String.StringSyntax.
Delimit Scope string_scope with string.
Local Open Scope N_scope.

(* H_pin.  For every type, in declaration order: the layout of the schema recognised from the code - field by
   field: scalar type, fixed width / pad / side, prefix types, element types, nested and selected types with what
   happens to an absent part, the frame's computed length and checksum algorithm - equals the committed pinned
   layout, under the protocol's single byte order.  Tables and PDSL version strings likewise. *)
Definition layouts_match : bool :=
  (length schemas =? length pinned_layouts)%nat &&
  forallb (fun '(sd, lt) => (sd_id sd =? lt_id lt) && layout_matches (order_of (lt_proto lt)) (sd_schema sd) (lt_fields lt))
          (combine schemas pinned_layouts).
Lemma H_pin_layouts : layouts_match = true.
Proof. vm_compute. reflexivity. Qed.
Lemma H_pin_tables : tables_equivb tables pinned_tables = true.
Proof. vm_compute. reflexivity. Qed.
Definition versions_match : bool :=
  forallb (fun '(pkg, ver) =>
             existsb (fun x => match x with (_, pkg', _, ver') => String.eqb pkg pkg' && String.eqb ver ver' end) pinned_protocols)
          versions.
Lemma H_pin_versions : versions_match = true.
Proof. vm_compute. reflexivity. Qed.

(* What the layouts mean.  The programs found in /repo behave as their schemas on every buffer and receiver
   (Common.encode_spec / decode_spec); the schema's layout is the pinned one (H_pin); a layout field determines
   the schema kind up to error-propagation flags, which do not affect bytes.  Two statements make this concrete: *)

(* (1) encode and decode of every type are functions of the recognised schema list alone *)
Theorem C02_code_behaves_as_schema : forall t fs r buf,
  (typed t fs = true -> encode t fs buf = lift (senc t fs) buf) /\
  (receiver_ok t r = true -> decode t r buf = sdec t buf).
Proof. exact (fun t fs r buf => conj (encode_spec t fs buf) (decode_spec t r buf)). Qed.

(* (2) the schema of every type erases to exactly the pinned layout under the protocol's byte order *)
Theorem C02_schema_is_pinned_layout : forall sd lt,
  In (sd, lt) (combine schemas pinned_layouts) ->
  sd_id sd = lt_id lt /\ layout_of (order_of (lt_proto lt)) (sd_schema sd) = Some (lt_fields lt).
Proof.
  intros sd lt Hin. pose proof H_pin_layouts as H. unfold layouts_match in H. apply andb_true_iff in H. destruct H as [_ H].
  rewrite forallb_forall in H. specialize (H (sd, lt) Hin). cbn beta iota in H.
  apply andb_true_iff in H. destruct H as [H1 H2]. split; [apply N.eqb_eq; exact H1|].
  unfold layout_matches in H2. destruct (layout_of (order_of (lt_proto lt)) (sd_schema sd)) as [l'|]; [|discriminate].
  destruct (list_eq_dec lkind_eq_dec l' (lt_fields lt)) as [->|]; [reflexivity|discriminate].
Qed.

(* (3) the bytes: what Encode appends is what the independent renderer of the PINNED layout (Spec/LRender.v: fields
   left to right, one byte order per protocol, nested and selected parts by their own layouts, the frame's length
   counted from the body's bytes and its checksum computed over the frame's bytes - no reference to the message
   programs or the recognised schemas) produces from the message as Encode leaves it. *)
Lemma H_sums : sums_ok registry0 schemas = true.
Proof. vm_compute. reflexivity. Qed.

Lemma combine_Forall2 {A B} (P : A -> B -> Prop) : forall (l1 : list A) (l2 : list B),
  length l1 = length l2 -> (forall x y, In (x, y) (combine l1 l2) -> P x y) -> Forall2 P l1 l2.
Proof.
  induction l1 as [|a l1 IH]; intros [|b l2] Hlen H; try discriminate; constructor.
  - apply H. left. reflexivity.
  - apply IH; [cbn in Hlen; congruence|]. intros x y Hin. apply H. right. exact Hin.
Qed.

Lemma pinned_lays_out : Forall2 (lays_out order_of) schemas pinned_layouts.
Proof.
  apply combine_Forall2.
  - pose proof H_pin_layouts as H. unfold layouts_match in H. apply andb_true_iff in H. destruct H as [H _].
    apply Nat.eqb_eq. exact H.
  - intros sd lt Hin. exact (C02_schema_is_pinned_layout sd lt Hin).
Qed.

Theorem C02_encoded_bytes_are_the_pinned_layout_rendered : forall t fs buf fs' buf',
  typed t fs = true -> encode t fs buf = Ok (fs', buf') ->
  exists bs, buf' = buf ++ bs /\ lrender registry0 order_of pinned_layouts t fs' = Ok bs.
Proof.
  intros t fs buf fs' buf' Ht H. rewrite encode_spec in H by exact Ht.
  destruct (senc t fs) as [[a b]|] eqn:E; cbn [lift] in H; [|discriminate]. inversion H; subst.
  exists b. split; [reflexivity|].
  exact (lrender_sound tables registry0 order_of schemas pinned_layouts pinned_lays_out H_sums t fs fs' b E).
Qed.

(* (4) and decoding: Decode IS the independent parser of the pinned layout (Spec/LParse.v) - the same function of the
   bytes, on every byte string, valid or not, into any receiver of the right shape *)
Theorem C02_decode_is_the_pinned_layout_parser : forall t r buf,
  receiver_ok t r = true -> decode t r buf = lparse tables order_of pinned_layouts t buf.
Proof.
  intros t r buf Hr. rewrite decode_spec by exact Hr.
  exact (lparse_sound tables order_of schemas pinned_layouts pinned_lays_out t buf).
Qed.

(* non-vacuity: the SSE frame's pinned layout, and a concrete encoding laid out accordingly *)
Example C02_sse_frame_layout :
  option_map lt_fields (find (fun lt => lt_id lt =? id_sse_bin_SseBinary) pinned_layouts)
  = Some [LInt U32; LInt U64; LLen; LSel 13 0 NilSkip; LSum "SSE_BIN"%string U32].
Proof. vm_compute. reflexivity. Qed.
Example C02_nonvacuous :
  encode id_sse_bin_SseBinary [VInt 33; VInt 258; VInt 0; VObj id_sse_bin_Heartbeat []; VInt 0] []
  = Ok ([VInt 33; VInt 258; VInt 0; VObj id_sse_bin_Heartbeat []; VInt 36],
        [x00; x00; x00; x21;  x00; x00; x00; x00; x00; x00; x01; x02;  x00; x00; x00; x00;  x00; x00; x00; x24]).
Proof. vm_compute. reflexivity. Qed.

(* the renderer on its own: the stored length and checksum fields are ignored (here stale: 7 and 9) *)
Example C02_renderer_nonvacuous :
  lrender registry0 order_of pinned_layouts id_sse_bin_SseBinary [VInt 33; VInt 258; VInt 7; VObj id_sse_bin_Heartbeat []; VInt 9]
  = Ok [x00; x00; x00; x21;  x00; x00; x00; x00; x00; x00; x01; x02;  x00; x00; x00; x00;  x00; x00; x00; x24].
Proof. vm_compute. reflexivity. Qed.

Print Assumptions C02_code_behaves_as_schema.
Print Assumptions C02_schema_is_pinned_layout.
Print Assumptions C02_encoded_bytes_are_the_pinned_layout_rendered.
Print Assumptions C02_decode_is_the_pinned_layout_parser.
