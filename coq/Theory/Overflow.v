(* Theory/Overflow.v — values too long for their length prefix are refused (C18). *)
From FP.Theory Require Export FrameFacts.
From Coq Require Import ZifyBool ZifyNat ZifyN.
Local Open Scope N_scope.

Lemma length_prefix_ok t n : n < bound t -> length_prefix t n = Ok n.
Proof. intro H. unfold length_prefix. destruct (N.ltb_spec n (bound t)); [reflexivity|lia]. Qed.
Lemma length_prefix_refused t n : bound t <= n -> length_prefix t n = Fail FErr.
Proof. intro H. unfold length_prefix. destruct (N.ltb_spec n (bound t)); [lia|reflexivity]. Qed.
Lemma length_prefix_inv t n m : length_prefix t n = Ok m -> m = n /\ n < bound t.
Proof. unfold length_prefix. destruct (N.ltb_spec n (bound t)) as [Hlt|Hge]; intro Hm; inversion Hm; subst. split; [reflexivity|exact Hlt]. Qed.

(* prefixed text *)
Lemma write_string_refused le t s : bound t <= lenN s -> write_string le t s = Fail FErr.
Proof. intro H. unfold write_string. rewrite length_prefix_refused by exact H. reflexivity. Qed.
Lemma write_string_ok le t s : lenN s < bound t -> write_string le t s = Ok (int_bytes (ord le) (width t) (lenN s) ++ s).
Proof. intro H. unfold write_string. rewrite length_prefix_ok by exact H. reflexivity. Qed.
Lemma write_string_inv le t s bs : write_string le t s = Ok bs -> lenN s < bound t /\ bs = int_bytes (ord le) (width t) (lenN s) ++ s.
Proof.
  unfold write_string. destruct (length_prefix t (lenN s)) as [n|] eqn:E; cbn [bind]; [|discriminate].
  apply length_prefix_inv in E. destruct E as [-> E]. intro H. inversion H. split; [exact E|reflexivity].
Qed.

(* lists: the count is checked before anything is written *)
Lemma write_list_refused {A} le cnt (wr : A -> res (list byte)) l : bound cnt <= lenN l -> write_list le cnt wr l = Fail FErr.
Proof. intro H. unfold write_list. rewrite length_prefix_refused by exact H. reflexivity. Qed.
Lemma write_list_inv {A} le cnt (wr : A -> res (list byte)) l bs : write_list le cnt wr l = Ok bs ->
  lenN l < bound cnt /\ exists body, write_each wr l = Ok body /\ bs = int_bytes (ord le) (width cnt) (lenN l) ++ body.
Proof.
  unfold write_list. destruct (length_prefix cnt (lenN l)) as [n|] eqn:E; cbn [bind]; [|discriminate].
  apply length_prefix_inv in E. destruct E as [-> E].
  destruct (write_each wr l) as [body|]; cbn [bind]; [|discriminate].
  intro H. inversion H. split; [exact E|]. exists body. split; reflexivity.
Qed.

Lemma write_each_all {A} (wr : A -> res (list byte)) l body : write_each wr l = Ok body -> Forall (fun x => exists b, wr x = Ok b) l.
Proof.
  revert body. induction l as [|x l IH]; intros body H; [constructor|]. cbn [write_each] in H.
  destruct (wr x) as [a|] eqn:E; cbn [bind] in H; [|discriminate].
  destruct (write_each wr l) as [b|] eqn:E2; cbn [bind] in H; [|discriminate].
  constructor; [eexists; exact E|eapply IH; reflexivity].
Qed.

(* what "fits its prefixes" means for a primitive value *)
Definition prim_fits (p : prim) (v : value) : Prop :=
  match p, v with
  | PString _ len, VStr s => lenN s < bound len
  | PBasicList _ cnt _, VInts l => lenN l < bound cnt
  | PFixedList _ cnt _ _ _, VStrs l => lenN l < bound cnt
  | PStringList _ cnt len, VStrs l => lenN l < bound cnt /\ Forall (fun s => lenN s < bound len) l
  | _, _ => True
  end.

(* success implies every length was representable (so the prefix on the wire is the true length) ... *)
Theorem w_prim_ok_fits p v bs : w_prim p v = Ok bs -> prim_fits p v.
Proof.
  destruct p, v; cbn [w_prim prim_fits]; try tauto; intro H.
  - apply write_string_inv in H. tauto.
  - unfold write_basic_list in H. apply write_list_inv in H. tauto.
  - unfold write_fixed_list in H. apply write_list_inv in H. tauto.
  - unfold write_string_list in H. apply write_list_inv in H. destruct H as [H1 [body [H2 _]]]. split; [exact H1|].
    apply write_each_all in H2. eapply Forall_impl; [|exact H2]. intros s [b Hb]. apply write_string_inv in Hb. tauto.
Qed.

(* ... and an over-long value is refused with an error, nothing else *)
Definition prim_overflows (p : prim) (v : value) : Prop :=
  match p, v with
  | PString _ len, VStr s => bound len <= lenN s
  | PBasicList _ cnt _, VInts l => bound cnt <= lenN l
  | PFixedList _ cnt _ _ _, VStrs l => bound cnt <= lenN l
  | PStringList _ cnt len, VStrs l => bound cnt <= lenN l
  | _, _ => False
  end.
Theorem w_prim_overflow_refused p v : prim_overflows p v -> w_prim p v = Fail FErr.
Proof.
  destruct p, v; cbn [w_prim prim_overflows]; try tauto; intro H.
  - apply write_string_refused. exact H.
  - apply write_list_refused. exact H.
  - apply write_list_refused. exact H.
  - apply write_list_refused. exact H.
Qed.

(* an over-long element of a text list is refused too *)
Lemma write_each_refused {A} (wr : A -> res (list byte)) l x : In x l -> wr x = Fail FErr ->
  (forall y, In y l -> wr y = Fail FErr \/ exists b, wr y = Ok b) -> write_each wr l = Fail FErr.
Proof.
  induction l as [|y l IH]; intros Hin Hx Hall; [destruct Hin|]. cbn [write_each].
  destruct Hin as [->|Hin].
  - rewrite Hx. reflexivity.
  - destruct (Hall y (or_introl eq_refl)) as [Hy|[b Hy]]; rewrite Hy; cbn [bind]; [reflexivity|].
    rewrite IH; [reflexivity|exact Hin|exact Hx|intros z Hz; apply Hall; right; exact Hz].
Qed.

Theorem string_list_element_refused le cnt len l s :
  In s l -> bound len <= lenN s -> lenN l < bound cnt -> write_string_list le cnt len l = Fail FErr.
Proof.
  intros Hin Hs Hl. unfold write_string_list, write_list. rewrite length_prefix_ok by exact Hl. cbn [bind].
  rewrite (write_each_refused (write_string le len) l s Hin (write_string_refused le len s Hs)); [reflexivity|].
  intros y _. unfold write_string. destruct (length_prefix len (lenN y)) as [n|f] eqn:E; cbn [bind].
  - right. eexists; reflexivity.
  - left. unfold length_prefix in E. destruct (lenN y <? bound len); inversion E. reflexivity.
Qed.

(* ---------------- message level ---------------- *)
Section Msg.
  Variable tables : list (N * table).
  Variable senc : N -> list value -> res (list value * list byte).
  Variable zero_rec : N -> option (list value).

  (* a field value respects its prefixes; nested objects are covered by the same theorem one level down *)
  Definition kind_fits (k : kind) (v : value) : Prop :=
    match k, v with
    | KPrim p _, v => prim_fits p v
    | KObjs _ cnt _, VObjs l => lenN l < bound cnt
    | _, _ => True
    end.

  Lemma render_kind_ok_fits done k v v' bs : render_kind tables senc zero_rec done k v = Ok (v', bs) -> kind_fits k v.
  Proof.
    destruct k; cbn [render_kind kind_fits].
    - destruct (w_prim p v) as [b|f] eqn:E; [|destruct f; try discriminate; destruct propagate; discriminate].
      intros _. eapply w_prim_ok_fits. exact E.
    - destruct v; try discriminate. destruct (length_prefix cnt (lenN l)) as [n|] eqn:E; cbn [bind]; [|discriminate].
      intros _. apply length_prefix_inv in E. tauto.
    - destruct v; tauto.
  Qed.

  Lemma render_kind_overflow_refused done p v : prim_overflows p v -> render_kind tables senc zero_rec done (KPrim p true) v = Fail FErr.
  Proof. intro H. cbn [render_kind]. rewrite w_prim_overflow_refused by exact H. reflexivity. Qed.

  Fixpoint fields_fit (ks : list kind) (vs : list value) : Prop :=
    match ks, vs with
    | k :: ks', v :: vs' => kind_fits k v /\ fields_fit ks' vs'
    | _, _ => True
    end.

  Lemma render_fields_ok_fit ks : forall done vs vs' bs,
    render_fields tables senc zero_rec done ks vs = Ok (vs', bs) -> fields_fit ks vs.
  Proof.
    induction ks as [|k ks IH]; intros done vs vs' bs H; [exact I|].
    destruct vs as [|v vs]; [exact I|]. cbn [render_fields] in H.
    destruct (render_kind tables senc zero_rec done k v) as [[v1 b1]|] eqn:E; cbn [bind] in H; [|discriminate].
    destruct (render_fields tables senc zero_rec (done ++ [v1]) ks vs) as [[r b2]|] eqn:E2; cbn [bind] in H; [|discriminate].
    split; [eapply render_kind_ok_fits; exact E|eapply IH; exact E2].
  Qed.

  (* one over-long field makes the whole Encode fail with an error, provided the fields before it encode *)
  Lemma render_fields_overflow ks1 p ks2 : forall done vs1 v vs2 r1 b1,
    length vs1 = length ks1 ->
    render_fields tables senc zero_rec done ks1 vs1 = Ok (r1, b1) ->
    prim_overflows p v ->
    render_fields tables senc zero_rec done (ks1 ++ KPrim p true :: ks2) (vs1 ++ v :: vs2) = Fail FErr.
  Proof.
    induction ks1 as [|k ks1 IH]; intros done vs1 v vs2 r1 b1 Hl H Hov.
    - destruct vs1; [|discriminate]. cbn [app render_fields]. rewrite render_kind_overflow_refused by exact Hov. reflexivity.
    - destruct vs1 as [|w vs1]; [discriminate|]. cbn [app render_fields] in *.
      destruct (render_kind tables senc zero_rec done k w) as [[w1 c1]|] eqn:E; cbn [bind] in *; [|discriminate].
      destruct (render_fields tables senc zero_rec (done ++ [w1]) ks1 vs1) as [[r c2]|] eqn:E2; cbn [bind] in H; [|discriminate].
      rewrite (IH (done ++ [w1]) vs1 v vs2 r c2) by (try exact Hov; try exact E2; cbn in Hl; lia). reflexivity.
  Qed.
End Msg.
