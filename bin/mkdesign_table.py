#!/usr/bin/env python3
"""Rewrites the seeded-change table of DESIGN.md (between the SEEDED-TABLE markers) from seeded/RESULTS.jsonl."""
import json, re, os
V = os.path.dirname(os.path.dirname(os.path.abspath(__file__)))
rows = {}
for l in open(os.path.join(V, "seeded", "RESULTS.jsonl")):
    r = json.loads(l); rows[r["change"]] = r          # the last run of a change wins
def key(n):
    m = re.match(r"(prefix-)?C(\d+)(\w*)-?(\d*)", n)
    return (1 if m.group(1) else 0, int(m.group(2)), n)
out = ["| change | prop | verdict | obligations (first broken) | corr. | first failing input found by the oracle |", "|---|---|---|---|---|---|"]
for n in sorted(rows, key=key):
    r = rows[n]
    m = re.search(r"theorems (\d+)/(\d+), correspondence (\d+) cases \((\d+) mismatches\), oracle (\d+) evaluations \((\d+) failures\)", r["summary"])
    bo = ", ".join(r.get("broken_obligations", [])[:3])
    verdict = "MISSED" if r["exit"] == 0 else ("input" if r.get("kind") == "failing-input" else "no input")
    out.append("| `%s` | %s | %s | %s/%s%s | %s | %s |" % (n, r["property"], verdict, m.group(1), m.group(2), (" (" + bo + ")") if bo else "",
               m.group(4), (r.get("first_failure") or "").replace("|", "/")[:110]))
p = os.path.join(V, "DESIGN.md")
s = open(p).read()
a = s.index("<!-- SEEDED-TABLE-BEGIN -->") + len("<!-- SEEDED-TABLE-BEGIN -->")
b = s.index("<!-- SEEDED-TABLE-END -->")
s = s[:a] + "\n" + "\n".join(out) + "\n" + s[b:]
open(p, "w").write(s)
print(len(rows), "changes")
