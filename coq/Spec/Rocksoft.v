(* Spec/Rocksoft.v — the parametrised CRC of the "Rocksoft model" / the CRC catalogue, on bit lists, written as the
   catalogue describes it: a register of [width] bits shifted towards the most significant end, input bytes (reflected
   if [refin]) folded into the top eight bits, the polynomial subtracted whenever a one is shifted out, the final
   register reflected if [refout] and xor-ed with [xorout].  Independent of Model/Checksum.v.
   A register is a [list bool] of length width, least significant bit first. *)
From Coq Require Import List Bool Arith.
Import ListNotations.

Fixpoint xors (a b : list bool) : list bool :=
  match a, b with
  | x :: a', y :: b' => xorb x y :: xors a' b'
  | _, _ => []
  end.

(* one shift towards the top: the top bit leaves; if it was one, the polynomial is subtracted *)
Definition msb_step (poly r : list bool) : list bool :=
  let s := false :: removelast r in
  if last r false then xors s poly else s.

Definition iter8 {A} (f : A -> A) (x : A) : A := f (f (f (f (f (f (f (f x))))))).

(* a byte is eight bits, least significant first *)
Definition feed (width : nat) (poly : list bool) (refin : bool) (r : list bool) (b : list bool) : list bool :=
  let b' := if refin then rev b else b in
  iter8 (msb_step poly) (xors r (repeat false (width - 8) ++ b')).

Record crc_params := { cp_width : nat; cp_poly : list bool; cp_init : list bool; cp_refin : bool; cp_refout : bool; cp_xorout : list bool }.

Definition rocksoft (p : crc_params) (msg : list (list bool)) : list bool :=
  let r := fold_left (feed (cp_width p) (cp_poly p) (cp_refin p)) msg (cp_init p) in
  xors (if cp_refout p then rev r else r) (cp_xorout p).
