package main

// oracle_pinned.go — an independent interpreter of the pinned wire schema (pinned/schema.json) and
// the oracles built on it: C02 (layout), C03 (byte order), C12 (discriminators).
// The interpreter shares nothing with the library: it renders from the schema, field by field.

import (
	"bytes"
	"encoding/hex"
	"encoding/json"
	"errors"
	"fmt"
	"os"
	"reflect"
	"sort"
	"strings"

	"github.com/xinchentechnote/fin-proto-go/codec"
)

type pField struct {
	Name  string `json:"name"`
	Wire  string `json:"wire"`
	Ity   string `json:"ity"`
	Cnt   string `json:"cnt"`
	Len   string `json:"len"`
	N     int    `json:"n"`
	Pad   int    `json:"pad"`
	Left  bool   `json:"left"`
	Ref   string `json:"ref"`
	Table string `json:"table"`
	Key   string `json:"key"`
	Nil   string `json:"nil"`
}
type pFrame struct {
	LengthField   string `json:"length_field"`
	ChecksumField string `json:"checksum_field"`
	Algorithm     string `json:"algorithm"`
}
type pType struct {
	Protocol  string   `json:"protocol"`
	Generated bool     `json:"generated"`
	Fields    []pField `json:"fields"`
	Frame     *pFrame  `json:"frame"`
}
type pEntry struct {
	Key  any    `json:"key"`
	Type string `json:"type"`
}
type pTable struct {
	KeyKind string   `json:"key_kind"`
	Entries []pEntry `json:"entries"`
}
type pProto struct {
	Order   string `json:"order"`
	Version string `json:"version"`
}
type pinnedSchema struct {
	Protocols map[string]pProto `json:"protocols"`
	Types     map[string]pType  `json:"types"`
	Tables    map[string]pTable `json:"tables"`
}

var pinned pinnedSchema
var typeByName = map[string]*genType{}
var pinnedPath = "/verif/pinned/schema.json"
var repoPath = "/repo"

func loadPinned() {
	if len(pinned.Types) > 0 {
		return
	}
	b, err := os.ReadFile(pinnedPath)
	if err != nil {
		panic(err)
	}
	if err := json.Unmarshal(b, &pinned); err != nil {
		panic(err)
	}
	for i := range genTypes {
		typeByName[genTypes[i].QName()] = &genTypes[i]
	}
	patchSpecsFromPinned()
}

// When the translator could not translate a (changed) method body, the generated registry lacks that
// type's wire parameters; the generators then take them from the pinned schema so that the oracles
// keep aiming at the right inputs.
func patchSpecsFromPinned() {
	tblId := map[string]int{}
	for i := range genTables {
		tblId[genTables[i].Pkg+"."+genTables[i].Name] = genTables[i].Id
	}
	for i := range genTypes {
		t := &genTypes[i]
		pt, ok := pinned.Types[t.QName()]
		if !ok {
			continue
		}
		idx := map[string]int{}
		for j, f := range t.Fields {
			idx[f.Name] = j
		}
		for _, pf := range pt.Fields {
			j, ok := idx[pf.Name]
			if !ok {
				continue
			}
			f := &t.Fields[j]
			missing := f.Wire == f.Kind && (f.Kind == "str" || f.Kind == "ints" || f.Kind == "strs" || f.Kind == "ptrs")
			if missing {
				f.Wire, f.Cnt, f.Len, f.N, f.Pad, f.Left = pf.Wire, pf.Cnt, pf.Len, pf.N, pf.Pad, pf.Left
				if pf.Ity != "" {
					f.Ity = pf.Ity
				}
			}
			if f.Kind == "iface" && f.Tbl < 0 && pf.Table != "" {
				if id, ok := tblId[pf.Table]; ok {
					f.Tbl = id
					f.Key = idx[pf.Key]
				}
			}
		}
		if pt.Frame != nil && t.Frame.Len < 0 {
			t.Frame.Len = idx[pt.Frame.LengthField]
			t.Frame.Sum = -1
			if pt.Frame.ChecksumField != "" {
				t.Frame.Sum = idx[pt.Frame.ChecksumField]
				t.Frame.Alg = pt.Frame.Algorithm
			}
			for j, f := range t.Fields {
				if f.Kind == "iface" {
					t.Frame.Body = j
				}
			}
		}
		if pt.Frame != nil && t.Frame.Sum < 0 && pt.Frame.ChecksumField != "" {
			t.Frame.Sum = idx[pt.Frame.ChecksumField]
			t.Frame.Alg = pt.Frame.Algorithm
		}
	}
	frameTypes, ifaceTypes = nil, nil
	initFrames()
}

func (e pEntry) keyString() string {
	switch k := e.Key.(type) {
	case string:
		return "s:" + k
	case float64:
		return fmt.Sprintf("n:%d", uint64(k))
	}
	return "?"
}

func pinnedLookup(table string, key string) (string, bool) {
	tb := pinned.Tables[table]
	found, ok := "", false
	for _, e := range tb.Entries {
		if e.keyString() == key {
			found, ok = e.Type, true
		}
	}
	return found, ok
}

type span struct {
	Field    string
	Off, Len int
	IsInt    bool
}

type renderer struct {
	out   []byte
	spans []span
	reg   map[string]bool // checksum services considered registered
}

var errOverflow = errors.New("length does not fit its prefix")
var errUnknownKey = errors.New("unknown discriminator")
var errWouldPanic = errors.New("nil part the encoder dereferences")
var errUnpinned = errors.New("type not in the pinned schema")

func (r *renderer) putInt(field string, le bool, w int, v uint64) {
	b := make([]byte, w)
	putUint(b, le, v)
	r.spans = append(r.spans, span{field, len(r.out), w, true})
	r.out = append(r.out, b...)
}
func (r *renderer) putRaw(field string, b []byte) {
	r.spans = append(r.spans, span{field, len(r.out), len(b), false})
	r.out = append(r.out, b...)
}
func (r *renderer) putCount(field string, le bool, ity string, n int) error {
	if n > prefixMax(ity) && widthOf[ity] < 4 || (widthOf[ity] == 4 && uint64(n) > 0xffffffff) {
		return errOverflow
	}
	r.putInt(field, le, widthOf[ity], uint64(n))
	return nil
}

func keyOfValue(v reflect.Value) string {
	if v.Kind() == reflect.String {
		return "s:" + v.String()
	}
	return fmt.Sprintf("n:%d", bitsOf(v))
}

// render the struct ev (addressable) of pinned type qn
func (r *renderer) render(qn string, ev reflect.Value, path string) error {
	pt, ok := pinned.Types[qn]
	if !ok {
		return errUnpinned
	}
	le := pinned.Protocols[pt.Protocol].Order == "LE"
	start := len(r.out)
	lenOff, bodyStart, bodyEnd := -1, -1, -1
	for _, pf := range pt.Fields {
		fv := ev.FieldByName(pf.Name)
		if !fv.IsValid() {
			return fmt.Errorf("pinned field %s.%s missing from the Go struct", qn, pf.Name)
		}
		name := path + pf.Name
		switch pf.Wire {
		case "basic":
			r.putInt(name, le, widthOf[pf.Ity], bitsOfField(fv))
		case "computed-length":
			lenOff = len(r.out)
			r.putInt(name, le, 4, 0)
			bodyStart = len(r.out)
		case "computed-checksum":
			if bodyEnd < 0 {
				bodyEnd = len(r.out)
			}
			if lenOff >= 0 {
				putUint(r.out[lenOff:lenOff+4], le, uint64(bodyEnd-bodyStart))
			}
			v := bitsOfField(fv)
			if r.reg == nil || r.reg[pt.Frame.Algorithm] {
				v = refAlg(pt.Frame.Algorithm, r.out[start:])
			}
			r.putInt(name, le, widthOf[pf.Ity], v)
		case "fixed":
			r.putRaw(name, specWriteFixed([]byte(fv.String()), pf.N, byte(pf.Pad), pf.Left))
		case "string":
			if err := r.putCount(name+"#len", le, pf.Len, len(fv.String())); err != nil {
				return err
			}
			r.putRaw(name, []byte(fv.String()))
		case "basiclist":
			if err := r.putCount(name+"#count", le, pf.Cnt, fv.Len()); err != nil {
				return err
			}
			for j := 0; j < fv.Len(); j++ {
				r.putInt(fmt.Sprintf("%s[%d]", name, j), le, widthOf[pf.Ity], bitsOfField(fv.Index(j)))
			}
		case "fixedlist":
			if err := r.putCount(name+"#count", le, pf.Cnt, fv.Len()); err != nil {
				return err
			}
			for j := 0; j < fv.Len(); j++ {
				r.putRaw(fmt.Sprintf("%s[%d]", name, j), specWriteFixed([]byte(fv.Index(j).String()), pf.N, byte(pf.Pad), pf.Left))
			}
		case "stringlist":
			if err := r.putCount(name+"#count", le, pf.Cnt, fv.Len()); err != nil {
				return err
			}
			for j := 0; j < fv.Len(); j++ {
				s := fv.Index(j).String()
				if err := r.putCount(fmt.Sprintf("%s[%d]#len", name, j), le, pf.Len, len(s)); err != nil {
					return err
				}
				r.putRaw(fmt.Sprintf("%s[%d]", name, j), []byte(s))
			}
		case "objlist":
			if err := r.putCount(name+"#count", le, pf.Cnt, fv.Len()); err != nil {
				return err
			}
			for j := 0; j < fv.Len(); j++ {
				if fv.Index(j).IsNil() {
					return errWouldPanic
				}
				if err := r.render(pf.Ref, fv.Index(j).Elem(), fmt.Sprintf("%s[%d].", name, j)); err != nil {
					return err
				}
			}
		case "val":
			if err := r.render(pf.Ref, fv, name+"."); err != nil {
				return err
			}
		case "ptr":
			if fv.IsNil() {
				switch pf.Nil {
				case "fill-new":
					z := reflect.New(fv.Type().Elem())
					if err := r.render(pf.Ref, z.Elem(), name+"."); err != nil {
						return err
					}
				case "skip":
				default:
					return errWouldPanic
				}
			} else if err := r.render(pf.Ref, fv.Elem(), name+"."); err != nil {
				return err
			}
		case "iface":
			if fv.IsNil() {
				switch pf.Nil {
				case "fill-table":
					tn, ok := pinnedLookup(pf.Table, keyOfValue(ev.FieldByName(pf.Key)))
					if !ok {
						return errUnknownKey
					}
					gt, ok := typeByName[tn]
					if !ok {
						return errUnpinned
					}
					if err := r.render(tn, reflect.ValueOf(gt.New()).Elem(), name+"."); err != nil {
						return err
					}
				case "skip":
				default:
					return errWouldPanic
				}
			} else {
				dyn := fv.Elem().Elem()
				gt, ok := typeByRT[dyn.Type()]
				if !ok {
					return errUnpinned
				}
				if err := r.render(gt.QName(), dyn, name+"."); err != nil {
					return err
				}
			}
			if lenOff >= 0 && bodyEnd < 0 {
				bodyEnd = len(r.out)
			}
		default:
			return fmt.Errorf("pinned schema: unknown wire kind %q", pf.Wire)
		}
	}
	if lenOff >= 0 && pt.Frame != nil && pt.Frame.ChecksumField == "" {
		if bodyEnd < 0 {
			bodyEnd = len(r.out)
		}
		putUint(r.out[lenOff:lenOff+4], le, uint64(bodyEnd-bodyStart))
	}
	return nil
}

// ---------- parser: bytes -> dump text ----------
type pparser struct{ in []byte }

var errShort = errors.New("short input")

func (p *pparser) take(n int) ([]byte, error) {
	if n < 0 || n > len(p.in) {
		return nil, errShort
	}
	b := p.in[:n]
	p.in = p.in[n:]
	return b, nil
}
func (p *pparser) int(le bool, w int) (uint64, error) {
	b, err := p.take(w)
	if err != nil {
		return 0, err
	}
	return getUint(b, le), nil
}

func (p *pparser) parse(qn string, sb *strings.Builder) error {
	pt, ok := pinned.Types[qn]
	if !ok {
		return errUnpinned
	}
	gt := typeByName[qn]
	le := pinned.Protocols[pt.Protocol].Order == "LE"
	fmt.Fprintf(sb, "o%d(", gt.Id)
	keys := map[string]string{}
	for i, pf := range pt.Fields {
		if i > 0 {
			sb.WriteByte(' ')
		}
		switch pf.Wire {
		case "basic", "computed-length", "computed-checksum":
			w := 4
			if pf.Ity != "" {
				w = widthOf[pf.Ity]
			}
			v, err := p.int(le, w)
			if err != nil {
				return err
			}
			fmt.Fprintf(sb, "i%x", v)
			keys[pf.Name] = fmt.Sprintf("n:%d", v)
		case "fixed":
			b, err := p.take(pf.N)
			if err != nil {
				return err
			}
			s := specReadFixed(b, byte(pf.Pad), pf.Left)
			sb.WriteString("s" + hex.EncodeToString(s))
			keys[pf.Name] = "s:" + string(s)
		case "string":
			n, err := p.int(le, widthOf[pf.Len])
			if err != nil {
				return err
			}
			if n > uint64(len(p.in)) {
				return errShort
			}
			b, _ := p.take(int(n))
			sb.WriteString("s" + hex.EncodeToString(b))
			keys[pf.Name] = "s:" + string(b)
		case "basiclist":
			n, err := p.int(le, widthOf[pf.Cnt])
			if err != nil {
				return err
			}
			sb.WriteString("I(")
			for j := uint64(0); j < n; j++ {
				v, err := p.int(le, widthOf[pf.Ity])
				if err != nil {
					return err
				}
				fmt.Fprintf(sb, "%x;", v)
			}
			sb.WriteString(")")
		case "fixedlist":
			n, err := p.int(le, widthOf[pf.Cnt])
			if err != nil {
				return err
			}
			sb.WriteString("S(")
			for j := uint64(0); j < n; j++ {
				b, err := p.take(pf.N)
				if err != nil {
					return err
				}
				sb.WriteString(hex.EncodeToString(specReadFixed(b, byte(pf.Pad), pf.Left)) + ";")
			}
			sb.WriteString(")")
		case "stringlist":
			n, err := p.int(le, widthOf[pf.Cnt])
			if err != nil {
				return err
			}
			sb.WriteString("S(")
			for j := uint64(0); j < n; j++ {
				l, err := p.int(le, widthOf[pf.Len])
				if err != nil {
					return err
				}
				if l > uint64(len(p.in)) {
					return errShort
				}
				b, _ := p.take(int(l))
				sb.WriteString(hex.EncodeToString(b) + ";")
			}
			sb.WriteString(")")
		case "objlist":
			n, err := p.int(le, widthOf[pf.Cnt])
			if err != nil {
				return err
			}
			sb.WriteString("O(")
			for j := uint64(0); j < n; j++ {
				if j > 0 {
					sb.WriteByte(' ')
				}
				if err := p.parse(pf.Ref, sb); err != nil {
					return err
				}
			}
			sb.WriteString(")")
		case "val", "ptr":
			if err := p.parse(pf.Ref, sb); err != nil {
				return err
			}
		case "iface":
			tn, ok := pinnedLookup(pf.Table, keys[pf.Key])
			if !ok {
				return errUnknownKey
			}
			if err := p.parse(tn, sb); err != nil {
				return err
			}
		}
	}
	sb.WriteString(")")
	return nil
}

// ---------- C02 ----------
func init() {
	oracleTable["C02"] = oracleC02
	oracleTable["C03"] = oracleC03
	oracleTable["C12"] = oracleC12
}

func firstDiff(a, b []byte) int {
	n := len(a)
	if len(b) < n {
		n = len(b)
	}
	for i := 0; i < n; i++ {
		if a[i] != b[i] {
			return i
		}
	}
	return n
}

func spanAt(spans []span, off int) string {
	for _, s := range spans {
		if off >= s.Off && off < s.Off+s.Len {
			return s.Field
		}
	}
	return "(past the end)"
}

func checkTablesAndVersions(rep *report, prop string) {
	loadPinned()
	// versions
	for pkg, pp := range pinned.Protocols {
		if pkg == "sample-handwritten" {
			continue
		}
		b, err := os.ReadFile(repoPath + "/" + pkg + "/Makefile")
		got := ""
		if err == nil {
			for _, line := range strings.Split(string(b), "\n") {
				if i := strings.Index(line, ".pdsl"); i >= 0 {
					j := strings.LastIndexAny(line[:i], "/ \t")
					got = line[j+1 : i]
					break
				}
			}
		}
		rep.eval("version", pkg)
		if got != pp.Version && prop == "C02" {
			rep.fail(failure{Oracle: "schema-version", Type: pkg, What: fmt.Sprintf("module is generated from %q, pinned %q", got, pp.Version), Input: map[string]any{"package": pkg}})
		}
	}
	// tables: same keys, same targets
	for i := range genTables {
		tb := &genTables[i]
		name := tb.Pkg + "." + tb.Name
		pt, ok := pinned.Tables[name]
		if !ok {
			continue // unpinned table: nothing to disagree with
		}
		code := map[string]string{}
		for _, e := range tb.Entries {
			k := fmt.Sprintf("n:%d", e.KeyNum)
			if tb.KeyKind == "str" {
				k = "s:" + e.KeyStr
			}
			code[k] = typeById[e.Target].QName()
		}
		want := map[string]string{}
		for _, e := range pt.Entries {
			want[e.keyString()] = e.Type
		}
		var ks []string
		for k := range want {
			ks = append(ks, k)
		}
		for k := range code {
			if _, ok := want[k]; !ok {
				ks = append(ks, k)
			}
		}
		sort.Strings(ks)
		for _, k := range ks {
			rep.eval("table-entry", name+k)
			if code[k] != want[k] {
				rep.fail(failure{Oracle: "table", Type: name, What: fmt.Sprintf("discriminator %s selects %q in the code, %q in the pinned schema", k, code[k], want[k]), Input: map[string]any{"table": name, "key": k}})
			}
		}
	}
}

func withServiceRemoved(alg string, f func()) {
	svc, ok := codec.Get(alg)
	if !ok {
		f()
		return
	}
	codec.Remove(alg)
	defer codec.Registry(svc)
	f()
}

func oracleC02(rep *report, r *rng) {
	rep.Rule = "every generated type x every registered key x values (canonical and not: over-long / short text, nil lists, nil bodies, stale computed fields): library Encode vs an independent renderer of pinned/schema.json byte for byte (first differing offset mapped to the field), library Decode vs the independent parser on valid, tailed and mutated bytes; plus discriminator tables and PDSL version strings"
	loadPinned()
	checkTablesAndVersions(rep, "C02")
	n := rounds(rep, 10, 80)
	forTypesAndEntries(r, func(t *genType, mk func(genOpts) any, tag string) {
		pt, ok := pinned.Types[t.QName()]
		if !ok || !pt.Generated {
			return
		}
		for k := 0; k < n && !rep.failed(); k++ {
			o := genOpts{canonical: k%2 == 0, bigLists: k == 3}
			if k%7 == 5 {
				o.nilBody = 1
			}
			m := mk(o)
			before := dumpMsg(m)
			rd := &renderer{}
			rerr := rd.render(t.QName(), reflect.ValueOf(cloneMsg(m)).Elem(), "")
			st, enc := encodeFresh(m)
			rep.eval("render/"+st, before)
			inp := inputOf(t, "value", before, "tag", tag)
			switch {
			case st == "ok" && rerr != nil:
				rep.fail(failure{Oracle: "layout", Type: t.QName(), What: "library encoded a value the pinned schema cannot represent: " + rerr.Error(), Input: inp})
				continue
			case st != "ok" && rerr == nil:
				rep.fail(failure{Oracle: "layout", Type: t.QName(), What: "library returned " + st + " for a value the pinned schema renders", Input: inp})
				continue
			case st != "ok":
				continue
			}
			if !bytes.Equal(enc, rd.out) {
				off := firstDiff(enc, rd.out)
				inp["library_hex"] = hx(enc)
				inp["pinned_hex"] = hx(rd.out)
				inp["first_difference_offset"] = off
				inp["field"] = spanAt(rd.spans, off)
				rep.fail(failure{Oracle: "layout", Type: t.QName(), What: fmt.Sprintf("wire bytes differ from the pinned layout at offset %d (field %s)", off, spanAt(rd.spans, off)), Input: inp})
				continue
			}
			// decode direction
			ins := [][]byte{enc, append(append([]byte{}, enc...), r.bytes(3)...), r.mutateBytes(enc)}
			if len(enc) > 0 {
				ins = append(ins, enc[:r.intn(len(enc))])
			}
			for _, in := range ins {
				recv := t.New()
				stL, restL := decodeInto(recv, in)
				pp := &pparser{in: in}
				var sb strings.Builder
				perr := pp.parse(t.QName(), &sb)
				rep.eval("parse/"+stL, hx(in))
				inp2 := inputOf(t, "input_hex", hx(in), "tag", tag)
				if (stL == "ok") != (perr == nil) {
					rep.fail(failure{Oracle: "layout-decode", Type: t.QName(), What: fmt.Sprintf("library Decode: %s, pinned-schema parser: %v", stL, perr), Input: inp2})
					break
				}
				if stL != "ok" {
					continue
				}
				if got := dumpMsg(recv); got != sb.String() || !bytes.Equal(restL, pp.in) {
					inp2["library"] = got
					inp2["pinned"] = sb.String()
					rep.fail(failure{Oracle: "layout-decode", Type: t.QName(), What: "library Decode and the pinned-schema parser disagree on the message or on the bytes left", Input: inp2})
					break
				}
			}
			if k == 0 {
				rep.sample(t.QName() + " " + tag + ": " + hx(enc))
			}
		}
		// bodies larger than anything a writer may have reserved room for, into every shape of empty buffer: the
		// layout (computed length and checksum included) must not depend on when the buffer grows
		if !hasList(t) && !(ifaceField(t) != nil && tag != "" && entryHasList(t, tag)) {
			return
		}
		for si, sz := range []int{13, 45, 260, 1100} {
			forceListLen = sz
			m := mk(genOpts{canonical: true})
			forceListLen = 0
			before := dumpMsg(m)
			rd := &renderer{}
			if rd.render(t.QName(), reflect.ValueOf(cloneMsg(m)).Elem(), "") != nil {
				continue
			}
			for shape := 0; shape < 5 && !rep.failed(); shape++ {
				st, enc := encodeFreshShape(cloneMsg(m), 5*(si+3*shape)+shape)
				rep.eval("render-large/"+st, fmt.Sprint(t.Id, tag, sz, shape))
				if st != "ok" || !bytes.Equal(enc, rd.out) {
					off := firstDiff(enc, rd.out)
					rep.fail(failure{Oracle: "layout", Type: t.QName(), What: fmt.Sprintf("lists of about %d entries into an empty buffer (%s): Encode %s, wire bytes differ from the pinned layout at offset %d (field %s)", sz, lastBufShape, st, off, spanAt(rd.spans, off)),
						Input: inputOf(t, "value", shortStr(before, 20000), "tag", tag, "list_entries", sz, "library_hex", short(enc), "pinned_hex", short(rd.out), "first_difference_offset", off)})
				}
			}
		}
	})
	// frames with their checksum service absent: the caller's value is written, in the frame's layout
	for _, t := range frameTypes {
		if t.Frame.Sum < 0 || rep.failed() {
			continue
		}
		withServiceRemoved(t.Frame.Alg, func() {
			for k := 0; k < 6; k++ {
				m := r.genMessage(t, genOpts{canonical: true})
				before := dumpMsg(m)
				rd := &renderer{reg: map[string]bool{}}
				if rd.render(t.QName(), reflect.ValueOf(cloneMsg(m)).Elem(), "") != nil {
					continue
				}
				st, enc := encodeFresh(m)
				rep.eval("render-no-service", before)
				if st == "ok" && !bytes.Equal(enc, rd.out) {
					off := firstDiff(enc, rd.out)
					rep.fail(failure{Oracle: "layout", Type: t.QName(), What: fmt.Sprintf("with the %s service removed, wire bytes differ from the pinned layout at offset %d (field %s)", t.Frame.Alg, off, spanAt(rd.spans, off)),
						Input: inputOf(t, "value", before, "library_hex", hx(enc), "pinned_hex", hx(rd.out), "registry", t.Frame.Alg+" removed")})
				}
			}
		})
	}
}

// ---------- C03 ----------
func revEach(b []byte, toks [][2]int) []byte {
	out := append([]byte{}, b...)
	for _, t := range toks {
		for i := 0; i < t[1]/2; i++ {
			out[t[0]+i], out[t[0]+t[1]-1-i] = out[t[0]+t[1]-1-i], out[t[0]+i]
		}
	}
	return out
}

func oracleC03(rep *report, r *rng) {
	rep.Rule = "(a) every helper with a BE/LE pair x prefix types x element types x values (multi-element lists of non-palindromic numbers, lists of 0..4100 entries): the LE helper's bytes must be the BE helper's bytes with each integer token reversed, and the LE reader must invert the LE writer; (b) every message type x values: every integer token of the independent pinned rendering (scalars, counts, elements, length prefixes, computed length and checksum) must appear in the library's bytes in the protocol's order, also with the checksum service absent"
	loadPinned()
	// (a) primitive pairs
	type tokF func(val any, p primSpec) [][2]int
	listLens := []int{0, 1, 2, 3, 5, 15, 16, 17, 20, 64, 300, 513, 1025, 2049, 4100}
	for _, c := range []string{"U8", "U16", "U32", "U64"} {
		cw := widthOf[c]
		for _, e := range allIty {
			ew := widthOf[e]
			for _, n := range listLens {
				if n > prefixMax(c) || rep.failed() {
					continue
				}
				vals := make([]uint64, n)
				for i := range vals {
					vals[i] = r.nonPalin(e) + uint64(i)
					if ew < 8 {
						vals[i] &= (uint64(1) << (8 * uint(ew))) - 1
					}
				}
				toks := [][2]int{{0, cw}}
				for i := 0; i < n; i++ {
					toks = append(toks, [2]int{cw + i*ew, ew})
				}
				pairCheck(rep, primSpec{Kind: "basiclist", Cnt: c, Ity: e}, vals, toks)
			}
		}
		for _, n := range []int{0, 1, 3, 300} {
			if n > prefixMax(c) {
				continue
			}
			s := r.textWithPad(n, ' ')
			pairCheck(rep, primSpec{Kind: "string", Len: c}, s, [][2]int{{0, cw}})
			l := make([]string, n%7)
			for i := range l {
				l[i] = string(bytes.Repeat([]byte{byte('a' + i)}, r.intn(4)))
			}
			pairCheck(rep, primSpec{Kind: "fixedlist", Cnt: c, N: 4, Pad: 32}, l, [][2]int{{0, cw}})
			pairCheck(rep, primSpec{Kind: "fixedlist", Cnt: c, N: 3, Pad: 48, Left: true, Default: false}, l, [][2]int{{0, cw}})
			for _, k := range []string{"U8", "U16", "U32", "U64"} {
				toks := [][2]int{{0, cw}}
				off := cw
				for _, s := range l {
					toks = append(toks, [2]int{off, widthOf[k]})
					off += widthOf[k] + len(s)
				}
				pairCheck(rep, primSpec{Kind: "stringlist", Cnt: c, Len: k}, l, toks)
			}
		}
	}
	for _, e := range allIty {
		for k := 0; k < 4; k++ {
			pairCheck(rep, primSpec{Kind: "basic", Ity: e}, r.nonPalin(e)+uint64(k), [][2]int{{0, widthOf[e]}})
		}
	}
	// (b) messages
	n := rounds(rep, 8, 60)
	msgCheck := func(t *genType, m any, tag string, reg map[string]bool) {
		pt, ok := pinned.Types[t.QName()]
		if !ok {
			return
		}
		before := dumpMsg(m)
		rd := &renderer{reg: reg}
		if rd.render(t.QName(), reflect.ValueOf(cloneMsg(m)).Elem(), "") != nil {
			return
		}
		st, enc := encodeFresh(m)
		rep.eval("message-order/"+pt.Protocol, before)
		if st != "ok" || len(enc) != len(rd.out) {
			return // layout differences are C02's subject
		}
		for _, sp := range rd.spans {
			if !sp.IsInt || sp.Len < 2 {
				continue
			}
			want := rd.out[sp.Off : sp.Off+sp.Len]
			got := enc[sp.Off : sp.Off+sp.Len]
			if bytes.Equal(got, want) {
				continue
			}
			rev := revEach(want, [][2]int{{0, sp.Len}})
			if bytes.Equal(got, rev) {
				rep.fail(failure{Oracle: "message-order", Type: t.QName(), What: fmt.Sprintf("%s is on the wire as %x: the other byte order than the protocol's (%s, expected %x)", sp.Field, got, pinned.Protocols[pt.Protocol].Order, want),
					Input: inputOf(t, "value", before, "library_hex", hx(enc), "offset", sp.Off, "tag", tag)})
				return
			}
			// neither the caller's value nor its mirror image: Encode put a value of its own there (a computed field).
			// Whatever it is, the object reports it after Encode, and it must be on the wire in the protocol's order.
			if fv := reflect.ValueOf(m).Elem().FieldByName(sp.Field); fv.IsValid() && fv.CanInterface() {
				switch fv.Kind() {
				case reflect.Uint8, reflect.Uint16, reflect.Uint32, reflect.Uint64, reflect.Int8, reflect.Int16, reflect.Int32, reflect.Int64:
					v := bitsOfField(fv)
					exp := make([]byte, sp.Len)
					for i := 0; i < sp.Len; i++ {
						exp[sp.Len-1-i] = byte(v >> (8 * uint(i)))
					}
					if pinned.Protocols[pt.Protocol].Order == "LE" {
						exp = revEach(exp, [][2]int{{0, sp.Len}})
					}
					if other := revEach(exp, [][2]int{{0, sp.Len}}); bytes.Equal(got, other) && !bytes.Equal(got, exp) {
						rep.fail(failure{Oracle: "message-order", Type: t.QName(), What: fmt.Sprintf("%s: the object reports %#x after Encode and the wire has %x: the other byte order than the protocol's (%s, expected %x)", sp.Field, v, got, pinned.Protocols[pt.Protocol].Order, exp),
							Input: inputOf(t, "value", before, "library_hex", hx(enc), "offset", sp.Off, "tag", tag)})
						return
					}
				}
			}
		}
	}
	forTypesAndEntries(r, func(t *genType, mk func(genOpts) any, tag string) {
		for k := 0; k < n && !rep.failed(); k++ {
			m := mk(genOpts{canonical: true, bigLists: k%3 == 1})
			nonPalinFill(reflect.ValueOf(m).Elem(), t, r)
			if k%4 == 3 {
				// scalars the caller left unset: an encoder that fills one in must do so in the protocol's order
				zeroTopScalars(reflect.ValueOf(m).Elem(), t)
			}
			msgCheck(t, m, tag, nil)
		}
	})
	for _, t := range frameTypes {
		if t.Frame.Sum < 0 || rep.failed() {
			continue
		}
		withServiceRemoved(t.Frame.Alg, func() {
			for k := 0; k < 6; k++ {
				m := r.genMessage(t, genOpts{canonical: true})
				nonPalinFill(reflect.ValueOf(m).Elem(), t, r)
				msgCheck(t, m, t.Frame.Alg+" service removed", map[string]bool{})
			}
		})
	}
}

// make every multi-byte scalar non-palindromic so that a byte-order slip is visible
func nonPalinFill(ev reflect.Value, t *genType, r *rng) {
	for i := range t.Fields {
		f := &t.Fields[i]
		fv := ev.Field(i)
		switch f.Kind {
		case "int":
			if f.Tbl < 0 && !isKeyField(t, i) && fv.Type().Size() > 1 {
				setBits(fv, r.nonPalin(ityOfKind(fv.Kind()))+uint64(r.intn(3)))
			}
		case "ints":
			for j := 0; j < fv.Len(); j++ {
				if fv.Index(j).Type().Size() > 1 {
					setBits(fv.Index(j), r.nonPalin(f.Ity)+uint64(j))
				}
			}
		case "ptr", "iface":
			if !fv.IsNil() {
				e := fv
				if e.Kind() == reflect.Interface {
					e = e.Elem()
				}
				nonPalinFill(e.Elem(), typeByRT[e.Elem().Type()], r)
			}
		case "val":
			nonPalinFill(fv, typeById[f.Ref], r)
		case "ptrs":
			for j := 0; j < fv.Len(); j++ {
				if !fv.Index(j).IsNil() {
					nonPalinFill(fv.Index(j).Elem(), typeById[f.Ref], r)
				}
			}
		}
	}
}

func isKeyField(t *genType, i int) bool {
	for _, f := range t.Fields {
		if f.Kind == "iface" && f.Key == i {
			return true
		}
	}
	return false
}

func pairCheck(rep *report, p primSpec, val any, toks [][2]int) {
	if rep.failed() {
		return
	}
	be, le := p, p
	be.Le, le.Le = false, true
	bb, lb := &bytes.Buffer{}, &bytes.Buffer{}
	e1 := writePrim(be, val, bb)
	e2 := writePrim(le, val, lb)
	rep.eval("pair/"+p.Kind, p.text()+primValText(val))
	inp := map[string]any{"helper_be": be.text(), "helper_le": le.text(), "value": primValText(val)}
	if (e1 == nil) != (e2 == nil) {
		rep.fail(failure{Oracle: "pair", Type: p.Kind, What: "one variant returns an error, the other does not", Input: inp})
		return
	}
	if e1 != nil {
		return
	}
	want := revEach(bb.Bytes(), toks)
	if !bytes.Equal(lb.Bytes(), want) {
		inp["be_hex"] = hx(bb.Bytes())
		inp["le_hex"] = hx(lb.Bytes())
		inp["expected_le_hex"] = hx(want)
		rep.fail(failure{Oracle: "pair", Type: p.Kind, What: "the little-endian variant's bytes are not the big-endian variant's with each integer reversed", Input: inp})
		return
	}
	back, err := readPrim(le, bytes.NewBuffer(append([]byte{}, lb.Bytes()...)))
	if err != nil || primValText(back) != primValText(val) {
		if !(primValText(val) == "I()" || primValText(val) == "S()") || err != nil {
			inp["le_hex"] = hx(lb.Bytes())
			inp["read_back"] = fmt.Sprint(back)
			rep.fail(failure{Oracle: "pair", Type: p.Kind, What: "the little-endian reader does not invert the little-endian writer", Input: inp})
		}
	}
}

// ---------- C12 ----------
func ownersOfTable(name string) []*genType {
	var out []*genType
	for qn, pt := range pinned.Types {
		for _, f := range pt.Fields {
			if f.Table == name {
				if gt, ok := typeByName[qn]; ok {
					out = append(out, gt)
				}
			}
		}
	}
	sort.Slice(out, func(i, j int) bool { return out[i].Id < out[j].Id })
	return out
}

func oracleC12(rep *report, r *rng) {
	rep.Rule = "every pinned table x every registered key: bytes rendered from the pinned schema decode to the pinned body type (fresh and used receivers), Encode with the body left out builds that type where the encoder fills it in, and the value round-trips; unregistered keys (neighbours, truncated, case/padding variants, random) are rejected by Decode and by a filling Encode without panic, also twice in a row on a reused receiver"
	loadPinned()
	checkTablesAndVersions(rep, "C12")
	var names []string
	for n := range pinned.Tables {
		names = append(names, n)
	}
	sort.Strings(names)
	for _, name := range names {
		ptab := pinned.Tables[name]
		for _, owner := range ownersOfTable(name) {
			fi := ifaceField(owner)
			if fi == nil {
				rep.fail(failure{Oracle: "table", Type: owner.QName(), What: "pinned schema says this type selects its body from " + name + " but the code has no such look-up", Input: map[string]any{"table": name}})
				continue
			}
			bodyIdx := ifaceIndex(owner)
			for _, pe := range ptab.Entries {
				if rep.failed() {
					return
				}
				target, ok := typeByName[pe.Type]
				if !ok {
					rep.fail(failure{Oracle: "table", Type: owner.QName(), What: "pinned body type " + pe.Type + " does not exist in the code", Input: map[string]any{"table": name, "key": pe.keyString()}})
					continue
				}
				for k := 0; k < rounds(rep, 3, 12); k++ {
					// build the owner with this key and a body of the pinned type, independently of the code's table
					m := r.genMessage(owner, genOpts{canonical: true, nilBody: 1})
					ev := reflect.ValueOf(m).Elem()
					kv := ev.Field(fi.Key)
					if ptab.KeyKind == "num" {
						setBits(kv, uint64(pe.Key.(float64)))
					} else {
						kv.SetString(pe.Key.(string))
					}
					body := r.genMessage(target, genOpts{canonical: true})
					ev.Field(bodyIdx).Set(reflect.ValueOf(body))
					rd := &renderer{}
					if err := rd.render(owner.QName(), reflect.ValueOf(cloneMsg(m)).Elem(), ""); err != nil {
						continue
					}
					rep.eval("registered/"+name, pe.keyString()+dumpMsg(m))
					inp := inputOf(owner, "table", name, "key", pe.keyString(), "pinned_body_type", pe.Type, "bytes_hex", hx(rd.out))
					// decode
					var recv any = owner.New()
					how := "fresh"
					if k == 1 {
						recv, how = r.dirtyReceiver(owner)
					}
					inp["receiver"] = how
					st, _ := decodeInto(recv, rd.out)
					if st != "ok" {
						rep.fail(failure{Oracle: "decode-selects", Type: owner.QName(), What: "Decode of a message with registered discriminator " + pe.keyString() + " returned " + st, Input: inp})
						continue
					}
					got := reflect.ValueOf(recv).Elem().Field(bodyIdx)
					if got.IsNil() || typeByRT[got.Elem().Elem().Type()] != target {
						gotName := "nil"
						if !got.IsNil() {
							gotName = got.Elem().Elem().Type().String()
						}
						rep.fail(failure{Oracle: "decode-selects", Type: owner.QName(), What: fmt.Sprintf("discriminator %s: decoder built %s, pinned type is %s", pe.keyString(), gotName, pe.Type), Input: inp})
						continue
					}
					// encode with the body left out
					m2 := cloneMsg(m)
					ev2 := reflect.ValueOf(m2).Elem()
					ev2.Field(bodyIdx).Set(reflect.Zero(ev2.Field(bodyIdx).Type()))
					st2, _ := encodeFresh(m2)
					pf := pinnedField(owner.QName(), fi.Name)
					if pf != nil && pf.Nil == "fill-table" {
						// the filled-in body is a zero value: if it has an extension of its own to fill in, its
						// (empty) discriminator is unregistered and an error is the required outcome
						nested := ifaceField(target) != nil
						if st2 == "panic" || (st2 != "ok" && !nested) {
							rep.fail(failure{Oracle: "encode-fills", Type: owner.QName(), What: "Encode with the body left out and registered discriminator " + pe.keyString() + " returned " + st2, Input: inp})
							continue
						}
						b2 := ev2.Field(bodyIdx)
						if b2.IsNil() || typeByRT[b2.Elem().Elem().Type()] != target {
							gotName := "nil"
							if !b2.IsNil() {
								gotName = b2.Elem().Elem().Type().String()
							}
							rep.fail(failure{Oracle: "encode-fills", Type: owner.QName(), What: fmt.Sprintf("discriminator %s: encoder filled in %s, pinned type is %s", pe.keyString(), gotName, pe.Type), Input: inp})
							continue
						}
					} else if st2 == "panic" {
						rep.fail(failure{Oracle: "encode-fills", Type: owner.QName(), What: "Encode with the body left out panicked", Input: inp})
					}
					// round trip through the library
					st3, enc := encodeFresh(m)
					if st3 == "ok" {
						recv3 := owner.New()
						st4, rest := decodeInto(recv3, enc)
						if st4 != "ok" || len(rest) != 0 || dumpMsg(recv3) != dumpMsg(m) {
							rep.fail(failure{Oracle: "round-trip", Type: owner.QName(), What: "discriminator " + pe.keyString() + " does not round-trip", Input: inp})
						}
					}
				}
			}
			// unregistered keys
			var ctab *genTable
			for i := range genTables {
				if genTables[i].Pkg+"."+genTables[i].Name == name {
					ctab = &genTables[i]
				}
			}
			if ctab == nil || len(ctab.Entries) == 0 {
				continue
			}
			for k := 0; k < rounds(rep, 30, 120) && !rep.failed(); k++ {
				var keyStr string
				m := r.genMessage(owner, genOpts{canonical: true, nilBody: 3})
				ev := reflect.ValueOf(m).Elem()
				kv := ev.Field(fi.Key)
				for {
					if ptab.KeyKind == "num" {
						v := r.unregisteredNum(ctab)
						setBits(kv, v)
						keyStr = fmt.Sprintf("n:%d", bitsOf(kv))
					} else {
						s := r.unregisteredStr(ctab)
						kv.SetString(s)
						keyStr = "s:" + s
					}
					if _, reg := pinnedLookup(name, keyStr); !reg {
						break
					}
				}
				st, enc := encodeFresh(m) // body present: no look-up needed to encode
				rep.eval("unregistered/"+name, keyStr)
				inp := inputOf(owner, "table", name, "key", keyStr, "bytes_hex", hx(enc))
				if st == "ok" {
					recv := owner.New()
					if k%2 == 1 {
						recv, _ = r.dirtyReceiver(owner)
					}
					for rep2 := 0; rep2 < 2; rep2++ {
						st2, _ := decodeInto(recv, enc)
						if st2 != "err" {
							inp["attempt"] = rep2 + 1
							inp["receiver_after"] = dumpMsg(recv)
							rep.fail(failure{Oracle: "unknown-rejected", Type: owner.QName(), What: fmt.Sprintf("Decode of unregistered discriminator %s returned %s (attempt %d on the same receiver)", keyStr, st2, rep2+1), Input: inp})
							break
						}
					}
				}
				m2 := cloneMsg(m)
				ev2 := reflect.ValueOf(m2).Elem()
				ev2.Field(bodyIdx).Set(reflect.Zero(ev2.Field(bodyIdx).Type()))
				st3, _ := encodeFresh(m2)
				pf := pinnedField(owner.QName(), fi.Name)
				if st3 == "panic" || (pf != nil && pf.Nil == "fill-table" && st3 != "err") {
					rep.fail(failure{Oracle: "unknown-rejected", Type: owner.QName(), What: fmt.Sprintf("Encode with the body left out and unregistered discriminator %s returned %s", keyStr, st3), Input: inp})
				}
			}
		}
	}
}

func pinnedField(qn, name string) *pField {
	pt := pinned.Types[qn]
	for i := range pt.Fields {
		if pt.Fields[i].Name == name {
			return &pt.Fields[i]
		}
	}
	return nil
}

func hasList(t *genType) bool {
	for i := range t.Fields {
		switch t.Fields[i].Kind {
		case "ints", "strs", "ptrs":
			return true
		}
	}
	return false
}

// does the body type registered under the entry this tag names carry a list?
func entryHasList(t *genType, tag string) bool {
	fi := ifaceField(t)
	for _, e := range tableById[fi.Tbl].Entries {
		if fmt.Sprintf("key=%d/%q", e.KeyNum, e.KeyStr) == tag {
			if bt, ok := typeById[e.Target]; ok {
				return hasList(bt)
			}
		}
	}
	return false
}

func shortStr(s string, n int) string {
	if len(s) <= n {
		return s
	}
	return fmt.Sprintf("%s...(%d characters; first %d shown)", s[:n], len(s), n)
}

// every top-level multi-byte scalar that is not a discriminator becomes 0 ("left unset by the caller")
func zeroTopScalars(ev reflect.Value, t *genType) {
	for i := range t.Fields {
		f := &t.Fields[i]
		if f.Kind == "int" && f.Tbl < 0 && !isKeyField(t, i) && ev.Field(i).Type().Size() > 1 {
			setBits(ev.Field(i), 0)
		}
	}
}
