package main

// corr.go — correspondence cases: the harness runs the real Go code and records what it observed,
// in exactly the line format the model driver prints, so that a plain diff decides agreement.

import (
	"runtime"
	"runtime/debug"
	"bufio"
	"bytes"
	"encoding/hex"
	"fmt"
	"os"
	"reflect"
	"sort"
	"strings"

	"github.com/xinchentechnote/fin-proto-go/codec"
)

type caseWriter struct {
	cases, obs *bufio.Writer
	fc, fo     *os.File
	n          int
	stats      map[string]int
	samples    []string
	distinct   map[uint64]struct{}
}

func newCaseWriter(dir, name string) *caseWriter {
	fc, err := os.Create(dir + "/" + name + ".cases")
	if err != nil {
		panic(err)
	}
	fo, err := os.Create(dir + "/" + name + ".obs")
	if err != nil {
		panic(err)
	}
	return &caseWriter{cases: bufio.NewWriterSize(fc, 1<<20), obs: bufio.NewWriterSize(fo, 1<<20), fc: fc, fo: fo,
		stats: map[string]int{}, distinct: map[uint64]struct{}{}}
}

func (w *caseWriter) add(class string, opline string, obsline string) {
	w.n++
	fmt.Fprintf(w.cases, "%d\t%s\n", w.n, opline)
	fmt.Fprintf(w.obs, "%d\t%s\n", w.n, obsline)
	st := obsline
	if i := strings.IndexByte(st, '\t'); i >= 0 {
		st = st[:i]
	}
	w.stats[class+"/"+st]++
	h := uint64(14695981039346656037)
	for i := 0; i < len(opline); i++ {
		h = (h ^ uint64(opline[i])) * 1099511628211
	}
	w.distinct[h] = struct{}{}
	if len(w.samples) < 6 && w.n%97 == 1 {
		s := opline + " => " + obsline
		if len(s) > 300 {
			s = s[:300] + "..."
		}
		w.samples = append(w.samples, s)
	}
}

func (w *caseWriter) close() {
	w.cases.Flush()
	w.obs.Flush()
	w.fc.Close()
	w.fo.Close()
}

// ---------- running the real code ----------
// a buffer holding [unread] after [consumed] bytes already read, with [spare] bytes of capacity beyond its end that hold
// STALE data (as after Reset/Truncate of a used buffer): nothing correct can depend on them
func mkBuffer(consumed []byte, unread []byte, spare int) *bytes.Buffer {
	b := make([]byte, len(consumed)+len(unread)+spare)
	for i := range b {
		b[i] = byte(0xee - 7*i)
	}
	b = b[:0]
	b = append(b, consumed...)
	b = append(b, unread...)
	buf := bytes.NewBuffer(b)
	buf.Next(len(consumed))
	return buf
}

func callEncode(m any, buf *bytes.Buffer) (status string) {
	defer func() {
		if r := recover(); r != nil {
			status = "panic"
		}
	}()
	out := reflect.ValueOf(m).MethodByName("Encode").Call([]reflect.Value{reflect.ValueOf(buf)})
	if len(out) == 1 && !out[0].IsNil() {
		return "err"
	}
	return "ok"
}

func callDecode(m any, buf *bytes.Buffer) (status string) {
	defer func() {
		if r := recover(); r != nil {
			status = "panic"
		}
	}()
	out := reflect.ValueOf(m).MethodByName("Decode").Call([]reflect.Value{reflect.ValueOf(buf)})
	if len(out) == 1 && !out[0].IsNil() {
		return "err"
	}
	return "ok"
}

func typeOfMsg(m any) *genType { return typeByRT[reflect.TypeOf(m).Elem()] }

// ---------- message level ----------
func (w *caseWriter) encCase(class string, m any, pre []byte, consumed []byte, spare int) (status string, out []byte) {
	t := typeOfMsg(m)
	op := fmt.Sprintf("E\t%d\t%s\t%s", t.Id, dumpMsg(m), hex.EncodeToString(pre))
	buf := mkBuffer(consumed, pre, spare)
	st := callEncode(m, buf)
	if st == "ok" {
		out = append([]byte{}, buf.Bytes()...)
		w.add(class, op, "ok\t"+dumpMsg(m)+"\t"+hex.EncodeToString(out))
	} else {
		w.add(class, op, st)
	}
	return st, out
}

func (w *caseWriter) decCase(class string, recv any, in []byte, consumed []byte) string {
	t := typeOfMsg(recv)
	op := fmt.Sprintf("D\t%d\t%s\t%s", t.Id, dumpMsg(recv), hex.EncodeToString(in))
	buf := mkBuffer(consumed, in, 0)
	st := callDecode(recv, buf)
	if st == "ok" {
		w.add(class, op, "ok\t"+dumpMsg(recv)+"\t"+hex.EncodeToString(buf.Bytes()))
	} else {
		w.add(class, op, st)
	}
	return st
}

func (r *rng) mutateBytes(b []byte) []byte {
	c := append([]byte{}, b...)
	if len(c) == 0 {
		return r.bytes(1 + r.intn(8))
	}
	switch r.intn(5) {
	case 0: // bit flip
		i := r.intn(len(c))
		c[i] ^= 1 << uint(r.intn(8))
	case 1: // overwrite 1-4 bytes with 0xff
		i := r.intn(len(c))
		for j := i; j < len(c) && j < i+1+r.intn(4); j++ {
			c[j] = 0xff
		}
	case 2: // overwrite with zeros
		i := r.intn(len(c))
		for j := i; j < len(c) && j < i+1+r.intn(4); j++ {
			c[j] = 0
		}
	case 3: // random byte
		c[r.intn(len(c))] = byte(r.next())
	case 4: // pad/space/NUL placement
		c[r.intn(len(c))] = []byte{' ', '0', 0, 0x80}[r.intn(4)]
	}
	return c
}

func emitMsgCases(w *caseWriter, r *rng, rounds int, only map[int]bool) {
	var lastFrames [][]byte
	for round := 0; round < rounds; round++ {
		for ti := range genTypes {
			t := &genTypes[ti]
			if only != nil && !only[t.Id] {
				continue
			}
			o := genOpts{canonical: r.chance(2, 3), bigLists: r.chance(1, 12)}
			if hasIface(t) {
				switch r.intn(8) {
				case 0:
					o.nilBody = 1
				case 1:
					o.nilBody = 2
				case 2:
					o.nilBody = 3
				}
			}
			m := r.genMessage(t, o)
			var pre, consumed []byte
			switch r.intn(4) {
			case 0:
				pre = r.bytes(1 + r.intn(12))
			case 1:
				if len(lastFrames) > 0 {
					pre = lastFrames[r.intn(len(lastFrames))]
				}
			}
			if r.chance(1, 3) {
				consumed = r.bytes(1 + r.intn(9))
			}
			st, out := w.encCase("enc", m, pre, consumed, r.intn(3)*16)
			if st != "ok" {
				continue
			}
			enc := out[len(pre):]
			if len(enc) < 4096 {
				lastFrames = append(lastFrames, enc)
				if len(lastFrames) > 8 {
					lastFrames = lastFrames[1:]
				}
			}
			// re-encode the already encoded object (computed fields filled in)
			if r.chance(1, 4) {
				w.encCase("reenc", m, nil, nil, 0)
			}
			tail := []byte{}
			if r.chance(1, 2) {
				tail = r.bytes(1 + r.intn(6))
			}
			in := append(append([]byte{}, enc...), tail...)
			w.decCase("dec-fresh", t.New(), in, consumed)
			if r.chance(1, 2) {
				dirty := r.genMessage(t, genOpts{nilBody: r.intn(2) * 3})
				w.decCase("dec-dirty", dirty, in, nil)
			}
			if len(enc) > 0 {
				cut := r.intn(len(enc))
				w.decCase("dec-trunc", t.New(), enc[:cut], nil)
				w.decCase("dec-mut", t.New(), r.mutateBytes(in), nil)
			}
			if r.chance(1, 3) {
				w.decCase("dec-rand", t.New(), r.bytes(r.intn(48)), nil)
			}
		}
	}
}

// ---------- primitive level ----------
// restricts the primitive cases to some helper families (the dependency cone of a property)
var primKinds map[string]bool

func (w *caseWriter) wpCase(p primSpec, val any) []byte {
	if primKinds != nil && !primKinds[p.Kind] {
		return nil
	}
	op := fmt.Sprintf("WP\t%s\t%s", p.text(), primValText(val))
	// the bytes a writer appends do not depend on the buffer it is given: rotate through used buffers
	var buf *bytes.Buffer
	switch w.n % 4 {
	case 0:
		buf = &bytes.Buffer{}
	case 1:
		buf = mkBuffer(nil, nil, 512)
	case 2:
		buf = mkBuffer([]byte{1, 2, 3, 4, 5}, nil, w.n%19)
	default:
		buf = mkBuffer(bytes.Repeat([]byte{0x33}, 40), nil, 64+w.n%300)
	}
	var err error
	st := "ok"
	func() {
		defer func() {
			if r := recover(); r != nil {
				st = "panic"
			}
		}()
		err = writePrim(p, val, buf)
	}()
	if st == "ok" && err != nil {
		st = "err"
	}
	if st == "ok" {
		w.add("w-"+p.Kind, op, "ok\t"+hex.EncodeToString(buf.Bytes()))
		return append([]byte{}, buf.Bytes()...)
	}
	w.add("w-"+p.Kind, op, st)
	return nil
}

func (w *caseWriter) rpCase(p primSpec, in []byte) {
	if primKinds != nil && !primKinds[p.Kind] {
		return
	}
	op := fmt.Sprintf("RP\t%s\t%s", p.text(), hex.EncodeToString(in))
	// what a reader returns does not depend on bytes already consumed or on stale bytes beyond the end
	var buf *bytes.Buffer
	switch w.n % 3 {
	case 0:
		buf = bytes.NewBuffer(append([]byte{}, in...))
	case 1:
		buf = mkBuffer(nil, in, 16+w.n%50)
	default:
		buf = mkBuffer([]byte{9, 8, 7}, in, w.n%11)
	}
	var err error
	var v any
	st := "ok"
	func() {
		defer func() {
			if r := recover(); r != nil {
				st = "panic"
			}
		}()
		v, err = readPrim(p, buf)
	}()
	if st == "ok" && err != nil {
		st = "err"
	}
	if st == "ok" {
		w.add("r-"+p.Kind, op, "ok\t"+primValText(v)+"\t"+hex.EncodeToString(buf.Bytes()))
		return
	}
	w.add("r-"+p.Kind, op, st)
}

var allIty = []string{"I8", "I16", "I32", "I64", "U8", "U16", "U32", "U64", "F32", "F64"}
var prefixIty = []string{"U8", "U16", "U32", "U64"}

func (r *rng) nonPalin(ity string) uint64 {
	v := uint64(0x0102030405060708)
	w := widthOf[ity]
	if w < 8 {
		v >>= 8 * uint(8-w)
	}
	return v
}

func (r *rng) textWithPad(n int, pad byte) string {
	b := make([]byte, n)
	for i := range b {
		b[i] = r.textByte(pad)
	}
	if n >= 2 && r.chance(1, 3) {
		tails := [][]byte{bytes.Repeat([]byte{' '}, 8), bytes.Repeat([]byte{' '}, 16), bytes.Repeat([]byte{0}, 8), bytes.Repeat([]byte{'0'}, 8),
			{0xe3, 0x80, 0x80}, {0xe3, 0x80, 0x80, 0xe3, 0x80, 0x80}, {0xa1, 0xa1}, {0xc2, 0xa0}, {'\t'}, {' ', '!'}, {' ', '!', '!'}, {pad ^ 1}, {' ', pad ^ 1},
			{pad ^ 0x80}, {'\r', '\n'}}
		t := tails[r.intn(len(tails))]
		if len(t) <= n {
			if r.chance(1, 2) {
				copy(b[n-len(t):], t)
			} else {
				copy(b, t)
			}
		}
	}
	return string(b)
}

func countBytes(order bool, w int, v uint64) []byte {
	b := make([]byte, w)
	for i := 0; i < w; i++ {
		if order { // little endian
			b[i] = byte(v >> (8 * uint(i)))
		} else {
			b[w-1-i] = byte(v >> (8 * uint(i)))
		}
	}
	return b
}

func emitPrimCases(w *caseWriter, r *rng, thorough bool) {
	rep := 1
	if thorough {
		rep = 6
	}
	// scalars
	for _, le := range []bool{false, true} {
		for _, ity := range allIty {
			p := primSpec{Kind: "basic", Le: le, Ity: ity}
			vals := []uint64{0, r.nonPalin(ity), r.scalarBits(ity), r.scalarBits(ity), r.scalarBits(ity)}
			for k := 0; k < rep*2; k++ {
				vals = append(vals, r.scalarBits(ity))
			}
			for _, v := range vals {
				out := w.wpCase(p, v)
				w.rpCase(p, append(out, r.bytes(r.intn(3))...))
			}
			for cut := 0; cut < widthOf[ity]; cut++ {
				w.rpCase(p, r.bytes(cut))
			}
		}
	}
	// fixed text: all 256 pad bytes x both sides; widths; runes above 255
	widths := []int{0, 1, 2, 3, 6, 8, 16}
	for pad := 0; pad < 256; pad++ {
		for _, left := range []bool{false, true} {
			n := widths[r.intn(len(widths))]
			p := primSpec{Kind: "fixed", N: n, Pad: pad, Left: left, Default: r.chance(1, 2)}
			for k := 0; k < 2*rep; k++ {
				s := r.textWithPad(r.intn(n+4), byte(pad))
				w.wpCase(p, s)
			}
			// read: exactly n bytes with pad runs on both sides and inside, then a tail
			for k := 0; k < 2*rep; k++ {
				x := []byte(r.textWithPad(n, byte(pad)))
				for i := 0; i < len(x); i++ {
					if r.chance(1, 3) {
						x[i] = byte(pad)
					}
				}
				w.rpCase(p, append(x, r.bytes(r.intn(3))...))
			}
			if n > 0 {
				w.rpCase(p, r.bytes(r.intn(n)))
			}
			all := bytes.Repeat([]byte{byte(pad)}, n)
			w.rpCase(p, all)
		}
	}
	// wide fields: the property is for every width; pad runs longer than any internal block size
	for _, n := range []int{17, 64, 200, 255, 256, 257, 300, 511, 512, 513, 1000, 1024, 1025, 4097} {
		for _, left := range []bool{false, true} {
			for _, pad := range []int{' ', 0, '0', 0xff} {
				p := primSpec{Kind: "fixed", N: n, Pad: pad, Left: left}
				for _, l := range []int{0, 1, 3, n - 257, n - 256, n - 1, n, n + 1} {
					if l < 0 {
						continue
					}
					out := w.wpCase(p, r.textWithPad(l, byte(pad)))
					if out != nil {
						w.rpCase(p, append(out, r.bytes(r.intn(3))...))
					}
				}
			}
		}
	}
	for _, pad := range []int{0x100 + 'x', 0xe9, 0x4e2d, 0x10ffff, 0x80, 0xff, 0x7f} {
		for _, left := range []bool{false, true} {
			p := primSpec{Kind: "fixed", N: 6, Pad: pad, Left: left}
			out := w.wpCase(p, "abc")
			w.rpCase(p, out)
			w.wpCase(p, "abcdefghi")
			w.rpCase(p, []byte{0x61, 0xc3, 0xa9, byte(pad), byte(pad), byte(pad)})
			w.rpCase(p, []byte{byte(pad), byte(pad), 0xe4, 0xb8, 0xad, 0x61})
		}
	}
	// prefixed text
	for _, le := range []bool{false, true} {
		for _, l := range prefixIty {
			p := primSpec{Kind: "string", Le: le, Len: l}
			lens := []int{0, 1, 5, 255, 256, 300}
			if thorough || l == "U16" {
				lens = append(lens, 65535, 65536)
			}
			for _, n := range lens {
				out := w.wpCase(p, r.textWithPad(n, ' '))
				if out != nil && n <= 300 {
					w.rpCase(p, append(out, r.bytes(r.intn(3))...))
					if len(out) > 0 {
						w.rpCase(p, out[:r.intn(len(out))])
					}
				}
			}
			wd := widthOf[l]
			for _, claim := range []uint64{0, 1, 2, 0x7f, 0x80, 0xff, 0x100, 0xffff, 0x10000, 0x7fffffff, 0xffffffff, 0x7fffffffffffffff, 0x8000000000000000, 0xffffffffffffffff} {
				if wd < 8 && claim >= uint64(1)<<(8*uint(wd)) {
					continue
				}
				w.rpCase(p, append(countBytes(le, wd, claim), r.bytes(r.intn(4))...))
			}
		}
	}
	// scalar lists
	for _, le := range []bool{false, true} {
		for _, c := range prefixIty {
			for _, e := range allIty {
				p := primSpec{Kind: "basiclist", Le: le, Cnt: c, Ity: e}
				lens := []int{0, 1, 2, 3}
				lens = append(lens, 20, 255, 256) // every element type: a per-type fast path must not skip the length check
				if (c == "U16" && (e == "U32" || e == "U8")) || (thorough && e == "I8") {
					lens = append(lens, 65535, 65536)
				}
				for _, n := range lens {
					var vals []uint64
					if n > 0 || r.chance(1, 2) {
						vals = make([]uint64, n)
					}
					for i := range vals {
						if i == 0 {
							vals[i] = r.nonPalin(e)
						} else {
							vals[i] = r.scalarBits(e)
						}
					}
					out := w.wpCase(p, vals)
					if out != nil && n <= 256 {
						w.rpCase(p, append(out, r.bytes(r.intn(3))...))
						if len(out) > 0 {
							w.rpCase(p, out[:r.intn(len(out))])
						}
					}
				}
				wd := widthOf[c]
				for _, claim := range []uint64{1, 2, 0xff, 0xffff, 0xffffffff, 0x8000000000000000, 0xffffffffffffffff,
					0x20, 0x40, 0x80, 0xc0, 0x2000, 0x4000, 0x8000, 0xc000, 0xc001, 0x20000000, 0x40000000, 0x80000000, 0xc0000001} {
					if wd < 8 && claim >= uint64(1)<<(8*uint(wd)) {
						continue
					}
					w.rpCase(p, append(countBytes(le, wd, claim), r.bytes(r.intn(2*widthOf[e]+1))...))
				}
			}
		}
	}
	// fixed text lists, prefixed text lists
	for _, le := range []bool{false, true} {
		for _, c := range prefixIty {
			for k := 0; k < 3*rep; k++ {
				n := widths[r.intn(len(widths))]
				pads := []int{32, 48, 0, 0x80 + r.intn(0x80), r.intn(256)}
				p := primSpec{Kind: "fixedlist", Le: le, Cnt: c, N: n, Pad: pads[r.intn(len(pads))], Left: r.chance(1, 2), Default: r.chance(1, 2)}
				if p.Default {
					p.Pad, p.Left = 32, false
				}
				for _, ln := range []int{0, 1, 3, 256} {
					if n == 0 && ln > 3 {
						continue
					}
					var l []string
					if ln > 0 || r.chance(1, 2) {
						l = make([]string, ln)
					}
					for i := range l {
						l[i] = r.textWithPad(r.intn(n+3), byte(p.Pad))
					}
					out := w.wpCase(p, l)
					if out != nil {
						w.rpCase(p, append(out, r.bytes(r.intn(3))...))
						if len(out) > 0 {
							w.rpCase(p, out[:r.intn(len(out))])
						}
					}
				}
				if n > 0 {
					wd := widthOf[c]
					for _, claim := range []uint64{1, 0xff, 0xffff, 0xffffffff, 0xffffffffffffffff} {
						if wd < 8 && claim >= uint64(1)<<(8*uint(wd)) {
							continue
						}
						w.rpCase(p, append(countBytes(le, wd, claim), r.bytes(r.intn(2*n+1))...))
					}
				}
			}
			for _, k := range prefixIty {
				p := primSpec{Kind: "stringlist", Le: le, Cnt: c, Len: k}
				for _, ln := range []int{0, 1, 3, 256} {
					var l []string
					if ln > 0 || r.chance(1, 2) {
						l = make([]string, ln)
					}
					for i := range l {
						l[i] = r.textWithPad(r.intn(6), ' ')
					}
					if ln == 3 && k == "U8" {
						l[1] = r.textWithPad(256, ' ') // element too long for its prefix
					}
					if ln == 1 {
						l[0] = ""
					}
					out := w.wpCase(p, l)
					if out != nil {
						w.rpCase(p, append(out, r.bytes(r.intn(3))...))
						if len(out) > 0 {
							w.rpCase(p, out[:r.intn(len(out))])
						}
					}
				}
				wd := widthOf[c]
				for _, claim := range []uint64{1, 0xff, 0xffff, 0xffffffff, 0xffffffffffffffff} {
					if wd < 8 && claim >= uint64(1)<<(8*uint(wd)) {
						continue
					}
					// count claim followed by an element whose length claim is maximal
					in := countBytes(le, wd, claim)
					in = append(in, bytes.Repeat([]byte{0xff}, widthOf[k])...)
					in = append(in, r.bytes(r.intn(4))...)
					w.rpCase(p, in)
					w.rpCase(p, append(countBytes(le, wd, claim), make([]byte, r.intn(2*widthOf[k]+2))...))
				}
			}
		}
	}
	if thorough {
		emitPrimExhaustive(w, exhaustive2)
	}
}

// Exhaustive small scope (thorough tier): EVERY byte string of length 0, 1 and 2 (65,793 inputs) into every reader
// variant whose prefixes are one or two bytes wide - the inputs on which a reader's decisions (short read, length
// claim against what is left, empty list, pad stripping) are all exercised - so that on this scope the hand-written
// model and the Go helpers are compared completely, not sampled.
// set by -exhaustive: also the complete 0/1/2-byte sweep of the readers (the explicit thorough tier); without it only the
// small-alphabet fixed fields (what an escalated quick run affords)
var exhaustive2 bool

func emitPrimExhaustive(w *caseWriter, twoBytes bool) {
	var specs []primSpec
	for _, le := range []bool{false, true} {
		for _, ity := range []string{"U8", "I8", "U16", "I16"} {
			specs = append(specs, primSpec{Kind: "basic", Le: le, Ity: ity})
		}
		for _, l := range []string{"U8", "U16"} {
			specs = append(specs, primSpec{Kind: "string", Le: le, Len: l})
		}
		for _, c := range []string{"U8", "U16"} {
			specs = append(specs, primSpec{Kind: "basiclist", Le: le, Cnt: c, Ity: "U8"})
		}
		specs = append(specs, primSpec{Kind: "basiclist", Le: le, Cnt: "U8", Ity: "U16"})
		specs = append(specs, primSpec{Kind: "stringlist", Le: le, Cnt: "U8", Len: "U8"})
		specs = append(specs, primSpec{Kind: "fixedlist", Le: le, Cnt: "U8", N: 1, Pad: ' ', Left: false})
		specs = append(specs, primSpec{Kind: "fixedlist", Le: le, Cnt: "U8", N: 0, Pad: ' ', Left: true})
	}
	for _, pad := range []int{' ', 0, 0xff, '0'} {
		for _, left := range []bool{false, true} {
			for n := 0; n <= 2; n++ {
				specs = append(specs, primSpec{Kind: "fixed", N: n, Pad: pad, Left: left})
			}
		}
	}
	// fixed text of width 8 over {pad, pad^1, pad^0x80, 'a'} (65,536 fields) and of width 10 over {pad, a blank that is
	// not the pad, 'a'} (59,049 fields): every arrangement of pad-like and text bytes that a word-at-a-time trim sees
	for _, pad := range []int{' ', 0, '0'} {
		for _, left := range []bool{false, true} {
			alt := byte(' ')
			if pad == ' ' {
				alt = 0
			}
			p8 := primSpec{Kind: "fixed", N: 8, Pad: pad, Left: left}
			a8 := []byte{byte(pad), byte(pad) ^ 1, byte(pad) ^ 0x80, 'a'}
			x := make([]byte, 8)
			for v := 0; v < 1<<16; v++ {
				for i := 0; i < 8; i++ {
					x[i] = a8[(v>>(2*uint(i)))&3]
				}
				w.rpCase(p8, x)
			}
			p10 := primSpec{Kind: "fixed", N: 10, Pad: pad, Left: left}
			a10 := []byte{byte(pad), alt, 'a'}
			y := make([]byte, 10)
			for v := 0; v < 59049; v++ {
				q := v
				for i := 0; i < 10; i++ {
					y[i] = a10[q%3]
					q /= 3
				}
				w.rpCase(p10, y)
			}
		}
	}
	if !twoBytes {
		return
	}
	in := make([]byte, 0, 2)
	for _, p := range specs {
		w.rpCase(p, in[:0])
		for a := 0; a < 256; a++ {
			w.rpCase(p, []byte{byte(a)})
		}
		for a := 0; a < 256; a++ {
			for b := 0; b < 256; b++ {
				w.rpCase(p, []byte{byte(a), byte(b)})
			}
		}
	}
}

// ---------- service level ----------
var algNames = []string{"CRC16", "CRC32", "SSE_BIN", "SZSE_BIN"}

// how the buffer handed to Calc came to hold [data]: the result must not depend on it
var calcHistories = []string{"exact", "window-of-larger-array", "reset-and-rewritten", "partly-consumed", "truncated"}

func calcBuffer(data []byte, history string) *bytes.Buffer {
	junk := func(n int) []byte {
		b := make([]byte, n)
		for i := range b {
			b[i] = byte(0xa5 + 31*i)
		}
		return b
	}
	switch history {
	case "window-of-larger-array":
		arr := append(append([]byte{}, data...), junk(64)...)
		return bytes.NewBuffer(arr[:len(data)])
	case "reset-and-rewritten":
		buf := bytes.NewBuffer(junk(len(data) + 40))
		buf.Reset()
		buf.Write(data)
		return buf
	case "partly-consumed":
		buf := bytes.NewBuffer(append(junk(5), data...))
		buf.Next(5)
		return buf
	case "truncated":
		buf := bytes.NewBuffer(append(append([]byte{}, data...), junk(9)...))
		buf.Truncate(len(data))
		return buf
	}
	return bytes.NewBuffer(append([]byte{}, data...))
}

func calcService(name string, data []byte) (uint64, bool, []byte, int) {
	return calcServiceH(name, data, "exact")
}

func calcServiceH(name string, data []byte, history string) (uint64, bool, []byte, int) {
	svc, ok := codec.Get(name)
	if !ok {
		return 0, false, nil, 0
	}
	buf := calcBuffer(data, history)
	var v uint64
	switch s := svc.(type) {
	case codec.ChecksumService[*bytes.Buffer, uint16]:
		v = uint64(s.Calc(buf))
	case codec.ChecksumService[*bytes.Buffer, uint32]:
		v = uint64(s.Calc(buf))
	case codec.ChecksumService[*bytes.Buffer, int32]:
		v = uint64(uint32(s.Calc(buf)))
	default:
		return 0, false, nil, 0
	}
	return v, true, buf.Bytes(), buf.Len()
}

func (w *caseWriter) ckCase(name string, data []byte) {
	w.ckCaseH(name, data, calcHistories[w.n%len(calcHistories)])
}

func (w *caseWriter) ckCaseH(name string, data []byte, history string) {
	op := fmt.Sprintf("CK\t%s\t%s", name, hex.EncodeToString(data))
	v, ok, after, unread := calcServiceH(name, data, history)
	if !ok {
		w.add("calc", op, "missing")
		return
	}
	// Calc reads its buffer without consuming or changing it: the model's value and "all bytes still unread, unchanged"
	state := "kept"
	if unread != len(data) || !bytes.Equal(after, data) {
		state = fmt.Sprintf("changed:%d/%d", unread, len(data))
	}
	w.add("calc/"+history, op, fmt.Sprintf("ok\t%x\t%s", v, state))
}

func emitCalcCases(w *caseWriter, r *rng, thorough bool) {
	for _, a := range algNames {
		w.ckCase(a, nil)
		w.ckCase(a, []byte("123456789"))
		// every 1-byte string; sampled 2-byte strings (all of them in thorough)
		for b := 0; b < 256; b++ {
			w.ckCase(a, []byte{byte(b)})
		}
		step := 37
		if thorough {
			step = 1
		}
		for x := 0; x < 65536; x += step {
			w.ckCase(a, []byte{byte(x >> 8), byte(x)})
		}
		for _, n := range []int{3, 7, 8, 9, 63, 64, 65, 255, 256, 257, 1000, 2048, 4096, 8192, 65536} {
			w.ckCase(a, r.bytes(n))
			w.ckCase(a, bytes.Repeat([]byte{0xff}, n))
			hi := r.bytes(n)
			for i := range hi {
				hi[i] |= 0x80
			}
			w.ckCase(a, hi)
		}
		// periodic inputs: each position of a 2/4/8/16-byte period is all-ones, zero or random - what word-at-a-time
		// summing with packed lanes gets wrong shows only when some lanes stay small while others fill up
		for _, period := range []int{2, 4, 8, 16} {
			reps := 3
			if thorough {
				reps = 24
			}
			for k := 0; k < reps; k++ {
				pat := make([]byte, period)
				for i := range pat {
					switch r.intn(4) {
					case 0:
						pat[i] = 0xff
					case 1:
						pat[i] = 0
					case 2:
						pat[i] = byte(0x80 + r.intn(0x80))
					default:
						pat[i] = byte(r.intn(256))
					}
				}
				for _, n := range []int{1032, 2056, 5000, 8200} {
					w.ckCase(a, bytes.Repeat(pat, n/period+1)[:n])
				}
			}
			for mask := 0; mask < 1<<uint(period) && period <= 8; mask++ {
				pat := make([]byte, period)
				for i := range pat {
					if mask>>uint(i)&1 == 1 {
						pat[i] = 0xff
					}
				}
				w.ckCase(a, bytes.Repeat(pat, 1040/period+1)[:1040])
			}
		}
		if thorough {
			w.ckCase(a, bytes.Repeat([]byte{0xff}, 1<<20))
		}
	}
}

func statsSorted(m map[string]int) []string {
	var ks []string
	for k := range m {
		ks = append(ks, k)
	}
	sort.Strings(ks)
	var out []string
	for _, k := range ks {
		out = append(out, fmt.Sprintf("%s=%d", k, m[k]))
	}
	return out
}

// ---------- the registry, sequentially: the atomic-map specification against the real code ----------
// One case is a sequence of Registry / Registry(non-service) / Get / Remove / Clear calls on an emptied registry
// (keys and service identities are small numbers); the model folds Locks.seq over it.
func emitRegCases(w *caseWriter, r *rng, thorough bool) {
	defer restoreDefaults()
	n := 600
	if thorough {
		n = 6000
	}
	svcs := map[[2]int]*dummySvc{}
	svc := func(k, v int) *dummySvc {
		if s, ok := svcs[[2]int{k, v}]; ok {
			return s
		}
		s := &dummySvc{name: fmt.Sprintf("verif-key-%d", k), id: v}
		svcs[[2]int{k, v}] = s
		return s
	}
	for i := 0; i < n; i++ {
		codec.Clear()
		keys := 1 + r.intn(4)
		steps := 1 + r.intn(24)
		var toks, outs []string
		class := "reg"
		for j := 0; j < steps; j++ {
			k := r.intn(keys)
			switch c := r.intn(10); {
			case c < 4:
				v := 1 + r.intn(5)
				toks = append(toks, fmt.Sprintf("r%d:%d", k, v))
				if codec.Registry(svc(k, v)) {
					outs = append(outs, "t")
				} else {
					outs = append(outs, "f")
				}
			case c < 7:
				toks = append(toks, fmt.Sprintf("g%d", k))
				got, ok := codec.Get(fmt.Sprintf("verif-key-%d", k))
				if d, isd := got.(*dummySvc); ok && isd && d.name == fmt.Sprintf("verif-key-%d", k) {
					outs = append(outs, fmt.Sprintf("v%d", d.id))
				} else if !ok && got == nil {
					outs = append(outs, "n")
				} else {
					outs = append(outs, fmt.Sprintf("?%v/%v", got, ok))
				}
			case c < 8:
				toks = append(toks, fmt.Sprintf("x%d", k))
				codec.Remove(fmt.Sprintf("verif-key-%d", k))
				outs = append(outs, "u")
			case c < 9:
				toks = append(toks, "c")
				codec.Clear()
				outs = append(outs, "u")
			default:
				toks = append(toks, "b")
				if codec.Registry(struct{ X int }{j}) {
					outs = append(outs, "t")
				} else {
					outs = append(outs, "f")
				}
			}
		}
		w.add(class, "RG\t"+strings.Join(toks, " "), "ok\t"+strings.Join(outs, " "))
	}
}

// ---------- allocation: the cost model against runtime.MemStats (one-sided) ----------
// A case is (type, input bytes); the observation is the number of bytes one Decode allocated (TotalAlloc delta, GC off);
// the model answers with decode_cost.  The orchestrator requires  observed <= costA*model + costB.
func emitCostCases(w *caseWriter, r *rng, rounds int, thorough bool) {
	old := debug.SetGCPercent(-1)
	defer debug.SetGCPercent(old)
	n := 3
	if thorough {
		n = 12
	}
	forTypesAndEntries(r, func(t *genType, mk func(genOpts) any, tag string) {
		m := mk(genOpts{canonical: true, bigLists: r.chance(1, 4)})
		_, enc := encodeFresh(m)
		ins := hostileInputs(r, t, enc, n)
		ins = append(ins, enc)
		forceListLen = 20
		mb := mk(genOpts{canonical: true})
		forceListLen = 0
		_, encb := encodeFresh(mb)
		ins = append(ins, inflatedInputs(r, mb, encb, 12)...)
		for _, in := range ins {
			if len(in) > 1<<16 {
				continue
			}
			buf := bytes.NewBuffer(append([]byte{}, in...))
			recv := t.New()
			measureDecode(t.New(), bytes.NewBuffer(append([]byte{}, in...))) // warm caches of the runtime (type descriptors, error values)
			delta, st := measureDecode(recv, buf)
			w.add("cost/"+st, fmt.Sprintf("DC\t%d\t%s", t.Id, hex.EncodeToString(in)), fmt.Sprintf("ok\t%d", delta))
		}
	})
	runtime.GC()
}
