#!/usr/bin/env python3
"""Writes coq/Pinned/Pinned.v from pinned/schema.json (run once at bootstrap; the output is committed and frozen).
Type and table ids are those of the tree at bootstrap (work/gen/types.json)."""
import json, os
V = os.path.dirname(os.path.dirname(os.path.abspath(__file__)))
pin = json.load(open(os.path.join(V, "pinned/schema.json")))
gen = json.load(open(os.path.join(V, "work/gen/types.json")))
tid = {t["Pkg"] + "." + t["Name"]: t["Id"] for t in gen["Types"]}
tblid = {t["Pkg"] + "." + t["Name"]: t["Id"] for t in gen["Tables"]}
protos = list(pin["protocols"].keys())
pid = {p: i for i, p in enumerate(protos)}
def cstr(s): return '"%s"%%string' % s
def b(x): return "true" if x else "false"
NM = {"panic": "NilPanic", "skip": "NilSkip", "fill-new": "NilFillNew", "fill-table": "NilFillTable", None: "NilPanic"}
def bytelist(s): return "[" + "; ".join("x%02x" % c for c in s.encode("latin1")) + "]"
out = []
out.append("(* Pinned/Pinned.v — the pinned wire layout of the five protocols, generated ONCE by bin/mkpinned.py from\n   pinned/schema.json and committed.  It has no byte-order slot per field: one order per protocol.\n   C02 / C03 / C12 compare the programs found in /repo with this file. *)")
out.append("From FP.Spec Require Export Layout.\nFrom Coq Require Strings.String.\nImport ListNotations.\nImport Coq.Strings.String.StringSyntax.\nDelimit Scope string_scope with string.\nLocal Open Scope nat_scope.\n")
out.append("(* protocol id, package, little-endian?, PDSL version *)")
out.append("Definition pinned_protocols : list (N * String.string * bool * String.string) := [\n" + ";\n".join(
    "  (%d%%N, %s, %s, %s)" % (pid[p], cstr(p), b(pin["protocols"][p]["order"] == "LE"), cstr(pin["protocols"][p]["version"])) for p in protos) + "].\n")
lts = []
for t in gen["Types"]:
    qn = t["Pkg"] + "." + t["Name"]
    pt = pin["types"][qn]
    fields = {f["name"]: i for i, f in enumerate(pt["fields"])}
    ks = []
    for f in pt["fields"]:
        w = f["wire"]
        if w == "basic": ks.append("LInt %s" % f["ity"])
        elif w == "computed-length": ks.append("LLen")
        elif w == "computed-checksum": ks.append("LSum %s %s" % (cstr(pt["frame"]["algorithm"]), f["ity"]))
        elif w == "fixed": ks.append("LFixed %d %d%%N %s" % (f["n"], f["pad"], b(f["left"])))
        elif w == "string": ks.append("LText %s" % f["len"])
        elif w == "basiclist": ks.append("LInts %s %s" % (f["cnt"], f["ity"]))
        elif w == "fixedlist": ks.append("LFixeds %s %d %d%%N %s" % (f["cnt"], f["n"], f["pad"], b(f["left"])))
        elif w == "stringlist": ks.append("LTexts %s %s" % (f["cnt"], f["len"]))
        elif w == "objlist": ks.append("LObjs %s %d%%N" % (f["cnt"], tid[f["ref"]]))
        elif w == "ptr": ks.append("LObj %d%%N false %s" % (tid[f["ref"]], NM[f.get("nil")]))
        elif w == "val": ks.append("LObj %d%%N true NilPanic" % tid[f["ref"]])
        elif w == "iface": ks.append("LSel %d%%N %d %s" % (tblid[f["table"]], fields[f["key"]], NM[f.get("nil")]))
        else: raise SystemExit("unknown wire kind " + w)
    lts.append("  (* %s *) {| lt_id := %d%%N; lt_proto := %d%%N; lt_fields := [%s] |}" % (qn, t["Id"], pid[pt["protocol"]], "; ".join(ks)))
out.append("Definition pinned_layouts : list ltype := [\n" + ";\n".join(lts) + "].\n")
tbs = []
for t in gen["Tables"]:
    name = t["Pkg"] + "." + t["Name"]
    pt = pin["tables"][name]
    es = []
    for e in pt["entries"]:
        k = "TKNum %d%%N" % e["key"] if pt["key_kind"] == "num" else "TKStr %s" % bytelist(e["key"])
        es.append("(%s, %d%%N)" % (k, tid[e["type"]]))
    tbs.append("  (* %s *) (%d%%N, [%s])" % (name, t["Id"], "; ".join(es)))
out.append("Definition pinned_tables : list (N * table) := [\n" + ";\n".join(tbs) + "].\n")
open(os.path.join(V, "coq/Pinned/Pinned.v"), "w").write("\n".join(out))
print("wrote Pinned.v:", len(lts), "types,", len(tbs), "tables")
