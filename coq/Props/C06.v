(* Props/C06.v — encoding depends only on the message: append-only, context-free, sequences
   concatenate.  Statements only; proofs are [exact]. *)
From FP.Props Require Import Common.
From FP.Theory Require Import Append.
Local Open Scope N_scope.

(* For every recognised type (all of them: H_infer), every well-typed message and every buffer content:
   Encode leaves the bytes already there untouched and appends exactly what it appends to an empty
   buffer -- and to any other buffer.  (Bytes already consumed are not part of the modelled buffer:
   no primitive can reach them; the correspondence check exercises partly consumed buffers.) *)
Theorem C06_append_only_context_free : forall t fs buf fs' buf',
  typed t fs = true -> encode t fs buf = Ok (fs', buf') ->
  exists bs, buf' = buf ++ bs /\ encode t fs [] = Ok (fs', bs) /\ forall b2, encode t fs b2 = Ok (fs', b2 ++ bs).
Proof. exact (append_only encode senc typed encode_spec). Qed.

(* whether Encode fails, and how, does not depend on the buffer either *)
Theorem C06_failure_context_free : forall t fs b1 b2 f,
  typed t fs = true -> encode t fs b1 = Fail f -> encode t fs b2 = Fail f.
Proof. exact (failure_context_free encode senc typed encode_spec). Qed.

(* any sequence of messages encoded into one buffer is the concatenation of their individual encodings *)
Theorem C06_sequences_concatenate : forall ms buf rs out,
  forallb (fun m => typed (fst m) (snd m)) ms = true ->
  enc_all encode ms buf = Ok (rs, out) ->
  exists bss, alone_all encode ms = Ok (rs, bss) /\ out = buf ++ concat bss.
Proof. exact (sequence_concat encode senc typed encode_spec). Qed.

(* repeatable: encoding the object again (as Encode left it: absent parts filled in, the frame's length and checksum
   set) produces the same bytes and leaves it as it is - for EVERY well-typed value on which Encode succeeds (values
   outside the round-trip domain included: over-long text that is cut, absent parts, stale computed fields), all 170
   types.  Encode also leaves a well-typed message well-typed. *)
From FP.Props Require C01 C08.
From FP.Theory Require Import EncTyped.
Lemma H_fills : fills_ok_env schemas = true.
Proof. vm_compute. reflexivity. Qed.

Theorem C06_encode_preserves_typing : forall t fs buf fs' buf',
  typed t fs = true -> encode t fs buf = Ok (fs', buf') -> typed t fs' = true.
Proof.
  intros t fs buf fs' buf' Ht He. rewrite encode_spec in He by exact Ht.
  destruct (senc t fs) as [[a b]|] eqn:E; cbn [lift] in He; [|discriminate]. inversion He; subst a buf'.
  rewrite <- C08.H_sigs in *. exact (enc_typed tables registry0 C01.H_calc schemas C08.H_types H_fills t fs fs' b Ht E).
Qed.

Theorem C06_repeatable : forall t fs fs' bs,
  typed t fs = true -> encode t fs [] = Ok (fs', bs) -> forall out, encode t fs' out = Ok (fs', out ++ bs).
Proof.
  intros t fs fs' bs Ht He out. pose proof (C06_encode_preserves_typing t fs [] fs' bs Ht He) as Ht'.
  rewrite encode_spec in He by exact Ht. destruct (senc t fs) as [[a b]|] eqn:E; cbn [lift app] in He; [|discriminate].
  inversion He; subst a b. rewrite encode_spec by exact Ht'.
  rewrite (spec_enc_idempotent tables registry0 schemas t fs fs' bs E). reflexivity.
Qed.

(* non-vacuity: a concrete SSE frame with a Logon body is well typed and encodes *)
Definition ex_frame : list value :=
  [VInt 40; VInt 7; VInt 999; VObj id_sse_bin_Logon (zero_value id_sse_bin_Logon); VInt 5].
Example C06_nonvacuous :
  is_plain schemas id_sse_bin_Logon = true /\ typed id_sse_bin_Logon C01.ex_logon = true /\
  canon_envb tables registry0 schemas id_sse_bin_Logon C01.ex_logon = true /\
  typed id_sse_bin_SseBinary ex_frame = true /\
  match encode id_sse_bin_SseBinary ex_frame [x01; x02] with Ok (_, b) => (8 <? lenN b) | Fail _ => false end = true.
Proof. vm_compute. repeat split; reflexivity. Qed.

(* The buffer itself.  Sem.v's buffer is the list of its unread bytes and Write is list append.  bytes.Buffer as the Go
   source has it (Model/Buffer.v: read offset, length, capacity, reslice / slide down / reallocate, over a heap of arrays
   that are never freed) does exactly that to its unread bytes - from every starting state (however much has been
   consumed, whatever the spare capacity, whatever stale bytes lie beyond the end, whatever capacity the runtime picks
   for a new array) and for every history of Write/Grow/Next/Read/Reset/Bytes.  The model is tied to the real
   bytes.Buffer by the "buf" correspondence slice. *)
From FP.Model Require Buffer.
From FP.Theory Require BufferRefine.
Theorem C06_buffer_is_its_unread_bytes : forall os s s',
  BufferRefine.WF (Buffer.st_h s) (Buffer.st_b s) -> forallb (fun o => negb (BufferRefine.pokes o)) os = true ->
  Buffer.bsteps s os = Some s' ->
  BufferRefine.WF (Buffer.st_h s') (Buffer.st_b s') /\
  Buffer.contents (Buffer.st_h s') (Buffer.st_b s') =
    fold_left Buffer.astep os (Buffer.contents (Buffer.st_h s) (Buffer.st_b s)).
Proof. exact BufferRefine.buffer_refines_list. Qed.

(* a message is written in many pieces (one binary.Write per field): whatever the pieces and whatever capacities the
   runtime picks along the way, the buffer afterwards holds what it held followed by the pieces in order *)
Theorem C06_pieces_concatenate_in_any_buffer : forall ws s s',
  BufferRefine.WF (Buffer.st_h s) (Buffer.st_b s) ->
  Buffer.bsteps s (map (fun w => Buffer.BWrite (fst w) (snd w)) ws) = Some s' ->
  BufferRefine.WF (Buffer.st_h s') (Buffer.st_b s') /\
  Buffer.contents (Buffer.st_h s') (Buffer.st_b s') = Buffer.contents (Buffer.st_h s) (Buffer.st_b s) ++ concat (map snd ws).
Proof. exact BufferRefine.writes_concatenate. Qed.

(* a Write fails only if the runtime hands out too small an array *)
Theorem C06_write_appends : forall nc h b bs,
  BufferRefine.WF h b -> (Buffer.unread b + List.length bs <= nc)%nat ->
  exists h' b', Buffer.write nc h b bs = Some (h', b') /\ BufferRefine.WF h' b' /\
                Buffer.contents h' b' = Buffer.contents h b ++ bs.
Proof.
  intros nc h b bs W Hnc. destruct (Buffer.write nc h b bs) as [[h' b']|] eqn:E.
  - exists h', b'. split; [reflexivity | exact (BufferRefine.write_refines nc h b bs h' b' W E)].
  - exfalso. exact (BufferRefine.write_total nc h b bs W Hnc E).
Qed.

(* non-vacuity: a partly consumed buffer with stale bytes beyond its end is a well-formed state, and a history that
   consumes, slides and reallocates runs *)
Example C06_buffer_nonvacuous :
  let s := Buffer.new_buffer (repeat x55 20 ++ [x01; x02; x03; x04] ++ repeat xee 8) 24 in
  BufferRefine.WF (Buffer.st_h s) (Buffer.st_b s) /\
  match Buffer.bsteps s [Buffer.BRead 20; Buffer.BWrite 64 (repeat x07 12); Buffer.BWrite 64 (repeat x08 40)] with
  | Some s' => Buffer.contents (Buffer.st_h s') (Buffer.st_b s') = [x01; x02; x03; x04] ++ repeat x07 12 ++ repeat x08 40
  | None => False
  end.
Proof. split; [apply BufferRefine.new_buffer_wf; cbn; lia | vm_compute; reflexivity]. Qed.

Print Assumptions C06_buffer_is_its_unread_bytes.
Print Assumptions C06_write_appends.
Print Assumptions C06_pieces_concatenate_in_any_buffer.
Print Assumptions C06_append_only_context_free.
Print Assumptions C06_failure_context_free.
Print Assumptions C06_sequences_concatenate.
Print Assumptions C06_encode_preserves_typing.
Print Assumptions C06_repeatable.
