package main

// corr_buf.go — the "buf" correspondence slice: random operation sequences on a real bytes.Buffer (Write, Grow, Next,
// Read, io.ReadFull, Reset, Bytes, and writes through slices obtained earlier from Next/Bytes) against Model/Buffer.v.  After
// every step both sides report the unread bytes, the capacity, and what every remembered slice reads now: that is
// where "slide down or reallocate" and "which array does an old slice point at" become visible.  The capacity of a
// newly allocated array is the runtime's business (size classes): the observed value is passed to the model.

import (
	"bytes"
	"encoding/hex"
	"fmt"
	"io"
	"strings"
)

func emitBufCases(w *caseWriter, r *rng, thorough bool) {
	n := 1500
	if thorough {
		n = 12000
	}
	for i := 0; i < n; i++ {
		// the starting buffer: bytes.NewBuffer(a[:k]) over an array with stale bytes beyond k; zero-value now and then
		var buf *bytes.Buffer
		var arr []byte
		k := 0
		class := "buf/new"
		switch r.intn(5) {
		case 0:
			buf = &bytes.Buffer{}
			class = "buf/zero-value"
		default:
			total := r.intn(80)
			if r.chance(1, 4) {
				total = 200 + r.intn(400)
			}
			arr = make([]byte, total)
			for j := range arr {
				arr[j] = byte(0xee - 7*j)
			}
			k = r.intn(total + 1)
			buf = bytes.NewBuffer(arr[:k])
		}
		start := hex.EncodeToString(arr)
		steps := 1 + r.intn(14)
		var toks, outs []string
		var remembered [][]byte
		flags := map[string]bool{}
		for j := 0; j < steps; j++ {
			switch c := r.intn(20); {
			case c < 8:
				ln := r.intn(12)
				switch r.intn(6) {
				case 0:
					ln = 30 + r.intn(80)
				case 1:
					ln = 100 + r.intn(500)
				}
				bs := r.bytes(ln)
				c0, av := buf.Cap(), buf.Available()
				buf.Write(bs)
				if buf.Cap() != c0 {
					flags["realloc"] = true
				} else if ln > av {
					flags["slide"] = true
				}
				toks = append(toks, fmt.Sprintf("w%d:%s", buf.Cap(), hex.EncodeToString(bs)))
			case c < 10:
				g := r.intn(300)
				c0, av := buf.Cap(), buf.Available()
				buf.Grow(g)
				if buf.Cap() != c0 {
					flags["realloc"] = true
				} else if g > av {
					flags["slide"] = true
				}
				toks = append(toks, fmt.Sprintf("g%d:%d", buf.Cap(), g))
			case c < 13:
				kk := r.intn(buf.Len() + 3)
				if r.chance(1, 3) {
					kk = buf.Len()
				}
				remembered = append(remembered, buf.Next(kk))
				toks = append(toks, fmt.Sprintf("n%d", kk))
			case c < 15:
				kk := r.intn(buf.Len() + 3)
				if r.chance(1, 2) && buf.Len() > 0 {
					// read nearly everything: little unread, much consumed - where the next Write slides
					kk = buf.Len() - r.intn(6)
					if kk < 0 {
						kk = 0
					}
				}
				buf.Read(make([]byte, kk))
				toks = append(toks, fmt.Sprintf("r%d", kk))
			case c < 16:
				if r.chance(1, 2) {
					buf.Reset()
					toks = append(toks, "z")
				} else {
					// io.ReadFull, as binary.Read and the fixed-text readers use it: sometimes more than is there
					kk := r.intn(buf.Len() + 4)
					io.ReadFull(buf, make([]byte, kk))
					toks = append(toks, fmt.Sprintf("f%d", kk))
					flags["readfull"] = true
				}
			case c < 18:
				remembered = append(remembered, buf.Bytes())
				toks = append(toks, "b")
			default:
				if len(remembered) == 0 {
					buf.Reset()
					toks = append(toks, "z")
					break
				}
				si := r.intn(len(remembered))
				s := remembered[si]
				p := r.intn(len(s) + 1)
				bs := r.bytes(r.intn(len(s) - p + 2))
				if p+len(bs) <= len(s) && len(bs) > 0 {
					before := append([]byte{}, buf.Bytes()...)
					copy(s[p:], bs)
					if bytes.Equal(before, buf.Bytes()) {
						flags["poke-outside-contents"] = true
					} else {
						flags["poke-into-contents"] = true
					}
				}
				toks = append(toks, fmt.Sprintf("p%d:%d:%s", si, p, hex.EncodeToString(bs)))
			}
			var sl []string
			for _, s := range remembered {
				sl = append(sl, hex.EncodeToString(s))
			}
			outs = append(outs, fmt.Sprintf("%s,%d,%s", hex.EncodeToString(buf.Bytes()), buf.Cap(), strings.Join(sl, "|")))
		}
		for _, f := range []string{"realloc", "slide", "readfull", "poke-into-contents", "poke-outside-contents"} {
			if flags[f] {
				class += "+" + f
			}
		}
		w.add(class, fmt.Sprintf("BF\t%s\t%d\t%s", start, k, strings.Join(toks, " ")), "ok\t"+strings.Join(outs, " "))
	}
}
