(* Props/C06.v — encoding depends only on the message: append-only, context-free, sequences
   concatenate.  Statements only; proofs are [exact]. *)
From FP.Props Require Import Common.
From FP.Theory Require Import Append.
Local Open Scope N_scope.

(* For every recognised type (all of them: H_infer), every well-typed message and every buffer content:
   Encode leaves the bytes already there untouched and appends exactly what it appends to an empty
   buffer -- and to any other buffer.  (Bytes already consumed are not part of the modelled buffer:
   no primitive can reach them; the correspondence check exercises partly consumed buffers.) *)
Theorem C06_append_only_context_free : forall t fs buf fs' buf',
  typed t fs = true -> encode t fs buf = Ok (fs', buf') ->
  exists bs, buf' = buf ++ bs /\ encode t fs [] = Ok (fs', bs) /\ forall b2, encode t fs b2 = Ok (fs', b2 ++ bs).
Proof. exact (append_only encode senc typed encode_spec). Qed.

(* whether Encode fails, and how, does not depend on the buffer either *)
Theorem C06_failure_context_free : forall t fs b1 b2 f,
  typed t fs = true -> encode t fs b1 = Fail f -> encode t fs b2 = Fail f.
Proof. exact (failure_context_free encode senc typed encode_spec). Qed.

(* any sequence of messages encoded into one buffer is the concatenation of their individual encodings *)
Theorem C06_sequences_concatenate : forall ms buf rs out,
  forallb (fun m => typed (fst m) (snd m)) ms = true ->
  enc_all encode ms buf = Ok (rs, out) ->
  exists bss, alone_all encode ms = Ok (rs, bss) /\ out = buf ++ concat bss.
Proof. exact (sequence_concat encode senc typed encode_spec). Qed.

(* repeatable: encoding the object again (as Encode left it) produces the same bytes and leaves it as it is.
   Proved here for the canonical domain of C01 and the 166 types without self-computed fields, as a consequence of
   the round trip (C01) and of re-encoding (C08); for the four frames and for non-canonical values (over-long text
   that is cut, absent parts that are filled in) repeatability is checked by the direct oracle only. *)
From FP.Props Require C01 C08.
From FP.Theory Require Import RoundTrip DecTyped.
Theorem C06_repeatable_partial : forall t fs fs' bs,
  is_plain schemas t = true -> typed t fs = true -> canon_env tables registry0 schemas t fs ->
  encode t fs [] = Ok (fs', bs) ->
  typed t fs' = true /\ forall out, encode t fs' out = Ok (fs', out ++ bs).
Proof.
  intros t fs fs' bs Hp Ht Hc He.
  rewrite encode_spec in He by exact Ht. destruct (senc t fs) as [[a b]|] eqn:E; cbn [lift app] in He; [|discriminate].
  inversion He; subst a b.
  pose proof (spec_round_trip tables registry0 C01.H_calc schemas C01.H_rt C01.H_dec_safe t fs fs' bs Hc E []) as Hd.
  assert (Ht' : typed t fs' = true) by (rewrite <- C08.H_sigs; exact (dec_typed tables schemas C08.H_types t _ fs' [] Hd)).
  split; [exact Ht'|]. intro out.
  destruct (spec_reencode_plain tables registry0 schemas C08.H_reenc t _ fs' [] Hp Hd) as [pre [Hb Hs]].
  rewrite !app_nil_r in Hb. subst pre. rewrite encode_spec by exact Ht'. rewrite Hs. reflexivity.
Qed.

(* non-vacuity: a concrete SSE frame with a Logon body is well typed and encodes *)
Definition ex_frame : list value :=
  [VInt 40; VInt 7; VInt 999; VObj id_sse_bin_Logon (zero_value id_sse_bin_Logon); VInt 5].
Example C06_nonvacuous :
  is_plain schemas id_sse_bin_Logon = true /\ typed id_sse_bin_Logon C01.ex_logon = true /\
  canon_envb tables registry0 schemas id_sse_bin_Logon C01.ex_logon = true /\
  typed id_sse_bin_SseBinary ex_frame = true /\
  match encode id_sse_bin_SseBinary ex_frame [x01; x02] with Ok (_, b) => (8 <? lenN b) | Fail _ => false end = true.
Proof. vm_compute. repeat split; reflexivity. Qed.

Print Assumptions C06_append_only_context_free.
Print Assumptions C06_failure_context_free.
Print Assumptions C06_sequences_concatenate.
Print Assumptions C06_repeatable_partial.
