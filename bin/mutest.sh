#!/bin/bash
# mutest.sh <seeded-name> <Cxx> [Cyy...]: apply a seeded change to /repo, run the named checks, undo it.
S=/verif/seeded/$1; shift
git -C /repo apply $S/patch.diff || { echo APPLY-FAILED; exit 9; }
for c in "$@"; do /verif/bin/verif check $c; rc=$?; echo "[$(basename $S)] $c exit=$rc"; done
git -C /repo checkout -- . ; git -C /repo status --short | head -3
