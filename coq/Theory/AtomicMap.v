(* Theory/AtomicMap.v — what every history of the atomic map satisfies (consequences a user relies on):
   one winner among registrations of a name, look-ups return only what was registered under that name, and the
   winner stays visible until a remove or clear. *)
From Coq Require Import List NArith Bool Arith Lia.
Import ListNotations.
From FP.Model Require Import Locks.
Local Open Scope N_scope.

Definition call_eq_dec (a b : call) : {a = b} + {a <> b}.
Proof. decide equality; apply N.eq_dec. Defined.
Definition ret_eq_dec (a b : ret) : {a = b} + {a <> b}.
Proof. decide equality; [apply Bool.bool_dec|]. decide equality. apply N.eq_dec. Defined.

Definition kills (k : key) (c : call) : bool :=
  match c with CRemove k' => k' =? k | CClear => true | _ => false end.
(* no remove of k / clear is invoked in h *)
Definition quiet (k : key) (h : list event) : Prop :=
  forall t c, In (EInv t c) h -> kills k c = false.
(* ... and none is in flight in a *)
Definition calm (k : key) (a : astate) : Prop :=
  forall t c, ath a t = APend c -> kills k c = false.

Definition win (k : key) (e : event) : bool :=
  match e with ERes _ (CRegistry k' _) (RBool true) => k' =? k | _ => false end.
Definition wins (k : key) (h : list event) : nat := length (filter (win k) h).

Definition won (k : key) (x : astate_t) : Prop := exists v, x = ADone (CRegistry k v) (RBool true).

Lemma set_a_same th t x : set_a th t x t = x.
Proof. unfold set_a. rewrite Nat.eqb_refl. reflexivity. Qed.
Lemma set_a_other th t x t' : t' <> t -> set_a th t x t' = th t'.
Proof. intro H. unfold set_a. destruct (Nat.eqb_spec t' t); [contradiction|reflexivity]. Qed.

Lemma quiet_cons k e h : quiet k (e :: h) -> quiet k h.
Proof. intros H t c Hin. apply (H t c). right. exact Hin. Qed.

Lemma seq_other_key c m k : kills k c = false -> (forall v, c <> CRegistry k v) -> fst (seq c m) k = m k.
Proof.
  intros Hk Hn. destruct c as [k' v| |k'|k'|]; cbn in *; try reflexivity; try discriminate.
  - destruct (m k') eqn:E; cbn; [reflexivity|]. unfold upd. destruct (N.eqb_spec k k'); [subst; exfalso; apply (Hn v); reflexivity|reflexivity].
  - unfold del. destruct (N.eqb_spec k k'); [subst; rewrite N.eqb_refl in Hk; discriminate|reflexivity].
Qed.

(* ---- one winner ---- *)
(* the three situations of a name while no remove/clear is around *)
Definition stA k a := am a k = None /\ forall t, ~ won k (ath a t).
Definition stB k a t0 := (exists v, am a k = Some v) /\ won k (ath a t0) /\ forall t, t <> t0 -> ~ won k (ath a t).
Definition stC k a := (exists v, am a k = Some v) /\ forall t, ~ won k (ath a t).

Lemma one_winner_gen k a h a' : aexec a h a' -> calm k a -> quiet k h ->
  (stC k a -> wins k h = 0%nat) /\ ((exists t0, stB k a t0) -> (wins k h <= 1)%nat) /\ (stA k a -> (wins k h <= 1)%nat).
Proof.
  induction 1 as [a|a e a1 h a2 Hstep Hexec IH]; intros Hcalm Hq.
  - cbn. repeat split; intros; lia.
  - inversion Hstep; subst.
    + (* invocation *)
      rename H into Hidle.
      assert (Hk : kills k c = false) by (apply (Hq t c); left; reflexivity).
      assert (Hcalm1 : calm k {| am := am a; ath := set_a (ath a) t (APend c) |}).
      { intros t' c' Hp. cbn in Hp. destruct (Nat.eq_dec t' t) as [->|Hne].
        - rewrite set_a_same in Hp. inversion Hp; subst. exact Hk.
        - rewrite set_a_other in Hp by exact Hne. apply (Hcalm t' c' Hp). }
      destruct (IH Hcalm1 (quiet_cons _ _ _ Hq)) as [IC [IB IA]].
      assert (Hw : forall t', won k (set_a (ath a) t (APend c) t') <-> won k (ath a t')).
      { intro t'. destruct (Nat.eq_dec t' t) as [->|Hne].
        - rewrite set_a_same, Hidle. split; intros [v Hv]; discriminate.
        - rewrite set_a_other by exact Hne. tauto. }
      unfold wins in *. cbn [filter win]. repeat split.
      * intros [Hm Hn]. apply IC. split; [exact Hm|]. intros t' Hx. apply (Hn t'). apply Hw. exact Hx.
      * intros [t0 [Hm [H0 Hn]]]. apply IB. exists t0. split; [exact Hm|]. split; [apply Hw; exact H0|].
        intros t' Hne Hx. apply (Hn t' Hne). apply Hw. exact Hx.
      * intros [Hm Hn]. apply IA. split; [exact Hm|]. intros t' Hx. apply (Hn t'). apply Hw. exact Hx.
    + (* linearization *)
      rename H into Hpend.
      assert (Hk : kills k c = false) by (apply (Hcalm t c Hpend)).
      assert (Hcalm1 : calm k {| am := fst (seq c (am a)); ath := set_a (ath a) t (ADone c (snd (seq c (am a)))) |}).
      { intros t' c' Hp. cbn in Hp. destruct (Nat.eq_dec t' t) as [->|Hne].
        - rewrite set_a_same in Hp. discriminate.
        - rewrite set_a_other in Hp by exact Hne. apply (Hcalm t' c' Hp). }
      destruct (IH Hcalm1 Hq) as [IC [IB IA]].
      assert (Hnw : ~ won k (ath a t)) by (rewrite Hpend; intros [v Hv]; discriminate).
      (* is this a registration of k on a free name? *)
      destruct (am a k) as [v0|] eqn:Ek.
      * (* name taken: the map keeps k, and t does not win *)
        assert (Hk' : exists v, fst (seq c (am a)) k = Some v).
        { destruct c as [k' v| |k'|k'|]; cbn in *; try (eexists; eassumption); try discriminate.
          - destruct (am a k') eqn:E'; cbn; [eexists; eassumption|]. unfold upd.
            destruct (N.eqb_spec k k'); [subst; congruence|eexists; eassumption].
          - unfold del. destruct (N.eqb_spec k k'); [subst; rewrite N.eqb_refl in Hk; discriminate|eexists; eassumption]. }
        assert (Hnw1 : ~ won k (ADone c (snd (seq c (am a))))).
        { intros [v Hv]. inversion Hv; subst. cbn in H1. rewrite Ek in H1. discriminate. }
        assert (Hw : forall t', won k (set_a (ath a) t (ADone c (snd (seq c (am a)))) t') <-> won k (ath a t')).
        { intro t'. destruct (Nat.eq_dec t' t) as [->|Hne]; [rewrite set_a_same; tauto|rewrite set_a_other by exact Hne; tauto]. }
        repeat split.
        -- intros [Hm Hn]. apply IC. split; [exact Hk'|]. intros t' Hx. apply (Hn t'). apply Hw. exact Hx.
        -- intros [t0 [Hm [H0 Hn]]]. apply IB. exists t0. split; [exact Hk'|]. split; [apply Hw; exact H0|].
           intros t' Hne Hx. apply (Hn t' Hne). apply Hw. exact Hx.
        -- intros [Hm _]. unfold stA in *. congruence.
      * (* name free *)
        repeat split.
        -- intros [[v Hm] _]. congruence.
        -- intros [t0 [[v Hm] _]]. congruence.
        -- intros [_ Hn].
           destruct c as [k' v| |k'|k'|].
           ++ destruct (N.eq_dec k' k) as [->|Hne].
              ** (* the winner *)
                 apply IB. exists t. cbn. rewrite Ek. cbn. split; [|split].
                 --- exists v. cbn [am]. unfold upd. rewrite N.eqb_refl. reflexivity.
                 --- cbn [ath]. rewrite set_a_same. exists v. reflexivity.
                 --- intros t' Hne Hx. cbn [ath] in Hx. rewrite set_a_other in Hx by exact Hne. apply (Hn t' Hx).
              ** apply IA. split.
                 --- cbn [am]. rewrite seq_other_key; [exact Ek|exact Hk|]. intros v' E. inversion E. congruence.
                 --- intros t' Hx. cbn in Hx. destruct (Nat.eq_dec t' t) as [->|Hne'].
                     +++ rewrite set_a_same in Hx. destruct Hx as [v' Hv]. inversion Hv. congruence.
                     +++ rewrite set_a_other in Hx by exact Hne'. apply (Hn t' Hx).
           ++ apply IA. split; [exact Ek|]. intros t' Hx. cbn in Hx. destruct (Nat.eq_dec t' t) as [->|Hne'].
              ** rewrite set_a_same in Hx. destruct Hx as [v' Hv]. discriminate.
              ** rewrite set_a_other in Hx by exact Hne'. apply (Hn t' Hx).
           ++ apply IA. split; [exact Ek|]. intros t' Hx. cbn in Hx. destruct (Nat.eq_dec t' t) as [->|Hne'].
              ** rewrite set_a_same in Hx. destruct Hx as [v' Hv]. discriminate.
              ** rewrite set_a_other in Hx by exact Hne'. apply (Hn t' Hx).
           ++ apply IA. split.
              ** cbn [am]. rewrite seq_other_key; [exact Ek|exact Hk|]. intros v' E. discriminate.
              ** intros t' Hx. cbn in Hx. destruct (Nat.eq_dec t' t) as [->|Hne'].
                 --- rewrite set_a_same in Hx. destruct Hx as [v' Hv]. discriminate.
                 --- rewrite set_a_other in Hx by exact Hne'. apply (Hn t' Hx).
           ++ cbn in Hk. discriminate.
    + (* response *)
      rename H into Hdone.
      assert (Hcalm1 : calm k {| am := am a; ath := set_a (ath a) t AIdle |}).
      { intros t' c' Hp. cbn in Hp. destruct (Nat.eq_dec t' t) as [->|Hne].
        - rewrite set_a_same in Hp. discriminate.
        - rewrite set_a_other in Hp by exact Hne. apply (Hcalm t' c' Hp). }
      destruct (IH Hcalm1 (quiet_cons _ _ _ Hq)) as [IC [IB IA]].
      assert (Hidle : ~ won k (set_a (ath a) t AIdle t)) by (rewrite set_a_same; intros [v Hv]; discriminate).
      assert (Hoth : forall t', t' <> t -> (won k (set_a (ath a) t AIdle t') <-> won k (ath a t'))).
      { intros t' Hne. rewrite set_a_other by exact Hne. tauto. }
      unfold wins in *. cbn [filter].
      destruct (win k (ERes t c r)) eqn:Ew.
      * (* a winning response: t was the unique winner in flight *)
        assert (Hwon : won k (ath a t)).
        { rewrite Hdone. cbn in Ew. destruct c as [k' v| | | |]; try discriminate. destruct r as [[]| |]; try discriminate.
          apply N.eqb_eq in Ew. subst. exists v. reflexivity. }
        cbn [length]. repeat split.
        -- intros [_ Hn]. exfalso. apply (Hn t Hwon).
        -- intros [t0 [Hm [H0 Hn]]].
           assert (t = t0) by (destruct (Nat.eq_dec t t0) as [E|E]; [exact E|exfalso; apply (Hn t E Hwon)]). subst t0.
           enough (length (filter (win k) h) = 0)%nat by lia.
           apply IC. split; [exact Hm|]. intros t' Hx. destruct (Nat.eq_dec t' t) as [->|Hne]; [apply Hidle; exact Hx|].
           apply (Hn t' Hne). apply Hoth; assumption.
        -- intros [_ Hn]. exfalso. apply (Hn t Hwon).
      * assert (Hnw : ~ won k (ath a t)).
        { rewrite Hdone. intros [v Hv]. inversion Hv; subst. cbn in Ew. rewrite N.eqb_refl in Ew. discriminate. }
        repeat split.
        -- intros [Hm Hn]. apply IC. split; [exact Hm|]. intros t' Hx. destruct (Nat.eq_dec t' t) as [->|Hne]; [apply Hidle; exact Hx|].
           apply (Hn t'). apply Hoth; assumption.
        -- intros [t0 [Hm [H0 Hn]]]. apply IB. exists t0.
           assert (Hne0 : t0 <> t) by (intro; subst; contradiction).
           split; [exact Hm|]. split; [apply Hoth; assumption|].
           intros t' Hne Hx. destruct (Nat.eq_dec t' t) as [->|Hne']; [apply Hidle; exact Hx|].
           apply (Hn t' Hne). apply Hoth; assumption.
        -- intros [Hm Hn]. apply IA. split; [exact Hm|]. intros t' Hx. destruct (Nat.eq_dec t' t) as [->|Hne]; [apply Hidle; exact Hx|].
           apply (Hn t'). apply Hoth; assumption.
Qed.

(* From the empty registry: as long as nobody invokes a remove of k or a clear, at most one registration of k
   reports success, however the calls overlap. *)
Theorem one_winner k h a : aexec ainit h a -> quiet k h -> (wins k h <= 1)%nat.
Proof.
  intros He Hq. apply (one_winner_gen k ainit h a He); [|exact Hq|].
  - intros t c Hp. discriminate.
  - split; [reflexivity|]. intros t [v Hv]. discriminate.
Qed.

(* ---- look-ups return only what was registered under that name ---- *)
Definition honest (past : call -> Prop) (a : astate) : Prop :=
  (forall k v, am a k = Some v -> past (CRegistry k v)) /\
  (forall t c, ath a t = APend c -> past c) /\
  (forall t k v, ath a t = ADone (CGet k) (RVal (Some v)) -> past (CRegistry k v)).

Lemma right_name_gen a h a' : aexec a h a' -> forall past, honest past a ->
  forall pre t k v post, h = pre ++ ERes t (CGet k) (RVal (Some v)) :: post ->
  past (CRegistry k v) \/ exists t', In (EInv t' (CRegistry k v)) pre.
Proof.
  induction 1 as [a|a e a1 h a2 Hstep Hexec IH]; intros past Hh pre t0 k v post Heq.
  - destruct pre; discriminate.
  - destruct Hh as [H1 [H2 H3]]. inversion Hstep; subst.
    + (* invocation of c: it joins the past *)
      rename H into Hidle.
      destruct pre as [|e0 pre]; [discriminate|]. inversion Heq; subst.
      destruct (IH (fun x => past x \/ x = c)) with (pre := pre) (t := t0) (k := k) (v := v) (post := post) as [[Hp|Hp]|[t' Hin]].
      * split; [|split]; cbn.
        -- intros k' v' Hm. left. apply (H1 k' v' Hm).
        -- intros t' c' Hp. destruct (Nat.eq_dec t' t) as [->|Hne].
           ++ rewrite set_a_same in Hp. inversion Hp. right. reflexivity.
           ++ rewrite set_a_other in Hp by exact Hne. left. apply (H2 t' c' Hp).
        -- intros t' k' v' Hp. destruct (Nat.eq_dec t' t) as [->|Hne].
           ++ rewrite set_a_same in Hp. discriminate.
           ++ rewrite set_a_other in Hp by exact Hne. left. apply (H3 t' k' v' Hp).
      * reflexivity.
      * left. exact Hp.
      * right. exists t. left. rewrite Hp. reflexivity.
      * right. exists t'. right. exact Hin.
    + (* linearization *)
      rename H into Hpend.
      apply (IH past) with (t := t0) (post := post); [|exact Heq].
      split; [|split]; cbn.
      * intros k' v' Hm. destruct c as [k'' v''| |k''|k''|]; cbn in Hm; try (apply (H1 k' v' Hm)).
        -- destruct (am a k'') eqn:E; cbn in Hm; [apply (H1 k' v' Hm)|]. unfold upd in Hm.
           destruct (N.eqb_spec k' k''); [inversion Hm; subst; apply (H2 t _ Hpend)|apply (H1 k' v' Hm)].
        -- unfold del in Hm. destruct (k' =? k''); [discriminate|apply (H1 k' v' Hm)].
        -- discriminate.
      * intros t' c' Hp. destruct (Nat.eq_dec t' t) as [->|Hne].
        -- rewrite set_a_same in Hp. discriminate.
        -- rewrite set_a_other in Hp by exact Hne. apply (H2 t' c' Hp).
      * intros t' k' v' Hp. destruct (Nat.eq_dec t' t) as [->|Hne].
        -- rewrite set_a_same in Hp. injection Hp as Hc Hr. subst c. cbn in Hr. injection Hr as Hr. apply H1. exact Hr.
        -- rewrite set_a_other in Hp by exact Hne. apply (H3 t' k' v' Hp).
    + (* response *)
      rename H into Hdone.
      destruct pre as [|e0 pre].
      * inversion Heq; subst. left. apply (H3 t0 k v Hdone).
      * inversion Heq; subst.
        destruct (IH past) with (pre := pre) (t := t0) (k := k) (v := v) (post := post) as [Hp|[t' Hin]].
        -- split; [|split]; cbn.
           ++ exact H1.
           ++ intros t' c' Hp. destruct (Nat.eq_dec t' t) as [->|Hne].
              ** rewrite set_a_same in Hp. discriminate.
              ** rewrite set_a_other in Hp by exact Hne. apply (H2 t' c' Hp).
           ++ intros t' k' v' Hp. destruct (Nat.eq_dec t' t) as [->|Hne].
              ** rewrite set_a_same in Hp. discriminate.
              ** rewrite set_a_other in Hp by exact Hne. apply (H3 t' k' v' Hp).
        -- reflexivity.
        -- left. exact Hp.
        -- right. exists t'. right. exact Hin.
Qed.

(* From the empty registry: a look-up of k that returns service v was preceded by the invocation of a
   registration of v under exactly the name k. *)
Theorem right_name h a pre t k v post : aexec ainit h a ->
  h = pre ++ ERes t (CGet k) (RVal (Some v)) :: post -> exists t', In (EInv t' (CRegistry k v)) pre.
Proof.
  intros He Heq.
  destruct (right_name_gen _ _ _ He (fun _ => False)) with (pre := pre) (t := t) (k := k) (v := v) (post := post) as [[]|H].
  - split; [|split]; cbn; intros; discriminate.
  - exact Heq.
  - exact H.
Qed.

(* ---- the winner stays visible until a remove or clear ---- *)
Definition quiet_ev (k : key) (e : event) : Prop := forall t c, e = EInv t c -> kills k c = false.
Definition installed (k : key) (a : astate) : Prop :=
  forall t v, ath a t = ADone (CRegistry k v) (RBool true) -> am a k = Some v.

Lemma seq_keeps k v c m : kills k c = false -> m k = Some v -> fst (seq c m) k = Some v.
Proof.
  intros Hk Hm. destruct c as [k' v'| |k'|k'|]; cbn in *; try exact Hm; try discriminate.
  - destruct (m k') eqn:E; cbn; [exact Hm|]. unfold upd. destruct (N.eqb_spec k k'); [subst; congruence|exact Hm].
  - unfold del. destruct (N.eqb_spec k k'); [subst; rewrite N.eqb_refl in Hk; discriminate|exact Hm].
Qed.

Lemma step_calm k a e a1 : astep a e a1 -> calm k a -> quiet_ev k e -> calm k a1.
Proof.
  intros Hs Hc Hq. inversion Hs; subst; intros t' c' Hp; cbn in Hp;
    (destruct (Nat.eq_dec t' t) as [->|Hne]; [rewrite set_a_same in Hp|rewrite set_a_other in Hp by exact Hne; apply (Hc t' c' Hp)]).
  - inversion Hp; subst. apply (Hq t c'). reflexivity.
  - discriminate.
  - discriminate.
Qed.

Lemma step_keeps k v a e a1 : astep a e a1 -> calm k a -> am a k = Some v -> am a1 k = Some v.
Proof.
  intros Hs Hc Hm. inversion Hs; subst; cbn; try exact Hm.
  apply seq_keeps; [|exact Hm]. eapply Hc. eassumption.
Qed.

Lemma step_installed k a e a1 : astep a e a1 -> calm k a -> installed k a -> installed k a1.
Proof.
  intros Hs Hc HJ. inversion Hs; subst; intros t' v' Hp; cbn in *.
  - destruct (Nat.eq_dec t' t) as [->|Hne]; [rewrite set_a_same in Hp; discriminate|rewrite set_a_other in Hp by exact Hne; apply (HJ t' v' Hp)].
  - destruct (Nat.eq_dec t' t) as [->|Hne].
    + rewrite set_a_same in Hp. injection Hp as Hc' Hr. subst c. cbn in *.
      destruct (am a k) eqn:E; cbn in *; [discriminate|]. unfold upd. rewrite N.eqb_refl. reflexivity.
    + rewrite set_a_other in Hp by exact Hne. apply seq_keeps; [eapply Hc; eassumption|apply (HJ t' v' Hp)].
  - destruct (Nat.eq_dec t' t) as [->|Hne]; [rewrite set_a_same in Hp; discriminate|rewrite set_a_other in Hp by exact Hne; apply (HJ t' v' Hp)].
Qed.

Lemma quiet_head k e h : quiet k (match e with ETau => h | _ => e :: h end) -> quiet_ev k e /\ quiet k h.
Proof.
  intro H. split.
  - intros t c ->. apply (H t c). left. reflexivity.
  - destruct e; try exact H; apply (quiet_cons _ _ _ H).
Qed.

Lemma exec_invariants k a h a' : aexec a h a' -> calm k a -> quiet k h ->
  calm k a' /\ (installed k a -> installed k a') /\ (forall v, am a k = Some v -> am a' k = Some v).
Proof.
  induction 1 as [a|a e a1 h a2 Hs He IH]; intros Hc Hq.
  - repeat split; auto.
  - destruct (quiet_head _ _ _ Hq) as [Hqe Hqh].
    pose proof (step_calm _ _ _ _ Hs Hc Hqe) as Hc1.
    destruct (IH Hc1 Hqh) as [I1 [I2 I3]].
    split; [exact I1|]. split.
    + intro HJ. apply I2. eapply step_installed; eassumption.
    + intros v Hm. apply I3. eapply step_keeps; eassumption.
Qed.

Lemma aexec_app a h a'' : aexec a h a'' -> forall h1 h2, h = h1 ++ h2 -> exists a', aexec a h1 a' /\ aexec a' h2 a''.
Proof.
  induction 1 as [a|a e a1 h a2 Hs He IH]; intros h1 h2 Heq.
  - destruct h1; [|discriminate]. destruct h2; [|discriminate]. exists a. split; constructor.
  - destruct e as [t c|t c r|].
    + destruct h1 as [|e1 h1].
      * cbn in Heq. subst h2. exists a. split; [constructor|]. apply (ae_step a (EInv t c) a1 h a2 Hs He).
      * inversion Heq; subst. destruct (IH h1 h2 eq_refl) as [a' [A B]]. exists a'. split; [|exact B].
        apply (ae_step a (EInv t c) a1 h1 a' Hs A).
    + destruct h1 as [|e1 h1].
      * cbn in Heq. subst h2. exists a. split; [constructor|]. apply (ae_step a (ERes t c r) a1 h a2 Hs He).
      * inversion Heq; subst. destruct (IH h1 h2 eq_refl) as [a' [A B]]. exists a'. split; [|exact B].
        apply (ae_step a (ERes t c r) a1 h1 a' Hs A).
    + destruct (IH h1 h2 Heq) as [a' [A B]]. exists a'. split; [|exact B].
      apply (ae_step a ETau a1 h1 a' Hs A).
Qed.

Lemma aexec_head a h a' : aexec a h a' -> forall e h', h = e :: h' ->
  exists a1 a2, aexec a [] a1 /\ astep a1 e a2 /\ aexec a2 h' a'.
Proof.
  induction 1 as [a|a e0 a1 h a2 Hs He IH]; intros e h' Heq; [discriminate|].
  destruct e0 as [t c|t c r|].
  - inversion Heq; subst. exists a, a1. split; [constructor|]. split; assumption.
  - inversion Heq; subst. exists a, a1. split; [constructor|]. split; assumption.
  - destruct (IH e h' Heq) as [b1 [b2 [A [B C]]]]. exists b1, b2. split; [|split; assumption].
    apply (ae_step a ETau a1 [] b1 Hs A).
Qed.

Definition of_thread (t : tid) (e : event) : Prop :=
  match e with EInv t' _ | ERes t' _ _ => t' = t | ETau => False end.

(* a look-up of k that is in flight (or already answered inside) while k holds v answers v *)
Lemma pending_get_sees k v t' a h a' : aexec a h a' -> calm k a -> quiet k h -> am a k = Some v ->
  (ath a t' = APend (CGet k) \/ ath a t' = ADone (CGet k) (RVal (Some v))) ->
  forall q c r rest, h = q ++ ERes t' c r :: rest -> (forall e, In e q -> ~ of_thread t' e) ->
  c = CGet k /\ r = RVal (Some v).
Proof.
  induction 1 as [a|a e a1 h a2 Hs He IH]; intros Hc Hq Hm Hg q c0 r0 rest Heq Hnq.
  - destruct q; discriminate.
  - destruct (quiet_head _ _ _ Hq) as [Hqe Hqh].
    pose proof (step_calm _ _ _ _ Hs Hc Hqe) as Hc1.
    pose proof (step_keeps _ _ _ _ _ Hs Hc Hm) as Hm1.
    inversion Hs; subst.
    + (* invocation by t <> t' *)
      destruct q as [|e0 q]; [discriminate|]. inversion Heq; subst.
      assert (Hne : t <> t') by (intro; subst; apply (Hnq (EInv t' c)); [left; reflexivity|reflexivity]).
      apply (IH Hc1 Hqh Hm1) with (q := q) (rest := rest); [|reflexivity|intros e Hin; apply Hnq; right; exact Hin].
      cbn. rewrite set_a_other by (intro; apply Hne; congruence). exact Hg.
    + (* linearization *)
      apply (IH Hc1 Hqh Hm1) with (q := q) (rest := rest); [|exact Heq|exact Hnq].
      cbn. destruct (Nat.eq_dec t' t) as [->|Hne].
      * rewrite set_a_same. destruct Hg as [Hg|Hg]; [|congruence].
        rewrite Hg in H. injection H as <-. cbn. rewrite Hm. right. reflexivity.
      * rewrite set_a_other by exact Hne. exact Hg.
    + (* response *)
      destruct q as [|e0 q].
      * inversion Heq; subst. destruct Hg as [Hg|Hg]; [congruence|]. rewrite Hg in H. inversion H. split; reflexivity.
      * inversion Heq; subst.
        assert (Hne : t <> t') by (intro; subst; apply (Hnq (ERes t' c r)); [left; reflexivity|reflexivity]).
        apply (IH Hc1 Hqh Hm1) with (q := q) (rest := rest); [|reflexivity|intros e Hin; apply Hnq; right; exact Hin].
        cbn. rewrite set_a_other by (intro; apply Hne; congruence). exact Hg.
Qed.

Lemma taus_invariants k a a1 : aexec a [] a1 -> calm k a ->
  calm k a1 /\ (installed k a -> installed k a1) /\ (forall v, am a k = Some v -> am a1 k = Some v).
Proof. intros H Hc. apply (exec_invariants k a [] a1 H Hc). intros t c []. Qed.

Lemma quiet_app k h1 h2 : quiet k (h1 ++ h2) -> quiet k h1 /\ quiet k h2.
Proof. intro H. split; intros t c Hin; apply (H t c); apply in_or_app; [left|right]; exact Hin. Qed.

(* From the empty registry, with no remove of k and no clear invoked anywhere in the history: once a registration
   of v under k has reported success, every look-up of k invoked after that report answers v. *)
Theorem winner_visible k v t h1 p t' q c r rest a :
  aexec ainit (h1 ++ ERes t (CRegistry k v) (RBool true) :: p ++ EInv t' (CGet k) :: q ++ ERes t' c r :: rest) a ->
  quiet k (h1 ++ ERes t (CRegistry k v) (RBool true) :: p ++ EInv t' (CGet k) :: q ++ ERes t' c r :: rest) ->
  (forall e, In e q -> ~ of_thread t' e) ->
  c = CGet k /\ r = RVal (Some v).
Proof.
  intros He Hq Hnq.
  destruct (quiet_app _ _ _ Hq) as [Hq1 Hq2].
  pose proof (quiet_cons _ _ _ Hq2) as Hq3. destruct (quiet_app _ _ _ Hq3) as [Hqp Hq4].
  pose proof (quiet_cons _ _ _ Hq4) as Hq5.
  destruct (aexec_app _ _ _ He _ _ eq_refl) as [a1 [E1 E2]].
  assert (Hcalm0 : calm k ainit) by (intros t0 c0 Hp; discriminate).
  assert (HJ0 : installed k ainit) by (intros t0 v0 Hp; discriminate).
  destruct (exec_invariants k _ _ _ E1 Hcalm0 Hq1) as [Hc1 [HJ1 _]]. specialize (HJ1 HJ0).
  destruct (aexec_head _ _ _ E2 _ _ eq_refl) as [b1 [b2 [T1 [S1 E3]]]].
  destruct (taus_invariants k _ _ T1 Hc1) as [Hcb1 [HJb1 _]]. specialize (HJb1 HJ1).
  assert (Hmb2 : am b2 k = Some v /\ calm k b2).
  { inversion S1; subst. split.
    - cbn. apply HJb1 with (t := t). assumption.
    - eapply step_calm; [exact S1|exact Hcb1|]. intros t0 c0 E. discriminate. }
  destruct Hmb2 as [Hmb2 Hcb2].
  destruct (aexec_app _ _ _ E3 _ _ eq_refl) as [a3 [E4 E5]].
  destruct (exec_invariants k _ _ _ E4 Hcb2 Hqp) as [Hc3 [_ Hm3]]. specialize (Hm3 v Hmb2).
  destruct (aexec_head _ _ _ E5 _ _ eq_refl) as [d1 [d2 [T2 [S2 E6]]]].
  destruct (taus_invariants k _ _ T2 Hc3) as [Hcd1 [_ Hmd1]]. specialize (Hmd1 v Hm3).
  assert (Hd2 : am d2 k = Some v /\ calm k d2 /\ ath d2 t' = APend (CGet k)).
  { inversion S2; subst. split; [exact Hmd1|]. split.
    - eapply step_calm; [exact S2|exact Hcd1|]. intros t0 c0 E. inversion E; subst. reflexivity.
    - cbn. apply set_a_same. }
  destruct Hd2 as [Hmd2 [Hcd2 Hpd2]].
  apply (pending_get_sees k v t' _ _ _ E6 Hcd2 Hq5 Hmd2 (or_introl Hpd2) q c r rest eq_refl Hnq).
Qed.
