(* Theory/LRenderSound.v — the schema semantics of a type whose layout is [lks] lays the message out exactly as the
   independent layout renderer does (C02): the bytes Encode appends are the rendering of the pinned layout. *)
From FP.Spec Require Export LRender.
From FP.Theory Require Export FrameFacts Uniform.
Local Open Scope N_scope.

Section Sound.
  Variable tables : list (N * table).
  Variable reg : registry.
  Variable senc : N -> list value -> res (list value * list byte).
  Variable zero_rec : N -> option (list value).
  Variable le : bool.
  Variable lrec : N -> list value -> res (list byte).
  (* nested types: whatever the schema semantics renders, the layout renderer renders from the resulting object *)
  Hypothesis Hrec : forall t fs fs' bs, senc t fs = Ok (fs', bs) -> lrec t fs' = Ok bs.

  Notation rkind := (render_kind tables senc zero_rec).
  Notation rfields := (render_fields tables senc zero_rec).

  Lemma objs_sound tid : forall l l' bs, render_objs senc tid l = Ok (l', bs) -> lr_objs lrec l' = Ok bs.
  Proof.
    induction l as [|v l IH]; intros l' bs H; cbn [render_objs] in H.
    - inversion H; subst. reflexivity.
    - destruct v; try discriminate. destruct (t =? tid); [|discriminate].
      destruct (senc t fs) as [[fs' b1]|] eqn:E; cbn [bind] in H; [|discriminate].
      destruct (render_objs senc tid l) as [[r' b2]|] eqn:E2; cbn [bind] in H; [|discriminate].
      inversion H; subst. cbn [lr_objs]. rewrite (Hrec _ _ _ _ E). cbn [bind]. rewrite (IH _ _ eq_refl). reflexivity.
  Qed.

  Lemma call_sound g prop v v' bs nm :
    render_call senc g prop v = Ok (v', bs) -> (v = VNil -> nm = NilSkip) -> lr_part lrec nm v' = Ok bs.
  Proof.
    destruct v; cbn [render_call]; try discriminate.
    - destruct (senc t fs) as [[fs' b]|f] eqn:E; [|destruct f; try discriminate; destruct prop; discriminate].
      intros H _. inversion H; subst. cbn [lr_part]. exact (Hrec _ _ _ _ E).
    - destruct g; [discriminate|]. intros H Hn. inversion H; subst. rewrite (Hn eq_refl). reflexivity.
  Qed.

  Lemma w_prim_basic_order l t v : bool_eq l le || Nat.eqb (width t) 1 = true -> w_prim (PBasic l t) v = w_prim (PBasic le t) v.
  Proof.
    intro H. apply orb_true_iff in H. destruct H as [H|H]; [apply bool_eq_true in H; subst; reflexivity|].
    apply Nat.eqb_eq in H. destruct v; try reflexivity. cbn [w_prim]. unfold write_basic. rewrite H.
    rewrite (int_bytes_width1 (ord l) (ord le)). reflexivity.
  Qed.

  Lemma sfresh_not_nil t v : sfresh zero_rec t = Ok v -> v <> VNil.
  Proof. unfold sfresh. destruct (zero_rec t); [|discriminate]. intro H. inversion H. discriminate. Qed.

  Lemma kind_sound done k v v' bs lk :
    lkind_of le k = Some lk -> rkind done k v = Ok (v', bs) -> lr_kind le lrec lk v' = Ok bs.
  Proof.
    destruct k as [p prop|l cnt t|f g prop d]; cbn [lkind_of render_kind].
    - intros Hl H.
      assert (Hw : w_prim p v = Ok bs /\ v' = v).
      { destruct (w_prim p v) as [b|ff]; [inversion H; split; reflexivity|destruct ff; try discriminate; destruct prop; discriminate]. }
      destruct Hw as [Hw ->].
      destruct p as [l t|n pad lf|l len|l cnt elt|l cnt n pad lf|l cnt len|l cnt t].
      + destruct (bool_eq l le || Nat.eqb (width t) 1) eqn:Eo; [|discriminate]. inversion Hl; subst. cbn [lr_kind].
        rewrite <- (w_prim_basic_order l t v Eo). exact Hw.
      + inversion Hl; subst. exact Hw.
      + destruct (bool_eq l le) eqn:Eo; [|discriminate]. apply bool_eq_true in Eo. subst. inversion Hl; subst. exact Hw.
      + destruct (bool_eq l le) eqn:Eo; [|discriminate]. apply bool_eq_true in Eo. subst. inversion Hl; subst. exact Hw.
      + destruct (bool_eq l le) eqn:Eo; [|discriminate]. apply bool_eq_true in Eo. subst. inversion Hl; subst. exact Hw.
      + destruct (bool_eq l le) eqn:Eo; [|discriminate]. apply bool_eq_true in Eo. subst. inversion Hl; subst. exact Hw.
      + discriminate.
    - destruct (bool_eq l le) eqn:Eo; [|discriminate]. apply bool_eq_true in Eo. subst l. intro Hl. inversion Hl; subst.
      destruct v; try discriminate.
      destruct (length_prefix cnt (lenN l)) as [n|] eqn:En; cbn [bind]; [|discriminate].
      destruct (render_objs senc t l) as [[l' b]|] eqn:E; cbn [bind]; [|discriminate].
      intro H. inversion H; subst. cbn [lr_kind].
      assert (Hlen : lenN l' = lenN l).
      { rewrite !lenN_length. apply (f_equal N.of_nat). clear - E. revert l' b E. induction l as [|x l IH]; intros l' b E; cbn [render_objs] in E; [inversion E; reflexivity|].
        destruct x; try discriminate. destruct (t0 =? t); [|discriminate].
        destruct (senc t0 fs) as [[fs' b1]|]; cbn [bind] in E; [|discriminate].
        destruct (render_objs senc t l) as [[r' b2]|] eqn:E2; cbn [bind] in E; [|discriminate].
        inversion E; subst. cbn [length]. rewrite (IH _ _ eq_refl). reflexivity. }
      rewrite Hlen, En. cbn [bind]. rewrite (objs_sound _ _ _ _ E). reflexivity.
    - intros Hl. destruct (apply_fill tables zero_rec done f v) as [v1|] eqn:Ef; cbn [bind]; [|discriminate].
      intro H.
      (* a part that was filled in is never absent afterwards *)
      assert (Hnil : v1 = VNil -> f = FNone).
      { intro Hv. destruct f as [|t|tbl key]; [reflexivity| |]; cbn [apply_fill] in Ef.
        - destruct v; try (inversion Ef; subst; discriminate). exfalso. exact (sfresh_not_nil _ _ Ef Hv).
        - destruct v; try (inversion Ef; subst; discriminate). exfalso.
          destruct (get_field done key) as [kv|]; cbn [bind] in Ef; [|discriminate].
          destruct (slookup tables tbl kv) as [ty|]; cbn [bind] in Ef; [|discriminate].
          exact (sfresh_not_nil _ _ Ef Hv). }
      assert (Hg : v1 = VNil -> g = GIfNotNil).
      { intro Hv. subst v1. cbn [render_call] in H. destruct g; [discriminate|reflexivity]. }
      destruct d as [t|t|tbl key].
      + inversion Hl; subst. cbn [lr_kind]. eapply call_sound; [exact H|].
        intro Hv. rewrite (Hnil Hv), (Hg Hv). reflexivity.
      + inversion Hl; subst. cbn [lr_kind]. eapply call_sound; [exact H|].
        intro Hv. rewrite (Hnil Hv), (Hg Hv). reflexivity.
      + destruct f as [|t|tbl' key'].
        * inversion Hl; subst. cbn [lr_kind]. eapply call_sound; [exact H|]. intro Hv. rewrite (Hg Hv). reflexivity.
        * discriminate.
        * destruct ((tbl' =? tbl) && Nat.eqb key' key); [|discriminate]. inversion Hl; subst. cbn [lr_kind].
          eapply call_sound; [exact H|]. intro Hv. specialize (Hnil Hv). discriminate.
  Qed.

  (* plain field sequences: no computed fields among the layout kinds *)
  Definition ordinary (lk : lkind) : bool := match lk with LLen | LSum _ _ => false | _ => true end.
  Lemma lkind_of_ordinary k lk : lkind_of le k = Some lk -> ordinary lk = true.
  Proof.
    destruct k as [p prop|l cnt t|f g prop d]; cbn [lkind_of].
    - destruct p; repeat (match goal with |- context [if ?c then _ else _] => destruct c end); intro H; inversion H; reflexivity.
    - destruct (bool_eq l le); intro H; inversion H; reflexivity.
    - destruct d; [intro H; inversion H; reflexivity|intro H; inversion H; reflexivity|].
      destruct f; [intro H; inversion H; reflexivity|discriminate|].
      destruct ((tbl0 =? tbl) && Nat.eqb key0 key); intro H; inversion H; reflexivity.
  Qed.

  Lemma lr_fields_ordinary acc lk lks v vs : ordinary lk = true ->
    lr_fields reg le lrec acc (lk :: lks) (v :: vs) =
    (do a <- lr_kind le lrec lk v; do rest <- lr_fields reg le lrec (acc ++ a) lks vs; Ok (a ++ rest)).
  Proof. destruct lk; try discriminate; reflexivity. Qed.

  Lemma fields_sound ks : forall done vs vs' bs lks acc,
    lkinds_of le ks = Some lks -> rfields done ks vs = Ok (vs', bs) -> lr_fields reg le lrec acc lks vs' = Ok bs.
  Proof.
    induction ks as [|k ks IH]; intros done vs vs' bs lks acc Hl H; cbn [lkinds_of render_fields] in *.
    - inversion Hl; subst. inversion H; subst. reflexivity.
    - destruct (lkind_of le k) as [lk|] eqn:Ek; [|discriminate].
      destruct (lkinds_of le ks) as [lks'|] eqn:Eks; [|discriminate]. inversion Hl; subst.
      destruct vs as [|v vs0]; [discriminate|].
      destruct (rkind done k v) as [[v' b1]|] eqn:E1; cbn [bind] in H; [|discriminate].
      destruct (rfields (done ++ [v']) ks vs0) as [[rest b2]|] eqn:E2; cbn [bind] in H; [|discriminate].
      inversion H; subst. rewrite lr_fields_ordinary by (eapply lkind_of_ordinary; exact Ek).
      rewrite (kind_sound _ _ _ _ _ _ Ek E1). cbn [bind]. rewrite (IH _ _ _ _ _ (acc ++ b1) eq_refl E2). reflexivity.
  Qed.

  (* ordinary fields followed by more layout: the renderer continues with the bytes so far *)
  Lemma lr_fields_app : forall lks1 acc lks2 vs1 vs2 b1,
    forallb ordinary lks1 = true -> length vs1 = length lks1 ->
    lr_fields reg le lrec acc lks1 vs1 = Ok b1 ->
    lr_fields reg le lrec acc (lks1 ++ lks2) (vs1 ++ vs2) =
    (do rest <- lr_fields reg le lrec (acc ++ b1) lks2 vs2; Ok (b1 ++ rest)).
  Proof.
    induction lks1 as [|lk lks1 IH]; intros acc lks2 vs1 vs2 b1 Ho Hlen H.
    - destruct vs1; [|discriminate]. cbn [lr_fields] in H. inversion H; subst. cbn [app]. rewrite app_nil_r.
      destruct (lr_fields reg le lrec acc lks2 vs2); reflexivity.
    - destruct vs1 as [|v vs1]; [discriminate|]. cbn [forallb] in Ho. apply andb_true_iff in Ho. destruct Ho as [Ho1 Ho2].
      cbn [app]. rewrite lr_fields_ordinary in * by exact Ho1.
      destruct (lr_kind le lrec lk v) as [a|]; cbn [bind] in *; [|discriminate].
      destruct (lr_fields reg le lrec (acc ++ a) lks1 vs1) as [r1|] eqn:E1; cbn [bind] in H; [|discriminate].
      inversion H; subst. rewrite (IH (acc ++ a) lks2 vs1 vs2 r1 Ho2 ltac:(cbn in Hlen; lia) E1).
      rewrite <- !app_assoc. destruct (lr_fields reg le lrec (acc ++ a ++ r1) lks2 vs2); cbn [bind]; [rewrite <- app_assoc|]; reflexivity.
  Qed.

  Lemma lkinds_ordinary ks lks : lkinds_of le ks = Some lks -> forallb ordinary lks = true /\ length lks = length ks.
  Proof.
    revert lks. induction ks as [|k ks IH]; intros lks H; cbn [lkinds_of] in H.
    - inversion H. split; reflexivity.
    - destruct (lkind_of le k) as [lk|] eqn:Ek; [|discriminate]. destruct (lkinds_of le ks) as [l'|]; [|discriminate].
      inversion H; subst. destruct (IH _ eq_refl) as [A B]. cbn [forallb length]. rewrite (lkind_of_ordinary _ _ Ek), A, B. split; reflexivity.
  Qed.

  (* the whole schema of a type *)
  Theorem schema_sound s lks fs fs' bs :
    layout_of le s = Some lks ->
    (match s with SFrame _ _ _ _ (Some ss) => match reg_get reg (ss_name ss) with Some sv => ity_eqb (sv_rt sv) (ss_rt ss) | None => false end | _ => true end) = true ->
    spec_enc_schema tables reg senc zero_rec s fs = Ok (fs', bs) ->
    lr_fields reg le lrec [] lks fs' = Ok bs.
  Proof.
    destruct s as [ks|hdr le_len tbl key sum]; cbn [layout_of spec_enc_schema].
    - intros Hl _ H. eapply fields_sound; eassumption.
    - destruct (bool_eq le_len le) eqn:El; [|discriminate]. apply bool_eq_true in El. subst le_len.
      destruct (lkinds_of le hdr) as [h|] eqn:Eh; [|discriminate].
      intros Hl Hreg H. unfold render_frame in H.
      destruct (rfields [] hdr (firstn (length hdr) fs)) as [[hv hb]|] eqn:Ehdr; cbn [bind] in H; [|discriminate].
      destruct (skipn (length hdr) fs) as [|lenv [|body tl]] eqn:Esk; try discriminate.
      destruct (render_call senc GIfNotNil true body) as [[body' bb]|] eqn:Eb; cbn [bind] in H; [|discriminate].
      pose proof (fields_sound _ _ _ _ _ _ [] Eh Ehdr) as Hh.
      destruct (lkinds_ordinary _ _ Eh) as [Hord Hlen].
      assert (Hhv : length hv = length h).
      { pose proof (render_fields_length _ _ _ _ _ _ _ _ Ehdr) as X. rewrite X, Hlen. apply firstn_length_le.
        assert (length (skipn (length hdr) fs) >= 2)%nat by (rewrite Esk; cbn; lia). rewrite skipn_length in H0. lia. }
      assert (Hbody : lr_part lrec NilSkip body' = Ok bb) by (eapply call_sound; [exact Eb|reflexivity]).
      destruct sum as [ss|].
      + destruct (bool_eq (ss_le ss) le) eqn:Es; [|discriminate]. apply bool_eq_true in Es. inversion Hl; subst lks.
        destruct tl as [|oldv tl']; [discriminate|].
        destruct (reg_get reg (ss_name ss)) as [sv|] eqn:Er; [|discriminate]. rewrite Hreg in H. cbn [bind] in H.
        destruct (w_prim (PBasic (ss_le ss) (ss_rt ss)) (VInt (calc (sv_alg sv) (hb ++ int_bytes (ord le) 4 (u32_of_len (lenN bb)) ++ bb)))) as [tb|] eqn:Ew; [|discriminate].
        inversion H; subst fs' bs.
        rewrite (lr_fields_app h [] _ hv _ hb Hord Hhv Hh). cbn [app lr_fields lr_kind].
        rewrite Hbody. cbn [bind]. rewrite Er. unfold u32_of_len in Ew. rewrite Es in Ew. rewrite Ew. cbn [bind lr_fields].
        rewrite <- !app_assoc. unfold u32_of_len. rewrite app_nil_r. reflexivity.
      + inversion Hl; subst lks. inversion H; subst fs' bs.
        rewrite (lr_fields_app h [] _ hv _ hb Hord Hhv Hh). cbn [app lr_fields lr_kind].
        rewrite Hbody. cbn [bind lr_fields]. unfold u32_of_len. rewrite app_nil_r. reflexivity.
  Qed.
End Sound.

(* ---- the whole environment ---- *)
Definition lays_out (order_of : N -> bool) (sd : sdef) (lt : ltype) : Prop :=
  sd_id sd = lt_id lt /\ layout_of (order_of (lt_proto lt)) (sd_schema sd) = Some (lt_fields lt).

Theorem lrender_sound tables reg order_of : forall ss lts,
  Forall2 (lays_out order_of) ss lts -> sums_ok reg ss = true ->
  forall t fs fs' bs, spec_enc_env tables reg ss t fs = Ok (fs', bs) -> lrender reg order_of lts t fs' = Ok bs.
Proof.
  induction 1 as [|sd lt ss lts [Hid Hlay] Hrest IH]; intros Hsums t fs fs' bs H; [discriminate|].
  cbn [sums_ok forallb] in Hsums. apply andb_true_iff in Hsums. destruct Hsums as [Hs1 Hs2].
  cbn [spec_enc_env lrender] in *. rewrite <- Hid. destruct (sd_id sd =? t).
  - eapply schema_sound; [|exact Hlay| |exact H].
    + intros t0 f0 f0' b0 E. exact (IH Hs2 t0 f0 f0' b0 E).
    + destruct (sd_schema sd) as [|hdr l tbl key [s|]]; try reflexivity. exact Hs1.
  - exact (IH Hs2 t fs fs' bs H).
Qed.
