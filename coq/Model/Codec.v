(* Model/Codec.v — hand-written model of codec/binary_codec.go (one definition per Go helper,
   following the Go text).  Tied to the code by the primitive-level correspondence check.

   Conventions
   - a Go string / []byte is a [list byte]; a scalar is its bit pattern (N below 2^(8*width));
   - a writer returns the bytes it appends to the buffer (bytes.Buffer.Write only appends);
   - a reader takes the unread bytes and returns the value and the remaining unread bytes;
   - [Fail FErr]   : the Go function returns a non-nil error (error identity is not modelled);
     [Fail FPanic] : the Go function panics;
     [Fail FFuel]  : the model's loop fuel ran out (only possible for zero-size list elements with
                     a count above 65536: excluded by statement in every theorem, never a default);
     [Fail FUnmodelled] : the model does not describe this case (ill-typed value, state after a
                     dropped error, dependence on spare buffer capacity). *)
From FP.Lib Require Export Ints.
From Coq Require Import ZifyBool ZifyNat ZifyN.
Local Open Scope N_scope.

Inductive failure := FErr | FPanic | FFuel | FUnmodelled.
Inductive res (A : Type) := Ok (a : A) | Fail (f : failure).
Arguments Ok {A} a.
Arguments Fail {A} f.

Definition bind {A B} (x : res A) (k : A -> res B) : res B :=
  match x with Ok a => k a | Fail f => Fail f end.
Notation "'do' x <- a ; b" := (bind a (fun x => b)) (at level 200, x name, a at level 100, b at level 200).
Notation "'do' ' p <- a ; b" := (bind a (fun x => match x with p => b end))
  (at level 200, p pattern, a at level 100, b at level 200).

Definition ord (le : bool) : order := if le then LE else BE.

(* ---------------- scalars: WriteBasicType[LE], ReadBasicType[LE] ---------------- *)
Definition write_basic (le : bool) (t : ity) (v : N) : list byte := int_bytes (ord le) (width t) v.

Definition read_basic (le : bool) (t : ity) (buf : list byte) : res (N * list byte) :=
  match take (width t) buf with
  | Some (a, r) => Ok (int_val (ord le) a, r)
  | None => Fail FErr                         (* io.EOF / io.ErrUnexpectedEOF *)
  end.

(* lengthPrefix[T](n): refuse what T cannot represent *)
Definition length_prefix (t : ity) (n : N) : res N :=
  if n <? bound t then Ok n else Fail FErr.

(* int(t) for a prefix value read from the wire: a uint64 above MaxInt64 becomes negative and the
   following make() panics *)
Definition wire_count (n : N) : res N :=
  if 9223372036854775808 <=? n then Fail FPanic else Ok n.

(* ---------------- prefixed text: WriteString[LE], ReadString[LE] ---------------- *)
Definition write_string (le : bool) (t : ity) (s : list byte) : res (list byte) :=
  do n <- length_prefix t (lenN s);
  Ok (int_bytes (ord le) (width t) n ++ s).

Definition read_string (le : bool) (t : ity) (buf : list byte) : res (list byte * list byte) :=
  do '(n, r) <- read_basic le t buf;
  do n <- wire_count n;
  match takeN n r with                        (* length > buf.Len() -> io.ErrUnexpectedEOF, else io.ReadFull *)
  | Some (s, r') => Ok (s, r')
  | None => Fail FErr
  end.

(* ---------------- fixed-width text ---------------- *)
(* padChar is a rune; the byte written and trimmed is byte(padChar) *)
Definition pad_byte (pad : N) : byte := n2b pad.

Definition write_fixed (n : nat) (pad : N) (left : bool) (s : list byte) : list byte :=
  if (n <? length s)%nat then firstn n s
  else let p := repeat (pad_byte pad) (n - length s) in
       if left then p ++ s else s ++ p.

Definition read_fixed (n : nat) (pad : N) (left : bool) (buf : list byte) : res (list byte * list byte) :=
  match take n buf with
  | Some (x, r) => Ok (if left then trim_left (pad_byte pad) x else trim_right (pad_byte pad) x, r)
  | None => Fail FErr
  end.

(* ---------------- counted loops ---------------- *)
Fixpoint read_n {A} (rd : list byte -> res (A * list byte)) (fuel : nat) (cnt : N) (buf : list byte)
  : res (list A * list byte) :=
  if cnt =? 0 then Ok ([], buf)
  else match fuel with
       | O => Fail FFuel
       | S f => do '(a, r) <- rd buf;
                do '(l, r') <- read_n rd f (N.pred cnt) r;
                Ok (a :: l, r')
       end.

(* fuel: exactly cnt when cnt <= 65536; otherwise capped by the bytes available (+1 for the failing
   read), which suffices whenever every element consumes at least one byte *)
Definition list_fuel (cnt : N) (buf : list byte) : nat :=
  N.to_nat (N.min cnt (N.max 65536 (N.succ (lenN buf)))).

Definition read_list {A} (le : bool) (cnt : ity) (rd : list byte -> res (A * list byte)) (buf : list byte)
  : res (list A * list byte) :=
  do '(n, r) <- read_basic le cnt buf;
  do n <- wire_count n;
  read_n rd (list_fuel n r) n r.

Fixpoint write_each {A} (wr : A -> res (list byte)) (l : list A) : res (list byte) :=
  match l with
  | [] => Ok []
  | x :: r => do a <- wr x; do b <- write_each wr r; Ok (a ++ b)
  end.

Definition write_list {A} (le : bool) (cnt : ity) (wr : A -> res (list byte)) (l : list A) : res (list byte) :=
  do n <- length_prefix cnt (lenN l);
  do body <- write_each wr l;
  Ok (int_bytes (ord le) (width cnt) n ++ body).

(* ---------------- the list helpers ---------------- *)
Definition write_basic_list (le : bool) (cnt elt : ity) (vs : list N) : res (list byte) :=
  write_list le cnt (fun v => Ok (write_basic le elt v)) vs.
Definition read_basic_list (le : bool) (cnt elt : ity) (buf : list byte) : res (list N * list byte) :=
  read_list le cnt (read_basic le elt) buf.

Definition write_fixed_list (le : bool) (cnt : ity) (n : nat) (pad : N) (left : bool) (vs : list (list byte)) : res (list byte) :=
  write_list le cnt (fun s => Ok (write_fixed n pad left s)) vs.
Definition read_fixed_list (le : bool) (cnt : ity) (n : nat) (pad : N) (left : bool) (buf : list byte) : res (list (list byte) * list byte) :=
  read_list le cnt (read_fixed n pad left) buf.

Definition write_string_list (le : bool) (cnt len : ity) (vs : list (list byte)) : res (list byte) :=
  write_list le cnt (write_string le len) vs.
Definition read_string_list (le : bool) (cnt len : ity) (buf : list byte) : res (list (list byte) * list byte) :=
  read_list le cnt (read_string le len) buf.

(* the default-pad wrappers: WriteFixedString, ReadFixedString, WriteFixedStringList[LE], ReadFixedStringList[LE] *)
Definition default_pad : N := 32.
