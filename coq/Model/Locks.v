(* Model/Locks.v — the checksum-service registry under concurrency: the lock skeleton language the translator
   extracts from codec/checksum.go, an interleaving semantics in which map accesses are NOT gated by the
   semantics (only the program text orders them after a lock), and the atomic specification. *)
From Coq Require Import List NArith Bool Lia.
Import ListNotations.
Local Open Scope N_scope.

Definition key := N.       (* algorithm names, abstractly *)
Definition val := N.       (* service identities, abstractly *)
Definition tid := nat.

Definition kvmap := key -> option val.
Definition meq (a b : kvmap) : Prop := forall k, a k = b k.
Definition upd (m : kvmap) (k : key) (v : val) : kvmap := fun k' => if k' =? k then Some v else m k'.
Definition del (m : kvmap) (k : key) : kvmap := fun k' => if k' =? k then None else m k'.
Definition empty : kvmap := fun _ => None.

(* calls and results *)
Inductive call := CRegistry (k : key) (v : val) | CRegistryBad | CGet (k : key) | CRemove (k : key) | CClear.
Inductive ret := RBool (b : bool) | RVal (o : option val) | RUnit.

(* the sequential specification: one atomic map *)
Definition seq (c : call) (m : kvmap) : kvmap * ret :=
  match c with
  | CRegistry k v => match m k with Some _ => (m, RBool false) | None => (upd m k v, RBool true) end
  | CRegistryBad => (m, RBool false)
  | CGet k => (m, RVal (m k))
  | CRemove k => (del m k, RUnit)
  | CClear => (empty, RUnit)
  end.

(* ---- lock skeletons ---- *)
Inductive mode := Excl | Shared.
Inductive retexp := XBool (b : bool) | XLocal | XNone | XUnit.
Inductive prog :=
 | PLock (m : mode) (k : prog) | PUnlock (m : mode) (k : prog) | PDefer (m : mode) (k : prog)
 | PLookup (k : prog) | PStore (k : prog) | PDelete (k : prog) | PClear (k : prog)
 | PIfFound (t e : prog) | PRet (x : retexp).

Definition key_of (c : call) : key := match c with CRegistry k _ | CGet k | CRemove k => k | _ => 0 end.
Definition val_of (c : call) : val := match c with CRegistry _ v => v | _ => 0 end.
Definition eval (x : retexp) (l : option val) : ret :=
  match x with XBool b => RBool b | XLocal => RVal l | XNone => RVal None | XUnit => RUnit end.

(* run the rest of a call atomically, ignoring lock operations *)
Fixpoint fin (p : prog) (c : call) (l : option val) (m : kvmap) : kvmap * ret :=
  match p with
  | PLock _ k | PUnlock _ k | PDefer _ k => fin k c l m
  | PLookup k => fin k c (m (key_of c)) m
  | PStore k => fin k c l (upd m (key_of c) (val_of c))
  | PDelete k => fin k c l (del m (key_of c))
  | PClear k => fin k c l empty
  | PIfFound t e => match l with Some _ => fin t c l m | None => fin e c l m end
  | PRet x => (m, eval x l)
  end.

Fixpoint lockfree (p : prog) : bool :=
  match p with
  | PLock _ _ | PUnlock _ _ | PDefer _ _ => false
  | PLookup k | PStore k | PDelete k | PClear k => lockfree k
  | PIfFound t e => lockfree t && lockfree e
  | PRet _ => true
  end.
Fixpoint ro (p : prog) : bool :=
  match p with
  | PStore _ | PDelete _ | PClear _ => false
  | PLock _ k | PUnlock _ k | PDefer _ k | PLookup k => ro k
  | PIfFound t e => ro t && ro e
  | PRet _ => true
  end.
Definition mode_eqb (a b : mode) : bool := match a, b with Excl, Excl | Shared, Shared => true | _, _ => false end.

(* one critical section per call, every map access inside it, writes only under the exclusive lock, released
   on every path (a deferred unlock) - or no lock and no map access at all *)
Definition well_locked (p : prog) : bool :=
  match p with
  | PLock m (PDefer m' b) => mode_eqb m m' && lockfree b && (match m with Excl => true | Shared => ro b end)
  | PRet _ => true
  | _ => false
  end.

(* ---- interleaving semantics ---- *)
Inductive tstate :=
 | TIdle
 | TRun (c : call) (p : prog) (ds : list mode) (l : option val)
 | TRet (c : call) (r : ret) (ds : list mode).

Record cstate := { cw : option tid; cr : tid -> bool; cm : kvmap; cth : tid -> tstate }.

Inductive event := EInv (t : tid) (c : call) | ERes (t : tid) (c : call) (r : ret) | ETau.

Definition set_th (th : tid -> tstate) (t : tid) (x : tstate) : tid -> tstate := fun t' => if Nat.eqb t' t then x else th t'.
Definition set_r (r : tid -> bool) (t : tid) (b : bool) : tid -> bool := fun t' => if Nat.eqb t' t then b else r t'.

Section Steps.
  Variable code : call -> prog.

  Inductive cstep : cstate -> event -> cstate -> Prop :=
  | s_inv s t c : cth s t = TIdle ->
      cstep s (EInv t c) {| cw := cw s; cr := cr s; cm := cm s; cth := set_th (cth s) t (TRun c (code c) [] None) |}
  | s_lock_excl s t c k ds l : cth s t = TRun c (PLock Excl k) ds l -> cw s = None -> (forall t', cr s t' = false) ->
      cstep s ETau {| cw := Some t; cr := cr s; cm := cm s; cth := set_th (cth s) t (TRun c k ds l) |}
  | s_lock_shared s t c k ds l : cth s t = TRun c (PLock Shared k) ds l -> cw s = None ->
      cstep s ETau {| cw := cw s; cr := set_r (cr s) t true; cm := cm s; cth := set_th (cth s) t (TRun c k ds l) |}
  | s_unlock_excl s t c k ds l : cth s t = TRun c (PUnlock Excl k) ds l -> cw s = Some t ->
      cstep s ETau {| cw := None; cr := cr s; cm := cm s; cth := set_th (cth s) t (TRun c k ds l) |}
  | s_unlock_shared s t c k ds l : cth s t = TRun c (PUnlock Shared k) ds l -> cr s t = true ->
      cstep s ETau {| cw := cw s; cr := set_r (cr s) t false; cm := cm s; cth := set_th (cth s) t (TRun c k ds l) |}
  | s_defer s t c m k ds l : cth s t = TRun c (PDefer m k) ds l ->
      cstep s ETau {| cw := cw s; cr := cr s; cm := cm s; cth := set_th (cth s) t (TRun c k (m :: ds) l) |}
  (* map accesses: always enabled - nothing in the semantics protects them *)
  | s_lookup s t c k ds l : cth s t = TRun c (PLookup k) ds l ->
      cstep s ETau {| cw := cw s; cr := cr s; cm := cm s; cth := set_th (cth s) t (TRun c k ds (cm s (key_of c))) |}
  | s_store s t c k ds l : cth s t = TRun c (PStore k) ds l ->
      cstep s ETau {| cw := cw s; cr := cr s; cm := upd (cm s) (key_of c) (val_of c); cth := set_th (cth s) t (TRun c k ds l) |}
  | s_delete s t c k ds l : cth s t = TRun c (PDelete k) ds l ->
      cstep s ETau {| cw := cw s; cr := cr s; cm := del (cm s) (key_of c); cth := set_th (cth s) t (TRun c k ds l) |}
  | s_clear s t c k ds l : cth s t = TRun c (PClear k) ds l ->
      cstep s ETau {| cw := cw s; cr := cr s; cm := empty; cth := set_th (cth s) t (TRun c k ds l) |}
  | s_if s t c a b ds l : cth s t = TRun c (PIfFound a b) ds l ->
      cstep s ETau {| cw := cw s; cr := cr s; cm := cm s;
                      cth := set_th (cth s) t (TRun c (match l with Some _ => a | None => b end) ds l) |}
  | s_ret s t c x ds l : cth s t = TRun c (PRet x) ds l ->
      cstep s ETau {| cw := cw s; cr := cr s; cm := cm s; cth := set_th (cth s) t (TRet c (eval x l) ds) |}
  (* deferred unlocks run after the return value is fixed *)
  | s_defer_excl s t c r ds : cth s t = TRet c r (Excl :: ds) -> cw s = Some t ->
      cstep s ETau {| cw := None; cr := cr s; cm := cm s; cth := set_th (cth s) t (TRet c r ds) |}
  | s_defer_shared s t c r ds : cth s t = TRet c r (Shared :: ds) -> cr s t = true ->
      cstep s ETau {| cw := cw s; cr := set_r (cr s) t false; cm := cm s; cth := set_th (cth s) t (TRet c r ds) |}
  | s_res s t c r : cth s t = TRet c r [] ->
      cstep s (ERes t c r) {| cw := cw s; cr := cr s; cm := cm s; cth := set_th (cth s) t TIdle |}.

  Definition cinit : cstate := {| cw := None; cr := fun _ => false; cm := empty; cth := fun _ => TIdle |}.

  (* finite executions and their histories (visible events) *)
  Inductive cexec : cstate -> list event -> cstate -> Prop :=
  | ce_nil s : cexec s [] s
  | ce_step s e s' h s'' : cstep s e s' -> cexec s' h s'' -> cexec s (match e with ETau => h | _ => e :: h end) s''.
End Steps.

(* ---- the atomic object ---- *)
Inductive astate_t := AIdle | APend (c : call) | ADone (c : call) (r : ret).
Record astate := { am : kvmap; ath : tid -> astate_t }.
Definition set_a (th : tid -> astate_t) (t : tid) (x : astate_t) : tid -> astate_t := fun t' => if Nat.eqb t' t then x else th t'.

Inductive astep : astate -> event -> astate -> Prop :=
 | a_inv a t c : ath a t = AIdle -> astep a (EInv t c) {| am := am a; ath := set_a (ath a) t (APend c) |}
 | a_lin a t c : ath a t = APend c ->        (* the call takes effect: atomically, at one point between invocation and response *)
     astep a ETau {| am := fst (seq c (am a)); ath := set_a (ath a) t (ADone c (snd (seq c (am a)))) |}
 | a_res a t c r : ath a t = ADone c r -> astep a (ERes t c r) {| am := am a; ath := set_a (ath a) t AIdle |}.

Definition ainit : astate := {| am := empty; ath := fun _ => AIdle |}.

Inductive aexec : astate -> list event -> astate -> Prop :=
 | ae_nil a : aexec a [] a
 | ae_step a e a' h a'' : astep a e a' -> aexec a' h a'' -> aexec a (match e with ETau => h | _ => e :: h end) a''.
