(* Theory/DecTyped.v — what Decode returns is a well-typed message value (needed to re-encode it, C08). *)
From FP.Theory Require Export Reencode.
From Coq Require Import ZifyBool ZifyNat ZifyN.
Local Open Scope N_scope.

Lemma read_n_forall {A} (rd : list byte -> res (A * list byte)) (P : A -> Prop) :
  (forall b a r, rd b = Ok (a, r) -> P a) ->
  forall fuel cnt buf l rest, read_n rd fuel cnt buf = Ok (l, rest) -> Forall P l.
Proof.
  intros HP fuel. induction fuel as [|fuel IH]; intros cnt buf l rest H; cbn [read_n] in H.
  - destruct (cnt =? 0); [|discriminate]. inversion H. constructor.
  - destruct (cnt =? 0); [inversion H; constructor|].
    destruct (rd buf) as [[a r]|] eqn:Ea; cbn [bind] in H; [|discriminate].
    destruct (read_n rd fuel (N.pred cnt) r) as [[l' r']|] eqn:El; cbn [bind] in H; [|discriminate].
    inversion H; subst. constructor; [eapply HP; exact Ea|eapply IH; exact El].
Qed.

Lemma read_list_forall {A} (rd : list byte -> res (A * list byte)) (P : A -> Prop) le cnt buf l rest :
  (forall b a r, rd b = Ok (a, r) -> P a) -> read_list le cnt rd buf = Ok (l, rest) -> Forall P l.
Proof.
  intros HP H. unfold read_list in H.
  destruct (read_basic le cnt buf) as [[n r]|]; cbn [bind] in H; [|discriminate].
  destruct (wire_count n) as [n'|]; cbn [bind] in H; [|discriminate]. eapply read_n_forall; eassumption.
Qed.

Lemma r_prim_typed rec p g buf v rest : prim_fits_type p g = true -> r_prim p buf = Ok (v, rest) -> typed_in rec g v = true.
Proof.
  destruct p, g; cbn [prim_fits_type]; try discriminate; intros Hf H; cbn [r_prim] in H.
  - destruct (ity_eqb_spec t t0) as [<-|]; [|discriminate].
    destruct (read_basic le t buf) as [[n r]|] eqn:E; cbn [bind] in H; [|discriminate]. inversion H; subst.
    cbn [typed_in]. apply N.ltb_lt. eapply read_basic_lt. exact E.
  - destruct (read_fixed n pad left buf) as [[s r]|]; cbn [bind] in H; [|discriminate]. inversion H; reflexivity.
  - destruct (read_string le len buf) as [[s r]|]; cbn [bind] in H; [|discriminate]. inversion H; reflexivity.
  - destruct (ity_eqb_spec elt t) as [<-|]; [|discriminate].
    destruct (read_basic_list le cnt elt buf) as [[l r]|] eqn:E; cbn [bind] in H; [|discriminate]. inversion H; subst.
    cbn [typed_in]. apply forallb_forall. intros x Hx.
    pose proof (read_list_forall (read_basic le elt) (fun n => n < bound elt) le cnt buf l rest
                  (fun b a r E0 => read_basic_lt le elt b a r E0) E) as Hall.
    rewrite Forall_forall in Hall. apply N.ltb_lt. apply Hall. exact Hx.
  - destruct (read_fixed_list le cnt n pad left buf) as [[l r]|]; cbn [bind] in H; [|discriminate]. inversion H; reflexivity.
  - destruct (read_string_list le cnt len buf) as [[l r]|]; cbn [bind] in H; [|discriminate]. inversion H; reflexivity.
Qed.

Definition kind_fits_type (g : gotype) (k : kind) : bool :=
  match k, g with
  | KPrim p _, _ => prim_fits_type p g
  | KObjs _ _ t, GPtrs t' => t' =? t
  | KCall _ _ _ (DPtr t), GPtr t' => t' =? t
  | KCall _ _ _ (DVal t), GVal t' => t' =? t
  | KCall _ _ _ (DSel _ _), GIface => true
  | _, _ => false
  end.
Fixpoint kinds_fit_types (gs : list gotype) (ks : list kind) : bool :=
  match ks, gs with
  | [], [] => true
  | k :: ks', g :: gs' => kind_fits_type g k && kinds_fit_types gs' ks'
  | _, _ => false
  end.

Section DT.
  Variable tables : list (N * table).
  Variable sdec : N -> list byte -> res (list value * list byte).
  Variable rec : N -> list value -> bool.
  Hypothesis Hty : forall t buf fs r, sdec t buf = Ok (fs, r) -> rec t fs = true.

  Lemma parse_obj_typed t buf v r : parse_obj sdec t buf = Ok (v, r) -> exists fs, v = VObj t fs /\ rec t fs = true.
  Proof.
    unfold parse_obj. destruct (sdec t buf) as [[fs r']|] eqn:E; cbn [bind]; [|discriminate].
    intro H. inversion H; subst. exists fs. split; [reflexivity|eapply Hty; exact E].
  Qed.

  Lemma parse_kind_typed done g k buf v r :
    kind_fits_type g k = true -> parse_kind tables sdec done k buf = Ok (v, r) -> typed_in rec g v = true.
  Proof.
    intros Hf H. destruct k as [p pr|le cnt t|f gd pr d]; cbn [kind_fits_type parse_kind] in *.
    - eapply r_prim_typed; eassumption.
    - destruct g; try discriminate. apply N.eqb_eq in Hf. subst t0.
      destruct (read_list le cnt (parse_obj sdec t) buf) as [[l r']|] eqn:E; cbn [bind] in H; [|discriminate]. inversion H; subst.
      cbn [typed_in]. unfold all_objs. apply forallb_forall. intros x Hx.
      pose proof (read_list_forall (parse_obj sdec t) (fun v => exists fs, v = VObj t fs /\ rec t fs = true) le cnt buf l r
                    (fun b a r0 E0 => parse_obj_typed t b a r0 E0) E) as Hall.
      rewrite Forall_forall in Hall. destruct (Hall x Hx) as [fs [-> Hr]]. rewrite N.eqb_refl, Hr. reflexivity.
    - destruct d as [t|t|tbl key]; destruct g; try discriminate.
      + apply N.eqb_eq in Hf. subst t0. destruct (parse_obj_typed _ _ _ _ H) as [fs [-> Hr]]. cbn [typed_in]. rewrite N.eqb_refl, Hr. reflexivity.
      + apply N.eqb_eq in Hf. subst t0. destruct (parse_obj_typed _ _ _ _ H) as [fs [-> Hr]]. cbn [typed_in]. rewrite N.eqb_refl, Hr. reflexivity.
      + destruct (get_field done key) as [kv|]; cbn [bind] in H; [|discriminate].
        destruct (slookup tables tbl kv) as [ty|]; cbn [bind] in H; [|discriminate].
        destruct (parse_obj_typed _ _ _ _ H) as [fs [-> Hr]]. cbn [typed_in]. exact Hr.
  Qed.

  Lemma parse_fields_typed ks : forall done gs buf vs r,
    kinds_fit_types gs ks = true -> parse_fields tables sdec done ks buf = Ok (vs, r) -> typed_fields rec gs vs = true.
  Proof.
    induction ks as [|k ks IH]; intros done gs buf vs r Hf H; cbn [parse_fields] in H.
    - destruct gs; [|discriminate]. inversion H. reflexivity.
    - destruct gs as [|g gs]; [discriminate|]. cbn [kinds_fit_types] in Hf. apply andb_true_iff in Hf. destruct Hf as [Hf1 Hf2].
      destruct (parse_kind tables sdec done k buf) as [[v r1]|] eqn:E1; cbn [bind] in H; [|discriminate].
      destruct (parse_fields tables sdec (done ++ [v]) ks r1) as [[vs' r2]|] eqn:E2; cbn [bind] in H; [|discriminate].
      inversion H; subst. cbn [typed_fields]. rewrite (parse_kind_typed _ _ _ _ _ _ Hf1 E1), (IH _ _ _ _ _ Hf2 E2). reflexivity.
  Qed.
End DT.

Fixpoint types_ok_env (ss : list sdef) : bool :=
  match ss with
  | [] => true
  | sd :: rest => kinds_fit_types (sd_fields sd) (schema_kinds (sd_schema sd)) && types_ok_env rest
  end.

Theorem dec_typed tables : forall ss, types_ok_env ss = true ->
  forall t buf fs r, spec_dec_env tables ss t buf = Ok (fs, r) -> typed_env (sigs_of_sdefs ss) t fs = true.
Proof.
  induction ss as [|sd rest IH]; intros Hok t buf fs r H; [discriminate|].
  cbn [types_ok_env] in Hok. apply andb_true_iff in Hok. destruct Hok as [Hk Hok].
  cbn [spec_dec_env sigs_of_sdefs map typed_env] in *. destruct (sd_id sd =? t); [|eapply IH; eassumption].
  rewrite spec_dec_schema_kinds in H. eapply parse_fields_typed; try eassumption.
  intros t0 b f0 r0 E. eapply IH; eassumption.
Qed.
