(* Props/C08.v — whatever bytes a decoder accepts, re-encoding the result reproduces those bytes. *)
From FP.Props Require Import Common.
From FP.Theory Require Import DecTyped.
Local Open Scope N_scope.

Lemma H_reenc : reenc_env_ok tables schemas = true.
Proof. vm_compute. reflexivity. Qed.
Lemma H_types : types_ok_env schemas = true.
Proof. vm_compute. reflexivity. Qed.
Lemma H_sigs : sigs_of_sdefs schemas = sigs_of_env env.
Proof. exact (infer_env_sigs env schemas H_infer). Qed.
Lemma H_frame_sums : forallb (fun sd => match sd_schema sd with SFrame _ _ _ _ sum => sum_reg_ok registry0 sum | _ => true end) schemas = true.
Proof. vm_compute. reflexivity. Qed.

(* whatever Decode returns is a well-typed message (so it can be handed to Encode) *)
Theorem C08_decoded_is_well_typed : forall t r buf fs rest,
  receiver_ok t r = true -> decode t r buf = Ok (fs, rest) -> typed t fs = true.
Proof.
  intros t r buf fs rest Hr H. rewrite decode_spec in H by exact Hr. rewrite <- H_sigs.
  exact (dec_typed tables schemas H_types t buf fs rest H).
Qed.

Notation plain_type := (is_plain schemas).

(* C08 for every message type without self-computed fields (all but the four frames, incl. the BSE frame whose
   length and checksum are the caller's): for EVERY byte string its decoder accepts - not only encodings the library
   can produce - and every receiver: encoding the decoded message, into any buffer, appends exactly the bytes the
   decoder consumed, and leaves the message as it is.  Pad bytes, interior spaces, sign bits, NaN payloads, list
   order, extension contents all survive. *)
Theorem C08_reencode_reproduces_consumed_bytes : forall t r buf fs rest out,
  plain_type t = true -> receiver_ok t r = true -> decode t r buf = Ok (fs, rest) ->
  exists pre, buf = pre ++ rest /\ encode t fs out = Ok (fs, out ++ pre).
Proof.
  intros t r buf fs rest out Hp Hr H.
  pose proof (C08_decoded_is_well_typed t r buf fs rest Hr H) as Ht.
  rewrite decode_spec in H by exact Hr.
  destruct (spec_reencode_plain tables registry0 schemas H_reenc t buf fs rest Hp H) as [pre [Hb He]].
  exists pre. split; [exact Hb|]. rewrite encode_spec by exact Ht. rewrite He. reflexivity.
Qed.

(* C08 for the frames with self-computed length / checksum: the bytes consumed are header ++ 4 length bytes ++ body
   ++ checksum bytes; re-encoding reproduces header and body byte for byte and differs at most in the two computed
   slots, which now hold the correct values (C04, C05); every other field of the message is unchanged *)
Theorem C08_frame_reencode : forall sd hdr le tbl key sum r buf fs rest out,
  In sd schemas -> sd_schema sd = SFrame hdr le tbl key sum ->
  receiver_ok (sd_id sd) r = true -> decode (sd_id sd) r buf = Ok (fs, rest) ->
  exists hb l4 bb s4 fs' tb,
    buf = (hb ++ l4 ++ bb ++ s4) ++ rest /\ length l4 = 4%nat /\ length tb = length s4 /\
    encode (sd_id sd) fs out = Ok (fs', out ++ hb ++ int_bytes (ord le) 4 (u32_of_len (lenN bb)) ++ bb ++ tb) /\
    firstn (length hdr) fs' = firstn (length hdr) fs /\ nth_error fs' (S (length hdr)) = nth_error fs (S (length hdr)).
Proof.
  intros sd hdr le tbl key sum r buf fs rest out Hin Hs Hr H.
  pose proof (C08_decoded_is_well_typed _ r buf fs rest Hr H) as Ht.
  rewrite decode_spec in H by exact Hr.
  pose proof H_frame_sums as Hsum. rewrite forallb_forall in Hsum. specialize (Hsum sd Hin). rewrite Hs in Hsum.
  destruct (spec_reencode_frame_in tables registry0 schemas sd hdr le tbl key sum buf fs rest Hin H_unique Hs H_reenc Hsum H)
    as [hb [l4 [bb [s4 [fs' [tb [A [B [_ [D [E [F G]]]]]]]]]]]].
  exists hb, l4, bb, s4, fs', tb. split; [exact A|]. split; [exact B|]. split; [exact E|].
  split; [rewrite encode_spec by exact Ht; rewrite D; reflexivity|]. split; [exact F|exact G].
Qed.

(* non-vacuity: bytes no encoder of this library produces - a right-padded field with an interior run of pads and a
   non-UTF-8 byte, a NaN payload - are accepted and reproduced *)
Example C08_plain_types_census : length (filter plain_type (map sd_id schemas)) = 166%nat.
Proof. vm_compute. reflexivity. Qed.
Example C08_nonvacuous :
  (* ExecRptInfo: u16, list of 8-byte text, list of u32.  One text "A  <bc>B" + 3 pads (interior pads, a non-UTF-8
     byte), one number 0x7fc00001 *)
  let bytes := [x00; x01;  x00; x01; x41; x20; x20; xbc; x42; x20; x20; x20;  x00; x01; x7f; xc0; x00; x01] in
  match decode id_sse_bin_ExecRptInfo (zero_value id_sse_bin_ExecRptInfo) (bytes ++ [xee]) with
  | Ok (fs, [xee]) => match encode id_sse_bin_ExecRptInfo fs [] with
                      | Ok (fs2, out) => list_byte_eqb out bytes
                      | Fail _ => false end
  | _ => false end = true.
Proof. vm_compute. reflexivity. Qed.

Print Assumptions C08_decoded_is_well_typed.
Print Assumptions C08_reencode_reproduces_consumed_bytes.
Print Assumptions C08_frame_reencode.
