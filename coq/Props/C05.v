(* Props/C05.v — a frame's checksum covers exactly that frame's bytes, by the exchange algorithm. *)
From FP.Props Require Import Common C04.
From FP.Theory Require Import SumFacts.
Import Coq.Strings.String.StringSyntax.
Local Open Scope N_scope.

(* every checksummed frame finds its service in the registry that codec's init() builds, with the
   result type its type assertion expects (so the assertion cannot panic) *)
Lemma H_sums : sums_ok registry0 schemas = true.
Proof. vm_compute. reflexivity. Qed.

(* C05.  For every checksummed frame type, every well-typed frame object (any stale checksum, any body)
   and every buffer content: the bytes appended are [fr ++ trailer] where [fr] is the frame from its
   first header byte through its last body byte with the corrected length field in place, the trailer
   is the service's algorithm applied to exactly [fr] - nothing that was in the buffer before - and
   the object reports the same value. *)
Theorem C05_frame_checksum : forall sd hdr le tbl key s fs buf fs' buf',
  In sd schemas -> sd_schema sd = SFrame hdr le tbl key (Some s) ->
  typed (sd_id sd) fs = true -> encode (sd_id sd) fs buf = Ok (fs', buf') ->
  exists fr sv,
    reg_get registry0 (ss_name s) = Some sv /\
    buf' = buf ++ fr ++ write_basic (ss_le s) (ss_rt s) (calc (sv_alg sv) fr) /\
    nth_error fs' (S (S (length hdr))) = Some (VInt (calc (sv_alg sv) fr)) /\
    (* [fr] is header ++ corrected length ++ body, as in C04 *)
    exists hb bb, fr = hb ++ int_bytes (ord le) 4 (u32_of_len (lenN bb)) ++ bb /\ length hb = hdr_width hdr.
Proof.
  intros sd hdr le tbl key s fs buf fs' buf' Hin Hs Ht H.
  destruct (encode_frame_bytes sd hdr le tbl key (Some s) fs buf fs' buf' Hin Hs Ht H) as [hb [bb [body [_ [_ [H3 H4]]]]]].
  cbn zeta in H4. destruct H4 as [_ [oldv [c [tb [_ [Hc [Hn [Hw ->]]]]]]]].
  destruct (frame_checksum_registered registry0 schemas sd hdr le tbl key s _ oldv c Hin H_sums Hs Hc) as [sv [Hr ->]].
  cbn [w_prim] in Hw. inversion Hw; subst tb.
  eexists; exists sv. split; [exact Hr|]. split; [reflexivity|]. split; [exact Hn|].
  exists hb, bb. split; [reflexivity|exact H3].
Qed.

(* which algorithm: SSE and SZSE frames carry the byte sum modulo 256 of the frame, the sample root
   packet CRC-32 (the bitwise reflected 0xEDB88320 algorithm, see C14) *)
Theorem C05_sse_szse_sum_mod_256 : forall fr,
  calc ASse fr = byte_sum fr mod 256 /\ calc ASzse fr = byte_sum fr mod 256.
Proof. exact (fun fr => conj (sse_calc_spec fr) (szse_calc_spec fr)). Qed.

Definition frame_algs : list (N * option (String.string * option alg)) :=
  map (fun sd => (sd_id sd, match sd_schema sd with
                            | SFrame _ _ _ _ (Some s) => Some (ss_name s, option_map sv_alg (reg_get registry0 (ss_name s)))
                            | _ => None end))
      (filter (fun sd => match sd_schema sd with SFrame _ _ _ _ _ => true | _ => false end) schemas).
Example C05_algorithms :
  frame_algs = [(id_szse_bin_SzseBinary, Some ("SZSE_BIN"%string, Some ASzse));
                (id_sse_bin_SseBinary, Some ("SSE_BIN"%string, Some ASse));
                (id_sample_bin_RootPacket, Some ("CRC32"%string, Some ACrc32));
                (id_risk_bin_RcBinary, None)].
Proof. vm_compute. reflexivity. Qed.

(* non-vacuity: stale checksum 5 is replaced; prior buffer content [01 02] is not covered *)
Example C05_nonvacuous :
  typed id_sse_bin_SseBinary C04.ex_frame = true /\
  match encode id_sse_bin_SseBinary C04.ex_frame [x01; x02], encode id_sse_bin_SseBinary C04.ex_frame [] with
  | Ok (fs1, b1), Ok (fs2, b2) => match nth_error fs1 4, nth_error fs2 4 with
                                  | Some (VInt c1), Some (VInt c2) => (c1 =? c2) && negb (c1 =? 5) && (c1 =? sse_calc (firstn (length b2 - 4) b2))
                                  | _, _ => false end
  | _, _ => false end = true.
Proof. vm_compute. split; reflexivity. Qed.

Print Assumptions C05_frame_checksum.
Print Assumptions C05_sse_szse_sum_mod_256.
