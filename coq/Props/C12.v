(* Props/C12.v — discriminators pick the same body type both ways; unknown ones are errors. *)
From FP.Props Require Import Common.
From FP.Theory Require Import Select TableEquiv.
From FP.Pinned Require Import Pinned.
Local Open Scope N_scope.

(* the 18 tables of the code are the pinned tables as maps: same table ids, same keys, same body types (226 keys);
   the order in which init() registers the entries does not matter *)
Lemma H_tables : tables_equivb tables pinned_tables = true.
Proof. vm_compute. reflexivity. Qed.
Lemma tables_select : forall tbl kv, selected tables tbl kv = selected pinned_tables tbl kv.
Proof. exact (tables_equivb_sound tables pinned_tables H_tables). Qed.
Lemma H_sels : sels_ok schemas = true.
Proof. vm_compute. reflexivity. Qed.
Example C12_table_census :
  length pinned_tables = 18%nat /\ fold_right (fun t a => length (snd t) + a)%nat 0%nat pinned_tables = 226%nat.
Proof. vm_compute. split; reflexivity. Qed.

Notation pinned_type := (selected pinned_tables).

(* C12, decode.  For every message type with a body or extension selected by a discriminator, every receiver
   and every byte string: if Decode succeeds, the body it built has exactly the type the pinned table gives for the
   discriminator value it decoded - so for an unregistered value Decode does not succeed (by C09 it returns an
   error), it never guesses a type. *)
Theorem C12_decode_builds_pinned_type : forall sd i f g p tbl key r buf fs rest,
  In sd schemas -> nth_error (schema_kinds (sd_schema sd)) i = Some (KCall f g p (DSel tbl key)) ->
  receiver_ok (sd_id sd) r = true -> decode (sd_id sd) r buf = Ok (fs, rest) ->
  exists kv ty bfs, nth_error fs key = Some kv /\ pinned_type tbl kv = Some ty /\ nth_error fs i = Some (VObj ty bfs).
Proof.
  intros sd i f g p tbl key r buf fs rest Hin Hi Hr H.
  rewrite decode_spec in H by exact Hr.
  destruct (in_split _ _ Hin) as [pre [rest' Hsplit]]. rewrite Hsplit in H.
  rewrite spec_dec_at in H by (apply ids_unique_pre with (rest := rest'); rewrite <- Hsplit; exact H_unique).
  pose proof H_sels as Hs. unfold sels_ok in Hs. rewrite forallb_forall in Hs. specialize (Hs sd Hin).
  pose proof (sel_ok_nth _ _ _ _ _ _ _ Hs Hi) as Hk.
  cut (exists kv ty bfs, nth_error fs key = Some kv /\ selected tables tbl kv = Some ty /\ nth_error fs i = Some (VObj ty bfs)).
  { intros [kv [ty [bfs [A [B C]]]]]. exists kv, ty, bfs. rewrite <- tables_select. auto. }
  eapply parse_fields_selects; eassumption.
Qed.

Theorem C12_decode_rejects_unregistered : forall sd i f g p tbl key r buf fs rest,
  In sd schemas -> nth_error (schema_kinds (sd_schema sd)) i = Some (KCall f g p (DSel tbl key)) ->
  receiver_ok (sd_id sd) r = true -> decode (sd_id sd) r buf = Ok (fs, rest) ->
  exists kv, nth_error fs key = Some kv /\ pinned_type tbl kv <> None.
Proof.
  intros sd i f g p tbl key r buf fs rest Hin Hi Hr H.
  destruct (C12_decode_builds_pinned_type sd i f g p tbl key r buf fs rest Hin Hi Hr H) as [kv [ty [bfs [A [B _]]]]].
  exists kv. split; [exact A|congruence].
Qed.

(* C12, encode.  Wherever the encoder fills in a body or extension the caller left out, it uses the same table and
   discriminator field as the decoder (H_sels) and builds exactly the pinned type; with an unregistered value it
   does not succeed (by C17 it returns an error). *)
Theorem C12_encode_fills_pinned_type : forall sd ks i g p d tbl key fs buf fs' buf',
  In sd schemas -> sd_schema sd = SPlain ks -> nth_error ks i = Some (KCall (FTable tbl key) g p d) ->
  typed (sd_id sd) fs = true -> nth_error fs i = Some VNil -> encode (sd_id sd) fs buf = Ok (fs', buf') ->
  exists kv ty bfs, nth_error fs' key = Some kv /\ pinned_type tbl kv = Some ty /\ nth_error fs' i = Some (VObj ty bfs).
Proof.
  intros sd ks i g p d tbl key fs buf fs' buf' Hin Hs Hi Ht Hnil H.
  rewrite encode_spec in H by exact Ht.
  destruct (senc (sd_id sd) fs) as [[a bs]|] eqn:E; cbn [lift] in H; [|discriminate]. inversion H; subst a buf'. clear H.
  destruct (in_split _ _ Hin) as [pre [rest' Hsplit]]. rewrite Hsplit in E.
  rewrite spec_enc_at in E by (apply ids_unique_pre with (rest := rest'); rewrite <- Hsplit; exact H_unique).
  rewrite Hs in E. cbn [spec_enc_schema] in E.
  pose proof H_sels as Hsel. unfold sels_ok in Hsel. rewrite forallb_forall in Hsel. specialize (Hsel sd Hin). rewrite Hs in Hsel. cbn [schema_kinds] in Hsel.
  destruct (fill_ok_nth _ _ _ _ _ _ _ Hsel Hi) as [_ Hk].
  cut (exists kv ty bfs, nth_error fs' key = Some kv /\ selected tables tbl kv = Some ty /\ nth_error fs' i = Some (VObj ty bfs)).
  { intros [kv [ty [bfs [A [B C]]]]]. exists kv, ty, bfs. rewrite <- tables_select. auto. }
  eapply render_fields_fills; eassumption.
Qed.

Theorem C12_encode_rejects_unregistered : forall sd ks i g p d tbl key fs buf fs' buf',
  In sd schemas -> sd_schema sd = SPlain ks -> nth_error ks i = Some (KCall (FTable tbl key) g p d) ->
  typed (sd_id sd) fs = true -> nth_error fs i = Some VNil -> encode (sd_id sd) fs buf = Ok (fs', buf') ->
  exists kv, nth_error fs' key = Some kv /\ pinned_type tbl kv <> None.
Proof.
  intros sd ks i g p d tbl key fs buf fs' buf' Hin Hs Hi Ht Hnil H.
  destruct (C12_encode_fills_pinned_type sd ks i g p d tbl key fs buf fs' buf' Hin Hs Hi Ht Hnil H) as [kv [ty [bfs [A [B _]]]]].
  exists kv. split; [exact A|congruence].
Qed.

(* the encoder's fill-in and the decoder's look-up agree on table and discriminator field, for every type *)
Theorem C12_same_table_both_ways : forall sd i g p d tbl key,
  In sd schemas -> nth_error (schema_kinds (sd_schema sd)) i = Some (KCall (FTable tbl key) g p d) -> d = DSel tbl key.
Proof.
  intros sd i g p d tbl key Hin Hi.
  pose proof H_sels as Hsel. unfold sels_ok in Hsel. rewrite forallb_forall in Hsel. specialize (Hsel sd Hin).
  exact (proj1 (fill_ok_nth _ _ _ _ _ _ _ Hsel Hi)).
Qed.

(* non-vacuity: an SZSE NewOrder with ApplID "010" decodes to extension Extend100101; nil extension is filled with it;
   ApplID "999" is refused both ways *)
Definition no_fields (appl : list byte) : list value :=
  [VStr appl; VStr []; VStr []; VStr []; VInt 0; VStr []; VInt 0; VStr []; VStr []; VStr []; VStr []; VStr []; VStr []; VStr []; VInt 0; VInt 0; VNil].
Example C12_nonvacuous :
  (match encode id_szse_bin_NewOrder (no_fields [x30; x31; x30]) [] with
   | Ok (fs', b) => match nth_error fs' 16, decode id_szse_bin_NewOrder (zero_value id_szse_bin_NewOrder) b with
                    | Some (VObj t _), Ok (fs2, []) => (t =? id_szse_bin_Extend100101) && match nth_error fs2 16 with Some (VObj t2 _) => t2 =? t | _ => false end
                    | _, _ => false end
   | Fail _ => false end) = true /\
  encode id_szse_bin_NewOrder (no_fields [x39; x39; x39]) [] = Fail FErr.
Proof. vm_compute. repeat split; reflexivity. Qed.

Print Assumptions C12_decode_builds_pinned_type.
Print Assumptions C12_decode_rejects_unregistered.
Print Assumptions C12_encode_fills_pinned_type.
Print Assumptions C12_encode_rejects_unregistered.
Print Assumptions C12_same_table_both_ways.
