(* Theory/FrameFacts.v — what a frame schema puts on the wire: the self-computed body length (C04)
   and checksum (C05), read off [render_frame]; and the buffer-level consequences of the encode
   refinement (C06). *)
From FP.Theory Require Export RefineDec.
From Coq Require Import ZifyBool ZifyNat ZifyN.
Local Open Scope N_scope.

(* ---------- environment plumbing: a type is found in the suffix that declares it ---------- *)
Fixpoint has_id (ss : list sdef) (t : N) : bool :=
  match ss with [] => false | sd :: r => (sd_id sd =? t) || has_id r t end.
Fixpoint ids_unique (ss : list sdef) : bool :=
  match ss with [] => true | sd :: r => negb (has_id r (sd_id sd)) && ids_unique r end.

Lemma spec_enc_unknown tables reg ss t fs : has_id ss t = false -> spec_enc_env tables reg ss t fs = Fail FUnmodelled.
Proof.
  induction ss as [|sd r IH]; cbn [has_id spec_enc_env]; [reflexivity|].
  intro H. apply orb_false_iff in H. destruct H as [H1 H2]. rewrite H1. apply IH. exact H2.
Qed.

Lemma spec_enc_skip tables reg pre : forall rest t fs, has_id pre t = false ->
  spec_enc_env tables reg (pre ++ rest) t fs = spec_enc_env tables reg rest t fs.
Proof.
  induction pre as [|sd pre IH]; intros rest t fs H; cbn [app has_id spec_enc_env] in *; [reflexivity|].
  apply orb_false_iff in H. destruct H as [H1 H2]. rewrite H1. apply IH. exact H2.
Qed.

Lemma has_id_app a b t : has_id (a ++ b) t = has_id a t || has_id b t.
Proof. induction a as [|sd a IH]; cbn [app has_id]; [reflexivity|]. rewrite IH, orb_assoc. reflexivity. Qed.

Lemma ids_unique_split pre sd rest t :
  ids_unique (pre ++ sd :: rest) = true -> has_id rest t = true -> has_id (pre ++ [sd]) t = false.
Proof.
  induction pre as [|p pre IH]; intros Hu Ht.
  - cbn [app ids_unique has_id] in *. apply andb_true_iff in Hu. destruct Hu as [Hu _].
    destruct (sd_id sd =? t) eqn:E; [|reflexivity].
    apply N.eqb_eq in E. rewrite E, Ht in Hu. discriminate.
  - cbn [app ids_unique has_id] in *. apply andb_true_iff in Hu. destruct Hu as [Hp Hu]. rewrite (IH Hu Ht), orb_false_r.
    destruct (sd_id p =? t) eqn:E; [|reflexivity].
    apply N.eqb_eq in E. rewrite E in Hp.
    rewrite has_id_app in Hp. cbn [has_id] in Hp. rewrite Ht in Hp. rewrite !orb_true_r in Hp. discriminate.
Qed.

(* the schema list as seen from one of its members *)
Lemma spec_enc_at tables reg pre sd rest fs :
  has_id pre (sd_id sd) = false ->
  spec_enc_env tables reg (pre ++ sd :: rest) (sd_id sd) fs =
  spec_enc_schema tables reg (spec_enc_env tables reg rest) (szero_fields rest) (sd_schema sd) fs.
Proof.
  intro H. rewrite spec_enc_skip by exact H. cbn [spec_enc_env]. rewrite N.eqb_refl. reflexivity.
Qed.

(* ---------- the bytes of a frame ---------- *)
Section Frame.
  Variable tables : list (N * table).
  Variable reg : registry.
  Variable senc : N -> list value -> res (list value * list byte).
  Variable zero_rec : N -> option (list value).

  (* what the body's own Encode appends: nothing for an absent body *)
  Definition body_bytes (body : value) (bb : list byte) : Prop :=
    match body with
    | VNil => bb = []
    | VObj t bfs => exists bfs', senc t bfs = Ok (bfs', bb)
    | _ => False
    end.

  Lemma render_call_body body body' bb : render_call senc GIfNotNil true body = Ok (body', bb) -> body_bytes body bb.
  Proof.
    destruct body; cbn [render_call body_bytes]; try discriminate.
    - destruct (senc t fs) as [[fs' bs]|f]; [|destruct f; discriminate].
      intro H. inversion H; subst. eexists; reflexivity.
    - intro H. inversion H; reflexivity.
  Qed.

  Definition frame_checksum (fr : list byte) (ss : sumspec) (oldv : value) : res value :=
    match reg_get reg (ss_name ss) with
    | None => Ok oldv
    | Some sv => if ity_eqb (sv_rt sv) (ss_rt ss) then Ok (VInt (calc (sv_alg sv) fr)) else Fail FPanic
    end.

  (* C04 + C05 at the schema level: the exact shape of what a frame appends *)
  Theorem render_frame_shape hdr le sum fs fs' bs :
    render_frame tables reg senc zero_rec hdr le sum fs = Ok (fs', bs) ->
    exists hv hb lenv body tl body' bb,
      skipn (length hdr) fs = lenv :: body :: tl /\
      render_fields tables senc zero_rec [] hdr (firstn (length hdr) fs) = Ok (hv, hb) /\
      body_bytes body bb /\
      let L := u32_of_len (lenN bb) in
      let fr := hb ++ int_bytes (ord le) 4 L ++ bb in
      match sum with
      | None => fs' = hv ++ VInt L :: body' :: tl /\ bs = fr
      | Some ss => exists oldv tl' c,
          tl = oldv :: tl' /\ frame_checksum fr ss oldv = Ok c /\
          fs' = hv ++ VInt L :: body' :: c :: tl' /\
          exists tb, w_prim (PBasic (ss_le ss) (ss_rt ss)) c = Ok tb /\ bs = fr ++ tb
      end.
  Proof.
    unfold render_frame.
    destruct (render_fields tables senc zero_rec [] hdr (firstn (length hdr) fs)) as [[hv hb]|f]; cbn [bind]; [|discriminate].
    destruct (skipn (length hdr) fs) as [|lenv [|body tl]]; try discriminate.
    destruct (render_call senc GIfNotNil true body) as [[body' bb]|f] eqn:Eb; cbn [bind]; [|discriminate].
    intro H. exists hv, hb, lenv, body, tl, body', bb.
    split; [reflexivity|]. split; [reflexivity|]. split; [eapply render_call_body; exact Eb|].
    cbn zeta. destruct sum as [ss|].
    - destruct tl as [|oldv tl']; [discriminate|].
      fold (frame_checksum (hb ++ int_bytes (ord le) 4 (u32_of_len (lenN bb)) ++ bb) ss oldv) in H.
      destruct (frame_checksum _ ss oldv) as [c|f] eqn:Ec; cbn [bind] in H; [|discriminate].
      destruct (w_prim (PBasic (ss_le ss) (ss_rt ss)) c) as [tb|f] eqn:Ew; [|discriminate].
      inversion H; subst. exists oldv, tl', c. split; [reflexivity|]. split; [exact Ec|]. split; [reflexivity|]. exists tb. split; [exact Ew|reflexivity].
    - inversion H; subst. split; reflexivity.
  Qed.

  (* header scalars occupy the sum of their widths *)
  Fixpoint hdr_width (hdr : list kind) : nat :=
    match hdr with
    | KPrim (PBasic _ t) _ :: r => width t + hdr_width r
    | _ :: r => hdr_width r
    | [] => O
    end.

  Lemma render_hdr_length hdr : forall done vs hv hb,
    forallb is_hdr_kind hdr = true ->
    render_fields tables senc zero_rec done hdr vs = Ok (hv, hb) -> length hb = hdr_width hdr.
  Proof.
    induction hdr as [|k hdr IH]; intros done vs hv hb Hk H; cbn [render_fields] in H.
    - inversion H; reflexivity.
    - cbn [forallb] in Hk. apply andb_true_iff in Hk. destruct Hk as [Hk1 Hk2].
      destruct k; try discriminate. destruct p; try discriminate.
      destruct vs as [|v vs]; [discriminate|]. cbn [render_kind] in H.
      destruct v; cbn [w_prim] in H; try discriminate.
      cbn [bind] in H.
      destruct (render_fields tables senc zero_rec (done ++ [VInt n]) hdr vs) as [[rest b2]|] eqn:E; cbn [bind] in H; [|discriminate].
      inversion H; subst. rewrite app_length. cbn [hdr_width]. unfold write_basic. rewrite int_bytes_length.
      rewrite (IH _ _ _ _ Hk2 E). reflexivity.
  Qed.
End Frame.

(* ---------- frames inside a schema list ---------- *)
Lemma ids_unique_pre pre sd rest : ids_unique (pre ++ sd :: rest) = true -> has_id pre (sd_id sd) = false.
Proof.
  induction pre as [|p pre IH]; intro Hu; [reflexivity|].
  cbn [app ids_unique has_id] in *. apply andb_true_iff in Hu. destruct Hu as [Hp Hu].
  rewrite (IH Hu), orb_false_r.
  destruct (sd_id p =? sd_id sd) eqn:E; [|reflexivity].
  apply N.eqb_eq in E. rewrite E in Hp. rewrite has_id_app in Hp. cbn [has_id] in Hp.
  rewrite N.eqb_refl in Hp. rewrite orb_true_r in Hp. discriminate.
Qed.

Lemma spec_enc_rest_full tables reg pre sd rest t fs r :
  ids_unique (pre ++ sd :: rest) = true ->
  spec_enc_env tables reg rest t fs = Ok r ->
  spec_enc_env tables reg (pre ++ sd :: rest) t fs = Ok r.
Proof.
  intros Hu H.
  destruct (has_id rest t) eqn:Ht.
  - replace (pre ++ sd :: rest) with ((pre ++ [sd]) ++ rest) by (rewrite <- app_assoc; reflexivity).
    rewrite spec_enc_skip; [exact H|]. eapply ids_unique_split; eassumption.
  - rewrite spec_enc_unknown in H by exact Ht. discriminate.
Qed.

Definition frames_ok (ss : list sdef) : bool :=
  forallb (fun sd => match sd_schema sd with SFrame hdr _ _ _ _ => forallb is_hdr_kind hdr | SPlain _ => true end) ss.

Theorem frame_bytes tables reg ss sd hdr le tbl key sum fs fs' bs :
  In sd ss -> ids_unique ss = true -> frames_ok ss = true ->
  sd_schema sd = SFrame hdr le tbl key sum ->
  spec_enc_env tables reg ss (sd_id sd) fs = Ok (fs', bs) ->
  exists hb bb body,
    nth_error fs (S (length hdr)) = Some body /\
    body_bytes (spec_enc_env tables reg ss) body bb /\
    length hb = hdr_width hdr /\
    let L := u32_of_len (lenN bb) in
    let fr := hb ++ int_bytes (ord le) 4 L ++ bb in
    nth_error fs' (length hdr) = Some (VInt L) /\
    match sum with
    | None => bs = fr
    | Some s => exists oldv c tb,
        nth_error fs (S (S (length hdr))) = Some oldv /\
        frame_checksum reg fr s oldv = Ok c /\
        nth_error fs' (S (S (length hdr))) = Some c /\
        w_prim (PBasic (ss_le s) (ss_rt s)) c = Ok tb /\ bs = fr ++ tb
    end.
Proof.
  intros Hin Hu Hf Hs H.
  destruct (in_split _ _ Hin) as [pre [rest ->]].
  rewrite spec_enc_at in H by (apply ids_unique_pre with (rest := rest); exact Hu).
  rewrite Hs in H. cbn [spec_enc_schema] in H.
  unfold frames_ok in Hf. rewrite forallb_forall in Hf. specialize (Hf sd Hin). rewrite Hs in Hf.
  destruct (render_frame_shape _ _ _ _ _ _ _ _ _ _ H) as [hv [hb [lenv [body [tl [body' [bb [Hsk [Hh [Hb Hrest]]]]]]]]]].
  pose proof (render_hdr_length _ _ _ _ _ _ _ _ Hf Hh) as Hhb.
  pose proof (render_fields_length _ _ _ _ _ _ _ _ Hh) as Hhv.
  assert (Hfl : length (firstn (length hdr) fs) = length hdr).
  { apply firstn_length_le. assert (length (skipn (length hdr) fs) >= 2)%nat by (rewrite Hsk; cbn; lia).
    rewrite skipn_length in H0. lia. }
  rewrite Hfl in Hhv.
  assert (Hnth : forall k x, nth_error (skipn (length hdr) fs) k = Some x -> nth_error fs (length hdr + k) = Some x).
  { intros k x Hk. rewrite <- (firstn_skipn (length hdr) fs) at 1.
    rewrite nth_error_app2 by lia. rewrite Hfl. replace (length hdr + k - length hdr)%nat with k by lia. exact Hk. }
  exists hb, bb, body. split.
  { replace (S (length hdr)) with (length hdr + 1)%nat by lia. apply Hnth. rewrite Hsk. reflexivity. }
  split.
  { destruct body; cbn [body_bytes] in *; try exact Hb.
    destruct Hb as [bfs' Hb]. exists bfs'. eapply spec_enc_rest_full; eassumption. }
  split; [exact Hhb|].
  cbn zeta in *. destruct sum as [s|].
  - destruct Hrest as [oldv [tl' [c [-> [Hc [-> [tb [Hw ->]]]]]]]].
    split. { rewrite nth_error_app2 by lia. rewrite Hhv, Nat.sub_diag. reflexivity. }
    exists oldv, c, tb. split.
    { replace (S (S (length hdr))) with (length hdr + 2)%nat by lia. apply Hnth. rewrite Hsk. reflexivity. }
    split; [exact Hc|]. split.
    { rewrite nth_error_app2 by lia. rewrite Hhv. replace (S (S (length hdr)) - length hdr)%nat with 2%nat by lia. reflexivity. }
    split; [exact Hw|reflexivity].
  - destruct Hrest as [-> ->]. split; [|reflexivity].
    rewrite nth_error_app2 by lia. rewrite Hhv, Nat.sub_diag. reflexivity.
Qed.

(* every checksummed frame finds its service, with the result type its assertion expects *)
Definition sums_ok (reg : registry) (ss : list sdef) : bool :=
  forallb (fun sd => match sd_schema sd with
                     | SFrame _ _ _ _ (Some s) =>
                         match reg_get reg (ss_name s) with Some sv => ity_eqb (sv_rt sv) (ss_rt s) | None => false end
                     | _ => true end) ss.

Lemma frame_checksum_registered reg ss sd hdr le tbl key s fr oldv c :
  In sd ss -> sums_ok reg ss = true -> sd_schema sd = SFrame hdr le tbl key (Some s) ->
  frame_checksum reg fr s oldv = Ok c ->
  exists sv, reg_get reg (ss_name s) = Some sv /\ c = VInt (calc (sv_alg sv) fr).
Proof.
  intros Hin Hs Hsd Hc. unfold sums_ok in Hs. rewrite forallb_forall in Hs. specialize (Hs sd Hin). rewrite Hsd in Hs.
  unfold frame_checksum in Hc. destruct (reg_get reg (ss_name s)) as [sv|]; [|discriminate].
  rewrite Hs in Hc. inversion Hc. exists sv. split; reflexivity.
Qed.
