(* Model/IR.v — deep embedding of what the translator finds in */messages/*.go:
   struct declarations, the statements of every Encode/Decode body, the init() tables.
   One Go statement = one constructor; no pattern is recognised here. *)
From FP.Model Require Export Codec Checksum.
Local Open Scope N_scope.

(* one constructor per family of codec helper, with its literal / type arguments;
   [le] selects the ...LE variant of the helper *)
Inductive prim :=
 | PBasic (le : bool) (t : ity)
 | PFixed (n : nat) (pad : N) (left : bool)
 | PString (le : bool) (len : ity)
 | PBasicList (le : bool) (cnt elt : ity)
 | PFixedList (le : bool) (cnt : ity) (n : nat) (pad : N) (left : bool)
 | PStringList (le : bool) (cnt len : ity)
 | PObjList (le : bool) (cnt : ity) (tid : N).

(* message values, positional *)
Inductive value :=
 | VInt (n : N)
 | VStr (s : list byte)
 | VInts (l : list N)
 | VStrs (l : list (list byte))
 | VObj (t : N) (fs : list value)      (* struct, pointer to struct, or interface holding one *)
 | VObjs (l : list value)              (* []*T *)
 | VNil.                               (* nil pointer / nil interface *)

Inductive gotype :=
 | GInt (t : ity) | GStr | GInts (t : ity) | GStrs
 | GPtr (t : N) | GVal (t : N) | GIface | GPtrs (t : N).

Inductive src := SField (i : nat) | SConst (t : ity) (n : N).
Inductive expr := XLen | XVar (x : nat) | XConst (n : N).
Inductive guard := GNone | GIfNotNil.

Inductive estmt :=
 | EWrite (p : prim) (s : src) (propagate : bool)      (* if err := codec.W..(buf, p.F, ..); err != nil { return .. }  /  bare call *)
 | ELet (x : nat) (e : expr)                           (* x := buf.Len() *)
 | ESetLen (i : nat) (hi lo : expr)                    (* p.F = uint32(hi - lo) *)
 | EPatch (le : bool) (pos : expr) (i : nat)           (* order.PutUint32(buf.Bytes()[pos:pos+4], p.F) *)
 | ESum (name : String.string) (rt : ity) (from : expr) (i : nat)
                                                       (* if s, ok := codec.Get(name); ok { p.F = s.(ChecksumService[*bytes.Buffer, rt]).Calc(bytes.NewBuffer(buf.Bytes()[from:])) } *)
 | ECall (i : nat) (g : guard) (propagate : bool)      (* p.F.Encode(buf), optionally under if p.F != nil *)
 | EFill (i : nat) (tbl : N) (key : nat)               (* if p.F == nil { v, err := NewXByY(p.K); .. p.F = v } *)
 | EFillNew (i : nat) (t : N).                         (* if p.F == nil { p.F = &T{} } *)

Inductive dstmt :=
 | DRead (p : prim) (i : nat)                          (* p.F = codec.R..(buf, ..) with error return *)
 | DLookup (tbl : N) (key : nat) (i : nat)             (* v, err := NewXByY(p.K); .. p.F = v *)
 | DCall (i : nat)                                     (* p.F.Decode(buf) with error return *)
 | DEnsure (i : nat) (t : N).                          (* if p.F == nil { p.F = &T{} } *)

Record tydef := {
  ty_id : N;
  ty_fields : list gotype;
  ty_enc : list estmt;
  ty_enc_err : bool;            (* Encode has an error result *)
  ty_dec : list dstmt }.

Inductive tkey := TKNum (n : N) | TKStr (s : list byte).
Definition table := list (tkey * N).      (* init() registrations in source order; the last one for a key wins *)

Record world := {
  w_env : list tydef;                     (* every nested / table-target type appears later than its user *)
  w_tables : list (N * table);
  w_reg : registry }.

Fixpoint list_byte_eqb (a b : list byte) : bool :=
  match a, b with
  | [], [] => true
  | x :: a', y :: b' => byte_eqb x y && list_byte_eqb a' b'
  | _, _ => false
  end.
Lemma list_byte_eqb_spec a b : reflect (a = b) (list_byte_eqb a b).
Proof.
  revert b. induction a as [|x a IH]; intros [|y b]; cbn [list_byte_eqb]; try (constructor; congruence).
  destruct (byte_eqb_spec x y) as [->|Hne]; cbn [andb].
  - destruct (IH b) as [->|Hne]; constructor; congruence.
  - constructor. congruence.
Qed.

Definition tkey_eqb (a b : tkey) : bool :=
  match a, b with
  | TKNum x, TKNum y => x =? y
  | TKStr x, TKStr y => list_byte_eqb x y
  | _, _ => false
  end.
Lemma tkey_eqb_spec a b : reflect (a = b) (tkey_eqb a b).
Proof.
  destruct a as [x|x], b as [y|y]; cbn [tkey_eqb]; try (constructor; congruence).
  - destruct (N.eqb_spec x y); constructor; congruence.
  - destruct (list_byte_eqb_spec x y); constructor; congruence.
Qed.

(* Go map semantics: a later registration of the same key overwrites *)
Fixpoint table_lookup (t : table) (k : tkey) : option N :=
  match t with
  | [] => None
  | (k', ty) :: r => match table_lookup r k with
                     | Some ty' => Some ty'
                     | None => if tkey_eqb k' k then Some ty else None
                     end
  end.

Fixpoint find_table (ts : list (N * table)) (id : N) : option table :=
  match ts with
  | [] => None
  | (i, t) :: r => if i =? id then Some t else find_table r id
  end.
