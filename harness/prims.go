package main

// prims.go — calling every codec helper for every type instantiation the correspondence uses.

import (
	"bytes"
	"fmt"
	"math"

	"github.com/xinchentechnote/fin-proto-go/codec"
	"golang.org/x/exp/constraints"
)

type primSpec struct {
	Kind          string // basic fixed string basiclist fixedlist stringlist objlist
	Le            bool
	Ity, Cnt, Len string
	N, Pad        int
	Left          bool
	Ref           int
	Default       bool // use the default-pad wrapper (WriteFixedString, ReadFixedStringList, ...) when pad=' ' right
}

func b01(b bool) string {
	if b {
		return "1"
	}
	return "0"
}

func (p primSpec) text() string {
	switch p.Kind {
	case "basic":
		return fmt.Sprintf("PB:%s:%s", b01(p.Le), p.Ity)
	case "fixed":
		return fmt.Sprintf("PF:%d:%d:%s", p.N, p.Pad, b01(p.Left))
	case "string":
		return fmt.Sprintf("PS:%s:%s", b01(p.Le), p.Len)
	case "basiclist":
		return fmt.Sprintf("PBL:%s:%s:%s", b01(p.Le), p.Cnt, p.Ity)
	case "fixedlist":
		return fmt.Sprintf("PFL:%s:%s:%d:%d:%s", b01(p.Le), p.Cnt, p.N, p.Pad, b01(p.Left))
	case "stringlist":
		return fmt.Sprintf("PSL:%s:%s:%s", b01(p.Le), p.Cnt, p.Len)
	case "objlist":
		return fmt.Sprintf("POL:%s:%s:%d", b01(p.Le), p.Cnt, p.Ref)
	}
	panic("prim kind " + p.Kind)
}

func fromBits[K codec.BasicType](b uint64) K {
	var k K
	switch p := any(&k).(type) {
	case *int8:
		*p = int8(b)
	case *int16:
		*p = int16(b)
	case *int32:
		*p = int32(b)
	case *int64:
		*p = int64(b)
	case *uint8:
		*p = uint8(b)
	case *uint16:
		*p = uint16(b)
	case *uint32:
		*p = uint32(b)
	case *uint64:
		*p = b
	case *float32:
		*p = math.Float32frombits(uint32(b))
	case *float64:
		*p = math.Float64frombits(b)
	default:
		panic("fromBits")
	}
	return k
}

func toBits[K codec.BasicType](k K) uint64 {
	switch p := any(&k).(type) {
	case *int8:
		return uint64(uint8(*p))
	case *int16:
		return uint64(uint16(*p))
	case *int32:
		return uint64(uint32(*p))
	case *int64:
		return uint64(*p)
	case *uint8:
		return uint64(*p)
	case *uint16:
		return uint64(*p)
	case *uint32:
		return uint64(*p)
	case *uint64:
		return *p
	case *float32:
		return uint64(math.Float32bits(*p))
	case *float64:
		return math.Float64bits(*p)
	}
	panic("toBits")
}

// ---- scalars ----
func wBasicT[K codec.BasicType](le bool, b uint64, buf *bytes.Buffer) error {
	if le {
		return codec.WriteBasicTypeLE(buf, fromBits[K](b))
	}
	return codec.WriteBasicType(buf, fromBits[K](b))
}
func rBasicT[K codec.BasicType](le bool, buf *bytes.Buffer) (uint64, error) {
	if le {
		v, err := codec.ReadBasicTypeLE[K](buf)
		return toBits(v), err
	}
	v, err := codec.ReadBasicType[K](buf)
	return toBits(v), err
}
func wBasic(le bool, ity string, b uint64, buf *bytes.Buffer) error {
	switch ity {
	case "I8":
		return wBasicT[int8](le, b, buf)
	case "I16":
		return wBasicT[int16](le, b, buf)
	case "I32":
		return wBasicT[int32](le, b, buf)
	case "I64":
		return wBasicT[int64](le, b, buf)
	case "U8":
		return wBasicT[uint8](le, b, buf)
	case "U16":
		return wBasicT[uint16](le, b, buf)
	case "U32":
		return wBasicT[uint32](le, b, buf)
	case "U64":
		return wBasicT[uint64](le, b, buf)
	case "F32":
		return wBasicT[float32](le, b, buf)
	case "F64":
		return wBasicT[float64](le, b, buf)
	}
	panic("ity " + ity)
}
func rBasic(le bool, ity string, buf *bytes.Buffer) (uint64, error) {
	switch ity {
	case "I8":
		return rBasicT[int8](le, buf)
	case "I16":
		return rBasicT[int16](le, buf)
	case "I32":
		return rBasicT[int32](le, buf)
	case "I64":
		return rBasicT[int64](le, buf)
	case "U8":
		return rBasicT[uint8](le, buf)
	case "U16":
		return rBasicT[uint16](le, buf)
	case "U32":
		return rBasicT[uint32](le, buf)
	case "U64":
		return rBasicT[uint64](le, buf)
	case "F32":
		return rBasicT[float32](le, buf)
	case "F64":
		return rBasicT[float64](le, buf)
	}
	panic("ity " + ity)
}

// ---- scalar lists ----
func wBasicListCK[T constraints.Unsigned, K codec.BasicType](le bool, vals []uint64, buf *bytes.Buffer) error {
	var l []K
	if vals != nil {
		l = make([]K, len(vals))
		for i, v := range vals {
			l[i] = fromBits[K](v)
		}
	}
	if le {
		return codec.WriteBasicTypeListLE[T](buf, l)
	}
	return codec.WriteBasicTypeList[T](buf, l)
}
func rBasicListCK[T constraints.Unsigned, K codec.BasicType](le bool, buf *bytes.Buffer) ([]uint64, error) {
	var l []K
	var err error
	if le {
		l, err = codec.ReadBasicTypeListLE[T, K](buf)
	} else {
		l, err = codec.ReadBasicTypeList[T, K](buf)
	}
	out := make([]uint64, len(l))
	for i, v := range l {
		out[i] = toBits(v)
	}
	return out, err
}
func wBasicListC[T constraints.Unsigned](le bool, elt string, vals []uint64, buf *bytes.Buffer) error {
	switch elt {
	case "I8":
		return wBasicListCK[T, int8](le, vals, buf)
	case "I16":
		return wBasicListCK[T, int16](le, vals, buf)
	case "I32":
		return wBasicListCK[T, int32](le, vals, buf)
	case "I64":
		return wBasicListCK[T, int64](le, vals, buf)
	case "U8":
		return wBasicListCK[T, uint8](le, vals, buf)
	case "U16":
		return wBasicListCK[T, uint16](le, vals, buf)
	case "U32":
		return wBasicListCK[T, uint32](le, vals, buf)
	case "U64":
		return wBasicListCK[T, uint64](le, vals, buf)
	case "F32":
		return wBasicListCK[T, float32](le, vals, buf)
	case "F64":
		return wBasicListCK[T, float64](le, vals, buf)
	}
	panic("ity " + elt)
}
func rBasicListC[T constraints.Unsigned](le bool, elt string, buf *bytes.Buffer) ([]uint64, error) {
	switch elt {
	case "I8":
		return rBasicListCK[T, int8](le, buf)
	case "I16":
		return rBasicListCK[T, int16](le, buf)
	case "I32":
		return rBasicListCK[T, int32](le, buf)
	case "I64":
		return rBasicListCK[T, int64](le, buf)
	case "U8":
		return rBasicListCK[T, uint8](le, buf)
	case "U16":
		return rBasicListCK[T, uint16](le, buf)
	case "U32":
		return rBasicListCK[T, uint32](le, buf)
	case "U64":
		return rBasicListCK[T, uint64](le, buf)
	case "F32":
		return rBasicListCK[T, float32](le, buf)
	case "F64":
		return rBasicListCK[T, float64](le, buf)
	}
	panic("ity " + elt)
}
func wBasicList(le bool, cnt, elt string, vals []uint64, buf *bytes.Buffer) error {
	switch cnt {
	case "U8":
		return wBasicListC[uint8](le, elt, vals, buf)
	case "U16":
		return wBasicListC[uint16](le, elt, vals, buf)
	case "U32":
		return wBasicListC[uint32](le, elt, vals, buf)
	case "U64":
		return wBasicListC[uint64](le, elt, vals, buf)
	}
	panic("cnt " + cnt)
}
func rBasicList(le bool, cnt, elt string, buf *bytes.Buffer) ([]uint64, error) {
	switch cnt {
	case "U8":
		return rBasicListC[uint8](le, elt, buf)
	case "U16":
		return rBasicListC[uint16](le, elt, buf)
	case "U32":
		return rBasicListC[uint32](le, elt, buf)
	case "U64":
		return rBasicListC[uint64](le, elt, buf)
	}
	panic("cnt " + cnt)
}

// ---- prefixed text ----
func wStringT[T constraints.Unsigned](le bool, s string, buf *bytes.Buffer) error {
	if le {
		return codec.WriteStringLE[T](buf, s)
	}
	return codec.WriteString[T](buf, s)
}
func rStringT[T constraints.Unsigned](le bool, buf *bytes.Buffer) (string, error) {
	if le {
		return codec.ReadStringLE[T](buf)
	}
	return codec.ReadString[T](buf)
}
func wString(le bool, l string, s string, buf *bytes.Buffer) error {
	switch l {
	case "U8":
		return wStringT[uint8](le, s, buf)
	case "U16":
		return wStringT[uint16](le, s, buf)
	case "U32":
		return wStringT[uint32](le, s, buf)
	case "U64":
		return wStringT[uint64](le, s, buf)
	}
	panic("len " + l)
}
func rString(le bool, l string, buf *bytes.Buffer) (string, error) {
	switch l {
	case "U8":
		return rStringT[uint8](le, buf)
	case "U16":
		return rStringT[uint16](le, buf)
	case "U32":
		return rStringT[uint32](le, buf)
	case "U64":
		return rStringT[uint64](le, buf)
	}
	panic("len " + l)
}

// ---- fixed text ----
func wFixed(p primSpec, s string, buf *bytes.Buffer) error {
	if p.Default && p.Pad == 32 && !p.Left {
		return codec.WriteFixedString(buf, s, p.N)
	}
	return codec.WriteFixedStringWithPadding(buf, s, p.N, rune(p.Pad), p.Left)
}
func rFixed(p primSpec, buf *bytes.Buffer) (string, error) {
	if p.Default && p.Pad == 32 && !p.Left {
		return codec.ReadFixedString(buf, p.N)
	}
	return codec.ReadFixedStringTrimPadding(buf, p.N, rune(p.Pad), p.Left)
}

func wFixedListT[T constraints.Unsigned](p primSpec, l []string, buf *bytes.Buffer) error {
	def := p.Default && p.Pad == 32 && !p.Left
	switch {
	case p.Le && def:
		return codec.WriteFixedStringListLE[T](buf, l, p.N)
	case p.Le:
		return codec.WriteFixedStringListWithPaddingLE[T](buf, l, p.N, rune(p.Pad), p.Left)
	case def:
		return codec.WriteFixedStringList[T](buf, l, p.N)
	}
	return codec.WriteFixedStringListWithPadding[T](buf, l, p.N, rune(p.Pad), p.Left)
}
func rFixedListT[T constraints.Unsigned](p primSpec, buf *bytes.Buffer) ([]string, error) {
	def := p.Default && p.Pad == 32 && !p.Left
	switch {
	case p.Le && def:
		return codec.ReadFixedStringListLE[T](buf, p.N)
	case p.Le:
		return codec.ReadFixedStringListTrimPaddingLE[T](buf, p.N, rune(p.Pad), p.Left)
	case def:
		return codec.ReadFixedStringList[T](buf, p.N)
	}
	return codec.ReadFixedStringListTrimPadding[T](buf, p.N, rune(p.Pad), p.Left)
}
func wFixedList(p primSpec, l []string, buf *bytes.Buffer) error {
	switch p.Cnt {
	case "U8":
		return wFixedListT[uint8](p, l, buf)
	case "U16":
		return wFixedListT[uint16](p, l, buf)
	case "U32":
		return wFixedListT[uint32](p, l, buf)
	case "U64":
		return wFixedListT[uint64](p, l, buf)
	}
	panic("cnt " + p.Cnt)
}
func rFixedList(p primSpec, buf *bytes.Buffer) ([]string, error) {
	switch p.Cnt {
	case "U8":
		return rFixedListT[uint8](p, buf)
	case "U16":
		return rFixedListT[uint16](p, buf)
	case "U32":
		return rFixedListT[uint32](p, buf)
	case "U64":
		return rFixedListT[uint64](p, buf)
	}
	panic("cnt " + p.Cnt)
}

// ---- prefixed text lists ----
func wStringListTK[T constraints.Unsigned, K constraints.Unsigned](le bool, l []string, buf *bytes.Buffer) error {
	if le {
		return codec.WriteStringListLE[T, K](buf, l)
	}
	return codec.WriteStringList[T, K](buf, l)
}
func rStringListTK[T constraints.Unsigned, K constraints.Unsigned](le bool, buf *bytes.Buffer) ([]string, error) {
	if le {
		return codec.ReadStringListLE[T, K](buf)
	}
	return codec.ReadStringList[T, K](buf)
}
func wStringListT[T constraints.Unsigned](le bool, k string, l []string, buf *bytes.Buffer) error {
	switch k {
	case "U8":
		return wStringListTK[T, uint8](le, l, buf)
	case "U16":
		return wStringListTK[T, uint16](le, l, buf)
	case "U32":
		return wStringListTK[T, uint32](le, l, buf)
	case "U64":
		return wStringListTK[T, uint64](le, l, buf)
	}
	panic("len " + k)
}
func rStringListT[T constraints.Unsigned](le bool, k string, buf *bytes.Buffer) ([]string, error) {
	switch k {
	case "U8":
		return rStringListTK[T, uint8](le, buf)
	case "U16":
		return rStringListTK[T, uint16](le, buf)
	case "U32":
		return rStringListTK[T, uint32](le, buf)
	case "U64":
		return rStringListTK[T, uint64](le, buf)
	}
	panic("len " + k)
}
func wStringList(le bool, c, k string, l []string, buf *bytes.Buffer) error {
	switch c {
	case "U8":
		return wStringListT[uint8](le, k, l, buf)
	case "U16":
		return wStringListT[uint16](le, k, l, buf)
	case "U32":
		return wStringListT[uint32](le, k, l, buf)
	case "U64":
		return wStringListT[uint64](le, k, l, buf)
	}
	panic("cnt " + c)
}
func rStringList(le bool, c, k string, buf *bytes.Buffer) ([]string, error) {
	switch c {
	case "U8":
		return rStringListT[uint8](le, k, buf)
	case "U16":
		return rStringListT[uint16](le, k, buf)
	case "U32":
		return rStringListT[uint32](le, k, buf)
	case "U64":
		return rStringListT[uint64](le, k, buf)
	}
	panic("cnt " + c)
}

// ---- uniform entry points ----
// val: uint64 | string | []uint64 | []string
func writePrim(p primSpec, val any, buf *bytes.Buffer) error {
	switch p.Kind {
	case "basic":
		return wBasic(p.Le, p.Ity, val.(uint64), buf)
	case "fixed":
		return wFixed(p, val.(string), buf)
	case "string":
		return wString(p.Le, p.Len, val.(string), buf)
	case "basiclist":
		return wBasicList(p.Le, p.Cnt, p.Ity, val.([]uint64), buf)
	case "fixedlist":
		return wFixedList(p, val.([]string), buf)
	case "stringlist":
		return wStringList(p.Le, p.Cnt, p.Len, val.([]string), buf)
	}
	panic("writePrim " + p.Kind)
}

func readPrim(p primSpec, buf *bytes.Buffer) (any, error) {
	switch p.Kind {
	case "basic":
		return rBasic(p.Le, p.Ity, buf)
	case "fixed":
		return rFixed(p, buf)
	case "string":
		return rString(p.Le, p.Len, buf)
	case "basiclist":
		return rBasicList(p.Le, p.Cnt, p.Ity, buf)
	case "fixedlist":
		return rFixedList(p, buf)
	case "stringlist":
		return rStringList(p.Le, p.Cnt, p.Len, buf)
	}
	panic("readPrim " + p.Kind)
}

func primValText(v any) string {
	switch x := v.(type) {
	case uint64:
		return fmt.Sprintf("i%x", x)
	case string:
		return fmt.Sprintf("s%x", x)
	case []uint64:
		s := "I("
		for _, e := range x {
			s += fmt.Sprintf("%x;", e)
		}
		return s + ")"
	case []string:
		s := "S("
		for _, e := range x {
			s += fmt.Sprintf("%x;", e)
		}
		return s + ")"
	}
	panic("primValText")
}
