(* Spec/LRender.v — an independent renderer of the pinned layout: what the bytes of a complete message value are,
   said without reference to the message programs or to the schemas recognised from them.
   Input: the message as it is after Encode (every part that gets encoded is present).  A layout has no order
   slot; [le] is the protocol's order.  The computed frame fields are NOT read from the value: the length is
   counted from the body's bytes and the checksum computed over the frame's bytes. *)
From FP.Spec Require Export Layout.
Local Open Scope N_scope.

Section LR.
  Variable reg : registry.
  Variable le : bool.
  Variable lrec : N -> list value -> res (list byte).     (* nested types: the rest of the layout list *)

  Fixpoint lr_objs (l : list value) : res (list byte) :=
    match l with
    | [] => Ok []
    | VObj t fs :: r => do a <- lrec t fs; do b <- lr_objs r; Ok (a ++ b)
    | _ :: _ => Fail FUnmodelled
    end.

  (* a nested part, a selected body or an extension: absent parts occupy no bytes (only where the layout allows
     them to be absent), present ones are laid out as their own type says *)
  Definition lr_part (nm : nilmode) (v : value) : res (list byte) :=
    match v with
    | VObj t fs => lrec t fs
    | VNil => match nm with NilSkip => Ok [] | _ => Fail FUnmodelled end
    | _ => Fail FUnmodelled
    end.

  Definition lr_kind (k : lkind) (v : value) : res (list byte) :=
    match k with
    | LInt t => w_prim (PBasic le t) v
    | LFixed n pad lf => w_prim (PFixed n pad lf) v
    | LText len => w_prim (PString le len) v
    | LInts cnt elt => w_prim (PBasicList le cnt elt) v
    | LFixeds cnt n pad lf => w_prim (PFixedList le cnt n pad lf) v
    | LTexts cnt len => w_prim (PStringList le cnt len) v
    | LObjs cnt _ =>
        match v with
        | VObjs l => do n <- length_prefix cnt (lenN l); do bs <- lr_objs l; Ok (int_bytes (ord le) (width cnt) n ++ bs)
        | _ => Fail FUnmodelled
        end
    | LObj _ _ nm => lr_part nm v
    | LSel _ _ nm => lr_part nm v
    | LLen | LSum _ _ => Fail FUnmodelled          (* only meaningful inside a frame: see lr_fields *)
    end.

  (* fields left to right; [acc] = the bytes of this message laid out so far *)
  Fixpoint lr_fields (acc : list byte) (ks : list lkind) (vs : list value) : res (list byte) :=
    match ks, vs with
    | [], _ => Ok []
    | LLen :: body :: ks', _ :: bv :: vs' =>
        (* the four bytes before the body hold the number of bytes of the body *)
        do bb <- lr_kind body bv;
        let out := int_bytes (ord le) 4 (lenN bb mod 4294967296) ++ bb in
        do rest <- lr_fields (acc ++ out) ks' vs';
        Ok (out ++ rest)
    | LSum name rt :: ks', _ :: vs' =>
        (* the checksum of everything laid out so far, by the named algorithm *)
        match reg_get reg name with
        | Some sv =>
            do tb <- w_prim (PBasic le rt) (VInt (calc (sv_alg sv) acc));
            do rest <- lr_fields (acc ++ tb) ks' vs';
            Ok (tb ++ rest)
        | None => Fail FUnmodelled
        end
    | k :: ks', v :: vs' =>
        do a <- lr_kind k v;
        do rest <- lr_fields (acc ++ a) ks' vs';
        Ok (a ++ rest)
    | _ :: _, [] => Fail FUnmodelled
    end.
End LR.

Fixpoint lrender (reg : registry) (order_of : N -> bool) (lts : list ltype) (t : N) (fs : list value) : res (list byte) :=
  match lts with
  | [] => Fail FUnmodelled
  | lt :: rest =>
      if lt_id lt =? t
      then lr_fields reg (order_of (lt_proto lt)) (lrender reg order_of rest) [] (lt_fields lt) fs
      else lrender reg order_of rest t fs
  end.
