(* Theory/RoundTrip.v — Encode then Decode returns the same message, with arbitrary trailing bytes left
   untouched (C01, C07), at the level of schemas; carried to the programs by the refinement theorems. *)
From FP.Theory Require Export PrimRT Select EncSafe.
From Coq Require Import ZifyBool ZifyNat ZifyN.
Local Open Scope N_scope.

Section RT.
  Variable tables : list (N * table).
  Variable reg : registry.
  Variable senc : N -> list value -> res (list value * list byte).
  Variable sdec : N -> list byte -> res (list value * list byte).
  Variable zero_rec : N -> option (list value).
  Variable ms : N -> N.
  Variable canon_rec : N -> list value -> Prop.
  Hypothesis Hrt : forall t fs fs' b, canon_rec t fs -> senc t fs = Ok (fs', b) -> forall rest, sdec t (b ++ rest) = Ok (fs', rest).
  Hypothesis Hcons : forall t buf fs r, sdec t buf = Ok (fs, r) -> exists pre, buf = pre ++ r /\ ms t <= lenN pre.

  Lemma senc_size t fs fs' b : canon_rec t fs -> senc t fs = Ok (fs', b) -> ms t <= lenN b.
  Proof.
    intros Hc He. pose proof (Hrt t fs fs' b Hc He []) as Hd. destruct (Hcons _ _ _ _ Hd) as [pre [Hp Hm]].
    rewrite !app_nil_r in Hp. subst. exact Hm.
  Qed.

  (* the canonical domain of one field, given the fields before it (as they are after Encode) *)
  Definition canon_obj (t : N) (v : value) : Prop := exists fs, v = VObj t fs /\ canon_rec t fs.
  Definition canon_kind (done : list value) (k : kind) (v : value) : Prop :=
    match k with
    | KPrim p _ => canon_prim p v
    | KObjs _ _ t => exists l, v = VObjs l /\ Forall (canon_obj t) l
    | KCall _ _ _ (DPtr t) | KCall _ _ _ (DVal t) => canon_obj t v
    | KCall _ _ _ (DSel tbl key) =>
        exists kv ty, nth_error done key = Some kv /\ selected tables tbl kv = Some ty /\ canon_obj ty v
    end.

  Definition rt_kind_ok (k : kind) : bool :=
    match k with
    | KPrim p _ => prim_dec_ok p
    | KObjs _ cnt t => small cnt && (tiny cnt || (0 <? ms t))
    | KCall _ _ _ _ => true
    end.

  Lemma selected_slookup tbl kv ty : selected tables tbl kv = Some ty -> slookup tables tbl kv = Ok ty.
  Proof.
    unfold selected, slookup. destruct kv; try discriminate; cbn [key_of_value bind];
      destruct (find_table tables tbl) as [t|]; try discriminate; intro H; rewrite H; reflexivity.
  Qed.

  Lemma render_objs_as_wr tid l :
    render_objs senc tid l =
    wr_each (fun x => match x with
                      | VObj t fs => if t =? tid then match senc t fs with Ok (fs', b) => Ok (VObj t fs', b) | Fail f => Fail f end else Fail FUnmodelled
                      | VNil => Fail FPanic
                      | _ => Fail FUnmodelled end) l.
  Proof.
    induction l as [|x l IH]; [reflexivity|]. cbn [render_objs wr_each].
    destruct x; try reflexivity. destruct (t =? tid); [|reflexivity].
    destruct (senc t fs) as [[fs' b]|]; cbn [bind]; [|reflexivity]. rewrite IH. reflexivity.
  Qed.

  Lemma kind_rt done k v v' b rest :
    rt_kind_ok k = true -> canon_kind done k v ->
    render_kind tables senc zero_rec done k v = Ok (v', b) ->
    parse_kind tables sdec done k (b ++ rest) = Ok (v', rest).
  Proof.
    intros Hk Hc Hr. destruct k as [p prop|le cnt t|f g prop d]; cbn [rt_kind_ok canon_kind render_kind parse_kind] in *.
    - destruct (w_prim p v) as [bs|ff] eqn:E; [|destruct ff; try discriminate; destruct prop; discriminate].
      inversion Hr; subst. eapply prim_rt; eassumption.
    - destruct Hc as [l [-> Hall]].
      destruct (length_prefix cnt (lenN l)) as [n|] eqn:El; cbn [bind] in Hr; [|discriminate].
      unfold length_prefix in El. destruct (N.ltb_spec (lenN l) (bound cnt)) as [Hl|]; [|discriminate]. inversion El; subst n.
      rewrite render_objs_as_wr in Hr.
      match type of Hr with context [wr_each ?w l] => set (wr := w) in * end.
      destruct (wr_each wr l) as [[l' body]|] eqn:Ew; cbn [bind] in Hr; [|discriminate]. inversion Hr; subst.
      apply andb_true_iff in Hk. destruct Hk as [Hs Hnz].
      rewrite (read_list_rt wr (parse_obj sdec t) le cnt l l' body rest Hs Hl); [reflexivity| | |exact Ew].
      + apply orb_true_iff in Hnz. destruct Hnz as [Ht|Hz]; [left; exact Ht|right].
        intros x x' b Hin E. rewrite Forall_forall in Hall. destruct (Hall x Hin) as [fs [-> Hcf]].
        unfold wr in E. rewrite N.eqb_refl in E. destruct (senc t fs) as [[fs' b0]|] eqn:Es; [|discriminate]. inversion E; subst.
        pose proof (senc_size _ _ _ _ Hcf Es). apply N.ltb_lt in Hz. lia.
      + intros x x' b Hin E rest'. rewrite Forall_forall in Hall. destruct (Hall x Hin) as [fs [-> Hcf]].
        unfold wr in E. rewrite N.eqb_refl in E. destruct (senc t fs) as [[fs' b0]|] eqn:Es; [|discriminate]. inversion E; subst.
        unfold parse_obj. rewrite (Hrt _ _ _ _ Hcf Es). reflexivity.
    - (* nested object / selected body: the value is present, so nothing is filled in *)
      assert (Hobj : forall t, canon_obj t v -> parse_obj sdec t (b ++ rest) = Ok (v', rest)).
      { intros t [fs [-> Hcf]].
        assert (Hf : apply_fill tables zero_rec done f (VObj t fs) = Ok (VObj t fs)) by (destruct f; reflexivity).
        rewrite Hf in Hr. cbn [bind render_call] in Hr.
        destruct (senc t fs) as [[fs' b0]|ff] eqn:Es; [|destruct ff; try discriminate; destruct prop; discriminate].
        inversion Hr; subst. unfold parse_obj. rewrite (Hrt _ _ _ _ Hcf Es). reflexivity. }
      destruct d as [t|t|tbl key].
      + apply Hobj. exact Hc.
      + apply Hobj. exact Hc.
      + destruct Hc as [kv [ty [Hkv [Hsel Hco]]]]. unfold get_field. rewrite Hkv. cbn [bind].
        rewrite (selected_slookup _ _ _ Hsel). cbn [bind]. apply Hobj. exact Hco.
  Qed.

  (* canonical fields: each field in the context of the (already encoded) fields before it *)
  Fixpoint canon_fields (done : list value) (ks : list kind) (vs : list value) : Prop :=
    match ks, vs with
    | [], [] => True
    | k :: ks', v :: vs' =>
        canon_kind done k v /\
        match render_kind tables senc zero_rec done k v with
        | Ok (v', _) => canon_fields (done ++ [v']) ks' vs'
        | Fail _ => True
        end
    | _, _ => False
    end.

  Lemma fields_rt ks : forall done vs vs' bs rest,
    forallb rt_kind_ok ks = true -> canon_fields done ks vs ->
    render_fields tables senc zero_rec done ks vs = Ok (vs', bs) ->
    parse_fields tables sdec done ks (bs ++ rest) = Ok (vs', rest).
  Proof.
    induction ks as [|k ks IH]; intros done vs vs' bs rest Hk Hc Hr.
    - destruct vs; [|destruct Hc]. cbn [render_fields] in Hr. inversion Hr; subst. reflexivity.
    - destruct vs as [|v vs]; [destruct Hc|]. cbn [canon_fields render_fields parse_fields forallb] in *.
      apply andb_true_iff in Hk. destruct Hk as [Hk1 Hk2]. destruct Hc as [Hc1 Hc2].
      destruct (render_kind tables senc zero_rec done k v) as [[v1 b1]|] eqn:E1; cbn [bind] in Hr; [|discriminate].
      destruct (render_fields tables senc zero_rec (done ++ [v1]) ks vs) as [[r b2]|] eqn:E2; cbn [bind] in Hr; [|discriminate].
      inversion Hr; subst. rewrite <- app_assoc.
      rewrite (kind_rt done k v v1 b1 (b2 ++ rest) Hk1 Hc1 E1). cbn [bind].
      rewrite (IH _ _ _ _ rest Hk2 Hc2 E2). reflexivity.
  Qed.

  Lemma parse_fields_app a : forall done b buf,
    parse_fields tables sdec done (a ++ b) buf =
    (do '(va, r) <- parse_fields tables sdec done a buf;
     do '(vb, r') <- parse_fields tables sdec (done ++ va) b r; Ok (va ++ vb, r')).
  Proof.
    induction a as [|k a IH]; intros done b buf; cbn [app parse_fields bind].
    - rewrite app_nil_r. destruct (parse_fields tables sdec done b buf) as [[vb r']|]; reflexivity.
    - destruct (parse_kind tables sdec done k buf) as [[v r]|]; cbn [bind]; [|reflexivity].
      rewrite IH. destruct (parse_fields tables sdec (done ++ [v]) a r) as [[va r1]|]; cbn [bind]; [|reflexivity].
      rewrite <- app_assoc. cbn [app].
      destruct (parse_fields tables sdec (done ++ v :: va) b r1) as [[vb r2]|]; reflexivity.
  Qed.

  (* ---- frames ---- *)
  (* checksum values fit their field (so that they read back unchanged) *)
  Hypothesis Hcalc : forall name sv bs, reg_get reg name = Some sv -> calc (sv_alg sv) bs < bound (sv_rt sv).

  Definition canon_frame (hdr : list kind) (tbl : N) (key : nat) (sum : option sumspec) (fs : list value) : Prop :=
    let h := length hdr in
    canon_fields [] hdr (firstn h fs) /\
    match skipn h fs with
    | VInt _ :: body :: tl =>
        (exists kv ty, nth_error fs key = Some kv /\ selected tables tbl kv = Some ty /\ canon_obj ty body) /\
        match sum, tl with
        | None, [] => True
        | Some s, [VInt old] => old < bound (ss_rt s)
        | _, _ => False
        end
    | _ => False
    end.

  Lemma hdr_values_unchanged hdr : forall done vs hv hb,
    forallb is_hdr_kind hdr = true -> render_fields tables senc zero_rec done hdr vs = Ok (hv, hb) -> length vs = length hdr -> hv = vs.
  Proof.
    induction hdr as [|k hdr IH]; intros done vs hv hb Hk H Hl; cbn [render_fields] in H.
    - inversion H. reflexivity.
    - destruct vs as [|v vs]; [discriminate|]. cbn [forallb] in Hk. apply andb_true_iff in Hk. destruct Hk as [Hk1 Hk2].
      destruct k as [p prop| |]; try discriminate. cbn [render_kind] in H.
      destruct (w_prim p v) as [b|ff]; [|destruct ff; try discriminate; destruct prop; discriminate]. cbn [bind] in H.
      destruct (render_fields tables senc zero_rec (done ++ [v]) hdr vs) as [[r b2]|] eqn:E; cbn [bind] in H; [|discriminate].
      inversion H; subst. f_equal. eapply IH; try eassumption. cbn in Hl. lia.
  Qed.

  Theorem frame_rt hdr le tbl key sum fs fs' bs rest :
    forallb is_hdr_kind hdr = true -> (key < length hdr)%nat ->
    (match sum with Some s => match reg_get reg (ss_name s) with Some sv => ity_eqb (sv_rt sv) (ss_rt s) | None => true end | None => true end = true) ->
    canon_frame hdr tbl key sum fs ->
    render_frame tables reg senc zero_rec hdr le sum fs = Ok (fs', bs) ->
    parse_fields tables sdec [] (frame_kinds hdr le tbl key sum) (bs ++ rest) = Ok (fs', rest).
  Proof.
    intros Hh Hkey Hreg [Hch Hc] Hr. unfold render_frame in Hr.
    destruct (render_fields tables senc zero_rec [] hdr (firstn (length hdr) fs)) as [[hv hb]|] eqn:Eh; cbn [bind] in Hr; [|discriminate].
    destruct (skipn (length hdr) fs) as [|lenv [|body tl]] eqn:Esk; try (destruct Hc; fail); try (destruct lenv; destruct Hc; fail).
    destruct lenv; try (destruct Hc; fail). destruct Hc as [[kv [ty [Hkv [Hsel Hco]]]] Hsum].
    assert (Hfl : length (firstn (length hdr) fs) = length hdr).
    { apply firstn_length_le. assert (length (skipn (length hdr) fs) >= 2)%nat by (rewrite Esk; cbn; lia). rewrite skipn_length in H. lia. }
    pose proof (hdr_values_unchanged hdr [] _ hv hb Hh Eh Hfl) as Hhv. subst hv.
    assert (Hhk : forallb rt_kind_ok hdr = true).
    { clear - Hh. induction hdr as [|k hdr IH]; [reflexivity|]. cbn [forallb] in *. apply andb_true_iff in Hh. destruct Hh as [A B].
      rewrite (IH B), andb_true_r. destruct k as [p pr| |]; try discriminate. destruct p; try discriminate. reflexivity. }
    destruct Hco as [bfs [-> Hcb]]. cbn [render_call] in Hr.
    destruct (senc ty bfs) as [[bfs' bb]|ff] eqn:Eb; [|destruct ff; discriminate]. cbn [bind] in Hr.
    set (L := u32_of_len (lenN bb)) in *.
    assert (HL : L < bound U32) by (unfold L, u32_of_len, bound, pow256; cbn; apply N.mod_lt; lia).
    (* the discriminator is a header field: the same value before and after *)
    assert (Hkv' : nth_error (firstn (length hdr) fs) key = Some kv) by (rewrite nth_error_firstn_lt by exact Hkey; exact Hkv).
    unfold frame_kinds. rewrite parse_fields_app.
    assert (Hparse_tail : forall tb c tlv,
      (match sum with None => tb = [] /\ tlv = [] | Some s => tb = write_basic (ss_le s) (ss_rt s) c /\ tlv = [VInt c] /\ c < bound (ss_rt s) end) ->
      parse_fields tables sdec ([] ++ firstn (length hdr) fs)
        (KPrim (PBasic le U32) true :: KCall FNone GIfNotNil true (DSel tbl key)
          :: match sum with None => [] | Some s => [KPrim (PBasic (ss_le s) (ss_rt s)) true] end)
        ((int_bytes (ord le) 4 L ++ bb ++ tb) ++ rest) = Ok (VInt L :: VObj ty bfs' :: tlv, rest)).
    { intros tb c tlv Ht. cbn [app parse_fields parse_kind r_prim].
      rewrite <- app_assoc. change 4%nat with (width U32). rewrite read_prefix_rt by exact HL. cbn [bind].
      unfold get_field. rewrite nth_error_app1 by (rewrite Hfl; exact Hkey). rewrite Hkv'. cbn [bind].
      rewrite (selected_slookup _ _ _ Hsel). cbn [bind]. unfold parse_obj. rewrite <- app_assoc.
      rewrite (Hrt _ _ _ _ Hcb Eb). cbn [bind].
      destruct sum as [s|].
      - destruct Ht as [-> [-> Hcb']]. cbn [parse_fields parse_kind r_prim]. rewrite read_basic_rt by exact Hcb'. reflexivity.
      - destruct Ht as [-> ->]. reflexivity. }
    destruct sum as [s|].
    - destruct tl as [|oldv tl2]; [destruct Hsum|]. destruct oldv; try (destruct Hsum; fail). destruct tl2; [|destruct Hsum].
      set (fr := hb ++ int_bytes (ord le) 4 L ++ bb) in *.
      assert (Hc : exists c, (match reg_get reg (ss_name s) with
                              | Some sv => if ity_eqb (sv_rt sv) (ss_rt s) then Ok (VInt (calc (sv_alg sv) fr)) else Fail FPanic
                              | None => Ok (VInt n0) end) = Ok (VInt c) /\ c < bound (ss_rt s)).
      { destruct (reg_get reg (ss_name s)) as [sv|] eqn:Er.
        - rewrite Hreg. eexists. split; [reflexivity|]. destruct (ity_eqb_spec (sv_rt sv) (ss_rt s)) as [<-|]; [|discriminate].
          eapply Hcalc. exact Er.
        - exists n0. split; [reflexivity|exact Hsum]. }
      destruct Hc as [c [Hc Hcb']]. rewrite Hc in Hr. cbn [bind w_prim] in Hr. inversion Hr; subst. subst fr.
      rewrite <- !app_assoc.
      rewrite (fields_rt hdr [] _ _ hb _ Hhk Hch Eh). cbn [bind].
      rewrite (app_assoc (int_bytes (ord le) 4 L)), (app_assoc (int_bytes (ord le) 4 L ++ bb)).
      rewrite <- (app_assoc (int_bytes (ord le) 4 L) bb).
      rewrite (Hparse_tail (write_basic (ss_le s) (ss_rt s) c) c [VInt c]) by (repeat split; assumption).
      cbn [bind]. reflexivity.
    - destruct tl; [|destruct Hsum]. inversion Hr; subst.
      rewrite <- !app_assoc.
      rewrite (fields_rt hdr [] _ _ hb _ Hhk Hch Eh). cbn [bind].
      pose proof (Hparse_tail [] 0 [] (conj eq_refl eq_refl)) as Ht. rewrite app_nil_r in Ht.
      rewrite (app_assoc (int_bytes (ord le) 4 L)). rewrite Ht. cbn [bind]. reflexivity.
  Qed.
End RT.

(* ---------------- the whole environment ---------------- *)
Definition sum_reg_ok (reg : registry) (sum : option sumspec) : bool :=
  match sum with
  | Some s => match reg_get reg (ss_name s) with Some sv => ity_eqb (sv_rt sv) (ss_rt s) | None => true end
  | None => true
  end.

Definition rt_schema_ok (reg : registry) (ms : N -> N) (s : schema) : bool :=
  match s with
  | SPlain ks => forallb (rt_kind_ok ms) ks
  | SFrame hdr _ _ key sum => forallb is_hdr_kind hdr && Nat.ltb key (length hdr) && sum_reg_ok reg sum
  end.

Fixpoint rt_env_ok (reg : registry) (ss : list sdef) : bool :=
  match ss with
  | [] => true
  | sd :: rest => rt_schema_ok reg (msize_env rest) (sd_schema sd) && rt_env_ok reg rest
  end.

Definition canon_schema (tables : list (N * table)) (senc : N -> list value -> res (list value * list byte))
           (zero_rec : N -> option (list value)) (canon_rec : N -> list value -> Prop) (s : schema) (fs : list value) : Prop :=
  match s with
  | SPlain ks => canon_fields tables senc zero_rec canon_rec [] ks fs
  | SFrame hdr _ tbl key sum => canon_frame tables senc zero_rec canon_rec hdr tbl key sum fs
  end.

(* the canonical domain of C01: a predicate on the message value, given the schema list *)
Fixpoint canon_env (tables : list (N * table)) (reg : registry) (ss : list sdef) (t : N) (fs : list value) : Prop :=
  match ss with
  | [] => False
  | sd :: rest =>
      if sd_id sd =? t
      then canon_schema tables (spec_enc_env tables reg rest) (szero_fields rest) (canon_env tables reg rest) (sd_schema sd) fs
      else canon_env tables reg rest t fs
  end.

Theorem spec_round_trip tables reg :
  (forall name sv bs, reg_get reg name = Some sv -> calc (sv_alg sv) bs < bound (sv_rt sv)) ->
  forall ss, rt_env_ok reg ss = true -> dec_safe_env tables ss = true ->
  forall t fs fs' bs, canon_env tables reg ss t fs -> spec_enc_env tables reg ss t fs = Ok (fs', bs) ->
  forall rest, spec_dec_env tables ss t (bs ++ rest) = Ok (fs', rest).
Proof.
  intros Hcalc. induction ss as [|sd ss' IH]; intros Hok Hds t fs fs' bs Hc He rest; [destruct Hc|].
  cbn [rt_env_ok dec_safe_env] in *. apply andb_true_iff in Hok. apply andb_true_iff in Hds.
  destruct Hok as [Hs Hok]. destruct Hds as [_ Hds].
  cbn [canon_env spec_enc_env spec_dec_env] in *.
  destruct (sd_id sd =? t); [|eapply IH; eassumption].
  assert (Hrt : forall t0 fs0 fs0' b, canon_env tables reg ss' t0 fs0 -> spec_enc_env tables reg ss' t0 fs0 = Ok (fs0', b) ->
                forall rest0, spec_dec_env tables ss' t0 (b ++ rest0) = Ok (fs0', rest0)).
  { intros. eapply IH; eassumption. }
  assert (Hcons : forall t0 buf fs0 r, spec_dec_env tables ss' t0 buf = Ok (fs0, r) -> exists pre, buf = pre ++ r /\ msize_env ss' t0 <= lenN pre).
  { intros. eapply dec_consume; eassumption. }
  destruct (sd_schema sd) as [ks|hdr le tbl key sum]; cbn [canon_schema spec_enc_schema spec_dec_schema rt_schema_ok] in *.
  - eapply fields_rt; try eassumption.
  - apply andb_true_iff in Hs. destruct Hs as [Hs Hreg]. apply andb_true_iff in Hs. destruct Hs as [Hh Hk].
    eapply frame_rt; try eassumption. apply Nat.ltb_lt. exact Hk.
Qed.

(* streams: messages encoded one after another decode back in order, leaving the buffer empty *)
Section Streams.
  Variable enc : N -> list value -> res (list value * list byte).
  Variable dec : N -> list byte -> res (list value * list byte).
  Variable canon : N -> list value -> Prop.
  Hypothesis Hrt : forall t fs fs' bs, canon t fs -> enc t fs = Ok (fs', bs) -> forall rest, dec t (bs ++ rest) = Ok (fs', rest).

  Fixpoint enc_stream (ms : list (N * list value)) : res (list (list value) * list byte) :=
    match ms with
    | [] => Ok ([], [])
    | (t, fs) :: r => do '(fs', bs) <- enc t fs; do '(rs, bs') <- enc_stream r; Ok (fs' :: rs, bs ++ bs')
    end.
  Fixpoint dec_stream (ts : list N) (buf : list byte) : res (list (list value) * list byte) :=
    match ts with
    | [] => Ok ([], buf)
    | t :: r => do '(fs, rest) <- dec t buf; do '(rs, rest') <- dec_stream r rest; Ok (fs :: rs, rest')
    end.

  Theorem stream_round_trip ms : forall outs bs tail,
    Forall (fun m => canon (fst m) (snd m)) ms -> enc_stream ms = Ok (outs, bs) ->
    dec_stream (map fst ms) (bs ++ tail) = Ok (outs, tail).
  Proof.
    induction ms as [|[t fs] ms IH]; intros outs bs tail Hc He; cbn [enc_stream dec_stream map fst] in *.
    - inversion He; subst. reflexivity.
    - inversion Hc as [|? ? Hc1 Hc2]; subst. cbn [fst snd] in Hc1.
      destruct (enc t fs) as [[fs' b1]|] eqn:E1; cbn [bind] in He; [|discriminate].
      destruct (enc_stream ms) as [[rs b2]|] eqn:E2; cbn [bind] in He; [|discriminate].
      inversion He; subst. rewrite <- app_assoc. rewrite (Hrt _ _ _ _ Hc1 E1). cbn [bind].
      rewrite (IH _ _ tail Hc2 eq_refl). reflexivity.
  Qed.
End Streams.

(* ---------------- a computable checker for the canonical domain ---------------- *)
Definition fixed_canonb (n : nat) (pad : N) (lf : bool) (s : list byte) : bool :=
  Nat.leb (length s) n &&
  match (if lf then s else rev s) with [] => true | y :: _ => negb (byte_eqb y (pad_byte pad)) end.

Lemma fixed_canonb_sound n pad lf s : fixed_canonb n pad lf s = true -> fixed_canon n pad lf s.
Proof.
  unfold fixed_canonb, fixed_canon. intro H. apply andb_true_iff in H. destruct H as [Hl Hp].
  split; [apply Nat.leb_le; exact Hl|]. destruct lf.
  - intros y r ->. destruct (byte_eqb_spec y (pad_byte pad)); [discriminate|assumption].
  - intros y r ->. rewrite rev_app_distr in Hp. cbn in Hp. destruct (byte_eqb_spec y (pad_byte pad)); [discriminate|assumption].
Qed.

Definition canon_primb (p : prim) (v : value) : bool :=
  match p, v with
  | PBasic _ t, VInt n => n <? bound t
  | PFixed n pad lf, VStr s => fixed_canonb n pad lf s
  | PString _ _, VStr _ => true
  | PBasicList _ _ elt, VInts l => forallb (fun n => n <? bound elt) l
  | PFixedList _ _ n pad lf, VStrs l => forallb (fixed_canonb n pad lf) l
  | PStringList _ _ _, VStrs _ => true
  | _, _ => false
  end.

Lemma canon_primb_sound p v : canon_primb p v = true -> canon_prim p v.
Proof.
  destruct p, v; cbn [canon_primb canon_prim]; try discriminate; try tauto; intro H.
  - apply N.ltb_lt. exact H.
  - apply fixed_canonb_sound. exact H.
  - rewrite forallb_forall in H. apply Forall_forall. intros x Hx. apply N.ltb_lt. apply H. exact Hx.
  - rewrite forallb_forall in H. apply Forall_forall. intros x Hx. apply fixed_canonb_sound. apply H. exact Hx.
Qed.

Section Checker.
  Variable tables : list (N * table).
  Variable senc : N -> list value -> res (list value * list byte).
  Variable zero_rec : N -> option (list value).
  Variable canon_rec : N -> list value -> Prop.
  Variable recb : N -> list value -> bool.
  Hypothesis Hrec : forall t fs, recb t fs = true -> canon_rec t fs.

  Definition canon_objb (t : N) (v : value) : bool :=
    match v with VObj t' fs => (t' =? t) && recb t' fs | _ => false end.
  Lemma canon_objb_sound t v : canon_objb t v = true -> canon_obj canon_rec t v.
  Proof.
    destruct v; cbn [canon_objb]; try discriminate. intro H. apply andb_true_iff in H. destruct H as [Ht Hr].
    apply N.eqb_eq in Ht. subst. exists fs. split; [reflexivity|apply Hrec; exact Hr].
  Qed.

  Definition canon_kindb (done : list value) (k : kind) (v : value) : bool :=
    match k with
    | KPrim p _ => canon_primb p v
    | KObjs _ _ t => match v with VObjs l => forallb (canon_objb t) l | _ => false end
    | KCall _ _ _ (DPtr t) | KCall _ _ _ (DVal t) => canon_objb t v
    | KCall _ _ _ (DSel tbl key) =>
        match nth_error done key with
        | Some kv => match selected tables tbl kv with Some ty => canon_objb ty v | None => false end
        | None => false
        end
    end.
  Lemma canon_kindb_sound done k v : canon_kindb done k v = true -> canon_kind tables canon_rec done k v.
  Proof.
    destruct k as [p pr|le cnt t|f g pr d]; cbn [canon_kindb canon_kind].
    - apply canon_primb_sound.
    - destruct v; try discriminate. intro H. exists l. split; [reflexivity|].
      rewrite forallb_forall in H. apply Forall_forall. intros x Hx. apply canon_objb_sound. apply H. exact Hx.
    - destruct d as [t|t|tbl key]; try apply canon_objb_sound.
      destruct (nth_error done key) as [kv|]; [|discriminate]. destruct (selected tables tbl kv) as [ty|] eqn:E; [|discriminate].
      intro H. exists kv, ty. repeat split; [exact E|apply canon_objb_sound; exact H].
  Qed.

  Fixpoint canon_fieldsb (done : list value) (ks : list kind) (vs : list value) : bool :=
    match ks, vs with
    | [], [] => true
    | k :: ks', v :: vs' =>
        canon_kindb done k v &&
        match render_kind tables senc zero_rec done k v with
        | Ok (v', _) => canon_fieldsb (done ++ [v']) ks' vs'
        | Fail _ => true
        end
    | _, _ => false
    end.
  Lemma canon_fieldsb_sound ks : forall done vs, canon_fieldsb done ks vs = true -> canon_fields tables senc zero_rec canon_rec done ks vs.
  Proof.
    induction ks as [|k ks IH]; intros done vs H; destruct vs as [|v vs]; cbn [canon_fieldsb canon_fields] in *; try discriminate; [exact I|].
    apply andb_true_iff in H. destruct H as [H1 H2]. split; [apply canon_kindb_sound; exact H1|].
    destruct (render_kind tables senc zero_rec done k v) as [[v' b]|]; [apply IH; exact H2|exact I].
  Qed.

  Definition canon_frameb (hdr : list kind) (tbl : N) (key : nat) (sum : option sumspec) (fs : list value) : bool :=
    let h := length hdr in
    canon_fieldsb [] hdr (firstn h fs) &&
    match skipn h fs with
    | VInt _ :: body :: tl =>
        match nth_error fs key with
        | Some kv => match selected tables tbl kv with Some ty => canon_objb ty body | None => false end
        | None => false
        end &&
        match sum, tl with
        | None, [] => true
        | Some s, [VInt old] => old <? bound (ss_rt s)
        | _, _ => false
        end
    | _ => false
    end.
  Lemma canon_frameb_sound hdr tbl key sum fs : canon_frameb hdr tbl key sum fs = true -> canon_frame tables senc zero_rec canon_rec hdr tbl key sum fs.
  Proof.
    unfold canon_frameb, canon_frame. intro H. apply andb_true_iff in H. destruct H as [H1 H2].
    split; [apply canon_fieldsb_sound; exact H1|].
    destruct (skipn (length hdr) fs) as [|lenv [|body tl]]; try discriminate; destruct lenv; try discriminate.
    apply andb_true_iff in H2. destruct H2 as [H2 H3]. split.
    - destruct (nth_error fs key) as [kv|]; [|discriminate]. destruct (selected tables tbl kv) as [ty|] eqn:E; [|discriminate].
      exists kv, ty. repeat split; [exact E|apply canon_objb_sound; exact H2].
    - destruct sum as [s|]; destruct tl as [|o [|x tl]]; try discriminate; try exact I; destruct o; try discriminate.
      apply N.ltb_lt. exact H3.
  Qed.
End Checker.

Fixpoint canon_envb (tables : list (N * table)) (reg : registry) (ss : list sdef) (t : N) (fs : list value) : bool :=
  match ss with
  | [] => false
  | sd :: rest =>
      if sd_id sd =? t
      then match sd_schema sd with
           | SPlain ks => canon_fieldsb tables (spec_enc_env tables reg rest) (szero_fields rest) (canon_envb tables reg rest) [] ks fs
           | SFrame hdr _ tbl key sum => canon_frameb tables (spec_enc_env tables reg rest) (szero_fields rest) (canon_envb tables reg rest) hdr tbl key sum fs
           end
      else canon_envb tables reg rest t fs
  end.

Theorem canon_envb_sound tables reg : forall ss t fs, canon_envb tables reg ss t fs = true -> canon_env tables reg ss t fs.
Proof.
  induction ss as [|sd rest IH]; intros t fs H; cbn [canon_envb canon_env] in *; [discriminate|].
  destruct (sd_id sd =? t); [|apply IH; exact H].
  destruct (sd_schema sd) as [ks|hdr le tbl key sum]; cbn [canon_schema].
  - eapply canon_fieldsb_sound; [|exact H]. exact IH.
  - eapply canon_frameb_sound; [|exact H]. exact IH.
Qed.

(* streams decoded into given receivers *)
Section StreamsR.
  Variable enc : N -> list value -> res (list value * list byte).
  Variable decr : N -> list value -> list byte -> res (list value * list byte).
  Variable canon : N -> list value -> Prop.
  Variable recv_ok : N -> list value -> Prop.
  Hypothesis Hrt : forall t fs fs' bs r rest, canon t fs -> recv_ok t r -> enc t fs = Ok (fs', bs) -> decr t r (bs ++ rest) = Ok (fs', rest).

  Fixpoint dec_stream_r (trs : list (N * list value)) (buf : list byte) : res (list (list value) * list byte) :=
    match trs with
    | [] => Ok ([], buf)
    | (t, r) :: rest => do '(fs, b) <- decr t r buf; do '(rs, b') <- dec_stream_r rest b; Ok (fs :: rs, b')
    end.

  Theorem stream_round_trip_r ms : forall receivers outs bs tail,
    Forall (fun m => canon (fst m) (snd m)) ms ->
    map fst receivers = map fst ms -> Forall (fun tr => recv_ok (fst tr) (snd tr)) receivers ->
    enc_stream enc ms = Ok (outs, bs) ->
    dec_stream_r receivers (bs ++ tail) = Ok (outs, tail).
  Proof.
    induction ms as [|[t fs] ms IH]; intros receivers outs bs tail Hc Hm Hr He.
    - destruct receivers; [|discriminate]. cbn in He. inversion He; subst. reflexivity.
    - destruct receivers as [|[t' r] receivers]; [discriminate|]. cbn [map fst] in Hm. inversion Hm; subst t'.
      inversion Hc as [|? ? Hc1 Hc2]; subst. inversion Hr as [|? ? Hr1 Hr2]; subst. cbn [fst snd] in *.
      cbn [enc_stream] in He.
      destruct (enc t fs) as [[fs' b1]|] eqn:E1; cbn [bind] in He; [|discriminate].
      destruct (enc_stream enc ms) as [[rs b2]|] eqn:E2; cbn [bind] in He; [|discriminate].
      inversion He; subst. cbn [dec_stream_r]. rewrite <- app_assoc.
      rewrite (Hrt t fs fs' b1 r (b2 ++ tail) Hc1 Hr1 E1). cbn [bind].
      rewrite (IH receivers rs b2 tail Hc2 H1 Hr2 eq_refl). reflexivity.
  Qed.
End StreamsR.
