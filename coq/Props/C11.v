(* Props/C11.v — a truncated message is always rejected, never half-decoded as success. *)
From FP.Props Require Import Common C01.
From FP.Theory Require Import Tight.
Local Open Scope N_scope.

(* C11.  For all 170 types, every canonical value and every cut position: Decode (into any receiver) of a strict
   prefix of the encoding returns an error - not success with zero-filled or partly filled fields, not a panic. *)
Theorem C11_truncated_encoding_rejected : forall t fs fs' bs r q,
  typed t fs = true -> canonical t fs -> receiver_ok t r = true ->
  encode t fs [] = Ok (fs', bs) -> strict_prefix q bs -> decode t r q = Fail FErr.
Proof.
  intros t fs fs' bs r q Ht Hc Hr He Hq.
  pose proof (C01_encode_then_decode t fs fs' bs r [] Ht Hc Hr He) as Hd. rewrite app_nil_r in Hd.
  rewrite decode_spec in * by exact Hr.
  exact (truncation_rejected tables schemas t bs fs' H_dec_safe Hd q Hq).
Qed.

(* more generally, for ANY input a decoder accepts: the bytes it consumed are necessary - every strict prefix of
   them is rejected - and sufficient - the same bytes followed by anything else decode to the same message *)
Theorem C11_consumed_bytes_are_necessary_and_sufficient : forall t r buf fs rest,
  receiver_ok t r = true -> decode t r buf = Ok (fs, rest) ->
  exists pre, buf = pre ++ rest /\
    (forall r2 other, receiver_ok t r2 = true -> decode t r2 (pre ++ other) = Ok (fs, other)) /\
    (forall r2 q, receiver_ok t r2 = true -> strict_prefix q pre -> decode t r2 q = Fail FErr).
Proof.
  intros t r buf fs rest Hr H. rewrite decode_spec in H by exact Hr.
  destruct (spec_dec_tight tables schemas H_dec_safe t buf fs rest H) as [pre [Hp [Hl Hs]]].
  exists pre. split; [exact Hp|]. split.
  - intros r2 other Hr2. rewrite decode_spec by exact Hr2. apply Hl.
  - intros r2 q Hr2 Hq. rewrite decode_spec by exact Hr2. apply Hs. exact Hq.
Qed.

(* non-vacuity: every cut of a concrete frame encoding is rejected (evaluated), e.g. the cut in the middle *)
Example C11_nonvacuous :
  match encode id_sse_bin_SseBinary C01.ex_frame [] with
  | Ok (_, bs) => forallb (fun n => match decode id_sse_bin_SseBinary (zero_value id_sse_bin_SseBinary) (firstn n bs) with
                                    | Fail FErr => true | _ => false end) (seq 0 (length bs))
                  && Nat.ltb 30 (length bs)
  | Fail _ => false end = true.
Proof. vm_compute. reflexivity. Qed.

Print Assumptions C11_truncated_encoding_rejected.
Print Assumptions C11_consumed_bytes_are_necessary_and_sufficient.
