(* Theory/Append.v — consequences of the encode refinement for buffers: append-only, context-free,
   sequences concatenate (C06). *)
From FP.Theory Require Export FrameFacts.
Local Open Scope N_scope.

Section Append.
  Variable enc : N -> list value -> list byte -> res (list value * list byte).
  Variable spec : N -> list value -> res (list value * list byte).
  Variable ok : N -> list value -> bool.
  Hypothesis Href : forall t fs buf, ok t fs = true -> enc t fs buf = lift (spec t fs) buf.

  Lemma append_only t fs buf fs' buf' :
    ok t fs = true -> enc t fs buf = Ok (fs', buf') ->
    exists bs, buf' = buf ++ bs /\ enc t fs [] = Ok (fs', bs) /\ forall b2, enc t fs b2 = Ok (fs', b2 ++ bs).
  Proof.
    intros Hok H. rewrite Href in H by exact Hok.
    destruct (spec t fs) as [[a bs]|] eqn:E; cbn [lift] in H; [|discriminate].
    inversion H; subst. exists bs. split; [reflexivity|]. split.
    - rewrite Href by exact Hok. rewrite E. reflexivity.
    - intro b2. rewrite Href by exact Hok. rewrite E. reflexivity.
  Qed.

  Lemma failure_context_free t fs b1 b2 f : ok t fs = true -> enc t fs b1 = Fail f -> enc t fs b2 = Fail f.
  Proof.
    intros Hok H. rewrite Href in * by exact Hok. destruct (spec t fs) as [[a bs]|]; cbn [lift] in *; [discriminate|exact H].
  Qed.

  (* a sequence of messages encoded one after another into one buffer *)
  Fixpoint enc_all (ms : list (N * list value)) (buf : list byte) : res (list (list value) * list byte) :=
    match ms with
    | [] => Ok ([], buf)
    | (t, fs) :: r => do '(fs', buf') <- enc t fs buf; do '(rs, buf'') <- enc_all r buf'; Ok (fs' :: rs, buf'')
    end.

  Fixpoint alone_all (ms : list (N * list value)) : res (list (list value) * list (list byte)) :=
    match ms with
    | [] => Ok ([], [])
    | (t, fs) :: r => do '(fs', bs) <- enc t fs []; do '(rs, bss) <- alone_all r; Ok (fs' :: rs, bs :: bss)
    end.

  Lemma sequence_concat ms : forall buf rs out,
    forallb (fun m => ok (fst m) (snd m)) ms = true ->
    enc_all ms buf = Ok (rs, out) ->
    exists bss, alone_all ms = Ok (rs, bss) /\ out = buf ++ concat bss.
  Proof.
    induction ms as [|[t fs] r IH]; intros buf rs out Hok H; cbn [enc_all alone_all] in *.
    - inversion H; subst. exists []. split; [reflexivity|]. cbn. rewrite app_nil_r. reflexivity.
    - cbn [forallb fst snd] in Hok. apply andb_true_iff in Hok. destruct Hok as [Hok1 Hok2].
      destruct (enc t fs buf) as [[fs' buf']|] eqn:E1; cbn [bind] in H; [|discriminate].
      destruct (enc_all r buf') as [[rs' out']|] eqn:E2; cbn [bind] in H; [|discriminate].
      inversion H; subst.
      destruct (append_only t fs buf fs' buf' Hok1 E1) as [bs [-> [Ea _]]].
      destruct (IH _ _ _ Hok2 E2) as [bss [Eb ->]].
      rewrite Ea, Eb. cbn [bind]. exists (bs :: bss). split; [reflexivity|]. cbn [concat]. rewrite app_assoc. reflexivity.
  Qed.
End Append.
