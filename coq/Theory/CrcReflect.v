(* Theory/CrcReflect.v — the reflected, least-significant-bit-first algorithm of Model/Checksum.v (what the Go code
   implements, with the reversed polynomial constants 0xA001 / 0xEDB88320) computes the catalogue CRCs:
   CRC-16/MODBUS (width 16, poly 0x8005, init 0xFFFF, refin, refout, xorout 0) and
   CRC-32/ISO-HDLC "IEEE" (width 32, poly 0x04C11DB7, init 0xFFFFFFFF, refin, refout, xorout 0xFFFFFFFF). *)
From FP.Model Require Import Checksum.
From FP.Spec Require Import Rocksoft.
From FP.Theory Require Import CrcBound.
From Coq Require Import ZifyBool ZifyNat ZifyN.
Local Open Scope N_scope.

(* ---- lists ---- *)
Lemma xors_length a b : length (xors a b) = Nat.min (length a) (length b).
Proof. revert b. induction a as [|x a IH]; intros [|y b]; cbn [xors length Nat.min]; try reflexivity. rewrite IH. reflexivity. Qed.

Lemma xors_app a1 a2 b1 b2 : length a1 = length b1 -> xors (a1 ++ a2) (b1 ++ b2) = xors a1 b1 ++ xors a2 b2.
Proof. revert b1. induction a1 as [|x a1 IH]; intros [|y b1] H; cbn in *; try discriminate; [reflexivity|]. rewrite IH by lia. reflexivity. Qed.

Lemma xors_rev a b : length a = length b -> rev (xors a b) = xors (rev a) (rev b).
Proof.
  revert b. induction a as [|x a IH]; intros [|y b] H; cbn [xors rev] in *; try discriminate; [reflexivity|].
  rewrite IH by (cbn in H; lia). rewrite xors_app by (rewrite !rev_length; cbn in H; lia). reflexivity.
Qed.

Lemma xors_false_r a n : (length a <= n)%nat -> xors a (repeat false n) = a.
Proof.
  revert n. induction a as [|x a IH]; intros [|n] H; cbn in *; try lia; try reflexivity.
  rewrite IH by lia. rewrite xorb_false_r. reflexivity.
Qed.

(* the least-significant-bit-first step on bit lists *)
Definition lsb_step (rpoly rr : list bool) : list bool :=
  let s := tl rr ++ [false] in
  if hd false rr then xors s rpoly else s.

Lemma rev_removelast {A} (l : list A) : rev (removelast l) = tl (rev l).
Proof.
  destruct l as [|x l] using rev_ind; [reflexivity|].
  rewrite removelast_last, rev_unit. reflexivity.
Qed.

Lemma last_hd_rev {A} (l : list A) d : last l d = hd d (rev l).
Proof. destruct l as [|x l] using rev_ind; [reflexivity|]. rewrite last_last, rev_unit. reflexivity. Qed.

Lemma msb_lsb poly r : length poly = length r -> r <> [] -> rev (msb_step poly r) = lsb_step (rev poly) (rev r).
Proof.
  intros Hl Hne. unfold msb_step, lsb_step. rewrite <- last_hd_rev, <- rev_removelast.
  assert (Hs : rev (false :: removelast r) = rev (removelast r) ++ [false]) by reflexivity.
  destruct (last r false); [|exact Hs].
  rewrite xors_rev; [rewrite Hs; reflexivity|].
  cbn [length]. destruct r as [|x r] using rev_ind; [contradiction|]. rewrite removelast_last, Hl, app_length. cbn. lia.
Qed.

Lemma msb_step_length poly r : length poly = length r -> r <> [] -> length (msb_step poly r) = length r.
Proof.
  intros Hl Hne. unfold msb_step.
  assert (H : length (false :: removelast r) = length r).
  { destruct r as [|x r] using rev_ind; [contradiction|]. rewrite removelast_last, app_length. cbn. lia. }
  destruct (last r false); [rewrite xors_length, H, Hl; apply Nat.min_id|exact H].
Qed.

(* ---- numbers as bit lists ---- *)
Definition bits (w : nat) (x : N) : list bool := map (fun i => N.testbit x (N.of_nat i)) (seq 0 w).

Lemma bits_length w x : length (bits w x) = w.
Proof. unfold bits. rewrite map_length, seq_length. reflexivity. Qed.

Lemma bits_S w x : bits (S w) x = N.testbit x 0 :: bits w (N.shiftr x 1).
Proof.
  unfold bits. cbn [seq map]. f_equal. rewrite <- seq_shift, map_map. apply map_ext. intro i.
  rewrite N.shiftr_spec by lia. f_equal. lia.
Qed.

Lemma bits_snoc w x : bits (S w) x = bits w x ++ [N.testbit x (N.of_nat w)].
Proof. unfold bits. rewrite seq_S, map_app. reflexivity. Qed.

Lemma bits_lxor w a b : bits w (N.lxor a b) = xors (bits w a) (bits w b).
Proof.
  unfold bits. induction (seq 0 w) as [|i l IH]; cbn [map xors]; [reflexivity|]. rewrite N.lxor_spec, IH. reflexivity.
Qed.

Lemma testbit_high x w : x < 2 ^ N.of_nat w -> N.testbit x (N.of_nat w) = false.
Proof.
  intro H. destruct (N.eq_dec x 0) as [->|Hx]; [apply N.bits_0|]. apply N.bits_above_log2. apply N.log2_lt_pow2; lia.
Qed.

Lemma bits_shiftr w x : x < 2 ^ N.of_nat (S w) -> bits (S w) (N.shiftr x 1) = tl (bits (S w) x) ++ [false].
Proof.
  intro H. rewrite (bits_S w x). cbn [tl]. rewrite bits_snoc. f_equal. f_equal.
  rewrite N.shiftr_spec by lia. replace (N.of_nat w + 1) with (N.of_nat (S w)) by lia. apply testbit_high. exact H.
Qed.

Lemma bits_step w poly crc : crc < 2 ^ N.of_nat (S w) ->
  bits (S w) (shift_step poly crc) = lsb_step (bits (S w) poly) (bits (S w) crc).
Proof.
  intro H. unfold shift_step, lsb_step.
  assert (Hh : hd false (bits (S w) crc) = N.testbit crc 0) by (rewrite bits_S; reflexivity).
  rewrite Hh. destruct (N.testbit crc 0).
  - rewrite bits_lxor, bits_shiftr by exact H. reflexivity.
  - apply bits_shiftr. exact H.
Qed.

Lemma testbit_above x n i : x < 2 ^ n -> n <= i -> N.testbit x i = false.
Proof.
  intros H Hi. destruct (N.eq_dec x 0) as [->|Hx]; [apply N.bits_0|]. apply N.bits_above_log2.
  eapply N.lt_le_trans; [|exact Hi]. apply N.log2_lt_pow2; lia.
Qed.

Lemma bits_small n x : x < 2 ^ N.of_nat n -> forall k, bits (n + k) x = bits n x ++ repeat false k.
Proof.
  intro Hx. induction k as [|k IH].
  - rewrite Nat.add_0_r, app_nil_r. reflexivity.
  - replace (n + S k)%nat with (S (n + k)) by lia. rewrite bits_snoc, IH, <- app_assoc. f_equal.
    rewrite (testbit_above x (N.of_nat n)) by (try exact Hx; lia). cbn [repeat]. symmetry. apply repeat_cons.
Qed.

Lemma rev_repeat {A} (a : A) n : rev (repeat a n) = repeat a n.
Proof. induction n as [|n IH]; [reflexivity|]. cbn [repeat rev]. rewrite IH. symmetry. apply repeat_cons. Qed.

(* ---- one byte ---- *)
Definition byte_bits (b : byte) : list bool := bits 8 (b2n b).

Lemma iter8_lsb w poly crc : poly < 2 ^ N.of_nat (S w) -> crc < 2 ^ N.of_nat (S w) ->
  bits (S w) (shift8 poly crc) = iter8 (lsb_step (bits (S w) poly)) (bits (S w) crc).
Proof.
  intros Hp Hc. unfold shift8, iter8.
  repeat (rewrite bits_step; [|repeat apply shift_step_lt; assumption]). reflexivity.
Qed.

Lemma iter8_msb poly r : length poly = length r -> r <> [] ->
  rev (iter8 (msb_step poly) r) = iter8 (lsb_step (rev poly)) (rev r) /\ length (iter8 (msb_step poly) r) = length r.
Proof.
  intros Hl Hne. unfold iter8.
  assert (Hk : forall x, length x = length r -> rev (msb_step poly x) = lsb_step (rev poly) (rev x) /\ length (msb_step poly x) = length r).
  { intros x Hx.
    assert (A : x <> []) by (destruct x; [destruct r; [contradiction|discriminate]|discriminate]).
    assert (B : length poly = length x) by congruence.
    split; [apply msb_lsb; assumption|rewrite msb_step_length; assumption]. }
  destruct (Hk r eq_refl) as [E1 L1]. destruct (Hk _ L1) as [E2 L2]. destruct (Hk _ L2) as [E3 L3]. destruct (Hk _ L3) as [E4 L4].
  destruct (Hk _ L4) as [E5 L5]. destruct (Hk _ L5) as [E6 L6]. destruct (Hk _ L6) as [E7 L7]. destruct (Hk _ L7) as [E8 L8].
  split; [|exact L8]. rewrite E8, E7, E6, E5, E4, E3, E2, E1. reflexivity.
Qed.

Section Reflect.
  Variable w' : nat.                      (* width - 1 *)
  Let w := S w'.
  Hypothesis Hw : (8 <= w)%nat.
  Variable polyN : N.                     (* the reversed polynomial constant of the implementation *)
  Variable poly : list bool.              (* the catalogue polynomial *)
  Hypothesis Hpoly : bits w polyN = rev poly.
  Hypothesis HpolyN : polyN < 2 ^ N.of_nat w.

  Lemma poly_length : length poly = w.
  Proof. rewrite <- (rev_length poly), <- Hpoly. apply bits_length. Qed.

  Lemma step_reflect crc r b : crc < 2 ^ N.of_nat w -> bits w crc = rev r ->
    bits w (crc_step polyN crc b) = rev (feed w poly true r (byte_bits b)) /\ crc_step polyN crc b < 2 ^ N.of_nat w.
  Proof.
    intros Hc Hr.
    assert (Hlen : length r = w) by (rewrite <- (rev_length r), <- Hr; apply bits_length).
    assert (Hb : b2n b < 2 ^ N.of_nat w).
    { pose proof (b2n_lt b). eapply N.lt_le_trans; [exact H|]. change 256 with (2 ^ 8). apply N.pow_le_mono_r; lia. }
    split; [|apply crc_step_lt; [lia|exact HpolyN|exact Hc]].
    unfold crc_step, feed. unfold w in *. rewrite iter8_lsb by (try exact HpolyN; apply lxor_lt; assumption).
    rewrite Hpoly.
    set (x := xors r (repeat false (S w' - 8) ++ rev (byte_bits b))).
    assert (Hx : length x = length r).
    { unfold x. rewrite xors_length, app_length, repeat_length, rev_length. unfold byte_bits. rewrite bits_length. lia. }
    assert (Hxne : x <> []) by (destruct x; [destruct r; [cbn in Hlen; lia|discriminate]|discriminate]).
    destruct (iter8_msb poly x) as [E _]; [rewrite poly_length; unfold w; lia|exact Hxne|].
    rewrite E. f_equal. unfold x. rewrite xors_rev by (rewrite app_length, repeat_length, rev_length; unfold byte_bits; rewrite bits_length; lia).
    rewrite rev_app_distr, rev_involutive, rev_repeat, <- Hr, bits_lxor. f_equal.
    replace (S w') with (8 + (S w' - 8))%nat at 1 by lia. apply bits_small. apply b2n_lt.
  Qed.

  Lemma fold_reflect bs : forall crc r, crc < 2 ^ N.of_nat w -> bits w crc = rev r ->
    bits w (fold_left (crc_step polyN) bs crc) = rev (fold_left (feed w poly true) (map byte_bits bs) r).
  Proof.
    induction bs as [|b bs IH]; intros crc r Hc Hr; cbn [fold_left map]; [exact Hr|].
    destruct (step_reflect crc r b Hc Hr) as [E L]. apply IH; assumption.
  Qed.
End Reflect.

(* ---- the two catalogue entries ---- *)
Definition crc16_modbus : crc_params :=
  {| cp_width := 16; cp_poly := bits 16 32773 (* 0x8005 *); cp_init := bits 16 65535; cp_refin := true; cp_refout := true; cp_xorout := bits 16 0 |}.
Definition crc32_ieee : crc_params :=
  {| cp_width := 32; cp_poly := bits 32 79764919 (* 0x04C11DB7 *); cp_init := bits 32 4294967295; cp_refin := true; cp_refout := true;
     cp_xorout := bits 32 4294967295 |}.

Theorem crc16_is_modbus bs : bits 16 (crc16_calc bs) = rocksoft crc16_modbus (map byte_bits bs).
Proof.
  unfold crc16_calc, rocksoft. cbn [crc16_modbus cp_width cp_poly cp_init cp_refin cp_refout cp_xorout].
  rewrite <- (fold_reflect 15 ltac:(lia) 40961 (bits 16 32773) ltac:(vm_compute; reflexivity) ltac:(vm_compute; reflexivity) bs 65535 (bits 16 65535))
    by (vm_compute; reflexivity).
  symmetry. change (bits 16 0) with (repeat false 16). apply xors_false_r. rewrite bits_length. lia.
Qed.

Theorem crc32_is_ieee bs : bits 32 (crc32_calc bs) = rocksoft crc32_ieee (map byte_bits bs).
Proof.
  unfold crc32_calc, rocksoft. cbn [crc32_ieee cp_width cp_poly cp_init cp_refin cp_refout cp_xorout].
  rewrite <- (fold_reflect 31 ltac:(lia) 3988292384 (bits 32 79764919) ltac:(vm_compute; reflexivity) ltac:(vm_compute; reflexivity) bs 4294967295 (bits 32 4294967295))
    by (vm_compute; reflexivity).
  apply bits_lxor.
Qed.
