#!/bin/bash
# mutsweep.sh: for each seeded change, apply to /repo, rebuild the harness, run the direct oracle of its property, undo.
export GOFLAGS=-mod=mod GOPROXY=off
for S in /verif/seeded/${1:-*}; do
  n=$(basename $S); p=$(python3 -c "import json;print(json.load(open('$S/meta.json'))['property'])")
  [ -n "$2" ] && p=$2
  git -C /repo apply $S/patch.diff || { echo "$n APPLY-FAILED"; continue; }
  /verif/bin/translator -repo /repo -go /verif/harness/types_gen.go >/dev/null 2>/tmp/tr.err; tr=$?
  (cd /verif/harness && go build -race -o /tmp/harness-mut . 2>/tmp/hb.err) || { echo "$n $p harness-build-failed translator=$tr: $(head -c 300 /tmp/hb.err)"; git -C /repo checkout -- .; continue; }
  timeout 600 /tmp/harness-mut oracle -prop $p -seed ${SEED:-5} -out /tmp/mo.json >/dev/null 2>/tmp/mo.err; rc=$?
  python3 - <<PY
import json
try:
    d=json.load(open('/tmp/mo.json')); f=d['failures']
    print("$n $p translator=$tr rc=$rc failures=%d :: %s"%(len(f), (f[0]['oracle']+': '+f[0]['what'][:140]) if f else ''))
except Exception as e:
    print("$n $p translator=$tr rc=$rc NO-REPORT", open('/tmp/mo.err').read()[-300:])
PY
  rm -f /tmp/mo.json
  git -C /repo checkout -- .
done
/verif/bin/translator -repo /repo -go /verif/harness/types_gen.go >/dev/null
