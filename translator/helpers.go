package main

// helpers.go — memory facts about the hand-written library codec/*.go, for C16 (aliasing) and C10 (allocation):
//
//   * a flow graph: one node per local variable / parameter / function result, an edge  dst <- src  wherever the
//     memory reachable from src's value may become reachable from dst's value (assignment, slicing, append,
//     address-of, stores through pointers, argument passing, returns), with two distinguished sources:
//     BUF  (memory of the *bytes.Buffer being decoded: buf.Next, buf.Bytes, an unknown method of the buffer) and
//     nothing at all for values the Go spec says are fresh copies (make, new, string<->[]byte conversion, string
//     concatenation, literals) or that cannot hold a reference (numeric, bool, error results of known calls);
//   * every make() with its size arguments classified (constant / capped by the unread length / guarded by a
//     preceding comparison with the unread length / a parameter / unknown).
//
// go/types (source importer, offline) supplies expression gotypes.  Anything outside the cases below is recorded as
// an "unknown" fact, which the Coq obligations reject.  Emitted as coq/Gen/Helpers.v.

import (
	"fmt"
	"go/ast"
	"go/importer"
	"go/parser"
	"go/token"
	gotypes "go/types"
	"os"
	"path/filepath"
	"sort"
	"strings"
)

type hEdge struct {
	dst  string
	srcs []string // node names, or "BUF"
	why  string
}

type hMake struct {
	fn    string
	elem  string // element type text
	sizes []string
	pos   string
}

type hx struct {
	info    *gotypes.Info
	pkg     *gotypes.Package
	edges   []hEdge
	makes   []hMake
	unknown []string
	fn      string
	prefix  string
	fdecl   *ast.FuncDecl
	guards  map[string]bool // variables currently known to be <= buf.Len()
	// how the library touches a bytes.Buffer: the methods it calls on one, and the functions outside the module it
	// hands one to (Model/Buffer.v models these and nothing else: obligation H_buffer_api)
	bufMethods map[string]bool
	bufSinks   map[string]bool
}

func (h *hx) recordBufferUse(c *ast.CallExpr) {
	if h.bufMethods == nil {
		h.bufMethods, h.bufSinks = map[string]bool{}, map[string]bool{}
	}
	fun := c.Fun
	for {
		switch f := fun.(type) {
		case *ast.ParenExpr:
			fun = f.X
			continue
		case *ast.IndexExpr:
			fun = f.X
			continue
		case *ast.IndexListExpr:
			fun = f.X
			continue
		}
		break
	}
	var fn *gotypes.Func
	switch f := fun.(type) {
	case *ast.SelectorExpr:
		fn, _ = h.info.Uses[f.Sel].(*gotypes.Func)
		if t := h.typeOf(f.X); t != nil && isBufferType(t) {
			h.bufMethods[f.Sel.Name] = true
		}
	case *ast.Ident:
		fn, _ = h.info.Uses[f].(*gotypes.Func)
	}
	if fn == nil || fn.Pkg() == nil {
		return
	}
	if p := fn.Pkg().Path(); p == "codec" || strings.HasSuffix(p, "/codec") || strings.HasSuffix(p, "/messages") {
		return // the library's own functions are analysed themselves
	}
	for _, a := range c.Args {
		if t := h.typeOf(a); t != nil && isBufferType(t) {
			h.bufSinks[fn.FullName()] = true
		}
	}
}

func (h *hx) unk(n ast.Node, f string, a ...any) {
	h.unknown = append(h.unknown, fmt.Sprintf("%s: %s", fset.Position(n.Pos()), fmt.Sprintf(f, a...)))
}

func isBufferType(t gotypes.Type) bool {
	s := t.String()
	return s == "*bytes.Buffer" || s == "bytes.Buffer"
}

// can a value of this type hold a reference to mutable memory (or to bytes of a string)?
func refFree(t gotypes.Type) bool {
	if t == nil {
		return true
	}
	if tp, ok := t.(*gotypes.TypeParam); ok {
		// a type parameter constrained to numeric types only
		iface, ok := tp.Constraint().Underlying().(*gotypes.Interface)
		if !ok || iface.NumEmbeddeds() == 0 {
			return false
		}
		for i := 0; i < iface.NumEmbeddeds(); i++ {
			if !numericUnion(iface.EmbeddedType(i)) {
				return false
			}
		}
		return true
	}
	switch u := t.Underlying().(type) {
	case *gotypes.Basic:
		return u.Info()&gotypes.IsString == 0 && u.Kind() != gotypes.UnsafePointer
	case *gotypes.Interface:
		// the predeclared error type: produced by errors.New / fmt.Errorf / library calls, never points into a buffer
		return t.String() == "error"
	case *gotypes.Tuple:
		for i := 0; i < u.Len(); i++ {
			if !refFree(u.At(i).Type()) {
				return false
			}
		}
		return true
	case *gotypes.Struct:
		for i := 0; i < u.NumFields(); i++ {
			if !refFree(u.Field(i).Type()) {
				return false
			}
		}
		return true
	case *gotypes.Array:
		return refFree(u.Elem())
	case *gotypes.Signature:
		return true
	}
	return false
}

func numericUnion(t gotypes.Type) bool {
	switch u := t.(type) {
	case *gotypes.Union:
		for i := 0; i < u.Len(); i++ {
			b, ok := u.Term(i).Type().Underlying().(*gotypes.Basic)
			if !ok || b.Info()&gotypes.IsNumeric == 0 {
				return false
			}
		}
		return true
	case *gotypes.Named:
		if iface, ok := u.Underlying().(*gotypes.Interface); ok {
			if iface.NumEmbeddeds() == 0 {
				return false
			}
			for i := 0; i < iface.NumEmbeddeds(); i++ {
				if !numericUnion(iface.EmbeddedType(i)) {
					return false
				}
			}
			return true
		}
	case *gotypes.Interface:
		if u.NumEmbeddeds() == 0 {
			return false
		}
		for i := 0; i < u.NumEmbeddeds(); i++ {
			if !numericUnion(u.EmbeddedType(i)) {
				return false
			}
		}
		return true
	}
	return false
}

func (h *hx) node(obj gotypes.Object) string {
	if obj == nil {
		return "?"
	}
	if obj.Parent() == h.pkg.Scope() {
		return "pkg." + h.prefix + obj.Name()
	}
	return fmt.Sprintf("%s.%s_%d", h.fn, obj.Name(), fset.Position(obj.Pos()).Line)
}

func (h *hx) typeOf(e ast.Expr) gotypes.Type {
	if tv, ok := h.info.Types[e]; ok {
		return tv.Type
	}
	if id, ok := e.(*ast.Ident); ok {
		if o := h.info.ObjectOf(id); o != nil {
			return o.Type()
		}
	}
	return nil
}

func calleeName(h *hx, fun ast.Expr) (string, *gotypes.Func) {
	switch x := fun.(type) {
	case *ast.Ident:
		if f, ok := h.info.ObjectOf(x).(*gotypes.Func); ok {
			return x.Name, f
		}
	case *ast.SelectorExpr:
		// a function of another package: codec.ReadString[...]
		if id, ok := x.X.(*ast.Ident); ok {
			if _, isPkg := h.info.ObjectOf(id).(*gotypes.PkgName); isPkg {
				if f, ok := h.info.ObjectOf(x.Sel).(*gotypes.Func); ok {
					return x.Sel.Name, f
				}
			}
		}
	case *ast.IndexExpr:
		return calleeName(h, x.X)
	case *ast.IndexListExpr:
		return calleeName(h, x.X)
	case *ast.ParenExpr:
		return calleeName(h, x.X)
	}
	return "", nil
}

// methods of *bytes.Buffer whose results are fresh or scalar and which store no argument
var bufCopying = map[string]bool{"Len": true, "Cap": true, "Available": true, "Read": true, "ReadByte": true, "ReadRune": true,
	"Write": true, "WriteString": true, "WriteByte": true, "WriteRune": true, "Truncate": true, "Reset": true, "Grow": true,
	"String": true, "ReadBytes": true, "ReadString": true, "UnreadByte": true, "UnreadRune": true, "WriteTo": true, "ReadFrom": true}

// external functions that only copy bytes between their arguments / return fresh or scalar results
var extCopying = map[string]bool{"binary.Read": true, "binary.Write": true, "io.ReadFull": true, "io.ReadAtLeast": true,
	"errors.New": true, "fmt.Errorf": true, "fmt.Sprintf": true, "bytes.Repeat": true, "bytes.Equal": true,
	"crc32.ChecksumIEEE": true, "crc32.Checksum": true, "crc32.MakeTable": true, "crc32.Update": true}

// memory the value of e may share
func (h *hx) refs(e ast.Expr) []string {
	if e == nil {
		return nil
	}
	t := h.typeOf(e)
	if t != nil && refFree(t) {
		// still walk calls for their side effects
		ast.Inspect(e, func(n ast.Node) bool {
			if c, ok := n.(*ast.CallExpr); ok {
				h.call(c)
				return false
			}
			return true
		})
		return nil
	}
	switch x := e.(type) {
	case *ast.Ident:
		if x.Name == "nil" || x.Name == "_" {
			return nil
		}
		obj := h.info.ObjectOf(x)
		if _, ok := obj.(*gotypes.Var); ok {
			if isBufferType(obj.Type()) {
				return []string{"BUF"}
			}
			return []string{h.node(obj)}
		}
		return nil
	case *ast.BasicLit:
		return nil
	case *ast.ParenExpr:
		return h.refs(x.X)
	case *ast.SliceExpr:
		return h.refs(x.X)
	case *ast.IndexExpr:
		if _, f := calleeName(h, x); f != nil {
			return nil
		}
		return h.refs(x.X)
	case *ast.StarExpr:
		return h.refs(x.X)
	case *ast.SelectorExpr:
		if _, ok := h.info.Uses[x.Sel].(*gotypes.Var); ok {
			return h.refs(x.X)
		}
		return nil
	case *ast.UnaryExpr:
		return h.refs(x.X)
	case *ast.BinaryExpr:
		// string concatenation builds a new string; every other binary operator yields a scalar
		h.refs(x.X)
		h.refs(x.Y)
		return nil
	case *ast.TypeAssertExpr:
		return h.refs(x.X)
	case *ast.CompositeLit:
		var out []string
		for _, el := range x.Elts {
			if kv, ok := el.(*ast.KeyValueExpr); ok {
				out = append(out, h.refs(kv.Value)...)
			} else {
				out = append(out, h.refs(el)...)
			}
		}
		return out
	case *ast.FuncLit:
		h.unk(x, "function literal in a library helper")
		return []string{"BUF"}
	case *ast.CallExpr:
		return h.call(x)
	}
	h.unk(e, "expression %s outside the grammar", exprStr(e))
	return []string{"BUF"}
}

func (h *hx) allRefs(es []ast.Expr) []string {
	var out []string
	for _, e := range es {
		out = append(out, h.refs(e)...)
	}
	return out
}

// a call: returns what its result may share; records parameter edges and stores made by the callee
func (h *hx) call(c *ast.CallExpr) []string {
	h.recordBufferUse(c)
	// conversions
	if tv, ok := h.info.Types[c.Fun]; ok && tv.IsType() {
		if len(c.Args) != 1 {
			return nil
		}
		from, to := h.typeOf(c.Args[0]), tv.Type
		if from != nil {
			fs, fisStr := from.Underlying().(*gotypes.Basic)
			_, tisSlice := to.Underlying().(*gotypes.Slice)
			ts, tisStr := to.Underlying().(*gotypes.Basic)
			_, fisSlice := from.Underlying().(*gotypes.Slice)
			if (fisStr && fs.Info()&gotypes.IsString != 0 && tisSlice) || (tisStr && ts.Info()&gotypes.IsString != 0 && fisSlice) {
				h.refs(c.Args[0])
				return nil // string <-> []byte conversion copies
			}
		}
		return h.refs(c.Args[0])
	}
	// builtins
	if id, ok := c.Fun.(*ast.Ident); ok {
		if _, isB := h.info.Uses[id].(*gotypes.Builtin); isB {
			switch id.Name {
			case "append":
				out := h.refs(c.Args[0])
				elemFree := false
				if st, ok := h.typeOf(c.Args[0]).Underlying().(*gotypes.Slice); ok {
					elemFree = refFree(st.Elem())
				}
				for _, a := range c.Args[1:] {
					r := h.refs(a)
					if !elemFree {
						out = append(out, r...)
					}
				}
				return out
			case "make":
				h.recordMake(c)
				return nil
			case "copy":
				dst := h.refs(c.Args[0])
				src := h.refs(c.Args[1])
				if st, ok := h.typeOf(c.Args[0]).Underlying().(*gotypes.Slice); ok && !refFree(st.Elem()) {
					for _, d := range dst {
						if d != "BUF" {
							h.edges = append(h.edges, hEdge{d, src, "copy of references"})
						}
					}
				}
				return nil
			case "new", "len", "cap", "min", "max", "panic", "print", "println", "delete", "clear":
				for _, a := range c.Args {
					h.refs(a)
				}
				return nil
			}
			h.unk(c, "builtin %s", id.Name)
			return []string{"BUF"}
		}
	}
	// functions of this package (possibly instantiated generics)
	if name, f := calleeName(h, c.Fun); f != nil && f.Pkg() != nil && (f.Pkg() == h.pkg || f.Pkg().Name() == "codec") {
		if f.Pkg() == h.pkg {
			name = h.prefix + name
		}
		sig := f.Type().(*gotypes.Signature)
		for i, a := range c.Args {
			r := h.refs(a)
			if i < sig.Params().Len() && len(r) > 0 {
				p := sig.Params().At(i)
				if !isBufferType(p.Type()) {
					h.edges = append(h.edges, hEdge{fmt.Sprintf("%s.%s_%d", name, p.Name(), fset.Position(p.Pos()).Line), r, "argument"})
				}
			}
		}
		if refFree(sig.Results()) {
			return nil
		}
		return []string{name + ".ret"}
	}
	// methods and external functions
	if sel, ok := c.Fun.(*ast.SelectorExpr); ok {
		recvT := h.typeOf(sel.X)
		if recvT != nil && isBufferType(recvT) {
			for _, a := range c.Args {
				h.refs(a)
			}
			if bufCopying[sel.Sel.Name] {
				return nil
			}
			return []string{"BUF"} // Next, Bytes, AvailableBuffer, anything new
		}
		full := exprStr(sel.X) + "." + sel.Sel.Name
		// a function of another package that is given no buffer and returns only scalars / error values (errors.Join,
		// fmt.Sprint, strconv...): nothing it returns can share memory with the message or the buffer
		if id, isId := sel.X.(*ast.Ident); isId {
			if _, isPkg := h.info.ObjectOf(id).(*gotypes.PkgName); isPkg && refFree(h.typeOf(c)) {
				bufArg := false
				for _, a := range c.Args {
					if t := h.typeOf(a); t != nil && isBufferType(t) {
						bufArg = true
					}
				}
				if !bufArg && !extCopying[full] && full != "bytes.NewBuffer" && !strings.HasPrefix(full, "unsafe.") && !strings.HasPrefix(full, "reflect.") {
					for _, a := range c.Args {
						h.refs(a)
					}
					return nil
				}
			}
		}
		if recvT != nil && strings.Contains(recvT.String(), "sync.") {
			return nil // mutex operations move no data
		}
		if extCopying[full] {
			for _, a := range c.Args {
				h.refs(a)
			}
			return nil
		}
		if full == "bytes.NewBuffer" || full == "bytes.NewBufferString" || full == "bytes.NewReader" {
			return h.allRefs(c.Args) // the new buffer adopts its argument as backing array
		}
		if strings.HasPrefix(full, "unsafe.") || strings.HasPrefix(full, "reflect.") {
			return h.allRefs(c.Args)
		}
		if sel.Sel.Name == "Decode" && len(c.Args) == 1 && isBufferType(h.typeOf(c.Args[0])) {
			// a message decoding itself: it stores what the library readers return
			for _, d := range h.refs(sel.X) {
				if d != "BUF" {
					h.edges = append(h.edges, hEdge{d, []string{"MSG"}, "message Decode"})
				}
			}
			return nil
		}
		if sel.Sel.Name == "Encode" && len(c.Args) == 1 && isBufferType(h.typeOf(c.Args[0])) {
			h.refs(sel.X)
			return nil
		}
		if sel.Sel.Name == "Calc" && len(c.Args) == 1 && isBufferType(h.typeOf(c.Args[0])) && refFree(h.typeOf(c)) {
			// a checksum service reads the bytes it is given and returns a number (C14's correspondence checks that
			// it leaves the buffer alone)
			h.refs(c.Args[0])
			return nil
		}
		if sel.Sel.Name == "Algorithm" && len(c.Args) == 0 {
			return nil
		}
		if b, ok := recvT.(*gotypes.Named); ok && (b.String() == "encoding/binary.bigEndian" || b.String() == "encoding/binary.littleEndian") {
			for _, a := range c.Args {
				h.refs(a)
			}
			return nil
		}
	}
	// a function value (factory parameter) or something unknown: its result may share whatever it was given
	out := h.allRefs(c.Args)
	if id, ok := c.Fun.(*ast.Ident); ok {
		if v, ok := h.info.ObjectOf(id).(*gotypes.Var); ok {
			return append(out, h.node(v))
		}
	}
	if sel, ok := c.Fun.(*ast.SelectorExpr); ok {
		out = append(out, h.refs(sel.X)...)
	}
	h.unk(c, "call of %s outside the grammar", exprStr(c.Fun))
	return append(out, "BUF")
}

func (h *hx) sizeClass(e ast.Expr) string {
	if tv, ok := h.info.Types[e]; ok && tv.Value != nil {
		return "const:" + tv.Value.ExactString()
	}
	switch x := e.(type) {
	case *ast.ParenExpr:
		return h.sizeClass(x.X)
	case *ast.CallExpr:
		if id, ok := x.Fun.(*ast.Ident); ok && id.Name == "min" && len(x.Args) == 2 {
			for _, a := range x.Args {
				if isBufLen(h, a) {
					return "buflen"
				}
			}
		}
		if isBufLen(h, x) {
			return "buflen"
		}
	case *ast.Ident:
		obj := h.info.ObjectOf(x)
		if h.guards[h.node(obj)] {
			return "guarded"
		}
		if h.fdecl.Type.Params != nil {
			for _, f := range h.fdecl.Type.Params.List {
				for _, n := range f.Names {
					if h.info.ObjectOf(n) == obj {
						return "param:" + n.Name
					}
				}
			}
		}
	}
	return "unknown:" + exprStr(e)
}

func isBufLen(h *hx, e ast.Expr) bool {
	c, ok := e.(*ast.CallExpr)
	if !ok || len(c.Args) != 0 {
		return false
	}
	sel, ok := c.Fun.(*ast.SelectorExpr)
	return ok && sel.Sel.Name == "Len" && isBufferType(h.typeOf(sel.X))
}

func (h *hx) recordMake(c *ast.CallExpr) {
	m := hMake{fn: h.fn, pos: fset.Position(c.Pos()).String()}
	if len(c.Args) > 0 {
		m.elem = exprStr(c.Args[0])
		for _, a := range c.Args[1:] {
			m.sizes = append(m.sizes, h.sizeClass(a))
		}
	}
	h.makes = append(h.makes, m)
}

// the variable (node) a store through lhs ends up in
func (h *hx) lhsRoots(e ast.Expr) []string {
	switch x := e.(type) {
	case *ast.Ident:
		if x.Name == "_" {
			return nil
		}
		if v, ok := h.info.ObjectOf(x).(*gotypes.Var); ok {
			if isBufferType(v.Type()) {
				return []string{"BUFMEM"}
			}
			return []string{h.node(v)}
		}
		return nil
	case *ast.StarExpr:
		if t := h.typeOf(x.X); t != nil && isBufferType(t) {
			return []string{"BUFMEM"}
		}
		return h.lhsRoots(x.X)
	case *ast.ParenExpr:
		return h.lhsRoots(x.X)
	case *ast.IndexExpr:
		return h.lhsRoots(x.X)
	case *ast.SelectorExpr:
		return h.lhsRoots(x.X)
	case *ast.SliceExpr:
		return h.lhsRoots(x.X)
	}
	h.unk(e, "assignment target %s outside the grammar", exprStr(e))
	return nil
}

func (h *hx) assign(lhs []ast.Expr, rhs []ast.Expr, n ast.Node) {
	store := func(l ast.Expr, srcs []string, rexpr ast.Expr) {
		roots := h.lhsRoots(l)
		lt := h.typeOf(l)
		_, bare := l.(*ast.Ident)
		if bare && lt != nil && refFree(lt) {
			return
		}
		for _, d := range roots {
			if len(srcs) > 0 {
				h.edges = append(h.edges, hEdge{d, srcs, "assignment"})
			}
			// p := &x makes x reachable through p: stores through p are stores into x
			if rexpr != nil {
				ast.Inspect(rexpr, func(m ast.Node) bool {
					if u, ok := m.(*ast.UnaryExpr); ok && u.Op == token.AND {
						if _, lit := u.X.(*ast.CompositeLit); lit {
							return true // &T{...}: a fresh object, nothing else can reach it
						}
						for _, s := range h.lhsRoots(u.X) {
							if s != d {
								h.edges = append(h.edges, hEdge{s, []string{d}, "address taken"})
							}
						}
					}
					return true
				})
			}
		}
	}
	if len(lhs) == len(rhs) {
		for i := range lhs {
			store(lhs[i], h.refs(rhs[i]), rhs[i])
		}
		return
	}
	if len(rhs) == 1 {
		r := h.refs(rhs[0])
		for _, l := range lhs {
			store(l, r, rhs[0])
		}
		return
	}
	h.unk(n, "assignment shape")
}

func (h *hx) stmt(s ast.Stmt) {
	switch x := s.(type) {
	case nil:
	case *ast.BlockStmt:
		saved := h.guards
		h.guards = map[string]bool{}
		for k := range saved {
			h.guards[k] = true
		}
		for _, st := range x.List {
			h.stmt(st)
		}
		h.guards = saved
	case *ast.AssignStmt:
		h.assign(x.Lhs, x.Rhs, x)
		// an assigned variable is no longer known to be within the unread length
		for _, l := range x.Lhs {
			if id, ok := l.(*ast.Ident); ok && id.Name != "_" {
				delete(h.guards, h.node(h.info.ObjectOf(id)))
			}
		}
	case *ast.DeclStmt:
		if gd, ok := x.Decl.(*ast.GenDecl); ok {
			for _, sp := range gd.Specs {
				if vs, ok := sp.(*ast.ValueSpec); ok && len(vs.Values) > 0 {
					var lhs []ast.Expr
					for _, n := range vs.Names {
						lhs = append(lhs, n)
					}
					h.assign(lhs, vs.Values, x)
				}
			}
		}
	case *ast.ExprStmt:
		h.refs(x.X)
		h.consumes(x.X)
	case *ast.IfStmt:
		h.stmt(x.Init)
		h.refs(x.Cond)
		h.stmt(x.Body)
		h.stmt(x.Else)
		// if v > buf.Len() { ...return }   establishes  v <= buf.Len()  afterwards
		if be, ok := x.Cond.(*ast.BinaryExpr); ok && x.Else == nil && endsInReturn(x.Body) {
			var v ast.Expr
			if be.Op == token.GTR && isBufLen(h, be.Y) {
				v = be.X
			} else if be.Op == token.LSS && isBufLen(h, be.X) {
				v = be.Y
			}
			if id, ok := v.(*ast.Ident); ok {
				h.guards[h.node(h.info.ObjectOf(id))] = true
			}
		}
	case *ast.ForStmt:
		h.stmt(x.Init)
		if x.Cond != nil {
			h.refs(x.Cond)
		}
		h.stmt(x.Post)
		h.stmt(x.Body)
	case *ast.RangeStmt:
		r := h.refs(x.X)
		if x.Value != nil {
			if vt := h.typeOf(x.Value); vt == nil || !refFree(vt) {
				for _, d := range h.lhsRoots(x.Value) {
					if len(r) > 0 {
						h.edges = append(h.edges, hEdge{d, r, "range"})
					}
				}
			}
		}
		h.stmt(x.Body)
	case *ast.ReturnStmt:
		var srcs []string
		if len(x.Results) == 0 && h.fdecl.Type.Results != nil {
			for _, f := range h.fdecl.Type.Results.List {
				for _, n := range f.Names {
					if !refFree(h.info.ObjectOf(n).Type()) {
						srcs = append(srcs, h.node(h.info.ObjectOf(n)))
					}
				}
			}
		}
		srcs = append(srcs, h.allRefs(x.Results)...)
		if len(srcs) > 0 {
			h.edges = append(h.edges, hEdge{h.fn + ".ret", srcs, "return"})
		}
	case *ast.IncDecStmt:
	case *ast.DeferStmt:
		h.refs(x.Call)
	case *ast.SwitchStmt:
		h.stmt(x.Init)
		if x.Tag != nil {
			h.refs(x.Tag)
		}
		h.stmt(x.Body)
	case *ast.TypeSwitchStmt:
		h.stmt(x.Init)
		h.stmt(x.Assign)
		// the variable bound by  switch v := x.(type)  shares x
		if as, ok := x.Assign.(*ast.AssignStmt); ok && len(as.Rhs) == 1 {
			if ta, ok := as.Rhs[0].(*ast.TypeAssertExpr); ok {
				r := h.refs(ta.X)
				for _, cc := range x.Body.List {
					if obj := h.info.Implicits[cc]; obj != nil && len(r) > 0 {
						h.edges = append(h.edges, hEdge{h.node(obj), r, "type switch"})
					}
				}
			}
		}
		h.stmt(x.Body)
	case *ast.CaseClause:
		for _, e := range x.List {
			if tv, ok := h.info.Types[e]; !ok || !tv.IsType() {
				h.refs(e)
			}
		}
		for _, st := range x.Body {
			h.stmt(st)
		}
	case *ast.BranchStmt, *ast.EmptyStmt:
	default:
		h.unk(s, "statement outside the grammar")
	}
}

// reading from the buffer invalidates "v <= buf.Len()" facts
func (h *hx) consumes(e ast.Expr) {
	ast.Inspect(e, func(n ast.Node) bool {
		if c, ok := n.(*ast.CallExpr); ok {
			for _, a := range c.Args {
				if t := h.typeOf(a); t != nil && isBufferType(t) {
					h.guards = map[string]bool{}
				}
			}
			if sel, ok := c.Fun.(*ast.SelectorExpr); ok {
				if t := h.typeOf(sel.X); t != nil && isBufferType(t) && sel.Sel.Name != "Len" {
					h.guards = map[string]bool{}
				}
			}
		}
		return true
	})
}

func endsInReturn(b *ast.BlockStmt) bool {
	if len(b.List) == 0 {
		return false
	}
	_, ok := b.List[len(b.List)-1].(*ast.ReturnStmt)
	return ok
}

// analyse one package directory; nodes of a messages package are prefixed with its short name
func analyzeDir(root, rel, prefix string, acc *hx, readers, writerParams, decodeRecv *[]string) {
	dir := filepath.Join(root, rel)
	ents, err := os.ReadDir(dir)
	if err != nil {
		panic(err)
	}
	var files []*ast.File
	for _, e := range ents {
		n := e.Name()
		if strings.HasSuffix(n, ".go") && !strings.HasSuffix(n, "_test.go") {
			f, err := parser.ParseFile(fset, filepath.Join(dir, n), nil, 0)
			if err != nil {
				panic(terr{token.NoPos, err.Error()})
			}
			files = append(files, f)
		}
	}
	info := &gotypes.Info{Types: map[ast.Expr]gotypes.TypeAndValue{}, Uses: map[*ast.Ident]gotypes.Object{}, Defs: map[*ast.Ident]gotypes.Object{},
		Implicits: map[ast.Node]gotypes.Object{}, Selections: map[*ast.SelectorExpr]*gotypes.Selection{}}
	cwd, _ := os.Getwd()
	os.Chdir(dir) // module resolution (golang.org/x/exp/constraints, the codec package) by the source importer
	var terrs []string
	conf := gotypes.Config{Importer: importer.ForCompiler(fset, "source", nil), Error: func(err error) { terrs = append(terrs, err.Error()) }}
	pkg, _ := conf.Check(rel, fset, files, info)
	os.Chdir(cwd)
	if len(terrs) > 0 {
		panic(terr{token.NoPos, "helpers: type errors in " + rel + ": " + strings.Join(terrs, "; ")})
	}
	acc.info, acc.pkg, acc.prefix = info, pkg, prefix
	for _, f := range files {
		for _, d := range f.Decls {
			fd, ok := d.(*ast.FuncDecl)
			if !ok || fd.Body == nil {
				continue
			}
			acc.fn = prefix + fd.Name.Name
			if fd.Recv != nil {
				_, rt, _ := recvOf(fd)
				acc.fn = prefix + rt + "." + fd.Name.Name
			}
			acc.fdecl = fd
			acc.guards = map[string]bool{}
			acc.stmt(fd.Body)
			sig := info.Defs[fd.Name].Type().(*gotypes.Signature)
			hasBuf := false
			for i := 0; i < sig.Params().Len(); i++ {
				if isBufferType(sig.Params().At(i).Type()) {
					hasBuf = true
				}
			}
			if fd.Recv == nil && hasBuf && !refFree(sig.Results()) {
				*readers = append(*readers, acc.fn)
			}
			if fd.Recv == nil && hasBuf && refFree(sig.Results()) {
				for i := 0; i < sig.Params().Len(); i++ {
					if p := sig.Params().At(i); !isBufferType(p.Type()) && !refFree(p.Type()) {
						*writerParams = append(*writerParams, acc.node(p))
					}
				}
			}
			// a message: its Decode fills the receiver, its Encode reads it
			if fd.Recv != nil && hasBuf && len(fd.Recv.List) == 1 && len(fd.Recv.List[0].Names) == 1 {
				rv := acc.node(info.Defs[fd.Recv.List[0].Names[0]])
				switch fd.Name.Name {
				case "Decode":
					*decodeRecv = append(*decodeRecv, rv)
				case "Encode":
					*writerParams = append(*writerParams, rv)
				}
			}
		}
	}
}

func writeHelpers(root, path string) {
	h := &hx{}
	var readers, writerParams, decodeRecv []string
	analyzeDir(root, "codec", "", h, &readers, &writerParams, &decodeRecv)
	for _, d := range [][2]string{{"sse-bin/messages", "sse:"}, {"szse-bin/messages", "szse:"}, {"bjse-trade-bin/messages", "bjse:"},
		{"risk-bin/messages", "risk:"}, {"sample-bin/messages", "sample:"}} {
		analyzeDir(root, d[0], d[1], h, &readers, &writerParams, &decodeRecv)
	}
	sort.Strings(readers)
	// what a decoded message holds: whatever the Decode methods put into their receivers (and, through an interface or
	// element Decode call in the library, into nested messages)
	h.edges = append(h.edges, hEdge{"MSG", decodeRecv, "receivers of the messages' Decode methods"})

	var sb strings.Builder
	sb.WriteString("(* GENERATED by /verif/translator (helpers.go) from /repo/codec/*.go and the five messages packages on every run — do not edit, not committed. *)\n")
	sb.WriteString("From Coq Require Import List NArith Strings.String.\nImport ListNotations.\nFrom FP.Model Require Import Alias.\nLocal Open Scope N_scope.\n\n")
	// nodes are numbered in order of first appearance (the names are kept in comments and in node_names)
	ids := map[string]int{}
	var names []string
	id := func(n string) int {
		if v, ok := ids[n]; ok {
			return v
		}
		ids[n] = len(names) + 1
		names = append(names, n)
		return ids[n]
	}
	id("MSG")
	id("BUFMEM")
	sb.WriteString("Definition id_MSG : node := 1.     (* what a decoded message holds *)\nDefinition id_BUFMEM : node := 2.  (* the buffer's own backing array *)\n\n")
	sb.WriteString("Definition flow : list edge := [\n")
	for i, e := range h.edges {
		var ss, sn []string
		for _, s := range e.srcs {
			if s == "BUF" {
				ss = append(ss, "SBuf")
				sn = append(sn, "BUF")
			} else {
				ss = append(ss, fmt.Sprintf("SVar %d", id(s)))
				sn = append(sn, s)
			}
		}
		sep := ";"
		if i == len(h.edges)-1 {
			sep = ""
		}
		fmt.Fprintf(&sb, "  (%d, [%s])%s  (* %s <- %s : %s *)\n", id(e.dst), strings.Join(ss, "; "), sep, e.dst, strings.Join(sn, ", "), e.why)
	}
	sb.WriteString("].\n\n")
	nlist := func(l []string) string {
		var p []string
		for _, s := range l {
			p = append(p, fmt.Sprint(id(s)))
		}
		return "[" + strings.Join(p, "; ") + "]"
	}
	var rets []string
	for _, r := range readers {
		rets = append(rets, r+".ret")
	}
	fmt.Fprintf(&sb, "(* results of the library readers: %s *)\nDefinition reader_rets : list node := %s.\n\n", strings.Join(readers, " "), nlist(rets))
	fmt.Fprintf(&sb, "(* receivers of the %d Decode methods *)\nDefinition decode_receivers : list node := %s.\n\n", len(decodeRecv), nlist(decodeRecv))
	fmt.Fprintf(&sb, "(* value parameters of the library writers and receivers of the Encode methods *)\nDefinition writer_params : list node := %s.\n\n", nlist(writerParams))
	fmt.Fprintf(&sb, "Definition node_count : N := %d.\n\n", len(names))
	sb.WriteString("Local Open Scope string_scope.\n")
	sb.WriteString("Definition makes : list (string * string * list string) := [\n")
	for i, m := range h.makes {
		sep := ";"
		if i == len(h.makes)-1 {
			sep = ""
		}
		fmt.Fprintf(&sb, "  (%s, %s, %s)%s\n", coqString(m.fn), coqString(m.elem), coqStrList(m.sizes), sep)
	}
	sb.WriteString("].\n\n")
	keys := func(m map[string]bool) []string {
		var l []string
		for k := range m {
			l = append(l, k)
		}
		sort.Strings(l)
		return l
	}
	fmt.Fprintf(&sb, "(* methods the library calls on a bytes.Buffer, and functions outside the module it passes one to *)\nDefinition buffer_methods : list string := %s.\nDefinition buffer_sinks : list string := %s.\n\n", coqStrList(keys(h.bufMethods)), coqStrList(keys(h.bufSinks)))
	fmt.Fprintf(&sb, "Definition unknown_facts : list string := %s.\n", coqStrList(h.unknown))
	if err := os.WriteFile(path, []byte(sb.String()), 0o644); err != nil {
		panic(err)
	}
}
