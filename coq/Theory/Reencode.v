(* Theory/Reencode.v — whatever bytes a decoder accepts, re-encoding the result reproduces those bytes
   (C08); for frames, with the self-computed length and checksum replaced by their correct values. *)
From FP.Theory Require Export Tight.
From Coq Require Import ZifyBool ZifyNat ZifyN.
Local Open Scope N_scope.

(* a reader/writer pair: what the reader consumed is what the writer produces for the value read *)
Definition reenc {A} (rd : list byte -> res (A * list byte)) (wr : A -> res (list byte)) : Prop :=
  forall buf a rest, rd buf = Ok (a, rest) -> exists pre, buf = pre ++ rest /\ wr a = Ok pre.

Lemma read_basic_reenc le t : reenc (read_basic le t) (fun n => Ok (write_basic le t n)).
Proof.
  intros buf n rest H. destruct (read_basic_cases le t buf) as [[a [r [Hl [Hb Hr]]]]|[_ Hr]]; rewrite Hr in H; inversion H; subst.
  exists a. split; [reflexivity|]. unfold write_basic. rewrite <- Hl. rewrite int_bytes_val. reflexivity.
Qed.

Lemma read_fixed_reenc n pad lf : reenc (read_fixed n pad lf) (fun s => Ok (write_fixed n pad lf s)).
Proof.
  intros buf s rest H. unfold read_fixed in H. destruct (take n buf) as [[x r]|] eqn:E; [|discriminate]. inversion H; subst.
  apply take_spec in E. destruct E as [-> Hl]. exists x. split; [reflexivity|]. rewrite fixed_reencode by exact Hl. reflexivity.
Qed.

Lemma read_string_reenc le t : small t = true -> reenc (read_string le t) (write_string le t).
Proof.
  intros Hs buf s rest H. unfold read_string in H.
  destruct (read_basic_cases le t buf) as [[a [r0 [Hl [Hb Hr]]]]|[_ Hr]]; rewrite Hr in H; cbn [bind] in H; [|discriminate].
  assert (Hn : int_val (ord le) a < bound t) by (unfold bound; rewrite <- Hl; apply int_val_lt).
  rewrite (wire_count_small t _ Hs Hn) in H. cbn [bind] in H.
  destruct (takeN (int_val (ord le) a) r0) as [[s' r']|] eqn:E; [|discriminate]. inversion H; subst s' r'.
  apply takeN_spec in E. destruct E as [-> Hsl].
  exists (a ++ s). split; [rewrite Hb, app_assoc; reflexivity|].
  unfold write_string, length_prefix. rewrite Hsl. destruct (N.ltb_spec (int_val (ord le) a) (bound t)); [|lia]. cbn [bind].
  rewrite <- Hl. rewrite int_bytes_val. reflexivity.
Qed.

(* ---- counted loops; the writer may be a normalising one (objects), so it returns the value too ---- *)
Section ReencList.
  Context {A : Type}.
  Variable rd : list byte -> res (A * list byte).
  Variable wr : A -> res (A * list byte).
  Hypothesis Hre : forall buf a rest, rd buf = Ok (a, rest) -> exists pre, buf = pre ++ rest /\ wr a = Ok (a, pre).

  Lemma read_n_reenc fuel : forall cnt buf l rest, read_n rd fuel cnt buf = Ok (l, rest) ->
    exists pre, buf = pre ++ rest /\ lenN l = cnt /\ wr_each wr l = Ok (l, pre).
  Proof.
    induction fuel as [|fuel IH]; intros cnt buf l rest H; cbn [read_n] in H.
    - destruct (N.eqb_spec cnt 0) as [->|]; [|discriminate]. inversion H; subst. exists []. repeat split.
    - destruct (N.eqb_spec cnt 0) as [->|Hne]; [inversion H; subst; exists []; repeat split|].
      destruct (rd buf) as [[a r]|] eqn:Ea; cbn [bind] in H; [|discriminate].
      destruct (read_n rd fuel (N.pred cnt) r) as [[l' r']|] eqn:El; cbn [bind] in H; [|discriminate].
      inversion H; subst. destruct (Hre _ _ _ Ea) as [p1 [-> Hw]]. destruct (IH _ _ _ _ El) as [p2 [-> [Hlen Hws]]].
      exists (p1 ++ p2). split; [rewrite app_assoc; reflexivity|]. split; [rewrite lenN_cons; lia|].
      cbn [wr_each]. rewrite Hw. cbn [bind]. rewrite Hws. cbn [bind]. reflexivity.
  Qed.

  Lemma read_list_reenc le cnt buf l rest : small cnt = true -> read_list le cnt rd buf = Ok (l, rest) ->
    exists body, buf = (int_bytes (ord le) (width cnt) (lenN l) ++ body) ++ rest /\ lenN l < bound cnt /\ wr_each wr l = Ok (l, body).
  Proof.
    intros Hs H. unfold read_list in H.
    destruct (read_basic_cases le cnt buf) as [[a [r0 [Hl [Hb Hr]]]]|[_ Hr]]; rewrite Hr in H; cbn [bind] in H; [|discriminate].
    assert (Hn : int_val (ord le) a < bound cnt) by (unfold bound; rewrite <- Hl; apply int_val_lt).
    rewrite (wire_count_small cnt _ Hs Hn) in H. cbn [bind] in H.
    destruct (read_n_reenc _ _ _ _ _ H) as [body [-> [Hlen Hw]]].
    exists body. rewrite Hlen. split; [|split; [exact Hn|exact Hw]].
    rewrite Hb, <- Hl, int_bytes_val, app_assoc. reflexivity.
  Qed.
End ReencList.

Lemma plain_list_reenc {A} (rd : list byte -> res (A * list byte)) (wr : A -> res (list byte)) le cnt :
  small cnt = true -> reenc rd wr -> reenc (read_list le cnt rd) (write_list le cnt wr).
Proof.
  intros Hs Hre buf l rest H.
  destruct (read_list_reenc rd (fun x => match wr x with Ok b => Ok (x, b) | Fail f => Fail f end)) with (le := le) (cnt := cnt) (buf := buf) (l := l) (rest := rest)
    as [body [Hb [Hlen Hw]]]; [|exact Hs|exact H|].
  - intros b a r E. destruct (Hre _ _ _ E) as [pre [Hp Hwr]]. exists pre. split; [exact Hp|]. rewrite Hwr. reflexivity.
  - eexists. split; [exact Hb|]. unfold write_list, length_prefix. destruct (N.ltb_spec (lenN l) (bound cnt)); [|lia]. cbn [bind].
    rewrite write_each_as_wr in Hw. destruct (write_each wr l) as [b|]; [|discriminate]. inversion Hw; subst. reflexivity.
Qed.

Theorem r_prim_reenc p : prim_dec_ok p = true -> reenc (r_prim p) (w_prim p).
Proof.
  intros Hp buf v rest H. destruct p; cbn [prim_dec_ok r_prim] in *; try discriminate.
  - destruct (read_basic le t buf) as [[n r]|] eqn:E; cbn [bind] in H; [|discriminate]. inversion H; subst.
    destruct (read_basic_reenc le t _ _ _ E) as [pre [Hb Hw]]. exists pre. split; [exact Hb|exact Hw].
  - destruct (read_fixed n pad left buf) as [[s r]|] eqn:E; cbn [bind] in H; [|discriminate]. inversion H; subst.
    destruct (read_fixed_reenc n pad left _ _ _ E) as [pre [Hb Hw]]. exists pre. split; [exact Hb|exact Hw].
  - destruct (read_string le len buf) as [[s r]|] eqn:E; cbn [bind] in H; [|discriminate]. inversion H; subst.
    destruct (read_string_reenc le len Hp _ _ _ E) as [pre [Hb Hw]]. exists pre. split; [exact Hb|exact Hw].
  - destruct (read_basic_list le cnt elt buf) as [[l r]|] eqn:E; cbn [bind] in H; [|discriminate]. inversion H; subst.
    exact (plain_list_reenc _ _ le cnt Hp (read_basic_reenc le elt) _ _ _ E).
  - apply andb_true_iff in Hp. destruct Hp as [Hs _].
    destruct (read_fixed_list le cnt n pad left buf) as [[l r]|] eqn:E; cbn [bind] in H; [|discriminate]. inversion H; subst.
    exact (plain_list_reenc _ _ le cnt Hs (read_fixed_reenc n pad left) _ _ _ E).
  - apply andb_true_iff in Hp. destruct Hp as [Hs Hl].
    destruct (read_string_list le cnt len buf) as [[l r]|] eqn:E; cbn [bind] in H; [|discriminate]. inversion H; subst.
    exact (plain_list_reenc _ _ le cnt Hs (read_string_reenc le len Hl) _ _ _ E).
Qed.

(* ---------------- message level ---------------- *)
Section ReencMsg.
  Variable tables : list (N * table).
  Variable senc : N -> list value -> res (list value * list byte).
  Variable sdec : N -> list byte -> res (list value * list byte).
  Variable zero_rec : N -> option (list value).
  (* nested types re-encode to themselves exactly (they are plain types) *)
  Variable plain : N -> bool.
  Hypothesis Hre : forall t buf fs rest, plain t = true -> sdec t buf = Ok (fs, rest) -> exists pre, buf = pre ++ rest /\ senc t fs = Ok (fs, pre).

  Definition table_plain (tbl : N) : bool :=
    match find_table tables tbl with Some t => forallb (fun e => plain (snd e)) t | None => false end.

  Definition rkind_ok (k : kind) : bool :=
    match k with
    | KPrim p _ => prim_dec_ok p
    | KObjs _ cnt t => small cnt && plain t
    | KCall _ _ _ (DPtr t) | KCall _ _ _ (DVal t) => plain t
    | KCall _ _ _ (DSel tbl _) => table_plain tbl
    end.

  Lemma slookup_plain tbl kv ty : table_plain tbl = true -> slookup tables tbl kv = Ok ty -> plain ty = true.
  Proof.
    unfold table_plain, slookup. destruct (key_of_value kv) as [k|]; cbn [bind]; [|discriminate].
    destruct (find_table tables tbl) as [t|]; [|discriminate].
    intros Hg H. destruct (table_lookup t k) as [ty'|] eqn:E; [|discriminate]. inversion H; subst.
    apply table_lookup_in in E. rewrite forallb_forall in Hg. apply in_map_iff in E. destruct E as [e [He Hin]].
    subst. apply Hg. exact Hin.
  Qed.

  Lemma parse_obj_reenc t buf v rest : plain t = true -> parse_obj sdec t buf = Ok (v, rest) ->
    exists pre fs, buf = pre ++ rest /\ v = VObj t fs /\ senc t fs = Ok (fs, pre).
  Proof.
    intros Hp H. unfold parse_obj in H. destruct (sdec t buf) as [[fs r]|] eqn:E; cbn [bind] in H; [|discriminate].
    inversion H; subst. destruct (Hre _ _ _ _ Hp E) as [pre [Hb Hs]]. exists pre, fs. repeat split; assumption.
  Qed.

  Lemma kind_reenc done k buf v rest :
    rkind_ok k = true -> parse_kind tables sdec done k buf = Ok (v, rest) ->
    exists pre, buf = pre ++ rest /\ render_kind tables senc zero_rec done k v = Ok (v, pre).
  Proof.
    intros Hk H. destruct k as [p prop|le cnt t|f g prop d]; cbn [rkind_ok parse_kind render_kind] in *.
    - destruct (r_prim_reenc p Hk _ _ _ H) as [pre [Hb Hw]]. exists pre. split; [exact Hb|]. rewrite Hw. reflexivity.
    - apply andb_true_iff in Hk. destruct Hk as [Hs Hp].
      destruct (read_list le cnt (parse_obj sdec t) buf) as [[l r]|] eqn:E; cbn [bind] in H; [|discriminate]. inversion H; subst.
      destruct (read_list_reenc (parse_obj sdec t)
                  (fun x => match x with
                            | VObj t' fs => if t' =? t then match senc t' fs with Ok (fs', b) => Ok (VObj t' fs', b) | Fail ff => Fail ff end else Fail FUnmodelled
                            | VNil => Fail FPanic | _ => Fail FUnmodelled end)) with (le := le) (cnt := cnt) (buf := buf) (l := l) (rest := rest)
        as [body [Hb [Hlen Hw]]]; [|exact Hs|exact E|].
      + intros b a r E0. destruct (parse_obj_reenc _ _ _ _ Hp E0) as [pre [fs [Hb [-> Hsn]]]]. exists pre. split; [exact Hb|].
        rewrite N.eqb_refl, Hsn. reflexivity.
      + eexists. split; [exact Hb|]. unfold length_prefix. destruct (N.ltb_spec (lenN l) (bound cnt)); [|lia]. cbn [bind].
        rewrite render_objs_as_wr, Hw. cbn [bind]. reflexivity.
    - assert (Hobj : forall t, plain t = true -> parse_obj sdec t buf = Ok (v, rest) ->
                     exists pre, buf = pre ++ rest /\ (do v1 <- apply_fill tables zero_rec done f v; render_call senc g prop v1) = Ok (v, pre)).
      { intros t Hp E. destruct (parse_obj_reenc _ _ _ _ Hp E) as [pre [fs [Hb [-> Hsn]]]]. exists pre. split; [exact Hb|].
        assert (Hf : apply_fill tables zero_rec done f (VObj t fs) = Ok (VObj t fs)) by (destruct f; reflexivity).
        rewrite Hf. cbn [bind render_call]. rewrite Hsn. reflexivity. }
      destruct d as [t|t|tbl key].
      + apply (Hobj t Hk H).
      + apply (Hobj t Hk H).
      + destruct (get_field done key) as [kv|]; cbn [bind] in H; [|discriminate].
        destruct (slookup tables tbl kv) as [ty|] eqn:El; cbn [bind] in H; [|discriminate].
        apply (Hobj ty (slookup_plain _ _ _ Hk El) H).
  Qed.

  Lemma fields_reenc ks : forall done buf vs rest,
    forallb rkind_ok ks = true -> parse_fields tables sdec done ks buf = Ok (vs, rest) ->
    exists pre, buf = pre ++ rest /\ render_fields tables senc zero_rec done ks vs = Ok (vs, pre).
  Proof.
    induction ks as [|k ks IH]; intros done buf vs rest Hk H; cbn [parse_fields] in H.
    - inversion H; subst. exists []. split; reflexivity.
    - cbn [forallb] in Hk. apply andb_true_iff in Hk. destruct Hk as [Hk1 Hk2].
      destruct (parse_kind tables sdec done k buf) as [[v r1]|] eqn:E1; cbn [bind] in H; [|discriminate].
      destruct (parse_fields tables sdec (done ++ [v]) ks r1) as [[vs' r2]|] eqn:E2; cbn [bind] in H; [|discriminate].
      inversion H; subst. destruct (kind_reenc _ _ _ _ _ Hk1 E1) as [p1 [-> Hr1]]. destruct (IH _ _ _ _ Hk2 E2) as [p2 [-> Hr2]].
      exists (p1 ++ p2). split; [rewrite app_assoc; reflexivity|]. cbn [render_fields]. rewrite Hr1. cbn [bind]. rewrite Hr2. reflexivity.
  Qed.
End ReencMsg.

(* ---------------- the whole environment ---------------- *)
Fixpoint is_plain (ss : list sdef) (t : N) : bool :=
  match ss with
  | [] => false
  | sd :: rest => if sd_id sd =? t then match sd_schema sd with SPlain _ => true | SFrame _ _ _ _ _ => false end else is_plain rest t
  end.

Definition reenc_schema_ok (tables : list (N * table)) (plain : N -> bool) (s : schema) : bool :=
  match s with
  | SPlain ks => forallb (rkind_ok tables plain) ks
  | SFrame hdr _ tbl key _ => forallb is_hdr_kind hdr && table_plain tables plain tbl && Nat.ltb key (length hdr)
  end.
Fixpoint reenc_env_ok (tables : list (N * table)) (ss : list sdef) : bool :=
  match ss with
  | [] => true
  | sd :: rest => reenc_schema_ok tables (is_plain rest) (sd_schema sd) && reenc_env_ok tables rest
  end.

Theorem spec_reencode_plain tables reg : forall ss, reenc_env_ok tables ss = true ->
  forall t buf fs rest, is_plain ss t = true -> spec_dec_env tables ss t buf = Ok (fs, rest) ->
  exists pre, buf = pre ++ rest /\ spec_enc_env tables reg ss t fs = Ok (fs, pre).
Proof.
  induction ss as [|sd ss' IH]; intros Hok t buf fs rest Hp H; [discriminate|].
  cbn [reenc_env_ok] in Hok. apply andb_true_iff in Hok. destruct Hok as [Hs Hok].
  cbn [is_plain spec_dec_env spec_enc_env] in *.
  destruct (sd_id sd =? t); [|eapply IH; eassumption].
  destruct (sd_schema sd) as [ks|]; [|discriminate]. cbn [reenc_schema_ok spec_dec_schema spec_enc_schema] in *.
  eapply fields_reenc with (plain := is_plain ss'); try eassumption.
  intros t0 b f0 r0 Hp0 E0. eapply IH; eassumption.
Qed.

Lemma hdr_rkinds_ok tables plain hdr : forallb is_hdr_kind hdr = true -> forallb (rkind_ok tables plain) hdr = true.
Proof.
  induction hdr as [|k hdr IH]; intro H; [reflexivity|]. cbn [forallb] in *. apply andb_true_iff in H. destruct H as [A B].
  rewrite (IH B), andb_true_r. destruct k as [p pr| |]; try discriminate. destruct p; try discriminate. reflexivity.
Qed.

(* frames: the consumed bytes are header ++ 4 length bytes ++ body ++ checksum bytes; re-encoding reproduces the
   header and the body exactly and puts the correct length and checksum in the two computed slots *)
Theorem spec_reencode_frame tables reg ss sd rest' hdr le tbl key sum buf fs rest :
  ss = sd :: rest' -> sd_schema sd = SFrame hdr le tbl key sum -> reenc_env_ok tables ss = true -> sum_reg_ok reg sum = true ->
  spec_dec_env tables ss (sd_id sd) buf = Ok (fs, rest) ->
  exists hb l4 bb s4 fs' tb,
    buf = (hb ++ l4 ++ bb ++ s4) ++ rest /\ length l4 = 4%nat /\
    length s4 = (match sum with Some s => width (ss_rt s) | None => 0%nat end) /\
    spec_enc_env tables reg ss (sd_id sd) fs = Ok (fs', hb ++ int_bytes (ord le) 4 (u32_of_len (lenN bb)) ++ bb ++ tb) /\
    length tb = length s4 /\
    (* the fields other than the two computed ones are unchanged *)
    firstn (length hdr) fs' = firstn (length hdr) fs /\ nth_error fs' (S (length hdr)) = nth_error fs (S (length hdr)).
Proof.
  intros -> Hs Hok Hreg H. cbn [reenc_env_ok] in Hok. apply andb_true_iff in Hok. destruct Hok as [Hsc Hok].
  rewrite Hs in Hsc. cbn [reenc_schema_ok] in Hsc. apply andb_true_iff in Hsc. destruct Hsc as [Hsc Hkey].
  apply andb_true_iff in Hsc. destruct Hsc as [Hh Htb]. apply Nat.ltb_lt in Hkey.
  cbn [spec_dec_env spec_enc_env] in *. rewrite N.eqb_refl in *. rewrite Hs in *. cbn [spec_dec_schema spec_enc_schema] in *.
  set (senc := spec_enc_env tables reg rest') in *. set (sdec := spec_dec_env tables rest') in *.
  assert (Hre : forall t b f0 r0, is_plain rest' t = true -> sdec t b = Ok (f0, r0) -> exists pre, b = pre ++ r0 /\ senc t f0 = Ok (f0, pre)).
  { intros. eapply spec_reencode_plain; eassumption. }
  unfold frame_kinds in H. rewrite parse_fields_app in H.
  destruct (parse_fields tables sdec [] hdr buf) as [[hv r1]|] eqn:Eh; cbn [bind] in H; [|discriminate].
  destruct (fields_reenc tables senc sdec (szero_fields rest') (is_plain rest') Hre hdr [] buf hv r1 (hdr_rkinds_ok _ _ _ Hh) Eh) as [hb [-> Hrh]].
  pose proof (parse_fields_length _ _ _ _ _ _ _ Eh) as Hhl.
  cbn [app parse_fields parse_kind r_prim] in H.
  destruct (read_basic_cases le U32 r1) as [[l4 [r2 [Hl4 [-> Hr]]]]|[_ Hr]]; rewrite Hr in H; cbn [bind] in H; [|discriminate].
  unfold get_field in H. rewrite nth_error_app1 in H by lia.
  destruct (nth_error hv key) as [kv|] eqn:Ekv; cbn [bind] in H; [|discriminate].
  destruct (slookup tables tbl kv) as [ty|] eqn:El; cbn [bind] in H; [|discriminate].
  destruct (parse_obj sdec ty r2) as [[body r3]|] eqn:Eb; cbn [bind] in H; [|discriminate].
  destruct (parse_obj_reenc senc sdec (is_plain rest') Hre ty r2 body r3 (slookup_plain _ _ _ _ _ Htb El) Eb) as [bb [bfs [-> [-> Hsb]]]].
  unfold render_frame. rewrite <- Hhl.
  destruct sum as [s|].
  - cbn [parse_fields parse_kind r_prim] in H.
    destruct (read_basic_cases (ss_le s) (ss_rt s) r3) as [[s4 [r4 [Hl4s [-> Hr4]]]]|[_ Hr4]]; rewrite Hr4 in H; cbn [bind] in H; [|discriminate].
    inversion H; subst fs rest. clear H.
    rewrite firstn_app_exact, skipn_app_exact. rewrite Hrh. cbn [bind render_call]. rewrite Hsb. cbn [bind].
    set (fr := hb ++ int_bytes (ord le) 4 (u32_of_len (lenN bb)) ++ bb).
    assert (Hc : exists n, (match reg_get reg (ss_name s) with
              | Some sv => if ity_eqb (sv_rt sv) (ss_rt s) then Ok (VInt (calc (sv_alg sv) fr)) else Fail FPanic
              | None => Ok (VInt (int_val (ord (ss_le s)) s4)) end) = Ok (VInt n)).
    { cbn [sum_reg_ok] in Hreg. destruct (reg_get reg (ss_name s)) as [sv|]; [rewrite Hreg|]; eexists; reflexivity. }
    destruct Hc as [n Hc]. rewrite Hc. cbn [bind w_prim].
    exists hb, l4, bb, s4. eexists. exists (write_basic (ss_le s) (ss_rt s) n).
    split; [rewrite <- !app_assoc; reflexivity|]. split; [exact Hl4|]. split; [exact Hl4s|].
    split; [unfold fr; rewrite <- !app_assoc; reflexivity|]. split; [unfold write_basic; rewrite int_bytes_length; symmetry; exact Hl4s|].
    split; [rewrite !firstn_app_exact; reflexivity|].
    rewrite !nth_error_app2 by lia. replace (S (length hv) - length hv)%nat with 1%nat by lia. reflexivity.
  - inversion H; subst fs rest. clear H.
    rewrite firstn_app_exact, skipn_app_exact. rewrite Hrh. cbn [bind render_call]. rewrite Hsb. cbn [bind].
    exists hb, l4, bb, []. eexists. exists [].
    split; [rewrite app_nil_r, <- !app_assoc; reflexivity|]. split; [exact Hl4|]. split; [reflexivity|].
    split; [rewrite app_nil_r; reflexivity|]. split; [reflexivity|].
    split; [rewrite !firstn_app_exact; reflexivity|].
    rewrite !nth_error_app2 by lia. replace (S (length hv) - length hv)%nat with 1%nat by lia. reflexivity.
Qed.

Lemma reenc_env_ok_suffix tables pre : forall rest, reenc_env_ok tables (pre ++ rest) = true -> reenc_env_ok tables rest = true.
Proof.
  induction pre as [|x pre IH]; intros rest H; [exact H|]. cbn [app reenc_env_ok] in H.
  apply andb_true_iff in H. apply IH. tauto.
Qed.

Theorem spec_reencode_frame_in tables reg ss sd hdr le tbl key sum buf fs rest :
  In sd ss -> ids_unique ss = true -> sd_schema sd = SFrame hdr le tbl key sum ->
  reenc_env_ok tables ss = true -> sum_reg_ok reg sum = true ->
  spec_dec_env tables ss (sd_id sd) buf = Ok (fs, rest) ->
  exists hb l4 bb s4 fs' tb,
    buf = (hb ++ l4 ++ bb ++ s4) ++ rest /\ length l4 = 4%nat /\
    length s4 = (match sum with Some s => width (ss_rt s) | None => 0%nat end) /\
    spec_enc_env tables reg ss (sd_id sd) fs = Ok (fs', hb ++ int_bytes (ord le) 4 (u32_of_len (lenN bb)) ++ bb ++ tb) /\
    length tb = length s4 /\
    firstn (length hdr) fs' = firstn (length hdr) fs /\ nth_error fs' (S (length hdr)) = nth_error fs (S (length hdr)).
Proof.
  intros Hin Hu Hs Hok Hreg H. destruct (in_split _ _ Hin) as [pre [rest' ->]].
  pose proof (ids_unique_pre _ _ _ Hu) as Hp.
  rewrite spec_dec_skip in H by exact Hp. rewrite spec_enc_skip by exact Hp.
  eapply spec_reencode_frame; try eassumption; [reflexivity|]. eapply reenc_env_ok_suffix. exact Hok.
Qed.
