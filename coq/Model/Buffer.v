(* Model/Buffer.v — bytes.Buffer as the Go source has it (bytes/buffer.go: Write, grow, tryGrowByReslice, Grow, Next,
   Read, Reset, Bytes), over a heap of byte arrays that are never freed, so that a slice taken earlier (Next, Bytes)
   keeps pointing at the array it was cut from.  The one thing Go leaves to the runtime - the capacity of a newly
   allocated array (growSlice rounds up to a size class) - is an explicit argument [nc] of the operations that may
   allocate; the theorems hold for every [nc] that is large enough, the correspondence check passes the observed one.

   Sem.v models a buffer as the list of its unread bytes and Write as list append; Theory/BufferRefine.v proves that
   this is what the structure below does, for every history. *)
From FP.Lib Require Import Bytes.

Definition heap := list (list byte).
Record gbuf := mkbuf { arr : nat; off : nat; fin : nat }.      (* b.buf = heap[arr][:fin]; b.off = off *)
Record slice := mkslice { s_arr : nat; s_lo : nat; s_len : nat }.

Definition get (h : heap) (a : nat) : list byte := nth a h [].
Definition set_arr (h : heap) (a : nat) (l : list byte) : heap := firstn a h ++ l :: skipn (S a) h.

Definition cap (h : heap) (b : gbuf) : nat := length (get h (arr b)).
Definition unread (b : gbuf) : nat := fin b - off b.
Definition contents (h : heap) (b : gbuf) : list byte := firstn (unread b) (skipn (off b) (get h (arr b))).

(* copy(l[p:], bs) when bs fits *)
Definition blit (l : list byte) (p : nat) (bs : list byte) : list byte :=
  firstn p l ++ bs ++ skipn (p + length bs) l.

Definition reset (b : gbuf) : gbuf := mkbuf (arr b) 0 0.

(* tryGrowByReslice *)
Definition try_reslice (h : heap) (b : gbuf) (n : nat) : option (gbuf * nat) :=
  if n <=? cap h b - fin b then Some (mkbuf (arr b) (off b) (fin b + n), fin b) else None.

(* grow(n): the heap and buffer afterwards, and the index at which the n new bytes start; None: nc too small *)
Definition grow (nc : nat) (h : heap) (b : gbuf) (n : nat) : option (heap * gbuf * nat) :=
  let m := unread b in
  let b1 := if (m =? 0) && negb (off b =? 0) then reset b else b in
  match try_reslice h b1 n with
  | Some (b2, i) => Some (h, b2, i)
  | None =>
    let c := cap h b1 in
    let a := get h (arr b1) in
    if n <=? c / 2 - m then
      (* slide: copy(b.buf, b.buf[b.off:]) *)
      Some (set_arr h (arr b1) (blit a 0 (firstn m (skipn (off b1) a))), mkbuf (arr b1) 0 (m + n), m)
    else if nc <? m + n then None
    else
      (* growSlice: a new zeroed array of capacity nc with the unread bytes copied to its start *)
      Some (h ++ [firstn m (skipn (off b1) a) ++ repeat x00 (nc - m)], mkbuf (length h) 0 (m + n), m)
  end.

Definition write (nc : nat) (h : heap) (b : gbuf) (bs : list byte) : option (heap * gbuf) :=
  let n := length bs in
  match try_reslice h b n with
  | Some (b2, i) => Some (set_arr h (arr b2) (blit (get h (arr b2)) i bs), b2)
  | None =>
    match grow nc h b n with
    | Some (h1, b2, i) => Some (set_arr h1 (arr b2) (blit (get h1 (arr b2)) i bs), b2)
    | None => None
    end
  end.

(* Grow(n) *)
Definition grow_only (nc : nat) (h : heap) (b : gbuf) (n : nat) : option (heap * gbuf) :=
  match grow nc h b n with
  | Some (h1, b2, i) => Some (h1, mkbuf (arr b2) (off b2) i)
  | None => None
  end.

(* Next(k): a slice of the buffer's own array *)
Definition next (b : gbuf) (k : nat) : gbuf * slice :=
  let k' := Nat.min k (unread b) in
  (mkbuf (arr b) (off b + k') (fin b), mkslice (arr b) (off b) k').

(* Read(p) with len(p) = k: the bytes are copied out; an empty buffer is reset first *)
Definition read (h : heap) (b : gbuf) (k : nat) : gbuf * list byte :=
  if unread b =? 0 then (reset b, [])
  else let k' := Nat.min k (unread b) in
       (mkbuf (arr b) (off b + k') (fin b), firstn k' (skipn (off b) (get h (arr b)))).

(* io.ReadFull(buf, p) with len(p) = k, as io.ReadAtLeast runs it: Read until k bytes are there or Read fails; Read on an
   empty buffer resets it and returns io.EOF.  The result: the bytes obtained, and whether the call returned an error
   (io.EOF when nothing was read, io.ErrUnexpectedEOF otherwise).  binary.Read is ReadFull of the value's size. *)
Fixpoint read_loop (fuel : nat) (h : heap) (b : gbuf) (need : nat) (acc : list byte) : gbuf * list byte * bool :=
  match fuel with
  | O => (b, acc, true)
  | S f =>
    if need =? 0 then (b, acc, false)
    else if unread b =? 0 then (reset b, acc, true)
    else let (b', out) := read h b need in read_loop f h b' (need - length out) (acc ++ out)
  end.
Definition read_full (h : heap) (b : gbuf) (k : nat) : gbuf * list byte * bool := read_loop (S (S k)) h b k [].

(* Bytes() *)
Definition bytes_of (b : gbuf) : slice := mkslice (arr b) (off b) (unread b).

(* s[i:j], what a slice reads, copy(s[p:], bs) *)
Definition sub (s : slice) (i j : nat) : slice := mkslice (s_arr s) (s_lo s + i) (j - i).
Definition sread (h : heap) (s : slice) : list byte := firstn (s_len s) (skipn (s_lo s) (get h (s_arr s))).
Definition swrite (h : heap) (s : slice) (bs : list byte) : heap :=
  set_arr h (s_arr s) (blit (get h (s_arr s)) (s_lo s) bs).

(* ---- operation sequences (what the correspondence check runs on both sides) ---- *)
Inductive bop :=
 | BWrite (nc : nat) (bs : list byte)
 | BGrow (nc : nat) (n : nat)
 | BNext (k : nat)          (* the returned slice is remembered *)
 | BRead (k : nat)
 | BReadFull (k : nat)
 | BReset
 | BBytes                   (* the returned slice is remembered *)
 | BPoke (i : nat) (p : nat) (bs : list byte).   (* copy(remembered[i][p:], bs), when it fits; otherwise nothing *)

Record bstate := mkst { st_h : heap; st_b : gbuf; st_sl : list slice }.

Definition bstep (s : bstate) (o : bop) : option bstate :=
  match o with
  | BWrite nc bs => match write nc (st_h s) (st_b s) bs with Some (h, b) => Some (mkst h b (st_sl s)) | None => None end
  | BGrow nc n => match grow_only nc (st_h s) (st_b s) n with Some (h, b) => Some (mkst h b (st_sl s)) | None => None end
  | BNext k => let (b, sl) := next (st_b s) k in Some (mkst (st_h s) b (st_sl s ++ [sl]))
  | BRead k => let (b, _) := read (st_h s) (st_b s) k in Some (mkst (st_h s) b (st_sl s))
  | BReadFull k => let '(b, _, _) := read_full (st_h s) (st_b s) k in Some (mkst (st_h s) b (st_sl s))
  | BReset => Some (mkst (st_h s) (reset (st_b s)) (st_sl s))
  | BBytes => Some (mkst (st_h s) (st_b s) (st_sl s ++ [bytes_of (st_b s)]))
  | BPoke i p bs =>
      match nth_error (st_sl s) i with
      | Some sl => if p + length bs <=? s_len sl
                   then Some (mkst (swrite (st_h s) (sub sl p (s_len sl)) bs) (st_b s) (st_sl s))
                   else Some s
      | None => Some s
      end
  end.

(* the observation after each step: unread bytes, capacity, and what every remembered slice reads now *)
Definition observe (s : bstate) : list byte * nat * list (list byte) :=
  (contents (st_h s) (st_b s), cap (st_h s) (st_b s), map (sread (st_h s)) (st_sl s)).

Fixpoint brun (s : bstate) (os : list bop) : list (option (list byte * nat * list (list byte))) :=
  match os with
  | [] => []
  | o :: r => match bstep s o with
              | Some s' => Some (observe s') :: brun s' r
              | None => [None]
              end
  end.

Fixpoint bsteps (s : bstate) (os : list bop) : option bstate :=
  match os with
  | [] => Some s
  | o :: r => match bstep s o with Some s' => bsteps s' r | None => None end
  end.

(* bytes.NewBuffer(a[:k]) where a is the whole backing array *)
Definition new_buffer (a : list byte) (k : nat) : bstate := mkst [a] (mkbuf 0 0 k) [].

(* the abstract buffer of Sem.v: just the unread bytes *)
Definition astep (c : list byte) (o : bop) : list byte :=
  match o with
  | BWrite _ bs => c ++ bs
  | BGrow _ _ => c
  | BNext k => skipn k c
  | BRead k => skipn k c
  | BReadFull k => skipn k c
  | BReset => []
  | BBytes => c
  | BPoke _ _ _ => c      (* only for runs that poke nothing into the unread region: see BufferRefine *)
  end.
