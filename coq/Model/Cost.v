(* Model/Cost.v — how many bytes a decoder asks the allocator for (C10), as a function of the input alone.
   One definition per reader, following the Go text: every make(), every string(...) copy, every object built,
   the slots a list is pre-sized to and the slots append adds.  The counts are in model units (payload bytes plus
   the constants below for headers and rounding); the one-sided correspondence check compares them with
   runtime.MemStats.TotalAlloc deltas of the real Decode. *)
From FP.Spec Require Export Schema.
From Coq Require Import ZifyBool ZifyNat ZifyN.
Local Open Scope N_scope.

Definition c_scalar : N := 16.   (* binary.Read: its scratch bytes and the escaping target *)
Definition c_hdr : N := 32.      (* one allocation's header / size-class rounding *)

(* make([]byte, n) followed by string(b): at most two copies of the field *)
Definition fixed_cost (n : nat) : N := c_hdr + 2 * N.of_nat n.

(* ReadString: the length is compared with the unread bytes BEFORE make([]byte, length) *)
Definition string_cost (le : bool) (t : ity) (buf : list byte) : N :=
  c_scalar + match read_basic le t buf with
             | Ok (n, r) => match wire_count n with
                            | Ok n => if n <=? lenN r then c_hdr + 2 * n else 0
                            | Fail _ => 0
                            end
             | Fail _ => 0
             end.

(* the loop of a list reader: each iteration pays for the element and for the slot append may add *)
Fixpoint read_n_cost {A} (rd : list byte -> res (A * list byte)) (rdc : list byte -> N) (fuel : nat) (cnt : N) (buf : list byte) : N :=
  if cnt =? 0 then 0
  else match fuel with
       | O => 0
       | S f => rdc buf + match rd buf with Ok (_, r) => read_n_cost rd rdc f (N.pred cnt) r | Fail _ => 0 end
       end.

(* a list reader: result := make([]T, 0, min(count, buf.Len())), then the loop *)
Definition read_list_cost {A} (le : bool) (cnt : ity) (slot : N) (rd : list byte -> res (A * list byte)) (rdc : list byte -> N)
  (buf : list byte) : N :=
  c_scalar + match read_basic le cnt buf with
             | Ok (n, r) => match wire_count n with
                            | Ok n => c_hdr + slot * N.min n (lenN r)
                                      + read_n_cost rd (fun b => 2 * slot + rdc b) (list_fuel n r) n r
                            | Fail _ => 0
                            end
             | Fail _ => 0
             end.

Definition cost_prim (p : prim) (buf : list byte) : N :=
  match p with
  | PBasic _ _ => c_scalar
  | PFixed n _ _ => fixed_cost n
  | PString le len => string_cost le len buf
  | PBasicList le cnt elt => read_list_cost le cnt (N.of_nat (width elt)) (read_basic le elt) (fun _ => c_scalar) buf
  | PFixedList le cnt n pad lf => read_list_cost le cnt 16 (read_fixed n pad lf) (fun _ => fixed_cost n) buf
  | PStringList le cnt len => read_list_cost le cnt 16 (read_string le len) (string_cost le len) buf
  | PObjList _ _ _ => 0
  end.

(* in-memory size of a struct: one word per scalar, headers for text, lists, pointers and interfaces *)
Definition field_size (szrec : N -> N) (g : gotype) : N :=
  match g with
  | GInt _ => 8 | GStr => 16 | GInts _ | GStrs | GPtrs _ => 24 | GPtr _ => 8 | GIface => 16
  | GVal t => szrec t
  end.
Fixpoint size_sig (sg : list (N * list gotype)) (t : N) : N :=
  match sg with
  | [] => 0
  | (id, gs) :: rest => if id =? t then c_hdr + fold_right (fun g a => field_size (size_sig rest) g + a) 0 gs else size_sig rest t
  end.

Section CostSem.
  Variable tables : list (N * table).
  Variable dec_rec : N -> list byte -> res (list value * list byte).
  Variable cost_rec : N -> list byte -> N.
  Variable size : N -> N.

  (* a nested object: the struct (built by the factory / &T{} when absent) and whatever its own Decode allocates *)
  Definition obj_cost (t : N) (buf : list byte) : N := size t + cost_rec t buf.

  Definition cost_kind (done : list value) (k : kind) (buf : list byte) : N :=
    match k with
    | KPrim p _ => cost_prim p buf
    | KObjs le cnt tid => read_list_cost le cnt 8 (parse_obj dec_rec tid) (obj_cost tid) buf
    | KCall _ _ _ (DPtr t) => obj_cost t buf
    | KCall _ _ _ (DVal t) => obj_cost t buf
    | KCall _ _ _ (DSel tbl key) =>
        match (do kv <- get_field done key; slookup tables tbl kv) with
        | Ok ty => obj_cost ty buf
        | Fail _ => c_hdr                                   (* the error value *)
        end
    end.

  Fixpoint cost_fields (done : list value) (ks : list kind) (buf : list byte) : N :=
    match ks with
    | [] => 0
    | k :: ks' =>
        cost_kind done k buf +
        match parse_kind tables dec_rec done k buf with
        | Ok (v, r) => cost_fields (done ++ [v]) ks' r
        | Fail _ => c_hdr                                   (* the wrapped error *)
        end
    end.

  Definition cost_schema (s : schema) (buf : list byte) : N :=
    match s with
    | SPlain ks => cost_fields [] ks buf
    | SFrame hdr le_len tbl key sum => cost_fields [] (frame_kinds hdr le_len tbl key sum) buf
    end.
End CostSem.

Definition ssize (ss : list sdef) : N -> N := size_sig (sigs_of_sdefs ss).

Fixpoint cost_env (tables : list (N * table)) (ss : list sdef) (t : N) (buf : list byte) : N :=
  match ss with
  | [] => 0
  | sd :: rest =>
      if sd_id sd =? t
      then cost_schema tables (spec_dec_env tables rest) (cost_env tables rest) (ssize rest) (sd_schema sd) buf
      else cost_env tables rest t buf
  end.

(* what Decode of a top-level message of type t allocates on input buf (the receiver exists already) *)
Definition decode_cost (tables : list (N * table)) (ss : list sdef) (t : N) (buf : list byte) : N := cost_env tables ss t buf.
