(* Extract/ExtractBase.v — the executable model WITHOUT the translated message programs: enough for the primitive,
   checksum and registry correspondence slices, so that those do not depend on the message translator succeeding.
   Same extraction settings as Extract.v. *)
From Coq Require Extraction ExtrOcamlBasic.
From FP.Model Require Import Sem.
From FP.Extract Require Import Driver.
From FP.Model Require Import Cost.
Definition gen_world : world := {| w_env := nil; w_tables := nil; w_reg := nil |}.
Definition gen_decode_cost (t : N) (buf : list byte) : N := 0%N.
Extraction Language OCaml.
Extraction "model.ml" run_op gen_world n2b b2n gen_decode_cost.
