(* Theory/BufferRefine.v — bytes.Buffer (Model/Buffer.v) refines the list of its unread bytes: every operation does to
   [contents] what the abstract step does to the list, for every heap, offset, capacity and history; a back-fill through
   a FRESH Bytes() slice is a list update; arrays other than the buffer's own are never touched. *)
From FP.Model Require Import Buffer.
From FP.Lib Require Import Bytes.

Definition WF (h : heap) (b : gbuf) : Prop := arr b < length h /\ off b <= fin b /\ fin b <= cap h b.

(* ---- lists ---- *)
Lemma skipn_skipn' {A} (m n : nat) (l : list A) : skipn n (skipn m l) = skipn (m + n) l.
Proof.
  revert l. induction m as [|m IH]; intro l; cbn [skipn plus]; [reflexivity|].
  destruct l as [|x l]; [now rewrite skipn_nil | apply IH].
Qed.

Lemma split3 {A} (a : list A) i j : i <= j -> j <= length a ->
  a = firstn i a ++ firstn (j - i) (skipn i a) ++ skipn j a.
Proof.
  intros Hij Hj.
  rewrite <- (firstn_skipn i a) at 1. f_equal.
  rewrite <- (firstn_skipn (j - i) (skipn i a)) at 1. f_equal.
  rewrite skipn_skipn'. f_equal. lia.
Qed.

Lemma skipn_app_exact {A} (x y : list A) n : n = length x -> skipn n (x ++ y) = y.
Proof. intros ->. rewrite skipn_app, skipn_all, Nat.sub_diag. reflexivity. Qed.
Lemma firstn_app_exact {A} (x y : list A) n : n = length x -> firstn n (x ++ y) = x.
Proof. intros ->. rewrite firstn_app, firstn_all, Nat.sub_diag. cbn. apply app_nil_r. Qed.

Lemma blit_app3 (x y z bs : list byte) p : p = length x + length y ->
  blit (x ++ y ++ z) p bs = x ++ y ++ bs ++ skipn (length bs) z.
Proof.
  intros ->. unfold blit.
  replace (x ++ y ++ z) with ((x ++ y) ++ z) by (symmetry; apply app_assoc).
  rewrite firstn_app_exact by (rewrite app_length; reflexivity).
  rewrite <- app_assoc. do 3 f_equal.
  rewrite skipn_app, skipn_all2 by (rewrite app_length; lia).
  rewrite app_length. cbn [app]. f_equal. lia.
Qed.

Lemma blit_length (l bs : list byte) p : p + length bs <= length l -> length (blit l p bs) = length l.
Proof.
  intros H. unfold blit. rewrite !app_length, firstn_length, skipn_length. lia.
Qed.

(* ---- heaps ---- *)
Lemma get_set_same h a l : a < length h -> get (set_arr h a l) a = l.
Proof.
  intros H. unfold get, set_arr. rewrite app_nth2; rewrite firstn_length; [|lia].
  replace (a - Nat.min a (length h)) with 0 by lia. reflexivity.
Qed.
Lemma get_set_other h a a' l : a < length h -> a' <> a -> get (set_arr h a l) a' = get h a'.
Proof.
  intros H Hne. unfold get, set_arr.
  destruct (Nat.lt_ge_cases a' a) as [Hlt|Hge].
  - rewrite app_nth1 by (rewrite firstn_length; lia).
    rewrite <- (firstn_skipn a h) at 2. rewrite app_nth1 by (rewrite firstn_length; lia). reflexivity.
  - rewrite app_nth2 by (rewrite firstn_length; lia). rewrite firstn_length.
    replace (Nat.min a (length h)) with a by lia.
    destruct (a' - a) as [|k] eqn:E; [lia|]. cbn [nth].
    rewrite <- (firstn_skipn (S a) h) at 2. rewrite app_nth2; rewrite firstn_length; [|lia].
    f_equal. lia.
Qed.
Lemma length_set h a l : a < length h -> length (set_arr h a l) = length h.
Proof.
  intros H. unfold set_arr. rewrite app_length. cbn [length]. rewrite firstn_length, skipn_length. lia.
Qed.
Lemma get_app_new h x : get (h ++ [x]) (length h) = x.
Proof. unfold get. rewrite app_nth2, Nat.sub_diag by lia. reflexivity. Qed.
Lemma get_app_old h x a : a < length h -> get (h ++ [x]) a = get h a.
Proof. intros H. unfold get. apply app_nth1. exact H. Qed.

(* the three regions of the buffer's array *)
Lemma array_regions h b : WF h b ->
  get h (arr b) = firstn (off b) (get h (arr b)) ++ contents h b ++ skipn (fin b) (get h (arr b)).
Proof. intros (_ & H1 & H2). unfold contents, unread. apply split3; [exact H1 | exact H2]. Qed.

Lemma contents_length h b : WF h b -> length (contents h b) = unread b.
Proof.
  intros (_ & H1 & H2). unfold contents, unread, cap in *. rewrite firstn_length, skipn_length. lia.
Qed.

(* writing n bytes at fin into the same array, when they fit *)
Lemma reslice_write h b bs : WF h b -> length bs <= cap h b - fin b ->
  let b2 := mkbuf (arr b) (off b) (fin b + length bs) in
  let h2 := set_arr h (arr b) (blit (get h (arr b)) (fin b) bs) in
  WF h2 b2 /\ contents h2 b2 = contents h b ++ bs.
Proof.
  intros W Hfit b2 h2. pose proof W as (Ha & H1 & H2).
  assert (Hlen : length (blit (get h (arr b)) (fin b) bs) = length (get h (arr b)))
    by (apply blit_length; unfold cap in *; lia).
  split.
  - unfold WF, b2, h2, cap. cbn [arr off fin]. rewrite length_set, get_set_same by exact Ha. rewrite Hlen.
    unfold cap in *. lia.
  - unfold contents at 1. unfold b2, h2, unread. cbn [arr off fin]. rewrite get_set_same by exact Ha.
    rewrite (array_regions h b W) at 1.
    pose proof (contents_length h b W) as Hc. unfold unread in Hc.
    rewrite blit_app3 by (rewrite firstn_length, Hc; unfold cap in *; lia).
    rewrite skipn_app_exact by (rewrite firstn_length; unfold cap in *; lia).
    rewrite app_assoc. apply firstn_app_exact. rewrite app_length, Hc. lia.
Qed.

Lemma reset_wf h b : WF h b -> WF h (reset b).
Proof. intros (Ha & _ & _). unfold WF, reset. cbn. repeat split; lia. Qed.
Lemma reset_contents h b : contents h (reset b) = [].
Proof. unfold contents, reset, unread. cbn. reflexivity. Qed.

Lemma empty_contents h b : WF h b -> unread b = 0 -> contents h b = [].
Proof. intros W H. unfold contents. rewrite H. reflexivity. Qed.

(* grow: afterwards there is room for n bytes at the returned index, which is the end of the (unchanged) contents *)
Lemma grow_spec nc h b n h1 b2 i : WF h b -> grow nc h b n = Some (h1, b2, i) ->
  arr b2 < length h1 /\ i = off b2 + unread b /\ fin b2 = i + n /\ fin b2 <= cap h1 b2 /\
  firstn (unread b) (skipn (off b2) (get h1 (arr b2))) = contents h b /\
  (forall a, a < length h -> a <> arr b -> get h1 a = get h a) /\ length h <= length h1 /\
  (arr b2 = arr b \/ arr b2 = length h).
Proof.
  intros W. unfold grow.
  set (m := unread b).
  set (b1 := if (m =? 0) && negb (off b =? 0) then reset b else b).
  assert (W1 : WF h b1) by (unfold b1; destruct ((m =? 0) && negb (off b =? 0)); [apply reset_wf|]; exact W).
  assert (Hm1 : unread b1 = m).
  { unfold b1. destruct ((m =? 0) && negb (off b =? 0)) eqn:E; [|reflexivity].
    apply andb_true_iff in E. destruct E as [E _]. apply Nat.eqb_eq in E. unfold reset, unread. cbn. lia. }
  assert (Hc1 : contents h b1 = contents h b).
  { unfold b1. destruct ((m =? 0) && negb (off b =? 0)) eqn:E; [|reflexivity].
    apply andb_true_iff in E. destruct E as [E _]. apply Nat.eqb_eq in E.
    rewrite reset_contents. symmetry. apply empty_contents; assumption. }
  assert (Harr : arr b1 = arr b) by (unfold b1; destruct ((m =? 0) && negb (off b =? 0)); reflexivity).
  pose proof W1 as (Ha & H1 & H2).
  unfold try_reslice.
  destruct (n <=? cap h b1 - fin b1) eqn:Efit.
  - intros [= <- <- <-]. apply Nat.leb_le in Efit. cbn [arr off fin].
    repeat split; try lia.
    + unfold unread in *. lia.
    + unfold cap in *. cbn [arr]. lia.
    + rewrite <- Hc1. unfold contents. rewrite Hm1. reflexivity.
  - destruct (n <=? cap h b1 / 2 - m) eqn:Eslide.
    + intros [= <- <- <-]. apply Nat.leb_le in Eslide. cbn [arr off fin].
      assert (Hy : length (firstn m (skipn (off b1) (get h (arr b1)))) = m).
      { rewrite firstn_length, skipn_length. unfold unread, cap in *. lia. }
      assert (Hcap : m + n <= cap h b1).
      { assert (cap h b1 / 2 <= cap h b1) by (apply Nat.div_le_upper_bound; lia). lia. }
      assert (Hbl : length (blit (get h (arr b1)) 0 (firstn m (skipn (off b1) (get h (arr b1))))) = length (get h (arr b1))).
      { apply blit_length. rewrite Hy. unfold cap in *. lia. }
      repeat split; try lia.
      * rewrite length_set; exact Ha.
      * unfold cap. cbn [arr]. rewrite get_set_same by exact Ha. rewrite Hbl. exact Hcap.
      * rewrite get_set_same by exact Ha. cbn [skipn]. unfold blit. cbn [firstn app plus].
        rewrite firstn_app_exact by (symmetry; exact Hy).
        rewrite <- Hc1. unfold contents. rewrite Hm1. reflexivity.
      * intros a Hlt Hne. apply get_set_other; [exact Ha | congruence].
      * rewrite length_set by exact Ha. lia.
    + destruct (nc <? m + n) eqn:Enc; [discriminate|].
      intros [= <- <- <-]. apply Nat.ltb_ge in Enc. cbn [arr off fin].
      assert (Hy : length (firstn m (skipn (off b1) (get h (arr b1)))) = m).
      { rewrite firstn_length, skipn_length. unfold unread, cap in *. lia. }
      repeat split; try lia.
      * rewrite app_length. cbn. lia.
      * unfold cap. cbn [arr]. rewrite get_app_new, app_length, repeat_length, Hy. lia.
      * rewrite get_app_new. cbn [skipn]. rewrite firstn_app_exact by (symmetry; exact Hy).
        rewrite <- Hc1. unfold contents. rewrite Hm1. reflexivity.
      * intros a Hlt _. apply get_app_old. exact Hlt.
      * rewrite app_length. cbn. lia.
Qed.

Lemma gbuf_eta b : mkbuf (arr b) (off b) (fin b) = b.
Proof. destruct b; reflexivity. Qed.

(* writing into the room grow made *)
Lemma blit_after_grow h1 b2 i bs y : arr b2 < length h1 -> i = off b2 + length y -> fin b2 = i + length bs ->
  fin b2 <= cap h1 b2 -> firstn (length y) (skipn (off b2) (get h1 (arr b2))) = y ->
  let h2 := set_arr h1 (arr b2) (blit (get h1 (arr b2)) i bs) in
  WF h2 b2 /\ contents h2 b2 = y ++ bs.
Proof.
  intros Ha Hi Hfin Hcap Hy h2.
  set (b0 := mkbuf (arr b2) (off b2) i).
  assert (W0 : WF h1 b0) by (unfold WF, b0, cap in *; cbn [arr off fin]; lia).
  assert (Hc0 : contents h1 b0 = y).
  { unfold contents, b0, unread. cbn [arr off fin]. replace (i - off b2) with (length y) by lia. exact Hy. }
  assert (Hfit : length bs <= cap h1 b0 - fin b0) by (unfold cap, b0 in *; cbn [arr fin] in *; lia).
  pose proof (reslice_write h1 b0 bs W0 Hfit) as R. cbn zeta in R.
  rewrite Hc0 in R. unfold b0 in R. cbn [arr off fin] in R.
  rewrite <- Hfin, gbuf_eta in R. exact R.
Qed.

Theorem write_refines nc h b bs h' b' : WF h b -> write nc h b bs = Some (h', b') ->
  WF h' b' /\ contents h' b' = contents h b ++ bs.
Proof.
  intros W. unfold write, try_reslice.
  destruct (length bs <=? cap h b - fin b) eqn:Efit.
  - intros [= <- <-]. apply Nat.leb_le in Efit. cbn [arr]. apply (reslice_write h b bs W Efit).
  - destruct (grow nc h b (length bs)) as [[[h1 b2] i]|] eqn:G; [|discriminate].
    intros [= <- <-].
    pose proof (grow_spec _ _ _ _ _ _ _ W G) as (Ha & Hi & Hfin & Hcap & Hy & _ & _ & _).
    pose proof (contents_length h b W) as Hl. rewrite <- Hl in Hi, Hy.
    exact (blit_after_grow h1 b2 i bs (contents h b) Ha Hi Hfin Hcap Hy).
Qed.

Theorem write_total nc h b bs : WF h b -> unread b + length bs <= nc -> write nc h b bs <> None.
Proof.
  intros W Hnc. unfold write, grow, try_reslice.
  destruct (length bs <=? cap h b - fin b); [discriminate|].
  set (b1 := if (unread b =? 0) && negb (off b =? 0) then reset b else b).
  destruct (length bs <=? cap h b1 - fin b1); [discriminate|].
  destruct (length bs <=? cap h b1 / 2 - unread b); [discriminate|].
  destruct (nc <? unread b + length bs) eqn:E; [apply Nat.ltb_lt in E; lia | discriminate].
Qed.

Theorem grow_only_refines nc h b n h' b' : WF h b -> grow_only nc h b n = Some (h', b') ->
  WF h' b' /\ contents h' b' = contents h b /\ n <= cap h' b' - fin b'.
Proof.
  intros W. unfold grow_only. destruct (grow nc h b n) as [[[h1 b2] i]|] eqn:G; [|discriminate].
  intros [= <- <-].
  pose proof (grow_spec _ _ _ _ _ _ _ W G) as (Ha & Hi & Hfin & Hcap & Hy & _ & _ & _).
  repeat split; unfold cap in *; cbn [arr off fin]; try lia.
  unfold contents, unread. cbn [arr off fin]. replace (i - off b2) with (unread b) by lia. exact Hy.
Qed.

Theorem next_refines h b k : WF h b ->
  let (b', s) := next b k in
  WF h b' /\ contents h b' = skipn k (contents h b) /\ sread h s = firstn k (contents h b).
Proof.
  intros W. pose proof W as (Ha & H1 & H2). unfold next. cbv beta iota zeta.
  pose proof (contents_length h b W) as Hl.
  repeat split; unfold cap in *; cbn [arr off fin]; try (unfold unread in *; lia).
  - unfold contents at 1, unread. cbn [arr off fin].
    destruct (Nat.le_ge_cases k (unread b)) as [Hk|Hk].
    + rewrite Nat.min_l by exact Hk. unfold contents.
      rewrite skipn_firstn_comm, skipn_skipn'. unfold unread in *. f_equal. lia.
    + rewrite Nat.min_r by exact Hk. rewrite (@skipn_all2 _ k (contents h b)) by lia.
      unfold unread in *. replace (fin b - (off b + (fin b - off b))) with 0 by lia. reflexivity.
  - unfold sread. cbn [s_arr s_lo s_len]. unfold contents.
    rewrite firstn_firstn. reflexivity.
Qed.

Theorem read_refines h b k : WF h b ->
  let (b', out) := read h b k in
  WF h b' /\ contents h b' = skipn k (contents h b) /\ out = firstn k (contents h b).
Proof.
  intros W. unfold read. destruct (unread b =? 0) eqn:E.
  - apply Nat.eqb_eq in E. rewrite (empty_contents h b W E), skipn_nil, firstn_nil, reset_contents.
    split; [apply reset_wf; exact W | split; reflexivity].
  - pose proof (next_refines h b k W) as N. unfold next in N. cbv beta iota zeta in N.
    destruct N as (N1 & N2 & N3). split; [exact N1 | split; [exact N2 |]].
    unfold sread in N3. cbn [s_arr s_lo s_len] in N3. exact N3.
Qed.

(* io.ReadFull: all k bytes and no error when they are there; otherwise an error, and everything that was there is gone *)
Theorem read_full_refines h b k : WF h b ->
  let '(b', out, err) := read_full h b k in
  WF h b' /\ contents h b' = skipn k (contents h b) /\
  (k <= unread b -> out = firstn k (contents h b) /\ err = false) /\
  (unread b < k -> out = contents h b /\ err = true).
Proof.
  intros W. unfold read_full. cbn [read_loop].
  pose proof (contents_length h b W) as Hl.
  destruct (k =? 0) eqn:Ek.
  - apply Nat.eqb_eq in Ek. subst k. cbn [skipn firstn].
    split; [exact W|]. split; [reflexivity|]. split; [intros _; split; reflexivity | intros H; lia].
  - apply Nat.eqb_neq in Ek. destruct (unread b =? 0) eqn:Eu.
    + apply Nat.eqb_eq in Eu. rewrite (empty_contents h b W Eu), skipn_nil, reset_contents.
      split; [apply reset_wf; exact W|]. split; [reflexivity|]. split; [lia | intros _; split; reflexivity].
    + apply Nat.eqb_neq in Eu.
      pose proof (read_refines h b k W) as R. destruct (read h b k) as [b1 out1] eqn:E1.
      destruct R as (W1 & C1 & O1). cbn [app].
      assert (Lo : length out1 = Nat.min k (unread b)) by (rewrite O1, firstn_length, Hl; reflexivity).
      destruct (Nat.le_gt_cases k (unread b)) as [Hk|Hk].
      * (* everything in one Read *)
        rewrite Lo, Nat.min_l by exact Hk. rewrite Nat.sub_diag.
        destruct k as [|k']; [lia|]. cbn [read_loop Nat.eqb].
        split; [exact W1|]. split; [exact C1|]. split; [intros _; split; [exact O1 | reflexivity] | lia].
      * (* short: the first Read takes what is there, the second finds the buffer empty *)
        rewrite Lo, Nat.min_r by lia.
        assert (U1 : unread b1 = 0).
        { pose proof (contents_length h b1 W1) as L1. rewrite C1, skipn_length, Hl in L1. lia. }
        destruct k as [|k']; [lia|]. cbn [read_loop].
        destruct (S k' - unread b =? 0) eqn:E0; [apply Nat.eqb_eq in E0; lia|].
        rewrite U1. cbn [Nat.eqb].
        split; [apply reset_wf; exact W1|]. split.
        { rewrite reset_contents. symmetry. apply skipn_all2. lia. }
        split; [lia|]. intros _. split; [|reflexivity].
        rewrite O1. apply firstn_all2. lia.
Qed.

(* ---- the back-fill of a computed length field, as the frame encoders do it:
        binary.BigEndian.PutUint32(buf.Bytes()[p:p+4], n)  with Bytes() taken AFTER the body was written ---- *)
Theorem fresh_backfill h b p bs : WF h b -> p + length bs <= unread b ->
  let h' := swrite h (sub (bytes_of b) p (p + length bs)) bs in
  WF h' b /\ contents h' b = blit (contents h b) p bs.
Proof.
  intros W Hp h'. pose proof W as (Ha & H1 & H2).
  pose proof (contents_length h b W) as Hl.
  unfold h', swrite, sub, bytes_of. cbn [s_arr s_lo s_len].
  set (a := get h (arr b)).
  assert (Hbl : length (blit a (off b + p) bs) = length a) by (apply blit_length; unfold a, cap, unread in *; lia).
  split.
  - unfold WF, cap. rewrite length_set, get_set_same by exact Ha. fold a. rewrite Hbl. unfold cap in H2. fold a in H2. lia.
  - unfold contents at 1. rewrite get_set_same by exact Ha.
    (* a = pre ++ c ++ post, c = c1 ++ c2 ++ c3 *)
    pose proof (array_regions h b W) as R. fold a in R.
    set (c := contents h b) in *.
    pose proof (split3 c p (p + length bs) ltac:(lia) ltac:(lia)) as Rc.
    replace (p + length bs - p) with (length bs) in Rc by lia.
    set (c1 := firstn p c) in *. set (c2 := firstn (length bs) (skipn p c)) in *. set (c3 := skipn (p + length bs) c) in *.
    assert (L1 : length c1 = p) by (unfold c1; rewrite firstn_length; lia).
    assert (L2 : length c2 = length bs) by (unfold c2; rewrite firstn_length, skipn_length; lia).
    assert (Lpre : length (firstn (off b) a) = off b) by (rewrite firstn_length; unfold a, cap in *; lia).
    assert (Eb : blit c p bs = c1 ++ bs ++ c3).
    { unfold blit. fold c1 c3. reflexivity. }
    rewrite Eb. rewrite R at 1. rewrite Rc.
    replace (firstn (off b) a ++ (c1 ++ c2 ++ c3) ++ skipn (fin b) a)
      with ((firstn (off b) a ++ c1) ++ [] ++ (c2 ++ c3 ++ skipn (fin b) a))
      by (cbn [app]; rewrite <- !app_assoc; reflexivity).
    rewrite blit_app3 by (rewrite app_length; cbn [length]; lia).
    cbn [app]. rewrite <- app_assoc.
    rewrite skipn_app_exact by (symmetry; exact Lpre).
    rewrite skipn_app, skipn_all2, <- L2, Nat.sub_diag by lia. cbn [skipn app].
    replace (c1 ++ bs ++ c3 ++ skipn (fin b) a) with ((c1 ++ bs ++ c3) ++ skipn (fin b) a)
      by (rewrite <- !app_assoc; reflexivity).
    apply firstn_app_exact. rewrite !app_length. unfold c3. rewrite skipn_length. lia.
Qed.

(* ---- arrays other than the buffer's own are never written, and no array is ever removed: what a slice of ANOTHER
        array reads is unchanged by anything the buffer does ---- *)
Theorem write_frame nc h b bs h' b' a : WF h b -> write nc h b bs = Some (h', b') ->
  a < length h -> a <> arr b -> get h' a = get h a.
Proof.
  intros W. pose proof W as (Ha & _ & _). unfold write, try_reslice.
  destruct (length bs <=? cap h b - fin b).
  - intros [= <- <-] Hlt Hne. cbn [arr]. apply get_set_other; assumption.
  - destruct (grow nc h b (length bs)) as [[[h1 b2] i]|] eqn:G; [|discriminate].
    intros [= <- <-] Hlt Hne.
    pose proof (grow_spec _ _ _ _ _ _ _ W G) as (Ha2 & _ & _ & _ & _ & Hfr & Hlen & Hwhere).
    assert (Hne2 : a <> arr b2) by (destruct Hwhere as [E|E]; rewrite E; lia).
    rewrite get_set_other by assumption. apply Hfr; assumption.
Qed.

(* ---- every history: the unread bytes are what the abstract list steps give, provided the run pokes nothing ---- *)
Definition pokes (o : bop) : bool := match o with BPoke _ _ _ => true | _ => false end.

Lemma bstep_refines s o s' : WF (st_h s) (st_b s) -> pokes o = false -> bstep s o = Some s' ->
  WF (st_h s') (st_b s') /\ contents (st_h s') (st_b s') = astep (contents (st_h s) (st_b s)) o.
Proof.
  intros W Hp. destruct o as [nc bs|nc n|k|k|k| | |i p bs]; cbn [bstep astep pokes] in *; try discriminate.
  - destruct (write nc (st_h s) (st_b s) bs) as [[h b]|] eqn:E; [|discriminate].
    intros [= <-]. cbn [st_h st_b]. apply (write_refines _ _ _ _ _ _ W E).
  - destruct (grow_only nc (st_h s) (st_b s) n) as [[h b]|] eqn:E; [|discriminate].
    intros [= <-]. cbn [st_h st_b]. pose proof (grow_only_refines _ _ _ _ _ _ W E) as (A & B & _). split; assumption.
  - pose proof (next_refines (st_h s) (st_b s) k W) as N. destruct (next (st_b s) k) as [b sl].
    intros [= <-]. cbn [st_h st_b]. destruct N as (A & B & _). split; assumption.
  - pose proof (read_refines (st_h s) (st_b s) k W) as N. destruct (read (st_h s) (st_b s) k) as [b out].
    intros [= <-]. cbn [st_h st_b]. destruct N as (A & B & _). split; assumption.
  - pose proof (read_full_refines (st_h s) (st_b s) k W) as N. destruct (read_full (st_h s) (st_b s) k) as [[b out] err].
    intros [= <-]. cbn [st_h st_b]. destruct N as (A & B & _). split; assumption.
  - intros [= <-]. cbn [st_h st_b]. split; [apply reset_wf; exact W | apply reset_contents].
  - intros [= <-]. cbn [st_h st_b]. split; [exact W | reflexivity].
Qed.

Theorem buffer_refines_list os : forall s s', WF (st_h s) (st_b s) -> forallb (fun o => negb (pokes o)) os = true ->
  bsteps s os = Some s' ->
  WF (st_h s') (st_b s') /\ contents (st_h s') (st_b s') = fold_left astep os (contents (st_h s) (st_b s)).
Proof.
  induction os as [|o r IH]; intros s s' W Hp; cbn [bsteps fold_left].
  - intros [= <-]. split; [exact W | reflexivity].
  - cbn [forallb] in Hp. apply andb_true_iff in Hp. destruct Hp as [Ho Hr]. apply negb_true_iff in Ho.
    destruct (bstep s o) as [s1|] eqn:E; [|discriminate].
    intros Hrun. destruct (bstep_refines s o s1 W Ho E) as (W1 & C1).
    rewrite <- C1. apply IH; assumption.
Qed.

(* a message is written in many pieces (one binary.Write per field): whatever the pieces and the capacities the runtime
   picks along the way, the buffer afterwards holds what it held, followed by the pieces in order *)
Lemma fold_astep_writes (ws : list (nat * list byte)) : forall c,
  fold_left astep (map (fun w => BWrite (fst w) (snd w)) ws) c = c ++ concat (map snd ws).
Proof.
  induction ws as [|w ws IH]; intro c; cbn [map fold_left concat astep].
  - symmetry. apply app_nil_r.
  - rewrite IH, app_assoc. reflexivity.
Qed.

Theorem writes_concatenate ws s s' : WF (st_h s) (st_b s) ->
  bsteps s (map (fun w => BWrite (fst w) (snd w)) ws) = Some s' ->
  WF (st_h s') (st_b s') /\ contents (st_h s') (st_b s') = contents (st_h s) (st_b s) ++ concat (map snd ws).
Proof.
  intros W R.
  assert (Hp : forallb (fun o => negb (pokes o)) (map (fun w => BWrite (fst w) (snd w)) ws) = true).
  { clear. induction ws as [|w ws IH]; cbn; [reflexivity | exact IH]. }
  destruct (buffer_refines_list _ s s' W Hp R) as (W' & C). split; [exact W'|].
  rewrite C. apply fold_astep_writes.
Qed.

(* The frame encoders' pattern as a whole, on the concrete buffer: remember Len(), write a placeholder, write the body in
   any number of pieces (the buffer may slide or move to a new array at any of them), then put the length bytes through
   buf.Bytes()[pos:pos+k] taken afterwards.  Whatever the buffer's state before, it then holds what it held, the length
   bytes, and the body. *)
Theorem frame_pattern nc0 placeholder lenbytes ws s s1 : WF (st_h s) (st_b s) ->
  length placeholder = length lenbytes ->
  bsteps s (BWrite nc0 placeholder :: map (fun w => BWrite (fst w) (snd w)) ws) = Some s1 ->
  let pos := unread (st_b s) in
  let h' := swrite (st_h s1) (sub (bytes_of (st_b s1)) pos (pos + length lenbytes)) lenbytes in
  WF h' (st_b s1) /\
  contents h' (st_b s1) = contents (st_h s) (st_b s) ++ lenbytes ++ concat (map snd ws).
Proof.
  intros W Hl R pos h'.
  pose proof (writes_concatenate ((nc0, placeholder) :: ws) s s1 W R) as (W1 & C1).
  cbn [map snd concat] in C1.
  pose proof (contents_length _ _ W) as Lc. fold pos in Lc.
  pose proof (contents_length _ _ W1) as L1. rewrite C1, !app_length in L1.
  assert (Hfit : pos + length lenbytes <= unread (st_b s1)) by lia.
  destruct (fresh_backfill (st_h s1) (st_b s1) pos lenbytes W1 Hfit) as (W2 & C2).
  split; [exact W2|].
  fold h' in C2. rewrite C2, C1.
  set (c := contents (st_h s) (st_b s)) in *. set (rest := concat (map snd ws)).
  replace (c ++ placeholder ++ rest) with (c ++ [] ++ placeholder ++ rest) by reflexivity.
  rewrite blit_app3 by (cbn [length]; lia).
  cbn [app]. do 2 f_equal.
  rewrite skipn_app, <- Hl, skipn_all, Nat.sub_diag. reflexivity.
Qed.

Lemma new_buffer_wf a k : k <= length a -> WF (st_h (new_buffer a k)) (st_b (new_buffer a k)).
Proof. intros H. unfold WF, new_buffer, cap, get. cbn. lia. Qed.

(* ---- a slice kept across a Write: still the buffer's own bytes exactly when the Write needed no growth ---- *)
Lemma read_prefix {A} (x y1 y2 : list A) lo n : lo + n <= length x ->
  firstn n (skipn lo (x ++ y1)) = firstn n (skipn lo (x ++ y2)).
Proof.
  intros H. rewrite !skipn_app, !firstn_app, !skipn_length.
  replace (n - (length x - lo)) with 0 by lia. cbn [firstn]. reflexivity.
Qed.

Lemma blit_before (l bs : list byte) p lo n : p <= length l -> lo + n <= p ->
  firstn n (skipn lo (blit l p bs)) = firstn n (skipn lo l).
Proof.
  intros Hp H. unfold blit. rewrite <- (firstn_skipn p l) at 3.
  apply read_prefix. rewrite firstn_length. lia.
Qed.

Theorem retained_slice_if_room nc h b bs h' b' s : WF h b -> length bs <= cap h b - fin b ->
  s_arr s = arr b -> s_lo s + s_len s <= fin b ->
  write nc h b bs = Some (h', b') ->
  arr b' = arr b /\ off b' = off b /\ sread h' s = sread h s.
Proof.
  intros W Hfit Hs Hin. pose proof W as (Ha & H1 & H2). unfold write, try_reslice.
  apply Nat.leb_le in Hfit. rewrite Hfit. intros [= <- <-]. cbn [arr off fin].
  repeat split. unfold sread. rewrite Hs, get_set_same by exact Ha.
  apply blit_before; [exact H2 | exact Hin].
Qed.
