(* Spec/LParse.v — an independent parser of the pinned layout: what message a byte string denotes, said without
   reference to the message programs or to the schemas recognised from them (the decode side of C02).
   Fields left to right in the protocol's one byte order; nested parts by their own layouts; a selected body by the
   table entry of the discriminator decoded earlier; the frame's length and checksum fields are read as plain integers
   (this library's decoders do not verify them). *)
From FP.Spec Require Export Layout.
Local Open Scope N_scope.

Section LP.
  Variable tables : list (N * table).
  Variable le : bool.
  Variable lprec : N -> list byte -> res (list value * list byte).

  Definition lp_obj (t : N) (buf : list byte) : res (value * list byte) :=
    do '(fs, r) <- lprec t buf; Ok (VObj t fs, r).

  Definition lp_kind (done : list value) (k : lkind) (buf : list byte) : res (value * list byte) :=
    match k with
    | LInt t => r_prim (PBasic le t) buf
    | LFixed n pad lf => r_prim (PFixed n pad lf) buf
    | LText len => r_prim (PString le len) buf
    | LInts cnt elt => r_prim (PBasicList le cnt elt) buf
    | LFixeds cnt n pad lf => r_prim (PFixedList le cnt n pad lf) buf
    | LTexts cnt len => r_prim (PStringList le cnt len) buf
    | LObjs cnt t => do '(l, r) <- read_list le cnt (lp_obj t) buf; Ok (VObjs l, r)
    | LObj t _ _ => lp_obj t buf
    | LSel tbl key _ =>
        do kv <- get_field done key;
        do ty <- slookup tables tbl kv;
        lp_obj ty buf
    | LLen => r_prim (PBasic le U32) buf
    | LSum _ rt => r_prim (PBasic le rt) buf
    end.

  Fixpoint lp_fields (done : list value) (ks : list lkind) (buf : list byte) : res (list value * list byte) :=
    match ks with
    | [] => Ok ([], buf)
    | k :: ks' =>
        do '(v, r) <- lp_kind done k buf;
        do '(vs, r') <- lp_fields (done ++ [v]) ks' r;
        Ok (v :: vs, r')
    end.
End LP.

Fixpoint lparse (tables : list (N * table)) (order_of : N -> bool) (lts : list ltype) (t : N) (buf : list byte)
  : res (list value * list byte) :=
  match lts with
  | [] => Fail FUnmodelled
  | lt :: rest =>
      if lt_id lt =? t
      then lp_fields tables (order_of (lt_proto lt)) (lparse tables order_of rest) [] (lt_fields lt) buf
      else lparse tables order_of rest t buf
  end.
