(* Theory/AliasSound.v — a closed node set over-approximates, for every control flow, which variables can reach
   marked memory; and memory that is not reachable is not observable. *)
From Coq Require Import List NArith Bool Arith Lia.
Import ListNotations.
From FP.Model Require Import Alias.
From FP.Lib Require Import Bytes.

Lemma mem_true_iff x t : mem x t = true <-> In x t.
Proof.
  unfold mem. rewrite existsb_exists. split.
  - intros [y [Hin He]]. apply N.eqb_eq in He. subst. exact Hin.
  - intro H. exists x. split; [exact H|apply N.eqb_refl].
Qed.

Section Sound.
  Variable bad : region -> Prop.
  Variable bufhot : bool.
  Hypothesis Hbuf : bad 0 -> bufhot = true.
  Variable g : list edge.
  Variable t : list node.
  Hypothesis Hclosed : closedb bufhot g t = true.

  Definition clean (st : store) : Prop := forall x, mem x t = false -> forall r, In r (st x) -> ~ bad r.

  Lemma step_clean e st st' : In e g -> step_ok bad e st st' -> clean st -> clean st'.
  Proof.
    intros Hin [Hd Ho] Hc x Hx r Hr.
    destruct (N.eq_dec x (fst e)) as [->|Hne]; [|rewrite (Ho x Hne) in Hr; exact (Hc x Hx r Hr)].
    destruct (Hd r Hr) as [Hn|[Hold|[s [Hs Hev]]]]; [exact Hn|exact (Hc _ Hx r Hold)|].
    unfold closedb in Hclosed. rewrite forallb_forall in Hclosed. specialize (Hclosed e Hin).
    rewrite Hx in Hclosed. rewrite orb_false_r in Hclosed. apply negb_true_iff in Hclosed.
    assert (Hs' : src_in bufhot t s = false).
    { destruct (src_in bufhot t s) eqn:E; [|reflexivity].
      assert (existsb (src_in bufhot t) (snd e) = true) by (apply existsb_exists; exists s; split; assumption). congruence. }
    destruct s as [y|]; cbn [src_in eval] in *.
    - exact (Hc y Hs' r Hev).
    - destruct Hev as [<-|[]]. intro Hb. rewrite (Hbuf Hb) in Hs'. discriminate.
  Qed.

  Theorem run_clean st st' : run bad g st st' -> clean st -> clean st'.
  Proof. induction 1 as [st|st e st1 st2 Hin Hs Hr IH]; intro Hc; [exact Hc|]. apply IH. eapply step_clean; eassumption. Qed.
End Sound.

(* ---- what is not reachable is not observable ---- *)
(* a heap of cells: bytes plus pointers to other regions; what one sees from a region, to any depth *)
Record cell := { c_data : list byte; c_ptrs : list region }.
Definition heap := region -> cell.
Inductive view := View (data : list byte) (sub : list view).
Fixpoint look (n : nat) (h : heap) (r : region) : view :=
  match n with
  | O => View (c_data (h r)) []
  | S k => View (c_data (h r)) (map (look k h) (c_ptrs (h r)))
  end.

(* [rs] is closed under the heap's pointers *)
Definition ptr_closed (h : heap) (rs : list region) : Prop := forall r, In r rs -> incl (c_ptrs (h r)) rs.

Theorem unreachable_unobservable (bad : region -> Prop) (h h' : heap) (rs : list region) :
  ptr_closed h rs -> (forall r, In r rs -> ~ bad r) -> (forall r, ~ bad r -> h' r = h r) ->
  forall n r, In r rs -> look n h' r = look n h r.
Proof.
  intros Hcl Hnb Hsame. induction n as [|n IH]; intros r Hr; cbn [look]; rewrite (Hsame r (Hnb r Hr)); [reflexivity|].
  f_equal. apply map_ext_in. intros r' Hr'. apply IH. apply (Hcl r Hr). exact Hr'.
Qed.

(* ---- the two uses ---- *)
Definition is_buffer (r : region) : Prop := r = 0.

Theorem results_avoid_buffer (g : list edge) (t rets : list node) :
  closedb true g t = true -> forallb (fun x => negb (mem x t)) rets = true ->
  forall st st', (forall x r, In r (st x) -> r <> 0) -> run is_buffer g st st' ->
  forall f, In f rets -> forall r, In r (st' f) -> r <> 0.
Proof.
  intros Hcl Hrets st st' Hinit Hrun f Hf r Hr.
  assert (Hc : clean is_buffer t st').
  { eapply (run_clean is_buffer true (fun _ => eq_refl) g t Hcl); [exact Hrun|]. intros x _ r' Hr'. apply Hinit with x. exact Hr'. }
  apply (Hc f); [|exact Hr]. rewrite forallb_forall in Hrets. apply negb_true_iff. apply Hrets. exact Hf.
Qed.

Theorem buffer_mutation_invisible (g : list edge) (t rets : list node) :
  closedb true g t = true -> forallb (fun x => negb (mem x t)) rets = true ->
  forall st st' (h h' : heap), (forall x r, In r (st x) -> r <> 0) -> run is_buffer g st st' ->
  forall f, In f rets -> ptr_closed h (st' f) -> (forall r, r <> 0 -> h' r = h r) ->
  forall n r, In r (st' f) -> look n h' r = look n h r.
Proof.
  intros Hcl Hrets st st' h h' Hinit Hrun f Hf Hpc Hsame n r Hr.
  apply (unreachable_unobservable is_buffer h h' (st' f) Hpc); [|exact Hsame|exact Hr].
  intros r0 Hr0. exact (results_avoid_buffer g t rets Hcl Hrets st st' Hinit Hrun f Hf r0 Hr0).
Qed.

Theorem sink_avoids_marked (g : list edge) (t : list node) (sink : node) :
  closedb false g t = true -> mem sink t = false ->
  forall (msg : region -> Prop) st st',
  ~ msg 0 -> (forall x, mem x t = false -> forall r, In r (st x) -> ~ msg r) -> run msg g st st' ->
  forall r, In r (st' sink) -> ~ msg r.
Proof.
  intros Hcl Hsink msg st st' H0 Hinit Hrun r Hr.
  assert (Hc : clean msg t st').
  { eapply (run_clean msg false (fun Hb => False_ind _ (H0 Hb)) g t Hcl); [exact Hrun|exact Hinit]. }
  apply (Hc sink Hsink r Hr).
Qed.

(* ---- the meaning is not vacuous: a small library in which one reader copies and one does not ---- *)
Local Open Scope N_scope.
(* nodes: 1 = copy.b, 2 = copy.ret, 3 = zero.b, 4 = zero.ret *)
Definition toy : list edge := [(1, []); (2, [SVar 1]); (3, [SBuf]); (4, [SVar 3])].
Definition upd (st : store) (x : node) (v : list region) : store := fun y => if N.eqb y x then v else st y.

Example toy_closed : closedb true toy [4; 3] = true /\ mem 2 [4; 3] = false.
Proof. split; reflexivity. Qed.

Lemma step_upd bad (e : edge) st v :
  (forall r, In r v -> ~ bad r \/ In r (st (fst e)) \/ exists s, In s (snd e) /\ In r (eval st s)) ->
  step_ok bad e st (upd st (fst e) v).
Proof.
  intro H. split.
  - intros r Hr. unfold upd in Hr. rewrite N.eqb_refl in Hr. apply H. exact Hr.
  - intros x Hx. unfold upd. destruct (N.eqb_spec x (fst e)); [contradiction|reflexivity].
Qed.

(* the zero-copy reader really does hand out the buffer's memory: the analysis flags exactly what can happen *)
Example toy_zero_copy_reaches_buffer : exists st', run is_buffer toy (fun _ => []) st' /\ In 0%nat (st' 4) /\ st' 2 = [7%nat].
Proof.
  exists (upd (upd (upd (upd (fun _ => []) 1 [7%nat]) 2 [7%nat]) 3 [0%nat]) 4 [0%nat]).
  split; [|split; [left; reflexivity|reflexivity]].
  eapply run_step with (e := (1, [])); [left; reflexivity|apply (step_upd is_buffer _ _ [7%nat])|].
  { intros r [<-|[]]. left. unfold is_buffer. discriminate. }
  eapply run_step with (e := (2, [SVar 1])); [right; left; reflexivity|apply (step_upd is_buffer _ _ [7%nat])|].
  { intros r Hr. right. right. exists (SVar 1). split; [left; reflexivity|exact Hr]. }
  eapply run_step with (e := (3, [SBuf])); [right; right; left; reflexivity|apply (step_upd is_buffer _ _ [0%nat])|].
  { intros r Hr. right. right. exists SBuf. split; [left; reflexivity|exact Hr]. }
  eapply run_step with (e := (4, [SVar 3])); [right; right; right; left; reflexivity|apply (step_upd is_buffer _ _ [0%nat])|apply run_nil].
  intros r Hr. right. right. exists (SVar 3). split; [left; reflexivity|exact Hr].
Qed.
