(* Model/Checksum.v — hand-written model of the four Calc methods of codec/checksum.go and of the
   service registry as a sequential map.  Tied to the code by the service-level correspondence.
   Each Calc reads data.Bytes() (the unread part) and never writes: the model is a pure function
   of that byte list. *)
From FP.Lib Require Export Ints.
From Coq Require String.
From Coq Require Import ZifyBool ZifyNat ZifyN.
Local Open Scope N_scope.

(* ---- CRC16: crc = 0xFFFF; per byte: crc ^= b; 8 x (if crc&1 then (crc>>1)^0xA001 else crc>>1) ---- *)
Definition shift_step (poly : N) (crc : N) : N :=
  if N.testbit crc 0 then N.lxor (N.shiftr crc 1) poly else N.shiftr crc 1.
Definition shift8 (poly : N) (crc : N) : N :=
  shift_step poly (shift_step poly (shift_step poly (shift_step poly
  (shift_step poly (shift_step poly (shift_step poly (shift_step poly crc))))))).
Definition crc_step (poly : N) (crc : N) (b : byte) : N := shift8 poly (N.lxor crc (b2n b)).

Definition crc16_calc (bs : list byte) : N := fold_left (crc_step 40961 (* 0xA001 *)) bs 65535.

(* ---- CRC32: hash/crc32.ChecksumIEEE, represented by the reflected bitwise algorithm
        (stdlib code, possibly SIMD: modelled, tied only by correspondence) ---- *)
Definition crc32_calc (bs : list byte) : N :=
  N.lxor (fold_left (crc_step 3988292384 (* 0xEDB88320 *)) bs 4294967295) 4294967295.

(* ---- SSE_BIN: uint32 accumulator, checksum = (checksum + uint32(b)) & 0xFF ---- *)
Definition sse_step (acc : N) (b : byte) : N := N.land ((acc + b2n b) mod 4294967296) 255.
Definition sse_calc (bs : list byte) : N := fold_left sse_step bs 0.

(* ---- SZSE_BIN: int32 accumulator, checksum = (checksum + int32(b)) % 256 at every step.
        int32 addition wraps (two's complement); Go's % truncates toward zero (Z.rem). ---- *)
Definition wrap_i32 (z : Z) : Z := ((z + 2147483648) mod 4294967296 - 2147483648)%Z.
Definition szse_step (acc : Z) (b : byte) : Z := Z.rem (wrap_i32 (acc + Z.of_N (b2n b))) 256.
Definition szse_calc_z (bs : list byte) : Z := fold_left szse_step bs 0%Z.
(* the int32 result as a bit pattern (what WriteBasicType puts on the wire) *)
Definition bits_i32 (z : Z) : N := Z.to_N (z mod 4294967296)%Z.
Definition szse_calc (bs : list byte) : N := bits_i32 (szse_calc_z bs).

(* ---- services and registry ---- *)
Inductive alg := ACrc16 | ACrc32 | ASse | ASzse.
Definition alg_eqb (a b : alg) : bool :=
  match a, b with ACrc16, ACrc16 | ACrc32, ACrc32 | ASse, ASse | ASzse, ASzse => true | _, _ => false end.
Definition calc (a : alg) (bs : list byte) : N :=
  match a with ACrc16 => crc16_calc bs | ACrc32 => crc32_calc bs | ASse => sse_calc bs | ASzse => szse_calc bs end.

(* a registered service: the name its Algorithm() returns, which Calc it has, Calc's result type *)
Record service := { sv_name : String.string; sv_alg : alg; sv_rt : ity }.
Definition registry := list service.            (* at most one entry per name; see reg_register *)

Definition reg_get (r : registry) (name : String.string) : option service :=
  find (fun s => String.eqb (sv_name s) name) r.
Definition reg_register (r : registry) (s : service) : registry * bool :=
  match reg_get r (sv_name s) with Some _ => (r, false) | None => (r ++ [s], true) end.
Definition reg_remove (r : registry) (name : String.string) : registry :=
  filter (fun s => negb (String.eqb (sv_name s) name)) r.
Definition reg_init (svs : list service) : registry :=
  fold_left (fun r s => fst (reg_register r s)) svs [].
