(* Props/C02.v — every message is laid out on the wire exactly as the pinned protocol schema says. *)
From FP.Props Require Import Common C03.
From FP.Theory Require Import Uniform.
From FP.Pinned Require Import Pinned.
Import Coq.Strings.String.StringSyntax.
Delimit Scope string_scope with string.
Local Open Scope N_scope.

(* H_pin.  For every type, in declaration order: the layout of the schema recognised from the code - field by
   field: scalar type, fixed width / pad / side, prefix types, element types, nested and selected types with what
   happens to an absent part, the frame's computed length and checksum algorithm - equals the committed pinned
   layout, under the protocol's single byte order.  Tables and PDSL version strings likewise. *)
Definition layouts_match : bool :=
  (length schemas =? length pinned_layouts)%nat &&
  forallb (fun '(sd, lt) => (sd_id sd =? lt_id lt) && layout_matches (order_of (lt_proto lt)) (sd_schema sd) (lt_fields lt))
          (combine schemas pinned_layouts).
Lemma H_pin_layouts : layouts_match = true.
Proof. vm_compute. reflexivity. Qed.
Lemma H_pin_tables : tables = pinned_tables.
Proof. vm_compute. reflexivity. Qed.
Definition versions_match : bool :=
  forallb (fun '(pkg, ver) =>
             existsb (fun x => match x with (_, pkg', _, ver') => String.eqb pkg pkg' && String.eqb ver ver' end) pinned_protocols)
          versions.
Lemma H_pin_versions : versions_match = true.
Proof. vm_compute. reflexivity. Qed.

(* What the layouts mean.  The programs found in /repo behave as their schemas on every buffer and receiver
   (Common.encode_spec / decode_spec); the schema's layout is the pinned one (H_pin); a layout field determines
   the schema kind up to error-propagation flags, which do not affect bytes.  Two statements make this concrete: *)

(* (1) encode and decode of every type are functions of the recognised schema list alone *)
Theorem C02_code_behaves_as_schema : forall t fs r buf,
  (typed t fs = true -> encode t fs buf = lift (senc t fs) buf) /\
  (receiver_ok t r = true -> decode t r buf = sdec t buf).
Proof. exact (fun t fs r buf => conj (encode_spec t fs buf) (decode_spec t r buf)). Qed.

(* (2) the schema of every type erases to exactly the pinned layout under the protocol's byte order *)
Theorem C02_schema_is_pinned_layout : forall sd lt,
  In (sd, lt) (combine schemas pinned_layouts) ->
  sd_id sd = lt_id lt /\ layout_of (order_of (lt_proto lt)) (sd_schema sd) = Some (lt_fields lt).
Proof.
  intros sd lt Hin. pose proof H_pin_layouts as H. unfold layouts_match in H. apply andb_true_iff in H. destruct H as [_ H].
  rewrite forallb_forall in H. specialize (H (sd, lt) Hin). cbn beta iota in H.
  apply andb_true_iff in H. destruct H as [H1 H2]. split; [apply N.eqb_eq; exact H1|].
  unfold layout_matches in H2. destruct (layout_of (order_of (lt_proto lt)) (sd_schema sd)) as [l'|]; [|discriminate].
  destruct (list_eq_dec lkind_eq_dec l' (lt_fields lt)) as [->|]; [reflexivity|discriminate].
Qed.

(* non-vacuity: the SSE frame's pinned layout, and a concrete encoding laid out accordingly *)
Example C02_sse_frame_layout :
  option_map lt_fields (find (fun lt => lt_id lt =? id_sse_bin_SseBinary) pinned_layouts)
  = Some [LInt U32; LInt U64; LLen; LSel 13 0 NilSkip; LSum "SSE_BIN"%string U32].
Proof. vm_compute. reflexivity. Qed.
Example C02_nonvacuous :
  encode id_sse_bin_SseBinary [VInt 33; VInt 258; VInt 0; VObj id_sse_bin_Heartbeat []; VInt 0] []
  = Ok ([VInt 33; VInt 258; VInt 0; VObj id_sse_bin_Heartbeat []; VInt 36],
        [x00; x00; x00; x21;  x00; x00; x00; x00; x00; x00; x01; x02;  x00; x00; x00; x00;  x00; x00; x00; x24]).
Proof. vm_compute. reflexivity. Qed.

Print Assumptions C02_code_behaves_as_schema.
Print Assumptions C02_schema_is_pinned_layout.
