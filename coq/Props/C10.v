(* Props/C10.v — decoding allocates memory in proportion to the input, never to a claimed length. *)
From FP.Props Require Import Common C09.
From FP.Theory Require Import DecSafe CostBound Steps.
From FP.Gen Require Import Helpers.
From Coq Require Import Strings.String.
Local Open Scope N_scope.

(* ---- obligations on the library's make() sites, as the translator classified them (helpers.go) ---- *)
(* every size passed to make in codec/*.go is a constant, is capped by the unread length (min(count, buf.Len())),
   was compared with the unread length on the path to the make (if length > buf.Len() { return }), or is the
   declared width of a fixed field - which is what the allocation model below assumes *)
Definition ok_size (s : string) : bool :=
  existsb (String.eqb s) ["const:0"; "buflen"; "guarded"; "param:fixedLen"]%string.
Lemma H_makes : forallb (fun m => forallb ok_size (snd m)) makes = true.
Proof. vm_compute. reflexivity. Qed.
Lemma H_no_unknown : unknown_facts = [].
Proof. reflexivity. Qed.

(* ---- obligations on the recognised schemas ---- *)
(* every nested type, list element type and table target is a declared type (so its own bound applies) *)
Lemma H_cost_ok : cost_ok_env tables schemas = true.
Proof. vm_compute. reflexivity. Qed.
(* the constants: over all 170 types, the type-dependent constant and the per-byte rate of the model *)
Definition S_max : N := 3072.
Definition K_max : N := 96.
Lemma H_constants : forallb (fun t => (S_env tables schemas t <=? S_max) && (K_env tables schemas t <=? K_max)) (map ty_id env) = true.
Proof. vm_compute. reflexivity. Qed.

Notation cost := (decode_cost tables schemas).

Lemma known_in t : known t = true -> In t (map ty_id env) .
Proof.
  unfold known. intro H. pose proof C09_all_types_known as Hall.
  assert (Hids : map sd_id schemas = map ty_id env) by (vm_compute; reflexivity).
  rewrite <- Hids. clear Hall Hids. induction schemas as [|sd rest IH]; cbn [has_id map] in *; [discriminate|].
  apply orb_true_iff in H. destruct H as [H|H]; [left; apply N.eqb_eq; exact H|right; apply IH; exact H].
Qed.

Lemma constants t : known t = true -> S_env tables schemas t <= S_max /\ K_env tables schemas t <= K_max.
Proof.
  intro Hk. pose proof H_constants as H. rewrite forallb_forall in H. specialize (H t (known_in t Hk)).
  apply andb_true_iff in H. destruct H as [H1 H2]. apply N.leb_le in H1. apply N.leb_le in H2. split; assumption.
Qed.

(* C10.  For every message type and EVERY byte string - valid, truncated, or with maximal length and count
   fields - what Decode asks the allocator for is at most a constant plus a constant multiple of the number of
   input bytes actually present. *)
Theorem C10_allocation_bounded_by_input : forall t buf, known t = true -> cost t buf <= S_max + K_max * lenN buf.
Proof.
  intros t buf Hk. destruct (constants t Hk) as [HS HK].
  pose proof (proj1 (cost_env_bound tables schemas H_dec_safe H_cost_ok t Hk buf)) as H. unfold decode_cost.
  pose proof (N.mul_le_mono_r _ _ (lenN buf) HK). lia.
Qed.

(* ... and when Decode succeeds, of the number of bytes it consumed: trailing data costs nothing *)
Theorem C10_allocation_bounded_by_consumption : forall t r buf fs rest,
  known t = true -> receiver_ok t r = true -> decode t r buf = Ok (fs, rest) ->
  exists pre, buf = pre ++ rest /\ cost t buf <= S_max + K_max * lenN pre.
Proof.
  intros t r buf fs rest Hk Hr E. rewrite decode_spec in E by exact Hr. destruct (constants t Hk) as [HS HK].
  destruct (proj2 (cost_env_bound tables schemas H_dec_safe H_cost_ok t Hk buf) fs rest E) as [pre [-> [_ Hc]]].
  exists pre. split; [reflexivity|]. unfold decode_cost. pose proof (N.mul_le_mono_r _ _ (lenN pre) HK). lia.
Qed.

(* a length or count field cannot reserve space for data that is not there: the reservation of every reader,
   on every input, is bounded through the bytes left after the prefix *)
Theorem C10_claimed_lengths_are_not_trusted : forall p buf, cost_prim p buf <= prim_S p + prim_K p * lenN buf.
Proof. exact cost_prim_any. Qed.

(* the same bound for WORK (C09: no input makes a decoder run long): reader calls + loop iterations + nested decodes,
   counted on the same recursion with unit charges, never exceed the allocation count *)
Theorem C09_work_bounded_by_input : forall t buf, known t = true -> steps_env tables schemas t buf <= S_max + K_max * lenN buf.
Proof.
  intros t buf Hk. exact (steps_bound tables schemas t buf _ (C10_allocation_bounded_by_input t buf Hk)).
Qed.
Example C09_work_nonvacuous :
  steps_env tables schemas id_risk_bin_NewOrder [x00; x00; x00; x02; x41; x42] = 3 /\
  2 <=? steps_env tables schemas id_szse_bin_SzseBinary [x00; x00; x00; x09; x00; x00; x00; x04; xff; xff; xff; xff] = true.
Proof. vm_compute. split; reflexivity. Qed.

(* non-vacuity and the anchors' examples: 7 bytes claiming a 4 GiB text, a frame claiming 2^32-1 list elements *)
Example C10_hostile_inputs :
  cost id_risk_bin_NewOrder [xff; xff; xff; xf0; x00; x00; x00] <=? 200 = true /\
  cost id_szse_bin_SzseBinary [x00; x00; x00; x09; x00; x00; x00; x04; xff; xff; xff; xff] <=? 1000 = true /\
  0 <? cost id_risk_bin_NewOrder [x00; x00; x00; x02; x41; x42] = true.
Proof. vm_compute. repeat split; reflexivity. Qed.

Print Assumptions C10_allocation_bounded_by_input.
Print Assumptions C10_allocation_bounded_by_consumption.
Print Assumptions C10_claimed_lengths_are_not_trusted.
Print Assumptions C09_work_bounded_by_input.
