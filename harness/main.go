package main

// harness: runs the real fin-proto-go code for (a) correspondence with the Coq model and
// (b) the direct property oracles that search for a concrete failing input.

import (
	"encoding/json"
	"flag"
	"fmt"
	"os"
	"strconv"
	"strings"
)

type corrReport struct {
	Files   map[string]int      `json:"files"`
	Stats   map[string][]string `json:"stats"`
	Samples map[string][]string `json:"samples"`
	Seed    uint64              `json:"seed"`
}

func parseOnly(s string) map[int]bool {
	if s == "" {
		return nil
	}
	m := map[int]bool{}
	for _, x := range strings.Split(s, ",") {
		v, err := strconv.Atoi(x)
		if err == nil {
			m[v] = true
		}
	}
	return m
}

func main() {
	initRegistry()
	initFrames()
	if _, err := os.Stat(pinnedPath); err == nil {
		loadPinned()
	}
	if len(os.Args) < 2 {
		fmt.Fprintln(os.Stderr, "usage: harness corr|oracle|replay ...")
		os.Exit(2)
	}
	switch os.Args[1] {
	case "corr":
		fs := flag.NewFlagSet("corr", flag.ExitOnError)
		out := fs.String("out", ".", "output directory")
		seed := fs.Uint64("seed", 1, "seed")
		thorough := fs.Bool("thorough", false, "thorough tier")
		fs.BoolVar(&exhaustive2, "exhaustive", false, "with -thorough: also every 0/1/2-byte input into every small reader")
		rounds := fs.Int("rounds", 6, "message rounds per type")
		slices := fs.String("slices", "prim,calc,msg", "which case files to emit")
		only := fs.String("types", "", "restrict message cases to these type ids")
		kinds := fs.String("kinds", "", "restrict primitive cases to these helper families")
		fs.Parse(os.Args[2:])
		if *kinds != "" {
			primKinds = map[string]bool{}
			for _, k := range strings.Split(*kinds, ",") {
				primKinds[k] = true
			}
		}
		rep := corrReport{Files: map[string]int{}, Stats: map[string][]string{}, Samples: map[string][]string{}, Seed: *seed}
		root := &rng{s: *seed}
		for _, sl := range strings.Split(*slices, ",") {
			w := newCaseWriter(*out, sl)
			r := &rng{s: root.s ^ uint64(len(sl))*0x9E3779B97F4A7C15 ^ uint64(sl[0])}
			switch sl {
			case "prim":
				emitPrimCases(w, r, *thorough)
			case "calc":
				emitCalcCases(w, r, *thorough)
			case "cost":
				emitCostCases(w, r, *rounds, *thorough)
			case "reg":
				emitRegCases(w, r, *thorough)
			case "buf":
				emitBufCases(w, r, *thorough)
			case "msg":
				emitMsgCases(w, r, *rounds, parseOnly(*only))
			default:
				fmt.Fprintln(os.Stderr, "unknown slice", sl)
				os.Exit(2)
			}
			w.close()
			rep.Files[sl] = w.n
			rep.Stats[sl] = statsSorted(w.stats)
			rep.Samples[sl] = w.samples
		}
		b, _ := json.MarshalIndent(rep, "", " ")
		os.WriteFile(*out+"/corr.json", b, 0o644)
	case "oracle":
		runOracles(os.Args[2:])
	default:
		fmt.Fprintln(os.Stderr, "unknown subcommand", os.Args[1])
		os.Exit(2)
	}
}
