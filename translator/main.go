// translator: /repo Go sources -> coq/Gen/Programs.v (deep-embedded IR), gen/types.json, harness/types_gen.go.
//
// Syntax-directed and dumb on purpose: one Go statement maps to one IR constructor (DESIGN.md
// Appendix A); nothing is "recognised" here.  Any construct outside the grammar is an error
// (exit status 2, file:line printed), which the orchestrator reports as a broken obligation.
package main

import (
	"encoding/json"
	"flag"
	"fmt"
	"go/ast"
	"go/parser"
	"go/token"
	"os"
	"path/filepath"
	"sort"
	"strconv"
	"strings"
)

var fset = token.NewFileSet()

type terr struct {
	pos token.Pos
	msg string
}

func fail(pos token.Pos, format string, args ...any) {
	panic(terr{pos, fmt.Sprintf(format, args...)})
}

// ---------- IR (printed as Coq) ----------
type Field struct {
	Name string
	Kind string // int, str, ints, strs, ptr, val, iface, ptrs
	Ity  string // for int/ints
	Ref  string // type name for ptr/val/ptrs
	GoTy string
}

type Spec struct {
	Kind          string // basic fixed string basiclist fixedlist stringlist objlist
	Le            bool
	Ity, Cnt, Len string
	N             int
	Pad           int
	Left          bool
	Ref           string
	Tbl, Key      int // for iface fields (from DLookup); -1 otherwise
}

var lastSpec Spec

// errors found while translating method bodies: the struct/table registry is still emitted for the
// harness, the Coq programs are not
var methodErrors []string

type TypeDef struct {
	Specs              map[int]Spec
	Lookups            map[int][2]string // field -> (table qualified name, key index as string)
	Pkg, PkgName, Name string
	File               string
	Fields             []Field
	Enc, Dec           []string // Coq terms, with @T{name} and @TBL{name} placeholders
	EncErr             bool
	HasEnc, HasDec     bool
	Deps               []string // qualified names
	TblDeps            []string
	Id                 int
	HasCtor            bool
	EncBad, DecBad     bool
}

type Table struct {
	Pkg, Name string // Name = accessor function NewXByY
	KeyKind   string // num | str
	KeyGoTy   string
	Entries   []TableEntry
	Cache     string
	RegFn     string
	Id        int
}
type TableEntry struct {
	KeyNum uint64
	KeyStr string
	Target string
	Pos    string
}

var types = map[string]*TypeDef{} // qualified name pkg.Name
var tables = map[string]*Table{}  // qualified pkg.NewXByY
var regFnToTable = map[string]*Table{}

var ityOf = map[string]string{"int8": "I8", "int16": "I16", "int32": "I32", "int64": "I64", "uint8": "U8", "byte": "U8",
	"uint16": "U16", "uint32": "U32", "uint64": "U64", "float32": "F32", "float64": "F64"}

func q(pkg, name string) string { return pkg + "." + name }

func exprStr(e ast.Expr) string {
	switch x := e.(type) {
	case *ast.Ident:
		return x.Name
	case *ast.SelectorExpr:
		return exprStr(x.X) + "." + x.Sel.Name
	case *ast.StarExpr:
		return "*" + exprStr(x.X)
	case *ast.ArrayType:
		if x.Len != nil {
			return "[?]" + exprStr(x.Elt)
		}
		return "[]" + exprStr(x.Elt)
	case *ast.BasicLit:
		return x.Value
	case *ast.CallExpr:
		return exprStr(x.Fun) + "(...)"
	case *ast.IndexExpr:
		return exprStr(x.X) + "[" + exprStr(x.Index) + "]"
	case *ast.IndexListExpr:
		s := []string{}
		for _, i := range x.Indices {
			s = append(s, exprStr(i))
		}
		return exprStr(x.X) + "[" + strings.Join(s, ",") + "]"
	case *ast.FuncType:
		return "func"
	case *ast.MapType:
		return "map[" + exprStr(x.Key) + "]" + exprStr(x.Value)
	case *ast.InterfaceType:
		return "interface"
	case *ast.UnaryExpr:
		return x.Op.String() + exprStr(x.X)
	case *ast.CompositeLit:
		return exprStr(x.Type) + "{}"
	case *ast.BinaryExpr:
		return exprStr(x.X) + x.Op.String() + exprStr(x.Y)
	case *ast.TypeAssertExpr:
		return exprStr(x.X) + ".(" + exprStr(x.Type) + ")"
	case *ast.SliceExpr:
		return exprStr(x.X) + "[" + optStr(x.Low) + ":" + optStr(x.High) + "]"
	case *ast.ParenExpr:
		return "(" + exprStr(x.X) + ")"
	}
	return fmt.Sprintf("<%T>", e)
}
func optStr(e ast.Expr) string {
	if e == nil {
		return ""
	}
	return exprStr(e)
}

func fieldOfType(pkg string, t ast.Expr) Field {
	s := exprStr(t)
	f := Field{GoTy: s}
	if i, ok := ityOf[s]; ok {
		f.Kind, f.Ity = "int", i
		return f
	}
	switch {
	case s == "string":
		f.Kind = "str"
	case s == "[]string":
		f.Kind = "strs"
	case s == "codec.BinaryCodec":
		f.Kind = "iface"
	case strings.HasPrefix(s, "[]*"):
		f.Kind, f.Ref = "ptrs", q(pkg, s[3:])
	case strings.HasPrefix(s, "[]"):
		i, ok := ityOf[s[2:]]
		if !ok {
			fail(t.Pos(), "unsupported slice element type %s", s)
		}
		f.Kind, f.Ity = "ints", i
	case strings.HasPrefix(s, "*"):
		f.Kind, f.Ref = "ptr", q(pkg, s[1:])
	default:
		if _, ok := t.(*ast.Ident); !ok {
			fail(t.Pos(), "unsupported field type %s", s)
		}
		f.Kind, f.Ref = "val", q(pkg, s)
	}
	return f
}

// ---------- per function translation context ----------
type ctx struct {
	pkg  string
	td   *TypeDef
	recv string
	buf  string
	vars map[string]int
}

func (c *ctx) fieldIndex(e ast.Expr) (int, bool) {
	sel, ok := e.(*ast.SelectorExpr)
	if !ok {
		return 0, false
	}
	id, ok := sel.X.(*ast.Ident)
	if !ok || id.Name != c.recv {
		return 0, false
	}
	for i, f := range c.td.Fields {
		if f.Name == sel.Sel.Name {
			return i, true
		}
	}
	fail(e.Pos(), "unknown field %s", sel.Sel.Name)
	return 0, false
}
func (c *ctx) mustField(e ast.Expr) int {
	i, ok := c.fieldIndex(e)
	if !ok {
		fail(e.Pos(), "expected a receiver field, got %s", exprStr(e))
	}
	return i
}
func (c *ctx) isBuf(e ast.Expr) bool {
	id, ok := e.(*ast.Ident)
	return ok && id.Name == c.buf
}
func (c *ctx) varIndex(name string, define bool, pos token.Pos) int {
	if i, ok := c.vars[name]; ok {
		if define {
			fail(pos, "variable %s redefined", name)
		}
		return i
	}
	if !define {
		fail(pos, "unknown variable %s", name)
	}
	i := len(c.vars)
	c.vars[name] = i
	return i
}

func intLit(e ast.Expr) (uint64, bool) {
	if p, ok := e.(*ast.ParenExpr); ok {
		return intLit(p.X)
	}
	// T(literal) for an integer type T that holds the literal: the conversion is the identity (a typed constant
	// `const c uint32 = 100101` reaches here as uint32(100101))
	if c, ok := e.(*ast.CallExpr); ok && len(c.Args) == 1 {
		if id, ok := c.Fun.(*ast.Ident); ok {
			bits := map[string]uint{"uint8": 8, "byte": 8, "uint16": 16, "uint32": 32, "uint64": 64, "uint": 64,
				"int8": 7, "int16": 15, "int32": 31, "rune": 31, "int64": 63, "int": 63}[id.Name]
			if bits != 0 {
				if v, ok := intLit(c.Args[0]); ok && (bits == 64 || v < uint64(1)<<bits) {
					return v, true
				}
			}
		}
		return 0, false
	}
	l, ok := e.(*ast.BasicLit)
	if !ok {
		return 0, false
	}
	switch l.Kind {
	case token.INT:
		v, err := strconv.ParseUint(l.Value, 0, 64)
		if err != nil {
			fail(e.Pos(), "bad integer literal %s", l.Value)
		}
		return v, true
	case token.CHAR:
		r, _, _, err := strconv.UnquoteChar(l.Value[1:len(l.Value)-1], '\'')
		if err != nil {
			fail(e.Pos(), "bad char literal %s", l.Value)
		}
		return uint64(r), true
	}
	return 0, false
}
func mustInt(e ast.Expr, what string) uint64 {
	v, ok := intLit(e)
	if !ok {
		fail(e.Pos(), "%s must be an integer or char literal, got %s", what, exprStr(e))
	}
	return v
}
func mustBool(e ast.Expr) string {
	id, ok := e.(*ast.Ident)
	if !ok || (id.Name != "true" && id.Name != "false") {
		fail(e.Pos(), "expected true/false literal, got %s", exprStr(e))
	}
	return id.Name
}
func mustWidth(e ast.Expr) string {
	v := mustInt(e, "fixed width")
	if v > 4096 {
		fail(e.Pos(), "fixed width %d above 4096 is outside the grammar", v)
	}
	return fmt.Sprintf("%d", v)
}
func mustIty(e ast.Expr) string {
	i, ok := ityOf[exprStr(e)]
	if !ok {
		fail(e.Pos(), "expected a scalar type, got %s", exprStr(e))
	}
	return i
}

// codec helper call: returns name, type args, value args (after buf)
func (c *ctx) codecCall(e ast.Expr) (name string, targs []ast.Expr, args []ast.Expr, ok bool) {
	call, isCall := e.(*ast.CallExpr)
	if !isCall {
		return
	}
	fun := call.Fun
	switch f := fun.(type) {
	case *ast.IndexExpr:
		targs = []ast.Expr{f.Index}
		fun = f.X
	case *ast.IndexListExpr:
		targs = f.Indices
		fun = f.X
	}
	sel, isSel := fun.(*ast.SelectorExpr)
	if !isSel {
		return
	}
	pk, isId := sel.X.(*ast.Ident)
	if !isId || pk.Name != "codec" {
		return
	}
	if len(call.Args) < 1 || !c.isBuf(call.Args[0]) {
		fail(e.Pos(), "codec helper must be called on the buffer parameter: %s", exprStr(e))
	}
	return sel.Sel.Name, targs, call.Args[1:], true
}

func leOf(name string) (string, string) {
	if strings.HasSuffix(name, "LE") {
		return strings.TrimSuffix(name, "LE"), "true"
	}
	return name, "false"
}

// prim for a write helper; v is the value argument's field (or nil for a constant)
func (c *ctx) writePrim(pos token.Pos, name string, targs, args []ast.Expr, fld *Field) string {
	base, le := leOf(name)
	need := func(n int) {
		if len(args) != n {
			fail(pos, "%s: expected %d arguments after buf, got %d", name, n, len(args))
		}
	}
	needT := func(n int) {
		if len(targs) != n {
			fail(pos, "%s: expected %d explicit type arguments, got %d", name, n, len(targs))
		}
	}
	kind := func(k string) {
		if fld == nil || fld.Kind != k {
			got := "constant"
			if fld != nil {
				got = fld.GoTy
			}
			fail(pos, "%s: value of type %s does not fit", name, got)
		}
	}
	switch base {
	case "WriteBasicType":
		need(1)
		needT(0)
		if fld != nil && fld.Kind != "int" {
			fail(pos, "%s on non-scalar field", name)
		}
		ity := ""
		if fld != nil {
			ity = fld.Ity
		}
		lastSpec = Spec{Kind: "basic", Le: le == "true", Ity: ity}
		return fmt.Sprintf("PBasic %s %s", le, "@ITY"+ity)
	case "WriteBasicTypeList":
		need(1)
		needT(1)
		kind("ints")
		lastSpec = Spec{Kind: "basiclist", Le: le == "true", Cnt: mustIty(targs[0]), Ity: fld.Ity}
		return fmt.Sprintf("PBasicList %s %s %s", le, mustIty(targs[0]), fld.Ity)
	case "WriteFixedString":
		need(2)
		needT(0)
		kind("str")
		if le == "true" {
			fail(pos, "no such helper %s", name)
		}
		lastSpec = Spec{Kind: "fixed", N: atoi(mustWidth(args[1])), Pad: 32}
		return fmt.Sprintf("PFixed %s default_pad false", mustWidth(args[1]))
	case "WriteFixedStringWithPadding":
		need(4)
		needT(0)
		kind("str")
		if le == "true" {
			fail(pos, "no such helper %s", name)
		}
		lastSpec = Spec{Kind: "fixed", N: atoi(mustWidth(args[1])), Pad: int(mustInt(args[2], "pad")), Left: mustBool(args[3]) == "true"}
		return fmt.Sprintf("PFixed %s %d%%N %s", mustWidth(args[1]), mustInt(args[2], "pad"), mustBool(args[3]))
	case "WriteFixedStringList":
		need(2)
		needT(1)
		kind("strs")
		lastSpec = Spec{Kind: "fixedlist", Le: le == "true", Cnt: mustIty(targs[0]), N: atoi(mustWidth(args[1])), Pad: 32}
		return fmt.Sprintf("PFixedList %s %s %s default_pad false", le, mustIty(targs[0]), mustWidth(args[1]))
	case "WriteFixedStringListWithPadding":
		need(4)
		needT(1)
		kind("strs")
		lastSpec = Spec{Kind: "fixedlist", Le: le == "true", Cnt: mustIty(targs[0]), N: atoi(mustWidth(args[1])), Pad: int(mustInt(args[2], "pad")), Left: mustBool(args[3]) == "true"}
		return fmt.Sprintf("PFixedList %s %s %s %d%%N %s", le, mustIty(targs[0]), mustWidth(args[1]), mustInt(args[2], "pad"), mustBool(args[3]))
	case "WriteString":
		need(1)
		needT(1)
		kind("str")
		lastSpec = Spec{Kind: "string", Le: le == "true", Len: mustIty(targs[0])}
		return fmt.Sprintf("PString %s %s", le, mustIty(targs[0]))
	case "WriteStringList":
		need(1)
		needT(2)
		kind("strs")
		lastSpec = Spec{Kind: "stringlist", Le: le == "true", Cnt: mustIty(targs[0]), Len: mustIty(targs[1])}
		return fmt.Sprintf("PStringList %s %s %s", le, mustIty(targs[0]), mustIty(targs[1]))
	case "WriteObjectList":
		need(1)
		needT(1)
		kind("ptrs")
		c.td.Deps = append(c.td.Deps, fld.Ref)
		lastSpec = Spec{Kind: "objlist", Le: le == "true", Cnt: mustIty(targs[0]), Ref: fld.Ref}
		return fmt.Sprintf("PObjList %s %s @T{%s}", le, mustIty(targs[0]), fld.Ref)
	}
	fail(pos, "unknown codec write helper %s", name)
	return ""
}

func (c *ctx) readPrim(pos token.Pos, name string, targs, args []ast.Expr, fld *Field) string {
	base, le := leOf(name)
	need := func(n int) {
		if len(args) != n {
			fail(pos, "%s: expected %d arguments after buf, got %d", name, n, len(args))
		}
	}
	needT := func(n int) {
		if len(targs) != n {
			fail(pos, "%s: expected %d explicit type arguments, got %d", name, n, len(targs))
		}
	}
	kind := func(k string) {
		if fld.Kind != k {
			fail(pos, "%s: result does not fit field of type %s", name, fld.GoTy)
		}
	}
	switch base {
	case "ReadBasicType":
		need(0)
		needT(1)
		kind("int")
		t := mustIty(targs[0])
		if t != fld.Ity {
			fail(pos, "%s[%s] assigned to field of type %s", name, exprStr(targs[0]), fld.GoTy)
		}
		return fmt.Sprintf("PBasic %s %s", le, t)
	case "ReadBasicTypeList":
		need(0)
		needT(2)
		kind("ints")
		t := mustIty(targs[1])
		if t != fld.Ity {
			fail(pos, "%s element type %s assigned to field of type %s", name, exprStr(targs[1]), fld.GoTy)
		}
		return fmt.Sprintf("PBasicList %s %s %s", le, mustIty(targs[0]), t)
	case "ReadFixedString":
		need(1)
		needT(0)
		kind("str")
		if le == "true" {
			fail(pos, "no such helper %s", name)
		}
		return fmt.Sprintf("PFixed %s default_pad false", mustWidth(args[0]))
	case "ReadFixedStringTrimPadding":
		need(3)
		needT(0)
		kind("str")
		if le == "true" {
			fail(pos, "no such helper %s", name)
		}
		return fmt.Sprintf("PFixed %s %d%%N %s", mustWidth(args[0]), mustInt(args[1], "pad"), mustBool(args[2]))
	case "ReadFixedStringList":
		need(1)
		needT(1)
		kind("strs")
		return fmt.Sprintf("PFixedList %s %s %s default_pad false", le, mustIty(targs[0]), mustWidth(args[0]))
	case "ReadFixedStringListTrimPadding":
		need(3)
		needT(1)
		kind("strs")
		return fmt.Sprintf("PFixedList %s %s %s %d%%N %s", le, mustIty(targs[0]), mustWidth(args[0]), mustInt(args[1], "pad"), mustBool(args[2]))
	case "ReadString":
		need(0)
		needT(1)
		kind("str")
		return fmt.Sprintf("PString %s %s", le, mustIty(targs[0]))
	case "ReadStringList":
		need(0)
		needT(2)
		kind("strs")
		return fmt.Sprintf("PStringList %s %s %s", le, mustIty(targs[0]), mustIty(targs[1]))
	case "ReadObjectList":
		need(1)
		needT(1)
		kind("ptrs")
		// func() *T { return &T{} }
		fl, ok := args[0].(*ast.FuncLit)
		if !ok || len(fl.Body.List) != 1 {
			fail(pos, "%s: constructor argument must be func() *T { return &T{} }", name)
		}
		ret, ok := fl.Body.List[0].(*ast.ReturnStmt)
		if !ok || len(ret.Results) != 1 {
			fail(pos, "%s: constructor argument must be func() *T { return &T{} }", name)
		}
		tn := newLit(ret.Results[0])
		if tn == "" || q(c.pkg, tn) != fld.Ref {
			fail(pos, "%s: constructor builds %s, field holds %s", name, exprStr(ret.Results[0]), fld.GoTy)
		}
		c.td.Deps = append(c.td.Deps, fld.Ref)
		return fmt.Sprintf("PObjList %s %s @T{%s}", le, mustIty(targs[0]), fld.Ref)
	}
	fail(pos, "unknown codec read helper %s", name)
	return ""
}

// &T{}  -> "T"
func newLit(e ast.Expr) string {
	u, ok := e.(*ast.UnaryExpr)
	if !ok || u.Op != token.AND {
		return ""
	}
	cl, ok := u.X.(*ast.CompositeLit)
	if !ok || len(cl.Elts) != 0 {
		return ""
	}
	id, ok := cl.Type.(*ast.Ident)
	if !ok {
		return ""
	}
	return id.Name
}

// `<e> != nil` for an identifier e: returns its name
func errVarNotNil(e ast.Expr) (string, bool) {
	b, ok := e.(*ast.BinaryExpr)
	if !ok || b.Op != token.NEQ {
		return "", false
	}
	x, ok1 := b.X.(*ast.Ident)
	y, ok2 := b.Y.(*ast.Ident)
	if ok1 && ok2 && y.Name == "nil" && x.Name != "nil" {
		return x.Name, true
	}
	return "", false
}

func isErrNotNil(e ast.Expr) bool {
	_, ok := errVarNotNil(e)
	return ok
}

// body is a single "return <the error variable>" or "return fmt.Errorf(..., <the error variable>)" (either wrapping style)
func returnsErrVar(b *ast.BlockStmt, name string) bool {
	if len(b.List) != 1 {
		return false
	}
	r, ok := b.List[0].(*ast.ReturnStmt)
	if !ok || len(r.Results) != 1 {
		return false
	}
	found := false
	ast.Inspect(r.Results[0], func(n ast.Node) bool {
		if id, ok := n.(*ast.Ident); ok && id.Name == name {
			found = true
		}
		return true
	})
	_ = found
	return nonNilError(r.Results[0], name)
}

// an expression that evaluates to a non-nil error whenever the variable [name] is non-nil: the variable itself, a new
// error (fmt.Errorf, errors.New), or errors.Join with at least one such operand (Join drops nil operands only)
func nonNilError(e ast.Expr, name string) bool {
	if id, ok := e.(*ast.Ident); ok {
		return id.Name == name
	}
	call, ok := e.(*ast.CallExpr)
	if !ok {
		return false
	}
	switch exprStr(call.Fun) {
	case "fmt.Errorf", "errors.New":
		return true
	case "errors.Join":
		for _, a := range call.Args {
			if nonNilError(a, name) {
				return true
			}
		}
	}
	return false
}

// an if statement of the shape  if [init;] E != nil { return E | fmt.Errorf(.., E) }  - the name of E
func errGuard(ifs *ast.IfStmt) (string, bool) {
	name, ok := errVarNotNil(ifs.Cond)
	if !ok || !returnsErrVar(ifs.Body, name) {
		return "", false
	}
	return name, true
}

func isReturnErr(b *ast.BlockStmt) bool {
	if len(b.List) != 1 {
		return false
	}
	r, ok := b.List[0].(*ast.ReturnStmt)
	return ok && len(r.Results) == 1
}

// Statement sequences in the sequential style are folded into the if-with-initialiser style the grammar is written in:
//
//	x, e := RHS;  if e != nil { return ..e.. };  p.F = x        =>   if x, e := RHS; e != nil { return ..e.. } else { p.F = x }
//	e := RHS;     if e != nil { return ..e.. }                  =>   if e := RHS; e != nil { return ..e.. }
//
// (x must not be used anywhere else; e may be reused by later statements of the same shape).
// the name of the method's *bytes.Buffer parameter ("" if it has none)
func bufferParam(fd *ast.FuncDecl) string {
	for _, p := range fd.Type.Params.List {
		if exprStr(p.Type) == "*bytes.Buffer" && len(p.Names) == 1 {
			return p.Names[0].Name
		}
	}
	return ""
}

// a non-negative int expression without effects: literals, len(..), sums and products of those
func sizeHint(e ast.Expr) bool {
	switch x := e.(type) {
	case *ast.BasicLit:
		if x.Kind != token.INT {
			return false
		}
		v, err := strconv.ParseInt(x.Value, 0, 64)
		return err == nil && v >= 0 && v <= 1<<16
	case *ast.ParenExpr:
		return sizeHint(x.X)
	case *ast.BinaryExpr:
		return (x.Op == token.ADD || x.Op == token.MUL) && sizeHint(x.X) && sizeHint(x.Y)
	case *ast.CallExpr:
		if id, ok := x.Fun.(*ast.Ident); ok && id.Name == "len" && len(x.Args) == 1 {
			switch a := x.Args[0].(type) {
			case *ast.Ident:
				return true
			case *ast.SelectorExpr:
				_, ok := a.X.(*ast.Ident)
				return ok
			}
		}
	}
	return false
}

// dropGrowHints removes top-level statements  buf.Grow(<size hint>)  on an Encode method's buffer parameter (not in
// Decode, where what is reserved is the subject of C09/C10): Grow changes
// the buffer's capacity (it may slide or reallocate) but not its unread bytes - Theory/BufferRefine.grow_only_refines,
// for every buffer state - and the model's buffer IS its unread bytes; a non-negative hint cannot panic short of
// exhausting memory.  (Anything else done with the capacity - Available, AvailableBuffer, a kept slice - stays outside
// the grammar.)
func dropGrowHints(list []ast.Stmt, buf string) []ast.Stmt {
	if buf == "" {
		return list
	}
	var out []ast.Stmt
	for _, s := range list {
		if es, ok := s.(*ast.ExprStmt); ok {
			if c, ok := es.X.(*ast.CallExpr); ok && len(c.Args) == 1 && sizeHint(c.Args[0]) {
				if sel, ok := c.Fun.(*ast.SelectorExpr); ok && sel.Sel.Name == "Grow" {
					if id, ok := sel.X.(*ast.Ident); ok && id.Name == buf {
						continue
					}
				}
			}
		}
		out = append(out, s)
	}
	return out
}

func normalizeBody(list []ast.Stmt) []ast.Stmt {
	uses := func(name string, from []ast.Stmt) int {
		n := 0
		for _, s := range from {
			ast.Inspect(s, func(x ast.Node) bool {
				if id, ok := x.(*ast.Ident); ok && id.Name == name {
					n++
				}
				return true
			})
		}
		return n
	}
	var out []ast.Stmt
	for i := 0; i < len(list); i++ {
		as, ok := list[i].(*ast.AssignStmt)
		if ok && len(as.Rhs) == 1 && i+1 < len(list) {
			if ifs, ok := list[i+1].(*ast.IfStmt); ok && ifs.Init == nil && ifs.Else == nil {
				if ev, ok := errGuard(ifs); ok {
					if _, isCall := as.Rhs[0].(*ast.CallExpr); isCall {
						// two results: value and error, followed by the assignment of the value to a field
						if len(as.Lhs) == 2 && as.Tok == token.DEFINE && exprStr(as.Lhs[1]) == ev && i+2 < len(list) {
							if as2, ok := list[i+2].(*ast.AssignStmt); ok && as2.Tok == token.ASSIGN && len(as2.Lhs) == 1 && len(as2.Rhs) == 1 &&
								exprStr(as2.Rhs[0]) == exprStr(as.Lhs[0]) && uses(exprStr(as.Lhs[0]), list) == 2 {
								out = append(out, &ast.IfStmt{If: as.Pos(), Init: as, Cond: ifs.Cond, Body: ifs.Body, Else: &ast.BlockStmt{Lbrace: as2.Pos(), List: []ast.Stmt{as2}}})
								i += 2
								continue
							}
						}
						// one result: the error
						if len(as.Lhs) == 1 && exprStr(as.Lhs[0]) == ev && (as.Tok == token.DEFINE || as.Tok == token.ASSIGN) {
							init := &ast.AssignStmt{Lhs: as.Lhs, TokPos: as.TokPos, Tok: token.DEFINE, Rhs: as.Rhs}
							out = append(out, &ast.IfStmt{If: as.Pos(), Init: init, Cond: ifs.Cond, Body: ifs.Body})
							i++
							continue
						}
					}
				}
			}
		}
		out = append(out, list[i])
	}
	return out
}

func (c *ctx) nilCheck(e ast.Expr, op token.Token) (int, bool) {
	b, ok := e.(*ast.BinaryExpr)
	if !ok || b.Op != op {
		return 0, false
	}
	y, ok := b.Y.(*ast.Ident)
	if !ok || y.Name != "nil" {
		return 0, false
	}
	return c.fieldIndex(b.X)
}

func (c *ctx) expr(e ast.Expr) string {
	if call, ok := e.(*ast.CallExpr); ok && len(call.Args) == 0 {
		if sel, ok := call.Fun.(*ast.SelectorExpr); ok && sel.Sel.Name == "Len" && c.isBuf(sel.X) {
			return "XLen"
		}
	}
	if id, ok := e.(*ast.Ident); ok {
		return fmt.Sprintf("(XVar %d)", c.varIndex(id.Name, false, e.Pos()))
	}
	if v, ok := intLit(e); ok {
		return fmt.Sprintf("(XConst %d%%N)", v)
	}
	fail(e.Pos(), "unsupported offset expression %s", exprStr(e))
	return ""
}

// buf.Bytes()[lo:hi]
func (c *ctx) bytesSlice(e ast.Expr) (lo, hi ast.Expr, ok bool) {
	sl, isSl := e.(*ast.SliceExpr)
	if !isSl || sl.Slice3 {
		return
	}
	call, isCall := sl.X.(*ast.CallExpr)
	if !isCall || len(call.Args) != 0 {
		return
	}
	sel, isSel := call.Fun.(*ast.SelectorExpr)
	if !isSel || sel.Sel.Name != "Bytes" || !c.isBuf(sel.X) {
		return
	}
	return sl.Low, sl.High, true
}

func (c *ctx) tableCall(e ast.Expr) (*Table, int, bool) {
	call, ok := e.(*ast.CallExpr)
	if !ok || len(call.Args) != 1 {
		return nil, 0, false
	}
	id, ok := call.Fun.(*ast.Ident)
	if !ok {
		return nil, 0, false
	}
	t, ok := tables[q(c.pkg, id.Name)]
	if !ok {
		return nil, 0, false
	}
	k := c.mustField(call.Args[0])
	return t, k, true
}

// if val, err := NewXByY(p.K); err != nil { return err } else { p.F = val }
func (c *ctx) lookupStmt(s ast.Stmt) (tbl *Table, key, fld int, ok bool) {
	ifs, isIf := s.(*ast.IfStmt)
	if !isIf || ifs.Init == nil || ifs.Else == nil {
		return
	}
	evName, isGuard := errGuard(ifs)
	if !isGuard {
		return
	}
	as, isAs := ifs.Init.(*ast.AssignStmt)
	if !isAs || as.Tok != token.DEFINE || len(as.Lhs) != 2 || len(as.Rhs) != 1 {
		return
	}
	v, ok1 := as.Lhs[0].(*ast.Ident)
	er, ok2 := as.Lhs[1].(*ast.Ident)
	if !ok1 || !ok2 || er.Name != evName {
		return
	}
	t, k, isTbl := c.tableCall(as.Rhs[0])
	if !isTbl {
		return
	}
	eb, isBlock := ifs.Else.(*ast.BlockStmt)
	if !isBlock || len(eb.List) != 1 {
		fail(s.Pos(), "table lookup: else branch must be a single assignment")
	}
	as2, isAs2 := eb.List[0].(*ast.AssignStmt)
	if !isAs2 || as2.Tok != token.ASSIGN || len(as2.Lhs) != 1 || len(as2.Rhs) != 1 {
		fail(s.Pos(), "table lookup: else branch must be a single assignment")
	}
	rv, isId := as2.Rhs[0].(*ast.Ident)
	if !isId || rv.Name != v.Name {
		fail(s.Pos(), "table lookup: else branch must assign the looked-up value")
	}
	f := c.mustField(as2.Lhs[0])
	if c.td.Fields[f].Kind != "iface" {
		fail(s.Pos(), "table lookup result assigned to non-interface field")
	}
	return t, k, f, true
}

// p.F.Encode(buf) / p.F.Decode(buf)
func (c *ctx) methodCall(e ast.Expr, method string) (int, bool) {
	call, ok := e.(*ast.CallExpr)
	if !ok || len(call.Args) != 1 || !c.isBuf(call.Args[0]) {
		return 0, false
	}
	sel, ok := call.Fun.(*ast.SelectorExpr)
	if !ok || sel.Sel.Name != method {
		return 0, false
	}
	return c.fieldIndex(sel.X)
}

func (c *ctx) noteCallDep(i int, pos token.Pos) {
	f := c.td.Fields[i]
	switch f.Kind {
	case "ptr", "val":
		c.td.Deps = append(c.td.Deps, f.Ref)
	case "iface":
	default:
		fail(pos, "method call on field %s of type %s", f.Name, f.GoTy)
	}
}

// if err := X; err != nil { return .. }   (also "if err = X; ...")
func errIf(s ast.Stmt) (ast.Expr, bool) {
	ifs, ok := s.(*ast.IfStmt)
	if !ok || ifs.Init == nil || ifs.Else != nil {
		return nil, false
	}
	ev, ok := errGuard(ifs)
	if !ok {
		return nil, false
	}
	as, ok := ifs.Init.(*ast.AssignStmt)
	if !ok || len(as.Lhs) != 1 || len(as.Rhs) != 1 {
		return nil, false
	}
	id, ok := as.Lhs[0].(*ast.Ident)
	if !ok || id.Name != ev {
		return nil, false
	}
	return as.Rhs[0], true
}

func (c *ctx) encStmt(s ast.Stmt, last bool) []string {
	pos := s.Pos()
	// return nil (last)
	if r, ok := s.(*ast.ReturnStmt); ok {
		if !last || len(r.Results) > 1 || (len(r.Results) == 1 && exprStr(r.Results[0]) != "nil") {
			fail(pos, "only a final `return nil` is in the grammar")
		}
		return nil
	}
	// write with error propagation / nested Encode with propagation
	if rhs, ok := errIf(s); ok {
		if name, targs, args, ok := c.codecCall(rhs); ok {
			return []string{c.writeStmt(pos, name, targs, args, "true")}
		}
		if i, ok := c.methodCall(rhs, "Encode"); ok {
			c.noteCallDep(i, pos)
			return []string{fmt.Sprintf("ECall %d GNone true", i)}
		}
		fail(pos, "unsupported `if err := ...` in Encode: %s", exprStr(rhs))
	}
	if es, ok := s.(*ast.ExprStmt); ok {
		if name, targs, args, ok := c.codecCall(es.X); ok {
			return []string{c.writeStmt(pos, name, targs, args, "false")}
		}
		if i, ok := c.methodCall(es.X, "Encode"); ok {
			c.noteCallDep(i, pos)
			return []string{fmt.Sprintf("ECall %d GNone false", i)}
		}
		call, isCall := es.X.(*ast.CallExpr)
		if isCall {
			fn := exprStr(call.Fun)
			// binary.Write(buf, binary.BigEndian, r.F)
			if fn == "binary.Write" && len(call.Args) == 3 && c.isBuf(call.Args[0]) {
				le := orderLE(call.Args[1])
				i := c.mustField(call.Args[2])
				f := c.td.Fields[i]
				if f.Kind != "int" {
					fail(pos, "binary.Write of non-scalar field %s", f.Name)
				}
				if c.td.Specs == nil {
					c.td.Specs = map[int]Spec{}
				}
				c.td.Specs[i] = Spec{Kind: "basic", Le: le == "true", Ity: f.Ity, Tbl: -1, Key: -1}
				return []string{fmt.Sprintf("EWrite (PBasic %s %s) (SField %d) false", le, f.Ity, i)}
			}
			// binary.BigEndian.PutUint32(buf.Bytes()[x:x+4], p.F)
			if (fn == "binary.BigEndian.PutUint32" || fn == "binary.LittleEndian.PutUint32") && len(call.Args) == 2 {
				lo, hi, ok := c.bytesSlice(call.Args[0])
				if !ok || lo == nil || hi == nil {
					fail(pos, "PutUint32 target must be buf.Bytes()[x:x+4]")
				}
				b, isBin := hi.(*ast.BinaryExpr)
				if !isBin || b.Op != token.ADD || exprStr(b.X) != exprStr(lo) || exprStr(b.Y) != "4" {
					fail(pos, "PutUint32 target must be buf.Bytes()[x:x+4]")
				}
				i := c.mustField(call.Args[1])
				if c.td.Fields[i].Ity != "U32" {
					fail(pos, "PutUint32 of a non-uint32 field")
				}
				le := "false"
				if strings.Contains(fn, "Little") {
					le = "true"
				}
				return []string{fmt.Sprintf("EPatch %s %s %d", le, c.expr(lo), i)}
			}
		}
		fail(pos, "unsupported expression statement in Encode: %s", exprStr(es.X))
	}
	if as, ok := s.(*ast.AssignStmt); ok && len(as.Lhs) == 1 && len(as.Rhs) == 1 {
		// x := buf.Len()
		if as.Tok == token.DEFINE {
			id, ok := as.Lhs[0].(*ast.Ident)
			if !ok {
				fail(pos, "unsupported definition")
			}
			e := c.expr(as.Rhs[0])
			return []string{fmt.Sprintf("ELet %d %s", c.varIndex(id.Name, true, pos), e)}
		}
		// p.F = uint32(hi - lo)
		if as.Tok == token.ASSIGN {
			i := c.mustField(as.Lhs[0])
			call, ok := as.Rhs[0].(*ast.CallExpr)
			if ok && exprStr(call.Fun) == "uint32" && len(call.Args) == 1 && c.td.Fields[i].Ity == "U32" && c.td.Fields[i].Kind == "int" {
				if b, ok := call.Args[0].(*ast.BinaryExpr); ok && b.Op == token.SUB {
					return []string{fmt.Sprintf("ESetLen %d %s %s", i, c.expr(b.X), c.expr(b.Y))}
				}
			}
		}
		fail(pos, "unsupported assignment in Encode")
	}
	if ifs, ok := s.(*ast.IfStmt); ok && ifs.Else == nil {
		// checksum: if s, ok := codec.Get("ALG"); ok { p.F = s.(codec.ChecksumService[*bytes.Buffer, R]).Calc(ARG) }
		if as, ok := ifs.Init.(*ast.AssignStmt); ok && as.Tok == token.DEFINE && len(as.Lhs) == 2 && len(as.Rhs) == 1 {
			call, isCall := as.Rhs[0].(*ast.CallExpr)
			if isCall && exprStr(call.Fun) == "codec.Get" && len(call.Args) == 1 {
				svc := exprStr(as.Lhs[0])
				okv := exprStr(as.Lhs[1])
				if exprStr(ifs.Cond) != okv || len(ifs.Body.List) != 1 {
					fail(pos, "checksum lookup: unexpected shape")
				}
				lit, isLit := call.Args[0].(*ast.BasicLit)
				if !isLit || lit.Kind != token.STRING {
					fail(pos, "checksum lookup: algorithm must be a string literal")
				}
				as2, isAs := ifs.Body.List[0].(*ast.AssignStmt)
				if !isAs || as2.Tok != token.ASSIGN || len(as2.Lhs) != 1 || len(as2.Rhs) != 1 {
					fail(pos, "checksum lookup: body must assign the field")
				}
				i := c.mustField(as2.Lhs[0])
				calc, isCall := as2.Rhs[0].(*ast.CallExpr)
				if !isCall || len(calc.Args) != 1 {
					fail(pos, "checksum lookup: body must call Calc")
				}
				sel, isSel := calc.Fun.(*ast.SelectorExpr)
				if !isSel || sel.Sel.Name != "Calc" {
					fail(pos, "checksum lookup: body must call Calc")
				}
				ta, isTA := sel.X.(*ast.TypeAssertExpr)
				if !isTA || exprStr(ta.X) != svc {
					fail(pos, "checksum lookup: expected a type assertion on the service")
				}
				il, isIL := ta.Type.(*ast.IndexListExpr)
				if !isIL || exprStr(il.X) != "codec.ChecksumService" || len(il.Indices) != 2 || exprStr(il.Indices[0]) != "*bytes.Buffer" {
					fail(pos, "checksum lookup: expected codec.ChecksumService[*bytes.Buffer, R]")
				}
				rt := mustIty(il.Indices[1])
				if c.td.Fields[i].Ity != rt {
					fail(pos, "checksum result type %s assigned to field of type %s", rt, c.td.Fields[i].GoTy)
				}
				from := ""
				if c.isBuf(calc.Args[0]) {
					from = "(XConst 0%N)"
				} else if nb, ok := calc.Args[0].(*ast.CallExpr); ok && exprStr(nb.Fun) == "bytes.NewBuffer" && len(nb.Args) == 1 {
					lo, hi, ok := c.bytesSlice(nb.Args[0])
					if !ok || hi != nil || lo == nil {
						fail(pos, "checksum input must be buf or bytes.NewBuffer(buf.Bytes()[x:])")
					}
					from = c.expr(lo)
				} else {
					fail(pos, "checksum input must be buf or bytes.NewBuffer(buf.Bytes()[x:])")
				}
				name, _ := strconv.Unquote(lit.Value)
				return []string{fmt.Sprintf("ESum %s %s %s %d", coqString(name), rt, from, i)}
			}
		}
		if ifs.Init == nil {
			// if p.F != nil { if err := p.F.Encode(buf); err != nil { return err } }
			if i, ok := c.nilCheck(ifs.Cond, token.NEQ); ok {
				if len(ifs.Body.List) == 1 {
					if rhs, ok := errIf(ifs.Body.List[0]); ok {
						if j, ok := c.methodCall(rhs, "Encode"); ok && j == i {
							c.noteCallDep(i, pos)
							return []string{fmt.Sprintf("ECall %d GIfNotNil true", i)}
						}
					}
				}
				fail(pos, "unsupported `if field != nil` body in Encode")
			}
			// if p.F == nil { ... }
			if i, ok := c.nilCheck(ifs.Cond, token.EQL); ok {
				if len(ifs.Body.List) != 1 {
					fail(pos, "unsupported `if field == nil` body in Encode")
				}
				if t, k, f, ok := c.lookupStmt(ifs.Body.List[0]); ok && f == i {
					c.td.TblDeps = append(c.td.TblDeps, q(t.Pkg, t.Name))
					return []string{fmt.Sprintf("EFill %d @TBL{%s} %d", i, q(t.Pkg, t.Name), k)}
				}
				if as, ok := ifs.Body.List[0].(*ast.AssignStmt); ok && as.Tok == token.ASSIGN && len(as.Lhs) == 1 && len(as.Rhs) == 1 {
					if j, ok := c.fieldIndex(as.Lhs[0]); ok && j == i {
						tn := newLit(as.Rhs[0])
						f := c.td.Fields[i]
						if tn != "" && f.Kind == "ptr" && q(c.pkg, tn) == f.Ref {
							c.td.Deps = append(c.td.Deps, f.Ref)
							return []string{fmt.Sprintf("EFillNew %d @T{%s}", i, f.Ref)}
						}
					}
				}
				fail(pos, "unsupported `if field == nil` body in Encode")
			}
		}
	}
	fail(pos, "statement outside the Encode grammar")
	return nil
}

func orderLE(e ast.Expr) string {
	switch exprStr(e) {
	case "binary.BigEndian":
		return "false"
	case "binary.LittleEndian":
		return "true"
	}
	fail(e.Pos(), "expected binary.BigEndian or binary.LittleEndian")
	return ""
}

func (c *ctx) writeStmt(pos token.Pos, name string, targs, args []ast.Expr, propagate string) string {
	if len(args) < 1 {
		fail(pos, "%s: missing value argument", name)
	}
	if i, ok := c.fieldIndex(args[0]); ok {
		f := c.td.Fields[i]
		p := c.writePrim(pos, name, targs, args, &f)
		p = strings.Replace(p, "@ITY", "", 1)
		if c.td.Specs == nil {
			c.td.Specs = map[int]Spec{}
		}
		lastSpec.Tbl, lastSpec.Key = -1, -1
		c.td.Specs[i] = lastSpec
		return fmt.Sprintf("EWrite (%s) (SField %d) %s", p, i, propagate)
	}
	// constant: T(lit)
	if call, ok := args[0].(*ast.CallExpr); ok && len(call.Args) == 1 {
		if ity, ok := ityOf[exprStr(call.Fun)]; ok {
			v := mustInt(call.Args[0], "constant")
			p := c.writePrim(pos, name, targs, args, nil)
			if !strings.Contains(p, "@ITY") {
				fail(pos, "constant value only allowed with WriteBasicType")
			}
			p = strings.Replace(p, "@ITY", ity, 1)
			return fmt.Sprintf("EWrite (%s) (SConst %s %d%%N) %s", p, ity, v, propagate)
		}
	}
	fail(pos, "%s: value must be a receiver field or T(literal), got %s", name, exprStr(args[0]))
	return ""
}

func (c *ctx) decStmt(s ast.Stmt, last bool) []string {
	pos := s.Pos()
	if r, ok := s.(*ast.ReturnStmt); ok {
		if !last || len(r.Results) != 1 || exprStr(r.Results[0]) != "nil" {
			fail(pos, "only a final `return nil` is in the grammar")
		}
		return nil
	}
	if d, ok := s.(*ast.DeclStmt); ok {
		// var err error
		if g, ok := d.Decl.(*ast.GenDecl); ok && g.Tok == token.VAR && len(g.Specs) == 1 {
			vs := g.Specs[0].(*ast.ValueSpec)
			if len(vs.Names) == 1 && vs.Names[0].Name == "err" && exprStr(vs.Type) == "error" && len(vs.Values) == 0 {
				return nil
			}
		}
		fail(pos, "unsupported declaration in Decode")
	}
	if t, k, f, ok := c.lookupStmt(s); ok {
		c.td.TblDeps = append(c.td.TblDeps, q(t.Pkg, t.Name))
		if c.td.Lookups == nil {
			c.td.Lookups = map[int][2]string{}
		}
		c.td.Lookups[f] = [2]string{q(t.Pkg, t.Name), fmt.Sprint(k)}
		return []string{fmt.Sprintf("DLookup @TBL{%s} %d %d", q(t.Pkg, t.Name), k, f)}
	}
	if rhs, ok := errIf(s); ok {
		if i, ok := c.methodCall(rhs, "Decode"); ok {
			c.noteCallDep(i, pos)
			return []string{fmt.Sprintf("DCall %d", i)}
		}
		fail(pos, "unsupported `if err := ...` in Decode: %s", exprStr(rhs))
	}
	if ifs, ok := s.(*ast.IfStmt); ok && ifs.Init != nil && func() bool { _, g := errGuard(ifs); return g }() {
		evName, _ := errGuard(ifs)
		as, isAs := ifs.Init.(*ast.AssignStmt)
		if isAs && len(as.Lhs) == 2 && len(as.Rhs) == 1 && exprStr(as.Lhs[1]) == evName {
			name, targs, args, isCodec := c.codecCall(as.Rhs[0])
			if isCodec {
				// style 1: if val, err := R(); err != nil { return err } else { p.F = val }
				if as.Tok == token.DEFINE && ifs.Else != nil {
					v := exprStr(as.Lhs[0])
					eb, isBlock := ifs.Else.(*ast.BlockStmt)
					if !isBlock || len(eb.List) != 1 {
						fail(pos, "read: else branch must be a single assignment")
					}
					as2, isAs2 := eb.List[0].(*ast.AssignStmt)
					if !isAs2 || as2.Tok != token.ASSIGN || len(as2.Lhs) != 1 || len(as2.Rhs) != 1 || exprStr(as2.Rhs[0]) != v {
						fail(pos, "read: else branch must assign the value read")
					}
					i := c.mustField(as2.Lhs[0])
					f := c.td.Fields[i]
					return []string{fmt.Sprintf("DRead (%s) %d", c.readPrim(pos, name, targs, args, &f), i)}
				}
				// style 2: if r.F, err = R(); err != nil { return err }
				if as.Tok == token.ASSIGN && ifs.Else == nil {
					i := c.mustField(as.Lhs[0])
					f := c.td.Fields[i]
					return []string{fmt.Sprintf("DRead (%s) %d", c.readPrim(pos, name, targs, args, &f), i)}
				}
			}
		}
		fail(pos, "unsupported read statement in Decode")
	}
	if ifs, ok := s.(*ast.IfStmt); ok && ifs.Init == nil && ifs.Else == nil {
		if i, ok := c.nilCheck(ifs.Cond, token.EQL); ok && len(ifs.Body.List) == 1 {
			if as, ok := ifs.Body.List[0].(*ast.AssignStmt); ok && as.Tok == token.ASSIGN && len(as.Lhs) == 1 && len(as.Rhs) == 1 {
				if j, ok := c.fieldIndex(as.Lhs[0]); ok && j == i {
					tn := newLit(as.Rhs[0])
					f := c.td.Fields[i]
					if tn != "" && f.Kind == "ptr" && q(c.pkg, tn) == f.Ref {
						c.td.Deps = append(c.td.Deps, f.Ref)
						return []string{fmt.Sprintf("DEnsure %d @T{%s}", i, f.Ref)}
					}
				}
			}
		}
	}
	fail(pos, "statement outside the Decode grammar")
	return nil
}

func coqString(s string) string {
	for _, r := range s {
		if r < 32 || r > 126 || r == '"' {
			panic("algorithm name outside printable ASCII")
		}
	}
	return "\"" + s + "\"%string"
}

// ---------- package scan ----------
type pkgInfo struct {
	dir, short, goName string
	files              []*ast.File
	names              []string
}

func parsePkg(root, dir string) *pkgInfo {
	full := filepath.Join(root, dir)
	ents, err := os.ReadDir(full)
	if err != nil {
		panic(err)
	}
	p := &pkgInfo{dir: dir, short: strings.Split(dir, "/")[0]}
	var names []string
	for _, e := range ents {
		n := e.Name()
		if strings.HasSuffix(n, ".go") && !strings.HasSuffix(n, "_test.go") {
			names = append(names, n)
		}
	}
	sort.Strings(names)
	for _, n := range names {
		f, err := parser.ParseFile(fset, filepath.Join(full, n), nil, parser.ParseComments)
		if err != nil {
			panic(terr{token.NoPos, err.Error()})
		}
		p.files = append(p.files, f)
		p.names = append(p.names, n)
		p.goName = f.Name.Name
	}
	normalizePkg(p.files)
	return p
}

func recvOf(fd *ast.FuncDecl) (name, typ string, ptr bool) {
	if fd.Recv == nil || len(fd.Recv.List) != 1 {
		return
	}
	r := fd.Recv.List[0]
	if len(r.Names) == 1 {
		name = r.Names[0].Name
	}
	switch t := r.Type.(type) {
	case *ast.StarExpr:
		typ, ptr = exprStr(t.X), true
	case *ast.Ident:
		typ = t.Name
	}
	return
}

func scanDecls(p *pkgInfo) {
	pkg := p.short
	// pass 1: struct types, tables
	for fi, f := range p.files {
		for _, d := range f.Decls {
			gd, ok := d.(*ast.GenDecl)
			if !ok {
				continue
			}
			switch gd.Tok {
			case token.IMPORT:
			case token.TYPE:
				for _, sp := range gd.Specs {
					ts := sp.(*ast.TypeSpec)
					st, ok := ts.Type.(*ast.StructType)
					if !ok || ts.TypeParams != nil {
						fail(ts.Pos(), "only plain struct type declarations are in the grammar")
					}
					td := &TypeDef{Pkg: pkg, PkgName: p.goName, Name: ts.Name.Name, File: filepath.Join(p.dir, p.names[fi])}
					for _, fl := range st.Fields.List {
						if len(fl.Names) == 0 {
							fail(fl.Pos(), "embedded fields are outside the grammar")
						}
						for _, n := range fl.Names {
							ff := fieldOfType(pkg, fl.Type)
							ff.Name = n.Name
							td.Fields = append(td.Fields, ff)
						}
					}
					types[q(pkg, td.Name)] = td
				}
			case token.VAR:
				for _, sp := range gd.Specs {
					vs := sp.(*ast.ValueSpec)
					if len(vs.Names) != 1 || len(vs.Values) != 1 {
						fail(vs.Pos(), "unsupported package-level var")
					}
					cl, ok := vs.Values[0].(*ast.CompositeLit)
					if !ok || len(cl.Elts) != 0 {
						fail(vs.Pos(), "package-level var must be an empty factory map")
					}
					mt, ok := cl.Type.(*ast.MapType)
					if !ok || exprStr(mt.Value) != "func" {
						fail(vs.Pos(), "package-level var must be map[K]func() codec.BinaryCodec{}")
					}
					ft := mt.Value.(*ast.FuncType)
					if ft.Params.NumFields() != 0 || ft.Results.NumFields() != 1 || exprStr(ft.Results.List[0].Type) != "codec.BinaryCodec" {
						fail(vs.Pos(), "package-level var must be map[K]func() codec.BinaryCodec{}")
					}
					kt := exprStr(mt.Key)
					t := &Table{Pkg: pkg, Cache: vs.Names[0].Name, KeyGoTy: kt}
					if kt == "string" {
						t.KeyKind = "str"
					} else if _, ok := ityOf[kt]; ok {
						t.KeyKind = "num"
					} else {
						fail(vs.Pos(), "unsupported table key type %s", kt)
					}
					tables["cache:"+q(pkg, t.Cache)] = t
				}
			default:
				fail(gd.Pos(), "unsupported declaration %s", gd.Tok)
			}
		}
	}
	// pass 2: accessor functions
	for _, f := range p.files {
		for _, d := range f.Decls {
			fd, ok := d.(*ast.FuncDecl)
			if !ok || fd.Recv != nil || fd.Name.Name == "init" {
				continue
			}
			name := fd.Name.Name
			switch {
			case strings.HasPrefix(name, "Registry"):
				// func RegistryX(k K, factory func() codec.BinaryCodec) { cache[k] = factory }
				if fd.Type.Params.NumFields() != 2 || len(fd.Body.List) != 1 {
					fail(fd.Pos(), "registry function outside the grammar")
				}
				as, ok := fd.Body.List[0].(*ast.AssignStmt)
				if !ok || as.Tok != token.ASSIGN || len(as.Lhs) != 1 || len(as.Rhs) != 1 {
					fail(fd.Pos(), "registry function outside the grammar")
				}
				ix, ok := as.Lhs[0].(*ast.IndexExpr)
				if !ok {
					fail(fd.Pos(), "registry function outside the grammar")
				}
				t, ok := tables["cache:"+q(pkg, exprStr(ix.X))]
				p0 := fd.Type.Params.List[0].Names[0].Name
				p1 := fd.Type.Params.List[1].Names[0].Name
				if !ok || exprStr(ix.Index) != p0 || exprStr(as.Rhs[0]) != p1 || exprStr(fd.Type.Params.List[0].Type) != t.KeyGoTy {
					fail(fd.Pos(), "registry function outside the grammar")
				}
				t.RegFn = name
				regFnToTable[q(pkg, name)] = t
			case strings.HasPrefix(name, "New") && fd.Type.Params.NumFields() == 1:
				// func NewXByY(key K) (codec.BinaryCodec, error) { if factory, ok := cache[key]; ok { return factory(), nil }; return nil, fmt.Errorf(..) }
				if fd.Type.Results.NumFields() != 2 || len(fd.Body.List) != 2 {
					fail(fd.Pos(), "lookup function outside the grammar")
				}
				ifs, ok := fd.Body.List[0].(*ast.IfStmt)
				if !ok || ifs.Init == nil || ifs.Else != nil || len(ifs.Body.List) != 1 {
					fail(fd.Pos(), "lookup function outside the grammar")
				}
				as, ok := ifs.Init.(*ast.AssignStmt)
				if !ok || as.Tok != token.DEFINE || len(as.Lhs) != 2 || len(as.Rhs) != 1 || exprStr(ifs.Cond) != exprStr(as.Lhs[1]) {
					fail(fd.Pos(), "lookup function outside the grammar")
				}
				ix, ok := as.Rhs[0].(*ast.IndexExpr)
				if !ok {
					fail(fd.Pos(), "lookup function outside the grammar")
				}
				t, ok := tables["cache:"+q(pkg, exprStr(ix.X))]
				key := fd.Type.Params.List[0].Names[0].Name
				if !ok || exprStr(ix.Index) != key || exprStr(fd.Type.Params.List[0].Type) != t.KeyGoTy {
					fail(fd.Pos(), "lookup function outside the grammar")
				}
				ret, ok := ifs.Body.List[0].(*ast.ReturnStmt)
				if !ok || len(ret.Results) != 2 || exprStr(ret.Results[0]) != exprStr(as.Lhs[0])+"(...)" || exprStr(ret.Results[1]) != "nil" {
					fail(fd.Pos(), "lookup function outside the grammar")
				}
				if c, ok := ret.Results[0].(*ast.CallExpr); !ok || len(c.Args) != 0 {
					fail(fd.Pos(), "lookup function outside the grammar")
				}
				ret2, ok := fd.Body.List[1].(*ast.ReturnStmt)
				if !ok || len(ret2.Results) != 2 || exprStr(ret2.Results[0]) != "nil" || exprStr(ret2.Results[1]) == "nil" {
					fail(fd.Pos(), "lookup function outside the grammar")
				}
				t.Name = name
				tables[q(pkg, name)] = t
			case strings.HasPrefix(name, "New") && fd.Type.Params.NumFields() == 0:
				// func NewT() *T { return &T{} }
				if len(fd.Body.List) != 1 {
					fail(fd.Pos(), "constructor outside the grammar")
				}
				ret, ok := fd.Body.List[0].(*ast.ReturnStmt)
				if !ok || len(ret.Results) != 1 || newLit(ret.Results[0]) == "" {
					fail(fd.Pos(), "constructor outside the grammar")
				}
				tn := newLit(ret.Results[0])
				td, ok := types[q(pkg, tn)]
				if !ok {
					fail(fd.Pos(), "constructor for unknown type %s", tn)
				}
				if name == "New"+tn {
					td.HasCtor = true
				}
			default:
				// any other function of constructor shape:  func f() *T { return &T{} }
				if fd.Type.Params.NumFields() == 0 && len(fd.Body.List) == 1 {
					if ret, ok := fd.Body.List[0].(*ast.ReturnStmt); ok && len(ret.Results) == 1 && newLit(ret.Results[0]) != "" {
						if _, ok := types[q(pkg, newLit(ret.Results[0]))]; ok {
							break
						}
					}
				}
				fail(fd.Pos(), "package-level function %s is outside the grammar", name)
			}
		}
	}
	for k, t := range tables {
		if strings.HasPrefix(k, "cache:"+pkg+".") && (t.Name == "" || t.RegFn == "") {
			fail(token.NoPos, "table %s lacks its accessor functions", k)
		}
	}
}

func scanFuncs(p *pkgInfo) {
	pkg := p.short
	for _, f := range p.files {
		for _, d := range f.Decls {
			fd, ok := d.(*ast.FuncDecl)
			if !ok {
				continue
			}
			if fd.Recv == nil {
				if fd.Name.Name == "init" {
					for _, s := range fd.Body.List {
						es, ok := s.(*ast.ExprStmt)
						if !ok {
							fail(s.Pos(), "init(): only factory registrations are in the grammar")
						}
						call, ok := es.X.(*ast.CallExpr)
						if !ok || len(call.Args) != 2 {
							fail(s.Pos(), "init(): only factory registrations are in the grammar")
						}
						t, ok := regFnToTable[q(pkg, exprStr(call.Fun))]
						if !ok {
							fail(s.Pos(), "init(): unknown registration function %s", exprStr(call.Fun))
						}
						fl, ok := call.Args[1].(*ast.FuncLit)
						if !ok || len(fl.Body.List) != 1 {
							fail(s.Pos(), "init(): factory must be func() codec.BinaryCodec { return &T{} }")
						}
						ret, ok := fl.Body.List[0].(*ast.ReturnStmt)
						if !ok || len(ret.Results) != 1 || newLit(ret.Results[0]) == "" {
							fail(s.Pos(), "init(): factory must be func() codec.BinaryCodec { return &T{} }")
						}
						e := TableEntry{Target: q(pkg, newLit(ret.Results[0])), Pos: fset.Position(s.Pos()).String()}
						if t.KeyKind == "num" {
							e.KeyNum = mustInt(call.Args[0], "table key")
						} else {
							l, ok := call.Args[0].(*ast.BasicLit)
							if !ok || l.Kind != token.STRING {
								fail(s.Pos(), "init(): text key must be a string literal")
							}
							e.KeyStr, _ = strconv.Unquote(l.Value)
						}
						t.Entries = append(t.Entries, e)
					}
				}
				continue
			}
			rn, rt, ptr := recvOf(fd)
			td, ok := types[q(pkg, rt)]
			if !ok || !ptr {
				fail(fd.Pos(), "method on unknown or non-pointer receiver")
			}
			switch fd.Name.Name {
			case "String":
				continue // not part of any property
			case "Encode", "Decode":
			default:
				fail(fd.Pos(), "method %s is outside the grammar", fd.Name.Name)
			}
			if fd.Type.Params.NumFields() != 1 || exprStr(fd.Type.Params.List[0].Type) != "*bytes.Buffer" {
				fail(fd.Pos(), "%s must take one *bytes.Buffer", fd.Name.Name)
			}
			c := &ctx{pkg: pkg, td: td, recv: rn, buf: fd.Type.Params.List[0].Names[0].Name, vars: map[string]int{}}
			if fd.Name.Name == "Encode" {
				switch fd.Type.Results.NumFields() {
				case 0:
					td.EncErr = false
				case 1:
					if exprStr(fd.Type.Results.List[0].Type) != "error" {
						fail(fd.Pos(), "Encode must return error or nothing")
					}
					td.EncErr = true
				default:
					fail(fd.Pos(), "Encode must return error or nothing")
				}
				td.HasEnc = true
				td.Enc = []string{}
				n := len(fd.Body.List)
				if td.EncErr {
					if n == 0 {
						fail(fd.Pos(), "Encode must end in return nil")
					}
					if _, ok := fd.Body.List[n-1].(*ast.ReturnStmt); !ok {
						fail(fd.Pos(), "Encode must end in return nil")
					}
				}
				func() {
					defer func() {
						if r := recover(); r != nil {
							te, ok := r.(terr)
							if !ok {
								panic(r)
							}
							methodErrors = append(methodErrors, fmt.Sprintf("%s: %s", fset.Position(te.pos), te.msg))
							td.EncBad = true
						}
					}()
					body := normalizeBody(dropGrowHints(fd.Body.List, bufferParam(fd)))
					for i, s := range body {
						td.Enc = append(td.Enc, c.encStmt(s, i == len(body)-1)...)
					}
				}()
			} else {
				if fd.Type.Results.NumFields() != 1 || exprStr(fd.Type.Results.List[0].Type) != "error" {
					fail(fd.Pos(), "Decode must return error")
				}
				td.HasDec = true
				td.Dec = []string{}
				n := len(fd.Body.List)
				if n == 0 {
					fail(fd.Pos(), "Decode must end in return nil")
				}
				if _, ok := fd.Body.List[n-1].(*ast.ReturnStmt); !ok {
					fail(fd.Pos(), "Decode must end in return nil")
				}
				func() {
					defer func() {
						if r := recover(); r != nil {
							te, ok := r.(terr)
							if !ok {
								panic(r)
							}
							methodErrors = append(methodErrors, fmt.Sprintf("%s: %s", fset.Position(te.pos), te.msg))
							td.DecBad = true
						}
					}()
					body := normalizeBody(fd.Body.List)
					for i, s := range body {
						td.Dec = append(td.Dec, c.decStmt(s, i == len(body)-1)...)
					}
				}()
			}
		}
	}
}

// ---------- checksum.go ----------
type Service struct{ GoType, Name, Alg, Rt string }

var algOfType = map[string]string{"Crc16ChecksumService": "ACrc16", "Crc32ChecksumService": "ACrc32",
	"SseBinChecksumService": "ASse", "SzseBinChecksumService": "ASzse"}

func scanChecksum(root string) []Service {
	f, err := parser.ParseFile(fset, filepath.Join(root, "codec/checksum.go"), nil, 0)
	if err != nil {
		panic(terr{token.NoPos, err.Error()})
	}
	names := map[string]string{}
	rts := map[string]string{}
	var order []string
	for _, d := range f.Decls {
		fd, ok := d.(*ast.FuncDecl)
		if !ok {
			continue
		}
		if fd.Recv != nil {
			_, rt, _ := recvOf(fd)
			switch fd.Name.Name {
			case "Algorithm":
				if len(fd.Body.List) != 1 {
					fail(fd.Pos(), "Algorithm() must return a string literal")
				}
				r, ok := fd.Body.List[0].(*ast.ReturnStmt)
				if !ok || len(r.Results) != 1 {
					fail(fd.Pos(), "Algorithm() must return a string literal")
				}
				l, ok := r.Results[0].(*ast.BasicLit)
				if !ok || l.Kind != token.STRING {
					fail(fd.Pos(), "Algorithm() must return a string literal")
				}
				names[rt], _ = strconv.Unquote(l.Value)
			case "Calc":
				if fd.Type.Results.NumFields() != 1 {
					fail(fd.Pos(), "Calc must have one result")
				}
				rts[rt] = mustIty(fd.Type.Results.List[0].Type)
			}
			continue
		}
		if fd.Name.Name == "init" {
			for _, s := range fd.Body.List {
				es, ok := s.(*ast.ExprStmt)
				if !ok {
					fail(s.Pos(), "codec init(): only Registry(&T{}) is in the grammar")
				}
				call, ok := es.X.(*ast.CallExpr)
				if !ok || exprStr(call.Fun) != "Registry" || len(call.Args) != 1 || newLit(call.Args[0]) == "" {
					fail(s.Pos(), "codec init(): only Registry(&T{}) is in the grammar")
				}
				order = append(order, newLit(call.Args[0]))
			}
		}
	}
	var out []Service
	for _, t := range order {
		alg, ok := algOfType[t]
		if !ok {
			fail(token.NoPos, "checksum service type %s has no model", t)
		}
		if names[t] == "" || rts[t] == "" {
			fail(token.NoPos, "checksum service type %s lacks Algorithm/Calc", t)
		}
		out = append(out, Service{t, names[t], alg, rts[t]})
	}
	return out
}

// ---------- ordering ----------
func topo() []*TypeDef {
	var keys []string
	for k, td := range types {
		if !td.HasEnc || !td.HasDec {
			fail(token.NoPos, "type %s lacks Encode or Decode", k)
		}
		keys = append(keys, k)
	}
	sort.Strings(keys)
	state := map[string]int{}
	var post []*TypeDef
	var visit func(k string, from string)
	visit = func(k string, from string) {
		td, ok := types[k]
		if !ok {
			fail(token.NoPos, "type %s (used by %s) is not declared", k, from)
		}
		switch state[k] {
		case 1:
			fail(token.NoPos, "recursive type %s: the environment must be ordered", k)
		case 2:
			return
		}
		state[k] = 1
		deps := append([]string{}, td.Deps...)
		for _, f := range td.Fields {
			if f.Ref != "" {
				deps = append(deps, f.Ref)
			}
		}
		for _, tn := range td.TblDeps {
			for _, e := range tables[tn].Entries {
				deps = append(deps, e.Target)
			}
		}
		sort.Strings(deps)
		for _, d := range deps {
			visit(d, k)
		}
		state[k] = 2
		post = append(post, td)
	}
	for _, k := range keys {
		visit(k, "")
	}
	// users first: reverse postorder
	for i, j := 0, len(post)-1; i < j; i, j = i+1, j-1 {
		post[i], post[j] = post[j], post[i]
	}
	for i, td := range post {
		td.Id = i
	}
	return post
}

func atoi(s string) int {
	v, _ := strconv.Atoi(s)
	return v
}

func byteList(s string) string {
	parts := []string{}
	for i := 0; i < len(s); i++ {
		parts = append(parts, fmt.Sprintf("x%02x", s[i]))
	}
	return "[" + strings.Join(parts, "; ") + "]"
}

func resolve(s string, tblIds map[string]int) string {
	for {
		i := strings.Index(s, "@T{")
		if i < 0 {
			break
		}
		j := strings.Index(s[i:], "}") + i
		td, ok := types[s[i+3:j]]
		if !ok {
			fail(token.NoPos, "unknown type %s", s[i+3:j])
		}
		s = s[:i] + fmt.Sprintf("%d%%N", td.Id) + s[j+1:]
	}
	for {
		i := strings.Index(s, "@TBL{")
		if i < 0 {
			break
		}
		j := strings.Index(s[i:], "}") + i
		s = s[:i] + fmt.Sprintf("%d%%N", tblIds[s[i+5:j]]) + s[j+1:]
	}
	return s
}

func gotypeCoq(f Field) string {
	switch f.Kind {
	case "int":
		return "GInt " + f.Ity
	case "str":
		return "GStr"
	case "ints":
		return "GInts " + f.Ity
	case "strs":
		return "GStrs"
	case "ptr":
		return fmt.Sprintf("GPtr %d%%N", types[f.Ref].Id)
	case "val":
		return fmt.Sprintf("GVal %d%%N", types[f.Ref].Id)
	case "iface":
		return "GIface"
	case "ptrs":
		return fmt.Sprintf("GPtrs %d%%N", types[f.Ref].Id)
	}
	panic("kind")
}

func versionOf(root, pkg string) string {
	b, err := os.ReadFile(filepath.Join(root, pkg, "Makefile"))
	if err != nil {
		return ""
	}
	for _, line := range strings.Split(string(b), "\n") {
		if i := strings.Index(line, ".pdsl"); i >= 0 {
			// take the path component before .pdsl
			j := strings.LastIndexAny(line[:i], "/ \t")
			return line[j+1 : i]
		}
	}
	return ""
}

func main() {
	root := flag.String("repo", "/repo", "repository root")
	outCoq := flag.String("coq", "", "output Coq file")
	outJSON := flag.String("json", "", "output JSON description")
	outGo := flag.String("go", "", "output Go registry for the harness")
	outFoot := flag.String("footprint", "", "output Coq file with the global-variable footprint of every function")
	outDigests := flag.String("digests", "", "output JSON with a digest of the text of every codec function")
	outHelpers := flag.String("helpers", "", "output Coq file with the memory facts (flow graph, make sites) of codec/*.go")
	outLocks := flag.String("locks", "", "output Coq file with the lock skeletons of the checksum-service registry")
	flag.Parse()
	if *outDigests != "" {
		func() {
			defer func() { recover() }()
			writeDigests(*root, *outDigests)
		}()
	}
	if *outHelpers != "" {
		func() {
			defer func() {
				if r := recover(); r != nil {
					os.Remove(*outHelpers)
					if te, ok := r.(terr); ok {
						fmt.Fprintf(os.Stderr, "HELPERS-ERROR %s\n", te.msg)
						return
					}
					panic(r)
				}
			}()
			writeHelpers(*root, *outHelpers)
		}()
	}
	if *outLocks != "" {
		// independent of the rest: a registry outside the grammar breaks only the C19 obligation
		func() {
			defer func() {
				if r := recover(); r != nil {
					os.Remove(*outLocks)
					if te, ok := r.(terr); ok {
						where := ""
						if te.pos != token.NoPos {
							where = fset.Position(te.pos).String() + ": "
						}
						fmt.Fprintf(os.Stderr, "LOCKS-ERROR %s%s\n", where, te.msg)
						return
					}
					panic(r)
				}
			}()
			writeLocks(*root, *outLocks)
		}()
	}
	defer func() {
		if r := recover(); r != nil {
			if te, ok := r.(terr); ok {
				where := ""
				if te.pos != token.NoPos {
					where = fset.Position(te.pos).String() + ": "
				}
				fmt.Fprintf(os.Stderr, "TRANSLATOR-ERROR %s%s\n", where, te.msg)
				os.Exit(2)
			}
			panic(r)
		}
	}()
	if *outFoot != "" {
		writeFootprint(*root, *outFoot)
	}
	pkgDirs := []string{"sse-bin/messages", "szse-bin/messages", "bjse-trade-bin/messages", "risk-bin/messages", "sample-bin/messages"}
	var pkgs []*pkgInfo
	for _, d := range pkgDirs {
		pkgs = append(pkgs, parsePkg(*root, d))
	}
	for _, p := range pkgs {
		scanDecls(p)
	}
	for k := range tables {
		if strings.HasPrefix(k, "cache:") {
			delete(tables, k)
		}
	}
	for _, p := range pkgs {
		scanFuncs(p)
	}
	services := scanChecksum(*root)
	order := topo()
	var tblNames []string
	for k := range tables {
		tblNames = append(tblNames, k)
	}
	sort.Strings(tblNames)
	tblIds := map[string]int{}
	for i, k := range tblNames {
		tblIds[k] = i
		tables[k].Id = i
	}

	var sb strings.Builder
	sb.WriteString("(* GENERATED by /verif/translator from /repo on every run — do not edit, not committed. *)\n")
	sb.WriteString("From Coq Require Strings.String.\nFrom FP.Model Require Import Sem.\nImport ListNotations.\nLocal Open Scope nat_scope.\nImport Coq.Strings.String.StringSyntax.\nDelimit Scope string_scope with string.\n\n")
	for _, td := range order {
		fmt.Fprintf(&sb, "(* %d: %s.%s  (%s) *)\n", td.Id, td.Pkg, td.Name, td.File)
		var fs []string
		for _, f := range td.Fields {
			fs = append(fs, gotypeCoq(f))
		}
		var es, ds []string
		for _, s := range td.Enc {
			es = append(es, resolve(s, tblIds))
		}
		for _, s := range td.Dec {
			ds = append(ds, resolve(s, tblIds))
		}
		fmt.Fprintf(&sb, "Definition ty_%d : tydef := {|\n  ty_id := %d%%N;\n  ty_fields := [%s];\n  ty_enc := [%s];\n  ty_enc_err := %v;\n  ty_dec := [%s] |}.\n\n",
			td.Id, td.Id, strings.Join(fs, "; "), strings.Join(es, ";\n    "), td.EncErr, strings.Join(ds, ";\n    "))
	}
	var ids []string
	for _, td := range order {
		ids = append(ids, fmt.Sprintf("ty_%d", td.Id))
	}
	sb.WriteString("(* type ids by name, for property statements that mention a particular type *)\n")
	for _, td := range order {
		fmt.Fprintf(&sb, "Definition id_%s_%s : N := %d%%N.\n", strings.ReplaceAll(td.Pkg, "-", "_"), td.Name, td.Id)
	}
	sb.WriteString("\n")
	fmt.Fprintf(&sb, "Definition env : list tydef := [%s].\n\n", strings.Join(ids, "; "))
	var tbs []string
	for _, k := range tblNames {
		t := tables[k]
		var es []string
		for _, e := range t.Entries {
			td, ok := types[e.Target]
			if !ok {
				fail(token.NoPos, "table %s registers unknown type %s", k, e.Target)
			}
			if t.KeyKind == "num" {
				es = append(es, fmt.Sprintf("(TKNum %d%%N, %d%%N)", e.KeyNum, td.Id))
			} else {
				es = append(es, fmt.Sprintf("(TKStr %s, %d%%N)", byteList(e.KeyStr), td.Id))
			}
		}
		tbs = append(tbs, fmt.Sprintf("  (* %s *) (%d%%N, [%s])", k, t.Id, strings.Join(es, "; ")))
	}
	fmt.Fprintf(&sb, "Definition tables : list (N * table) := [\n%s].\n\n", strings.Join(tbs, ";\n"))
	var svs []string
	for _, s := range services {
		svs = append(svs, fmt.Sprintf("{| sv_name := %s; sv_alg := %s; sv_rt := %s |}", coqString(s.Name), s.Alg, s.Rt))
	}
	fmt.Fprintf(&sb, "Definition services : list service := [%s].\n\n", strings.Join(svs, "; "))
	sb.WriteString("Definition gen_world : world := {| w_env := env; w_tables := tables; w_reg := reg_init services |}.\n\n")
	// protocol membership and versions
	var prot []string
	for _, p := range pkgs {
		var tids []string
		for _, td := range order {
			if td.Pkg == p.short {
				tids = append(tids, fmt.Sprintf("%d%%N", td.Id))
			}
		}
		prot = append(prot, fmt.Sprintf("  (%s, [%s])", coqString(p.short), strings.Join(tids, "; ")))
	}
	fmt.Fprintf(&sb, "Definition protocols : list (String.string * list N) := [\n%s].\n\n", strings.Join(prot, ";\n"))
	var vers []string
	for _, p := range pkgs {
		vers = append(vers, fmt.Sprintf("(%s, %s)", coqString(p.short), coqString(versionOf(*root, p.short))))
	}
	fmt.Fprintf(&sb, "Definition versions : list (String.string * String.string) := [%s].\n", strings.Join(vers, "; "))
	if *outCoq != "" && len(methodErrors) == 0 {
		if err := os.WriteFile(*outCoq, []byte(sb.String()), 0o644); err != nil {
			panic(err)
		}
	}

	// JSON
	type jField struct {
		Name, Kind, Ity, Ref, GoTy string
		Wire                       string
		Le                         bool
		Cnt, Len                   string
		N, Pad                     int
		Left                       bool
		Tbl                        string
		Key                        int
		Nil                        string // what Encode does with a nil pointer/interface: panic | skip | fill-new | fill-table
	}
	type jType struct {
		Id      int
		Pkg     string
		PkgName string
		Name    string
		File    string
		Fields  []jField
		EncErr  bool
		HasCtor bool
		NEnc    int
		NDec    int
		Enc     []string
		Dec     []string
	}
	type jEntry struct {
		KeyNum uint64
		KeyStr string
		Target int
		Name   string
	}
	type jTable struct {
		Id      int
		Pkg     string
		Name    string
		KeyKind string
		Entries []jEntry
	}
	out := struct {
		Types    []jType
		Tables   []jTable
		Services []Service
		Versions map[string]string
	}{Versions: map[string]string{}}
	for _, td := range order {
		jt := jType{Id: td.Id, Pkg: td.Pkg, PkgName: td.PkgName, Name: td.Name, File: td.File, EncErr: td.EncErr, HasCtor: td.HasCtor, NEnc: len(td.Enc), NDec: len(td.Dec)}
		for _, f := range td.Fields {
			ref := ""
			if f.Ref != "" {
				ref = fmt.Sprint(types[f.Ref].Id)
			}
			jf := jField{Name: f.Name, Kind: f.Kind, Ity: f.Ity, Ref: ref, GoTy: f.GoTy, Wire: f.Kind, Key: -1}
			if sp, ok := td.Specs[len(jt.Fields)]; ok {
				jf.Wire, jf.Le, jf.Cnt, jf.Len, jf.N, jf.Pad, jf.Left = sp.Kind, sp.Le, sp.Cnt, sp.Len, sp.N, sp.Pad, sp.Left
				if sp.Ity != "" {
					jf.Ity = sp.Ity
				}
			}
			if lk, ok := td.Lookups[len(jt.Fields)]; ok {
				jf.Tbl = lk[0]
				jf.Key = atoi(lk[1])
			}
			if f.Kind == "ptr" || f.Kind == "iface" {
				jf.Nil = "panic"
				for _, st := range td.Enc {
					var a int
					if n, err := fmt.Sscanf(st, "ECall %d GIfNotNil", &a); err == nil && n == 1 && a == len(jt.Fields) {
						jf.Nil = "skip"
					}
					if n, _ := fmt.Sscanf(st, "EFillNew %d", &a); n == 1 && a == len(jt.Fields) {
						jf.Nil = "fill-new"
					}
					if n, _ := fmt.Sscanf(st, "EFill %d", &a); n == 1 && a == len(jt.Fields) {
						jf.Nil = "fill-table"
					}
				}
			}
			jt.Fields = append(jt.Fields, jf)
		}
		for _, s := range td.Enc {
			jt.Enc = append(jt.Enc, resolve(s, tblIds))
		}
		for _, s := range td.Dec {
			jt.Dec = append(jt.Dec, resolve(s, tblIds))
		}
		out.Types = append(out.Types, jt)
	}
	for _, k := range tblNames {
		t := tables[k]
		jt := jTable{Id: t.Id, Pkg: t.Pkg, Name: t.Name, KeyKind: t.KeyKind}
		for _, e := range t.Entries {
			jt.Entries = append(jt.Entries, jEntry{e.KeyNum, e.KeyStr, types[e.Target].Id, e.Target})
		}
		out.Tables = append(out.Tables, jt)
	}
	out.Services = services
	for _, p := range pkgs {
		out.Versions[p.short] = versionOf(*root, p.short)
	}
	if *outJSON != "" {
		b, _ := json.MarshalIndent(out, "", " ")
		if err := os.WriteFile(*outJSON, b, 0o644); err != nil {
			panic(err)
		}
	}

	// Go registry for the harness
	if *outGo != "" {
		var g strings.Builder
		g.WriteString("// Code generated by /verif/translator. DO NOT EDIT.\npackage main\n\nimport (\n")
		alias := map[string]string{}
		for _, p := range pkgs {
			a := strings.ReplaceAll(p.short, "-", "_")
			alias[p.short] = a
			fmt.Fprintf(&g, "\t%s \"github.com/xinchentechnote/fin-proto-go/%s\"\n", a, p.dir)
		}
		g.WriteString(")\n\nvar genTypes = []genType{\n")
		for _, td := range order {
			lenF, bodyF, sumF, alg := -1, -1, -1, ""
			for _, st := range td.Enc {
				var a, b2 int
				var nm, rt, from string
				if n, _ := fmt.Sscanf(st, "ESetLen %d", &a); n == 1 {
					lenF = a
				}
				if n, err := fmt.Sscanf(st, "ECall %d GIfNotNil", &a); err == nil && n == 1 && td.Fields[a].Kind == "iface" {
					bodyF = a
				}
				if strings.HasPrefix(st, "ESum ") {
					parts := strings.Fields(st)
					nm, rt, from = parts[1], parts[2], parts[3]
					_, _ = rt, from
					fmt.Sscanf(parts[len(parts)-1], "%d", &b2)
					sumF = b2
					alg = strings.TrimSuffix(strings.Trim(nm, "\""), "\"%string")
				}
			}
			fmt.Fprintf(&g, "\t{%d, %q, %q, func() any { return &%s.%s{} }, %v, genFrame{%d, %d, %d, %q}, []genField{", td.Id, td.Pkg, td.Name, alias[td.Pkg], td.Name, td.EncErr, lenF, bodyF, sumF, alg)
			for i, f := range td.Fields {
				sp, ok := td.Specs[i]
				if !ok {
					sp = Spec{Kind: f.Kind, Tbl: -1, Key: -1}
				}
				ref := -1
				if f.Ref != "" {
					ref = types[f.Ref].Id
				}
				if lk, ok := td.Lookups[i]; ok {
					sp.Tbl = tblIds[lk[0]]
					sp.Key = atoi(lk[1])
				}
				fmt.Fprintf(&g, "{%q, %q, %q, %v, %q, %q, %q, %d, %d, %v, %d, %d, %d}, ", f.Name, f.Kind, sp.Kind, sp.Le, sp.Ity, sp.Cnt, sp.Len, sp.N, sp.Pad, sp.Left, ref, sp.Tbl, sp.Key)
			}
			g.WriteString("}},\n")
		}
		g.WriteString("}\n\nvar genTables = []genTable{\n")
		for _, k := range tblNames {
			t := tables[k]
			fmt.Fprintf(&g, "\t{%d, %q, %q, %q, []genEntry{", t.Id, t.Pkg, t.Name, t.KeyKind)
			for _, e := range t.Entries {
				fmt.Fprintf(&g, "{%d, %q, %d}, ", e.KeyNum, e.KeyStr, types[e.Target].Id)
			}
			g.WriteString("}},\n")
		}
		g.WriteString("}\n")
		if err := os.WriteFile(*outGo, []byte(g.String()), 0o644); err != nil {
			panic(err)
		}
	}
	if len(methodErrors) > 0 {
		for _, e := range methodErrors {
			fmt.Fprintf(os.Stderr, "TRANSLATOR-ERROR %s\n", e)
		}
		os.Exit(2)
	}
	fmt.Printf("translated %d types, %d tables, %d services\n", len(order), len(tblNames), len(services))
}
