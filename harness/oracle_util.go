package main

// oracle_util.go — shared helpers for the message-level oracles.

import (
	"bytes"
	"encoding/hex"
	"fmt"
	"reflect"
)

func cloneMsg(m any) any { return parseMsg(dumpMsg(m)) }

func encodeInto(m any, pre, consumed []byte, spare int) (status string, out []byte, buf *bytes.Buffer) {
	buf = mkBuffer(consumed, pre, spare)
	status = callEncode(m, buf)
	if status == "ok" {
		out = append([]byte{}, buf.Bytes()...)
	}
	return
}

// "a buffer with nothing to read in it" comes in several shapes; the bytes an Encode appends must not depend on which
var bufShapeCounter int
var lastBufShape string

func encodeFresh(m any) (string, []byte) {
	bufShapeCounter++
	return encodeFreshShape(m, bufShapeCounter)
}

// the shape is chosen by idx%5 (idx also varies the sizes within a shape)
func encodeFreshShape(m any, idx int) (string, []byte) {
	bufShapeCounter := idx
	var consumed []byte
	spare := 0
	switch bufShapeCounter % 5 {
	case 0:
		lastBufShape = "zero-value"
	case 1:
		lastBufShape = "reset-with-large-stale-capacity"
		spare = 4096
	case 2:
		lastBufShape = "partly-consumed-tight"
		consumed = []byte{0xde, 0xad, 0xbe, 0xef, 0x01, 0x02, 0x03}
		spare = bufShapeCounter % 23
	case 3:
		lastBufShape = "small-stale-capacity"
		spare = 1 + bufShapeCounter%61
	case 4:
		lastBufShape = "consumed-with-stale-capacity"
		consumed = bytes.Repeat([]byte{0x55}, 60)
		spare = 16 + bufShapeCounter%200
	}
	st, out, _ := encodeInto(m, nil, consumed, spare)
	return st, out
}

func decodeInto(recv any, in []byte) (status string, rest []byte) {
	// the input sits in a buffer with a consumed prefix and stale bytes beyond its end now and then
	bufShapeCounter++
	var buf *bytes.Buffer
	switch bufShapeCounter % 3 {
	case 0:
		buf = bytes.NewBuffer(append([]byte{}, in...))
	case 1:
		buf = mkBuffer(nil, in, 9+bufShapeCounter%40)
	default:
		buf = mkBuffer([]byte{0xaa, 0xbb, 0xcc}, in, bufShapeCounter%13)
	}
	before := buf.Bytes()
	status = callDecode(recv, buf)
	if status == "ok" {
		rest = append([]byte{}, buf.Bytes()...)
	}
	// the caller now reuses its buffer for something else: whatever Decode returned must not change with it
	before = before[:cap(before)]
	for i := range before {
		before[i] = byte(0x3c + 11*i)
	}
	return
}

// encodeShaped encodes m into an empty buffer of a named shape (used where the shape matters for the property at hand)
func encodeShaped(m any, shape string, prior any) (string, []byte) {
	lastBufShape = shape
	switch shape {
	case "pre-grown-4MiB":
		buf := &bytes.Buffer{}
		buf.Grow(4 << 20)
		st := callEncode(m, buf)
		if st == "ok" {
			return st, append([]byte{}, buf.Bytes()...)
		}
		return st, nil
	case "reset-after-a-large-legal-message":
		buf := &bytes.Buffer{}
		if prior != nil {
			callEncode(prior, buf)
		}
		buf.Reset()
		st := callEncode(m, buf)
		if st == "ok" {
			return st, append([]byte{}, buf.Bytes()...)
		}
		return st, nil
	}
	return encodeFresh(m)
}

func hx(b []byte) string { return hex.EncodeToString(b) }

func scalarWidthOfField(t *genType, i int) int {
	f := t.Fields[i]
	if f.Ity != "" {
		return widthOf[f.Ity]
	}
	rt := reflect.TypeOf(t.New()).Elem().Field(i).Type
	return int(rt.Size())
}

// frame geometry: header width (fields before the length field)
func frameHdrWidth(t *genType) int {
	w := 0
	for i := 0; i < t.Frame.Len; i++ {
		w += scalarWidthOfField(t, i)
	}
	return w
}

func frameLE(t *genType) bool {
	// byte order of the frame's scalar fields as declared by its first written scalar
	for _, f := range t.Fields {
		if f.Wire == "basic" {
			return f.Le
		}
	}
	return false
}

func getUint(b []byte, le bool) uint64 {
	var v uint64
	for i := range b {
		if le {
			v |= uint64(b[i]) << (8 * uint(i))
		} else {
			v = v<<8 | uint64(b[i])
		}
	}
	return v
}

func putUint(b []byte, le bool, v uint64) {
	for i := range b {
		if le {
			b[i] = byte(v >> (8 * uint(i)))
		} else {
			b[len(b)-1-i] = byte(v >> (8 * uint(i)))
		}
	}
}

var frameTypes []*genType
var ifaceTypes []*genType

func initFrames() {
	for i := range genTypes {
		t := &genTypes[i]
		if t.Frame.Len >= 0 {
			frameTypes = append(frameTypes, t)
		}
		if hasIface(t) {
			ifaceTypes = append(ifaceTypes, t)
		}
	}
}

// a message of type t whose iface field (if any) holds the body for table entry e
func (r *rng) genWithEntry(t *genType, e genEntry, o genOpts) any {
	m := r.genMessage(t, o)
	ev := reflect.ValueOf(m).Elem()
	for i := range t.Fields {
		f := &t.Fields[i]
		if f.Kind != "iface" || f.Tbl < 0 {
			continue
		}
		tb := tableById[f.Tbl]
		kv := ev.Field(f.Key)
		if tb.KeyKind == "num" {
			setBits(kv, e.KeyNum)
		} else {
			kv.SetString(e.KeyStr)
		}
		tt, ok := typeById[e.Target]
		if ok {
			ev.Field(i).Set(reflect.ValueOf(r.genMessage(tt, o)))
		}
	}
	return m
}

func ifaceField(t *genType) *genField {
	for i := range t.Fields {
		if t.Fields[i].Kind == "iface" && t.Fields[i].Tbl >= 0 {
			return &t.Fields[i]
		}
	}
	return nil
}

func ifaceIndex(t *genType) int {
	for i := range t.Fields {
		if t.Fields[i].Kind == "iface" && t.Fields[i].Tbl >= 0 {
			return i
		}
	}
	return -1
}

// receivers with a history: earlier successful decodes, failed decodes (truncated input, unknown
// key), random fills
func (r *rng) dirtyReceiver(t *genType) (recv any, how string) {
	recv = t.New()
	switch r.intn(5) {
	case 0:
		return r.genMessage(t, genOpts{}), "random-fill"
	case 1:
		return r.genMessage(t, genOpts{nilBody: 3}), "random-fill-mismatched-body"
	}
	steps := 1 + r.intn(3)
	for s := 0; s < steps; s++ {
		m := r.genMessage(t, genOpts{canonical: true})
		st, enc := encodeFresh(m)
		if st != "ok" {
			continue
		}
		switch r.intn(4) {
		case 0, 1:
			callDecode(recv, bytes.NewBuffer(enc))
			how += "ok;"
		case 2:
			if len(enc) > 1 {
				callDecode(recv, bytes.NewBuffer(enc[:1+r.intn(len(enc)-1)]))
				how += "truncated;"
			}
		case 3:
			m2 := r.genMessage(t, genOpts{canonical: true, nilBody: 2})
			if st2, enc2 := encodeFresh(m2); st2 == "ok" {
				callDecode(recv, bytes.NewBuffer(enc2))
				how += "unknown-key;"
			} else if len(enc) > 0 {
				callDecode(recv, bytes.NewBuffer(r.mutateBytes(enc)))
				how += "mutated;"
			}
		}
	}
	return recv, "history:" + how
}

func (r *rng) history(lastFrames [][]byte) (pre, consumed []byte, desc string, spare int) {
	spare = r.intn(3) * 32
	switch r.intn(5) {
	case 0:
		pre = r.bytes(1 + r.intn(40))
		desc = "random-prior"
	case 1:
		if len(lastFrames) > 0 {
			for k := 0; k < 1+r.intn(2); k++ {
				pre = append(pre, lastFrames[r.intn(len(lastFrames))]...)
			}
			desc = "earlier-frames"
		}
	case 2:
		pre = r.bytes(100 + r.intn(200))
		desc = "long-prior"
	case 3:
		// a receive buffer most of which has been read already: little unread, room for a header but not for a
		// body, so that bytes.Buffer slides its contents down (or reallocates) in the middle of the Encode
		consumed = r.bytes(150 + r.intn(400))
		pre = r.bytes(1 + r.intn(24))
		spare = 12 + r.intn(100)
		return pre, consumed, "mostly-consumed-tight", spare
	}
	if r.chance(1, 3) {
		consumed = r.bytes(1 + r.intn(30))
		desc += "+consumed"
	}
	if desc == "" {
		desc = "empty"
	}
	return
}

func rounds(rep *report, quick, thorough int) int {
	if rep.thorough {
		return thorough
	}
	return quick
}

func inputOf(t *genType, kv ...any) map[string]any {
	m := map[string]any{"type": t.QName(), "type_id": t.Id}
	for i := 0; i+1 < len(kv); i += 2 {
		m[fmt.Sprint(kv[i])] = kv[i+1]
	}
	return m
}

// a message of (frame or plain) type t whose Encode returns an error, if one can be built
func (r *rng) failingMessage(t *genType) any {
	// oversize list / text somewhere below t
	var build func(t *genType, depth int) (any, bool)
	build = func(t *genType, depth int) (any, bool) {
		if depth > 2 {
			return nil, false
		}
		m := r.genMessage(t, genOpts{canonical: true})
		ev := reflect.ValueOf(m).Elem()
		for i := range t.Fields {
			f := &t.Fields[i]
			switch {
			case (f.Wire == "basiclist" || f.Wire == "fixedlist" || f.Wire == "stringlist") && prefixMax(f.Cnt) <= 65535:
				n := prefixMax(f.Cnt) + 1
				ev.Field(i).Set(reflect.MakeSlice(ev.Field(i).Type(), n, n))
				return m, true
			case f.Wire == "string" && prefixMax(f.Len) <= 65535:
				ev.Field(i).SetString(string(make([]byte, prefixMax(f.Len)+1)))
				return m, true
			case f.Kind == "iface" && f.Tbl >= 0 && t.Frame.Body < 0 && r.chance(1, 2):
				// an extension left out under a discriminator nobody registered: the encoder's fill-in fails
				// after the fields before it have been written
				tb := tableById[f.Tbl]
				kv := ev.Field(f.Key)
				if tb.KeyKind == "num" {
					setBits(kv, r.unregisteredNum(tb))
				} else {
					kv.SetString(r.unregisteredStr(tb))
				}
				ev.Field(i).Set(reflect.Zero(ev.Field(i).Type()))
				return m, true
			case f.Kind == "iface" && f.Tbl >= 0:
				tb := tableById[f.Tbl]
				for _, e := range tb.Entries {
					if b, ok := build(typeById[e.Target], depth+1); ok {
						kv := ev.Field(f.Key)
						if tb.KeyKind == "num" {
							setBits(kv, e.KeyNum)
						} else {
							kv.SetString(e.KeyStr)
						}
						ev.Field(i).Set(reflect.ValueOf(b))
						return m, true
					}
				}
			}
		}
		return nil, false
	}
	m, ok := build(t, 0)
	if !ok {
		return nil
	}
	return m
}

// wrapSizeMessages: messages of type t in which one list behind a 16-bit count is just long enough that
// (count x element size) passes 2^16 - a size computed in the prefix type wraps there.  One message per such list
// field; the element width is the width of the scalar / fixed text, or the encoded size of one nested element.
func wrapSizeMessages(r *rng, t *genType) (out []any, descs []string) {
	for i := range t.Fields {
		f := &t.Fields[i]
		if prefixMax(f.Cnt) != 65535 {
			continue
		}
		w := 0
		var elem any
		switch {
		case f.Kind == "ints":
			w = widthOf[f.Ity]
		case f.Kind == "strs" && f.Wire == "fixedlist":
			w = f.N
		case f.Kind == "ptrs":
			forceListLen = 0
			elem = r.genMessage(typeById[f.Ref], genOpts{canonical: true})
			st, enc := encodeFresh(cloneMsg(elem))
			if st != "ok" {
				continue
			}
			w = len(enc)
		}
		if w < 2 {
			continue
		}
		for _, mult := range []int{1, 2} {
			n := mult*65536/w + 1 + r.intn(2)
			if n > 65535 {
				continue
			}
			m := r.genMessage(t, genOpts{canonical: true})
			fv := reflect.ValueOf(m).Elem().Field(i)
			sl := reflect.MakeSlice(fv.Type(), n, n)
			for j := 0; j < n; j++ {
				switch f.Kind {
				case "ints":
					setBits(sl.Index(j), r.scalarBits(f.Ity))
				case "strs":
					sl.Index(j).SetString(r.fixedText(f, true))
				case "ptrs":
					sl.Index(j).Set(reflect.ValueOf(elem))
				}
			}
			fv.Set(sl)
			out = append(out, m)
			descs = append(descs, fmt.Sprintf("field %s: %d elements of %d bytes = %d bytes", f.Name, n, w, n*w))
		}
	}
	return
}
