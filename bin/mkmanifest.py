#!/usr/bin/env python3
"""Regenerates MANIFEST.json from the table below (claimed checks) and properties.jsonl (everything else -> not_applicable)."""
import json, os
V = os.path.dirname(os.path.dirname(os.path.abspath(__file__)))
NOTE = ("Trusted: Coq 8.16.1 kernel incl. vm_compute (no native_compute, no axioms: every Print Assumptions says 'Closed under the global context'); "
        "the Go-AST translator (one statement -> one IR constructor), validated every run by message-level correspondence; the hand-written codec/checksum model, "
        "tied by differential correspondence (extracted OCaml model vs real Go); extraction with ExtrOcamlBasic only + OCaml driver; the Go harness. "
        "Modelled, not verified: bytes.Buffer (as the list of unread bytes), encoding/binary, io.ReadFull, hash/crc32, Go integer conversions. ")
CLAIMS = {
 "C04": ("Theorem C04_frame_body_length over the regenerated programs: for every frame type with a computed length, every well-typed frame object and every buffer content, the 4 bytes after the header hold the number of bytes the body's own Encode produces, followed by exactly those bytes; the object reports the same number. Obtained from the encode refinement theorem (enc_refines: the literal statement sequence incl. buf.Len() offsets and the in-place PutUint32 patch equals the schema semantics on every buffer) re-instantiated on /repo's current code each run (H_infer by vm_compute).",
         "Coq proof: refinement of the translated Encode statements to a frame schema + induction; translator + correspondence tie", "DESIGN.md §6 C04"),
 "C05": ("Theorem C05_frame_checksum: for every checksummed frame type, all well-typed objects, all buffers: trailer = service algorithm over exactly header ++ corrected length ++ body (nothing already in the buffer), object reports the same; H_sums: each frame finds its service with the asserted result type; SSE/SZSE algorithm = byte sum mod 256 (C14 theorems).",
         "Coq proof: refinement to the frame schema (checksum span = frame) + checksum theorems; translator + correspondence tie", "DESIGN.md §6 C05"),
 "C06": ("Theorems C06_append_only_context_free / C06_failure_context_free / C06_sequences_concatenate for all 170 recognised types, all well-typed messages, all buffer contents: Encode appends exactly the bytes it appends to an empty buffer, alters nothing before them, fails identically on any buffer; sequences concatenate (induction over the message list). Consumed bytes are outside the modelled buffer (no primitive can reach them); the correspondence check covers partly consumed buffers. Repeatability of re-encoding is covered by the direct oracle (theorem: work in progress).",
         "Coq proof: encode refinement theorem + induction over operation sequences; translator + correspondence tie", "DESIGN.md §6 C06"),
 "C13": ("Theorems for all widths N >= 0, all pad runes, both sides, all byte strings: write emits exactly N bytes (cut to the first N / verbatim / padded with byte(pad) on the pad side); read consumes exactly N bytes and strips only a maximal run of the pad byte on the pad side (decomposition theorem: field = result ++ pad run, result does not end/begin with the pad); round-trip for canonical text and re-encode for every N-byte field. The model functions write_fixed/read_fixed and their list forms are tied to WriteFixedString*/ReadFixedString* by correspondence over all 256 pad bytes x both sides x widths 0..16 and a direct oracle against an independent specification.",
         "Coq proof (lists, induction) over the hand-written helper model + correspondence check", "DESIGN.md §6 C13"),
 "C14": ("Theorems (all byte strings): SSE_BIN and SZSE_BIN = byte sum mod 256 in 0..255 (the int32 SZSE result is never negative); CRC-16/CRC-32 catalogue check values; the four Calc models are tied to checksum.go by differential correspondence (8k+ inputs per run incl. 64 KiB and high-bit inputs) and a direct oracle against independent table-driven references, which also checks that Calc neither consumes nor modifies its buffer.",
         "Coq proof (induction over the byte list) + correspondence check", "DESIGN.md §6 C14"),
 "C15": ("Theorems C15_receiver_independent / C15_same_as_fresh for all 170 recognised types, all byte strings, all receivers of the right shape (any scalars, text, lists, bodies; nested pointers nil or not): Decode's outcome is a function of the bytes only. From the decode refinement theorem (dec_refines: the translated Decode statements equal a receiver-free schema parser), re-instantiated on /repo every run.",
         "Coq proof: decode refinement theorem (receiver-free specification); translator + correspondence tie", "DESIGN.md §6 C15"),
 "C18": ("Theorems: for every prefixed-text and list primitive, every prefix type and every length: a length >= 2^(8*prefix width) makes the writer return an error (w_prim_overflow_refused), success implies the length fits and the prefix written is the true length (w_prim_ok_fits), an over-long element of a text list is refused; for every recognised message type and every well-typed value on every buffer: Encode succeeding implies every prefixed field fits (C18_success_means_every_length_fits), a message with an over-long field never encodes successfully, a frame encodes only if its body does; H_propagate: no call site drops a fallible writer's error. Helper model tied by correspondence at lengths 255/256/65535/65536.",
         "Coq proof over the helper model and the schema semantics + encode refinement; translator + correspondence tie", "DESIGN.md §6 C18"),
}
def entry(pid, text, tech, ref):
    return {"property_id": pid, "quick_cmd": f"bin/verif check {pid} --tier quick", "thorough_cmd": f"bin/verif check {pid} --tier thorough",
            "evidence_file": f"evidence/{pid}.json", "replay_cmd_template": "bin/verif replay {path}", "engine": "coq-proof+correspondence",
            "level_claimed": {"category": "proof", "text": text, "design_ref": ref}, "level_note": NOTE, "technique": tech}
ids = [json.loads(l)["id"] for l in open(os.path.join(V, "properties.jsonl"))]
m = {"version": 1, "setup_cmd": "bin/verif setup",
     "hooks": {"guard": "verif", "enable": "none needed: all observation is through exported API, source text and runtime.MemStats; the tag name 'verif' is reserved", "baseline_off_cmd": "cd /repo && GOFLAGS=-mod=mod GOPROXY=off go test -vet=off -count=1 ./...", "source_commits": [], "add_only": True},
     "engines": [{"name": "coq-proof+correspondence", "path": "bin/verif", "serves_properties": sorted(CLAIMS), "kind_free_text": "Coq 8.16.1 theorems over an executable Gallina model; model tied to /repo by a Go-AST translator (message programs, regenerated every run) and a differential correspondence check (extracted OCaml model vs real Go code); direct Go oracles search for the failing input"}],
     "checks": [entry(p, *CLAIMS[p]) for p in sorted(CLAIMS)],
     "not_applicable": [{"property_id": i, "reason": "check under construction in this session: direct oracle exists, theorem and registration follow"} for i in ids if i not in CLAIMS],
     "notes": "fix: commits in /repo (one per defect found on the pinned tree) are listed in known_findings.json as fixed."}
json.dump(m, open(os.path.join(V, "MANIFEST.json"), "w"), indent=1)
print("claimed:", sorted(CLAIMS))
