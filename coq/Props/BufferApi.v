(* Props/BufferApi.v — the library touches a bytes.Buffer only through what Model/Buffer.v models.
   [Helpers.buffer_methods] / [Helpers.buffer_sinks] are extracted with go/types from codec/*.go and the five messages
   packages on every run: the methods called on a value of type bytes.Buffer, and the functions outside the module that
   are handed one.  (encoding/binary.Write calls Write once; encoding/binary.Read and io.ReadFull call Read: read
   from the standard library's text, trusted.)  Part of the checks of C04, C06 and C16. *)
From Coq Require Import List Bool Strings.String.
Import ListNotations.
From FP.Gen Require Helpers.
Local Open Scope string_scope.

Definition modelled_buffer_methods : list string :=
  ["Write"; "WriteString"; "Read"; "Next"; "Bytes"; "Len"; "Cap"; "Reset"; "Grow"].
Definition modelled_buffer_sinks : list string :=
  ["encoding/binary.Write"; "encoding/binary.Read"; "io.ReadFull"].

Definition all_in (allowed used : list string) : bool :=
  forallb (fun m => existsb (String.eqb m) allowed) used.

Lemma H_buffer_api :
  all_in modelled_buffer_methods Helpers.buffer_methods && all_in modelled_buffer_sinks Helpers.buffer_sinks = true.
Proof. vm_compute. reflexivity. Qed.

(* non-vacuity: the library does write to and read from buffers *)
Example buffer_api_nonvacuous :
  existsb (String.eqb "Write") Helpers.buffer_methods && existsb (String.eqb "io.ReadFull") Helpers.buffer_sinks = true.
Proof. vm_compute. reflexivity. Qed.
