package main

// value.go — reflection bridge between Go message objects and the model's positional values.
// Text form (shared with driver/main.ml):
//   v ::= i HEX | s HEX | I( HEX; .. ) | S( HEX; .. ) | o TID ( v v .. ) | O( v v .. ) | n

import (
	"encoding/hex"
	"fmt"
	"math"
	"reflect"
	"strconv"
	"strings"
)

type genField struct {
	Name   string
	Kind   string // int str ints strs ptr val iface ptrs
	Wire   string // basic fixed string basiclist fixedlist stringlist objlist | (kind again when the field has no direct write)
	Le     bool
	Ity    string
	Cnt    string
	Len    string
	N      int
	Pad    int
	Left   bool
	Ref    int
	Tbl    int
	Key    int
}

type genFrame struct {
	Len, Body, Sum int // field indices; -1 when absent
	Alg            string
}

type genType struct {
	Id     int
	Pkg    string
	Name   string
	New    func() any
	EncErr bool
	Frame  genFrame
	Fields []genField
}

type genEntry struct {
	KeyNum uint64
	KeyStr string
	Target int
}

type genTable struct {
	Id      int
	Pkg     string
	Name    string
	KeyKind string
	Entries []genEntry
}

var typeById = map[int]*genType{}
var typeByRT = map[reflect.Type]*genType{}
var tableById = map[int]*genTable{}

func initRegistry() {
	for i := range genTypes {
		t := &genTypes[i]
		typeById[t.Id] = t
		typeByRT[reflect.TypeOf(t.New()).Elem()] = t
	}
	for i := range genTables {
		tableById[genTables[i].Id] = &genTables[i]
	}
}

func (t *genType) QName() string { return t.Pkg + "." + t.Name }

var widthOf = map[string]int{"I8": 1, "I16": 2, "I32": 4, "I64": 8, "U8": 1, "U16": 2, "U32": 4, "U64": 8, "F32": 4, "F64": 8}

// scalar -> bit pattern
func bitsOf(v reflect.Value) uint64 {
	switch v.Kind() {
	case reflect.Uint8, reflect.Uint16, reflect.Uint32, reflect.Uint64:
		return v.Uint()
	case reflect.Int8:
		return uint64(uint8(v.Int()))
	case reflect.Int16:
		return uint64(uint16(v.Int()))
	case reflect.Int32:
		return uint64(uint32(v.Int()))
	case reflect.Int64:
		return uint64(v.Int())
	case reflect.Float32:
		return uint64(math.Float32bits(float32(v.Float())))
	case reflect.Float64:
		return math.Float64bits(v.Float())
	}
	panic("bitsOf: " + v.Kind().String())
}

func setBits(v reflect.Value, b uint64) {
	switch v.Kind() {
	case reflect.Uint8, reflect.Uint16, reflect.Uint32, reflect.Uint64:
		v.SetUint(b & (^uint64(0) >> (64 - 8*uint(v.Type().Size()))))
	case reflect.Int8:
		v.SetInt(int64(int8(b)))
	case reflect.Int16:
		v.SetInt(int64(int16(b)))
	case reflect.Int32:
		v.SetInt(int64(int32(b)))
	case reflect.Int64:
		v.SetInt(int64(b))
	case reflect.Float32:
		// SetFloat would go through float64 and may quiet a signalling NaN: write the bits directly
		*(v.Addr().Interface().(*float32)) = math.Float32frombits(uint32(b))
	case reflect.Float64:
		*(v.Addr().Interface().(*float64)) = math.Float64frombits(b)
	default:
		panic("setBits: " + v.Kind().String())
	}
}

// float32 values must be dumped without passing through float64 (NaN payloads)
func bitsOfField(v reflect.Value) uint64 {
	if v.Kind() == reflect.Float32 && v.CanAddr() {
		return uint64(math.Float32bits(*(v.Addr().Interface().(*float32))))
	}
	return bitsOf(v)
}

// dumpMsg prints the object pointed to by m (a *T for a registered T)
func dumpMsg(m any) string {
	var sb strings.Builder
	dumpObj(&sb, reflect.ValueOf(m))
	return sb.String()
}

func dumpObj(sb *strings.Builder, p reflect.Value) {
	// p is a pointer to struct (possibly nil) or a struct value
	if p.Kind() == reflect.Interface {
		if p.IsNil() {
			sb.WriteString("n")
			return
		}
		p = p.Elem()
	}
	if p.Kind() == reflect.Ptr {
		if p.IsNil() {
			sb.WriteString("n")
			return
		}
		p = p.Elem()
	}
	t, ok := typeByRT[p.Type()]
	if !ok {
		panic("dump: unregistered type " + p.Type().String())
	}
	fmt.Fprintf(sb, "o%d(", t.Id)
	for i, f := range t.Fields {
		if i > 0 {
			sb.WriteByte(' ')
		}
		fv := p.Field(i)
		switch f.Kind {
		case "int":
			fmt.Fprintf(sb, "i%x", bitsOfField(fv))
		case "str":
			sb.WriteString("s" + hex.EncodeToString([]byte(fv.String())))
		case "ints":
			sb.WriteString("I(")
			for j := 0; j < fv.Len(); j++ {
				fmt.Fprintf(sb, "%x;", bitsOfField(fv.Index(j)))
			}
			sb.WriteString(")")
		case "strs":
			sb.WriteString("S(")
			for j := 0; j < fv.Len(); j++ {
				sb.WriteString(hex.EncodeToString([]byte(fv.Index(j).String())) + ";")
			}
			sb.WriteString(")")
		case "ptr", "iface":
			dumpObj(sb, fv)
		case "val":
			dumpObj(sb, fv.Addr())
		case "ptrs":
			sb.WriteString("O(")
			for j := 0; j < fv.Len(); j++ {
				if j > 0 {
					sb.WriteByte(' ')
				}
				dumpObj(sb, fv.Index(j))
			}
			sb.WriteString(")")
		default:
			panic("dump kind " + f.Kind)
		}
	}
	sb.WriteString(")")
}

// ---------- parsing (replay / corpus) ----------
type vparser struct {
	s   string
	pos int
}

func (p *vparser) peek() byte {
	if p.pos < len(p.s) {
		return p.s[p.pos]
	}
	return 0
}
func (p *vparser) ws() {
	for p.pos < len(p.s) && p.s[p.pos] == ' ' {
		p.pos++
	}
}
func (p *vparser) hex() string {
	st := p.pos
	for p.pos < len(p.s) && strings.IndexByte("0123456789abcdef", p.s[p.pos]) >= 0 {
		p.pos++
	}
	return p.s[st:p.pos]
}
func (p *vparser) expect(c byte) {
	if p.peek() != c {
		panic(fmt.Sprintf("value parse: expected %c at %d in %q", c, p.pos, p.s))
	}
	p.pos++
}

// parseMsg builds a Go object from text; returns nil for "n"
func parseMsg(s string) any {
	p := &vparser{s: s}
	v := p.obj()
	p.ws()
	if p.pos != len(s) {
		panic("value parse: trailing text")
	}
	if !v.IsValid() {
		return nil
	}
	return v.Interface()
}

// obj returns a pointer-to-struct reflect.Value, or invalid for nil
func (p *vparser) obj() reflect.Value {
	p.ws()
	if p.peek() == 'n' {
		p.pos++
		return reflect.Value{}
	}
	p.expect('o')
	st := p.pos
	for p.pos < len(p.s) && p.s[p.pos] >= '0' && p.s[p.pos] <= '9' {
		p.pos++
	}
	id, _ := strconv.Atoi(p.s[st:p.pos])
	t, ok := typeById[id]
	if !ok {
		panic(fmt.Sprintf("value parse: unknown type id %d", id))
	}
	p.expect('(')
	m := reflect.ValueOf(t.New())
	e := m.Elem()
	for i, f := range t.Fields {
		p.ws()
		fv := e.Field(i)
		switch f.Kind {
		case "int":
			p.expect('i')
			b, _ := strconv.ParseUint(p.hex(), 16, 64)
			setBits(fv, b)
		case "str":
			p.expect('s')
			b, _ := hex.DecodeString(p.hex())
			fv.SetString(string(b))
		case "ints":
			p.expect('I')
			p.expect('(')
			sl := reflect.MakeSlice(fv.Type(), 0, 0)
			for p.peek() != ')' {
				b, _ := strconv.ParseUint(p.hex(), 16, 64)
				p.expect(';')
				ev := reflect.New(fv.Type().Elem()).Elem()
				setBits(ev, b)
				sl = reflect.Append(sl, ev)
			}
			p.expect(')')
			fv.Set(sl)
		case "strs":
			p.expect('S')
			p.expect('(')
			sl := reflect.MakeSlice(fv.Type(), 0, 0)
			for p.peek() != ')' {
				b, _ := hex.DecodeString(p.hex())
				p.expect(';')
				sl = reflect.Append(sl, reflect.ValueOf(string(b)))
			}
			p.expect(')')
			fv.Set(sl)
		case "ptr", "iface":
			o := p.obj()
			if o.IsValid() {
				fv.Set(o)
			}
		case "val":
			o := p.obj()
			if !o.IsValid() {
				panic("value parse: nil for a struct-valued field")
			}
			fv.Set(o.Elem())
		case "ptrs":
			p.expect('O')
			p.expect('(')
			sl := reflect.MakeSlice(fv.Type(), 0, 0)
			for {
				p.ws()
				if p.peek() == ')' {
					break
				}
				o := p.obj()
				if o.IsValid() {
					sl = reflect.Append(sl, o)
				} else {
					sl = reflect.Append(sl, reflect.Zero(fv.Type().Elem()))
				}
			}
			p.expect(')')
			fv.Set(sl)
		}
	}
	p.ws()
	p.expect(')')
	return m
}
